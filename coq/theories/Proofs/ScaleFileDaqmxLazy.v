(* C13 / C11 / C14: lazy = eager for SCALED DAQmx channels, on the FILE BYTES.

   Proofs/ScaleFile.v reads scaled data from file bytes eagerly (plain and DAQmx channels)
   and lazily for PLAIN channels only (Model/LazyBytes has plain data only).
   Proofs/TruncLazyDaqmxLazy.v has the byte-level lazy read of ONE scaler of a DaqMxRawData
   channel ([lz_read_scaler_bytes]) and [daqmx_lazy_windows]: every window of every scaler
   is the window of the eager per-scaler values.  This file composes the two with C13's
   [channel_elementwise].

   THE READ  (nptdms/tdms.py TdmsChannel.read_data(offset, length) on TdmsFile.open)

       def read_data(self, offset=0, length=None, scaled=True):
           if self._raw_data is None:
               raw_data = self._read_channel_data(offset, length)
           ...
           if scaled:
               return self._scale_data(raw_data)

       def _read_channel_data(self, offset=0, length=None):
           if offset < 0: raise ValueError(...)
           if length is not None and length < 0: raise ValueError(...)
           ...
           channel_data = get_data_receiver(self, num_values, ...)
           for chunk in self._reader.read_raw_data_for_channel(self.path, offset, length):
               if chunk.data is not None:
                   channel_data.append_data(chunk.data)
               if chunk.scaler_data is not None:
                   for scaler_id, scaler_data in chunk.scaler_data.items():
                       channel_data.append_scaler_data(scaler_id, scaler_data)
           return channel_data

   For a DaqMxRawData channel get_data_receiver gives a DaqmxDataReceiver whose
   scaler_data dictionary has one array per entry of obj.scaler_data_types (in that
   dictionary's order), filled chunk by chunk with chunk.scaler_data[id] after
   _trim_channel_chunk cut every scaler array of the chunk alike; _scale_data hands the
   receiver to scaling (raw_channel_data.scaler_data[scale_id]).

     lazy_scaler_data data path sts offs len
         the receiver's scaler_data after the loop: for every (id, type) of sts =
         obj.scaler_data_types, [lz_read_scaler_bytes data path id offs len] (C11_lazy's
         model of read_data(offs, len, scaled=False)[id])
     scaled_read_lazy_daqmx data path offs len
         TdmsFile.open(data)[group][channel].read_data(offs, len) for ANY channel:
         metadata pass with segment indexes, hierarchy, the channel found by its path,
         the argument checks of _read_channel_data, then
           - DaqMxRawData: lazy_scaler_data decoded by scaler type (raw_of_cdata on
             CScalers) and scaled with the graph read from the same three property
             dictionaries as everywhere in ScaleFile ([scale_with]);
           - any other channel: exactly ScaleFile.scaled_read_lazy's plain-data path.
     unscaled_read_lazy_daqmx       read_data(offs, len, scaled=False), decoded

   THEOREMS (statements in Props/C13_daqmx_lazy.v; C14's in Proofs/DtypeFileDaqmxLazy.v)
     lazy_scaler_data_windows                    the receiver holds the windows of the eager
                                                 per-scaler values
     scaled_read_lazy_daqmx_raw                  the lazy scaled read as a function of content
     scaled_lazy_is_window_of_scaled_eager_daqmx DaqMxRawData channels
     scaled_lazy_is_window_of_scaled_eager_typed every other channel of a file that may
                                                 contain DAQmx segments (DAQmx channels typed
                                                 by their single scaler, ordinary channels,
                                                 untyped channels), for ScaleFile.scaled_read_lazy
     scaled_lazy_is_window_of_scaled_eager_mixed every channel, for scaled_read_lazy_daqmx
     scaled_lazy_full_eq_eager_mixed, unscaled_lazy_daqmx_is_window *)
From Coq Require Import String Ascii.
From Coq Require Import List ZArith Bool Lia ZifyBool PrimFloat Uint63.
From Coq Require Import Init.Byte.
Import ListNotations.
From NpTdms Require Import Base.Bytes Base.Res Base.PySlice Model.Tokens Model.TokensWf Model.SegState
     Model.Layout Model.Reader Model.FileSyn Model.LazyRead Model.LazyBytes
     Proofs.SegStateProofs Proofs.SegStateInherit Proofs.LayoutProofs Proofs.FileSynProofs Proofs.ReadCorrect
     Proofs.ReadCorrectDaqmx Proofs.LazyReadLemmas Proofs.LazyReadProofs Proofs.LazyTopProofs
     Proofs.LazyWindowProofs Proofs.LazyEagerIndex Proofs.LazyEagerView Proofs.LazyEagerTop
     Proofs.TruncLazyDaqmxLazy Proofs.ScaleFile.
From NpTdms Require Proofs.TruncLazyDaqmxEx.
From NpTdms Require Gen.NumpyPromote Model.ScaleGraph Proofs.ScaleProofs.
Module SG := ScaleGraph.
Local Open Scope Z_scope.

(* ================================================================================= *)
(* 1. the model of the lazy read                                                       *)

(* DaqmxDataReceiver.scaler_data after the chunk loop of _read_channel_data *)
Definition lazy_scaler_data (data path : bytes) (sts : list (Z * Z)) (offs : Z) (len : option Z)
  : res (list (Z * list bytes)) :=
  mapM (fun kv : Z * Z => do vs <- lz_read_scaler_bytes data path (fst kv) offs len; Ok (fst kv, vs)) sts.

(* obj.data_type == types.DaqMxRawData *)
Definition is_daqmx_raw (c : channel) : bool := oz_eqb (ch_dtype c) (Some T_DAQMX).

(* offset < 0 or (length is not None and length < 0): ValueError *)
Definition bad_window (offs : Z) (len : option Z) : bool :=
  (offs <? 0) || match len with Some l => l <? 0 | None => false end.

(* obj.scaler_data_types of the channel *)
Definition scaler_types_of (c : channel) : list (Z * Z) :=
  match ch_scalers c with Some sts => sts | None => [] end.

(* what _read_channel_data returns, as receiver content *)
Definition lazy_cdata (data : bytes) (c : channel) (offs : Z) (len : option Z) : res (option cdata) :=
  if is_daqmx_raw c then
    do sc <- lazy_scaler_data data (ch_path c) (scaler_types_of c) offs len;
    Ok (Some (CScalers sc))
  else
    do vs <- lz_read_bytes data (ch_path c) offs len;
    Ok (cdata_of_values c vs).

(* TdmsFile.open(data): channel.read_data(offs, len), scaled; any channel *)
Definition scaled_read_lazy_daqmx (data path : bytes) (offs : Z) (len : option Z) : res (SG.res SG.value) :=
  do st <- rd_metadata data false (Some (blen data)) true;
  do h <- build_hierarchy (rs_om st);
  do c <- find_channel h path;
  if bad_window offs len then Err EValue
  else
    do d <- lazy_cdata data c offs len;
    Ok (scale_with (rs_om st) c (raw_of_cdata c d)).

(* TdmsFile.open(data): channel.read_data(offs, len, scaled=False), decoded: raw_data.data
   or the scale id -> array dictionary; None: no value model for the type *)
Definition unscaled_read_lazy_daqmx (data path : bytes) (offs : Z) (len : option Z) : res (option SG.rawdata) :=
  do st <- rd_metadata data false (Some (blen data)) true;
  do h <- build_hierarchy (rs_om st);
  do c <- find_channel h path;
  if bad_window offs len then Err EValue
  else
    do d <- lazy_cdata data c offs len;
    Ok (raw_of_cdata c d).

(* ---- agreement with observations of the implementation (harness/c13.py, file tie) ---- *)

(* the case of ScaleFile.check_file_scaled; the flag says whether the channel is a plain one
   (then ScaleFile.scaled_read_lazy is compared as well); the lazy window is compared with
   scaled_read_lazy_daqmx for EVERY case, DAQmx channels included *)
Definition check_file_scaled_dq
  (c : bytes * bytes * option SG.value * nat * nat * option SG.value * bool * option SG.value) : bool :=
  let '(data, path, obs, o, l, ewin, plain, lwin) := c in
  check_file_scaled c &&
  agrees_file (scaled_read_lazy_daqmx data path (Z.of_nat o) (Some (Z.of_nat l))) lwin.

(* ================================================================================= *)
(* 2. decoding commutes with windows, scaler by scaler                                *)

Definition win_entry (offs : Z) (len : option Z) (kv : Z * list bytes) : Z * list bytes :=
  (fst kv, window_of offs len (snd kv)).

Definition zwin_entry (offs : Z) (len : option Z) (iv : nat * SG.value) : nat * SG.value :=
  (fst iv, zwindow offs len (snd iv)).

Lemma decode_scalers_window sts offs len : forall sc,
  decode_scalers sts (map (win_entry offs len) sc) =
  option_map (map (zwin_entry offs len)) (decode_scalers sts sc).
Proof.
  induction sc as [|[id vs] sc IH]; [reflexivity|].
  cbn [map win_entry fst snd decode_scalers].
  destruct (assocZ id sts) as [ty|]; [|reflexivity].
  rewrite decode_values_window_of, IH.
  destruct (decode_values ty vs) as [v|]; cbn [option_map]; [|reflexivity].
  destruct (decode_scalers sts sc) as [l|]; reflexivity.
Qed.

(* every decoded scaler array has the length of its value list *)
Lemma decode_scalers_all_vlen sts n : forall sc l,
  Forall (fun kv : Z * list bytes => length (snd kv) = n) sc ->
  decode_scalers sts sc = Some l ->
  Forall (fun iv : nat * SG.value => SG.vlen (snd iv) = n) l.
Proof.
  induction sc as [|[id vs] sc IH]; intros l Hall Hd.
  - injection Hd as <-. constructor.
  - pose proof (Forall_inv Hall) as H0. pose proof (Forall_inv_tail Hall) as Hall'.
    cbn [snd] in H0. cbn [decode_scalers] in Hd.
    destruct (assocZ id sts) as [ty|]; [|discriminate].
    destruct (decode_values ty vs) as [v|] eqn:Ev; [|discriminate].
    destruct (decode_scalers sts sc) as [l'|] eqn:El; [|discriminate].
    injection Hd as <-. constructor.
    + cbn [snd]. rewrite (decode_values_vlen ty vs v Ev). exact H0.
    + exact (IH l' Hall' eq_refl).
Qed.

Lemma all_vlen_uniform n l :
  Forall (fun iv : nat * SG.value => SG.vlen (snd iv) = n) l -> SG.uniform n (scaler_raw l).
Proof.
  intros Hall. split; cbn [scaler_raw SG.rdata SG.rscalers]; [intros v Hv; discriminate|].
  induction Hall as [|[id0 v0] l H0 _ IH]; intros id v Ha; [discriminate|].
  cbn [SG.assoc_nat] in Ha. destruct (Nat.eqb id id0).
  - injection Ha as <-. exact H0.
  - exact (IH id v Ha).
Qed.

(* with every array of length n, the Z-window of the lazy theorems is ScaleGraph's
   window_raw on the whole raw_channel_data *)
Lemma zwin_entries_window_raw n offs len l :
  Forall (fun iv : nat * SG.value => SG.vlen (snd iv) = n) l ->
  scaler_raw (map (zwin_entry offs len) l) =
  SG.window_raw (Z.to_nat offs) (match len with Some k => Z.to_nat k | None => n end) (scaler_raw l).
Proof.
  intros Hall. unfold SG.window_raw, scaler_raw. cbn [SG.rdata SG.rscalers option_map]. f_equal.
  apply map_ext_in. intros [id v] Hin. rewrite Forall_forall in Hall. specialize (Hall _ Hin). cbn [snd] in Hall.
  unfold zwin_entry, zwindow. cbn [fst snd]. destruct len as [k|]; [reflexivity|]. rewrite Hall. reflexivity.
Qed.

(* scaling the windows of the scalers = window of scaling the scalers *)
Lemma scale_with_scaler_window om c sts sc n offs len :
  Forall (fun kv : Z * list bytes => length (snd kv) = n) sc ->
  scale_with om c (option_map scaler_raw (decode_scalers sts (map (win_entry offs len) sc))) =
  SG.rmap (zwindow offs len) (scale_with om c (option_map scaler_raw (decode_scalers sts sc))).
Proof.
  intros Hall. rewrite decode_scalers_window.
  destruct (decode_scalers sts sc) as [l|] eqn:El; cbn [option_map]; [|reflexivity].
  pose proof (decode_scalers_all_vlen sts n sc l Hall El) as Hl.
  rewrite (zwin_entries_window_raw n offs len l Hl).
  pose proof (all_vlen_uniform n l Hl) as Hu.
  unfold scale_with.
  destruct (props_of_props (ch_props c)) as [cp|]; [|reflexivity].
  destruct (props_of_props (group_props_of om (ch_group c))) as [gp|]; [|reflexivity].
  destruct (props_of_props (root_props_of om)) as [fp|]; [|reflexivity].
  rewrite <- (rmap_window_zwindow n).
  - exact (ScaleProofs.channel_elementwise_proof cp gp fp (scaler_raw l) n _ _ Hu).
  - intros w Hw. exact (PropsExt.channel_data_vlen cp gp fp (scaler_raw l) n w Hu Hw).
Qed.

Lemma bad_window_false offs len : 0 <= offs -> len_nonneg len -> bad_window offs len = false.
Proof.
  intros Ho Hl. unfold bad_window. destruct len as [l|]; cbn [len_nonneg] in Hl; lia.
Qed.

(* ================================================================================= *)
(* 3. DaqMxRawData channels                                                            *)

Section Daqmx.
  Variables (segs : list fseg) (st : rstate) (h : hierarchy) (chunkss : list (list chunk)).
  Hypothesis Hwf : wf_file segs.
  Hypothesis Hrun : sm_run segs false = Ok st.
  Hypothesis Hh : build_hierarchy (rs_om st) = Ok h.
  Hypothesis Hcon : segs_content (rs_segments st) segs chunkss.
  Hypothesis Hcanon : om_paths_canonical (rs_om st).
  Hypothesis Hshape : typed_objects_are_channels (rs_om st).
  Hypothesis Hdist : seg_paths_distinct st.

  Local Notation eager_sc c := (fun kv : Z * Z => (fst kv, chan_scaler_values (ch_path c) (fst kv) (concat chunkss))).

  (* the receiver of the lazy read holds, per scale id, the window of the eager values *)
  Theorem lazy_scaler_data_windows c sts offs len :
    In c (all_channels h) -> ch_dtype c = Some T_DAQMX -> ch_scalers c = Some sts ->
    0 <= offs -> len_nonneg len ->
    lazy_scaler_data (ser_file segs) (ch_path c) sts offs len =
    Ok (map (win_entry offs len) (map (eager_sc c) sts)).
  Proof.
    intros Hc Hdt Hsts Ho Hl. unfold lazy_scaler_data.
    assert (Hgen : forall sub, incl sub sts ->
              mapM (fun kv : Z * Z => do vs <- lz_read_scaler_bytes (ser_file segs) (ch_path c) (fst kv) offs len;
                                      Ok (fst kv, vs)) sub =
              Ok (map (win_entry offs len) (map (eager_sc c) sub))).
    { induction sub as [|[id ty] sub IH]; intros Hincl; [reflexivity|].
      cbn [mapM map fst snd win_entry].
      assert (Hs : channel_scaler c id).
      { split; [exact Hdt|]. exists sts. split; [exact Hsts|].
        change id with (fst (id, ty)). apply in_map. apply Hincl. left. reflexivity. }
      rewrite (daqmx_lazy_windows segs st h chunkss Hwf Hrun Hh Hcon Hcanon Hdist c id offs len Hc Hs Ho Hl).
      cbn [bind]. rewrite (IH (fun x Hx => Hincl x (or_intror Hx))). reflexivity. }
    exact (Hgen sts (fun x Hx => Hx)).
  Qed.

  (* the eager per-scaler value lists all have len(channel) elements *)
  Lemma eager_scalers_lengths c sts :
    In c (all_channels h) -> ch_dtype c = Some T_DAQMX -> ch_scalers c = Some sts ->
    Forall (fun kv : Z * list bytes => length (snd kv) = Z.to_nat (ch_len c)) (map (eager_sc c) sts).
  Proof.
    intros Hc Hdt Hsts.
    pose proof (lengths_consistent_content segs false st h chunkss Hrun Hh Hcon Hcanon c Hc) as Hlen.
    unfold expected_data_dq in Hlen. rewrite Hdt, Hsts, Z.eqb_refl in Hlen. cbn [cdata_consistent] in Hlen.
    apply Forall_forall. intros kv Hkv. rewrite forallb_forall in Hlen. specialize (Hlen kv Hkv). lia.
  Qed.

  Lemma is_daqmx_raw_true c : ch_dtype c = Some T_DAQMX -> is_daqmx_raw c = true.
  Proof. intros H. unfold is_daqmx_raw. rewrite H. reflexivity. Qed.

  Lemma is_daqmx_raw_false c : ch_dtype c <> Some T_DAQMX -> is_daqmx_raw c = false.
  Proof.
    intros H. unfold is_daqmx_raw. destruct (ch_dtype c) as [dt|]; [|reflexivity]. cbn [oz_eqb].
    destruct (dt =? T_DAQMX) eqn:E; [|reflexivity]. exfalso. apply H. f_equal. lia.
  Qed.

  (* what _read_channel_data returns for a DaqMxRawData channel *)
  Lemma lazy_cdata_daqmx c sts offs len :
    In c (all_channels h) -> ch_dtype c = Some T_DAQMX -> ch_scalers c = Some sts ->
    0 <= offs -> len_nonneg len ->
    lazy_cdata (ser_file segs) c offs len =
    Ok (Some (CScalers (map (win_entry offs len) (map (eager_sc c) sts)))).
  Proof.
    intros Hc Hdt Hsts Ho Hl. unfold lazy_cdata, scaler_types_of.
    rewrite (is_daqmx_raw_true c Hdt), Hsts, (lazy_scaler_data_windows c sts offs len Hc Hdt Hsts Ho Hl).
    reflexivity.
  Qed.

  (* the lazy scaled read of a DaqMxRawData channel as a function of the file content *)
  Theorem scaled_read_lazy_daqmx_raw c sts offs len :
    In c (all_channels h) -> ch_dtype c = Some T_DAQMX -> ch_scalers c = Some sts ->
    0 <= offs -> len_nonneg len ->
    scaled_read_lazy_daqmx (ser_file segs) (ch_path c) offs len =
    Ok (scale_with (rs_om st) c
          (option_map scaler_raw
             (decode_scalers sts
                (map (fun kv : Z * Z =>
                        (fst kv, window_of offs len (chan_scaler_values (ch_path c) (fst kv) (concat chunkss))))
                     sts)))).
  Proof.
    intros Hc Hdt Hsts Ho Hl. unfold scaled_read_lazy_daqmx.
    destruct (rd_metadata_with_index segs st Hwf Hrun) as (st' & Hm & _ & Hom).
    rewrite Hm. cbn [bind]. rewrite Hom, Hh. cbn [bind].
    rewrite (find_channel_in h c (channel_paths_distinct_ser _ h Hh Hcanon) Hc). cbn [bind].
    rewrite (bad_window_false offs len Ho Hl).
    rewrite (lazy_cdata_daqmx c sts offs len Hc Hdt Hsts Ho Hl). cbn [bind].
    unfold raw_of_cdata. rewrite Hdt, Hsts. rewrite map_map. reflexivity.
  Qed.

  Theorem unscaled_read_lazy_daqmx_raw c sts offs len :
    In c (all_channels h) -> ch_dtype c = Some T_DAQMX -> ch_scalers c = Some sts ->
    0 <= offs -> len_nonneg len ->
    unscaled_read_lazy_daqmx (ser_file segs) (ch_path c) offs len =
    Ok (option_map scaler_raw
          (decode_scalers sts
             (map (fun kv : Z * Z =>
                     (fst kv, window_of offs len (chan_scaler_values (ch_path c) (fst kv) (concat chunkss))))
                  sts))).
  Proof.
    intros Hc Hdt Hsts Ho Hl. unfold unscaled_read_lazy_daqmx.
    destruct (rd_metadata_with_index segs st Hwf Hrun) as (st' & Hm & _ & Hom).
    rewrite Hm. cbn [bind]. rewrite Hom, Hh. cbn [bind].
    rewrite (find_channel_in h c (channel_paths_distinct_ser _ h Hh Hcanon) Hc). cbn [bind].
    rewrite (bad_window_false offs len Ho Hl).
    rewrite (lazy_cdata_daqmx c sts offs len Hc Hdt Hsts Ho Hl). cbn [bind].
    unfold raw_of_cdata. rewrite Hdt, Hsts. rewrite map_map. reflexivity.
  Qed.

  (* negative offset or length: ValueError, whatever the channel *)
  Theorem scaled_read_lazy_daqmx_rejects_negative c offs len :
    In c (all_channels h) ->
    offs < 0 \/ (exists l, len = Some l /\ l < 0) ->
    scaled_read_lazy_daqmx (ser_file segs) (ch_path c) offs len = Err EValue.
  Proof.
    intros Hc Hneg. unfold scaled_read_lazy_daqmx.
    destruct (rd_metadata_with_index segs st Hwf Hrun) as (st' & Hm & _ & Hom).
    rewrite Hm. cbn [bind]. rewrite Hom, Hh. cbn [bind].
    rewrite (find_channel_in h c (channel_paths_distinct_ser _ h Hh Hcanon) Hc). cbn [bind].
    replace (bad_window offs len) with true; [reflexivity|].
    unfold bad_window. destruct Hneg as [Hn|(l & -> & Hn)]; lia.
  Qed.

  (* THE PROPERTY for DaqMxRawData channels: read_data(offs, len) on the lazily opened
     file, scaled, is the window of the scaled channel of the eagerly read file - same
     values, same scaling errors *)
  Theorem scaled_lazy_is_window_of_scaled_eager_daqmx c offs len :
    In c (all_channels h) -> ch_dtype c = Some T_DAQMX -> 0 <= offs -> len_nonneg len ->
    exists r, scaled_read_eager (ser_file segs) (ch_path c) = Ok r /\
              scaled_read_lazy_daqmx (ser_file segs) (ch_path c) offs len = Ok (SG.rmap (zwindow offs len) r).
  Proof.
    intros Hc Hdt Ho Hl.
    destruct (daqmx_channel_scalers segs st h Hrun Hh Hcanon c Hc Hdt) as (sts & Hsts & _).
    rewrite (scaled_read_eager_daqmx segs st h chunkss Hwf Hrun Hh Hcon Hcanon Hshape c sts Hc Hdt Hsts).
    rewrite (scaled_read_lazy_daqmx_raw c sts offs len Hc Hdt Hsts Ho Hl).
    eexists. split; [reflexivity|]. f_equal.
    pose proof (scale_with_scaler_window (rs_om st) c sts (map (eager_sc c) sts) (Z.to_nat (ch_len c)) offs len
                  (eager_scalers_lengths c sts Hc Hdt Hsts)) as Hw.
    rewrite map_map in Hw. exact Hw.
  Qed.

  (* read_data(offs, len, scaled=False): every scaler array is the window of the eager one *)
  Theorem unscaled_lazy_daqmx_is_window c sts offs len :
    In c (all_channels h) -> ch_dtype c = Some T_DAQMX -> ch_scalers c = Some sts ->
    0 <= offs -> len_nonneg len ->
    unscaled_read_lazy_daqmx (ser_file segs) (ch_path c) offs len =
    Ok (option_map (SG.window_raw (Z.to_nat offs)
                      (match len with Some k => Z.to_nat k | None => Z.to_nat (ch_len c) end))
          (raw_of_cdata c (expected_data_dq (concat chunkss) c))).
  Proof.
    intros Hc Hdt Hsts Ho Hl.
    rewrite (unscaled_read_lazy_daqmx_raw c sts offs len Hc Hdt Hsts Ho Hl). f_equal.
    unfold expected_data_dq, raw_of_cdata. rewrite Hdt, Hsts, Z.eqb_refl.
    pose proof (decode_scalers_window sts offs len (map (eager_sc c) sts)) as Hw.
    rewrite map_map in Hw. unfold win_entry in Hw. cbn [fst snd] in Hw. rewrite Hw.
    destruct (decode_scalers sts (map (eager_sc c) sts)) as [l|] eqn:El; cbn [option_map]; [|reflexivity].
    f_equal. apply zwin_entries_window_raw.
    exact (decode_scalers_all_vlen sts _ _ l (eager_scalers_lengths c sts Hc Hdt Hsts) El).
  Qed.

  (* ---- every other channel of a file that may contain DAQmx segments -------------------- *)

  (* the byte-level lazy reader succeeds on a channel without data type as well *)
  Lemma lz_read_bytes_untyped_mixed c offs len :
    In c (all_channels h) -> ch_dtype c = None ->
    lz_read_bytes (ser_file segs) (ch_path c) offs len = Ok [].
  Proof.
    intros Hc Hdtc.
    destruct (chan_from_om_canonical2 _ c Hcanon (build_hierarchy_channels _ _ Hh c Hc))
      as (m & Hin & Hdt & _ & _).
    destruct (sm_run_trace segs false st Hrun) as (_ & _ & Hndom & _).
    pose proof (alookup_in_nodup _ m (rs_om st) Hndom Hin) as Hlk.
    assert (Hsub : forall g o, In o (data_objs (sg_objs g)) -> In o (sg_objs g)).
    { intros g o Ho. unfold data_objs in Ho. apply filter_In in Ho. tauto. }
    assert (Hview : forall g, In g (rs_segments st) -> typed_view (ch_path c) g).
    { intros g Hg o Ho Hp Eo.
      destruct (sm_run_tracks segs false st Hrun g o Hg (Hsub g o Ho)) as (m' & Hm' & Ht1 & _).
      rewrite Hp, Hlk in Hm'. injection Hm' as <-.
      pose proof (Ht1 _ Eo) as Hm. rewrite <- Hdt, Hdtc in Hm. discriminate. }
    destruct (sm_run_with_index segs st Hrun) as (st' & Hrun' & Hsegs & _ & Hom & _).
    pose proof (sm_segment_positions segs true st' Hrun') as Hat.
    pose proof (sm_run_nvals_nonneg segs true st' Hwf Hrun') as Hnv.
    destruct (view_loop_content (ser_file segs) (ch_path c) segs (rs_segments st') chunkss [] Hwf eq_refl Hat)
      as (svs & Hsvs & _).
    - rewrite Hsegs. apply segs_content_with_index. exact Hcon.
    - apply Forall_forall. intros g' Hg'. pose proof (Hnv g' Hg') as Hnvg.
      rewrite Hsegs in Hg'. apply in_map_iff in Hg'. destruct Hg' as (g & <- & Hg).
      unfold seg_paths_distinct in Hdist. rewrite Forall_forall in Hdist.
      split; [exact (Hdist g Hg)|]. split; [reflexivity|exact Hnvg].
    - intros g' Hg'. rewrite Hsegs in Hg'. apply in_map_iff in Hg'. destruct Hg' as (g & <- & Hg).
      exact (Hview g Hg).
    - unfold lz_read_bytes, channel_view.
      rewrite (rd_metadata_ser segs true Hwf), Hrun'. cbn [bind]. rewrite Hsvs. cbn [bind].
      rewrite Hom, Hlk, <- Hdt, Hdtc. reflexivity.
  Qed.

  Local Notation eager c := (chan_values (ch_path c) (concat chunkss)).

  (* what _read_channel_data returns for any other channel, up to what raw_of_cdata sees *)
  Lemma raw_of_lazy_plain_mixed c offs len :
    In c (all_channels h) -> ch_dtype c <> Some T_DAQMX -> 0 <= offs -> len_nonneg len ->
    exists vs, lz_read_bytes (ser_file segs) (ch_path c) offs len = Ok vs /\
               raw_of_cdata c (cdata_of_values c vs) =
               raw_of_cdata c (cdata_of_values c (window_of offs len (eager c))).
  Proof.
    intros Hc Hne Ho Hl. destruct (ch_dtype c) as [dt|] eqn:Edt.
    - assert (Hdt : dt <> T_DAQMX) by (intros ->; apply Hne; reflexivity).
      destruct (daqmx_lazy_windows_typed segs st h chunkss c dt offs len Hwf Hrun Hh Hcon Hcanon Hdist
                  Hc Edt Hdt Ho Hl) as [Hlz _].
      eexists. split; [exact Hlz|reflexivity].
    - exists []. split; [exact (lz_read_bytes_untyped_mixed c offs len Hc Edt)|].
      unfold cdata_of_values. rewrite Edt. reflexivity.
  Qed.

  Lemma scaled_read_eager_typed_mixed c :
    In c (all_channels h) -> ch_dtype c <> Some T_DAQMX ->
    scaled_read_eager (ser_file segs) (ch_path c) =
    Ok (scale_with (rs_om st) c (raw_of_cdata c (cdata_of_values c (eager c)))).
  Proof.
    intros Hc Hne.
    rewrite (scaled_read_eager_content segs st h chunkss Hwf Hrun Hh Hcon Hcanon Hshape c Hc).
    rewrite (expected_data_dq_plain _ c Hne). reflexivity.
  Qed.

  (* ScaleFile.scaled_read_lazy (the plain-data path) under read_correct_daqmx's hypotheses *)
  Theorem scaled_read_lazy_typed_mixed c offs len :
    In c (all_channels h) -> ch_dtype c <> Some T_DAQMX -> 0 <= offs -> len_nonneg len ->
    scaled_read_lazy (ser_file segs) (ch_path c) offs len =
    Ok (scale_with (rs_om st) c (raw_of_cdata c (cdata_of_values c (window_of offs len (eager c))))).
  Proof.
    intros Hc Hne Ho Hl. unfold scaled_read_lazy.
    destruct (rd_metadata_with_index segs st Hwf Hrun) as (st' & Hm & _ & Hom).
    rewrite Hm. cbn [bind]. rewrite Hom, Hh. cbn [bind].
    rewrite (find_channel_in h c (channel_paths_distinct_ser _ h Hh Hcanon) Hc). cbn [bind].
    destruct (raw_of_lazy_plain_mixed c offs len Hc Hne Ho Hl) as (vs & Hlz & Hraw).
    rewrite Hlz. cbn [bind]. rewrite Hraw. reflexivity.
  Qed.

  Theorem scaled_lazy_is_window_of_scaled_eager_typed c offs len :
    In c (all_channels h) -> ch_dtype c <> Some T_DAQMX -> 0 <= offs -> len_nonneg len ->
    exists r, scaled_read_eager (ser_file segs) (ch_path c) = Ok r /\
              scaled_read_lazy (ser_file segs) (ch_path c) offs len = Ok (SG.rmap (zwindow offs len) r).
  Proof.
    intros Hc Hne Ho Hl.
    rewrite (scaled_read_eager_typed_mixed c Hc Hne), (scaled_read_lazy_typed_mixed c offs len Hc Hne Ho Hl).
    eexists. split; [reflexivity|]. rewrite scale_with_window. reflexivity.
  Qed.

  (* on such channels the general read IS ScaleFile's *)
  Theorem scaled_read_lazy_daqmx_plain c offs len :
    In c (all_channels h) -> ch_dtype c <> Some T_DAQMX -> 0 <= offs -> len_nonneg len ->
    scaled_read_lazy_daqmx (ser_file segs) (ch_path c) offs len =
    scaled_read_lazy (ser_file segs) (ch_path c) offs len.
  Proof.
    intros Hc Hne Ho Hl. unfold scaled_read_lazy_daqmx, scaled_read_lazy.
    destruct (rd_metadata_with_index segs st Hwf Hrun) as (st' & Hm & _ & Hom).
    rewrite Hm. cbn [bind]. rewrite Hom, Hh. cbn [bind].
    rewrite (find_channel_in h c (channel_paths_distinct_ser _ h Hh Hcanon) Hc). cbn [bind].
    rewrite (bad_window_false offs len Ho Hl). unfold lazy_cdata. rewrite (is_daqmx_raw_false c Hne).
    destruct (lz_read_bytes (ser_file segs) (ch_path c) offs len); reflexivity.
  Qed.

  (* THE PROPERTY, every channel of a file mixing DAQmx and ordinary segments *)
  Theorem scaled_lazy_is_window_of_scaled_eager_mixed c offs len :
    In c (all_channels h) -> 0 <= offs -> len_nonneg len ->
    exists r, scaled_read_eager (ser_file segs) (ch_path c) = Ok r /\
              scaled_read_lazy_daqmx (ser_file segs) (ch_path c) offs len = Ok (SG.rmap (zwindow offs len) r).
  Proof.
    intros Hc Ho Hl. destruct (is_daqmx_raw c) eqn:E.
    - apply (scaled_lazy_is_window_of_scaled_eager_daqmx c offs len Hc); [|exact Ho|exact Hl].
      unfold is_daqmx_raw in E. destruct (ch_dtype c) as [dt|]; [|discriminate]. cbn [oz_eqb] in E.
      f_equal. lia.
    - assert (Hne : ch_dtype c <> Some T_DAQMX).
      { intros Hd. rewrite (is_daqmx_raw_true c Hd) in E. discriminate. }
      rewrite (scaled_read_lazy_daqmx_plain c offs len Hc Hne Ho Hl).
      exact (scaled_lazy_is_window_of_scaled_eager_typed c offs len Hc Hne Ho Hl).
  Qed.

  Corollary scaled_lazy_full_eq_eager_mixed c :
    In c (all_channels h) ->
    scaled_read_lazy_daqmx (ser_file segs) (ch_path c) 0 None = scaled_read_eager (ser_file segs) (ch_path c).
  Proof.
    intros Hc.
    destruct (scaled_lazy_is_window_of_scaled_eager_mixed c 0 None Hc (Z.le_refl 0) I) as (r & He & Hl).
    rewrite He, Hl, rmap_zwindow_full. reflexivity.
  Qed.
End Daqmx.

(* ================================================================================= *)
(* 4. concrete files                                                                  *)

(* ---- dqs_file (Proofs/ScaleFile.v): DaqMxRawData channel /'dq'/'c0', scaler id 0 int16
   and id 1 uint8 in one raw buffer of width 4, 2 rows per chunk; a segment of TWO chunks
   and a metadata-less segment of one: values 0 1 | 2 3 || 4 5.  Scale 2 = Add(0, 1)
   (wraps in int16), scale 3 = Linear(0.5, 1.0) on scale 2. *)
Section DqsLazy.

Example dqs_distinct : seg_paths_distinct dqs_st.
Proof. apply seg_paths_distinct_b_sound. vm_compute. reflexivity. Qed.

(* by the theorem: every window *)
Example dqs_lazy_all_windows : forall offs len, 0 <= offs -> len_nonneg len ->
  exists r, scaled_read_eager (ser_file dqs_file) dqs_path = Ok r /\
            scaled_read_lazy_daqmx (ser_file dqs_file) dqs_path offs len = Ok (SG.rmap (zwindow offs len) r).
Proof.
  intros offs len Ho Hl.
  destruct dqs_hyps as (H1 & H2 & H3 & H4 & H5 & H6 & Hc & Hp & Hd & _).
  rewrite <- Hp.
  exact (scaled_lazy_is_window_of_scaled_eager_daqmx dqs_file dqs_st dqs_h dqs_chunks H1 H2 H3 H4 H5 H6
           dqs_distinct dqs_chan offs len Hc Hd Ho Hl).
Qed.

(* by evaluation of the byte-level models on the file's bytes.  Eager:
   [51.5; -98; -16256; -16383; 9; 2] (ScaleFile.dqs_eager_eval).  Lazy windows: [1, 3)
   crosses the chunk boundary 1|2; [1, 5) the chunk boundary and the segment boundary 3||4;
   [3, end); [5, 8) runs past the end; [6, 8) starts at the end; a zero-length window; the
   full read; a negative offset *)
Example dqs_lazy_eval :
  scaled_read_lazy_daqmx (ser_file dqs_file) dqs_path 1 (Some 2) = Ok (SG.Ok (SG.VD [-98; -16256]%float)) /\
  scaled_read_lazy_daqmx (ser_file dqs_file) dqs_path 1 (Some 4) =
    Ok (SG.Ok (SG.VD [-98; -16256; -16383; 9]%float)) /\
  scaled_read_lazy_daqmx (ser_file dqs_file) dqs_path 3 None = Ok (SG.Ok (SG.VD [-16383; 9; 2]%float)) /\
  scaled_read_lazy_daqmx (ser_file dqs_file) dqs_path 5 (Some 3) = Ok (SG.Ok (SG.VD [2]%float)) /\
  scaled_read_lazy_daqmx (ser_file dqs_file) dqs_path 6 (Some 2) = Ok (SG.Ok (SG.VD [])) /\
  scaled_read_lazy_daqmx (ser_file dqs_file) dqs_path 2 (Some 0) = Ok (SG.Ok (SG.VD [])) /\
  scaled_read_lazy_daqmx (ser_file dqs_file) dqs_path 0 None =
    Ok (SG.Ok (SG.VD [51.5; -98; -16256; -16383; 9; 2]%float)) /\
  scaled_read_lazy_daqmx (ser_file dqs_file) dqs_path (-1) None = Err EValue.
Proof. repeat split; vm_compute; reflexivity. Qed.

(* ... each is the window of the eager scaled values, computed *)
Example dqs_lazy_eval_windows :
  let e := SG.VD [51.5; -98; -16256; -16383; 9; 2]%float in
  scaled_read_eager (ser_file dqs_file) dqs_path = Ok (SG.Ok e) /\
  zwindow 1 (Some 2) e = SG.VD [-98; -16256]%float /\
  zwindow 1 (Some 4) e = SG.VD [-98; -16256; -16383; 9]%float /\
  zwindow 3 None e = SG.VD [-16383; 9; 2]%float /\
  zwindow 5 (Some 3) e = SG.VD [2]%float /\
  zwindow 6 (Some 2) e = SG.VD [] /\
  zwindow 2 (Some 0) e = SG.VD [].
Proof. repeat split; vm_compute; reflexivity. Qed.

(* read_data(1, 3, scaled=False): the dictionary scale id -> raw scaler values *)
Example dqs_lazy_unscaled :
  unscaled_read_lazy_daqmx (ser_file dqs_file) dqs_path 1 (Some 3) =
  Ok (Some (scaler_raw [(0%nat, SG.VI SG.I16 [-200; 32767; -32768]); (1%nat, SG.VI SG.U8 [2; 255; 0])])).
Proof. vm_compute. reflexivity. Qed.

(* every window (offs 0..7, len None / 0..7), computed on the bytes against the window of
   the eager scaled values *)
Definition dqs_lazy_windows_ok : bool :=
  let data := ser_file dqs_file in
  match scaled_read_eager data dqs_path with
  | Ok (SG.Ok e) =>
      forallb (fun o =>
                 forallb (fun l => agrees_file (scaled_read_lazy_daqmx data dqs_path o l) (Some (zwindow o l e)))
                         (None :: map (fun n => Some (Z.of_nat n)) (seq 0 8)))
              (map Z.of_nat (seq 0 8))
  | _ => false
  end.

Example dqs_lazy_all_windows_eval : dqs_lazy_windows_ok = true.
Proof. vm_compute. reflexivity. Qed.

End DqsLazy.

(* ---- dx_file (Proofs/ReadCorrectDaqmx.v): a MIXED file - big-endian DAQmx segments (two
   chunks, then a metadata-less segment of one) with channels c0 (DaqMxRawData, scalers 0
   and 5), c1 (DaqMxRawData, digital line), c2 (DAQmx channel TYPED int32 by its single
   scaler: plain data path), then an ordinary little-endian segment with int32 channel x.
   No scaling properties: c2 and x read unscaled; c0 and c1 have scaler data and no scaling
   - "Missing scaling information for DAQmx data" (Err EValue), eagerly and lazily alike. *)
Section DxMixed.

Local Notation dxc := TruncLazyDaqmxEx.dx_chan.

Example dx_chan_facts :
  ch_path (dxc 0) = dx_p0 /\ ch_path (dxc 1) = dx_p1 /\ ch_path (dxc 2) = dx_p2 /\ ch_path (dxc 3) = dx_px /\
  ch_dtype (dxc 2) = Some 3 /\ ch_dtype (dxc 3) = Some 3.
Proof. vm_compute. repeat split. Qed.

Lemma dx_mixed_chan i offs len : (i < 4)%nat -> 0 <= offs -> len_nonneg len ->
  exists r, scaled_read_eager (ser_file dx_file) (ch_path (dxc i)) = Ok r /\
            scaled_read_lazy_daqmx (ser_file dx_file) (ch_path (dxc i)) offs len = Ok (SG.rmap (zwindow offs len) r).
Proof.
  intros Hi Ho Hl.
  exact (scaled_lazy_is_window_of_scaled_eager_mixed dx_file dx_st dx_h dx_chunks dx_wf dx_run dx_hier dx_content
           dx_canonical dx_typed_channels TruncLazyDaqmxEx.dx_distinct (dxc i) offs len
           (TruncLazyDaqmxEx.dx_chan_in i Hi) Ho Hl).
Qed.

Example dx_mixed_all_windows : forall p, In p [dx_p0; dx_p1; dx_p2; dx_px] ->
  forall offs len, 0 <= offs -> len_nonneg len ->
  exists r, scaled_read_eager (ser_file dx_file) p = Ok r /\
            scaled_read_lazy_daqmx (ser_file dx_file) p offs len = Ok (SG.rmap (zwindow offs len) r).
Proof.
  intros p Hp offs len Ho Hl. destruct dx_chan_facts as (P0 & P1 & P2 & P3 & _).
  cbn [In] in Hp. destruct Hp as [<-|[<-|[<-|[<-|[]]]]].
  - pose proof (dx_mixed_chan 0 offs len ltac:(lia) Ho Hl) as H. rewrite P0 in H. exact H.
  - pose proof (dx_mixed_chan 1 offs len ltac:(lia) Ho Hl) as H. rewrite P1 in H. exact H.
  - pose proof (dx_mixed_chan 2 offs len ltac:(lia) Ho Hl) as H. rewrite P2 in H. exact H.
  - pose proof (dx_mixed_chan 3 offs len ltac:(lia) Ho Hl) as H. rewrite P3 in H. exact H.
Qed.

Lemma dx_typed_chan i offs len : (i < 4)%nat -> ch_dtype (dxc i) <> Some T_DAQMX -> 0 <= offs -> len_nonneg len ->
  exists r, scaled_read_eager (ser_file dx_file) (ch_path (dxc i)) = Ok r /\
            scaled_read_lazy (ser_file dx_file) (ch_path (dxc i)) offs len = Ok (SG.rmap (zwindow offs len) r).
Proof.
  intros Hi Hne Ho Hl.
  exact (scaled_lazy_is_window_of_scaled_eager_typed dx_file dx_st dx_h dx_chunks dx_wf dx_run dx_hier dx_content
           dx_canonical dx_typed_channels TruncLazyDaqmxEx.dx_distinct (dxc i) offs len
           (TruncLazyDaqmxEx.dx_chan_in i Hi) Hne Ho Hl).
Qed.

(* the typed DAQmx channel and the ordinary channel through ScaleFile.scaled_read_lazy *)
Example dx_typed_all_windows : forall p, In p [dx_p2; dx_px] ->
  forall offs len, 0 <= offs -> len_nonneg len ->
  exists r, scaled_read_eager (ser_file dx_file) p = Ok r /\
            scaled_read_lazy (ser_file dx_file) p offs len = Ok (SG.rmap (zwindow offs len) r).
Proof.
  intros p Hp offs len Ho Hl. destruct dx_chan_facts as (_ & _ & P2 & P3 & D2 & D3).
  cbn [In] in Hp. destruct Hp as [<-|[<-|[]]].
  - pose proof (dx_typed_chan 2 offs len ltac:(lia) ltac:(rewrite D2; discriminate) Ho Hl) as H.
    rewrite P2 in H. exact H.
  - pose proof (dx_typed_chan 3 offs len ltac:(lia) ltac:(rewrite D3; discriminate) Ho Hl) as H.
    rewrite P3 in H. exact H.
Qed.

Example dx_mixed_eval :
  scaled_read_eager (ser_file dx_file) dx_p2 =
    Ok (SG.Ok (SG.VI SG.I32 [16909060; 286397204; 555885348; 825373492; 1094861636; 1364349780])) /\
  scaled_read_lazy (ser_file dx_file) dx_p2 1 (Some 3) = Ok (SG.Ok (SG.VI SG.I32 [286397204; 555885348; 825373492])) /\
  scaled_read_lazy_daqmx (ser_file dx_file) dx_p2 1 (Some 3) =
    Ok (SG.Ok (SG.VI SG.I32 [286397204; 555885348; 825373492])) /\
  scaled_read_eager (ser_file dx_file) dx_px = Ok (SG.Ok (SG.VI SG.I32 [7; 8])) /\
  scaled_read_lazy_daqmx (ser_file dx_file) dx_px 1 None = Ok (SG.Ok (SG.VI SG.I32 [8])) /\
  scaled_read_eager (ser_file dx_file) dx_p0 = Ok (SG.Err SG.EValue) /\
  scaled_read_lazy_daqmx (ser_file dx_file) dx_p0 0 None = Ok (SG.Err SG.EValue) /\
  unscaled_read_lazy_daqmx (ser_file dx_file) dx_p0 1 (Some 4) =
    Ok (Some (scaler_raw [(0%nat, SG.VI SG.I16 [4370; 8482; 12594; 16706]); (5%nat, SG.VI SG.U8 [20; 36; 52; 68])])).
Proof. repeat split; vm_compute; reflexivity. Qed.

End DxMixed.
