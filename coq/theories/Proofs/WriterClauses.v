(* Property C08 for the writer model, clause by clause, and the refutation for
   the unchanged code (defect D6). *)

From Coq Require Import List ZArith Bool Lia.
From Coq Require Import Init.Byte.
Import ListNotations.
From NpTdms Require Import Base.Bytes Base.Res Model.Tokens Model.TokensWf Model.ByteStr
  Model.StrictParse Model.Writer
  Proofs.StrictParseProofs Proofs.StrictClauses Proofs.WriterProofs Proofs.DefragProofs.
Local Open Scope Z_scope.

Definition segment_consistent (s : segsyn) : Prop :=
  leadin_consistent s /\ indexes_consistent s /\ raw_len_equals_declared s /\
  no_duplicate_paths s.

Lemma writer_structurally_valid_lemma : forall sessions data index,
  wf_file sessions = true ->
  wr_file sessions = Ok (data, index) ->
  exists segs,
    strict_parse data = Some segs /\
    Forall segment_consistent segs /\
    first_segment_declares_root segs /\
    groups_declared_before_channels segs /\
    data = flat_map ser_segment segs /\
    index = flat_map ser_index_segment segs /\
    strip_raw_and_retag data = Some index.
Proof.
  intros sessions data index Hwf Hwr.
  destruct (writer_file_valid sessions data index Hwf Hwr)
    as [segs [_ [Hp [Hok [Hsw [Hd [Hi Hs]]]]]]].
  exists segs. split; [exact Hp|]. split; [|split; [|split; [|repeat split; assumption]]].
  - apply (segs_ok_forall segs true [] Hsw Hok).
  - apply segs_ok_root. exact Hok.
  - apply segs_ok_groups. exact Hok.
Qed.

Lemma writer_structurally_valid_session_lemma : forall v calls data index,
  wf_file [(v, calls)] = true ->
  wr_session v calls = Ok (data, index) ->
  exists segs,
    strict_parse data = Some segs /\
    Forall segment_consistent segs /\
    first_segment_declares_root segs /\
    groups_declared_before_channels segs /\
    strip_raw_and_retag data = Some index.
Proof.
  intros v calls data index Hwf Hwr.
  destruct (writer_structurally_valid_lemma _ _ _ Hwf (session_as_file _ _ _ _ Hwr))
    as [segs [H1 [H2 [H3 [H4 [_ [_ H5]]]]]]].
  exists segs. repeat split; assumption.
Qed.

(* D6: the unchanged code writes a string channel's index length as 20 *)
Definition d6_witness : list (list wobj) :=
  [[WChan [x67] [x73] T_STRING [[x61; x62]; [x63]] []]].

Lemma writer_asis_refuted :
  wf_file [(4712, d6_witness)] = true /\
  exists data index,
    wr_session_asis 4712 d6_witness = Ok (data, index) /\ strict_parse data = None.
Proof.
  split; [vm_compute; reflexivity|].
  destruct (wr_session_asis 4712 d6_witness) as [[d i]|e] eqn:E; [|vm_compute in E; discriminate].
  exists d, i. split; [reflexivity|].
  assert (Hd : Ok (d, i) = wr_session_asis 4712 d6_witness) by (symmetry; exact E).
  vm_compute in Hd. injection Hd as -> _. vm_compute. reflexivity.
Qed.

(* ... and the fixed writer's output for the same call parses *)
Lemma writer_fixed_witness :
  exists data index segs,
    wr_session 4712 d6_witness = Ok (data, index) /\ strict_parse data = Some segs /\
    length segs = 1%nat.
Proof.
  destruct (wr_session 4712 d6_witness) as [[d i]|e] eqn:E; [|vm_compute in E; discriminate].
  assert (Hd : Ok (d, i) = wr_session 4712 d6_witness) by (symmetry; exact E).
  vm_compute in Hd. injection Hd as -> ->.
  eexists _, _, _. split; [reflexivity|]. split; [vm_compute; reflexivity|reflexivity].
Qed.

(* ---- C07: what the written syntax contains ---------------------------------------------------- *)

Lemma write_parse_lemma : forall sessions data index,
  wf_file sessions = true ->
  wr_file sessions = Ok (data, index) ->
  exists segs, syntax_of_file sessions = Ok segs /\ strict_parse data = Some segs.
Proof.
  intros sessions data index Hwf Hwr.
  destruct (writer_file_valid sessions data index Hwf Hwr) as [segs [Hs [Hp _]]].
  exists segs. split; assumption.
Qed.

(* one call: the segment lists exactly the objects passed in plus the
   automatically inserted root / group objects, root first, then groups, then
   channels, each kind in call order; every object keeps its path, its
   properties (name, type, value bytes), its data type and its values *)
Lemma written_objects_lemma : forall v st objs sorted st' s,
  wr_objects st objs = Ok (sorted, st') ->
  syntax_of_objs v sorted = Ok s ->
  sorted = partition3 (pairs_of st objs) /\
  sg_entries s = map entry_of sorted /\
  sg_values s = map obj_values sorted.
Proof.
  intros v st objs sorted st' s Ho Hs.
  destruct (wr_objects_spec _ _ _ _ Ho) as [Hsorted _].
  unfold syntax_of_objs in Hs. rewrite mapM_wr_entry in Hs. cbn [bind] in Hs.
  destruct (data_size sorted) as [dsize|e]; cbn [bind] in Hs; [|discriminate].
  injection Hs as <-. repeat split. exact Hsorted.
Qed.
