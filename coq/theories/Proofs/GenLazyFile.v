(* Proofs for Props/C04_gen6.v: the per-segment theorems of Props/C04_gen5.v (Proofs/GenLazySegView.v) quantified over EVERY
   segment of a serialised file ser_file segs, from the hypotheses of Props/C03_read.v lazy_is_window_of_eager. *)
From Coq Require Import String Ascii.
From Coq Require Import ZArith List Bool Lia ZifyBool.
From Coq Require Import Init.Byte.
Import ListNotations.
From NpTdms Require Import Base.Bytes Base.Res Base.PySlice Model.Tokens Model.SegState Model.Layout Model.Reader Model.FileSyn
     Model.LazyRead Model.LazyBytes
     Gen.TypeTable Gen.PyFuncsReader Gen.PyFuncsDecode Gen.PyFuncsDaqmxRead Gen.PyFuncsDaqmxLoop Gen.PyFuncsEagerLoop
     Gen.PyFuncsLazySeg
     Proofs.SegStateProofs Proofs.LayoutProofs Proofs.TokensRoundtrip Proofs.FileSynProofs Proofs.ReadCorrect Proofs.GenReaderEquiv Proofs.GenDecodeEquiv Proofs.GenDecodeRecv
     Proofs.GenDecodeTransport Proofs.DaqmxProofs Proofs.GenDaqmxEquiv Proofs.GenDaqmxLoopEquiv Proofs.GenEagerEquiv Proofs.GenLazySegEquiv
     Proofs.GenLazySegView Proofs.LazyEagerIndex Proofs.LazyEagerTop.
Local Open Scope Z_scope.
Ltac Zify.zify_post_hook ::= Z.to_euclidean_division_equations.

(* ---- the file around its k-th segment ---------------------------------------------------------------------------------- *)

Lemma ser_file_app' a b : ser_file (a ++ b) = (ser_file a ++ ser_file b)%list.
Proof. unfold ser_file. apply flat_map_app. Qed.

Lemma ser_file_split : forall segs k s,
    nth_error segs k = Some s ->
    ser_file segs = (ser_file (firstn k segs) ++ ser_seg TAG_DATA true s ++ ser_file (skipn (S k) segs))%list.
Proof.
  intros segs k s Hk. destruct (nth_error_split segs k Hk) as (l1 & l2 & -> & Hlen).
  subst k. rewrite firstn_app, Nat.sub_diag, firstn_all. cbn [firstn]. rewrite app_nil_r.
  replace (skipn (S (length l1)) (l1 ++ s :: l2)) with l2.
  - rewrite ser_file_app', ser_file_cons. reflexivity.
  - clear Hk. induction l1 as [|x l1 IH]; [reflexivity|exact IH].
Qed.

Lemma wf_file_nth segs k s : wf_file segs -> nth_error segs k = Some s -> wf_fseg s = true.
Proof.
  unfold wf_file. intros Hwf Hk. rewrite forallb_forall in Hwf. apply Hwf. exact (nth_error_In _ _ Hk).
Qed.

Lemma segs_encode_nth : forall gs segs chunkss, segs_encode gs segs chunkss ->
    forall k g s, nth_error gs k = Some g -> nth_error segs k = Some s ->
    exists cs, nth_error chunkss k = Some cs /\ seg_encodes g (fs_data s) cs.
Proof.
  induction 1 as [|g0 gs s0 r cs css He _ IH]; intros k g s Hg Hs; [destruct k; discriminate|].
  destruct k as [|k]; cbn [nth_error] in *.
  - injection Hg as <-. injection Hs as <-. exists cs. split; [reflexivity|exact He].
  - exact (IH k g s Hg Hs).
Qed.

(* ---- the record with its object index -------------------------------------------------------------------------------- *)

Lemma seg_at_with_index pos s g : seg_at pos s g -> seg_at pos s (with_index g).
Proof. intros H. exact H. Qed.

Lemma seg_encodes_with_index g data cs : seg_encodes g data cs -> seg_encodes (with_index g) data cs.
Proof.
  intros H. destruct H as [H1 H2|css H1 H2 H3 H4 H5 H6|nv m rows H1 H2 H3 H4 H5 H6 H7 H8 H9 H10].
  - exact (se_empty (with_index g) data H1 H2).
  - exact (se_contig (with_index g) data css H1 H2 H3 H4 H5 H6).
  - exact (se_interleaved (with_index g) data nv m rows H1 H2 H3 H4 H5 H6 H7 H8 H9 H10).
Qed.

(* ---- chunk size of a segment without DAQmx objects --------------------------------------------------------------------- *)

Lemma get_chunk_size_plain g lay :
  seg_layout g = Ok lay -> lay <> LDaqmx ->
  get_chunk_size_gen g = Ok (zsum (map so_dsize (data_objs (sg_objs g)))).
Proof.
  intros Hlay Hne. unfold get_chunk_size_gen. rewrite have_daqmx_objects_eq.
  unfold seg_layout in Hlay.
  destruct (have_daqmx (sg_objs g)) as [[|]|]; cbn [bind opt_view] in *; try discriminate.
  - exfalso. apply Hne. cbv beta iota in Hlay. congruence.
  - reflexivity.
Qed.

(* ---- the view's chunk size is the number_values of a data object of the segment ---------------------------------------- *)

Lemma segv_of_chunk data path g sv :
  segv_of data path g = Ok sv -> sv_chunk sv <> 0 ->
  exists o, In o (data_objs (sg_objs g)) /\ sv_chunk sv = so_nvals o.
Proof.
  unfold segv_of. intros H Hne. cbv zeta in H.
  set (chunk := match LazyBytes.segment_object g path with Some o => if so_has_data o then so_nvals o else 0 | None => 0 end) in *.
  assert (Hc : sv_chunk sv = chunk).
  { revert H. destruct (chunk =? 0) eqn:E.
    - intros H. injection H as <-. cbn [sv_chunk] in Hne. congruence.
    - destruct (seg_layout g) as [lay|]; cbn [bind]; [|discriminate].
      destruct (read_segment data g) as [cs|]; cbn [bind]; [|discriminate].
      intros H. injection H as <-. reflexivity. }
  rewrite Hc in *. clear H Hc. unfold chunk in *. unfold LazyBytes.segment_object in *.
  destruct (alookup path (sg_index g)) as [i|]; [|congruence].
  destruct (nth_error (sg_objs g) i) as [o|] eqn:Ei; [|congruence].
  destruct (so_has_data o) eqn:Ed; [|congruence].
  exists o. split; [|reflexivity]. unfold data_objs. apply filter_In. split; [exact (nth_error_In _ _ Ei)|exact Ed].
Qed.

(* ---- valid UTF-8 strings, stated on the decoded chunks -------------------------------------------------------------------- *)

(* every string channel's values in chunk c are valid UTF-8 (String._decode leaves them alone) *)
Definition strings_valid (objs : list sobj) (c : chunk) : Prop :=
  forall o vs, In o objs -> so_dtype o = Some T_STRING -> alookup (so_path o) c = Some (CData vs) ->
               Forall (fun s => utf8_valid s = true) vs.

Lemma strings_valid_neutral {R : sobj -> list bytes -> Prop} : forall objs vss,
    Forall2 R objs vss -> NoDup (map so_path objs) ->
    strings_valid objs (chunk_of (combine objs vss)) -> Forall2 decode_neutral objs vss.
Proof.
  induction 1 as [|o vs objs vss _ _ IH]; intros Hnd Hsv; [constructor|].
  cbn [map] in Hnd. inversion Hnd as [|x l Hnin Hnd']; subst.
  constructor.
  - intros Hs. apply (Hsv o vs (or_introl eq_refl) Hs).
    cbn [combine chunk_of map fst snd alookup]. rewrite bytes_eqb_refl. reflexivity.
  - apply IH; [exact Hnd'|]. intros o' vs' Hin Hs Hl. apply (Hsv o' vs' (or_intror Hin) Hs).
    cbn [combine chunk_of map fst snd alookup].
    replace (bytes_eqb (so_path o') (so_path o)) with false; [exact Hl|].
    symmetry. apply bytes_eqb_neq. intros E. apply Hnin. rewrite <- E. apply in_map. exact Hin.
Qed.

Lemma vals_ok_obj_ok n o vs : vals_ok n o vs -> obj_ok o.
Proof.
  intros [_ H]. unfold obj_ok. destruct (so_dtype o) as [dt|]; [|contradiction].
  exists dt. split; [reflexivity|]. unfold data_type_ok.
  destruct (tds_size dt) as [[sz|]|] eqn:E; [exact I|tauto|].
  destruct H as [-> _]. vm_compute in E. discriminate.
Qed.

(* ---- EVERY contiguous segment of a serialised file ------------------------------------------------------------------------ *)

Section EverySegment.
  Variables (segs : list fseg) (st st' : rstate) (chunkss : list (list chunk)).
  Hypothesis Hwf : wf_file segs.
  Hypothesis Hrun : sm_run segs false = Ok st.
  Hypothesis Henc : segs_encode (rs_segments st) segs chunkss.
  Hypothesis Hmeta : rd_metadata (ser_file segs) false (Some (blen (ser_file segs))) true = Ok st'.

  (* what the k-th record of the reader's state is *)
  Lemma reader_segment_nth k g' :
    nth_error (rs_segments st') k = Some g' ->
    exists g s cs, g' = with_index g /\ nth_error (rs_segments st) k = Some g /\ nth_error segs k = Some s /\
                   nth_error chunkss k = Some cs /\ wf_fseg s = true /\
                   seg_at (blen (ser_file (firstn k segs))) s g' /\ seg_encodes g' (fs_data s) cs /\
                   ser_file segs = (ser_file (firstn k segs) ++ ser_seg TAG_DATA true s ++ ser_file (skipn (S k) segs))%list.
  Proof.
    intros Hk. destruct (rd_metadata_with_index segs st Hwf Hrun) as (st2 & H2 & Hsegs & _).
    rewrite Hmeta in H2. injection H2 as <-. rewrite Hsegs in Hk.
    rewrite nth_error_map in Hk. destruct (nth_error (rs_segments st) k) as [g|] eqn:Eg; [|discriminate].
    injection Hk as <-.
    pose proof (sm_segment_positions segs false st Hrun) as Hat. pose proof (segs_at_length _ _ _ Hat) as Hlen.
    destruct (nth_error segs k) as [s|] eqn:Es.
    2:{ apply nth_error_None in Es. assert (nth_error (rs_segments st) k <> None) by congruence.
        apply nth_error_Some in H. lia. }
    destruct (sm_segment_positions_nth segs false st k s Hwf Hrun Es) as (g2 & Hg2 & Hat2).
    rewrite Eg in Hg2. injection Hg2 as <-.
    destruct (segs_encode_nth _ _ _ Henc k g s Eg Es) as (cs & Hcs & He).
    exists g, s, cs. refine (conj eq_refl (conj eq_refl (conj eq_refl (conj Hcs (conj _ (conj _ (conj _ _))))))).
    - exact (wf_file_nth segs k s Hwf Es).
    - apply seg_at_with_index. exact Hat2.
    - apply seg_encodes_with_index. exact He.
    - exact (ser_file_split segs k s Es).
  Qed.

  Lemma contig_nchunks g s css :
    forall pos, seg_at pos s g -> seg_layout g = Ok LContig ->
    0 < zsum (map so_dsize (data_objs (sg_objs g))) ->
    Forall (Forall2 (dsize_ok (toc_endian (sg_toc g))) (data_objs (sg_objs g))) css ->
    fs_data s = enc_chunks (toc_endian (sg_toc g)) (data_objs (sg_objs g)) css ->
    sg_nchunks g = Z.of_nat (length css).
  Proof.
    intros pos Hat Hlay Hcs0 Hds Hfs. destruct Hat as (_ & _ & _ & _ & _ & Hcc).
    rewrite Hfs, (enc_chunks_blen _ _ css Hds) in Hcc.
    rewrite (calculate_chunks_exact _ _ _ _ (Z.of_nat (length css)) (seg_layout_contig_chunk_size g Hlay) Hcs0 ltac:(lia)) in Hcc.
    injection Hcc as Hn _. symmetry. exact Hn.
  Qed.

  Lemma contig_segment_fetch k g' p0 path co nc sv :
    let cs := zsum (map so_dsize (data_objs (sg_objs g'))) in
    let stop := match nc with None => sg_nchunks g' | Some n => n + co end in
    nth_error (rs_segments st') k = Some g' ->
    seg_layout g' = Ok LContig ->
    (forall c, nth_error chunkss k = Some c -> Forall (strings_valid (data_objs (sg_objs g'))) c) ->
    segv_of (ser_file segs) path g' = Ok sv -> sv_chunk sv <> 0 ->
    0 <= co -> stop <= sg_nchunks g' ->
    (0 < sg_nchunks g' \/ Forall obj_ok (data_objs (sg_objs g'))) ->
    mapr (fun p => (chunks_values (fst p), pf_data (snd p), pf_pos (snd p)))
         (segment_read_raw_data_for_channel_gen g' (mkPf (ser_file segs) p0) path co nc)
    = mapr (fun vss => (Some ((if toc_has (sg_toc g') TOC_RAW then [] else [[]]) ++ vss), ser_file segs,
                        if stop <=? co then sg_data g' + cs * co else sg_data g' + cs * stop))
           (seg_fetch bytes sv co (match nc with None => sg_nchunks g' - co | Some n => n end)).
  Proof.
    intros cs stop Hk Hlay Hstr Hsv Hne Hco Hstop Hok.
    destruct (reader_segment_nth k g' Hk) as (g & s & c & _ & _ & _ & Hc & Hws & Hat & He & Hsplit).
    specialize (Hstr c Hc).
    destruct He as [H1 H2|css H1 H2 H3 H4 H5 H6|nv m rows H1 H2 H3 H4 H5 H6 H7 H8 H9 H10].
    - destruct (segv_of_chunk _ _ _ _ Hsv Hne) as (o & Ho & _). rewrite H1 in Ho. destruct Ho.
    - pose proof (contig_nchunks g' s css _ Hat Hlay H2 H5 H6) as Hn.
      assert (Hok' : Forall obj_ok (data_objs (sg_objs g'))).
      { destruct Hok as [Hpos|Hok]; [|exact Hok].
        destruct css as [|vss css']; [cbn [length] in Hn; lia|].
        apply Forall_cons_iff in H4. destruct H4 as [Hv _].
        clear -Hv. induction Hv as [|o vs objs vss Hv _ IH]; constructor; [exact (vals_ok_obj_ok _ _ _ Hv)|exact IH]. }
      assert (Hdn : Forall (Forall2 decode_neutral (data_objs (sg_objs g'))) css).
      { rewrite Forall_map in Hstr. rewrite Forall_forall in Hstr, H4 |- *. intros vss Hin.
        exact (strings_valid_neutral _ _ (H4 vss Hin) H3 (Hstr vss Hin)). }
      rewrite Hsplit in Hsv |- *.
      exact (contig_read_raw_data_for_channel_seg_at g' s _ css _ p0 path co nc sv Hws Hat Hlay
               (get_chunk_size_plain g' LContig Hlay ltac:(discriminate)) H2 H6 Hco Hok' H3 H4 H5 Hdn Hsv Hne Hstop).
    - rewrite H1 in Hlay. discriminate.
  Qed.

  Lemma interleaved_segment_fetch k g' p0 path co nc sv :
    let cs := zsum (map so_dsize (data_objs (sg_objs g'))) in
    let stop := match nc with None => sg_nchunks g' | Some n => n + co end in
    nth_error (rs_segments st') k = Some g' ->
    seg_layout g' = Ok LInterleaved ->
    segv_of (ser_file segs) path g' = Ok sv -> sv_chunk sv <> 0 ->
    0 <= co -> co <= stop -> stop <= sg_nchunks g' ->
    mapr (fun p => (chunks_values (fst p), pf_data (snd p), pf_pos (snd p)))
         (segment_read_raw_data_for_channel_gen g' (mkPf (ser_file segs) p0) path co nc)
    = mapr (fun vss => (Some ((if toc_has (sg_toc g') TOC_RAW then [] else [[]]) ++ vss), ser_file segs,
                        sg_data g' + cs * co + cs))
           (seg_fetch bytes sv co (match nc with None => sg_nchunks g' - co | Some n => n end)).
  Proof.
    intros cs stop Hk Hlay Hsv Hne Hco Hcs Hstop.
    destruct (reader_segment_nth k g' Hk) as (g & s & c & _ & _ & _ & Hc & Hws & Hat & He & Hsplit).
    destruct He as [H1 H2|css H1 H2 H3 H4 H5 H6|nv m rows H1 H2 H3 H4 H5 H6 H7 H8 H9 H10].
    - destruct (segv_of_chunk _ _ _ _ Hsv Hne) as (o & Ho & _). rewrite H1 in Ho. destruct Ho.
    - rewrite H1 in Hlay. discriminate.
    - destruct (segv_of_chunk _ _ _ _ Hsv Hne) as (o & Ho & Hch).
      assert (Hnv : sv_chunk sv = nv).
      { rewrite Hch. rewrite Forall_forall in H5. exact (proj1 (H5 o Ho)). }
      pose proof (width_pos _ H2 H6) as Hw.
      pose proof (interleaved_chunk_bytes nv _ H5) as Hcb. fold cs in Hcb.
      destruct Hat as (_ & _ & HD & _ & _ & Hcc).
      assert (Hlen : blen (fs_data s) = m * cs).
      { rewrite H10, (enc_rows_blen _ _ rows H8), H9, Hcb. nia. }
      rewrite Hlen in Hcc.
      rewrite (calculate_chunks_exact _ _ _ cs m (seg_layout_interleaved_chunk_size g' Hlay)) in Hcc by nia.
      injection Hcc as Hn _.
      pose proof (blen_ser_seg false s Hws) as Hbs.
      change (tag_of false) with TAG_DATA in Hbs. change (negb false) with true in Hbs. cbv iota in Hbs.
      apply (interleaved_read_raw_data_for_channel_view g' (ser_file segs) p0 path co nc cs sv Hlay
               (get_chunk_size_plain g' LInterleaved Hlay ltac:(discriminate))); try assumption.
      + rewrite HD. pose proof (blen_nonneg (ser_file (firstn k segs))). pose proof (blen_nonneg (fs_meta_bytes s)). lia.
      + lia.
      + rewrite Hcb, Hnv. lia.
      + rewrite Hsplit at 1. rewrite !blen_app, Hbs, HD, Hlen.
        pose proof (blen_nonneg (ser_file (skipn (S k) segs))). fold stop. nia.
  Qed.
End EverySegment.

(* ---- both layouts in one statement ----------------------------------------------------------------------------------- *)

Definition fetch_end (lay : layout) (g : segment) (cs co stop : Z) : Z :=
  match lay with
  | LContig => if stop <=? co then sg_data g + cs * co else sg_data g + cs * stop
  | _ => sg_data g + cs * co + cs
  end.

Theorem every_segment_fetch segs st st' chunkss k g' p0 path co nc sv :
  let cs := zsum (map so_dsize (data_objs (sg_objs g'))) in
  let stop := match nc with None => sg_nchunks g' | Some n => n + co end in
  wf_file segs -> sm_run segs false = Ok st -> segs_encode (rs_segments st) segs chunkss ->
  rd_metadata (ser_file segs) false (Some (blen (ser_file segs))) true = Ok st' ->
  nth_error (rs_segments st') k = Some g' ->
  (forall c, nth_error chunkss k = Some c -> Forall (strings_valid (data_objs (sg_objs g'))) c) ->
  segv_of (ser_file segs) path g' = Ok sv -> sv_chunk sv <> 0 ->
  0 <= co -> co <= stop -> stop <= sg_nchunks g' ->
  (0 < sg_nchunks g' \/ Forall obj_ok (data_objs (sg_objs g'))) ->
  exists lay, seg_layout g' = Ok lay /\ lay <> LDaqmx /\
    mapr (fun p => (chunks_values (fst p), pf_data (snd p), pf_pos (snd p)))
         (segment_read_raw_data_for_channel_gen g' (mkPf (ser_file segs) p0) path co nc)
    = mapr (fun vss => (Some ((if toc_has (sg_toc g') TOC_RAW then [] else [[]]) ++ vss), ser_file segs,
                        fetch_end lay g' cs co stop))
           (seg_fetch bytes sv co (match nc with None => sg_nchunks g' - co | Some n => n end)).
Proof.
  intros cs stop Hwf Hrun Henc Hmeta Hk Hstr Hsv Hne Hco Hcs Hstop Hok.
  destruct (reader_segment_nth segs st st' chunkss Hwf Hrun Henc Hmeta k g' Hk) as (g & s & c & _ & _ & _ & _ & _ & _ & He & _).
  destruct He as [H1 H2|css H1 _ _ _ _ _|nv m rows H1 _ _ _ _ _ _ _ _ _].
  - destruct (segv_of_chunk _ _ _ _ Hsv Hne) as (o & Ho & _). rewrite H1 in Ho. destruct Ho.
  - exists LContig. split; [exact H1|]. split; [discriminate|].
    exact (contig_segment_fetch segs st st' chunkss Hwf Hrun Henc Hmeta k g' p0 path co nc sv Hk H1 Hstr Hsv Hne Hco Hstop Hok).
  - exists LInterleaved. split; [exact H1|]. split; [discriminate|].
    exact (interleaved_segment_fetch segs st st' chunkss Hwf Hrun Henc Hmeta k g' p0 path co nc sv Hk H1 Hsv Hne Hco Hcs Hstop).
Qed.

(* ---- an EMPTY request (stop <= co) against a contiguous segment touches no data object: no obj_ok needed ------------------- *)

Lemma segv_of_contig_flag data path g sv :
  segv_of data path g = Ok sv -> sv_chunk sv <> 0 -> seg_layout g = Ok LContig -> sv_interleaved sv = false.
Proof.
  unfold segv_of. intros H Hne Hlay. cbv zeta in H. rewrite Hlay in H. cbn [bind] in H. revert H.
  match goal with |- context [if ?c then _ else _] => destruct c end.
  - intros H. injection H as <-. cbn [sv_chunk] in Hne. congruence.
  - destruct (read_segment data g) as [cs|]; cbn [bind]; [|discriminate].
    intros H. injection H as <-. reflexivity.
Qed.

Lemma contig_empty_request sg data p0 path co nc cs sv :
  let stop := match nc with None => sg_nchunks sg | Some n => n + co end in
  seg_layout sg = Ok LContig -> get_chunk_size_gen sg = Ok cs -> 0 <= sg_data sg -> 0 <= cs -> 0 <= co -> stop <= co ->
  segv_of data path sg = Ok sv -> sv_chunk sv <> 0 ->
  mapr (fun p => (chunks_values (fst p), pf_data (snd p), pf_pos (snd p)))
       (segment_read_raw_data_for_channel_gen sg (mkPf data p0) path co nc)
  = mapr (fun vss => (Some ((if toc_has (sg_toc sg) TOC_RAW then [] else [[]]) ++ vss), data,
                      if stop <=? co then sg_data sg + cs * co else sg_data sg + cs * stop))
         (seg_fetch bytes sv co (match nc with None => sg_nchunks sg - co | Some n => n end)).
Proof.
  intros stop Hlay Hcs Hd Hcs0 Hco Hst Hsv Hne.
  rewrite segment_read_raw_data_for_channel_eq by exact Hd. rewrite Hcs. cbn [bind pf_data]. cbv zeta.
  assert (Hpos : (if co >? 0 then sg_data sg + cs * co else sg_data sg) = sg_data sg + cs * co).
  { destruct (co >? 0) eqn:E; [reflexivity|]. assert (co = 0) by lia. subst co. lia. }
  rewrite Hpos. assert (E : (sg_data sg + cs * co <? 0) = false) by nia. rewrite E.
  rewrite segment_read_channel_data_chunks_dispatch, Hlay. cbn [bind].
  unfold segment_read_channel_data_chunks_lazy_gen. rewrite get_data_reader_eq, Hlay. cbn [mapr bind].
  fold stop. rewrite (GenDecodeEquiv.py_range_nil co stop Hst). cbn [segment_read_channel_data_chunks_lazy_gen_loop1 bind mapr fst snd pf_data pf_pos].
  unfold seg_fetch. rewrite (segv_of_contig_flag _ _ _ _ Hsv Hne Hlay).
  rewrite LazyReadLemmas.zrange_empty by (destruct nc; unfold stop in Hst; lia).
  cbn [mapM mapr]. replace (stop <=? co) with true by lia.
  rewrite !app_nil_r. unfold empty_channel_chunks. destruct (toc_has (sg_toc sg) TOC_RAW); reflexivity.
Qed.

(* ---- the full statement: no data-type hypothesis --------------------------------------------------------------------------- *)

Theorem every_segment_fetch_full segs st st' chunkss k g' p0 path co nc sv :
  let cs := zsum (map so_dsize (data_objs (sg_objs g'))) in
  let stop := match nc with None => sg_nchunks g' | Some n => n + co end in
  wf_file segs -> sm_run segs false = Ok st -> segs_encode (rs_segments st) segs chunkss ->
  rd_metadata (ser_file segs) false (Some (blen (ser_file segs))) true = Ok st' ->
  nth_error (rs_segments st') k = Some g' ->
  (forall c, nth_error chunkss k = Some c -> Forall (strings_valid (data_objs (sg_objs g'))) c) ->
  segv_of (ser_file segs) path g' = Ok sv -> sv_chunk sv <> 0 ->
  0 <= co -> co <= stop -> stop <= sg_nchunks g' ->
  exists lay, seg_layout g' = Ok lay /\ lay <> LDaqmx /\
    mapr (fun p => (chunks_values (fst p), pf_data (snd p), pf_pos (snd p)))
         (segment_read_raw_data_for_channel_gen g' (mkPf (ser_file segs) p0) path co nc)
    = mapr (fun vss => (Some ((if toc_has (sg_toc g') TOC_RAW then [] else [[]]) ++ vss), ser_file segs,
                        fetch_end lay g' cs co stop))
           (seg_fetch bytes sv co (match nc with None => sg_nchunks g' - co | Some n => n end)).
Proof.
  intros cs stop Hwf Hrun Henc Hmeta Hk Hstr Hsv Hne Hco Hcs Hstop.
  destruct (Z_lt_le_dec 0 (sg_nchunks g')) as [Hpos|Hzero].
  - exact (every_segment_fetch segs st st' chunkss k g' p0 path co nc sv Hwf Hrun Henc Hmeta Hk Hstr Hsv Hne Hco Hcs Hstop (or_introl Hpos)).
  - destruct (reader_segment_nth segs st st' chunkss Hwf Hrun Henc Hmeta k g' Hk) as (g & s & c & _ & _ & _ & _ & _ & Hat & He & _).
    destruct He as [H1 H2|css H1 H2 _ _ _ _|nv m rows H1 _ _ _ _ _ _ _ _ _].
    + destruct (segv_of_chunk _ _ _ _ Hsv Hne) as (o & Ho & _). rewrite H1 in Ho. destruct Ho.
    + exists LContig. split; [exact H1|]. split; [discriminate|].
      destruct Hat as (_ & _ & HD & _).
      assert (Hd : 0 <= sg_data g').
      { rewrite HD. pose proof (blen_nonneg (ser_file (firstn k segs))). pose proof (blen_nonneg (fs_meta_bytes s)). lia. }
      exact (contig_empty_request g' (ser_file segs) p0 path co nc cs sv H1
               (get_chunk_size_plain g' LContig H1 ltac:(discriminate)) Hd (Z.lt_le_incl _ _ H2) Hco ltac:(fold stop; lia) Hsv Hne).
    + exists LInterleaved. split; [exact H1|]. split; [discriminate|].
      exact (interleaved_segment_fetch segs st st' chunkss Hwf Hrun Henc Hmeta k g' p0 path co nc sv Hk H1 Hsv Hne Hco Hcs Hstop).
Qed.

Lemma no_strings_valid objs c : Forall (fun o => so_dtype o <> Some T_STRING) objs -> strings_valid objs c.
Proof. intros H o vs Ho Hs. rewrite Forall_forall in H. destruct (H o Ho Hs). Qed.

(* ---- the three-segment file of Proofs/LazyEagerExamples.v (interleaved x 2 chunks | b only | contiguous x 2 chunks) --------- *)
From NpTdms Require Import Proofs.LazyEagerExamples.

Definition ex_f_st : rstate :=
  match rd_metadata (ser_file le_file) false (Some (blen (ser_file le_file))) true with Ok s => s | Err _ => rstate0 end.
Definition ex_f_seg (k : nat) : segment := nth k (rs_segments ex_f_st) (mkSeg 0 0 0 0 false [] [] 0 None).
Definition ex_f_view (k : nat) (p : bytes) : segv bytes :=
  match segv_of (ser_file le_file) p (ex_f_seg k) with Ok sv => sv | Err _ => mk_segv 0 0 None false [] end.

Lemma ex_f_hyps :
  rd_metadata (ser_file le_file) false (Some (blen (ser_file le_file))) true = Ok ex_f_st /\
  length (rs_segments ex_f_st) = 3%nat /\
  (nth_error (rs_segments ex_f_st) 2 = Some (ex_f_seg 2) /\
   segv_of (ser_file le_file) rc_path_b (ex_f_seg 2) = Ok (ex_f_view 2 rc_path_b) /\
   sv_chunk (ex_f_view 2 rc_path_b) <> 0 /\ 0 < sg_nchunks (ex_f_seg 2) /\
   sv_vals (ex_f_view 2 rc_path_b) = [[hex "00"; hex "01"; hex "00"]; [hex "01"; hex "00"; hex "01"]] /\
   (forall c, nth_error le_chunks 2 = Some c -> Forall (strings_valid (data_objs (sg_objs (ex_f_seg 2)))) c)) /\
  (nth_error (rs_segments ex_f_st) 0 = Some (ex_f_seg 0) /\
   segv_of (ser_file le_file) rc_path_a (ex_f_seg 0) = Ok (ex_f_view 0 rc_path_a) /\
   sv_chunk (ex_f_view 0 rc_path_a) <> 0 /\ 0 < sg_nchunks (ex_f_seg 0) /\
   sv_vals (ex_f_view 0 rc_path_a) = [[hex "0102"; hex "0304"]; [hex "0506"; hex "0708"]] /\
   (forall c, nth_error le_chunks 0 = Some c -> Forall (strings_valid (data_objs (sg_objs (ex_f_seg 0)))) c)).
Proof.
  split; [vm_compute; reflexivity|]. split; [vm_compute; reflexivity|].
  split.
  - split; [vm_compute; reflexivity|]. split; [vm_compute; reflexivity|].
    split; [vm_compute; discriminate|]. split; [vm_compute; reflexivity|]. split; [vm_compute; reflexivity|].
    intros c _. apply Forall_forall. intros ch _. apply no_strings_valid. vm_compute. repeat constructor; discriminate.
  - split; [vm_compute; reflexivity|]. split; [vm_compute; reflexivity|].
    split; [vm_compute; discriminate|]. split; [vm_compute; reflexivity|]. split; [vm_compute; reflexivity|].
    intros c _. apply Forall_forall. intros ch _. apply no_strings_valid. vm_compute. repeat constructor; discriminate.
Qed.

(* by the theorem: chunk 1.. of channel b in the contiguous third segment; chunk 1 of channel a in the interleaved first one *)
Lemma ex_f_gen :
  mapr (fun p => (chunks_values (fst p), pf_data (snd p), pf_pos (snd p)))
       (segment_read_raw_data_for_channel_gen (ex_f_seg 2) (mkPf (ser_file le_file) 0) rc_path_b 1 None)
  = Ok (Some [[hex "01"; hex "00"; hex "01"]], ser_file le_file, sg_data (ex_f_seg 2) + 10) /\
  mapr (fun p => (chunks_values (fst p), pf_data (snd p), pf_pos (snd p)))
       (segment_read_raw_data_for_channel_gen (ex_f_seg 0) (mkPf (ser_file le_file) 0) rc_path_a 1 (Some 1))
  = Ok (Some [[hex "0506"; hex "0708"]], ser_file le_file, sg_data (ex_f_seg 0) + 12).
Proof.
  destruct ex_f_hyps as (Hm & _ & (A1 & A2 & A3 & A4 & _ & A6) & (B1 & B2 & B3 & B4 & _ & B6)).
  split.
  - destruct (every_segment_fetch_full le_file le_st ex_f_st le_chunks 2 (ex_f_seg 2) 0 rc_path_b 1 None (ex_f_view 2 rc_path_b)
                le_wf le_run le_encodes Hm A1 A6 A2 A3 ltac:(lia) ltac:(vm_compute; discriminate) ltac:(vm_compute; discriminate))
      as (lay & Hl & _ & Heq).
    rewrite Heq. vm_compute in Hl. injection Hl as <-. vm_compute. reflexivity.
  - destruct (every_segment_fetch_full le_file le_st ex_f_st le_chunks 0 (ex_f_seg 0) 0 rc_path_a 1 (Some 1) (ex_f_view 0 rc_path_a)
                le_wf le_run le_encodes Hm B1 B6 B2 B3 ltac:(lia) ltac:(vm_compute; discriminate) ltac:(vm_compute; discriminate))
      as (lay & Hl & _ & Heq).
    rewrite Heq. vm_compute in Hl. injection Hl as <-. vm_compute. reflexivity.
Qed.


(* ---- the translated TdmsReader.read_raw_data_for_channel is EXTENSIONAL in its I/O world on the calls it makes --------------
   (a building block for composing Props/C04_gen3.v -- whose world answers with the model's seg_fetch -- with the translated
   per-segment function on bytes): two worlds related by R that agree on every call whose chunk range the translated
   read_chunk_range_gen hands on give the same yielded chunks and index table, and related final file states. *)
From NpTdms Require Import Gen.PyFuncsLazyIdx Gen.PyFuncsLazyLoop.

Section WorldSim.
  Variables (F1 F2 V : Type).
  Variables (v1 : F1 -> Z -> res F1) (c1 : F1 -> Z -> segment -> Z -> Z -> res (list (list V) * F1)).
  Variables (v2 : F2 -> Z -> res F2) (c2 : F2 -> Z -> segment -> Z -> Z -> res (list (list V) * F2)).
  Variable R : F1 -> F2 -> Prop.
  Variable P : segment -> Z -> Z -> Prop.
  Hypothesis Hv : forall f1 f2 j f1', R f1 f2 -> v1 f1 j = Ok f1' -> exists f2', v2 f2 j = Ok f2' /\ R f1' f2'.
  Hypothesis Hc : forall f1 f2 j s c n r f1', R f1 f2 -> P s c n -> c1 f1 j s c n = Ok (r, f1') ->
                                             exists f2', c2 f2 j s c n = Ok (r, f2') /\ R f1' f2'.

  Lemma loop2_loop4 skip len : forall chunks i vr ys,
      read_raw_data_for_channel_gen_loop4 V skip len chunks i vr ys = read_raw_data_for_channel_gen_loop2 V skip len chunks i vr ys.
  Proof.
    induction chunks as [|ch r IH]; intros i vr ys; [reflexivity|].
    cbn [read_raw_data_for_channel_gen_loop4 read_raw_data_for_channel_gen_loop2]. cbv zeta.
    destruct (trim_channel_chunk_gen V ch _ _); cbn [bind]; [apply IH|reflexivity].
  Qed.

  Lemma loop1_sim start path offs first en off ei len : forall xs k f1 f2 vr ys f1' vr' ys',
      R f1 f2 ->
      (forall i s c n skip, nth_error xs i = Some s ->
         read_chunk_range_gen s path offs first start en off ei (start + k + Z.of_nat i) = Ok (Some (c, n, skip)) -> P s c n) ->
      read_raw_data_for_channel_gen_loop1 F1 V v1 c1 start path offs first en off ei len xs k f1 vr ys = Ok (f1', vr', ys') ->
      exists f2', read_raw_data_for_channel_gen_loop1 F2 V v2 c2 start path offs first en off ei len xs k f2 vr ys = Ok (f2', vr', ys')
                  /\ R f1' f2'.
  Proof.
    induction xs as [|s xs IH]; intros k f1 f2 vr ys f1' vr' ys' HR HP H.
    - cbn [read_raw_data_for_channel_gen_loop1] in *. injection H as <- <- <-. exists f2. split; [reflexivity|exact HR].
    - cbn [read_raw_data_for_channel_gen_loop1] in *. cbv zeta in *.
      assert (HP' : forall i s0 c n skip, nth_error xs i = Some s0 ->
                read_chunk_range_gen s0 path offs first start en off ei (start + (k + 1) + Z.of_nat i) = Ok (Some (c, n, skip)) -> P s0 c n).
      { intros i s0 c0 n0 sk0 Hi Hr0. apply (HP (S i) s0 c0 n0 sk0 Hi).
        replace (start + k + Z.of_nat (S i)) with (start + (k + 1) + Z.of_nat i) by lia. exact Hr0. }
      destruct (v1 f1 (start + k)) as [f1a|] eqn:E1; cbn [bind] in H; [|discriminate].
      destruct (Hv _ _ _ _ HR E1) as (f2a & E2 & HRa). rewrite E2. cbn [bind].
      destruct (read_chunk_range_gen s path offs first start en off ei (start + k)) as [[[[c n] skip]|]|] eqn:Er;
        cbn [bind] in *; [| |discriminate].
      + destruct (c1 f1a (start + k) s c n) as [[r f1b]|] eqn:Ec; cbn [bind] in H; [|discriminate].
        assert (HPs : P s c n).
        { apply (HP O s c n skip eq_refl). cbn [Z.of_nat]. rewrite Z.add_0_r. exact Er. }
        destruct (Hc _ _ _ _ _ _ _ _ HRa HPs Ec) as (f2b & Ec2 & HRb).
        rewrite Ec2. cbn [bind].
        destruct (read_raw_data_for_channel_gen_loop2 V skip len r 0 vr ys) as [[vr2 ys2]|]; cbn [bind] in *; [|discriminate].
        exact (IH _ _ _ _ _ _ _ _ HRb HP' H).
      + exact (IH _ _ _ _ _ _ _ _ HRa HP' H).
  Qed.

  Lemma loop3_sim start path offs first en off ei len : forall xs k f1 f2 vr ys f1' vr' ys',
      R f1 f2 ->
      (forall i s c n skip, nth_error xs i = Some s ->
         read_chunk_range_gen s path offs first start en off ei (start + k + Z.of_nat i) = Ok (Some (c, n, skip)) -> P s c n) ->
      read_raw_data_for_channel_gen_loop3 F1 V v1 c1 start path offs first en off ei len xs k f1 vr ys = Ok (f1', vr', ys') ->
      exists f2', read_raw_data_for_channel_gen_loop3 F2 V v2 c2 start path offs first en off ei len xs k f2 vr ys = Ok (f2', vr', ys')
                  /\ R f1' f2'.
  Proof.
    induction xs as [|s xs IH]; intros k f1 f2 vr ys f1' vr' ys' HR HP H.
    - cbn [read_raw_data_for_channel_gen_loop3] in *. injection H as <- <- <-. exists f2. split; [reflexivity|exact HR].
    - cbn [read_raw_data_for_channel_gen_loop3] in *. cbv zeta in *.
      assert (HP' : forall i s0 c n skip, nth_error xs i = Some s0 ->
                read_chunk_range_gen s0 path offs first start en off ei (start + (k + 1) + Z.of_nat i) = Ok (Some (c, n, skip)) -> P s0 c n).
      { intros i s0 c0 n0 sk0 Hi Hr0. apply (HP (S i) s0 c0 n0 sk0 Hi).
        replace (start + k + Z.of_nat (S i)) with (start + (k + 1) + Z.of_nat i) by lia. exact Hr0. }
      destruct (v1 f1 (start + k)) as [f1a|] eqn:E1; cbn [bind] in H; [|discriminate].
      destruct (Hv _ _ _ _ HR E1) as (f2a & E2 & HRa). rewrite E2. cbn [bind].
      destruct (read_chunk_range_gen s path offs first start en off ei (start + k)) as [[[[c n] skip]|]|] eqn:Er;
        cbn [bind] in *; [| |discriminate].
      + destruct (c1 f1a (start + k) s c n) as [[r f1b]|] eqn:Ec; cbn [bind] in H; [|discriminate].
        assert (HPs : P s c n).
        { apply (HP O s c n skip eq_refl). cbn [Z.of_nat]. rewrite Z.add_0_r. exact Er. }
        destruct (Hc _ _ _ _ _ _ _ _ HRa HPs Ec) as (f2b & Ec2 & HRb).
        rewrite Ec2. cbn [bind].
        destruct (read_raw_data_for_channel_gen_loop4 V skip len r 0 vr ys) as [[vr2 ys2]|]; cbn [bind] in *; [|discriminate].
        exact (IH _ _ _ _ _ _ _ _ HRb HP' H).
      + exact (IH _ _ _ _ _ _ _ _ HRa HP' H).
  Qed.

  Lemma In_firstn_skipn {A} (x : A) n m l : In x (firstn n (skipn m l)) -> In x l.
  Proof.
    intros H. rewrite <- (firstn_skipn m l). apply in_or_app. right.
    rewrite <- (firstn_skipn n (skipn m l)). apply in_or_app. left. exact H.
  Qed.

  Lemma In_py_slice {A} (x : A) l a b : In x (py_slice l a b) -> In x l.
  Proof. unfold py_slice, sl, zfirstn, zskipn. apply In_firstn_skipn. Qed.

  (* the calls of one request: the index entry (looked up, or built on a miss), the window, the segments
     self._segments[start_segment:end_segment + 1] with their indices, the ranges read_chunk_range_gen hands on *)
  Definition loop_calls (segs : list segment) (tbl : alist (Z * list Z)) (om : alist Z) (path : bytes) (offs : Z) (len : option Z) : Prop :=
    forall first so m,
      (alookup path tbl = Some (first, so) \/
       (alookup path tbl = None /\ exists tbl2, build_index_gen segs tbl path = Ok tbl2 /\ alookup path tbl2 = Some (first, so))) ->
      alookup path om = Some m ->
      let length := match len with None => m - offs | Some l => Z.min l (m - offs) end in
      let A := first + np_searchsorted true so offs in
      let B := first + np_searchsorted false so (offs + length) in
      forall i s c n skip, nth_error (py_slice segs A (B + 1)) i = Some s ->
        read_chunk_range_gen s path so first A B offs (offs + length) (A + Z.of_nat i) = Ok (Some (c, n, skip)) -> P s c n.

  (* the whole generator *)
  Theorem read_raw_data_for_channel_sim segs tbl om f1 f2 path offs len outs tbl' f1' :
    R f1 f2 -> loop_calls segs tbl om path offs len ->
    read_raw_data_for_channel_gen F1 V v1 c1 (Some segs) tbl om f1 path offs len = Ok (outs, tbl', f1') ->
    exists f2', read_raw_data_for_channel_gen F2 V v2 c2 (Some segs) tbl om f2 path offs len = Ok (outs, tbl', f2') /\ R f1' f2'.
  Proof.
    intros HR HP H. unfold read_raw_data_for_channel_gen in *. unfold loop_calls in HP.
    destruct (alookup path tbl) as [[first so]|] eqn:Et.
    - destruct (alookup path om) as [m|] eqn:Em; cbn [PyFuncsReader.need bind] in *; [|discriminate]. cbv zeta in *.
      specialize (HP first so m (or_introl eq_refl) eq_refl).
      destruct len as [l|]; cbn [bind] in *; cbv beta in *.
      + match type of H with context [read_raw_data_for_channel_gen_loop1 _ _ _ _ ?a ?b ?c ?d ?e ?g ?h ?i ?xs ?k _ ?vr ?ys] =>
          destruct (read_raw_data_for_channel_gen_loop1 F1 V v1 c1 a b c d e g h i xs k f1 vr ys) as [[[fa vra] ysa]|] eqn:E;
            cbn [bind] in H; [|discriminate];
            destruct (loop1_sim a b c d e g h i xs k f1 f2 vr ys fa vra ysa HR
                        ltac:(intros i0 s0 c0 n0 sk0 Hi0; rewrite Z.add_0_r; exact (HP i0 s0 c0 n0 sk0 Hi0)) E) as (f2' & E2 & HR')
        end.
        rewrite E2. cbn [bind]. injection H as <- <- <-. exists f2'. split; [reflexivity|exact HR'].
      + match type of H with context [read_raw_data_for_channel_gen_loop1 _ _ _ _ ?a ?b ?c ?d ?e ?g ?h ?i ?xs ?k _ ?vr ?ys] =>
          destruct (read_raw_data_for_channel_gen_loop1 F1 V v1 c1 a b c d e g h i xs k f1 vr ys) as [[[fa vra] ysa]|] eqn:E;
            cbn [bind] in H; [|discriminate];
            destruct (loop1_sim a b c d e g h i xs k f1 f2 vr ys fa vra ysa HR
                        ltac:(intros i0 s0 c0 n0 sk0 Hi0; rewrite Z.add_0_r; exact (HP i0 s0 c0 n0 sk0 Hi0)) E) as (f2' & E2 & HR')
        end.
        rewrite E2. cbn [bind]. injection H as <- <- <-. exists f2'. split; [reflexivity|exact HR'].
    - destruct (build_index_gen segs tbl path) as [tbl2|] eqn:Eb; cbn [bind] in *; [|discriminate].
      destruct (alookup path tbl2) as [[first so]|] eqn:Et2; cbn [PyFuncsReader.need bind] in *; [|discriminate].
      destruct (alookup path om) as [m|] eqn:Em; cbn [PyFuncsReader.need bind] in *; [|discriminate]. cbv zeta in *.
      specialize (HP first so m (or_intror (conj eq_refl (ex_intro _ tbl2 (conj eq_refl Et2)))) eq_refl).
      destruct len as [l|]; cbn [bind] in *; cbv beta in *.
      + match type of H with context [read_raw_data_for_channel_gen_loop3 _ _ _ _ ?a ?b ?c ?d ?e ?g ?h ?i ?xs ?k _ ?vr ?ys] =>
          destruct (read_raw_data_for_channel_gen_loop3 F1 V v1 c1 a b c d e g h i xs k f1 vr ys) as [[[fa vra] ysa]|] eqn:E;
            cbn [bind] in H; [|discriminate];
            destruct (loop3_sim a b c d e g h i xs k f1 f2 vr ys fa vra ysa HR
                        ltac:(intros i0 s0 c0 n0 sk0 Hi0; rewrite Z.add_0_r; exact (HP i0 s0 c0 n0 sk0 Hi0)) E) as (f2' & E2 & HR')
        end.
        rewrite E2. cbn [bind]. injection H as <- <- <-. exists f2'. split; [reflexivity|exact HR'].
      + match type of H with context [read_raw_data_for_channel_gen_loop3 _ _ _ _ ?a ?b ?c ?d ?e ?g ?h ?i ?xs ?k _ ?vr ?ys] =>
          destruct (read_raw_data_for_channel_gen_loop3 F1 V v1 c1 a b c d e g h i xs k f1 vr ys) as [[[fa vra] ysa]|] eqn:E;
            cbn [bind] in H; [|discriminate];
            destruct (loop3_sim a b c d e g h i xs k f1 f2 vr ys fa vra ysa HR
                        ltac:(intros i0 s0 c0 n0 sk0 Hi0; rewrite Z.add_0_r; exact (HP i0 s0 c0 n0 sk0 Hi0)) E) as (f2' & E2 & HR')
        end.
        rewrite E2. cbn [bind]. injection H as <- <- <-. exists f2'. split; [reflexivity|exact HR'].
  Qed.
End WorldSim.

(* ---- the translated loop with the TRANSLATED per-segment function on the file's bytes (conditional composition) -------------- *)
From NpTdms Require Import Proofs.GenLazyIdxEquiv Proofs.GenLazyLoopEquiv.

(* list(segment.read_raw_data_for_channel(file, path, c, n)) on bytes: the translated generator run to its end, its chunks'
   values *)
Definition bytes_chunks (path : bytes) (f : posfile) (j : Z) (s : segment) (c n : Z) : res (list (list bytes) * posfile) :=
  do '(l, f') <- segment_read_raw_data_for_channel_gen s f path c (Some n);
  match chunks_values l with Some vss => Ok (vss, f') | None => Err EOther end.

Definition bytes_verify (f : posfile) (j : Z) : res posfile := Ok f.

(* what is assumed of a call (segment, chunk_offset, num_chunks) the loop makes *)
Definition call_ok (segs : list fseg) (st' : rstate) (chunkss : list (list chunk)) (path : bytes)
           (data_of : segment -> seg_data bytes) (s : segment) (c n : Z) : Prop :=
  exists k, nth_error (rs_segments st') k = Some s /\
            (forall ch, nth_error chunkss k = Some ch -> Forall (strings_valid (data_objs (sg_objs s))) ch) /\
            segv_of (ser_file segs) path s = Ok (view bytes path data_of s) /\
            sv_chunk (view bytes path data_of s) <> 0 /\
            toc_has (sg_toc s) TOC_RAW = true /\
            0 <= c /\ 0 <= n /\ n + c <= sg_nchunks s.

Theorem lazy_loop_on_bytes segs st st' chunkss path data_of tbl om log offs len outs tbl' log' f2 :
  wf_file segs -> sm_run segs false = Ok st -> segs_encode (rs_segments st) segs chunkss ->
  rd_metadata (ser_file segs) false (Some (blen (ser_file segs))) true = Ok st' ->
  pf_data f2 = ser_file segs ->
  loop_calls (call_ok segs st' chunkss path data_of) (rs_segments st') tbl om path offs len ->
  read_raw_data_for_channel_gen iolog bytes w_verify (w_chunks bytes path data_of) (Some (rs_segments st')) tbl om log path offs len
  = Ok (outs, tbl', log') ->
  exists f2', read_raw_data_for_channel_gen posfile bytes bytes_verify (bytes_chunks path) (Some (rs_segments st')) tbl om f2 path offs len
              = Ok (outs, tbl', f2') /\ pf_data f2' = ser_file segs.
Proof.
  intros Hwf Hrun Henc Hmeta Hf2 Hcalls Hrun1.
  apply (read_raw_data_for_channel_sim iolog posfile bytes w_verify (w_chunks bytes path data_of) bytes_verify (bytes_chunks path)
           (fun _ f => pf_data f = ser_file segs) (call_ok segs st' chunkss path data_of)) with (f1 := log) (f1' := log');
    [| |exact Hf2|exact Hcalls|exact Hrun1].
  - intros f1 a j f1' HR H. exists a. split; [reflexivity|exact HR].
  - intros f1 a j s c n r f1' HR (k & Hk & Hstr & Hsv & Hne & Hraw & Hc & Hn & Hstop) H.
    unfold w_chunks in H.
    destruct (seg_fetch bytes (view bytes path data_of s) c n) as [chunks|] eqn:Ef; cbn [bind] in H; [|discriminate].
    injection H as <- _.
    destruct a as [d p0]. cbn [pf_data] in HR. subst d.
    destruct (every_segment_fetch_full segs st st' chunkss k s p0 path c (Some n) _ Hwf Hrun Henc Hmeta Hk Hstr Hsv Hne Hc
                ltac:(cbv beta iota; lia) Hstop) as (lay & _ & _ & Heq).
    rewrite Ef, Hraw in Heq. cbn [mapr app] in Heq. unfold bytes_chunks.
    destruct (segment_read_raw_data_for_channel_gen s (mkPf (ser_file segs) p0) path c (Some n)) as [[l f']|]; cbn [mapr] in Heq; [|discriminate].
    cbn [bind]. cbn [fst snd] in Heq. injection Heq as Hl Hd _. rewrite Hl.
    exists f'. split; [reflexivity|exact Hd].
Qed.

(* ---- the C04_gen3 world instantiated with the views Model/LazyBytes.v segv_of computes on the bytes ----------------------------- *)
From NpTdms Require Import Proofs.GenReaderLazy Proofs.LazyEagerView.

Definition data_of_bytes (data path : bytes) (s : segment) : seg_data bytes :=
  match segv_of data path s with Ok sv => (sv_interleaved sv, sv_vals sv) | Err _ => (false, []) end.

Lemma view_segv_of data path s sv :
  segv_of data path s = Ok sv -> view bytes path (data_of_bytes data path) s = sv.
Proof.
  intros H. unfold view, lview, data_of_bytes. rewrite H. cbn [fst snd]. unfold seg_view. cbn [sv_chunk sv_nchunks sv_final].
  unfold segv_of in H. cbv zeta in H. revert H.
  change (PyFuncsReader.segment_object s path) with (LazyBytes.segment_object s path).
  set (chunk := match LazyBytes.segment_object s path with Some o => if so_has_data o then so_nvals o else 0 | None => 0 end).
  destruct (chunk =? 0) eqn:E.
  - intros H. injection H as <-. cbn [sv_interleaved sv_vals]. apply Z.eqb_eq in E. rewrite E. reflexivity.
  - destruct (seg_layout s) as [lay|]; cbn [bind]; [|discriminate].
    destruct (read_segment data s) as [cs|]; cbn [bind]; [|discriminate].
    intros H. injection H as <-. reflexivity.
Qed.

Theorem lazy_loop_on_bytes_views segs st st' chunkss path tbl om log offs len outs tbl' log' f2 :
  wf_file segs -> sm_run segs false = Ok st -> segs_encode (rs_segments st) segs chunkss ->
  Forall (fun g => NoDup (map so_path (sg_objs g))) (rs_segments st) ->
  rd_metadata (ser_file segs) false (Some (blen (ser_file segs))) true = Ok st' ->
  (forall k s ch, nth_error (rs_segments st') k = Some s -> nth_error chunkss k = Some ch ->
                  Forall (strings_valid (data_objs (sg_objs s))) ch) ->
  pf_data f2 = ser_file segs ->
  loop_calls (fun s c n => toc_has (sg_toc s) TOC_RAW = true /\ 0 <= c /\ 0 <= n /\ n + c <= sg_nchunks s)
             (rs_segments st') tbl om path offs len ->
  read_raw_data_for_channel_gen iolog bytes w_verify (w_chunks bytes path (data_of_bytes (ser_file segs) path))
                                (Some (rs_segments st')) tbl om log path offs len
  = Ok (outs, tbl', log') ->
  exists f2', read_raw_data_for_channel_gen posfile bytes bytes_verify (bytes_chunks path) (Some (rs_segments st')) tbl om f2 path offs len
              = Ok (outs, tbl', f2') /\ pf_data f2' = ser_file segs.
Proof.
  intros Hwf Hrun Henc Hnd Hmeta Hstr Hf2 Hcalls Hrun1.
  apply (lazy_loop_on_bytes segs st st' chunkss path (data_of_bytes (ser_file segs) path) tbl om log offs len outs tbl' log' f2
           Hwf Hrun Henc Hmeta Hf2); [|exact Hrun1].
  intros first so m Hlook Hm length A B i s c n skip Hi Hr.
  destruct (Hcalls first so m Hlook Hm i s c n skip Hi Hr) as (Hraw & Hc & Hn & Hstop).
  pose proof (In_py_slice _ _ _ _ (nth_error_In _ _ Hi)) as Hin.
  destruct (In_nth_error _ _ Hin) as (k & Hk).
  destruct (reader_segment_nth segs st st' chunkss Hwf Hrun Henc Hmeta k s Hk) as (g & s0 & cs & -> & Hg & _ & Hcs & Hws & Hat & He & Hsplit).
  assert (Hsv : exists sv, segv_of (ser_file segs) path (with_index g) = Ok sv).
  { rewrite Forall_forall in Hnd.
    destruct (segv_of_encoded (ser_file (firstn k segs)) s0 (ser_file (skipn (S k) segs)) (with_index g) cs path Hws Hat He
                (Hnd g (nth_error_In _ _ Hg)) eq_refl
                (sm_run_nvals_nonneg segs false st Hwf Hrun g (nth_error_In _ _ Hg))) as (sv & Hsv & _).
    exists sv. rewrite Hsplit. exact Hsv. }
  destruct Hsv as (sv & Hsv).
  exists k. split; [exact Hk|]. split; [intros ch Hch; exact (Hstr k _ ch Hk Hch)|].
  rewrite (view_segv_of _ _ _ _ Hsv). split; [exact Hsv|]. split.
  - rewrite <- (view_segv_of _ _ _ _ Hsv). rewrite read_chunk_range_eq in Hr.
    destruct (sv_chunk (seg_view (with_index g) path) =? 0) eqn:E; [discriminate|]. apply Z.eqb_neq in E. exact E.
  - split; [exact Hraw|]. split; [exact Hc|]. split; [exact Hn|exact Hstop].
Qed.

(* ---- seg_ok (hypothesis of Props/C04_gen3.v) holds of every record of the reader's state --------------------------------------- *)
From NpTdms Require Proofs.DefragFull.

Lemma reader_seg_ok segs st st' chunkss path :
  wf_file segs -> sm_run segs false = Ok st -> segs_encode (rs_segments st) segs chunkss ->
  Forall (fun g => NoDup (map so_path (sg_objs g))) (rs_segments st) ->
  rd_metadata (ser_file segs) false (Some (blen (ser_file segs))) true = Ok st' ->
  forallb (seg_ok path) (rs_segments st') = true.
Proof.
  intros Hwf Hrun Henc Hnd Hmeta. apply forallb_forall. intros s Hin.
  destruct (In_nth_error _ _ Hin) as (k & Hk).
  destruct (reader_segment_nth segs st st' chunkss Hwf Hrun Henc Hmeta k s Hk) as (g & s0 & cs & -> & Hg & _ & _ & _ & Hat & He & _).
  destruct Hat as (_ & _ & _ & _ & _ & Hcc).
  pose proof (DefragFull.seg_encodes_final_none _ _ _ He Hcc) as Hfin.
  rewrite Forall_forall in Hnd. pose proof (Hnd g (nth_error_In _ _ Hg)) as Hndg.
  unfold seg_ok. rewrite Hfin.
  change (sg_index (with_index g)) with (fresh_index (map so_path (sg_objs g))).
  change (sg_objs (with_index g)) with (sg_objs g).
  unfold fresh_index. rewrite fresh_index_from_lookup.
  pose proof (last_pos_nth path (sg_objs g) 0 Hndg) as H.
  destruct (last_pos path (map so_path (sg_objs g)) 0) as [i|]; [|reflexivity].
  destruct H as (_ & Hnth & Hne). rewrite Nat.sub_0_r in Hnth. rewrite Hnth.
  destruct (obj_for path (sg_objs g)) as [o|] eqn:Eo; [|congruence].
  apply obj_for_some in Eo. destruct Eo as [_ Hp]. rewrite Hp, bytes_eqb_refl. cbn [andb]. rewrite !orb_true_r. reflexivity.
Qed.

(* ---- composed with Props/C04_gen3.v window_correct_translated and Props/C03_read.v channel_view_ser ----------------------------- *)

Lemma mapM_views data path : forall l svs,
    mapM (segv_of data path) l = Ok svs -> views bytes path (data_of_bytes data path) l = svs.
Proof.
  induction l as [|a l IH]; intros svs H; cbn [mapM] in H.
  - injection H as <-. reflexivity.
  - destruct (segv_of data path a) as [sv|] eqn:E; cbn [bind] in H; [|discriminate].
    destruct (mapM (segv_of data path) l) as [r|] eqn:E2; cbn [bind] in H; [|discriminate].
    injection H as <-. unfold views. cbn [map]. f_equal; [exact (view_segv_of _ _ _ _ E)|exact (IH r eq_refl)].
Qed.

Theorem translated_lazy_read_window segs st st' chunkss path tbl om offs len (zero : bytes) rk f2 :
  wf_file segs -> sm_run segs false = Ok st -> segs_encode (rs_segments st) segs chunkss ->
  Forall (fun g => NoDup (map so_path (sg_objs g))) (rs_segments st) ->
  rd_metadata (ser_file segs) false (Some (blen (ser_file segs))) true = Ok st' ->
  (forall k s ch, nth_error (rs_segments st') k = Some s -> nth_error chunkss k = Some ch ->
                  Forall (strings_valid (data_objs (sg_objs s))) ch) ->
  pf_data f2 = ser_file segs ->
  loop_calls (fun s c n => toc_has (sg_toc s) TOC_RAW = true /\ 0 <= c /\ 0 <= n /\ n + c <= sg_nchunks s)
             (rs_segments st') tbl om path offs len ->
  zsum (seg_nums unit (seg_views (rs_segments st') path)) < 2 ^ 63 ->
  tbl_ok (rs_segments st') path tbl ->
  alookup path om = Some (om_len (get_ometa path (rs_om st))) ->
  0 <= offs -> (match len with None => True | Some l => 0 <= l end) ->
  exists outs tbl' f2' dt n,
    read_raw_data_for_channel_gen posfile bytes bytes_verify (bytes_chunks path) (Some (rs_segments st')) tbl om f2 path offs len
    = Ok (outs, tbl', f2') /\ pf_data f2' = ser_file segs /\ tbl_ok (rs_segments st') path tbl' /\
    read_channel_data_alloc_gen (Some dt) false (om_len (get_ometa path (rs_om st))) offs len = Ok (Some n) /\
    receive bytes zero rk n outs = Ok (match len with
                                       | None => zskipn offs (chan_values path (concat chunkss))
                                       | Some l => zfirstn l (zskipn offs (chan_values path (concat chunkss)))
                                       end).
Proof.
  intros Hwf Hrun Henc Hnd Hmeta Hstr Hf2 Hcalls Hfit Htbl Hom Ho Hl.
  pose proof (reader_seg_ok segs st st' chunkss path Hwf Hrun Henc Hnd Hmeta) as Hok.
  destruct (channel_view_ser segs st chunkss path Hwf Hrun Henc Hnd) as (svs & Hcv & Hwfv & Hfull & Htot).
  unfold channel_view in Hcv. rewrite Hmeta in Hcv. cbn [bind] in Hcv.
  destruct (mapM (segv_of (ser_file segs) path) (rs_segments st')) as [svs'|] eqn:Em; cbn [bind] in Hcv; [|discriminate].
  injection Hcv as ->.
  pose proof (mapM_views _ _ _ _ Em) as Hviews.
  destruct (window_correct_gen bytes path (data_of_bytes (ser_file segs) path) (rs_segments st') Hok Hfit zero rk tbl om [] offs len Htbl
              ltac:(rewrite Hviews, Htot; exact Hom) ltac:(rewrite Hviews; exact Hwfv) Ho Hl)
    as (outs & log & tbl' & dt & Ht' & Hg & _ & n & Ha & Hrecv).
  destruct (lazy_loop_on_bytes_views segs st st' chunkss path tbl om [] offs len outs tbl' _ f2 Hwf Hrun Henc Hnd Hmeta Hstr Hf2 Hcalls Hg)
    as (f2' & Hb & Hd).
  rewrite Hviews, Htot in Ha. rewrite Hviews, Hfull in Hrecv.
  exists outs, tbl', f2', dt, n. repeat split; assumption.
Qed.

(* ---- the hypotheses of translated_lazy_read_window on the three-segment file: channel a, read_data(offset=1, length=4) ------------ *)
Lemma ex_f_window_hyps :
  (forall k s ch, nth_error (rs_segments ex_f_st) k = Some s -> nth_error le_chunks k = Some ch ->
                  Forall (strings_valid (data_objs (sg_objs s))) ch) /\
  loop_calls (fun s c n => toc_has (sg_toc s) TOC_RAW = true /\ 0 <= c /\ 0 <= n /\ n + c <= sg_nchunks s)
             (rs_segments ex_f_st) [] [(rc_path_a, 6)] rc_path_a 1 (Some 4) /\
  zsum (seg_nums unit (seg_views (rs_segments ex_f_st) rc_path_a)) < 2 ^ 63 /\
  alookup rc_path_a [(rc_path_a, 6)] = Some (om_len (get_ometa rc_path_a (rs_om le_st))).
Proof.
  split.
  { intros k s ch Hk _. apply Forall_forall. intros c0 _. apply no_strings_valid.
    destruct k as [|[|[|k]]]; vm_compute in Hk; try (destruct k; discriminate);
      injection Hk as <-; vm_compute; repeat constructor; discriminate. }
  split.
  { unfold loop_calls. intros first so m [H|[_ (tbl2 & Hb & Hl)]] Hm; [vm_compute in H; discriminate|].
    vm_compute in Hb. injection Hb as <-. vm_compute in Hl. injection Hl as <- <-.
    vm_compute in Hm. injection Hm as <-.
    intros i s c n skip Hi Hr.
    destruct i as [|[|[|i]]]; vm_compute in Hi; try (destruct i; discriminate);
      injection Hi as <-; vm_compute in Hr; try discriminate;
      injection Hr as <- <- <-; vm_compute; repeat split; try reflexivity; discriminate. }
  split; [vm_compute; reflexivity|]. vm_compute; reflexivity.
Qed.

Lemma ex_f_window :
  exists outs tbl' f2' dt n,
    read_raw_data_for_channel_gen posfile bytes bytes_verify (bytes_chunks rc_path_a) (Some (rs_segments ex_f_st)) [] [(rc_path_a, 6)]
                                  (mkPf (ser_file le_file) 0) rc_path_a 1 (Some 4) = Ok (outs, tbl', f2') /\
    read_channel_data_alloc_gen (Some dt) false 6 1 (Some 4) = Ok (Some n) /\
    receive bytes [] LazyRead.RNumpy n outs = Ok [hex "0304"; hex "0506"; hex "0708"; hex "0a0b"].
Proof.
  destruct ex_f_hyps as (Hm & _). destruct ex_f_window_hyps as (H1 & H2 & H4 & H5).
  destruct (translated_lazy_read_window le_file le_st ex_f_st le_chunks rc_path_a [] [(rc_path_a, 6)] 1 (Some 4) [] LazyRead.RNumpy
              (mkPf (ser_file le_file) 0) le_wf le_run le_encodes le_distinct Hm H1 eq_refl H2 H4 I H5 ltac:(lia) ltac:(cbv beta iota; lia))
    as (outs & tbl' & f2' & dt & n & Hg & _ & _ & Ha & Hr).
  exists outs, tbl', f2', dt, n. split; [exact Hg|]. split.
  - replace 6 with (om_len (get_ometa rc_path_a (rs_om le_st))) by (vm_compute; reflexivity). exact Ha.
  - rewrite Hr. vm_compute. reflexivity.
Qed.
