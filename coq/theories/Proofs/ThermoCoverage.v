(* Proofs/ThermoCoverage.v -- for every float that is not NaN exactly one piece of a
   complete, contiguous table selects it (so np.piecewise never falls to its NaN
   default, and the order of the pieces is irrelevant).

   Reasoning about binary64 comparison goes through FloatAxioms.ltb_spec /
   leb_spec / eqb_spec and elementary facts about SpecFloat.SFcompare. *)
From Coq Require Import ZArith Bool List Lia PrimFloat FloatAxioms SpecFloat FloatOps.
Import ListNotations.
From NpTdms Require Import Gen.ThermoTables.
From NpTdms Require Import Model.ThermoF.

(* ---- SFcompare ---------------------------------------------------------------------- *)

Definition sf_nan (x : spec_float) : bool := match x with S754_nan => true | _ => false end.

Lemma SFcompare_swap x y :
  SFcompare y x = match SFcompare x y with Some c => Some (CompOpp c) | None => None end.
Proof.
  destruct x as [sx|sx| |sx mx ex], y as [sy|sy| |sy my ey];
    try destruct sx; try destruct sy; simpl; try reflexivity.
  all: rewrite (Z.compare_antisym ex ey); destruct (ex ?= ey)%Z eqn:E; simpl; try reflexivity.
  all: unfold Pos.compare; rewrite (Pos.compare_cont_antisym mx my Eq); simpl;
    destruct (Pos.compare_cont Eq mx my); reflexivity.
Qed.

Lemma SFcompare_total x y : sf_nan x = false -> sf_nan y = false -> SFcompare x y <> None.
Proof.
  destruct x as [sx|sx| |sx mx ex], y as [sy|sy| |sy my ey]; simpl; try discriminate; intros _ _;
    try destruct sx; try destruct sy; try discriminate.
Qed.

Lemma SFcompare_some_not_nan x y c : SFcompare x y = Some c -> sf_nan x = false /\ sf_nan y = false.
Proof. destruct x, y; simpl; try discriminate; auto. Qed.

(* x == e (IEEE) makes them indistinguishable for comparisons with a third value *)
Lemma SFcompare_Eq_r a b x : SFcompare a b = Some Eq -> SFcompare x a = SFcompare x b.
Proof.
  destruct a as [sa|sa| |sa ma ea], b as [sb|sb| |sb mb eb]; simpl; try discriminate;
    try destruct sa; try destruct sb; try discriminate; intros H.
  1-4: destruct x as [sx|sx| |sx mx ex]; reflexivity.
  1-2: reflexivity.
  all: destruct (ea ?= eb)%Z eqn:E; try discriminate; apply Z.compare_eq in E; subst eb.
  all: assert (Hm : Pos.compare_cont Eq ma mb = Eq)
      by (destruct (Pos.compare_cont Eq ma mb); simpl in H; congruence).
  all: apply Pos.compare_eq in Hm; subst mb; reflexivity.
Qed.

Lemma SFcompare_Eq_l a b x : SFcompare a b = Some Eq -> SFcompare a x = SFcompare b x.
Proof.
  intros H. rewrite (SFcompare_swap x a), (SFcompare_swap x b), (SFcompare_Eq_r a b x H). reflexivity.
Qed.

Lemma SFcompare_Lt_trans x y z :
  SFcompare x y = Some Lt -> SFcompare y z = Some Lt -> SFcompare x z = Some Lt.
Proof.
  destruct x as [sx|sx| |sx mx ex], y as [sy|sy| |sy my ey], z as [sz|sz| |sz mz ez]; simpl;
    try discriminate; try destruct sx; try destruct sy; try destruct sz; try discriminate;
    try reflexivity; intros H1 H2.
  all: destruct (Z.compare_spec ex ey) as [E1|E1|E1]; try discriminate;
    destruct (Z.compare_spec ey ez) as [E2|E2|E2]; try discriminate;
    destruct (Z.compare_spec ex ez) as [E3|E3|E3]; try lia; try reflexivity; subst.
  all: fold (Pos.compare mx my) in H1; fold (Pos.compare my mz) in H2; fold (Pos.compare mx mz).
  all: destruct (Pos.compare_spec mx my) as [F1|F1|F1]; try discriminate;
    destruct (Pos.compare_spec my mz) as [F2|F2|F2]; try discriminate;
    destruct (Pos.compare_spec mx mz) as [F3|F3|F3]; try lia; reflexivity.
Qed.

(* ---- the same facts on primitive floats --------------------------------------------- *)

Definition not_nan (x : float) : Prop := sf_nan (Prim2SF x) = false.

Lemma eqb_compare a b : (a =? b)%float = true -> SFcompare (Prim2SF a) (Prim2SF b) = Some Eq.
Proof.
  rewrite eqb_spec. unfold SFeqb. destruct (SFcompare (Prim2SF a) (Prim2SF b)) as [[]|]; congruence.
Qed.

Lemma is_nan_not_nan x : is_nan x = false -> not_nan x.
Proof.
  unfold is_nan. intros H. apply negb_false_iff in H. apply eqb_compare in H.
  apply SFcompare_some_not_nan in H. apply H.
Qed.

Lemma ltb_false_leb x e : not_nan x -> not_nan e -> (x <? e)%float = false -> (e <=? x)%float = true.
Proof.
  intros Hx He. rewrite ltb_spec, leb_spec. unfold SFltb, SFleb.
  rewrite (SFcompare_swap (Prim2SF x) (Prim2SF e)).
  pose proof (SFcompare_total _ _ Hx He) as Ht.
  destruct (SFcompare (Prim2SF x) (Prim2SF e)) as [[]|]; simpl; congruence.
Qed.

Lemma ltb_true_leb x e : (x <? e)%float = true -> (e <=? x)%float = false.
Proof.
  rewrite ltb_spec, leb_spec. unfold SFltb, SFleb.
  rewrite (SFcompare_swap (Prim2SF x) (Prim2SF e)).
  destruct (SFcompare (Prim2SF x) (Prim2SF e)) as [[]|]; simpl; congruence.
Qed.

Lemma eqb_not_nan_r a b : (a =? b)%float = true -> not_nan b.
Proof. intros H. apply eqb_compare in H. apply SFcompare_some_not_nan in H. apply H. Qed.

Lemma eqb_leb_l a b x : (a =? b)%float = true -> (a <=? x)%float = (b <=? x)%float.
Proof.
  intros H. rewrite !leb_spec. unfold SFleb. rewrite (SFcompare_Eq_l _ _ _ (eqb_compare _ _ H)). reflexivity.
Qed.

Lemma ltb_trans x y z : (x <? y)%float = true -> (y <? z)%float = true -> (x <? z)%float = true.
Proof.
  rewrite !ltb_spec. unfold SFltb. intros H1 H2.
  rewrite (SFcompare_Lt_trans (Prim2SF x) (Prim2SF y) (Prim2SF z)); [reflexivity| |].
  - destruct (SFcompare (Prim2SF x) (Prim2SF y)) as [[]|]; congruence.
  - destruct (SFcompare (Prim2SF y) (Prim2SF z)) as [[]|]; congruence.
Qed.

Lemma ltb_eqb_r x a b : (a =? b)%float = true -> (x <? a)%float = (x <? b)%float.
Proof.
  intros H. rewrite !ltb_spec. unfold SFltb. rewrite (SFcompare_Eq_r _ _ _ (eqb_compare _ _ H)). reflexivity.
Qed.

(* ---- complete tables ------------------------------------------------------------------ *)

(* rest of a table after a piece that ended at `pe`: pieces [s, e) with s == pe and s < e,
   closed by a piece [s, None) *)
Fixpoint chain (pe : float) (ps : list polynomial) : bool :=
  match ps with
  | [] => false
  | p :: rest =>
    match applicable_range p with
    | REnd _ => false
    | RStart s => (s =? pe)%float && match rest with [] => true | _ => false end
    | RBoth s e => (s =? pe)%float && (s <? e)%float && chain e rest
    end
  end.

(* first start None, last end None, contiguous, increasing boundaries *)
Definition complete_table (ps : list polynomial) : bool :=
  match ps with
  | p :: rest => match applicable_range p with REnd e => chain e rest | _ => false end
  | [] => false
  end.

(* the comparisons the proof relies on (definitional when Gen/ThermoTables.v has the
   inclusive-start / exclusive-end comparisons; otherwise this file stops compiling) *)
Lemma wr_end_only_is x e : wrF_end_only x e = (x <? e)%float. Proof. reflexivity. Qed.
Lemma wr_start_only_is s x : wrF_start_only s x = (s <=? x)%float. Proof. reflexivity. Qed.
Lemma wr_both_is s e x : wrF_both s e x = ((s <=? x)%float && (x <? e)%float). Proof. reflexivity. Qed.

Lemma chain_not_nan pe ps : chain pe ps = true -> not_nan pe.
Proof.
  destruct ps as [|p rest]; simpl; [discriminate|].
  destruct (applicable_range p) as [e|s|s e]; [discriminate| |]; intros H.
  - apply andb_prop in H. destruct H as [H _]. exact (eqb_not_nan_r _ _ H).
  - apply andb_prop in H. destruct H as [H _]. apply andb_prop in H. destruct H as [H _].
    exact (eqb_not_nan_r _ _ H).
Qed.

Lemma count_cons p rest x :
  count_selected (p :: rest) x =
  ((if within_range (applicable_range p) x then 1 else 0) + count_selected rest x)%nat.
Proof. unfold count_selected. simpl. destruct (within_range (applicable_range p) x); reflexivity. Qed.

Lemma chain_count ps : forall pe x, not_nan x -> chain pe ps = true ->
  ((pe <=? x)%float = true -> count_selected ps x = 1%nat) /\
  ((x <? pe)%float = true -> count_selected ps x = 0%nat).
Proof.
  induction ps as [|p rest IH]; intros pe x Hx Hc; [discriminate|].
  simpl in Hc. rewrite count_cons. unfold within_range.
  destruct (applicable_range p) as [e|s|s e]; [discriminate| |]; cbv beta iota.
  - (* last piece [s, None) *)
    apply andb_prop in Hc. destruct Hc as [Hs Hr]. destruct rest; [|discriminate].
    unfold wrF_start_only. rewrite (eqb_leb_l _ _ x Hs). split; intros H.
    + rewrite H. reflexivity.
    + rewrite (ltb_true_leb _ _ H). reflexivity.
  - (* middle piece [s, e) *)
    apply andb_prop in Hc. destruct Hc as [Hc Hrest]. apply andb_prop in Hc. destruct Hc as [Hs Hse].
    pose proof (chain_not_nan _ _ Hrest) as Hne.
    destruct (IH e x Hx Hrest) as [IH1 IH0].
    unfold wrF_both. rewrite (eqb_leb_l _ _ x Hs). split; intros H.
    + rewrite H. simpl. destruct (x <? e)%float eqn:Hxe.
      * rewrite (IH0 eq_refl). reflexivity.
      * rewrite (IH1 (ltb_false_leb _ _ Hx Hne Hxe)). reflexivity.
    + rewrite (ltb_true_leb _ _ H). simpl. apply IH0.
      rewrite <- (ltb_eqb_r x _ _ Hs) in H. exact (ltb_trans _ _ _ H Hse).
Qed.

Theorem complete_table_exactly_one ps x :
  complete_table ps = true -> is_nan x = false -> count_selected ps x = 1%nat.
Proof.
  intros Hc Hx. apply is_nan_not_nan in Hx.
  destruct ps as [|p rest]; [discriminate|]. simpl in Hc. rewrite count_cons. unfold within_range.
  destruct (applicable_range p) as [e|s|s e]; try discriminate. cbv beta iota.
  pose proof (chain_not_nan _ _ Hc) as Hne.
  destruct (chain_count rest e x Hx Hc) as [H1 H0].
  unfold wrF_end_only. destruct (x <? e)%float eqn:Hxe.
  - rewrite (H0 eq_refl). reflexivity.
  - rewrite (H1 (ltb_false_leb _ _ Hx Hne Hxe)). reflexivity.
Qed.

(* with exactly one piece selected, np.piecewise returns that piece's polynomial value
   (never the NaN default), whatever the order of evaluation *)
Lemma piecewise_go_none ps : forall x y sel,
  count_selected ps x = 0%nat -> piecewise_go x ps y sel = Ok (if sel then y else nan).
Proof.
  induction ps as [|p rest IH]; intros x y sel H; [reflexivity|].
  rewrite count_cons in H. simpl.
  destruct (within_range (applicable_range p) x); [discriminate|]. apply IH. exact H.
Qed.

Theorem piecewise_selected ps x :
  count_selected ps x = 1%nat ->
  exists p, In p ps /\ within_range (applicable_range p) x = true /\ piecewise x ps = apply p x.
Proof.
  unfold piecewise. generalize 0%float as y, false as sel.
  induction ps as [|p rest IH]; intros y sel H; [discriminate|].
  rewrite count_cons in H. simpl.
  destruct (within_range (applicable_range p) x) eqn:Hw.
  - exists p. split; [left; reflexivity|]. split; [exact Hw|].
    destruct (apply p x) as [v|e]; [|reflexivity]. simpl.
    rewrite piecewise_go_none; [reflexivity|]. simpl in H. congruence.
  - destruct (IH y sel H) as [q [Hq [Hqw Hqe]]]. exists q. split; [right; exact Hq|]. split; assumption.
Qed.

(* ---- the sixteen tables of the source -------------------------------------------------- *)

Definition table_ok (T : tctype) : bool :=
  match type_tc T with
  | Ok tc => complete_table (forward_polynomials tc) && complete_table (inverse_polynomials tc)
  | Err _ => false
  end.

Lemma all_tables_ok : forall T, table_ok T = true.
Proof. intros T; destruct T; vm_compute; reflexivity. Qed.

Theorem coverage_all : forall T, exists tc, type_tc T = Ok tc /\
  forall x, is_nan x = false ->
    count_selected (forward_polynomials tc) x = 1%nat /\
    count_selected (inverse_polynomials tc) x = 1%nat.
Proof.
  intros T. pose proof (all_tables_ok T) as H. unfold table_ok in H.
  destruct (type_tc T) as [tc|e]; [|discriminate].
  apply andb_prop in H. destruct H as [Hf Hi].
  exists tc. split; [reflexivity|]. intros x Hx. split; apply complete_table_exactly_one; assumption.
Qed.

(* the selected polynomial has coefficients, so the result is a float (no IndexError),
   and it is the value of exactly one polynomial *)
Definition nonempty_coefs (ps : list polynomial) : bool :=
  forallb (fun p => match coefficients p with [] => false | _ => true end) ps.

Lemma all_coefs_nonempty : forall T,
  match type_tc T with
  | Ok tc => nonempty_coefs (forward_polynomials tc) && nonempty_coefs (inverse_polynomials tc)
  | Err _ => false
  end = true.
Proof. intros T; destruct T; vm_compute; reflexivity. Qed.

Lemma piecewise_total ps x :
  complete_table ps = true -> nonempty_coefs ps = true -> is_nan x = false ->
  exists p c cs, In p ps /\ within_range (applicable_range p) x = true /\
                 coefficients p = c :: cs /\ piecewise x ps = Ok (horner c cs x).
Proof.
  intros Hc Hn Hx.
  destruct (piecewise_selected ps x (complete_table_exactly_one ps x Hc Hx)) as [p [Hp [Hw He]]].
  unfold nonempty_coefs in Hn. rewrite forallb_forall in Hn. specialize (Hn p Hp).
  destruct (coefficients p) as [|c cs] eqn:Ecs; [discriminate|].
  exists p, c, cs. repeat split; try assumption.
  rewrite He. unfold apply. rewrite Ecs. reflexivity.
Qed.

Theorem conversions_select_one_polynomial : forall T, exists tc, type_tc T = Ok tc /\
  forall x, is_nan x = false ->
    (exists p c cs, In p (forward_polynomials tc) /\ within_range (applicable_range p) x = true /\
        coefficients p = c :: cs /\ celsius_to_mv_poly tc x = Ok (horner c cs x)) /\
    (exists p c cs, In p (inverse_polynomials tc) /\ within_range (applicable_range p) x = true /\
        coefficients p = c :: cs /\ mv_to_celsius tc x = Ok (horner c cs x)).
Proof.
  intros T. pose proof (all_tables_ok T) as H. pose proof (all_coefs_nonempty T) as Hn.
  unfold table_ok in H. destruct (type_tc T) as [tc|e]; [|discriminate].
  apply andb_prop in H. destruct H as [Hf Hi]. apply andb_prop in Hn. destruct Hn as [Hnf Hni].
  exists tc. split; [reflexivity|]. intros x Hx. split.
  - exact (piecewise_total _ x Hf Hnf Hx).
  - exact (piecewise_total _ x Hi Hni Hx).
Qed.
