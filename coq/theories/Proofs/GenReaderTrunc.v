(* Theorems of Proofs/TruncProofs.v (C06) about the hand model, transported to the functions
   TRANSLATED from the source (Gen/PyFuncsReader.v) through the equalities of
   Proofs/GenReaderEquiv.v. *)
From Coq Require Import ZArith List Bool Lia ZifyBool.
Import ListNotations.
From NpTdms Require Import Base.Bytes Base.Res Base.PySlice Model.Tokens Model.SegState Model.Layout
     Gen.TypeTable Gen.PyFuncsReader Proofs.GenReaderEquiv.
Local Open Scope Z_scope.
From NpTdms Require Import Model.Reader Proofs.TruncProofs.

(* C06 A1: the chunk count and the override of a segment with [total] bytes of raw data *)
Theorem calculate_chunks_count_gen s csize n fin :
  bufs_nonneg (sg_objs s) ->
  get_chunk_size_gen s = Ok csize -> 0 < csize -> 0 <= sg_next s - sg_data s ->
  calculate_chunks_gen s = Ok (n, fin) ->
  n = nchunks_of (sg_next s - sg_data s) csize /\
  ((sg_next s - sg_data s) mod csize = 0 -> fin = None) /\
  ((sg_next s - sg_data s) mod csize <> 0 ->
   exists f, fin = Some f /\
             compute_final_chunk_lengths_gen s csize ((sg_next s - sg_data s) mod csize) = Ok f).
Proof.
  intros H Hcs Hpos Ht Hc.
  rewrite (calculate_chunks_eq _ H) in Hc. rewrite (get_chunk_size_eq _ H) in Hcs.
  rewrite (compute_final_chunk_lengths_eq _ _ _ H).
  exact (TruncProofs.calculate_chunks_count _ _ _ _ _ _ _ Hcs Hpos Ht Hc).
Qed.

(* C06 A5: a truncated final chunk never holds more values than a complete one *)
Theorem final_chunk_lengths_le_gen s csize rem f o :
  bufs_nonneg (sg_objs s) ->
  have_daqmx_objects_gen s = Ok (Some false) ->
  compute_final_chunk_lengths_gen s csize rem = Ok f ->
  NoDup (map so_path (data_objs (sg_objs s))) ->
  (forall o, In o (data_objs (sg_objs s)) -> 0 <= so_nvals o) ->
  0 <= rem < csize ->
  In o (data_objs (sg_objs s)) ->
  0 <= lookup0 (so_path o) f <= so_nvals o.
Proof.
  intros H Hdq Hf Hnd Hnv Hrem Hin.
  rewrite have_daqmx_objects_eq in Hdq. rewrite (compute_final_chunk_lengths_eq _ _ _ H) in Hf.
  assert (Hdq' : have_daqmx (sg_objs s) = Ok false).
  { destruct (have_daqmx (sg_objs s)) as [b|]; cbn [opt_view] in Hdq; [|discriminate].
    inversion Hdq. reflexivity. }
  exact (TruncProofs.final_chunk_lengths_le _ _ _ _ _ _ _ Hdq' Hf Hnd Hnv Hrem Hin).
Qed.

(* C06 A5: cutting a complete segment keeps every complete chunk and never adds values *)
Theorem calculate_chunks_truncated_le_gen s s' csize n fin n' fin' o :
  sg_objs s' = sg_objs s -> sg_toc s' = sg_toc s ->
  bufs_nonneg (sg_objs s) ->
  have_daqmx_objects_gen s = Ok (Some false) ->
  get_chunk_size_gen s = Ok csize -> 0 < csize ->
  0 <= sg_next s' - sg_data s' < sg_next s - sg_data s ->
  (sg_next s - sg_data s) mod csize = 0 ->
  NoDup (map so_path (data_objs (sg_objs s))) ->
  (forall o, In o (data_objs (sg_objs s)) -> 0 <= so_nvals o) ->
  calculate_chunks_gen s = Ok (n, fin) ->
  calculate_chunks_gen s' = Ok (n', fin') ->
  In o (data_objs (sg_objs s)) ->
  fin = None /\ n = (sg_next s - sg_data s) / csize /\
  so_nvals o * ((sg_next s' - sg_data s') / csize) <= seg_values o n' fin' <= seg_values o n fin.
Proof.
  intros Ho Ht H Hdq Hcs Hpos Hlt Hmod Hnd Hnv Hc Hc' Hin.
  assert (H' : bufs_nonneg (sg_objs s')) by (rewrite Ho; exact H).
  rewrite (calculate_chunks_eq _ H) in Hc. rewrite (calculate_chunks_eq _ H'), Ho, Ht in Hc'.
  rewrite (get_chunk_size_eq _ H) in Hcs. rewrite have_daqmx_objects_eq in Hdq.
  assert (Hdq' : have_daqmx (sg_objs s) = Ok false).
  { destruct (have_daqmx (sg_objs s)) as [b|]; cbn [opt_view] in Hdq; [|discriminate].
    inversion Hdq. reflexivity. }
  exact (TruncProofs.calculate_chunks_truncated_le _ _ _ _ _ _ _ _ _ _ _ _
           Hdq' Hcs Hpos Hlt Hmod Hnd Hnv Hc Hc' Hin).
Qed.

(* C06 A6: where a cut falls decides what _read_lead_in reports (explicit segment length) *)
Theorem read_lead_in_cut_gen seg_pos toc next_off raw_off k :
  next_off <> 0xFFFFFFFFFFFFFFFF -> raw_off <= next_off ->
  let dp := seg_pos + 28 + raw_off in
  let np := seg_pos + next_off + 28 in
  (k < dp -> read_lead_in_gen (Some k) seg_pos toc next_off raw_off = Err EEof) /\
  (dp <= k ->
   exists inc, read_lead_in_gen (Some k) seg_pos toc next_off raw_off
               = Ok (seg_pos, toc, dp, Some (Z.min k np), inc) /\
               (inc = true <-> dp <= k < np)) /\
  (np <= k -> read_lead_in_gen (Some k) seg_pos toc next_off raw_off = Ok (seg_pos, toc, dp, Some np, false)).
Proof.
  intros Hm Hle dp np.
  pose (l := mkLeadin [] toc 0 next_off raw_off).
  change toc with (l_toc l). change next_off with (l_next l). change raw_off with (l_raw l).
  rewrite read_lead_in_eq.
  destruct (TruncProofs.cut_segment_status seg_pos l k Hm Hle) as [H1 [H2 H3]].
  split; [|split].
  - intros Hk. rewrite (H1 Hk). reflexivity.
  - intros Hk. destruct (H2 Hk) as [inc [Hl Hi]]. exists inc. rewrite Hl. split; [reflexivity|exact Hi].
  - intros Hk. destruct (H3 k (conj Hk (Z.le_refl k))) as [_ Hl]. rewrite Hl. reflexivity.
Qed.

(* the length-unknown marker: read to the end of the file, flagged incomplete *)
Theorem read_lead_in_unknown_gen seg_pos toc next_off raw_off k :
  next_off = 0xFFFFFFFFFFFFFFFF ->
  let dp := seg_pos + 28 + raw_off in
  (k < dp -> read_lead_in_gen (Some k) seg_pos toc next_off raw_off = Err EEof) /\
  (dp <= k -> read_lead_in_gen (Some k) seg_pos toc next_off raw_off = Ok (seg_pos, toc, dp, Some k, true)).
Proof.
  intros Hm dp.
  pose (l := mkLeadin [] toc 0 next_off raw_off).
  change toc with (l_toc l). change raw_off with (l_raw l). change next_off with (l_next l).
  rewrite !read_lead_in_eq.
  destruct (TruncProofs.cut_segment_status_unknown seg_pos l k Hm) as [H1 H2].
  split; intros Hk; [rewrite (H1 Hk)|rewrite (H2 Hk)]; reflexivity.
Qed.

(* C11/C06 A4: the per-buffer lengths get_daqmx_final_chunk_lengths assigns are whole rows of each
   buffer, in buffer order, within the bytes that remain *)
Definition daqmx_assign (lens : list Z) (acc : alist Z) (o : sobj) : alist Z :=
  if negb (so_has_data o) then acc
  else match so_daqmx o with
       | None => acc
       | Some q =>
         match dedup_z (map sc_buf (dq_scalers q)) with
         | [b] => aset (so_path o) (nth (Z.to_nat b) lens 0) acc
         | _ => acc
         end
       end.

Theorem daqmx_final_lengths_gen objs rem dims :
  bufs_nonneg objs -> get_buffer_dimensions_gen objs = Ok dims ->
  (forall d, In d dims -> 0 <= fst d /\ 0 < snd d) -> 0 <= rem ->
  exists lens,
    Forall2 (fun len d => 0 <= len <= fst d) lens dims /\
    zsum (map (fun p => fst p * snd (snd p)) (combine lens dims)) <= rem /\
    get_daqmx_final_chunk_lengths_gen objs rem = Ok (fold_left (daqmx_assign lens) objs []).
Proof.
  intros H Hd Hpos Hrem. rewrite (get_buffer_dimensions_eq _ H) in Hd.
  exists (daqmx_buffer_lengths dims rem).
  destruct (TruncProofs.daqmx_final_le dims rem Hpos Hrem) as [H1 H2].
  split; [exact H1|]. split; [exact H2|].
  rewrite (get_daqmx_final_chunk_lengths_eq _ _ H). unfold daqmx_final. rewrite Hd. reflexivity.
Qed.

