(* C19, byte level: the loop of read_raw_data_for_channel on reads (Model/LazyRanges.v
   lzr_loop) runs in step with the loop on chunks (Model/LazyRead.v lz_loop, about which
   plan_exact is proved); every read is a 4-byte tag check of a visited segment or lies in
   the byte window of a planned chunk, and the bytes returned are bounded by the request. *)
From Coq Require Import List ZArith Bool Lia ZifyBool.
From Coq Require Import Init.Byte.
Import ListNotations.
From NpTdms Require Import Base.Bytes Base.Res Base.PySlice Gen.PySlice_gen Model.Tokens Model.SegState
     Model.Layout Model.Reader Model.LazyRead Model.LazyBytes Model.LazyRanges
     Proofs.SegStateProofs Proofs.LazyReadLemmas Proofs.LazyIndexProofs Proofs.LazyReadProofs
     Proofs.LazyWindowProofs Proofs.LazyTopProofs Proofs.LazyRangesSeg.
Local Open Scope Z_scope.
Ltac Zify.zify_post_hook ::= Z.to_euclidean_division_equations.

(* ---- lists ---------------------------------------------------------------------------- *)

Lemma mapM_combine {A B} (f : A -> res B) : forall l ys, mapM f l = Ok ys ->
  length ys = length l /\ map snd (combine l ys) = ys /\ map fst (combine l ys) = l /\
  (forall p, In p (combine l ys) -> f (fst p) = Ok (snd p)).
Proof.
  induction l as [|x l IH]; intros ys H.
  - cbn [mapM] in H. injection H as <-. repeat split. intros p [].
  - cbn [mapM] in H. destruct (f x) as [y|e] eqn:Ef; cbn [bind] in H; [|discriminate].
    destruct (mapM f l) as [ys'|e] eqn:Em; cbn [bind] in H; [|discriminate]. injection H as <-.
    destruct (IH ys' eq_refl) as (H1 & H2 & H3 & H4). cbn [combine map length fst snd].
    rewrite H1, H2, H3. repeat split. intros p [<-|Hp]; [exact Ef|apply H4; exact Hp].
Qed.

Lemma mapM_exists {A B} (f : A -> res B) : forall l,
  (forall x, In x l -> exists y, f x = Ok y) -> exists ys, mapM f l = Ok ys.
Proof.
  induction l as [|x l IH]; intros H; [eexists; reflexivity|].
  destruct (H x (or_introl eq_refl)) as [y Hy]. destruct IH as [ys Hys].
  { intros z Hz. apply H. right. exact Hz. }
  exists (y :: ys). cbn [mapM]. rewrite Hy. cbn [bind]. rewrite Hys. reflexivity.
Qed.

Lemma sl_map {A B} (f : A -> B) a b (l : list A) : map f (sl a b l) = sl a b (map f l).
Proof. unfold sl, zfirstn, zskipn. rewrite skipn_map, firstn_map. reflexivity. Qed.

Lemma zlen_map {A B} (f : A -> B) (l : list A) : zlen (map f l) = zlen l.
Proof. unfold zlen. rewrite map_length. reflexivity. Qed.

Lemma zlen_repeat {A} (x : A) n : zlen (repeat x n) = Z.of_nat n.
Proof. unfold zlen. rewrite repeat_length. reflexivity. Qed.

(* ---- the metadata view is well formed ------------------------------------------------- *)

Lemma chunks_ok_repeat cs k :
  0 <= cs -> chunks_ok unit cs cs (repeat (repeat tt (Z.to_nat cs)) k) = true.
Proof.
  intros Hcs. induction k as [|k IH]; [reflexivity|].
  destruct k as [|k].
  - cbn [repeat chunks_ok]. rewrite zlen_repeat. lia.
  - change (repeat (repeat tt (Z.to_nat cs)) (S (S k)))
      with (repeat tt (Z.to_nat cs) :: repeat (repeat tt (Z.to_nat cs)) (S k)).
    change (repeat (repeat tt (Z.to_nat cs)) (S k))
      with (repeat tt (Z.to_nat cs) :: repeat (repeat tt (Z.to_nat cs)) k) in *.
    cbn [chunks_ok] in *. rewrite IH. rewrite zlen_repeat. lia.
Qed.

Lemma chunks_ok_repeat_last cs fl k :
  0 <= cs -> 0 <= fl ->
  chunks_ok unit cs fl (repeat (repeat tt (Z.to_nat cs)) k ++ [repeat tt (Z.to_nat fl)]) = true.
Proof.
  intros Hcs Hfl. induction k as [|k IH].
  - cbn [repeat app chunks_ok]. rewrite zlen_repeat. lia.
  - cbn [repeat app]. destruct k as [|k].
    + cbn [repeat app chunks_ok] in *. rewrite !zlen_repeat. lia.
    + cbn [repeat app] in *. cbn [chunks_ok] in *. rewrite IH. rewrite zlen_repeat. lia.
Qed.

Lemma layout_inv_ok g : layout_inv g = true ->
  exists csize lay, chunk_size (sg_objs g) = Ok csize /\ seg_layout g = Ok lay.
Proof.
  unfold layout_inv. destruct (chunk_size (sg_objs g)) as [csize|]; [|discriminate].
  destruct (seg_layout g) as [lay|]; [|discriminate]. eauto.
Qed.

Lemma seg_inv_parts data path g : seg_inv data path g = true ->
  read_at (sg_pos g) 4 data = TAG_DATA /\ 0 <= sg_nchunks g /\ 0 <= chan_chunk path g /\
  (chan_chunk path g <> 0 -> final_inv path g = true /\ layout_inv g = true).
Proof.
  unfold seg_inv. intros H. apply andb_prop in H. destruct H as [H H4].
  apply andb_prop in H. destruct H as [H H3]. apply andb_prop in H. destruct H as [H1 H2].
  apply bytes_eqb_eq in H1. split; [exact H1|]. split; [lia|]. split; [lia|].
  intros Hne. destruct (chan_chunk path g =? 0) eqn:E; [lia|]. apply andb_prop in H4. exact H4.
Qed.

Lemma meta_segv_fields path g sv : meta_segv path g = Ok sv ->
  sv_chunk sv = chan_chunk path g /\ sv_nchunks sv = sg_nchunks g /\
  (chan_chunk path g <> 0 ->
   exists lay, seg_layout g = Ok lay /\
               sv_interleaved sv = match lay with LContig => false | _ => true end).
Proof.
  unfold meta_segv. destruct (chan_chunk path g =? 0) eqn:E.
  - intros H. injection H as <-. cbn. split; [lia|]. split; [reflexivity|]. intros; lia.
  - destruct (seg_layout g) as [lay|]; cbn [bind]; [|discriminate].
    intros H. injection H as <-. cbn. split; [reflexivity|]. split; [reflexivity|].
    intros _. exists lay. split; reflexivity.
Qed.

Lemma meta_segv_ok data path g : seg_inv data path g = true ->
  exists sv, meta_segv path g = Ok sv /\ wf_seg unit sv = true.
Proof.
  intros H. destruct (seg_inv_parts _ _ _ H) as (_ & Hn & Hc & Hrest).
  unfold meta_segv. destruct (chan_chunk path g =? 0) eqn:E.
  - eexists. split; [reflexivity|]. unfold wf_seg, shape_vals. cbn [sv_chunk sv_nchunks sv_vals sv_final].
    rewrite zlen_repeat. pose proof (chunks_ok_repeat 0 (Z.to_nat (sg_nchunks g)) ltac:(lia)) as Hok.
    cbn [Z.to_nat] in Hok. change (Z.to_nat 0) with O. rewrite Hok. lia.
  - destruct (Hrest ltac:(lia)) as [Hfin Hlay].
    destruct (layout_inv_ok g Hlay) as (csize & lay & _ & Hl). rewrite Hl. cbn [bind].
    eexists. split; [reflexivity|]. unfold wf_seg. cbn [sv_chunk sv_nchunks sv_vals sv_final].
    unfold final_inv in Hfin. unfold shape_vals.
    destruct (chan_final path g) as [fl|].
    + rewrite zlen_app, zlen_repeat. replace (zlen [repeat tt (Z.to_nat fl)]) with 1 by reflexivity.
      rewrite chunks_ok_repeat_last by lia. lia.
    + rewrite zlen_repeat. rewrite chunks_ok_repeat by lia. lia.
Qed.

(* ---- what a successful seg_fetch says about the chunk range ---------------------------- *)

Lemma seg_fetch_bounds (sv : segv unit) co nc x :
  seg_fetch unit sv co nc = Ok x -> 0 < sv_chunk sv ->
  (0 < nc -> 0 <= co) /\ (sv_interleaved sv = true -> 0 <= nc).
Proof.
  unfold seg_fetch. intros H Hc. split.
  - intros Hnc.
    assert (Hm : exists y, mapM (chunk_at unit sv) (zrange co (nc + co)) = Ok y).
    { destruct (sv_interleaved sv).
      - destruct (sv_chunk sv * (nc + co - co) <? 0); [discriminate|].
        destruct (mapM (chunk_at unit sv) (zrange co (nc + co))) as [cs|]; [eauto|discriminate].
      - eauto. }
    destruct Hm as [y Hy]. rewrite zrange_cons in Hy by lia. cbn [mapM] in Hy.
    unfold chunk_at at 1 in Hy.
    destruct ((0 <=? co) && (co <? sv_nchunks sv)) eqn:E; [lia|discriminate].
  - intros Hil. rewrite Hil in H.
    destruct (sv_chunk sv * (nc + co - co) <? 0) eqn:E; [discriminate|]. nia.
Qed.

(* ---- the loop ---------------------------------------------------------------------------- *)

Section Loop.
  Variables (st : rstate) (data path : bytes).
  Variables (f : Z) (offs : list Z) (s e offset L end_index : Z).

  Definition pair_ok (p : segment * segv unit) : Prop :=
    seg_inv data path (fst p) = true /\ meta_segv path (fst p) = Ok (snd p).

  Lemma tag_read_ok g : seg_inv data path g = true -> tag_read data g = Ok (sg_pos g, 4).
  Proof.
    intros H. destruct (seg_inv_parts _ _ _ H) as (Ht & _). unfold tag_read. rewrite Ht.
    rewrite bytes_eqb_refl. reflexivity.
  Qed.

  Lemma lzr_loop_sim : forall pairs pos vr outs log,
    lz_loop unit true true f offs s e offset L end_index (map snd pairs) pos pos vr = Ok (outs, log) ->
    (forall p, In p pairs -> pair_ok p) ->
    (forall k p, nth_error pairs k = Some p ->
                 nth_error (rs_segments st) (Z.to_nat (pos + Z.of_nat k)) = Some (fst p)) ->
    0 <= pos ->
    exists rs, lzr_loop data path f offs s e offset end_index pairs pos = Ok rs /\
      (forall p n, In (p, n) rs ->
         (exists k g sv, nth_error pairs k = Some (g, sv) /\ p = sg_pos g /\ n = 4) \/
         (0 <= n /\ forall b, p <= b < p + n -> exists jc, In jc log /\ in_chunk_window st path jc b)) /\
      total_bytes rs <= 4 * zlen pairs + SegState.zsum (map (chunk_cost st path) log).
  Proof.
    induction pairs as [|[g sv] rest IH]; intros pos vr outs log H Hok Hnth Hpos.
    - cbn [map lz_loop] in H. injection H as <- <-. exists []. split; [reflexivity|].
      split; [intros p n []|]. cbn. lia.
    - cbn [map snd lz_loop] in H.
      destruct (Hok (g, sv) (or_introl eq_refl)) as [Hinv Hmeta]. cbn [fst snd] in Hinv, Hmeta.
      pose proof (Hnth O (g, sv) eq_refl) as Hg. cbn [fst Z.of_nat] in Hg. rewrite Z.add_0_r in Hg.
      destruct (seg_inv_parts _ _ _ Hinv) as (_ & _ & Hc0 & Hrest).
      destruct (meta_segv_fields _ _ _ Hmeta) as (Hchunk & Hnch & Hil).
      assert (Hok' : forall p, In p rest -> pair_ok p) by (intros p Hp; apply Hok; right; exact Hp).
      assert (Hnth' : forall k p, nth_error rest k = Some p ->
                                  nth_error (rs_segments st) (Z.to_nat (pos + 1 + Z.of_nat k)) = Some (fst p)).
      { intros k p Hk. specialize (Hnth (S k) p Hk). rewrite Nat2Z.inj_succ in Hnth.
        replace (pos + 1 + Z.of_nat k) with (pos + Z.succ (Z.of_nat k)) by lia. exact Hnth. }
      cbn [lzr_loop]. rewrite (tag_read_ok g Hinv). cbn [bind].
      destruct (sv_chunk sv =? 0) eqn:Ec.
      + (* the channel has no data here: only the tag check *)
        destruct (IH (pos + 1) vr outs log H Hok' Hnth' ltac:(lia)) as (r & Hr & Hin & Htot).
        rewrite Hr. cbn [bind]. eexists. split; [reflexivity|]. split.
        * intros p n [Hp|Hp].
          -- injection Hp as <- <-. left. exists O, g, sv. repeat split.
          -- destruct (Hin p n Hp) as [(k & g' & sv' & Hk & Hpp)|Hr2].
             ++ left. exists (S k), g', sv'. split; [exact Hk|exact Hpp].
             ++ right. exact Hr2.
        * rewrite total_bytes_cons, zlen_cons. lia.
      + destruct (seg_chunk_range unit true f offs s e offset end_index pos sv) as [[[co nc] skip]|err] eqn:Er;
          cbn [bind] in H; [|discriminate].
        destruct (seg_fetch unit sv co nc) as [chunks|err] eqn:Ef; cbn [bind] in H; [|discriminate].
        destruct (emit_chunks unit chunks true skip vr L) as [outs1 vr1] eqn:Ee.
        destruct (lz_loop unit true true f offs s e offset L end_index (map snd rest) (pos + 1) (pos + 1) vr1)
          as [[outs' log']|err] eqn:El; cbn [bind] in H; [|discriminate].
        injection H as <- <-.
        assert (Hcpos : 0 < sv_chunk sv) by lia.
        destruct (seg_fetch_bounds sv co nc chunks Ef Hcpos) as [Hco Hnc].
        destruct (Hrest ltac:(lia)) as [_ Hlay].
        destruct (Hil ltac:(lia)) as (lay & Hl & Hsvil).
        destruct (seg_reads_ok (blen data) path g co nc Hlay) as [rs1 Hrs1].
        { intros Hli. apply Hnc. rewrite Hsvil. rewrite Hli in Hl. injection Hl as <-. reflexivity. }
        destruct (seg_reads_spec _ _ _ _ _ _ Hrs1 Hlay Hco) as [Hin1 Htot1].
        destruct (IH (pos + 1) vr1 outs' log' El Hok' Hnth' ltac:(lia)) as (r & Hr & Hin & Htot).
        cbn [bind]. rewrite Hrs1. cbn [bind]. rewrite Hr. cbn [bind]. eexists. split; [reflexivity|]. split.
        * intros p n [Hp|Hp].
          -- injection Hp as <- <-. left. exists O, g, sv. repeat split.
          -- apply in_app_or in Hp. destruct Hp as [Hp|Hp].
             ++ right. destruct (Hin1 p n Hp) as [Hn Hb]. split; [exact Hn|].
                intros b Hbb. destruct (Hb b Hbb) as (c & lo & hi & Hc & Hw & Hlh).
                exists (pos, c). split.
                ** apply in_or_app. left. apply in_map_iff. exists c. split; [reflexivity|].
                   apply zrange_In. lia.
                ** exists g, lo, hi. cbn [fst snd]. split; [exact Hg|]. split; [exact Hw|exact Hlh].
             ++ destruct (Hin p n Hp) as [(k & g' & sv' & Hk & Hpp)|[Hn Hb]].
                ** left. exists (S k), g', sv'. split; [exact Hk|exact Hpp].
                ** right. split; [exact Hn|]. intros b Hbb. destruct (Hb b Hbb) as (jc & Hjc & Hw).
                   exists jc. split; [apply in_or_app; right; exact Hjc|exact Hw].
        * rewrite total_bytes_cons, total_bytes_app, zlen_cons, map_app, szsum_app, map_map.
          assert (Hcost : map (fun c => chunk_cost st path (pos, c)) (zrange co (nc + co))
                          = map (seg_cost path g) (zrange co (co + nc))).
          { replace (nc + co) with (co + nc) by lia. apply map_ext. intros c.
            unfold chunk_cost, seg_cost. cbn [fst snd]. rewrite Hg. reflexivity. }
          rewrite Hcost. lia.
  Qed.
End Loop.

(* ---- the two binary searches (as in the proof of lz_gen_spec) --------------------------- *)

Section Bounds.
  Variable V : Type.
  Notation pre := (pre V).

  Lemma gen_bounds : forall (segs : list (segv V)) offset length f offs,
    wf V segs = true -> 0 <= offset -> len_ok length ->
    build_index V segs = (f, offs) ->
    let n := total_values V segs in
    let Lpy := match length with None => n - offset | Some l => Z.min l (n - offset) end in
    let end_index := offset + Lpy in
    let s := f + searchsorted_right offs offset in
    let e := f + searchsorted_left offs end_index in
    0 <= s /\ 0 <= e + 1 /\
    (sl s (e + 1) segs = [] \/
     (s <= e /\ e < zlen segs /\ end_index = win_end n offset length /\
      win_ctx V segs f offs s e offset Lpy end_index)).
  Proof.
    intros segs offset length f offs Hwf Hoff Hlen Hbi n Lpy end_index.
    pose proof (build_index_ok V segs f offs Hwf Hbi) as Hix.
    set (m := zlen offs).
    pose proof (ix_f0 V _ _ _ Hix) as Hf0. pose proof (ix_fm V _ _ _ Hix) as Hfm. fold m in Hfm.
    pose proof (ix_sorted V _ _ _ Hix) as Hsorted.
    pose proof (ss_right_bounds offs offset) as Hb1. fold m in Hb1.
    pose proof (ss_left_bounds offs end_index) as Hb2. fold m in Hb2.
    pose proof (zlen_nonneg segs) as Hsegs0.
    assert (Hnth : forall k, 0 <= k -> k < m -> nth_error offs (Z.to_nat k) = Some (pre segs (f + k + 1))).
    { intros k Hk1 Hk2. apply (ix_nth V _ _ _ Hix); fold m; lia. }
    assert (Hlast : 0 < m -> pre segs (f + m) = n) by (intros _; apply (ix_pre_last V _ _ _ Hix)).
    set (ssr := searchsorted_right offs offset) in *.
    set (ssl := searchsorted_left offs end_index) in *.
    cbv zeta. fold ssr ssl.
    split; [lia|]. split; [lia|].
    assert (Hr : forall k, 0 <= k -> k < m -> (pre segs (f + k + 1) <= offset <-> k < ssr)).
    { intros k Hk1 Hk2. apply (ss_right_spec offs offset k _ Hsorted Hk1 (Hnth k Hk1 Hk2)). }
    assert (Hl : forall k, 0 <= k -> k < m -> (pre segs (f + k + 1) < end_index <-> k < ssl)).
    { intros k Hk1 Hk2. apply (ss_left_spec offs end_index k _ Hsorted Hk1 (Hnth k Hk1 Hk2)). }
    destruct (Z_le_gt_dec n offset) as [Hbeyond|Hinside].
    - left.
      destruct (Z.eq_dec m 0) as [Hm0|Hm0].
      + assert (f = zlen segs) by (apply (ix_none V _ _ _ Hix); fold m; lia).
        apply sl_beyond. lia.
      + apply sl_nil_ge.
        assert (ssr = m).
        { assert (m - 1 < ssr); [|lia]. apply Hr; try lia.
          replace (f + (m - 1) + 1) with (f + m) by lia. rewrite Hlast by lia. lia. }
        assert (ssl <= m - 1).
        { destruct (Z_le_gt_dec ssl (m - 1)); [assumption|]. exfalso.
          assert (H0 : pre segs (f + (m - 1) + 1) < end_index) by (apply Hl; lia).
          replace (f + (m - 1) + 1) with (f + m) in H0 by lia. rewrite Hlast in H0 by lia.
          unfold end_index, Lpy in H0. destruct length; cbn in Hlen; lia. }
        lia.
    - assert (Hm : 0 < m).
      { destruct (Z.eq_dec m 0) as [Hm0|]; [|lia]. exfalso.
        pose proof (ix_pre_f V _ _ _ Hix) as H0. pose proof (ix_pre_last V _ _ _ Hix) as H1.
        fold m in H1. rewrite Hm0, Z.add_0_r in H1. fold n in H1. lia. }
      assert (HLpy : 0 <= Lpy) by (unfold Lpy; destruct length; cbn in Hlen; lia).
      assert (Hendn : end_index <= n) by (unfold end_index, Lpy; destruct length; lia).
      assert (Hssr : ssr < m).
      { destruct (Z_le_gt_dec m ssr); [|lia]. exfalso.
        assert (H : pre segs (f + (m - 1) + 1) <= offset) by (apply Hr; lia).
        replace (f + (m - 1) + 1) with (f + m) in H by lia. rewrite Hlast in H by lia. lia. }
      assert (Hssl : ssl <= m - 1).
      { destruct (Z_le_gt_dec ssl (m - 1)); [assumption|]. exfalso.
        assert (H : pre segs (f + (m - 1) + 1) < end_index) by (apply Hl; lia).
        replace (f + (m - 1) + 1) with (f + m) in H by lia. rewrite Hlast in H by lia. lia. }
      set (s := f + ssr). set (e := f + ssl).
      destruct (Z_le_gt_dec s e) as [Hse|Hes]; [right|left; apply sl_nil_ge; lia].
      assert (Hs1 : pre segs s <= offset).
      { destruct (Z.eq_dec ssr 0) as [Hz|Hz].
        - unfold s. rewrite Hz, Z.add_0_r. rewrite (ix_pre_f V _ _ _ Hix). lia.
        - replace s with (f + (ssr - 1) + 1) by (unfold s; lia). apply Hr; lia. }
      assert (Hs2 : offset < pre segs (s + 1)).
      { destruct (Z_lt_le_dec offset (pre segs (s + 1))) as [|l]; [assumption|]. exfalso.
        assert (ssr < ssr); [|lia]. apply Hr; try lia. exact l. }
      assert (He1 : end_index <= pre segs (e + 1)).
      { destruct (Z_le_gt_dec end_index (pre segs (e + 1))) as [|g]; [assumption|]. exfalso.
        assert (ssl < ssl); [|lia]. apply Hl; try lia. unfold e in g. lia. }
      assert (He2 : forall i, f <= i -> i < e -> pre segs (i + 1) < end_index).
      { intros i Hi1 Hi2. replace (i + 1) with (f + (i - f) + 1) by lia. apply Hl; unfold e in *; lia. }
      split; [exact Hse|]. split; [unfold e; lia|]. split.
      + unfold win_end, end_index, Lpy. fold n. destruct length as [l|]; cbn in Hlen; lia.
      + constructor; try assumption; try reflexivity; unfold s, e in *; fold m; lia.
  Qed.
End Bounds.

(* ---- read_data(offs, len) ------------------------------------------------------------------ *)

(* segment j is visited by the loop: the channel's values up to and including segment j
   exceed offs, and those before it stop short of the end of the (non-empty) window *)
Definition seg_visited (views : list (segv unit)) (offs : Z) (len : option Z) (j : Z) : Prop :=
  0 <= j < zlen views /\
  offs < pre unit views (j + 1) /\
  pre unit views j < Z.max (win_end (total_values unit views) offs len) (offs + 1).

Lemma ranges_inv_views st data path : ranges_inv st data path = true ->
  exists views, meta_views st path = Ok views /\ wf unit views = true /\
                zlen views = zlen (rs_segments st) /\
                (forall p, In p (combine (rs_segments st) views) -> pair_ok data path p) /\
                map snd (combine (rs_segments st) views) = views /\
                map fst (combine (rs_segments st) views) = rs_segments st.
Proof.
  unfold ranges_inv, meta_views. intros Hinv. rewrite forallb_forall in Hinv.
  destruct (mapM_exists (meta_segv path) (rs_segments st)) as [views Hv].
  { intros g Hg. destruct (meta_segv_ok data path g (Hinv g Hg)) as (sv & Hsv & _). eauto. }
  destruct (mapM_combine _ _ _ Hv) as (Hlen & Hsnd & Hfst & Hall).
  exists views. split; [exact Hv|].
  assert (Hpairs : forall p, In p (combine (rs_segments st) views) -> pair_ok data path p).
  { intros p Hp. split; [|apply Hall; exact Hp]. apply Hinv. destruct p as [g sv]. cbn [fst].
    apply (in_combine_l _ _ _ _ Hp). }
  split; [|split; [unfold zlen; lia|split; [exact Hpairs|split; assumption]]].
  unfold wf. apply forallb_forall. intros sv Hsv. rewrite <- Hsnd in Hsv.
  apply in_map_iff in Hsv. destruct Hsv as (p & <- & Hp). destruct (Hpairs p Hp) as [Hi Hm].
  destruct (meta_segv_ok data path (fst p) Hi) as (sv' & Hsv' & Hwf). rewrite Hm in Hsv'.
  injection Hsv' as <-. exact Hwf.
Qed.

Theorem ranges_top st data path offs len :
  ranges_inv st data path = true -> 0 <= offs -> len_ok len ->
  exists views plan rs,
    meta_views st path = Ok views /\ wf unit views = true /\
    lz_plan unit views offs len = Ok plan /\
    lz_ranges st data path offs len = Ok rs /\
    (forall p n, In (p, n) rs ->
       (exists j g, seg_visited views offs len j /\
                    nth_error (rs_segments st) (Z.to_nat j) = Some g /\ p = sg_pos g /\ n = 4) \/
       (0 <= n /\ forall b, p <= b < p + n -> exists jc, In jc plan /\ in_chunk_window st path jc b)) /\
    exists s e, (forall j, s <= j <= e -> seg_visited views offs len j) /\
                total_bytes rs <= 4 * Z.max 0 (e - s + 1) + SegState.zsum (map (chunk_cost st path) plan).
Proof.
  intros Hinv Hoff Hlen.
  destruct (ranges_inv_views st data path Hinv) as (views & Hv & Hwf & Hzl & Hpairs & Hsnd & Hfst).
  destruct (plan_exact unit views offs len Hwf Hoff Hlen) as (plan & Hplan & _).
  exists views, plan.
  assert (Hneg : (offs <? 0) = false) by lia.
  assert (Hlneg : match len with Some l => l <? 0 | None => false end = false).
  { destruct len; cbn in Hlen; [lia|reflexivity]. }
  pose proof Hplan as Hgen. unfold lz_plan in Hgen. rewrite Hneg, Hlneg in Hgen.
  destruct (lz_gen unit true true views offs len) as [[outs log]|err] eqn:Eg; cbn [bind] in Hgen; [|discriminate].
  injection Hgen as ->.
  unfold lz_gen in Eg. destruct (build_index unit views) as [f offsets] eqn:Hbi.
  pose proof (gen_bounds unit views offs len f offsets Hwf Hoff Hlen Hbi) as Hgb. cbv zeta in Hgb.
  unfold lz_ranges. rewrite Hneg, Hlneg, Hv. cbn [bind]. rewrite Hbi.
  set (ntot := total_values unit views) in *.
  set (Lpy := match len with None => ntot - offs | Some l => Z.min l (ntot - offs) end) in *.
  set (end_index := offs + Lpy) in *.
  set (s := f + searchsorted_right offsets offs) in *.
  set (e := f + searchsorted_left offsets end_index) in *.
  destruct Hgb as (Hs0 & He0 & Hcase).
  rewrite py_slice_nonneg in Eg by lia. rewrite py_slice_nonneg by lia.
  set (pairs := sl s (e + 1) (combine (rs_segments st) views)).
  assert (Hmap : map snd pairs = sl s (e + 1) views) by (unfold pairs; rewrite sl_map, Hsnd; reflexivity).
  rewrite <- Hmap in Eg.
  assert (Hok : forall p, In p pairs -> pair_ok data path p).
  { intros p Hp. apply Hpairs. apply (In_sl _ _ _ _ Hp). }
  assert (Hklt : forall k p, nth_error pairs k = Some p -> s + Z.of_nat k < e + 1 /\ s + Z.of_nat k < zlen views).
  { intros k p Hk. assert (Hlt : (k < length pairs)%nat) by (apply nth_error_Some; congruence).
    assert (Hzp : zlen pairs = Z.max 0 (Z.min (e + 1) (zlen (combine (rs_segments st) views)) - s))
      by (apply zlen_sl; lia).
    assert (zlen (combine (rs_segments st) views) = zlen views).
    { unfold zlen in *. rewrite combine_length. lia. }
    unfold zlen in *. lia. }
  assert (Hnth : forall k p, nth_error pairs k = Some p ->
                             nth_error (rs_segments st) (Z.to_nat (s + Z.of_nat k)) = Some (fst p)).
  { intros k p Hk. destruct (Hklt k p Hk) as [Hlt _]. unfold pairs in Hk.
    replace k with (Z.to_nat (Z.of_nat k)) in Hk by lia.
    rewrite nth_error_sl in Hk by lia.
    rewrite <- Hfst. apply map_nth_error. exact Hk. }
  destruct (lzr_loop_sim st data path f offsets s e offs Lpy end_index pairs s 0 outs plan Eg Hok Hnth Hs0)
    as (rs & Hrs & Hin & Htot).
  exists rs. split; [reflexivity|]. split; [exact Hwf|]. split; [exact Hplan|]. split; [exact Hrs|].
  destruct Hcase as [Hempty|(Hse & Helt & Hwe & Hctx)].
  - (* nothing is visited *)
    assert (Hp0 : pairs = []) by (apply map_eq_nil with (f := snd); rewrite Hmap; exact Hempty).
    rewrite Hp0 in Hrs. cbn [lzr_loop] in Hrs. injection Hrs as <-.
    split; [intros p n []|]. exists 0, (-1). split; [intros j Hj; lia|].
    rewrite Hp0 in Htot. cbn in Htot. cbn. lia.
  - destruct Hctx as [Hix HL Hend Hfs _ Hem Hs1 Hs2 He1 He2].
    assert (Hvis : forall j, s <= j <= e -> seg_visited views offs len j).
    { intros j Hj. unfold seg_visited. fold ntot. rewrite <- Hwe. split; [lia|]. split.
      - pose proof (pre_mono unit views (s + 1) (j + 1) Hwf ltac:(lia) ltac:(lia)). lia.
      - destruct (Z.eq_dec j s) as [->|Hne]; [lia|].
        pose proof (He2 (j - 1) ltac:(lia) ltac:(lia)) as H2.
        replace (j - 1 + 1) with j in H2 by lia. lia. }
    split.
    + intros p n Hp. destruct (Hin p n Hp) as [(k & g & sv & Hk & Hpp)|Hr2]; [left|right; exact Hr2].
      destruct (Hklt k _ Hk) as [Hlt _].
      exists (s + Z.of_nat k), g. split; [apply Hvis; lia|]. split; [|exact Hpp].
      apply (Hnth k _ Hk).
    + exists s, e. split; [exact Hvis|].
      assert (zlen pairs <= e - s + 1).
      { assert (Hzp : zlen pairs = Z.max 0 (Z.min (e + 1) (zlen (combine (rs_segments st) views)) - s))
          by (apply zlen_sl; lia). lia. }
      lia.
Qed.

(* ---- channel[i] ------------------------------------------------------------------------------ *)

Lemma index_log_shape (views : list (segv unit)) c i x c' log :
  wf unit views = true -> cache_inv unit views c ->
  read_at_index unit views c i = Ok (x, c', log) ->
  log = [] \/
  exists j cc sv, log = [(j, cc)] /\ 0 <= j /\ nth_error views (Z.to_nat j) = Some sv /\
                  sv_chunk sv <> 0 /\ 0 <= cc < sv_nchunks sv /\
                  let i' := if i <? 0 then i + total_values unit views else i in
                  chunk_start unit (pre unit views j) sv cc <= i' < chunk_end unit (pre unit views j) sv cc.
Proof.
  intros Hwf Hinv Hrun. pose proof (index_correct unit views c i Hwf Hinv) as H.
  destruct (py_index (full unit views) i) as [y|err].
  - destruct H as (st2 & log2 & H1 & _ & H3). rewrite Hrun in H1. injection H1 as <- <- <-. exact H3.
  - rewrite Hrun in H. discriminate.
Qed.

Lemma nth_error_combine {A B} : forall (l : list A) (ys : list B) k y,
  length ys = length l -> nth_error ys k = Some y ->
  exists x, nth_error l k = Some x /\ nth_error (combine l ys) k = Some (x, y).
Proof.
  induction l as [|a l IH]; intros ys k y Hlen Hk.
  - destruct ys; [destruct k; discriminate|discriminate].
  - destruct ys as [|b ys]; [discriminate|]. destruct k as [|k].
    + cbn in Hk. injection Hk as ->. exists a. split; reflexivity.
    + cbn [nth_error combine] in *. apply IH; [cbn in Hlen; lia|exact Hk].
Qed.

Theorem index_ranges_top st data path views c i x c' log :
  ranges_inv st data path = true -> meta_views st path = Ok views -> cache_inv unit views c ->
  read_at_index unit views c i = Ok (x, c', log) ->
  exists rs, lz_index_ranges st data path views c i = Ok (rs, c') /\
    ((log = [] /\ rs = []) \/
     exists j cc sv g,
       log = [(j, cc)] /\ 0 <= j /\ nth_error views (Z.to_nat j) = Some sv /\
       nth_error (rs_segments st) (Z.to_nat j) = Some g /\
       sv_chunk sv <> 0 /\ 0 <= cc < sv_nchunks sv /\
       (let i' := if i <? 0 then i + total_values unit views else i in
        chunk_start unit (pre unit views j) sv cc <= i' < chunk_end unit (pre unit views j) sv cc) /\
       (forall p n, In (p, n) rs ->
          (p = sg_pos g /\ n = 4) \/
          (0 <= n /\ forall b, p <= b < p + n -> in_chunk_window st path (j, cc) b)) /\
       total_bytes rs <= 4 + chunk_cost st path (j, cc)).
Proof.
  intros Hinv Hv Hcache Hrun.
  destruct (ranges_inv_views st data path Hinv) as (views' & Hv' & Hwf & Hzl & Hpairs & Hsnd & Hfst).
  rewrite Hv in Hv'. injection Hv' as <-.
  unfold lz_index_ranges. rewrite Hrun. cbn [bind].
  destruct (index_log_shape views c i x c' log Hwf Hcache Hrun) as [->|(j & cc & sv & -> & Hj & Hsv & Hc & Hcc & Hi)].
  - cbn [fetches_reads bind]. eexists. split; [reflexivity|]. left. split; reflexivity.
  - assert (Hlen : length views = length (rs_segments st)) by (unfold zlen in Hzl; lia).
    destruct (nth_error_combine (rs_segments st) views (Z.to_nat j) sv Hlen Hsv) as (g & Hg & Hgc).
    destruct (Hpairs (g, sv) (nth_error_In _ _ Hgc)) as [Hgi Hgm]. cbn [fst snd] in Hgi, Hgm.
    destruct (seg_inv_parts _ _ _ Hgi) as (_ & _ & _ & Hrest).
    destruct (meta_segv_fields _ _ _ Hgm) as (Hchunk & Hnch & _).
    destruct (Hrest ltac:(lia)) as [_ Hlay].
    destruct (seg_reads_ok (blen data) path g cc 1 Hlay ltac:(lia)) as [rs1 Hrs1].
    destruct (seg_reads_spec _ _ _ _ _ _ Hrs1 Hlay ltac:(lia)) as [Hin1 Htot1].
    cbn [fetches_reads]. unfold fetch_reads. cbn [fst snd]. rewrite Hg.
    rewrite (tag_read_ok data path g Hgi). cbn [bind].
    assert (Hcost : chunk_cost st path (j, cc) = seg_cost path g cc).
    { unfold chunk_cost, seg_cost. cbn [fst snd]. rewrite Hg. reflexivity. }
    assert (Hzr : zrange cc (cc + 1) = [cc]).
    { rewrite zrange_cons by lia. rewrite zrange_empty by lia. reflexivity. }
    rewrite Hzr in Htot1. cbn [map] in Htot1. rewrite szsum_cons in Htot1. cbn in Htot1.
    destruct (negb (toc_has (sg_toc g) TOC_RAW)).
    + cbn [bind app]. eexists. split; [reflexivity|]. right.
      exists j, cc, sv, g. split; [reflexivity|]. split; [exact Hj|]. split; [exact Hsv|]. split; [exact Hg|].
      split; [exact Hc|]. split; [exact Hcc|]. split; [exact Hi|]. split.
      * intros p n [Hp|[]]. injection Hp as <- <-. left. split; reflexivity.
      * rewrite Hcost, total_bytes_cons. change (total_bytes []) with 0. lia.
    + rewrite Hrs1. cbn [bind app]. rewrite app_nil_r. eexists. split; [reflexivity|]. right.
      exists j, cc, sv, g. split; [reflexivity|]. split; [exact Hj|]. split; [exact Hsv|]. split; [exact Hg|].
      split; [exact Hc|]. split; [exact Hcc|]. split; [exact Hi|]. split.
      * intros p n [Hp|Hp]; [injection Hp as <- <-; left; split; reflexivity|]. right.
        destruct (Hin1 p n Hp) as [Hn Hb]. split; [exact Hn|]. intros b Hbb.
        destruct (Hb b Hbb) as (c0 & lo & hi & Hc0 & Hw & Hlh).
        assert (c0 = cc) by lia. subst c0.
        exists g, lo, hi. cbn [fst snd]. split; [exact Hg|]. split; [exact Hw|exact Hlh].
      * rewrite total_bytes_cons, Hcost. lia.
Qed.

(* a cache hit issues no read *)
Theorem index_hit_reads_nothing st data path views cached b0 b1 i r :
  let i' := if i <? 0 then total_values unit views + i else i in
  b0 <= i' < b1 ->
  lz_index_ranges st data path views (Some (cached, (b0, b1))) i = Ok r ->
  fst r = [] /\ snd r = Some (cached, (b0, b1)).
Proof.
  intros i' Hb H. unfold lz_index_ranges in H.
  destruct (read_at_index unit views (Some (cached, (b0, b1))) i) as [[[x c'] log]|err] eqn:Er;
    cbn [bind] in H; [|discriminate].
  destruct (cache_hit_reads_nothing unit views cached b0 b1 i (x, c', log) Hb Er) as [Hlog Hc].
  cbn [fst snd] in Hlog, Hc. subst log c'. cbn [fetches_reads bind] in H. injection H as <-.
  split; reflexivity.
Qed.

(* ---- the plan lists every chunk once ------------------------------------------------------- *)

Lemma NoDup_app' {A} (a b : list A) :
  NoDup a -> NoDup b -> (forall x, In x a -> ~ In x b) -> NoDup (a ++ b).
Proof.
  induction a as [|x a IH]; intros Ha Hb H; [exact Hb|].
  inversion Ha as [|x' a' Hx Ha']; subst. cbn [app]. constructor.
  - intros Hin. apply in_app_or in Hin. destruct Hin as [Hin|Hin]; [contradiction|].
    apply (H x); [left; reflexivity|exact Hin].
  - apply IH; [exact Ha'|exact Hb|]. intros y Hy. apply H. right. exact Hy.
Qed.

Lemma zrange_nodup_nat : forall k a, NoDup (zrange a (a + Z.of_nat k)).
Proof.
  induction k as [|k IH]; intros a.
  - rewrite zrange_empty by lia. constructor.
  - rewrite zrange_cons by lia. constructor.
    + intros Hin. apply zrange_In in Hin. lia.
    + replace (a + Z.of_nat (S k)) with (a + 1 + Z.of_nat k) by lia. apply IH.
Qed.

Lemma zrange_nodup a b : NoDup (zrange a b).
Proof.
  destruct (Z_le_gt_dec b a); [rewrite zrange_empty by lia; constructor|].
  replace b with (a + Z.of_nat (Z.to_nat (b - a))) by lia. apply zrange_nodup_nat.
Qed.

Lemma NoDup_map_pair (pos : Z) (l : list Z) : NoDup l -> NoDup (map (fun c => (pos, c)) l).
Proof.
  induction 1 as [|c l Hc Hl IH]; [constructor|]. cbn [map]. constructor; [|exact IH].
  intros Hin. apply in_map_iff in Hin. destruct Hin as (c' & Heq & Hc'). injection Heq as ->. contradiction.
Qed.

Lemma lz_loop_log_nodup f offs s e offset L end_index : forall segments pos si vr outs log,
  lz_loop unit true true f offs s e offset L end_index segments pos si vr = Ok (outs, log) ->
  (forall j c, In (j, c) log -> pos <= j) /\ NoDup log.
Proof.
  induction segments as [|sv rest IH]; intros pos si vr outs log H.
  - cbn [lz_loop] in H. injection H as <- <-. split; [intros j c []|constructor].
  - cbn [lz_loop] in H. destruct (sv_chunk sv =? 0).
    + destruct (IH _ _ _ _ _ H) as [H1 H2]. split; [|exact H2]. intros j c Hin. specialize (H1 j c Hin). lia.
    + destruct (seg_chunk_range unit true f offs s e offset end_index si sv) as [[[co nc] skip]|err];
        cbn [bind] in H; [|discriminate].
      destruct (seg_fetch unit sv co nc) as [chunks|err]; cbn [bind] in H; [|discriminate].
      destruct (emit_chunks unit chunks true skip vr L) as [outs1 vr1].
      destruct (lz_loop unit true true f offs s e offset L end_index rest (pos + 1) (si + 1) vr1)
        as [[outs' log']|err] eqn:El; cbn [bind] in H; [|discriminate].
      injection H as <- <-. destruct (IH _ _ _ _ _ El) as [H1 H2]. split.
      * intros j c Hin. apply in_app_or in Hin. destruct Hin as [Hin|Hin].
        -- apply in_map_iff in Hin. destruct Hin as (c' & Heq & _). injection Heq as <- _. lia.
        -- specialize (H1 j c Hin). lia.
      * apply NoDup_app'; [apply NoDup_map_pair, zrange_nodup|exact H2|].
        intros [j c] Hin Hin'. apply in_map_iff in Hin. destruct Hin as (c' & Heq & _).
        injection Heq as <- _. specialize (H1 _ _ Hin'). lia.
Qed.

Lemma plan_nodup (views : list (segv unit)) offs len plan :
  lz_plan unit views offs len = Ok plan -> NoDup plan.
Proof.
  unfold lz_plan. destruct (offs <? 0); [discriminate|].
  destruct (match len with Some l => l <? 0 | None => false end); [discriminate|].
  destruct (lz_gen unit true true views offs len) as [[outs log]|err] eqn:Eg; cbn [bind]; [|discriminate].
  intros H. injection H as <-. unfold lz_gen in Eg. destruct (build_index unit views) as [f offsets].
  apply (lz_loop_log_nodup _ _ _ _ _ _ _ _ _ _ _ _ _ Eg).
Qed.

(* ---- the statements of Props/C19_bytes.v ------------------------------------------------------ *)

Theorem ranges_within_request_proof : forall st data path offs len,
  ranges_inv st data path = true -> 0 <= offs -> (match len with None => True | Some l => 0 <= l end) ->
  exists views rs,
    meta_views st path = Ok views /\ wf unit views = true /\
    lz_ranges st data path offs len = Ok rs /\
    forall pos n, In (pos, n) rs ->
      (exists j g, seg_visited views offs len j /\
                   nth_error (rs_segments st) (Z.to_nat j) = Some g /\ pos = sg_pos g /\ n = 4) \/
      (0 <= n /\ forall b, pos <= b < pos + n ->
         exists j c sv g lo hi,
           0 <= j /\ nth_error views (Z.to_nat j) = Some sv /\
           nth_error (rs_segments st) (Z.to_nat j) = Some g /\
           sv_chunk sv <> 0 /\ 0 <= c < sv_nchunks sv /\
           chunk_start unit (pre unit views j) sv c < win_end (total_values unit views) offs len /\
           offs < chunk_end unit (pre unit views j) sv c /\
           chunk_window path g c = Some (lo, hi) /\ lo <= b < hi).
Proof.
  intros st data path offs len Hinv Hoff Hlen.
  destruct (ranges_top st data path offs len Hinv Hoff Hlen)
    as (views & plan & rs & Hv & Hwf & Hplan & Hrs & Hin & _).
  destruct (plan_exact unit views offs len Hwf Hoff Hlen) as (plan' & Hplan' & Hiff).
  rewrite Hplan in Hplan'. injection Hplan' as <-.
  exists views, rs. split; [exact Hv|]. split; [exact Hwf|]. split; [exact Hrs|].
  intros pos n Hp. destruct (Hin pos n Hp) as [Htag|[Hn Hb]]; [left; exact Htag|right].
  split; [exact Hn|]. intros b Hbb. destruct (Hb b Hbb) as ([j c] & Hjc & (g & lo & hi & Hg & Hw & Hlh)).
  cbn [fst snd] in Hg, Hw. apply Hiff in Hjc. destruct Hjc as (sv & Hj & Hsv & Hcs & Hc & Hst & Hen).
  exists j, c, sv, g, lo, hi. repeat (split; [assumption|]). assumption.
Qed.

Theorem bytes_bounded_proof : forall st data path offs len,
  ranges_inv st data path = true -> 0 <= offs -> (match len with None => True | Some l => 0 <= l end) ->
  exists views plan rs s e,
    meta_views st path = Ok views /\ lz_plan unit views offs len = Ok plan /\ NoDup plan /\
    (forall j c, In (j, c) plan <->
       exists sv, 0 <= j /\ nth_error views (Z.to_nat j) = Some sv /\
                  sv_chunk sv <> 0 /\ 0 <= c < sv_nchunks sv /\
                  chunk_start unit (pre unit views j) sv c < win_end (total_values unit views) offs len /\
                  offs < chunk_end unit (pre unit views j) sv c) /\
    lz_ranges st data path offs len = Ok rs /\
    (forall j, s <= j <= e -> seg_visited views offs len j) /\
    total_bytes rs <= 4 * Z.max 0 (e - s + 1) + SegState.zsum (map (chunk_cost st path) plan).
Proof.
  intros st data path offs len Hinv Hoff Hlen.
  destruct (ranges_top st data path offs len Hinv Hoff Hlen)
    as (views & plan & rs & Hv & Hwf & Hplan & Hrs & _ & (s & e & Hvis & Htot)).
  destruct (plan_exact unit views offs len Hwf Hoff Hlen) as (plan' & Hplan' & Hiff).
  rewrite Hplan in Hplan'. injection Hplan' as <-.
  exists views, plan, rs, s, e. split; [exact Hv|]. split; [exact Hplan|].
  split; [exact (plan_nodup views offs len plan Hplan)|]. split; [exact Hiff|].
  split; [exact Hrs|]. split; [exact Hvis|exact Htot].
Qed.
