(* Lemmas for C09 (index files).  A file is given as its list of segments
   (lead-in record, metadata bytes, raw data bytes); its data image carries the
   TDSm tag and the raw data, its index image the TDSh tag and no raw data. *)
From Coq Require Import List ZArith Bool Lia ZifyBool.
From Coq Require Import Init.Byte.
Import ListNotations.
From NpTdms Require Import Base.Bytes Base.Res Model.Tokens Model.TokensWf Model.SegState Model.Reader
     Proofs.SegStateProofs Proofs.TokensRoundtrip Proofs.TruncProofs.
Local Open Scope Z_scope.

(* ---- the index stream advances by lead-in + metadata ----------------------- *)

Lemma lead_ok_advance seg_pos l fs dp np inc :
  lead_positions seg_pos l fs = Ok (LeadOk dp np inc) ->
  dp - seg_pos = 28 + l_raw l.
Proof.
  intros H. unfold lead_positions in H.
  destruct (l_next l =? 18446744073709551615).
  - destruct fs as [sz|]; [|discriminate].
    destruct (sz <? seg_pos + 28 + l_raw l); [discriminate|].
    injection H as <- _ _. lia.
  - destruct fs as [sz|].
    + destruct (sz <? seg_pos + l_next l + 28).
      * destruct (sz <? seg_pos + 28 + l_raw l); [discriminate|]. injection H as <- _ _. lia.
      * injection H as <- _ _. lia.
    + injection H as <- _ _. lia.
Qed.

(* ---- B1: the tokens do not depend on what follows the metadata ------------- *)

Theorem metadata_tokens_continuation e es rest1 rest2 :
  forall (Hwf : wf_metadata es = true),
    parse_metadata e (ser_metadata e es ++ rest1) = Ok (es, rest1) /\
    parse_metadata e (ser_metadata e es ++ rest2) = Ok (es, rest2) /\
    (do '(x, _) <- parse_metadata e (ser_metadata e es ++ rest1); Ok (Some x))
    = (do '(x, _) <- parse_metadata e (ser_metadata e es ++ rest2); Ok (Some x)).
Proof.
  intros. rewrite !parse_metadata_ser by exact Hwf. repeat split.
Qed.

(* ---- files as segment lists ------------------------------------------------- *)

Record fseg := mkFseg { fs_lead : leadin; fs_meta : bytes; fs_raw : bytes }.

Definition retag (t : bytes) (l : leadin) : leadin :=
  mkLeadin t (l_toc l) (l_version l) (l_next l) (l_raw l).

(* the 24 bytes of a lead-in after its tag *)
Definition lead_body (l : leadin) : bytes :=
  let e := toc_endian (l_toc l) in
  u_enc LE 4 (l_toc l) ++ s_enc e 4 (l_version l) ++ put_u64 e (l_next l) ++ put_u64 e (l_raw l).

Definition data_seg (s : fseg) : bytes :=
  ser_leadin (retag TAG_DATA (fs_lead s)) ++ fs_meta s ++ fs_raw s.
Definition index_seg (s : fseg) : bytes :=
  ser_leadin (retag TAG_INDEX (fs_lead s)) ++ fs_meta s.

Definition data_image (segs : list fseg) : bytes := flat_map data_seg segs.
Definition index_image (segs : list fseg) : bytes := flat_map index_seg segs.

(* offsets of segment [i] in the two streams *)
Definition data_off (segs : list fseg) (i : nat) : Z :=
  zsum (map (fun s => 28 + blen (fs_meta s) + blen (fs_raw s)) (firstn i segs)).
Definition index_off (segs : list fseg) (i : nat) : Z :=
  zsum (map (fun s => 28 + blen (fs_meta s)) (firstn i segs)).

Lemma ser_leadin_retag t l : ser_leadin (retag t l) = t ++ lead_body l.
Proof. reflexivity. Qed.

Lemma blen_lead_body l : blen (lead_body l) = 24.
Proof. unfold lead_body, s_enc, put_u64. rewrite !blen_app, !blen_u_enc. lia. Qed.

Lemma blen_ser_leadin_retag t l : blen t = 4 -> blen (ser_leadin (retag t l)) = 28.
Proof. intros H. rewrite ser_leadin_retag, blen_app, blen_lead_body, H. reflexivity. Qed.

Lemma blen_TAG_DATA : blen TAG_DATA = 4. Proof. reflexivity. Qed.
Lemma blen_TAG_INDEX : blen TAG_INDEX = 4. Proof. reflexivity. Qed.

Lemma blen_data_seg s : blen (data_seg s) = 28 + blen (fs_meta s) + blen (fs_raw s).
Proof.
  unfold data_seg. rewrite !blen_app, blen_ser_leadin_retag by apply blen_TAG_DATA. lia.
Qed.

Lemma blen_index_seg s : blen (index_seg s) = 28 + blen (fs_meta s).
Proof.
  unfold index_seg. rewrite !blen_app, blen_ser_leadin_retag by apply blen_TAG_INDEX. lia.
Qed.

Lemma blen_data_image segs :
  blen (data_image segs) = zsum (map (fun s => 28 + blen (fs_meta s) + blen (fs_raw s)) segs).
Proof.
  induction segs as [|s r IH]; [reflexivity|].
  unfold data_image in *. cbn [flat_map map]. rewrite blen_app, zsum_cons, IH, blen_data_seg. reflexivity.
Qed.

Lemma blen_index_image segs :
  blen (index_image segs) = zsum (map (fun s => 28 + blen (fs_meta s)) segs).
Proof.
  induction segs as [|s r IH]; [reflexivity|].
  unfold index_image in *. cbn [flat_map map]. rewrite blen_app, zsum_cons, IH, blen_index_seg. reflexivity.
Qed.

Lemma data_image_app a b : data_image (a ++ b) = data_image a ++ data_image b.
Proof. apply flat_map_app. Qed.
Lemma index_image_app a b : index_image (a ++ b) = index_image a ++ index_image b.
Proof. apply flat_map_app. Qed.

Lemma data_image_cons s r : data_image (s :: r) = data_seg s ++ data_image r.
Proof. reflexivity. Qed.
Lemma index_image_cons s r : index_image (s :: r) = index_seg s ++ index_image r.
Proof. reflexivity. Qed.

(* the offsets are the lengths of the images of the segments before *)
Lemma data_off_blen segs i : data_off segs i = blen (data_image (firstn i segs)).
Proof. symmetry. apply blen_data_image. Qed.
Lemma index_off_blen segs i : index_off segs i = blen (index_image (firstn i segs)).
Proof. symmetry. apply blen_index_image. Qed.

Lemma firstn_S_nth {A} (l : list A) i x :
  nth_error l i = Some x -> firstn (S i) l = firstn i l ++ [x].
Proof.
  revert i. induction l as [|y l IH]; intros [|i] H; cbn in H; try discriminate.
  - injection H as ->. reflexivity.
  - rewrite (firstn_cons (S i)), (firstn_cons i), (IH i H). reflexivity.
Qed.

Lemma nth_error_split' {A} (l : list A) i x :
  nth_error l i = Some x -> l = firstn i l ++ x :: skipn (S i) l.
Proof.
  revert i. induction l as [|y l IH]; intros [|i] H; cbn in H; try discriminate.
  - injection H as ->. reflexivity.
  - cbn [firstn skipn app]. f_equal. apply IH. exact H.
Qed.

(* ---- B2: positions ------------------------------------------------------------ *)

(* the offsets advance by exactly the segment's size in the respective stream *)
Lemma index_off_S segs i s :
  nth_error segs i = Some s -> index_off segs (S i) = index_off segs i + (28 + blen (fs_meta s)).
Proof.
  intros H. unfold index_off. rewrite (firstn_S_nth segs i s H), map_app, zsum_app. cbn. lia.
Qed.

Lemma data_off_S segs i s :
  nth_error segs i = Some s ->
  data_off segs (S i) = data_off segs i + (28 + blen (fs_meta s) + blen (fs_raw s)).
Proof.
  intros H. unfold data_off. rewrite (firstn_S_nth segs i s H), map_app, zsum_app. cbn. lia.
Qed.

(* what the reader's seek [start_position + data_position - position] maintains:
   whenever the lead-in analysis accepts segment [i] (complete or clamped), the
   next index-stream position is the index offset of segment [i+1], provided the
   lead-in's raw data offset is the metadata length *)
Theorem index_positions segs i s seg_pos fsz dp np inc :
  forall (Hnth : nth_error segs i = Some s)
         (Hraw : l_raw (fs_lead s) = blen (fs_meta s))
         (Hlead : lead_positions seg_pos (fs_lead s) fsz = Ok (LeadOk dp np inc)),
    index_off segs (S i) = index_off segs i + (dp - seg_pos).
Proof.
  intros. rewrite (index_off_S segs i s Hnth), (lead_ok_advance _ _ _ _ _ _ Hlead), Hraw. reflexivity.
Qed.

(* and in the data file a complete segment whose next-segment offset is exact
   ends where segment [i+1] starts *)
Theorem data_positions segs i s fsz dp np :
  forall (Hnth : nth_error segs i = Some s)
         (Hnext : l_next (fs_lead s) = blen (fs_meta s) + blen (fs_raw s))
         (Hlead : lead_positions (data_off segs i) (fs_lead s) fsz = Ok (LeadOk dp np false)),
    np = data_off segs (S i).
Proof.
  intros. rewrite (data_off_S segs i s Hnth). unfold lead_positions in Hlead.
  destruct (l_next (fs_lead s) =? 18446744073709551615).
  - destruct fsz as [sz|]; [|discriminate].
    destruct (sz <? data_off segs i + 28 + l_raw (fs_lead s)); discriminate.
  - destruct fsz as [sz|].
    + destruct (sz <? data_off segs i + l_next (fs_lead s) + 28).
      * destruct (sz <? data_off segs i + 28 + l_raw (fs_lead s)); discriminate.
      * injection Hlead as _ <-. lia.
    + injection Hlead as _ <-. lia.
Qed.

(* reads at corresponding offsets, decomposition form *)
Lemma drop_app_blen (x r : bytes) (n : Z) : n = blen x -> drop n (x ++ r) = r.
Proof. intros ->. apply drop_app_exact. Qed.

Lemma read_at_app' pre x post n p :
  p = blen pre -> n = blen x -> read_at p n (pre ++ x ++ post) = x.
Proof. intros -> ->. apply read_at_app. Qed.

Lemma read_lead_data done s rest :
  read_at (blen (data_image done)) 28 (data_image (done ++ s :: rest))
  = ser_leadin (retag TAG_DATA (fs_lead s)).
Proof.
  rewrite data_image_app, data_image_cons. unfold data_seg. rewrite <- !app_assoc.
  apply read_at_app'; [reflexivity|]. symmetry. apply blen_ser_leadin_retag, blen_TAG_DATA.
Qed.

Lemma read_lead_index done s rest :
  read_at (blen (index_image done)) 28 (index_image (done ++ s :: rest))
  = ser_leadin (retag TAG_INDEX (fs_lead s)).
Proof.
  rewrite index_image_app, index_image_cons. unfold index_seg. rewrite <- !app_assoc.
  apply read_at_app'; [reflexivity|]. symmetry. apply blen_ser_leadin_retag, blen_TAG_INDEX.
Qed.

Lemma drop_meta_data done s rest :
  drop (blen (data_image done) + 28) (data_image (done ++ s :: rest))
  = fs_meta s ++ fs_raw s ++ data_image rest.
Proof.
  rewrite data_image_app, data_image_cons. unfold data_seg. rewrite <- !app_assoc.
  rewrite app_assoc. apply drop_app_blen.
  rewrite blen_app, blen_ser_leadin_retag by apply blen_TAG_DATA. reflexivity.
Qed.

Lemma drop_meta_index done s rest :
  drop (blen (index_image done) + 28) (index_image (done ++ s :: rest))
  = fs_meta s ++ index_image rest.
Proof.
  rewrite index_image_app, index_image_cons. unfold index_seg. rewrite <- !app_assoc.
  rewrite app_assoc. apply drop_app_blen.
  rewrite blen_app, blen_ser_leadin_retag by apply blen_TAG_INDEX. reflexivity.
Qed.

(* B2, reads: at the offsets of segment [i] both streams hold the same lead-in
   except for the tag, followed by the same metadata bytes *)
Theorem index_reads segs i s :
  forall (Hnth : nth_error segs i = Some s),
    read_at (index_off segs i) 28 (index_image segs) = TAG_INDEX ++ lead_body (fs_lead s) /\
    read_at (data_off segs i) 28 (data_image segs) = TAG_DATA ++ lead_body (fs_lead s) /\
    read_at (index_off segs i + 28) (blen (fs_meta s)) (index_image segs) = fs_meta s /\
    read_at (data_off segs i + 28) (blen (fs_meta s)) (data_image segs) = fs_meta s.
Proof.
  intros. rewrite index_off_blen, data_off_blen.
  pose proof (nth_error_split' segs i s Hnth) as Hsplit.
  set (done := firstn i segs) in *. set (rest := skipn (S i) segs) in *.
  clearbody done rest. clear Hnth. subst segs.
  rewrite read_lead_index, read_lead_data, !ser_leadin_retag.
  unfold read_at. rewrite drop_meta_index, drop_meta_data, !take_app_exact. repeat split.
Qed.

(* ---- B3: the metadata pass over the index image equals the pass over the data ---- *)

(* a lead-in whose fields fit, whose raw data offset is the metadata length, and
   whose metadata (when the ToC announces any) is the canonical serialisation of
   well-formed entries *)
Definition lead_ok (s : fseg) : Prop :=
  let l := fs_lead s in
  wf_leadin (retag TAG_DATA l) = true /\
  l_raw l = blen (fs_meta s) /\
  (toc_has (l_toc l) TOC_META = true ->
   exists es, wf_metadata es = true /\ fs_meta s = ser_metadata (toc_endian (l_toc l)) es).

(* the next-segment offset is exact *)
Definition seg_exact (s : fseg) : Prop :=
  l_next (fs_lead s) = blen (fs_meta s) + blen (fs_raw s) /\
  l_next (fs_lead s) <> 0xFFFFFFFFFFFFFFFF.

(* the last segment may also end early: its declared end is at or beyond the end
   of the file (raw data cut short, index complete), or is the length-unknown
   marker *)
Definition seg_open (s : fseg) : Prop :=
  l_next (fs_lead s) = 0xFFFFFFFFFFFFFFFF \/
  blen (fs_meta s) + blen (fs_raw s) <= l_next (fs_lead s).

Fixpoint segs_ok (segs : list fseg) : Prop :=
  match segs with
  | [] => True
  | s :: r => lead_ok s /\ (seg_exact s \/ (r = [] /\ seg_open s)) /\ segs_ok r
  end.

Lemma lead_positions_retag p t l fs : lead_positions p (retag t l) fs = lead_positions p l fs.
Proof. reflexivity. Qed.

Lemma wf_leadin_retag_index l :
  wf_leadin (retag TAG_DATA l) = true -> wf_leadin (retag TAG_INDEX l) = true.
Proof. intros H. exact H. Qed.

Lemma read_at_end (x : bytes) n : read_at (blen x) n x = [].
Proof.
  unfold read_at. rewrite <- (app_nil_r x) at 2. rewrite drop_app_exact.
  rewrite take_firstn. apply firstn_nil.
Qed.

(* the incomplete flag of a segment of such a file *)
Definition open_flag (s : fseg) : bool :=
  (l_next (fs_lead s) =? 0xFFFFFFFFFFFFFFFF) ||
  (blen (fs_meta s) + blen (fs_raw s) <? l_next (fs_lead s)).

(* the lead-in analysis of a segment of a well-formed file, with the data
   file's size: data starts after the metadata, the segment ends where its
   bytes end, and it is flagged incomplete iff it is declared longer than that;
   without a file size the same is found when the declared offset is exact *)
Lemma lead_positions_in_file gp s rest n :
  n = gp + blen (data_image (s :: rest)) ->
  l_raw (fs_lead s) = blen (fs_meta s) ->
  seg_exact s \/ (rest = [] /\ seg_open s) ->
  lead_positions gp (fs_lead s) (Some n)
  = Ok (LeadOk (gp + 28 + blen (fs_meta s)) (gp + 28 + blen (fs_meta s) + blen (fs_raw s))
               (open_flag s)) /\
  (seg_exact s ->
   lead_positions gp (fs_lead s) None
   = Ok (LeadOk (gp + 28 + blen (fs_meta s)) (gp + 28 + blen (fs_meta s) + blen (fs_raw s))
                (open_flag s))).
Proof.
  intros Hn Hraw Hcase. rewrite data_image_cons, blen_app, blen_data_seg in Hn.
  pose proof (blen_nonneg (data_image rest)) as Hr.
  pose proof (blen_nonneg (fs_raw s)) as Hr'.
  unfold lead_positions, open_flag. rewrite Hraw.
  split.
  - destruct Hcase as [[Hnext Hnm]|[-> Hopen]].
    + apply Z.eqb_neq in Hnm. rewrite Hnm.
      replace (n <? gp + l_next (fs_lead s) + 28) with false by lia.
      replace (blen (fs_meta s) + blen (fs_raw s) <? l_next (fs_lead s)) with false by lia.
      cbn [orb]. f_equal. f_equal. lia.
    + change (blen (data_image [])) with 0 in Hn.
      destruct (l_next (fs_lead s) =? 18446744073709551615) eqn:E; cbn [orb].
      * replace (n <? gp + 28 + blen (fs_meta s)) with false by lia.
        f_equal. f_equal. lia.
      * destruct Hopen as [Hm|Hle]; [lia|].
        destruct (n <? gp + l_next (fs_lead s) + 28) eqn:E2.
        -- replace (n <? gp + 28 + blen (fs_meta s)) with false by lia.
           replace (blen (fs_meta s) + blen (fs_raw s) <? l_next (fs_lead s)) with true by lia.
           f_equal. f_equal. lia.
        -- replace (blen (fs_meta s) + blen (fs_raw s) <? l_next (fs_lead s)) with false by lia.
           f_equal. f_equal. lia.
  - intros [Hnext Hnm]. apply Z.eqb_neq in Hnm. rewrite Hnm.
    replace (blen (fs_meta s) + blen (fs_raw s) <? l_next (fs_lead s)) with false by lia.
    cbn [orb]. f_equal. f_equal. lia.
Qed.

Lemma index_transparent_gen w fsi : forall rest done f1 f2 ps pi st src_d src_i n gp ip,
  segs_ok rest ->
  fsi = Some n \/ (fsi = None /\ Forall seg_exact rest) ->
  (length rest < f1)%nat -> (length rest < f2)%nat ->
  src_d = data_image (done ++ rest) -> src_i = index_image (done ++ rest) ->
  n = blen src_d -> gp = blen (data_image done) -> ip = blen (index_image done) ->
  md_loop f1 src_d false (Some n) w gp gp ps pi st
  = md_loop f2 src_i true fsi w ip gp ps pi st.
Proof.
  induction rest as [|s rest IH]; intros done f1 f2 ps pi st src_d src_i n gp ip
                                         Hok Hfsi Hf1 Hf2 Hd Hi Hn Hgp Hip.
  - destruct f1 as [|f1]; [cbn in Hf1; lia|]. destruct f2 as [|f2]; [cbn in Hf2; lia|].
    rewrite !md_loop_unfold. rewrite app_nil_r in Hd, Hi. subst src_d src_i gp ip.
    rewrite !read_at_end. reflexivity.
  - destruct f1 as [|f1]; [cbn in Hf1; lia|]. destruct f2 as [|f2]; [cbn in Hf2; lia|].
    cbn [length] in Hf1, Hf2.
    destruct Hok as ((Hwf & Hraw & Hmeta) & Hcase & Hrest).
    rewrite !md_loop_unfold.
    assert (Hrd : read_at gp 28 src_d = ser_leadin (retag TAG_DATA (fs_lead s))).
    { subst src_d gp. apply read_lead_data. }
    assert (Hri : read_at ip 28 src_i = ser_leadin (retag TAG_INDEX (fs_lead s))).
    { subst src_i ip. apply read_lead_index. }
    rewrite Hrd, Hri.
    rewrite !blen_ser_leadin_retag by reflexivity.
    change (28 <? 28) with false. cbv iota.
    rewrite (parse_leadin_ser _ Hwf), (parse_leadin_ser _ (wf_leadin_retag_index _ Hwf)).
    cbn [bind]. cbn [l_tag l_toc l_version retag].
    rewrite !bytes_eqb_refl. cbn [negb].
    rewrite !lead_positions_retag.
    destruct (lead_positions_in_file gp s rest n) as [Hlp Hlpn]; try assumption.
    { subst n src_d gp. rewrite data_image_app, blen_app. reflexivity. }
    assert (Hlpi : lead_positions gp (fs_lead s) fsi = lead_positions gp (fs_lead s) (Some n)).
    { destruct Hfsi as [->|[-> Hex]]; [reflexivity|].
      rewrite Hlp. apply Hlpn. apply (Forall_inv Hex). }
    rewrite Hlpi, Hlp. cbn [bind].
    assert (Hmd : read_md src_d gp (l_toc (fs_lead s)) = read_md src_i ip (l_toc (fs_lead s))).
    { unfold read_md. destruct (toc_has (l_toc (fs_lead s)) TOC_META) eqn:Em; [|reflexivity].
      destruct (Hmeta eq_refl) as (es & Hes & Hser).
      subst src_d src_i gp ip. rewrite drop_meta_data, drop_meta_index, Hser.
      rewrite !parse_metadata_ser by exact Hes. reflexivity. }
    rewrite Hmd.
    destruct (read_md src_i ip (l_toc (fs_lead s))) as [md|e]; cbn [bind]; [|reflexivity].
    match goal with |- context [seg_step ?a ?b ?c ?d ?e ?f ?g ?h ?i ?j] =>
                    destruct (seg_step a b c d e f g h i j) as [[[objs idx] st']|e'] end;
      cbn [bind]; [|reflexivity].
    apply (IH (done ++ [s])); try assumption; try lia.
    + destruct Hfsi as [->|[-> Hex]]; [left; reflexivity|right; split; [reflexivity|]].
      apply (Forall_inv_tail Hex).
    + rewrite <- app_assoc. exact Hd.
    + rewrite <- app_assoc. exact Hi.
    + subst gp. rewrite data_image_app, blen_app. cbn [data_image flat_map].
      rewrite app_nil_r, blen_data_seg. lia.
    + subst gp ip. rewrite index_image_app, blen_app. cbn [index_image flat_map].
      rewrite app_nil_r, blen_index_seg. lia.
Qed.

Lemma length_data_image_ge segs : (length segs <= length (data_image segs))%nat.
Proof.
  induction segs as [|s r IH]; [cbn; lia|].
  rewrite data_image_cons, app_length. pose proof (blen_data_seg s) as H. unfold blen in H.
  cbn [length]. lia.
Qed.

Lemma length_index_image_ge segs : (length segs <= length (index_image segs))%nat.
Proof.
  induction segs as [|s r IH]; [cbn; lia|].
  rewrite index_image_cons, app_length. pose proof (blen_index_seg s) as H. unfold blen in H.
  cbn [length]. lia.
Qed.

(* B3: with a matching index beside the data file, the metadata pass gives the
   same reader state (or the same error) as without it *)
Theorem index_transparent segs w :
  forall (Hok : segs_ok segs),
    rd_metadata (index_image segs) true (Some (blen (data_image segs))) w
    = rd_metadata (data_image segs) false (Some (blen (data_image segs))) w.
Proof.
  intros. unfold rd_metadata. symmetry.
  apply (index_transparent_gen w _ segs []); try reflexivity; try assumption.
  - left. reflexivity.
  - pose proof (length_data_image_ge segs). lia.
  - pose proof (length_index_image_ge segs). lia.
Qed.

(* all reads of TdmsFile.read(path): they depend on the metadata pass and the
   data file's bytes only *)
Theorem index_transparent_read segs :
  forall (Hok : segs_ok segs),
    rd_all_idx (data_image segs) (index_image segs) = rd_all (data_image segs).
Proof.
  intros. unfold rd_all_idx, rd_all, rd_all_from. rewrite index_transparent by exact Hok. reflexivity.
Qed.

(* the index file alone: no file size to clamp against, so the declared
   offsets must be exact (with the length-unknown marker the reader raises
   TypeError, see DESIGN.md C09 domain note) *)
Theorem index_only_transparent segs w :
  forall (Hok : segs_ok segs) (Hexact : Forall seg_exact segs),
    rd_metadata (index_image segs) true None w
    = rd_metadata (data_image segs) false (Some (blen (data_image segs))) w.
Proof.
  intros. unfold rd_metadata. symmetry.
  apply (index_transparent_gen w _ segs []); try reflexivity; try assumption.
  - right. split; [reflexivity|exact Hexact].
  - pose proof (length_data_image_ge segs). lia.
  - pose proof (length_index_image_ge segs). lia.
Qed.

Theorem index_offsets_spec segs i :
  index_off segs i = zsum (map (fun s => 28 + blen (fs_meta s)) (firstn i segs)) /\
  data_off segs i = zsum (map (fun s => 28 + blen (fs_meta s) + blen (fs_raw s)) (firstn i segs)) /\
  index_off segs i = blen (index_image (firstn i segs)) /\
  data_off segs i = blen (data_image (firstn i segs)).
Proof.
  repeat split; [apply index_off_blen|apply data_off_blen].
Qed.

(* ======================================================================== *)
(* Files cut short (C06, A6): which segments the metadata pass keeps and how   *)
(* it flags them.  Placed here because it uses the segment-list view.           *)
(* ======================================================================== *)

Definition seg_summary (g : segment) : Z * Z * Z * bool :=
  (sg_pos g, sg_data g, sg_next g, sg_incomplete g).

(* position, data position, end and incomplete flag of every segment of a
   well-formed file starting at [gp] *)
Fixpoint expected (gp : Z) (segs : list fseg) : list (Z * Z * Z * bool) :=
  match segs with
  | [] => []
  | s :: r =>
    let dp := gp + 28 + blen (fs_meta s) in
    let np := dp + blen (fs_raw s) in
    (gp, dp, np, open_flag s) :: expected np r
  end.

Lemma seg_step_segments w gp toc dp np inc md ps pi st objs idx st' :
  seg_step w gp toc dp np inc md ps pi st = Ok (objs, idx, st') ->
  exists g, rs_segments st' = rs_segments st ++ [g] /\ seg_summary g = (gp, dp, np, inc).
Proof.
  unfold seg_step.
  destruct (read_segment_objects toc md (rs_prev_objs st) ps) as [[o p]|e]; cbn [bind]; [|discriminate].
  match goal with |- context [match md with None => ?a | Some _ => ?b end] =>
                  destruct (match md with None => a | Some _ => b end) as [i c] end.
  destruct (calculate_chunks toc inc o (np - dp)) as [[nch fin]|e]; cbn [bind]; [|discriminate].
  destruct (update_object_metadata o nch fin (rs_prev_objs st) (rs_om st)) as [[po om]|e];
    cbn [bind]; [|discriminate].
  intros H. injection H as <- <- <-. eexists. split; reflexivity.
Qed.

Lemma read_lead_data_tail done s rest tail :
  read_at (blen (data_image done)) 28 (data_image (done ++ s :: rest) ++ tail)
  = ser_leadin (retag TAG_DATA (fs_lead s)).
Proof.
  rewrite data_image_app, data_image_cons. unfold data_seg. rewrite <- !app_assoc.
  apply read_at_app'; [reflexivity|]. symmetry. apply blen_ser_leadin_retag, blen_TAG_DATA.
Qed.

Lemma drop_meta_data_tail done s rest tail :
  drop (blen (data_image done) + 28) (data_image (done ++ s :: rest) ++ tail)
  = fs_meta s ++ fs_raw s ++ data_image rest ++ tail.
Proof.
  rewrite data_image_app, data_image_cons. unfold data_seg. rewrite <- !app_assoc.
  rewrite app_assoc. apply drop_app_blen.
  rewrite blen_app, blen_ser_leadin_retag by apply blen_TAG_DATA. reflexivity.
Qed.

Lemma lead_positions_exact gp s n :
  seg_exact s -> l_raw (fs_lead s) = blen (fs_meta s) ->
  gp + 28 + blen (fs_meta s) + blen (fs_raw s) <= n ->
  lead_positions gp (fs_lead s) (Some n)
  = Ok (LeadOk (gp + 28 + blen (fs_meta s)) (gp + 28 + blen (fs_meta s) + blen (fs_raw s))
               (open_flag s)).
Proof.
  intros [Hnext Hnm] Hraw Hn. unfold lead_positions, open_flag. rewrite Hraw.
  apply Z.eqb_neq in Hnm. rewrite Hnm.
  replace (n <? gp + l_next (fs_lead s) + 28) with false by lia.
  replace (blen (fs_meta s) + blen (fs_raw s) <? l_next (fs_lead s)) with false by lia.
  cbn [orb]. f_equal. f_equal. lia.
Qed.

(* what may follow the last whole segment of a cut file: fewer than 28 bytes, or
   a lead-in whose metadata is not all there *)
Definition tail_stops (tail : bytes) : Prop :=
  blen tail < 28 \/
  exists l mp, tail = ser_leadin (retag TAG_DATA l) ++ mp /\
               wf_leadin (retag TAG_DATA l) = true /\
               blen mp < l_raw l /\ l_raw l <= l_next l.

Lemma blen_take_le n (x : bytes) : blen (take n x) <= blen x.
Proof. rewrite take_firstn. unfold blen. rewrite firstn_length. lia. Qed.

Lemma md_loop_tail f w pre tail ps pi st stf :
  tail_stops tail ->
  md_loop f (pre ++ tail) false (Some (blen (pre ++ tail))) w (blen pre) (blen pre) ps pi st = Ok stf ->
  rs_segments stf = rs_segments st.
Proof.
  intros Ht H. destruct f as [|f]; [discriminate H|].
  assert (Hread : read_at (blen pre) 28 (pre ++ tail) = take 28 tail).
  { unfold read_at. rewrite drop_app_exact. reflexivity. }
  destruct Ht as [Hshort|(l & mp & Htail & Hwf & Hmp & Hle)].
  - rewrite (proj1 (md_loop_stops f _ _ _ _ _ _ _ _ _)) in H.
    + injection H as <-. reflexivity.
    + rewrite Hread. pose proof (blen_take_le 28 tail). lia.
  - assert (Hlead : take 28 tail = ser_leadin (retag TAG_DATA l)).
    { rewrite Htail. rewrite <- (blen_ser_leadin_retag TAG_DATA l blen_TAG_DATA). apply take_app_exact. }
    destruct (proj2 (md_loop_stops f (pre ++ tail) false (Some (blen (pre ++ tail))) w
                                   (blen pre) (blen pre) ps pi st) (retag TAG_DATA l)) as [Hstop Hsegs].
    + rewrite Hread, Hlead. apply blen_ser_leadin_retag, blen_TAG_DATA.
    + rewrite Hread, Hlead. apply parse_leadin_ser. exact Hwf.
    + apply bytes_eqb_refl.
    + rewrite lead_positions_retag. unfold lead_positions.
      rewrite blen_app, Htail, blen_app, blen_ser_leadin_retag by apply blen_TAG_DATA.
      pose proof (blen_nonneg mp).
      destruct (l_next l =? 18446744073709551615).
      * replace (_ <? _) with true by lia. reflexivity.
      * replace (blen pre + (28 + blen mp) <? blen pre + l_next l + 28) with true by lia.
        replace (_ <? _) with true by lia. reflexivity.
    + rewrite Hstop in H. injection H as <-. exact Hsegs.
Qed.

(* forward characterisation of the metadata pass over a well-formed file that
   may be followed by the remains of a cut segment *)
Lemma md_loop_summary w : forall rest done f ps pi st tail stf,
  segs_ok rest ->
  tail = [] \/ Forall seg_exact rest ->
  tail_stops tail ->
  md_loop f (data_image (done ++ rest) ++ tail) false
          (Some (blen (data_image (done ++ rest) ++ tail))) w
          (blen (data_image done)) (blen (data_image done)) ps pi st = Ok stf ->
  map seg_summary (rs_segments stf)
  = map seg_summary (rs_segments st) ++ expected (blen (data_image done)) rest.
Proof.
  induction rest as [|s rest IH]; intros done f ps pi st tail stf Hok Htl Hts H.
  - rewrite app_nil_r in H. apply md_loop_tail in H; [|exact Hts].
    rewrite H. cbn [expected]. rewrite app_nil_r. reflexivity.
  - destruct f as [|f]; [discriminate H|].
    destruct Hok as ((Hwf & Hraw & Hmeta) & Hcase & Hrest).
    set (gp := blen (data_image done)) in *.
    set (src := data_image (done ++ s :: rest) ++ tail) in *.
    rewrite md_loop_unfold in H.
    assert (Hrd : read_at gp 28 src = ser_leadin (retag TAG_DATA (fs_lead s))).
    { apply read_lead_data_tail. }
    rewrite Hrd in H. rewrite blen_ser_leadin_retag in H by reflexivity.
    change (28 <? 28) with false in H. cbv iota in H.
    rewrite (parse_leadin_ser _ Hwf) in H. cbn [bind] in H.
    cbn [l_tag l_toc l_version retag] in H.
    rewrite bytes_eqb_refl in H. cbn [negb] in H.
    rewrite lead_positions_retag in H.
    assert (Hsrc : blen src = gp + blen (data_image (s :: rest)) + blen tail).
    { unfold src, gp. rewrite blen_app, data_image_app, blen_app. reflexivity. }
    assert (Hlp : lead_positions gp (fs_lead s) (Some (blen src))
                  = Ok (LeadOk (gp + 28 + blen (fs_meta s))
                               (gp + 28 + blen (fs_meta s) + blen (fs_raw s)) (open_flag s))).
    { assert (Hex : seg_exact s -> lead_positions gp (fs_lead s) (Some (blen src))
                  = Ok (LeadOk (gp + 28 + blen (fs_meta s))
                               (gp + 28 + blen (fs_meta s) + blen (fs_raw s)) (open_flag s))).
      { intros Hex. apply lead_positions_exact; try assumption.
        rewrite Hsrc, data_image_cons, blen_app, blen_data_seg.
        pose proof (blen_nonneg (data_image rest)). pose proof (blen_nonneg tail). lia. }
      destruct Hcase as [Hex'|[Hnil Hopen]]; [apply Hex; exact Hex'|].
      destruct Htl as [->|Hall]; [|apply Hex; apply (Forall_inv Hall)].
      apply (lead_positions_in_file gp s rest); try assumption.
      - rewrite Hsrc. change (blen []) with 0. lia.
      - right. split; assumption. }
    rewrite Hlp in H. cbn [bind] in H.
    assert (Hmd : exists md, read_md src gp (l_toc (fs_lead s)) = Ok md).
    { unfold read_md. destruct (toc_has (l_toc (fs_lead s)) TOC_META) eqn:Em; [|eexists; reflexivity].
      destruct (Hmeta eq_refl) as (es & Hes & Hser).
      unfold src, gp. rewrite drop_meta_data_tail, Hser.
      rewrite parse_metadata_ser by exact Hes. eexists. reflexivity. }
    destruct Hmd as [md Hmd]. rewrite Hmd in H. cbn [bind] in H.
    match type of H with context [seg_step ?a ?b ?c ?d ?e ?f ?g ?h ?i ?j] =>
                         destruct (seg_step a b c d e f g h i j) as [[[objs idx] st']|e'] eqn:Est end;
      cbn [bind] in H; [|discriminate H].
    destruct (seg_step_segments _ _ _ _ _ _ _ _ _ _ _ _ _ Est) as (g & Hsegs & Hsum).
    cbn [set_version rs_segments] in Hsegs.
    assert (Hnp : gp + 28 + blen (fs_meta s) + blen (fs_raw s) = blen (data_image (done ++ [s]))).
    { unfold gp. rewrite data_image_app, blen_app. cbn [data_image flat_map].
      rewrite app_nil_r, blen_data_seg. lia. }
    rewrite Hnp in H.
    unfold src in H. replace (done ++ s :: rest) with ((done ++ [s]) ++ rest) in H
      by (rewrite <- app_assoc; reflexivity).
    apply IH in H; try assumption.
    + rewrite H, Hsegs, map_app, <- app_assoc. cbn [map app expected]. rewrite Hsum.
      fold gp. rewrite <- Hnp. reflexivity.
    + destruct Htl as [Htl|Htl]; [left; exact Htl|right; apply (Forall_inv_tail Htl)].
Qed.

(* ---- cutting a file ------------------------------------------------------------ *)

Lemma take_app_le j (a b : bytes) : j <= blen a -> take j (a ++ b) = take j a.
Proof.
  intros H. rewrite !take_firstn, firstn_app.
  replace (Z.to_nat j - length a)%nat with 0%nat by (unfold blen in H; lia).
  cbn [firstn]. apply app_nil_r.
Qed.

Lemma take_app_ge j (a b : bytes) : blen a <= j -> take j (a ++ b) = a ++ take (j - blen a) b.
Proof.
  intros H. rewrite !take_firstn, firstn_app. unfold blen in *.
  rewrite firstn_all2 by lia. f_equal. f_equal. lia.
Qed.

Lemma blen_take j (x : bytes) : 0 <= j <= blen x -> blen (take j x) = j.
Proof. intros H. rewrite take_firstn. unfold blen in *. rewrite firstn_length. lia. Qed.

Definition cut_seg (s : fseg) (j : Z) : fseg :=
  mkFseg (fs_lead s) (fs_meta s) (take j (fs_raw s)).

(* the segments the reader keeps of a file cut to [k] bytes: a segment whose
   metadata is not complete is dropped with everything after it; a segment whose
   raw data is cut ends at the cut and is flagged; segments before are unchanged *)
Fixpoint cut_expected (gp : Z) (segs : list fseg) (k : Z) : list (Z * Z * Z * bool) :=
  match segs with
  | [] => []
  | s :: r =>
    let dp := gp + 28 + blen (fs_meta s) in
    let np := dp + blen (fs_raw s) in
    if k <? dp then []
    else (gp, dp, Z.min k np, open_flag s || (k <? np))
           :: (if k <? np then [] else cut_expected np r k)
  end.

Lemma lead_ok_raw_le_next s :
  lead_ok s -> seg_exact s \/ seg_open s -> l_raw (fs_lead s) <= l_next (fs_lead s).
Proof.
  intros (Hwf & Hraw & _) Hcase. pose proof (blen_nonneg (fs_raw s)).
  unfold wf_leadin in Hwf. cbn [retag l_tag l_toc l_version l_next l_raw] in Hwf.
  unfold is_u64 in Hwf.
  destruct Hcase as [[Hn _]|[Hm|Hle]]; lia.
Qed.

Lemma cut_decompose : forall segs j,
  segs_ok segs -> 0 <= j <= blen (data_image segs) ->
  exists kept tail,
    take j (data_image segs) = data_image kept ++ tail /\
    segs_ok kept /\ (tail = [] \/ Forall seg_exact kept) /\ tail_stops tail /\
    forall gp, expected gp kept = cut_expected gp segs (gp + j).
Proof.
  induction segs as [|s r IH]; intros j Hok Hj.
  - exists [], []. change (blen (data_image [])) with 0 in Hj.
    split; [cbn; rewrite take_firstn; apply firstn_nil|].
    split; [exact I|]. split; [left; reflexivity|]. split; [left; cbn; lia|]. reflexivity.
  - destruct Hok as (Hlead & Hcase & Hrest).
    rewrite data_image_cons, blen_app, blen_data_seg in Hj.
    pose proof (blen_nonneg (fs_meta s)) as HM. pose proof (blen_nonneg (fs_raw s)) as HR.
    pose proof (blen_nonneg (data_image r)) as Hr.
    set (lead := ser_leadin (retag TAG_DATA (fs_lead s))).
    assert (Hll : blen lead = 28) by (apply blen_ser_leadin_retag, blen_TAG_DATA).
    rewrite data_image_cons. unfold data_seg. fold lead.
    destruct (Z_lt_le_dec j (28 + blen (fs_meta s))) as [HA|HA].
    + (* cut inside the lead-in or the metadata *)
      exists [], (take j (lead ++ fs_meta s)).
      split.
      { cbn [data_image flat_map app]. rewrite <- !app_assoc, (app_assoc lead).
        apply take_app_le. rewrite blen_app. lia. }
      split; [exact I|]. split; [right; constructor|].
      split.
      { destruct (Z_lt_le_dec j 28) as [Hs|Hs].
        - left. rewrite blen_take by (rewrite blen_app; lia). exact Hs.
        - right. exists (fs_lead s), (take (j - 28) (fs_meta s)).
          split; [rewrite take_app_ge by lia; rewrite Hll; reflexivity|].
          destruct Hlead as (Hwf & Hraw & Hm).
          split; [exact Hwf|]. split; [rewrite blen_take by lia; lia|].
          apply lead_ok_raw_le_next; [split; [|split]; assumption|].
          destruct Hcase as [H|[_ H]]; [left|right]; exact H. }
      intros gp. cbn [expected cut_expected]. replace (gp + j <? _) with true by lia. reflexivity.
    + destruct (Z_lt_le_dec j (28 + blen (fs_meta s) + blen (fs_raw s))) as [HB|HB].
      * (* cut inside the raw data *)
        exists [cut_seg s (j - 28 - blen (fs_meta s))], [].
        assert (Hbr : blen (take (j - 28 - blen (fs_meta s)) (fs_raw s)) = j - 28 - blen (fs_meta s))
          by (apply blen_take; lia).
        split.
        { cbn [data_image flat_map]. unfold data_seg, cut_seg. cbn [fs_lead fs_meta fs_raw]. fold lead.
          rewrite !app_nil_r. rewrite <- !app_assoc, (app_assoc lead).
          rewrite take_app_ge by (rewrite blen_app; lia). rewrite <- app_assoc. f_equal. f_equal.
          rewrite blen_app, Hll. replace (j - (28 + blen (fs_meta s))) with (j - 28 - blen (fs_meta s)) by lia.
          apply take_app_le. lia. }
        split.
        { cbn [segs_ok]. split; [exact Hlead|]. split; [|exact I]. right. split; [reflexivity|].
          unfold seg_open, cut_seg. cbn [fs_lead fs_meta fs_raw]. rewrite Hbr.
          destruct Hcase as [[Hn _]|[_ [Hm|Hle]]]; [right; lia|left; exact Hm|right; lia]. }
        split; [left; reflexivity|]. split; [left; cbn; lia|].
        intros gp. cbn [expected cut_expected]. unfold open_flag, cut_seg. cbn [fs_lead fs_meta fs_raw].
        rewrite Hbr.
        replace (gp + j <? gp + 28 + blen (fs_meta s)) with false by lia.
        replace (gp + j <? gp + 28 + blen (fs_meta s) + blen (fs_raw s)) with true by lia.
        rewrite orb_true_r, Z.min_l by lia.
        replace (gp + 28 + blen (fs_meta s) + (j - 28 - blen (fs_meta s))) with (gp + j) by lia.
        f_equal. f_equal.
        destruct Hcase as [[Hn _]|[_ [Hm|Hle]]].
        -- replace (_ <? l_next (fs_lead s)) with true by lia. apply orb_true_r.
        -- rewrite Hm. reflexivity.
        -- replace (_ <? l_next (fs_lead s)) with true by lia. apply orb_true_r.
      * (* the whole segment survives *)
        assert (Hexp : forall gp kept_r,
                   expected (gp + 28 + blen (fs_meta s) + blen (fs_raw s)) kept_r
                   = cut_expected (gp + 28 + blen (fs_meta s) + blen (fs_raw s)) r (gp + j) ->
                   expected gp (s :: kept_r) = cut_expected gp (s :: r) (gp + j)).
        { intros gp kept_r H. cbn [expected cut_expected].
          replace (gp + j <? gp + 28 + blen (fs_meta s)) with false by lia.
          replace (gp + j <? gp + 28 + blen (fs_meta s) + blen (fs_raw s)) with false by lia.
          rewrite orb_false_r, Z.min_r by lia. f_equal. exact H. }
        assert (Htake : forall x, take j ((lead ++ fs_meta s ++ fs_raw s) ++ x)
                                  = (lead ++ fs_meta s ++ fs_raw s)
                                      ++ take (j - (28 + blen (fs_meta s) + blen (fs_raw s))) x).
        { intros x. rewrite take_app_ge by (rewrite !blen_app; lia).
          rewrite !blen_app, Hll. f_equal. f_equal. lia. }
        destruct Hcase as [Hex|[Hnil Hopen]].
        -- destruct (IH (j - (28 + blen (fs_meta s) + blen (fs_raw s))) Hrest ltac:(lia))
            as (kept & tail & Htk & Hkok & Htl & Hts & Hexp').
           exists (s :: kept), tail.
           split.
           { rewrite Htake, Htk, data_image_cons. unfold data_seg. fold lead.
             rewrite <- !app_assoc. reflexivity. }
           split; [cbn [segs_ok]; split; [exact Hlead|]; split; [left; exact Hex|exact Hkok]|].
           split; [destruct Htl as [Htl|Htl]; [left; exact Htl|right; constructor; assumption]|].
           split; [exact Hts|].
           intros gp. apply Hexp. rewrite Hexp'. f_equal. lia.
        -- subst r. change (blen (data_image [])) with 0 in Hj.
           exists [s], [].
           split.
           { rewrite Htake. cbn [data_image flat_map]. unfold data_seg. fold lead.
             rewrite take_firstn, firstn_nil, !app_nil_r. reflexivity. }
           split; [cbn [segs_ok]; split; [exact Hlead|]; split; [right; split; [reflexivity|exact Hopen]|exact I]|].
           split; [left; reflexivity|]. split; [left; cbn; lia|].
           intros gp. apply Hexp. reflexivity.
Qed.

(* A6, composed: the segments (position, data position, end, incomplete flag)
   the metadata pass finds in a well-formed file cut to [k] bytes *)
Theorem cut_file_segments segs k w st :
  forall (Hok : segs_ok segs) (Hk : 0 <= k <= blen (data_image segs))
         (Hread : rd_metadata (take k (data_image segs)) false (Some k) w = Ok st),
    map seg_summary (rs_segments st) = cut_expected 0 segs k.
Proof.
  intros. destruct (cut_decompose segs k Hok Hk) as (kept & tail & Htk & Hkok & Htl & Hts & Hexp).
  unfold rd_metadata in Hread.
  assert (Hlen : Some k = Some (blen (data_image ([] ++ kept) ++ tail))).
  { cbn [app]. rewrite <- Htk, blen_take by exact Hk. reflexivity. }
  rewrite Htk, Hlen in Hread.
  change (data_image kept) with (data_image ([] ++ kept)) in Hread at 2.
  change 0 with (blen (data_image [])) in Hread.
  apply (md_loop_summary w kept []) in Hread; try assumption.
  rewrite Hread. cbn [rstate0 rs_segments map app]. change (blen (data_image [])) with 0.
  rewrite Hexp. reflexivity.
Qed.

(* ---- the incomplete flag file_status reports ------------------------------------ *)

(* TdmsFile.file_status looks at the last segment (Model/Reader.v: obs_status) *)
Definition last_incomplete (st : rstate) : bool :=
  match rev (rs_segments st) with [] => false | g :: _ => sg_incomplete g end.

Definition last_flag (l : list (Z * Z * Z * bool)) : bool :=
  match rev l with [] => false | x :: _ => snd x end.

(* the cut is inside the raw data of some segment (data position <= k < end) *)
Fixpoint in_raw (gp : Z) (segs : list fseg) (k : Z) : bool :=
  match segs with
  | [] => false
  | s :: r =>
    let dp := gp + 28 + blen (fs_meta s) in
    let np := dp + blen (fs_raw s) in
    ((dp <=? k) && (k <? np)) || in_raw np r k
  end.

Lemma last_flag_cons x l : snd x = false -> last_flag (x :: l) = last_flag l.
Proof.
  intros Hx. unfold last_flag. cbn [rev]. destruct (rev l) as [|y t] eqn:E.
  - cbn. exact Hx.
  - reflexivity.
Qed.

Lemma in_raw_before segs : forall gp k, k < gp -> in_raw gp segs k = false.
Proof.
  induction segs as [|s r IH]; intros gp k H; [reflexivity|]. cbn [in_raw].
  pose proof (blen_nonneg (fs_meta s)). pose proof (blen_nonneg (fs_raw s)).
  rewrite IH by lia. replace (_ <=? k) with false by lia. reflexivity.
Qed.

Lemma seg_exact_flag s : seg_exact s -> open_flag s = false.
Proof.
  intros [Hn Hm]. unfold open_flag. apply Z.eqb_neq in Hm. rewrite Hm.
  replace (_ <? _) with false by lia. reflexivity.
Qed.

Lemma cut_expected_last_flag segs : forall gp k,
  Forall seg_exact segs -> last_flag (cut_expected gp segs k) = in_raw gp segs k.
Proof.
  induction segs as [|s r IH]; intros gp k Hex; [reflexivity|].
  cbn [cut_expected in_raw].
  pose proof (blen_nonneg (fs_meta s)). pose proof (blen_nonneg (fs_raw s)).
  rewrite (seg_exact_flag s (Forall_inv Hex)). cbn [orb].
  destruct (k <? gp + 28 + blen (fs_meta s)) eqn:E1.
  - rewrite in_raw_before by lia. replace (_ <=? k) with false by lia. reflexivity.
  - replace (_ <=? k) with true by lia. cbn [andb].
    destruct (k <? gp + 28 + blen (fs_meta s) + blen (fs_raw s)) eqn:E2.
    + reflexivity.
    + cbn [orb]. rewrite last_flag_cons by reflexivity. apply IH. apply (Forall_inv_tail Hex).
Qed.

Lemma cut_expected_earlier_false segs : forall gp k l0 x,
  Forall seg_exact segs -> cut_expected gp segs k = l0 ++ [x] ->
  Forall (fun y => snd y = false) l0.
Proof.
  induction segs as [|s r IH]; intros gp k l0 x Hex H.
  - destruct l0; discriminate H.
  - cbn [cut_expected] in H. rewrite (seg_exact_flag s (Forall_inv Hex)) in H. cbn [orb] in H.
    destruct (k <? gp + 28 + blen (fs_meta s)); [destruct l0; discriminate H|].
    destruct (k <? gp + 28 + blen (fs_meta s) + blen (fs_raw s)) eqn:E2.
    + destruct l0 as [|y l0]; [constructor|]. injection H as _ H. destruct l0; discriminate H.
    + destruct l0 as [|y l0]; [constructor|]. injection H as <- H.
      constructor; [reflexivity|]. apply (IH _ _ _ _ (Forall_inv_tail Hex) H).
Qed.

Lemma data_off_cons s r i :
  data_off (s :: r) (S i) = 28 + blen (fs_meta s) + blen (fs_raw s) + data_off r i.
Proof. unfold data_off. cbn [firstn map]. rewrite zsum_cons. reflexivity. Qed.

Lemma in_raw_spec segs : forall gp k,
  in_raw gp segs k = true <->
  exists i s, nth_error segs i = Some s /\
              gp + data_off segs i + 28 + blen (fs_meta s) <= k < gp + data_off segs (S i).
Proof.
  induction segs as [|s r IH]; intros gp k.
  - cbn [in_raw]. split; [discriminate|]. intros ([|i] & s & H & _); discriminate H.
  - cbn [in_raw]. rewrite orb_true_iff, IH. split.
    + intros [H|(i & s' & Hn & Hr)].
      * exists 0%nat, s. split; [reflexivity|]. rewrite data_off_cons.
        change (data_off (s :: r) 0) with 0. change (data_off r 0) with 0. lia.
      * exists (S i), s'. split; [exact Hn|]. rewrite !data_off_cons. lia.
    + intros ([|i] & s' & Hn & Hr).
      * left. injection Hn as <-. rewrite data_off_cons in Hr.
        change (data_off (s :: r) 0) with 0 in Hr. change (data_off r 0) with 0 in Hr. lia.
      * right. exists i, s'. split; [exact Hn|]. rewrite !data_off_cons in Hr. lia.
Qed.

(* A6: for a file whose next-segment offsets are all explicit and exact, the
   last segment the reader keeps is flagged incomplete exactly when the cut
   falls inside some segment's raw data; no earlier segment is flagged *)
Theorem cut_file_incomplete_iff segs k w st :
  forall (Hok : segs_ok segs) (Hexact : Forall seg_exact segs)
         (Hk : 0 <= k <= blen (data_image segs))
         (Hread : rd_metadata (take k (data_image segs)) false (Some k) w = Ok st),
    (last_incomplete st = true <->
     exists i s, nth_error segs i = Some s /\
                 data_off segs i + 28 + blen (fs_meta s) <= k < data_off segs (S i)) /\
    (forall gs g, rs_segments st = gs ++ [g] -> Forall (fun x => sg_incomplete x = false) gs).
Proof.
  intros. pose proof (cut_file_segments segs k w st Hok Hk Hread) as Hsum.
  split.
  - assert (Hl : last_incomplete st = last_flag (map seg_summary (rs_segments st))).
    { unfold last_incomplete, last_flag. rewrite <- map_rev.
      destruct (rev (rs_segments st)); reflexivity. }
    rewrite Hl, Hsum, cut_expected_last_flag by exact Hexact.
    rewrite in_raw_spec. split; intros (i & s & Hn & Hr); exists i, s; (split; [exact Hn|lia]).
  - intros gs g Hsegs. rewrite Hsegs, map_app in Hsum. cbn [map] in Hsum. symmetry in Hsum.
    apply cut_expected_earlier_false in Hsum; [|exact Hexact].
    rewrite Forall_map in Hsum. exact Hsum.
Qed.

Theorem truncation_prefix_partial segs k w st :
  forall (Hok : segs_ok segs) (Hexact : Forall seg_exact segs)
         (Hk : 0 <= k <= blen (data_image segs))
         (Hread : rd_metadata (take k (data_image segs)) false (Some k) w = Ok st),
    map seg_summary (rs_segments st) = cut_expected 0 segs k /\
    (last_incomplete st = true <->
     exists i s, nth_error segs i = Some s /\
                 data_off segs i + 28 + blen (fs_meta s) <= k < data_off segs (S i)) /\
    (forall gs g, rs_segments st = gs ++ [g] -> Forall (fun x => sg_incomplete x = false) gs).
Proof.
  intros. split; [apply (cut_file_segments segs k w st); assumption|].
  apply (cut_file_incomplete_iff segs k w st); assumption.
Qed.

(* ---- a concrete instance ------------------------------------------------------ *)

Module IndexExample.
  Definition path : bytes := [x2f; x27; x67; x27; x2f; x27; x63; x27].   (* /'g'/'c' *)
  Definition es : list entry := [mkEntry path (IFull 20 3 1 2 None) []].  (* 2 x int32 per chunk *)
  Definition meta : bytes := ser_metadata LE es.
  Definition raw (n : nat) : bytes := repeat x01 n.
  (* segment 1: metadata + new object list + raw data, one chunk;
     segment 2: raw data only (no metadata), two chunks;
     segment 3: as 2, declared as three chunks but the file ends after 13 bytes *)
  Definition segs : list fseg :=
    [ mkFseg (mkLeadin TAG_DATA 14 4713 (blen meta + 8) (blen meta)) meta (raw 8);
      mkFseg (mkLeadin TAG_DATA 8 4713 16 0) [] (raw 16);
      mkFseg (mkLeadin TAG_DATA 8 4713 24 0) [] (raw 13) ].

  Lemma segs_are_ok : segs_ok segs.
  Proof.
    cbn [segs segs_ok]. repeat split; try reflexivity.
    - intros _. exists es. split; reflexivity.
    - left. split; [reflexivity|discriminate].
    - intros H; discriminate H.
    - left. split; [reflexivity|discriminate].
    - intros H; discriminate H.
    - right. split; [reflexivity|]. right. vm_compute. discriminate.
  Qed.

  Example offsets :
    blen meta = 40 /\
    map (index_off segs) [0; 1; 2; 3]%nat = [0; 68; 96; 124] /\
    map (data_off segs) [0; 1; 2; 3]%nat = [0; 76; 120; 161].
  Proof. vm_compute. repeat split. Qed.

  (* lengths: 2 values, then 2 chunks of 2, then one chunk of 2 and one value
     of the cut chunk (5 bytes / 4) *)
  Example transparent :
    let n := blen (data_image segs) in
    rd_metadata (index_image segs) true (Some n) false = rd_metadata (data_image segs) false (Some n) false /\
    match rd_metadata (index_image segs) true (Some n) false with
    | Ok st => map (fun g => (sg_pos g, sg_data g, sg_next g, sg_nchunks g, sg_incomplete g)) (rs_segments st)
               = [(0, 68, 76, 1, false); (76, 104, 120, 2, false); (120, 148, 161, 2, true)] /\
               map (fun kv => om_len (snd kv)) (rs_om st) = [9]
    | Err _ => False
    end.
  Proof. vm_compute. repeat split. Qed.

  Definition cut_summary (k : Z) :=
    match rd_metadata (take k (data_image segs)) false (Some k) false with
    | Ok st => Some (map seg_summary (rs_segments st), last_incomplete st)
    | Err _ => None
    end.
  (* cuts inside the first lead-in, the first metadata, at the start of / inside
     the first raw data, on the boundary, inside the second lead-in, ... *)
  Example cuts :
    map cut_summary [20; 50; 68; 70; 76; 90; 104; 110; 120; 150]
    = [Some ([], false); Some ([], false);
       Some ([(0, 68, 68, true)], true); Some ([(0, 68, 70, true)], true);
       Some ([(0, 68, 76, false)], false); Some ([(0, 68, 76, false)], false);
       Some ([(0, 68, 76, false); (76, 104, 104, true)], true);
       Some ([(0, 68, 76, false); (76, 104, 110, true)], true);
       Some ([(0, 68, 76, false); (76, 104, 120, false)], false);
       Some ([(0, 68, 76, false); (76, 104, 120, false); (120, 148, 150, true)], true)] /\
    map (fun k => Some (cut_expected 0 segs k, last_flag (cut_expected 0 segs k)))
        [20; 50; 68; 70; 76; 90; 104; 110; 120; 150]
    = map cut_summary [20; 50; 68; 70; 76; 90; 104; 110; 120; 150].
  Proof. vm_compute. split; reflexivity. Qed.
End IndexExample.
