(* C12 carried through the file: timestamps written are the timestamps read.

   The writer model (Model/Writer.v) takes typed values as bytes: a timestamp
   property / channel value is its 16 bytes with TDMS type 0x44, "supplied by
   the harness".  Here the supply is made explicit and proved: the Python-level
   values

       np.datetime64 / datetime (microsecond count d since 1970)   TPDatetime, TDDatetimes
       TdmsTimestamp(seconds, second_fractions) / TimestampArray   TPRaw, TDRaw

   are lowered with the C12 encoder of Model/Timestamp.v ([enc_dt] =
   TimeStamp.__init__, [wr_ts LE] = struct.pack('<Qq', fractions, seconds) =
   TdmsTimestamp.bytes = the little-endian record layout of TimestampArray) to
   the writer model's typed values ([lower_ts_file], on top of
   Writer.lower_obj), written with [wr_file], read with [rd_all], and decoded
   with the C12 decoder ([rd_ts LE] = TimeStamp.read / from_bytes, [dec_dt] =
   TdmsTimestamp.as_datetime64('us'), [conv_array Rus] =
   TimestampArray.as_datetime64('us')).

   Empty datetime / timestamp arrays have no determinable TDMS type
   (ChannelObject.data_type falls through to Void; fix D7): they are lowered to
   Void data, as the real writer does.

   Contents:
     A  the codec against the writer's typed value and the reader's observation;
     B  the Python-level layer and its lowering;
     C  transfer: what the lowered calls contain, from what was passed in;
     D  properties: the last value written under a name is the value read;
     E  the file theorems (write -> read);
     F  write -> read -> defragment -> read.
   Integer statements only (no Reals). *)
From Coq Require Import List ZArith Bool Lia.
From Coq Require Import Init.Byte.
Import ListNotations.
From NpTdms Require Import Base.Bytes Base.Res Model.Timestamp Proofs.TimestampProofs.
From NpTdms Require Import Model.Path Model.Tokens Model.TokensWf Model.ByteStr
  Model.StrictParse Model.Writer Model.Defrag Proofs.PathProofs Proofs.ByteStrProofs Proofs.WriterProofs.
From NpTdms Require Import Model.SegState Model.Layout Model.Reader Model.FileSyn
  Proofs.SegStateProofs Proofs.LayoutProofs Proofs.ReadCorrect
  Proofs.WriteReadSpec Proofs.WriteReadBytes Proofs.WriteReadState
  Proofs.WriteReadHier Proofs.WriteReadData Proofs.WriteReadCalls Proofs.WriteRead Proofs.DefragRead
  Proofs.NamesFile.
Local Open Scope Z_scope.

(* ================================================================================================= *)
(* A.  codec <-> typed value <-> observation                                                          *)
(* ================================================================================================= *)

(* TdmsTimestamp(s, f).bytes; struct.error outside the 'q' / 'Q' ranges *)
Definition ts_bytes (sf : Z * Z) : res bytes :=
  match wr_ts LE (fst sf) (snd sf) with
  | Some b => Ok b
  | None => Err EStruct
  end.

(* TimeStamp(np.datetime64(d, 'us')).bytes *)
Definition dt_bytes (d : Z) : res bytes := ts_bytes (enc_dt d).

(* the datetime64[us] values the model of TimeStamp.__init__ / as_datetime64 is
   faithful for: d - epoch fits int64 (encoding) and the start of d's second
   fits int64 (the one intermediate NumPy forms when decoding) - the
   hypotheses of Props/C12.v ts_roundtrip_datetime64 *)
Definition dt_ok (d : Z) : Prop :=
  - 2 ^ 63 <= d - TDMS_EPOCH_US < 2 ^ 63 /\ - 2 ^ 63 + 1000000 <= d.

Lemma i64b_inv s : i64b s = true -> in_i64 s.
Proof. unfold i64b, in_i64. intros H. apply andb_prop in H. destruct H as [H1 H2]. lia. Qed.

Lemma u64b_inv f : u64b f = true -> in_u64 f.
Proof. unfold u64b, in_u64. intros H. apply andb_prop in H. destruct H as [H1 H2]. lia. Qed.

(* an accepted timestamp is 16 bytes that read back, bit for bit, as the fields
   passed in (both fields are in range BECAUSE the writer accepted them) *)
Lemma ts_bytes_inv sf b :
  ts_bytes sf = Ok b ->
  length b = 16%nat /\ rd_ts LE b = Some sf /\ in_i64 (fst sf) /\ in_u64 (snd sf).
Proof.
  destruct sf as [s f]. unfold ts_bytes. cbn [fst snd].
  destruct (wr_ts LE s f) as [b0|] eqn:E; [|discriminate]. intros H. injection H as ->.
  assert (Hr : in_i64 s /\ in_u64 f).
  { unfold wr_ts in E. destruct (i64b s && u64b f) eqn:R; [|discriminate].
    apply andb_prop in R. destruct R as [R1 R2]. split; [apply i64b_inv|apply u64b_inv]; assumption. }
  destruct Hr as [Hs Hf].
  destruct (raw_bytes_roundtrip LE s f Hf Hs) as (b' & Hw & Hl & Hrd).
  rewrite E in Hw. injection Hw as Hw. subst b'. split; [exact Hl|]. split; [exact Hrd|]. split; [exact Hs|exact Hf].
Qed.

Lemma ts_bytes_ok sf : in_i64 (fst sf) -> in_u64 (snd sf) -> exists b, ts_bytes sf = Ok b.
Proof.
  destruct sf as [s f]. cbn [fst snd]. intros Hs Hf.
  destruct (raw_bytes_roundtrip LE s f Hf Hs) as (b & Hw & _). exists b.
  unfold ts_bytes. cbn [fst snd]. rewrite Hw. reflexivity.
Qed.

(* datetimes in the supported range are always accepted *)
Lemma dt_bytes_ok d : dt_ok d -> exists b, dt_bytes d = Ok b.
Proof.
  intros [Hd _]. unfold dt_bytes, enc_dt.
  destruct (enc_us_ranges _ Hd) as [Hs Hf]. apply ts_bytes_ok; assumption.
Qed.

(* what the C12 decoders make of the fields of an encoded datetime *)
Lemma dt_decodes d :
  dt_ok d ->
  dec_dt (enc_dt d) = d /\ conv_array Rus (fst (enc_dt d)) (snd (enc_dt d)) = d /\
  in_i64 ((EPOCH_S + fst (enc_dt d)) * 1000000).
Proof.
  intros [Hd Hlow]. split; [apply dec_enc_dt|]. split; [apply dec_enc_dt_array; exact Hd|].
  rewrite enc_dt_second_start. unfold in_i64 in *. unfold TDMS_EPOCH_US in Hd.
  pose proof (Z.mul_div_le d 1000000 ltac:(lia)) as H1.
  pose proof (Z.mod_pos_bound d 1000000 ltac:(lia)) as H2.
  pose proof (Z.div_mod d 1000000 ltac:(lia)) as H3. lia.
Qed.

(* the reader's view of a timestamp property value (raw_timestamps=True):
   [4; seconds; second_fractions] *)
Lemma read_at_8_8 b : length b = 16%nat -> read_at 8 8 b = drop 8 b.
Proof.
  intros Hb. unfold read_at. rewrite take_firstn, drop_skipn.
  change (Z.to_nat 8) with 8%nat. apply firstn_all2. rewrite skipn_length, Hb. apply le_n.
Qed.

Lemma read_at_0_8 b : read_at 0 8 b = take 8 b.
Proof. unfold read_at. rewrite drop_skipn. reflexivity. Qed.

Lemma obs_ts_value b s f :
  rd_ts LE b = Some (s, f) -> obs_prop_value T_TIME b = [TZ 4; TZ s; TZ f].
Proof.
  unfold rd_ts. destruct (length b =? 16)%nat eqn:Hlen; [|discriminate].
  apply Nat.eqb_eq in Hlen. intros H. injection H as <- <-.
  rewrite (read_at_8_8 b Hlen), read_at_0_8. reflexivity.
Qed.

(* ================================================================================================= *)
(* B.  the Python-level layer                                                                          *)
(* ================================================================================================= *)

Inductive tsprop :=
| TPPy (p : pyprop)                          (* anything Model/Writer.v already lowers *)
| TPDatetime (name : bytes) (d : Z)          (* datetime / np.datetime64: microseconds since 1970 *)
| TPRaw (name : bytes) (s f : Z).            (* TdmsTimestamp(seconds, second_fractions) *)

Inductive tsdata :=
| TDPy (d : pydata)
| TDDatetimes (ds : list Z)                  (* array of datetime64[us] *)
| TDRaw (l : list (Z * Z)).                  (* TimestampArray / list of TdmsTimestamp: (seconds, fractions) *)

Inductive tsobj :=
| TsRoot (ps : list tsprop)
| TsGroup (g : bytes) (ps : list tsprop)
| TsChan (g c : bytes) (d : tsdata) (ps : list tsprop).

Definition tssessions := list (Z * list (list tsobj)).

(* _to_tdms_value: TimeStamp(value) / the TdmsTimestamp itself; type 0x44, .bytes *)
Definition ts_prop (n : bytes) (sf : Z * Z) : res pyprop :=
  do b <- ts_bytes sf; Ok (PPTyped (mkProp n T_TIME b)).

Definition lower_tsprop (p : tsprop) : res pyprop :=
  match p with
  | TPPy p => Ok p
  | TPDatetime n d => ts_prop n (enc_dt d)
  | TPRaw n s f => ts_prop n (s, f)
  end.

(* ChannelObject.data_type: TimeStamp / TdmsTimestamp from data[0]; IndexError
   on empty data -> Void (no raw data).  write_data: write_values joins the
   .bytes of every value; a TimestampArray is dumped as is - the same bytes *)
Definition ts_data (l : list (Z * Z)) : res pydata :=
  match l with
  | [] => Ok (PDTyped T_VOID [])
  | _ :: _ => do vs <- mapM ts_bytes l; Ok (PDTyped T_TIME vs)
  end.

Definition lower_tsdata (d : tsdata) : res pydata :=
  match d with
  | TDPy d => Ok d
  | TDDatetimes ds => ts_data (map enc_dt ds)
  | TDRaw l => ts_data l
  end.

Definition lower_tsobj (o : tsobj) : res pyobj :=
  match o with
  | TsRoot ps => do ps' <- mapM lower_tsprop ps; Ok (PyRoot ps')
  | TsGroup g ps => do ps' <- mapM lower_tsprop ps; Ok (PyGroup g ps')
  | TsChan g c d ps => do d' <- lower_tsdata d; do ps' <- mapM lower_tsprop ps; Ok (PyChan g c d' ps')
  end.

(* down to the writer model's objects, through Writer.lower_obj *)
Definition lower_ts_obj (o : tsobj) : res wobj := do p <- lower_tsobj o; lower_obj p.

Definition lower_ts_file (tpy : tssessions) : res wsessions :=
  mapM (fun s => let '(v, calls) := s in
                 do calls' <- mapM (mapM lower_ts_obj) calls; Ok (v, calls')) tpy.

(* ---- what was passed in, by name ------------------------------------------------------------------ *)

Definition ts_written (tpy : tssessions) : list tsobj := concat (flat_map snd tpy).

Definition ts_kind_of (o : tsobj) : pkind :=
  match o with
  | TsRoot _ => KRoot
  | TsGroup g _ => KGroup g
  | TsChan g c _ _ => KChan g c
  end.

Definition ts_props (o : tsobj) : list tsprop :=
  match o with TsRoot ps => ps | TsGroup _ ps => ps | TsChan _ _ _ ps => ps end.

Definition pkind_eqb (a b : pkind) : bool :=
  match a, b with
  | KRoot, KRoot => true
  | KGroup g, KGroup g' => bytes_eqb g g'
  | KChan g c, KChan g' c' => bytes_eqb g g' && bytes_eqb c c'
  | _, _ => false
  end.

(* the data arguments of all ChannelObject(g, c, data, ..) passed in, in order *)
Definition ts_chan_data (g c : bytes) (o : tsobj) : list tsdata :=
  match o with
  | TsChan g' c' d _ => if pkind_eqb (KChan g c) (KChan g' c') then [d] else []
  | _ => []
  end.

Definition ts_writes (g c : bytes) (tpy : tssessions) : list tsdata :=
  flat_map (ts_chan_data g c) (ts_written tpy).

Definition tsprop_name (p : tsprop) : bytes :=
  match p with
  | TPPy (PPInt n _) => n
  | TPPy (PPTyped q) => p_name q
  | TPDatetime n _ => n
  | TPRaw n _ _ => n
  end.

(* the values given to property n of the object with identity k, over all calls
   in order (the last one is the one a reader should see) *)
Definition ts_prop_writes (k : pkind) (n : bytes) (tpy : tssessions) : list tsprop :=
  flat_map (fun o => if pkind_eqb k (ts_kind_of o)
                     then filter (fun p => bytes_eqb n (tsprop_name p)) (ts_props o) else [])
           (ts_written tpy).

(* ================================================================================================= *)
(* C.  transfer                                                                                        *)
(* ================================================================================================= *)

Lemma mapM_Forall2 {A B} (f : A -> res B) : forall l l',
  mapM f l = Ok l' -> Forall2 (fun a b => f a = Ok b) l l'.
Proof.
  induction l as [|a l IH]; intros l' H; cbn [mapM] in H.
  - injection H as <-. constructor.
  - destruct (f a) as [b|] eqn:Ea; [|discriminate]. cbn [bind] in H.
    destruct (mapM f l) as [bs|] eqn:El; [|discriminate]. cbn [bind] in H. injection H as <-.
    constructor; [exact Ea|apply IH; reflexivity].
Qed.

Lemma Forall2_concat {A B} (R : A -> B -> Prop) : forall ll ll',
  Forall2 (Forall2 R) ll ll' -> Forall2 R (concat ll) (concat ll').
Proof. induction 1; cbn [concat]; [constructor|apply Forall2_app; assumption]. Qed.

Definition lowers (o : tsobj) (o' : wobj) : Prop := lower_ts_obj o = Ok o'.

Lemma lower_ts_file_written tpy ss :
  lower_ts_file tpy = Ok ss -> Forall2 lowers (ts_written tpy) (written ss).
Proof.
  intros H. unfold ts_written, written, all_calls. apply Forall2_concat.
  apply mapM_Forall2 in H. induction H as [|[v calls] [v' calls'] tpy ss Hs _ IH]; [constructor|].
  cbn [flat_map snd]. apply Forall2_app; [|exact IH].
  destruct (mapM (mapM lower_ts_obj) calls) as [cs|] eqn:E; [|discriminate]. cbn [bind] in Hs.
  injection Hs as <- <-. apply mapM_Forall2 in E.
  induction E as [|objs objs' calls cs Ho _ IHc]; constructor; [|exact IHc].
  apply mapM_Forall2. exact Ho.
Qed.

Definition lowers_prop (p : tsprop) (p' : prop) : Prop :=
  (do q <- lower_tsprop p; lower_prop q) = Ok p'.

Lemma mapM_compose {A B C} (f : A -> res B) (h : B -> res C) : forall l m n,
  mapM f l = Ok m -> mapM h m = Ok n ->
  Forall2 (fun a c => (do b <- f a; h b) = Ok c) l n.
Proof.
  induction l as [|a l IH]; intros m n Hf Hh; cbn [mapM] in Hf.
  - injection Hf as <-. cbn [mapM] in Hh. injection Hh as <-. constructor.
  - destruct (f a) as [b|] eqn:Ea; [|discriminate]. cbn [bind] in Hf.
    destruct (mapM f l) as [bs|] eqn:El; [|discriminate]. cbn [bind] in Hf. injection Hf as <-.
    cbn [mapM] in Hh. destruct (h b) as [c|] eqn:Eb; [|discriminate]. cbn [bind] in Hh.
    destruct (mapM h bs) as [cs|] eqn:Ebs; [|discriminate]. cbn [bind] in Hh. injection Hh as <-.
    constructor; [rewrite Ea; cbn [bind]; exact Eb|apply (IH bs cs); reflexivity || assumption].
Qed.

(* one object: same identity, properties lowered one by one, and for timestamp
   data the values are the 16-byte encodings *)
Lemma lowers_kind o o' : lowers o o' -> kind_of o' = ts_kind_of o.
Proof.
  unfold lowers, lower_ts_obj. destruct o as [ps|g ps|g c d ps]; cbn [lower_tsobj].
  - destruct (mapM lower_tsprop ps) as [ps1|]; [|discriminate]. cbn [bind lower_obj].
    destruct (mapM lower_prop ps1); [|discriminate]. cbn [bind]. intros H. injection H as <-. reflexivity.
  - destruct (mapM lower_tsprop ps) as [ps1|]; [|discriminate]. cbn [bind lower_obj].
    destruct (mapM lower_prop ps1); [|discriminate]. cbn [bind]. intros H. injection H as <-. reflexivity.
  - destruct (lower_tsdata d) as [d1|]; [|discriminate]. cbn [bind].
    destruct (mapM lower_tsprop ps) as [ps1|]; [|discriminate]. cbn [bind lower_obj].
    destruct (match d1 with PDTyped dt vals => Ok (dt, vals) | PDInts zs => int_list_data zs end)
      as [[dt vals]|]; [|discriminate]. cbn [bind].
    destruct (mapM lower_prop ps1); [|discriminate]. cbn [bind]. intros H. injection H as <-. reflexivity.
Qed.

Lemma lowers_props o o' : lowers o o' -> Forall2 lowers_prop (ts_props o) (obj_props o').
Proof.
  unfold lowers, lower_ts_obj. destruct o as [ps|g ps|g c d ps]; cbn [lower_tsobj ts_props].
  - destruct (mapM lower_tsprop ps) as [ps1|] eqn:E1; [|discriminate]. cbn [bind lower_obj].
    destruct (mapM lower_prop ps1) as [ps2|] eqn:E2; [|discriminate]. cbn [bind].
    intros H. injection H as <-. cbn [obj_props]. exact (mapM_compose _ _ _ _ _ E1 E2).
  - destruct (mapM lower_tsprop ps) as [ps1|] eqn:E1; [|discriminate]. cbn [bind lower_obj].
    destruct (mapM lower_prop ps1) as [ps2|] eqn:E2; [|discriminate]. cbn [bind].
    intros H. injection H as <-. cbn [obj_props]. exact (mapM_compose _ _ _ _ _ E1 E2).
  - destruct (lower_tsdata d) as [d1|]; [|discriminate]. cbn [bind].
    destruct (mapM lower_tsprop ps) as [ps1|] eqn:E1; [|discriminate]. cbn [bind lower_obj].
    destruct (match d1 with PDTyped dt vals => Ok (dt, vals) | PDInts zs => int_list_data zs end)
      as [[dt vals]|]; [|discriminate]. cbn [bind].
    destruct (mapM lower_prop ps1) as [ps2|] eqn:E2; [|discriminate]. cbn [bind].
    intros H. injection H as <-. cbn [obj_props]. exact (mapM_compose _ _ _ _ _ E1 E2).
Qed.

(* the (seconds, fractions) pairs a timestamp-data argument stands for *)
Definition raw_of (d : tsdata) : option (list (Z * Z)) :=
  match d with
  | TDPy _ => None
  | TDDatetimes ds => Some (map enc_dt ds)
  | TDRaw l => Some l
  end.

Definition encodes (sf : Z * Z) (b : bytes) : Prop := ts_bytes sf = Ok b.

Lemma lowers_ts_chan g c d ps o' l :
  lowers (TsChan g c d ps) o' -> raw_of d = Some l ->
  exists vs ps', o' = WChan g c (match l with [] => T_VOID | _ => T_TIME end) vs ps' /\
                 Forall2 encodes l vs.
Proof.
  unfold lowers, lower_ts_obj. cbn [lower_tsobj]. intros H Hr.
  assert (Hd : lower_tsdata d = ts_data l).
  { destruct d as [d|ds|l0]; cbn [raw_of] in Hr; try discriminate; injection Hr as <-; reflexivity. }
  rewrite Hd in H. clear Hd Hr.
  destruct l as [|sf l].
  - cbn [ts_data bind] in H.
    destruct (mapM lower_tsprop ps) as [ps1|]; [|discriminate]. cbn [bind lower_obj] in H.
    destruct (mapM lower_prop ps1) as [ps2|]; [|discriminate]. cbn [bind] in H.
    injection H as <-. exists [], ps2. split; [reflexivity|constructor].
  - cbn [ts_data] in H.
    destruct (mapM ts_bytes (sf :: l)) as [vs|] eqn:Ev; [|discriminate]. cbn [bind] in H.
    destruct (mapM lower_tsprop ps) as [ps1|]; [|discriminate]. cbn [bind lower_obj] in H.
    destruct (mapM lower_prop ps1) as [ps2|]; [|discriminate]. cbn [bind] in H.
    injection H as <-. exists vs, ps2. split; [reflexivity|]. exact (mapM_Forall2 _ _ _ Ev).
Qed.

Lemma pkind_eqb_eq a b : pkind_eqb a b = true <-> a = b.
Proof.
  destruct a as [|g|g c]; destruct b as [|g'|g' c']; cbn [pkind_eqb];
    try (split; [discriminate|intros E; discriminate E]).
  - split; reflexivity.
  - rewrite bytes_eqb_eq. split; [intros ->; reflexivity|intros E; injection E as ->; reflexivity].
  - rewrite andb_true_iff, !bytes_eqb_eq. split.
    + intros [-> ->]. reflexivity.
    + intros E. injection E as -> ->. split; reflexivity.
Qed.

Lemma is_kind_lowers k o o' : lowers o o' -> is_kind k o' = pkind_eqb k (ts_kind_of o).
Proof.
  intros H. rewrite <- (lowers_kind o o' H).
  destruct (is_kind k o') eqn:E1; destruct (pkind_eqb k (kind_of o')) eqn:E2; try reflexivity.
  - apply is_kind_spec in E1. apply pkind_eqb_eq in E1. congruence.
  - apply pkind_eqb_eq in E2. apply is_kind_spec in E2. congruence.
Qed.

(* all data passed for channel (g, c) are timestamp arrays  ==>  the lowered
   calls hold, under (g, c), exactly their encodings, typed TimeStamp *)
Definition ts_types (ls : list (list (Z * Z))) : list Z :=
  flat_map (fun l => match l with [] => [] | _ :: _ => [T_TIME] end) ls.

Lemma chan_transfer g c : forall W W' ls,
  Forall2 lowers W W' ->
  map raw_of (flat_map (ts_chan_data g c) W) = map Some ls ->
  Forall2 encodes (concat ls) (values_by_name g c W') /\
  dtypes_by_name g c W' = ts_types ls.
Proof.
  intros W W' ls HF. revert ls. induction HF as [|o o' W W' Ho _ IH]; intros ls Hd.
  - cbn [flat_map map] in Hd. destruct ls; [|discriminate]. split; [constructor|reflexivity].
  - cbn [flat_map] in Hd. unfold values_by_name, dtypes_by_name. cbn [flat_map].
    unfold by_kind at 1 3. rewrite (is_kind_lowers (KChan g c) o o' Ho).
    destruct o as [ps|g' ps|g' c' d ps]; cbn [ts_chan_data ts_kind_of] in *.
    + cbn [pkind_eqb app]. apply IH. exact Hd.
    + cbn [pkind_eqb app]. apply IH. exact Hd.
    + destruct (pkind_eqb (KChan g c) (KChan g' c')) eqn:E.
      * cbn [app map] in Hd. destruct ls as [|l ls]; [discriminate|]. cbn [map] in Hd.
        injection Hd as Hr Hd. apply pkind_eqb_eq in E. injection E as <- <-.
        destruct (lowers_ts_chan g c d ps o' l Ho Hr) as (vs & ps' & -> & Hvs).
        destruct (IH ls Hd) as [IH1 IH2]. cbn [obj_values obj_dtypes concat ts_types flat_map]. split.
        -- apply Forall2_app; [exact Hvs|exact IH1].
        -- fold (dtypes_by_name g c W'). rewrite IH2. destruct l; reflexivity.
      * cbn [app]. apply IH. exact Hd.
Qed.

Lemma ts_types_hd ls : concat ls <> [] -> hd_error (ts_types ls) = Some T_TIME.
Proof.
  induction ls as [|l ls IH]; cbn [concat ts_types flat_map]; [intros H; contradiction|].
  destruct l as [|x l]; [cbn [app]; exact IH|reflexivity].
Qed.

(* every encoded value decodes, bit for bit, to the pair it encodes *)
Lemma encodes_decode l vs :
  Forall2 encodes l vs ->
  map (rd_ts LE) vs = map Some l /\ Forall (fun b => length b = 16%nat) vs /\
  Forall (fun sf => in_i64 (fst sf) /\ in_u64 (snd sf)) l.
Proof.
  induction 1 as [|sf b l vs H _ (IH1 & IH2 & IH3)]; [repeat split; constructor|].
  destruct (ts_bytes_inv sf b H) as (Hl & Hr & Hs & Hf). cbn [map]. rewrite Hr, IH1.
  repeat split; constructor; auto.
Qed.

(* ================================================================================================= *)
(* D.  properties: the last value written under a name is the value read                               *)
(* ================================================================================================= *)

Definition name_is (n : bytes) (p : prop) : bool := bytes_eqb n (p_name p).

(* an insertion-ordered dictionary built from a list of (name, value): the
   value found under a name is the LAST one given for it *)
Lemma alookup_merge_last n p : forall ps acc e,
  filter (name_is n) ps = e ++ [p] -> alookup n (merge_props ps acc) = Some p.
Proof.
  induction ps as [|x ps IH] using rev_ind; intros acc e H.
  - cbn [filter] in H. destruct e; discriminate H.
  - rewrite filter_app in H. cbn [filter] in H. rewrite merge_props_app.
    unfold merge_props at 1. cbn [fold_left]. rewrite alookup_aset.
    unfold name_is at 2 in H. destruct (bytes_eqb n (p_name x)) eqn:E.
    + apply app_inj_tail in H. destruct H as [_ ->]. reflexivity.
    + rewrite app_nil_r in H. apply (IH acc e H).
Qed.

Lemma int_prop_name n v p : int_prop n v = Ok p -> p_name p = n.
Proof.
  unfold int_prop. destruct (Gen.PyFuncsWriter.to_int_property_value v) as [c w].
  destruct (ctor_layout c) as [[ty width] signed].
  destruct (pack_int width signed w); [|discriminate]. cbn [bind]. intros H. injection H as <-. reflexivity.
Qed.

(* the pair a timestamp-valued property stands for *)
Definition raw_prop_of (p : tsprop) : option (Z * Z) :=
  match p with
  | TPPy _ => None
  | TPDatetime _ d => Some (enc_dt d)
  | TPRaw _ s f => Some (s, f)
  end.

Lemma lowers_prop_name p p' : lowers_prop p p' -> p_name p' = tsprop_name p.
Proof.
  unfold lowers_prop. destruct p as [[n v|q]|n d|n s f]; cbn [lower_tsprop bind lower_prop tsprop_name].
  - apply int_prop_name.
  - intros H. injection H as <-. reflexivity.
  - unfold ts_prop. destruct (ts_bytes (enc_dt d)); [|discriminate]. cbn [bind lower_prop].
    intros H. injection H as <-. reflexivity.
  - unfold ts_prop. destruct (ts_bytes (s, f)); [|discriminate]. cbn [bind lower_prop].
    intros H. injection H as <-. reflexivity.
Qed.

Lemma lowers_prop_raw p p' sf :
  lowers_prop p p' -> raw_prop_of p = Some sf ->
  exists b, encodes sf b /\ p' = mkProp (tsprop_name p) T_TIME b.
Proof.
  unfold lowers_prop, encodes. destruct p as [q|n d|n s f]; cbn [raw_prop_of]; intros H Hr;
    try discriminate Hr; injection Hr as <-; cbn [lower_tsprop tsprop_name] in *; unfold ts_prop in H.
  - destruct (ts_bytes (enc_dt d)) as [b|]; [|discriminate]. cbn [bind lower_prop] in H.
    injection H as <-. exists b. split; reflexivity.
  - destruct (ts_bytes (s, f)) as [b|]; [|discriminate]. cbn [bind lower_prop] in H.
    injection H as <-. exists b. split; reflexivity.
Qed.

Lemma Forall2_filter {A B} (R : A -> B -> Prop) (f : A -> bool) (h : B -> bool) : forall l l',
  Forall2 R l l' -> (forall a b, R a b -> f a = h b) -> Forall2 R (filter f l) (filter h l').
Proof.
  induction 1 as [|a b l l' Hab _ IH]; intros Hfh; [constructor|]. cbn [filter].
  rewrite (Hfh a b Hab). destruct (h b); [constructor; [exact Hab|]|]; apply IH; exact Hfh.
Qed.

Lemma filter_flat_map {A B} (f : B -> bool) (g : A -> list B) l :
  filter f (flat_map g l) = flat_map (fun a => filter f (g a)) l.
Proof. induction l as [|a l IH]; [reflexivity|]. cbn [flat_map]. rewrite filter_app, IH. reflexivity. Qed.

Lemma prop_transfer k n : forall W W',
  Forall2 lowers W W' ->
  Forall2 lowers_prop
    (flat_map (fun o => if pkind_eqb k (ts_kind_of o)
                        then filter (fun p => bytes_eqb n (tsprop_name p)) (ts_props o) else []) W)
    (filter (name_is n) (props_by_kind k W')).
Proof.
  intros W W' HF. unfold props_by_kind. rewrite filter_flat_map.
  induction HF as [|o o' W W' Ho _ IH]; [constructor|]. cbn [flat_map].
  apply Forall2_app; [|exact IH]. unfold by_kind. rewrite (is_kind_lowers k o o' Ho).
  destruct (pkind_eqb k (ts_kind_of o)); [|constructor].
  apply Forall2_filter; [exact (lowers_props o o' Ho)|].
  intros p p' Hp. unfold name_is. rewrite (lowers_prop_name p p' Hp). reflexivity.
Qed.

Lemma Forall2_In_l {A B} (R : A -> B -> Prop) l l' a :
  Forall2 R l l' -> In a l -> exists b, In b l' /\ R a b.
Proof.
  induction 1 as [|x y l l' Hxy _ IH]; intros Hin; [destruct Hin|].
  destruct Hin as [<-|Hin]; [exists y; split; [left; reflexivity|exact Hxy]|].
  destruct (IH Hin) as [b [Hb Hr]]. exists b. split; [right; exact Hb|exact Hr].
Qed.

(* the property dictionary the reader reports for root / group g / channel (g, c) *)
Definition kind_props (h : hierarchy) (k : pkind) : option (alist prop) :=
  match k with
  | KRoot => Some (h_root h)
  | KGroup g => option_map g_props (alookup g (h_groups h))
  | KChan g c => option_map ch_props (lookup_chan h g c)
  end.

Lemma kind_props_written ss k o :
  In o (written ss) -> is_kind k o = true ->
  kind_props (content_hierarchy (obj_seq ss)) k = Some (merge_props (props_by_kind k (written ss)) []).
Proof.
  intros Hin Hk. pose proof Hk as Hk'. apply is_kind_spec in Hk'.
  destruct k as [|g|g c]; cbn [kind_props].
  - unfold content_hierarchy. cbn [h_root]. f_equal. apply (props_at_by_kind KRoot).
  - destruct o as [ps|g' ps|g' c' dt vs ps]; cbn [kind_of] in Hk'; try discriminate Hk'.
    injection Hk' as <-.
    rewrite (group_lookup _ g (written_group_names ss g ps Hin)). cbn [option_map]. f_equal.
    unfold content_group. cbn [g_props]. apply (props_at_by_kind (KGroup g)).
  - destruct (written_chan_names ss o g c Hin Hk) as [Hg Hc].
    rewrite (chan_lookup _ g c Hg Hc). cbn [option_map]. f_equal.
    unfold content_channel. cbn [ch_props]. apply (props_at_by_kind (KChan g c)).
Qed.

Lemma has_block_trans {A} (T B C : list A) : has_block T B -> has_block B C -> has_block T C.
Proof.
  intros (p & q & ->) (p' & q' & ->). exists (p ++ p'), (q' ++ q). rewrite <- !app_assoc. reflexivity.
Qed.

Lemma obs_props_block ps n p :
  In (n, p) ps -> has_block (obs_props ps) (TB n :: obs_prop_value (p_type p) (p_val p)).
Proof.
  intros Hin. unfold obs_props. apply has_block_cons.
  apply (flat_map_has_block _ _ (n, p)); [exact Hin|]. apply has_block_self.
Qed.

Lemma kind_props_block h D k ps :
  kind_props h k = Some ps -> has_block (obs_hierarchy h D) (obs_props ps).
Proof.
  destruct k as [|g|g c]; cbn [kind_props].
  - intros H. injection H as <-. rewrite obs_hierarchy_blocks. apply has_block_suffix, has_block_self.
  - destruct (alookup g (h_groups h)) as [G|] eqn:EG; [|discriminate]. cbn [option_map].
    intros H. injection H as <-. apply alookup_In in EG.
    rewrite obs_hierarchy_blocks. apply has_block_prefix, has_block_cons.
    apply (flat_map_has_block _ _ (g, G)); [exact EG|]. unfold group_block. cbn [snd].
    apply has_block_cons, has_block_suffix, has_block_self.
  - unfold lookup_chan. destruct (alookup g (h_groups h)) as [G|] eqn:EG; [|discriminate].
    destruct (alookup c (g_chans G)) as [ch|] eqn:EC; [|discriminate]. cbn [option_map].
    intros H. injection H as <-. apply alookup_In in EG. apply alookup_In in EC.
    apply (has_block_trans _ _ _ (chan_block_in_tokens h D g G c ch EG EC)).
    unfold chan_block, obs_channel_meta. apply has_block_suffix.
    do 5 apply has_block_cons. apply has_block_self.
Qed.

(* ================================================================================================= *)
(* E.  the file theorems                                                                               *)
(* ================================================================================================= *)

Lemma ts_writes_named g c tpy ss :
  lower_ts_file tpy = Ok ss -> ts_writes g c tpy <> [] ->
  exists o', In o' (written ss) /\ named g c o' = true.
Proof.
  intros Hl Hne. unfold ts_writes in Hne.
  destruct (flat_map (ts_chan_data g c) (ts_written tpy)) as [|d r] eqn:E; [contradiction|].
  assert (Hin : In d (flat_map (ts_chan_data g c) (ts_written tpy))) by (rewrite E; left; reflexivity).
  apply in_flat_map in Hin. destruct Hin as [o [Ho Hd]].
  destruct (Forall2_In_l _ _ _ o (lower_ts_file_written tpy ss Hl) Ho) as [o' [Ho' Hlo]].
  exists o'. split; [exact Ho'|]. unfold named. rewrite (is_kind_lowers _ o o' Hlo).
  destruct o as [ps|g' ps|g' c' d' ps]; cbn [ts_chan_data] in Hd; try destruct Hd.
  cbn [ts_kind_of]. destruct (pkind_eqb (KChan g c) (KChan g' c')); [reflexivity|destruct Hd].
Qed.

Lemma Forall2_len {A B} (R : A -> B -> Prop) l l' : Forall2 R l l' -> length l = length l'.
Proof. induction 1; [reflexivity|]. cbn [length]. f_equal. assumption. Qed.

(* raw timestamps as channel data *)
Theorem raw_channel_lemma : forall tpy ss data index g c ls,
  lower_ts_file tpy = Ok ss ->
  Writer.wf_file ss = true -> sizes_below_marker ss = true -> dtypes_consistent ss = true ->
  wr_file ss = Ok (data, index) ->
  map raw_of (ts_writes g c tpy) = map Some ls -> concat ls <> [] ->
  let ch := chan_by_name (written ss) g c in
  exists vals,
    Forall2 encodes (concat ls) vals /\
    map (rd_ts LE) vals = map Some (concat ls) /\
    rd_all data = Ok (file_tokens ss, true) /\
    lookup_chan (content_hierarchy (obj_seq ss)) g c = Some ch /\
    ch_name ch = c /\ ch_group ch = g /\ ch_dtype ch = Some T_TIME /\
    ch_len ch = Z.of_nat (length (concat ls)) /\
    content_data (obj_seq ss) ch = Some (CData vals) /\
    has_block (file_tokens ss)
      (TB c :: TB g :: TB (chan_path g c) :: TZ T_TIME :: TZ (Z.of_nat (length (concat ls))) ::
       obs_props (ch_props ch) ++ TZ 0 :: TZ (Z.of_nat (length (concat ls))) :: map TB vals).
Proof.
  intros tpy ss data index g c ls Hl Hwf Hsz Hdt Hwr Hw Hne ch.
  pose proof (lower_ts_file_written tpy ss Hl) as HF.
  destruct (chan_transfer g c _ _ ls HF Hw) as [Hvals Htys].
  assert (Hnw : ts_writes g c tpy <> []).
  { intros E. rewrite E in Hw. destruct ls; [apply Hne; reflexivity|discriminate Hw]. }
  destruct (ts_writes_named g c tpy ss Hl Hnw) as (o' & Ho' & Hn').
  destruct (names_preserved_lemma ss data index g c o' Hwf Hsz Hdt Hwr Ho' Hn')
    as (Hrd & _ & Hnm & Hgr & _ & _ & Hblk).
  destruct (written_chan_names ss o' g c Ho' Hn') as [Hg Hc].
  set (vals := values_by_name g c (written ss)) in *.
  assert (Hlen : length vals = length (concat ls)) by (symmetry; exact (Forall2_len _ _ _ Hvals)).
  assert (Hty : ch_dtype ch = Some T_TIME).
  { cbn [ch chan_by_name ch_dtype]. rewrite Htys. apply ts_types_hd. exact Hne. }
  assert (Hcd : content_data (obj_seq ss) ch = Some (CData vals)).
  { unfold ch. rewrite content_data_by_name. rewrite Htys, (ts_types_hd ls Hne). reflexivity. }
  exists vals. split; [exact Hvals|]. split; [exact (proj1 (encodes_decode _ _ Hvals))|].
  split; [exact Hrd|].
  split; [unfold ch; rewrite <- content_channel_by_name; apply chan_lookup; assumption|].
  split; [reflexivity|]. split; [reflexivity|]. split; [exact Hty|].
  split; [cbn [ch chan_by_name ch_len]; fold vals; rewrite Hlen; reflexivity|].
  split; [exact Hcd|].
  fold ch in Hblk. unfold chan_block, data_tokens, obs_channel_meta in Hblk.
  rewrite Hcd, Hty in Hblk. cbn [obs_cdata obs_values] in Hblk.
  cbn [ch chan_by_name ch_name ch_group ch_path ch_len] in Hblk. fold vals in Hblk. rewrite Hlen in Hblk.
  unfold obs_values in Hblk. rewrite Hlen in Hblk. cbn [app] in Hblk. exact Hblk.
Qed.

(* only empty timestamp arrays were ever passed for (g, c): the channel exists,
   has no data type and no data (what the real reader shows for a channel whose
   segments carry no raw data index) *)
Lemma ts_types_nil ls : concat ls = [] -> ts_types ls = [].
Proof.
  induction ls as [|l ls IH]; [reflexivity|]. cbn [concat ts_types flat_map]. intros H.
  apply app_eq_nil in H. destruct H as [-> H]. cbn [app]. exact (IH H).
Qed.

Theorem raw_channel_empty_lemma : forall tpy ss data index g c ls,
  lower_ts_file tpy = Ok ss ->
  Writer.wf_file ss = true -> sizes_below_marker ss = true -> dtypes_consistent ss = true ->
  wr_file ss = Ok (data, index) ->
  map raw_of (ts_writes g c tpy) = map Some ls -> ls <> [] -> concat ls = [] ->
  let ch := chan_by_name (written ss) g c in
  rd_all data = Ok (file_tokens ss, true) /\
  lookup_chan (content_hierarchy (obj_seq ss)) g c = Some ch /\
  ch_name ch = c /\ ch_group ch = g /\ ch_dtype ch = None /\ ch_len ch = 0 /\
  content_data (obj_seq ss) ch = None.
Proof.
  intros tpy ss data index g c ls Hl Hwf Hsz Hdt Hwr Hw Hne Hemp ch.
  pose proof (lower_ts_file_written tpy ss Hl) as HF.
  destruct (chan_transfer g c _ _ ls HF Hw) as [Hvals Htys].
  rewrite Hemp in Hvals.
  assert (Hv : values_by_name g c (written ss) = []) by (inversion Hvals; reflexivity).
  rewrite (ts_types_nil ls Hemp) in Htys.
  assert (Hnw : ts_writes g c tpy <> []).
  { intros E. rewrite E in Hw. destruct ls; [apply Hne; reflexivity|discriminate Hw]. }
  destruct (ts_writes_named g c tpy ss Hl Hnw) as (o' & Ho' & Hn').
  destruct (written_chan_names ss o' g c Ho' Hn') as [Hg Hc].
  split; [exact (write_read_lemma ss data index Hwf Hsz Hdt Hwr)|].
  split; [unfold ch; rewrite <- content_channel_by_name; apply chan_lookup; assumption|].
  split; [reflexivity|]. split; [reflexivity|].
  split; [cbn [ch chan_by_name ch_dtype]; rewrite Htys; reflexivity|].
  split; [cbn [ch chan_by_name ch_len]; rewrite Hv; reflexivity|].
  unfold ch. rewrite content_data_by_name, Htys. reflexivity.
Qed.

Lemma concat_map_map {A B} (f : A -> B) ll : concat (map (map f) ll) = map f (concat ll).
Proof. induction ll as [|l ll IH]; [reflexivity|]. cbn [map concat]. rewrite map_app, IH. reflexivity. Qed.

(* datetimes as channel data: every value read decodes to the datetime written,
   on the scalar path and on the array path *)
Theorem datetime_channel_lemma : forall tpy ss data index g c dss,
  lower_ts_file tpy = Ok ss ->
  Writer.wf_file ss = true -> sizes_below_marker ss = true -> dtypes_consistent ss = true ->
  wr_file ss = Ok (data, index) ->
  ts_writes g c tpy = map TDDatetimes dss -> concat dss <> [] ->
  Forall dt_ok (concat dss) ->
  let ch := chan_by_name (written ss) g c in
  exists vals,
    rd_all data = Ok (file_tokens ss, true) /\
    lookup_chan (content_hierarchy (obj_seq ss)) g c = Some ch /\
    ch_name ch = c /\ ch_group ch = g /\ ch_dtype ch = Some T_TIME /\
    ch_len ch = Z.of_nat (length (concat dss)) /\
    content_data (obj_seq ss) ch = Some (CData vals) /\
    Forall (fun b => length b = 16%nat) vals /\
    map (fun b => option_map dec_dt (rd_ts LE b)) vals = map Some (concat dss) /\
    map (fun b => option_map (fun sf => conv_array Rus (fst sf) (snd sf)) (rd_ts LE b)) vals
      = map Some (concat dss) /\
    has_block (file_tokens ss)
      (TB c :: TB g :: TB (chan_path g c) :: TZ T_TIME :: TZ (Z.of_nat (length (concat dss))) ::
       obs_props (ch_props ch) ++ TZ 0 :: TZ (Z.of_nat (length (concat dss))) :: map TB vals).
Proof.
  intros tpy ss data index g c dss Hl Hwf Hsz Hdt Hwr Hw Hne Hok ch.
  assert (Hw' : map raw_of (ts_writes g c tpy) = map Some (map (map enc_dt) dss)).
  { rewrite Hw, !map_map. reflexivity. }
  assert (Hne' : concat (map (map enc_dt) dss) <> []).
  { rewrite concat_map_map. intros E. apply map_eq_nil in E. contradiction. }
  destruct (raw_channel_lemma tpy ss data index g c _ Hl Hwf Hsz Hdt Hwr Hw' Hne')
    as (vals & Henc & Hdec & Hrd & Hlk & Hnm & Hgr & Hty & Hlen & Hcd & Hblk).
  rewrite concat_map_map in Hdec, Hlen, Hblk, Henc. rewrite map_length in Hlen, Hblk.
  exists vals. repeat (split; [assumption|]).
  split; [exact (proj1 (proj2 (encodes_decode _ _ Henc)))|].
  assert (Hgen : forall (F : Z * Z -> Z), (forall d, dt_ok d -> F (enc_dt d) = d) ->
                 map (fun b => option_map F (rd_ts LE b)) vals = map Some (concat dss)).
  { intros F HFd. rewrite <- (map_map (rd_ts LE) (option_map F)), Hdec, !map_map. cbn [option_map].
    apply map_ext_in. intros d Hd. f_equal. apply HFd. rewrite Forall_forall in Hok. exact (Hok d Hd). }
  split; [apply Hgen; intros d Hd; exact (proj1 (dt_decodes d Hd))|].
  split; [apply (Hgen (fun sf => conv_array Rus (fst sf) (snd sf))); intros d Hd;
          exact (proj1 (proj2 (dt_decodes d Hd)))|].
  exact Hblk.
Qed.

(* a timestamp-valued property: the reader reports, under the object it was
   given to and the name it was given, type TimeStamp with exactly the fields
   of the LAST value given *)
Theorem raw_property_lemma : forall tpy ss data index k n e p sf,
  lower_ts_file tpy = Ok ss ->
  Writer.wf_file ss = true -> sizes_below_marker ss = true -> dtypes_consistent ss = true ->
  wr_file ss = Ok (data, index) ->
  ts_prop_writes k n tpy = e ++ [p] -> raw_prop_of p = Some sf ->
  exists b ps,
    encodes sf b /\ length b = 16%nat /\ rd_ts LE b = Some sf /\
    rd_all data = Ok (file_tokens ss, true) /\
    kind_props (content_hierarchy (obj_seq ss)) k = Some ps /\
    alookup n ps = Some (mkProp n T_TIME b) /\
    obs_prop_value T_TIME b = [TZ 4; TZ (fst sf); TZ (snd sf)] /\
    has_block (file_tokens ss) [TB n; TZ 4; TZ (fst sf); TZ (snd sf)].
Proof.
  intros tpy ss data index k n e p sf Hl Hwf Hsz Hdt Hwr Hw Hr.
  pose proof (lower_ts_file_written tpy ss Hl) as HF.
  pose proof (prop_transfer k n _ _ HF) as HP. unfold ts_prop_writes in Hw. rewrite Hw in HP.
  apply Forall2_app_inv_l in HP. destruct HP as (e' & l2 & _ & H2 & Hfl).
  inversion H2 as [|x p' y l2' Hp Hnil]; subst. inversion Hnil; subst.
  destruct (lowers_prop_raw p p' sf Hp Hr) as (b & Hb & Hp').
  assert (Hnm : tsprop_name p = n).
  { assert (Hin : In p (e ++ [p])) by (apply in_or_app; right; left; reflexivity).
    rewrite <- Hw in Hin. apply in_flat_map in Hin. destruct Hin as [o [_ Hin]].
    destruct (pkind_eqb k (ts_kind_of o)); [|destruct Hin].
    apply filter_In in Hin. destruct Hin as [_ Hin]. apply bytes_eqb_eq in Hin. symmetry. exact Hin. }
  rewrite Hnm in Hp'. subst p'.
  (* an object of identity k was written *)
  assert (Hobj : exists o', In o' (written ss) /\ is_kind k o' = true).
  { assert (Hin : In p (e ++ [p])) by (apply in_or_app; right; left; reflexivity).
    rewrite <- Hw in Hin. apply in_flat_map in Hin. destruct Hin as [o [Ho Hin]].
    destruct (Forall2_In_l _ _ _ o HF Ho) as [o' [Ho' Hlo]]. exists o'. split; [exact Ho'|].
    rewrite (is_kind_lowers k o o' Hlo). destruct (pkind_eqb k (ts_kind_of o)); [reflexivity|destruct Hin]. }
  destruct Hobj as (o' & Ho' & Hk').
  pose proof (kind_props_written ss k o' Ho' Hk') as Hkp.
  pose proof (alookup_merge_last n _ _ [] _ Hfl) as Hlook.
  destruct (ts_bytes_inv sf b Hb) as (Hlen & Hrd & _ & _).
  assert (Hobs : obs_prop_value T_TIME b = [TZ 4; TZ (fst sf); TZ (snd sf)]).
  { apply obs_ts_value. destruct sf; exact Hrd. }
  exists b, (merge_props (props_by_kind k (written ss)) []).
  split; [exact Hb|]. split; [exact Hlen|]. split; [exact Hrd|].
  split; [exact (write_read_lemma ss data index Hwf Hsz Hdt Hwr)|].
  split; [exact Hkp|]. split; [exact Hlook|]. split; [exact Hobs|].
  rewrite file_tokens_eq. apply has_block_cons, has_block_suffix.
  apply (has_block_trans _ _ _ (kind_props_block _ _ k _ Hkp)).
  apply alookup_In in Hlook. apply obs_props_block in Hlook. cbn [p_type p_val] in Hlook.
  rewrite Hobs in Hlook. exact Hlook.
Qed.

(* a datetime property: decoding the fields read gives the datetime back *)
Theorem datetime_property_lemma : forall tpy ss data index k n e d,
  lower_ts_file tpy = Ok ss ->
  Writer.wf_file ss = true -> sizes_below_marker ss = true -> dtypes_consistent ss = true ->
  wr_file ss = Ok (data, index) ->
  ts_prop_writes k n tpy = e ++ [TPDatetime n d] -> dt_ok d ->
  exists b ps s f,
    length b = 16%nat /\ rd_ts LE b = Some (s, f) /\
    rd_all data = Ok (file_tokens ss, true) /\
    kind_props (content_hierarchy (obj_seq ss)) k = Some ps /\
    alookup n ps = Some (mkProp n T_TIME b) /\
    obs_prop_value T_TIME b = [TZ 4; TZ s; TZ f] /\
    has_block (file_tokens ss) [TB n; TZ 4; TZ s; TZ f] /\
    dec_dt (s, f) = d /\ conv_array Rus s f = d /\ in_i64 ((EPOCH_S + s) * 1000000).
Proof.
  intros tpy ss data index k n e d Hl Hwf Hsz Hdt Hwr Hw Hok.
  destruct (raw_property_lemma tpy ss data index k n e _ (enc_dt d) Hl Hwf Hsz Hdt Hwr Hw eq_refl)
    as (b & ps & _ & Hlen & Hrd & Hall & Hkp & Hlk & Hobs & Hblk).
  destruct (dt_decodes d Hok) as (H1 & H2 & H3).
  exists b, ps, (fst (enc_dt d)), (snd (enc_dt d)).
  rewrite <- surjective_pairing. repeat (split; [assumption|]). exact H3.
Qed.

(* ================================================================================================= *)
(* F.  write -> read -> defragment -> read                                                             *)
(* ================================================================================================= *)

(* What TdmsFile(source, raw_timestamps=True) hands to TdmsWriter.defragment,
   assembled from the hierarchy and the channel data the reader reports
   (DefragRead.content_of_read has the same shape over decoded chunks; the two
   agree, [read_content_of_read]). *)
Definition dchan_of_hier (data : channel -> option cdata) (kc : bytes * channel) : dchan :=
  mkDChan (ch_name (snd kc)) (ch_dtype (snd kc))
          (match data (snd kc) with Some (CData vs) => vs | _ => [] end)
          (map snd (ch_props (snd kc))).

Definition dgroup_of_hier (data : channel -> option cdata) (kg : bytes * group) : dgroup :=
  mkDGroup (fst kg) (map snd (g_props (snd kg))) (map (dchan_of_hier data) (g_chans (snd kg))).

Definition dcontent_of_hier (h : hierarchy) (data : channel -> option cdata) : dcontent :=
  mkDContent (map snd (h_root h)) (map (dgroup_of_hier data) (h_groups h)).

(* the content read from the file written for [ss] (write_read: rd_all shows
   exactly content_hierarchy / content_data of obj_seq ss) *)
Definition read_content (ss : wsessions) : dcontent :=
  dcontent_of_hier (content_hierarchy (obj_seq ss)) (content_data (obj_seq ss)).

Lemma read_content_of_read ss chunks :
  (forall p, chan_values p chunks = values_at p (obj_seq ss)) ->
  read_content ss = content_of_read (content_hierarchy (obj_seq ss)) chunks.
Proof.
  intros Hv. unfold read_content, dcontent_of_hier, content_of_read. f_equal.
  apply map_ext. intros kg. unfold dgroup_of_hier. f_equal. apply map_ext. intros kc.
  unfold dchan_of_hier, dchan_of_read, content_data. f_equal.
  destruct (ch_dtype (snd kc)); [rewrite Hv|]; reflexivity.
Qed.

(* such chunks exist: the ones the reader decodes from the written segments *)
Lemma written_file_chunks ss data index :
  Writer.wf_file ss = true -> sizes_below_marker ss = true -> wr_file ss = Ok (data, index) ->
  exists sl, sorted_file ss = Ok sl /\ data = ser_file (fsegs_of sl) /\
    forall p, chan_values p (concat (map (fun vs : Z * list wobj => chunks_of (snd vs)) sl))
              = values_at p (obj_seq ss).
Proof.
  intros Hwf Hsz Hwr.
  destruct (writer_bytes_are_ser_file ss data index Hwf Hsz Hwr) as (sl & Hsl & HF & _ & Hd).
  exists sl. split; [exact Hsl|]. split; [exact Hd|]. intros p.
  destruct (file_trace ss sl Hsl) as (T1 & _).
  assert (Hwfs : Forall (fun vs : Z * list wobj => forallb wf_obj (snd vs) = true) sl).
  { eapply Forall_impl; [|exact HF]. intros vs [H _]. exact H. }
  rewrite (chan_values_file p sl Hwfs). unfold values_at. apply T1. apply at_path_blank; reflexivity.
Qed.

(* ---- property dictionaries survive the list -> dictionary round trip ------------------------------- *)

Definition wk (a : alist prop) : Prop :=
  NoDup (map fst a) /\ Forall (fun kv => fst kv = p_name (snd kv)) a.

Lemma Forall_aset_key (P : bytes * prop -> Prop) k v (l : alist prop) :
  Forall P l -> (forall k', k = k' -> P (k', v)) -> Forall P (aset k v l).
Proof.
  intros Hl Hv. induction l as [|[k' v'] r IH]; cbn [aset].
  - constructor; [apply Hv; reflexivity|constructor].
  - inversion Hl as [|x y Hx Hr]; subst. destruct (bytes_eqb k k') eqn:E.
    + apply bytes_eqb_eq in E. constructor; [apply Hv; exact E|exact Hr].
    + constructor; [exact Hx|apply IH; exact Hr].
Qed.

Lemma merge_props_wk ps : forall acc, wk acc -> wk (merge_props ps acc).
Proof.
  induction ps as [|x ps IH]; intros acc Hacc; [exact Hacc|].
  unfold merge_props. cbn [fold_left]. apply IH. destruct Hacc as [Hnd Hf]. split.
  - rewrite keys_aset. apply add_new_nodup. exact Hnd.
  - apply Forall_aset_key; [exact Hf|]. intros k' <-. reflexivity.
Qed.

Lemma wk_nil : wk [].
Proof. split; constructor. Qed.

Lemma merge_props_id_gen : forall (a acc : alist prop),
  NoDup (map fst acc ++ map fst a) -> Forall (fun kv => fst kv = p_name (snd kv)) a ->
  merge_props (map snd a) acc = acc ++ a.
Proof.
  induction a as [|[k v] r IH]; intros acc Hnd Hf; [cbn; rewrite app_nil_r; reflexivity|].
  inversion Hf as [|x y Hk Hr]; subst. cbn [fst snd] in Hk. subst k.
  cbn [map snd]. unfold merge_props. cbn [fold_left]. fold (merge_props (map snd r) (aset (p_name v) v acc)).
  rewrite aset_fresh.
  2:{ cbn [map fst] in Hnd. apply NoDup_remove_2 in Hnd. intros Hin. apply Hnd. apply in_or_app. left. exact Hin. }
  rewrite IH; [rewrite <- app_assoc; reflexivity| |exact Hr].
  rewrite map_app. cbn [map fst]. rewrite <- app_assoc. exact Hnd.
Qed.

Lemma merge_props_id a : wk a -> merge_props (map snd a) [] = a.
Proof. intros [Hnd Hf]. apply (merge_props_id_gen a []); [exact Hnd|exact Hf]. Qed.

Lemma props_at_wk p S : wk (props_at p S).
Proof. unfold props_at. apply merge_props_wk, wk_nil. Qed.

(* ---- the destination holds, for a channel with at least one value, the same record and data ----- *)

Lemma read_content_distinct ss : names_distinct (read_content ss).
Proof.
  unfold names_distinct, read_content, dcontent_of_hier, content_hierarchy. cbn [d_groups h_groups]. split.
  - rewrite !map_map. cbn [dgroup_of_hier dg_name fst]. rewrite map_id. apply dedup_nodup.
  - intros G HG. rewrite map_map in HG. apply in_map_iff in HG. destruct HG as [g [<- _]].
    cbn [dgroup_of_hier dg_chans snd content_group g_chans]. rewrite !map_map.
    cbn [dchan_of_hier dc_name snd content_channel ch_name]. rewrite map_id. apply dedup_nodup.
Qed.

Definition read_dchan (ss : wsessions) (g c : bytes) : dchan :=
  dchan_of_hier (content_data (obj_seq ss)) (c, content_channel (obj_seq ss) g c).

Definition read_dgroup (ss : wsessions) (g : bytes) : dgroup :=
  dgroup_of_hier (content_data (obj_seq ss)) (g, content_group (obj_seq ss) g).

Lemma read_dgroup_in ss g : In g (group_names (obj_seq ss)) -> In (read_dgroup ss g) (d_groups (read_content ss)).
Proof.
  intros Hg. unfold read_content, dcontent_of_hier, content_hierarchy. cbn [d_groups h_groups].
  rewrite map_map. apply in_map_iff. exists g. split; [reflexivity|exact Hg].
Qed.

Lemma read_dchan_in ss g c :
  In c (chan_names g (obj_seq ss)) -> In (read_dchan ss g c) (dg_chans (read_dgroup ss g)).
Proof.
  intros Hc. unfold read_dgroup, dgroup_of_hier. cbn [dg_chans snd content_group g_chans].
  rewrite map_map. apply in_map_iff. exists c. split; [reflexivity|exact Hc].
Qed.

Lemma defrag_lookup_group ss g :
  In g (group_names (obj_seq ss)) ->
  alookup g (h_groups (hier_of_content (read_content ss))) = Some (hgroup_of (read_dgroup ss g)).
Proof.
  intros Hg.
  unfold hier_of_content, read_content, dcontent_of_hier, content_hierarchy. cbn [h_groups d_groups].
  rewrite !map_map. cbn [dgroup_of_hier dg_name fst].
  apply (alookup_graph_in (fun g0 => hgroup_of (read_dgroup ss g0))). exact Hg.
Qed.

Lemma defrag_lookup ss g c :
  In g (group_names (obj_seq ss)) -> In c (chan_names g (obj_seq ss)) ->
  alookup g (h_groups (hier_of_content (read_content ss))) = Some (hgroup_of (read_dgroup ss g)) /\
  alookup c (g_chans (hgroup_of (read_dgroup ss g))) = Some (hchan_of g (read_dchan ss g c)).
Proof.
  intros Hg Hc. split; [apply defrag_lookup_group; exact Hg|].
  unfold hgroup_of, read_dgroup, dgroup_of_hier. cbn [g_chans dg_chans dg_name fst snd content_group].
  rewrite !map_map. cbn [dchan_of_hier dc_name snd content_channel ch_name].
  apply (alookup_graph_in (fun c0 => hchan_of g (read_dchan ss g c0))). exact Hc.
Qed.

(* a channel that is typed and holds at least one value: the defragmented
   file reports the identical channel record, the identical values and the
   identical token block *)
Theorem defrag_channel_lemma : forall ss v' data' index' g c ty x vals,
  In g (group_names (obj_seq ss)) -> In c (chan_names g (obj_seq ss)) ->
  let S := obj_seq ss in
  let ch := content_channel S g c in
  let c0 := read_content ss in
  ch_dtype ch = Some ty -> ty <> T_VOID ->
  content_data S ch = Some (CData (x :: vals)) ->
  Writer.wf_file [(v', defrag_calls c0)] = true ->
  sizes_below_marker [(v', defrag_calls c0)] = true ->
  defrag v' c0 = Ok (data', index') ->
  rd_all data' = Ok (content_tokens_of_seq v' (defrag_seq c0), true) /\
  lookup_chan (content_hierarchy (defrag_seq c0)) g c = Some ch /\
  content_data (defrag_seq c0) ch = Some (CData (x :: vals)) /\
  has_block (content_tokens_of_seq v' (defrag_seq c0))
            (chan_block (fun _ => obs_cdata (Some (CData (x :: vals)))) ch).
Proof.
  intros ss v' data' index' g c ty x vals Hg Hc S ch c0 Hty Hnv Hcd Hwf Hsz Hdf.
  pose proof (read_content_distinct ss) as Hd. fold c0 in Hd.
  destruct (defrag_hierarchy c0 Hd) as [Hh Hv].
  destruct (defrag_lookup ss g c Hg Hc) as [HG HC]. fold c0 in HG.
  set (G0 := read_dgroup ss g) in *. set (ch0 := read_dchan ss g c) in *.
  assert (Hvals0 : dc_vals ch0 = x :: vals).
  { unfold ch0, read_dchan, dchan_of_hier. cbn [dc_vals snd]. fold S. fold ch. rewrite Hcd. reflexivity. }
  assert (Hty0 : dtype_opt ch0 = Some ty).
  { unfold dtype_opt. rewrite Hvals0. unfold ch0, read_dchan, dchan_of_hier. cbn [dc_type snd].
    fold S. fold ch. rewrite Hty. cbn [defrag_type].
    destruct (ty =? T_VOID) eqn:E; [apply Z.eqb_eq in E; contradiction|reflexivity]. }
  assert (Hlen : ch_len ch = Z.of_nat (length (x :: vals))).
  { unfold content_data in Hcd. rewrite Hty in Hcd. injection Hcd as Hcd.
    cbn [ch content_channel ch_len ch_path] in *. rewrite Hcd. reflexivity. }
  assert (Hrec : hchan_of g ch0 = ch).
  { unfold hchan_of. rewrite Hty0, Hvals0.
    unfold ch0, read_dchan, dchan_of_hier. cbn [dc_name dc_props snd]. fold S. fold ch.
    rewrite (merge_props_id (ch_props ch)) by (apply props_at_wk).
    rewrite <- Hlen, <- Hty. reflexivity. }
  assert (HinG : In G0 (d_groups c0)) by (apply read_dgroup_in; exact Hg).
  assert (Hinc : In ch0 (dg_chans G0)) by (apply read_dchan_in; exact Hc).
  assert (Hva : values_at (chan_path g c) (defrag_seq c0) = x :: vals).
  { rewrite <- Hvals0. apply (Hv G0 ch0 HinG Hinc). }
  assert (Hcd' : content_data (defrag_seq c0) ch = Some (CData (x :: vals))).
  { unfold content_data. rewrite Hty. cbn [ch content_channel ch_path]. rewrite Hva. reflexivity. }
  split; [apply (defrag_read_lemma v' c0 data' index' Hwf Hsz (defrag_paths_nodup c0 Hd) Hdf)|].
  split.
  { unfold lookup_chan. rewrite Hh, HG, HC, Hrec. reflexivity. }
  split; [exact Hcd'|].
  unfold content_tokens_of_seq. apply has_block_cons, has_block_suffix.
  assert (Hb : has_block (obs_hierarchy (content_hierarchy (defrag_seq c0))
                            (fun c1 => obs_cdata (content_data (defrag_seq c0) c1)))
                         (chan_block (fun c1 => obs_cdata (content_data (defrag_seq c0) c1)) ch)).
  { rewrite Hh. apply (chan_block_in_tokens _ _ g (hgroup_of G0) c ch).
    - apply alookup_In. exact HG.
    - apply alookup_In. rewrite HC, Hrec. reflexivity. }
  unfold chan_block in *. rewrite Hcd' in Hb. exact Hb.
Qed.

(* raw timestamps as channel data, through defragment: the values the
   destination holds are the values the source holds, bit for bit, and decode
   to the pairs that were written *)
Theorem raw_defragment_lemma : forall tpy ss data index g c ls v' data' index',
  lower_ts_file tpy = Ok ss ->
  Writer.wf_file ss = true -> sizes_below_marker ss = true -> dtypes_consistent ss = true ->
  wr_file ss = Ok (data, index) ->
  map raw_of (ts_writes g c tpy) = map Some ls -> concat ls <> [] ->
  let c0 := read_content ss in
  Writer.wf_file [(v', defrag_calls c0)] = true ->
  sizes_below_marker [(v', defrag_calls c0)] = true ->
  defrag v' c0 = Ok (data', index') ->
  let ch := chan_by_name (written ss) g c in
  exists vals,
    map (rd_ts LE) vals = map Some (concat ls) /\
    ch_dtype ch = Some T_TIME /\
    (* source *)
    rd_all data = Ok (file_tokens ss, true) /\
    lookup_chan (content_hierarchy (obj_seq ss)) g c = Some ch /\
    content_data (obj_seq ss) ch = Some (CData vals) /\
    (* destination *)
    rd_all data' = Ok (content_tokens_of_seq v' (defrag_seq c0), true) /\
    lookup_chan (content_hierarchy (defrag_seq c0)) g c = Some ch /\
    content_data (defrag_seq c0) ch = Some (CData vals) /\
    (* the same token block in both observations *)
    let B := TB c :: TB g :: TB (chan_path g c) :: TZ T_TIME :: TZ (Z.of_nat (length (concat ls))) ::
             obs_props (ch_props ch) ++ TZ 0 :: TZ (Z.of_nat (length (concat ls))) :: map TB vals in
    has_block (file_tokens ss) B /\ has_block (content_tokens_of_seq v' (defrag_seq c0)) B.
Proof.
  intros tpy ss data index g c ls v' data' index' Hl Hwf Hsz Hdt Hwr Hw Hne c0 Hwf' Hsz' Hdf ch.
  destruct (raw_channel_lemma tpy ss data index g c ls Hl Hwf Hsz Hdt Hwr Hw Hne)
    as (vals & Henc & Hdec & Hrd & Hlk & _ & _ & Hty & Hlen & Hcd & Hblk).
  fold ch in Hlk, Hty, Hlen, Hcd, Hblk.
  assert (Hnw : ts_writes g c tpy <> []).
  { intros E. rewrite E in Hw. destruct ls; [apply Hne; reflexivity|discriminate Hw]. }
  destruct (ts_writes_named g c tpy ss Hl Hnw) as (o' & Ho' & Hn').
  destruct (written_chan_names ss o' g c Ho' Hn') as [Hg Hc].
  assert (Hvl : length vals = length (concat ls)) by (symmetry; exact (Forall2_len _ _ _ Henc)).
  destruct vals as [|x vals].
  { exfalso. apply Hne. destruct (concat ls); [reflexivity|discriminate Hvl]. }
  assert (Hch : content_channel (obj_seq ss) g c = ch) by apply content_channel_by_name.
  destruct (defrag_channel_lemma ss v' data' index' g c T_TIME x vals Hg Hc) as (Hrd' & Hlk' & Hcd' & Hblk');
    try (rewrite Hch; assumption); try assumption; [discriminate|].
  rewrite Hch in Hlk', Hcd', Hblk'.
  exists (x :: vals).
  split; [exact Hdec|]. split; [exact Hty|]. split; [exact Hrd|]. split; [exact Hlk|]. split; [exact Hcd|].
  split; [exact Hrd'|]. split; [exact Hlk'|]. split; [exact Hcd'|]. cbv zeta. split; [exact Hblk|].
  unfold chan_block, obs_channel_meta in Hblk'. rewrite Hty, Hlen in Hblk'.
  cbn [obs_cdata] in Hblk'. unfold obs_values in Hblk'. rewrite Hvl in Hblk'.
  cbn [ch chan_by_name ch_name ch_group ch_path] in Hblk'. cbn [app] in Hblk'. exact Hblk'.
Qed.

(* datetimes as channel data, through defragment: both files hold the same
   values, and they decode to the datetimes written *)
Theorem datetime_defragment_lemma : forall tpy ss data index g c dss v' data' index',
  lower_ts_file tpy = Ok ss ->
  Writer.wf_file ss = true -> sizes_below_marker ss = true -> dtypes_consistent ss = true ->
  wr_file ss = Ok (data, index) ->
  ts_writes g c tpy = map TDDatetimes dss -> concat dss <> [] ->
  Forall dt_ok (concat dss) ->
  let c0 := read_content ss in
  Writer.wf_file [(v', defrag_calls c0)] = true ->
  sizes_below_marker [(v', defrag_calls c0)] = true ->
  defrag v' c0 = Ok (data', index') ->
  let ch := chan_by_name (written ss) g c in
  exists vals,
    map (fun b => option_map dec_dt (rd_ts LE b)) vals = map Some (concat dss) /\
    map (fun b => option_map (fun sf => conv_array Rus (fst sf) (snd sf)) (rd_ts LE b)) vals
      = map Some (concat dss) /\
    ch_dtype ch = Some T_TIME /\
    rd_all data = Ok (file_tokens ss, true) /\
    lookup_chan (content_hierarchy (obj_seq ss)) g c = Some ch /\
    content_data (obj_seq ss) ch = Some (CData vals) /\
    rd_all data' = Ok (content_tokens_of_seq v' (defrag_seq c0), true) /\
    lookup_chan (content_hierarchy (defrag_seq c0)) g c = Some ch /\
    content_data (defrag_seq c0) ch = Some (CData vals).
Proof.
  intros tpy ss data index g c dss v' data' index' Hl Hwf Hsz Hdt Hwr Hw Hne Hok c0 Hwf' Hsz' Hdf ch.
  assert (Hw' : map raw_of (ts_writes g c tpy) = map Some (map (map enc_dt) dss)).
  { rewrite Hw, !map_map. reflexivity. }
  assert (Hne' : concat (map (map enc_dt) dss) <> []).
  { rewrite concat_map_map. intros E. apply map_eq_nil in E. contradiction. }
  destruct (raw_defragment_lemma tpy ss data index g c _ v' data' index' Hl Hwf Hsz Hdt Hwr Hw' Hne' Hwf' Hsz' Hdf)
    as (vals & Hdec & Hty & Hrd & Hlk & Hcd & Hrd' & Hlk' & Hcd' & _).
  rewrite concat_map_map in Hdec.
  assert (Hgen : forall (F : Z * Z -> Z), (forall d, dt_ok d -> F (enc_dt d) = d) ->
                 map (fun b => option_map F (rd_ts LE b)) vals = map Some (concat dss)).
  { intros F HFd. rewrite <- (map_map (rd_ts LE) (option_map F)), Hdec, !map_map. cbn [option_map].
    apply map_ext_in. intros d Hd. f_equal. apply HFd. rewrite Forall_forall in Hok. exact (Hok d Hd). }
  exists vals.
  split; [apply Hgen; intros d Hd; exact (proj1 (dt_decodes d Hd))|].
  split; [apply (Hgen (fun sf => conv_array Rus (fst sf) (snd sf))); intros d Hd;
          exact (proj1 (proj2 (dt_decodes d Hd)))|].
  repeat (split; [assumption|]). exact Hcd'.
Qed.

(* ---- timestamp properties through defragment ------------------------------------------------------------ *)

Lemma defrag_kind_props ss k ps :
  kind_props (content_hierarchy (obj_seq ss)) k = Some ps ->
  kind_props (hier_of_content (read_content ss)) k = Some ps.
Proof.
  set (S := obj_seq ss). destruct k as [|g|g c]; cbn [kind_props].
  - intros H. injection H as <-. f_equal.
    unfold hier_of_content, read_content, dcontent_of_hier. cbn [h_root d_root_props].
    apply merge_props_id. apply props_at_wk.
  - destruct (alookup g (h_groups (content_hierarchy S))) as [G|] eqn:EG; [|discriminate].
    apply alookup_graph_some in EG. destruct EG as [Hg ->]. cbn [option_map]. intros H. injection H as <-.
    rewrite (defrag_lookup_group ss g Hg). cbn [option_map]. f_equal.
    unfold hgroup_of, read_dgroup, dgroup_of_hier. cbn [g_props dg_props snd].
    apply merge_props_id. unfold content_group. cbn [g_props]. apply props_at_wk.
  - unfold lookup_chan. destruct (alookup g (h_groups (content_hierarchy S))) as [G|] eqn:EG; [|discriminate].
    apply alookup_graph_some in EG. destruct EG as [Hg ->].
    destruct (alookup c (g_chans (content_group S g))) as [ch|] eqn:EC; [|discriminate].
    unfold content_group in EC. cbn [g_chans] in EC.
    apply alookup_graph_some in EC. destruct EC as [Hc ->]. cbn [option_map]. intros H. injection H as <-.
    destruct (defrag_lookup ss g c Hg Hc) as [HG HC]. rewrite HG, HC. cbn [option_map]. f_equal.
    unfold hchan_of, read_dchan, dchan_of_hier. cbn [ch_props dc_props snd].
    apply merge_props_id. unfold content_channel. cbn [ch_props]. apply props_at_wk.
Qed.

Theorem raw_property_defragment_lemma : forall tpy ss data index k n e p sf v' data' index',
  lower_ts_file tpy = Ok ss ->
  Writer.wf_file ss = true -> sizes_below_marker ss = true -> dtypes_consistent ss = true ->
  wr_file ss = Ok (data, index) ->
  ts_prop_writes k n tpy = e ++ [p] -> raw_prop_of p = Some sf ->
  let c0 := read_content ss in
  Writer.wf_file [(v', defrag_calls c0)] = true ->
  sizes_below_marker [(v', defrag_calls c0)] = true ->
  defrag v' c0 = Ok (data', index') ->
  exists b ps,
    rd_ts LE b = Some sf /\
    rd_all data = Ok (file_tokens ss, true) /\
    kind_props (content_hierarchy (obj_seq ss)) k = Some ps /\
    rd_all data' = Ok (content_tokens_of_seq v' (defrag_seq c0), true) /\
    kind_props (content_hierarchy (defrag_seq c0)) k = Some ps /\
    alookup n ps = Some (mkProp n T_TIME b) /\
    obs_prop_value T_TIME b = [TZ 4; TZ (fst sf); TZ (snd sf)] /\
    has_block (file_tokens ss) [TB n; TZ 4; TZ (fst sf); TZ (snd sf)] /\
    has_block (content_tokens_of_seq v' (defrag_seq c0)) [TB n; TZ 4; TZ (fst sf); TZ (snd sf)].
Proof.
  intros tpy ss data index k n e p sf v' data' index' Hl Hwf Hsz Hdt Hwr Hw Hr c0 Hwf' Hsz' Hdf.
  destruct (raw_property_lemma tpy ss data index k n e p sf Hl Hwf Hsz Hdt Hwr Hw Hr)
    as (b & ps & _ & _ & Hrd & Hall & Hkp & Hlk & Hobs & Hblk).
  pose proof (read_content_distinct ss) as Hd. fold c0 in Hd.
  destruct (defrag_hierarchy c0 Hd) as [Hh _].
  pose proof (defrag_kind_props ss k ps Hkp) as Hkp'. fold c0 in Hkp'. rewrite <- Hh in Hkp'.
  exists b, ps. repeat (split; [assumption|]).
  split; [apply (defrag_read_lemma v' c0 data' index' Hwf' Hsz' (defrag_paths_nodup c0 Hd) Hdf)|].
  repeat (split; [assumption|]).
  unfold content_tokens_of_seq. apply has_block_cons, has_block_suffix.
  apply (has_block_trans _ _ _ (kind_props_block _ _ k _ Hkp')).
  apply alookup_In in Hlk. apply obs_props_block in Hlk. cbn [p_type p_val] in Hlk.
  rewrite Hobs in Hlk. exact Hlk.
Qed.
