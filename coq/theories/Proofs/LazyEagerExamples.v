(* Lazy = eager on bytes: concrete instances.

   rc_file / rc2_file (Proofs/ReadCorrect.v) satisfy the extra hypothesis
   (distinct object paths per segment), so LazyEagerTop applies to them.

   le_file: three segments mixing the layouts --
     1. INTERLEAVED, channels a (int16) and b (bool), 2 values per chunk, TWO
        chunks (4 rows);
     2. new object list with channel b only (contiguous, 3 values, 1 chunk):
        channel a is ABSENT from this segment;
     3. appends channel a (1 value per chunk) to the list [b]: contiguous,
        TWO chunks of (3 x bool, 1 x int16).
   so windows of channel a cross a chunk boundary inside the interleaved
   segment, a segment without the channel, and chunk boundaries of a contiguous
   segment with a different chunk size.

   dup_file: the witness that the distinct-paths hypothesis is necessary.  Its
   second segment starts a new object list and lists channel a TWICE: first with
   a full index (2 values), then as "no data".  The reader keeps both objects in
   ordered_objects; object_index (a dict) maps the path to the LAST one, so
   get_segment_object returns the no-data object and the lazy read skips the
   segment, while the eager read decodes it.  Every hypothesis of read_correct
   holds.  Replayed on the implementation (see the report): TdmsFile.read gives
   [1 2 3 4], TdmsFile.open(...)[:] gives [1 2 0 0]. *)
From Coq Require Import List ZArith Bool Lia.
From Coq Require Import Init.Byte.
Import ListNotations.
From NpTdms Require Import Base.Bytes Base.Res Base.PySlice Gen.PySlice_gen Model.Tokens Model.TokensWf
     Model.SegState Model.Layout Model.Reader Model.FileSyn Model.LazyRead Model.LazyBytes
     Proofs.SegStateProofs Proofs.LayoutProofs Proofs.FileSynProofs Proofs.ReadCorrect
     Proofs.SliceProofs Proofs.LazyEagerIndex Proofs.LazyEagerView Proofs.LazyEagerTop.
Local Open Scope Z_scope.

Definition seg0 : segment := mkSeg 0 0 0 0 false [] [] 0 None.

Section Examples.
Import String.
Local Open Scope string_scope.

(* ---- rc_file and rc2_file ------------------------------------------------------- *)

Example rc_distinct : seg_paths_distinct rc_st.
Proof. apply seg_paths_distinct_b_sound. vm_compute. reflexivity. Qed.

Example rc2_distinct : seg_paths_distinct rc2_st.
Proof. apply seg_paths_distinct_b_sound. vm_compute. reflexivity. Qed.

Definition rc_chan (hh : hierarchy) (i : nat) : channel :=
  nth i (all_channels hh) (mkChan [] [] [] None None 0 []).

Example rc_chan_a : In (rc_chan rc_h 0) (all_channels rc_h) /\ ch_path (rc_chan rc_h 0) = rc_path_a.
Proof. split; [vm_compute; left; reflexivity|vm_compute; reflexivity]. Qed.
Example rc_chan_b : In (rc_chan rc_h 1) (all_channels rc_h) /\ ch_path (rc_chan rc_h 1) = rc_path_b.
Proof. split; [vm_compute; right; left; reflexivity|vm_compute; reflexivity]. Qed.
Example rc2_chan_a : In (rc_chan rc2_h 0) (all_channels rc2_h) /\ ch_path (rc_chan rc2_h 0) = rc_path_a.
Proof. split; [vm_compute; left; reflexivity|vm_compute; reflexivity]. Qed.

(* the theorem, instantiated: every lazy window of rc_file's channels is the window
   of the eager data *)
Example rc_lazy_windows : forall offs len, 0 <= offs -> len_nonneg len ->
  lz_read_bytes (ser_file rc_file) rc_path_a offs len =
  Ok (window_of offs len (chan_values rc_path_a (List.concat rc_chunks))) /\
  lz_read_bytes (ser_file rc_file) rc_path_b offs len =
  Ok (window_of offs len (chan_values rc_path_b (List.concat rc_chunks))).
Proof.
  intros offs len Ho Hl. split.
  - rewrite <- (proj2 rc_chan_a).
    exact (lazy_is_window_of_eager rc_file rc_st rc_h rc_chunks rc_wf rc_run rc_hier rc_encodes
                                   rc_canonical rc_distinct _ offs len (proj1 rc_chan_a) Ho Hl).
  - rewrite <- (proj2 rc_chan_b).
    exact (lazy_is_window_of_eager rc_file rc_st rc_h rc_chunks rc_wf rc_run rc_hier rc_encodes
                                   rc_canonical rc_distinct _ offs len (proj1 rc_chan_b) Ho Hl).
Qed.

(* evaluated: int32 channel a = 1..6 in chunks [1 2][3 4] | [5 6]; the window
   [1, 5) crosses a chunk boundary and the segment boundary *)
Example rc_window_a_eval :
  lz_read_bytes (ser_file rc_file) rc_path_a 1 (Some 4) =
  Ok [hex "02000000"; hex "03000000"; hex "04000000"; hex "05000000"] /\
  window_of 1 (Some 4) (chan_values rc_path_a (List.concat rc_chunks)) =
  [hex "02000000"; hex "03000000"; hex "04000000"; hex "05000000"].
Proof. vm_compute. split; reflexivity. Qed.

(* string channel b (ListDataReceiver), from offset 3 to the end *)
Example rc_window_b_eval :
  lz_read_bytes (ser_file rc_file) rc_path_b 3 None = Ok [hex "78797a"; hex "71"; hex "7273"] /\
  window_of 3 None (chan_values rc_path_b (List.concat rc_chunks)) = [hex "78797a"; hex "71"; hex "7273"].
Proof. vm_compute. split; reflexivity. Qed.

(* the full lazy read is the eager data *)
Example rc_full_a_eval :
  lz_read_bytes (ser_file rc_file) rc_path_a 0 None = Ok (chan_values rc_path_a (List.concat rc_chunks)).
Proof. vm_compute. reflexivity. Qed.

(* rc2_file: interleaved segment, then a segment without data objects *)
Example rc2_window_a_eval :
  lz_read_bytes (ser_file rc2_file) rc_path_a 1 (Some 5) = Ok [hex "0304"; hex "0506"] /\
  window_of 1 (Some 5) (chan_values rc_path_a (List.concat rc2_chunks)) = [hex "0304"; hex "0506"].
Proof. vm_compute. split; reflexivity. Qed.

Example rc2_lazy_windows : forall offs len, 0 <= offs -> len_nonneg len ->
  lz_read_bytes (ser_file rc2_file) rc_path_a offs len =
  Ok (window_of offs len (chan_values rc_path_a (List.concat rc2_chunks))).
Proof.
  intros offs len Ho Hl. rewrite <- (proj2 rc2_chan_a).
  exact (lazy_is_window_of_eager rc2_file rc2_st rc2_h rc2_chunks rc2_wf rc2_run rc2_hier rc2_encodes
                                 rc2_canonical rc2_distinct _ offs len (proj1 rc2_chan_a) Ho Hl).
Qed.

(* ---- le_file: interleaved x 2 chunks | channel absent | contiguous x 2 chunks ---- *)

Definition le_file : list fseg :=
  [ mkFseg 46 4713
      (Some [ mkEntry (hex "2f2767272f276127") (IFull 20 2 1 2 None) [];
              mkEntry (hex "2f2767272f276227") (IFull 20 T_BOOL 1 2 None) [] ])
      (hex "010201030400050601070800");
    mkFseg 14 4713
      (Some [ mkEntry (hex "2f2767272f276227") (IFull 20 T_BOOL 1 3 None) [] ])
      (hex "010101");
    mkFseg 10 4713
      (Some [ mkEntry (hex "2f2767272f276127") (IFull 20 2 1 1 None) [] ])
      (hex "0001000a0b0100010c0d") ].

Definition le_st : rstate := match sm_run le_file false with Ok st => st | Err _ => rstate0 end.
Definition le_h : hierarchy :=
  match build_hierarchy (rs_om le_st) with Ok h => h | Err _ => mkHier [] [] end.

Definition le_a2 : sobj := mkSobj rc_path_a true 2 4 (Some 2) None.        (* int16 x 2 *)
Definition le_b2 : sobj := mkSobj rc_path_b true 2 2 (Some T_BOOL) None.   (* bool x 2 *)
Definition le_b3 : sobj := mkSobj rc_path_b true 3 3 (Some T_BOOL) None.   (* bool x 3 *)
Definition le_a1 : sobj := mkSobj rc_path_a true 1 2 (Some 2) None.        (* int16 x 1 *)

Definition le_rows : list (list bytes) :=
  [ [hex "0102"; hex "01"]; [hex "0304"; hex "00"]; [hex "0506"; hex "01"]; [hex "0708"; hex "00"] ].

Definition le_css2 : list (list (list bytes)) := [ [ [hex "01"; hex "01"; hex "01"] ] ].
Definition le_css3 : list (list (list bytes)) :=
  [ [ [hex "00"; hex "01"; hex "00"]; [hex "0a0b"] ];
    [ [hex "01"; hex "00"; hex "01"]; [hex "0c0d"] ] ].

Definition le_chunks : list (list chunk) :=
  [ [ [(rc_path_a, CData [hex "0102"; hex "0304"; hex "0506"; hex "0708"]);
       (rc_path_b, CData [hex "01"; hex "00"; hex "01"; hex "00"])] ];
    [ [(rc_path_b, CData [hex "01"; hex "01"; hex "01"])] ];
    [ [(rc_path_b, CData [hex "00"; hex "01"; hex "00"]); (rc_path_a, CData [hex "0a0b"])];
      [(rc_path_b, CData [hex "01"; hex "00"; hex "01"]); (rc_path_a, CData [hex "0c0d"])] ] ].

Example le_wf : wf_file le_file.
Proof. unfold wf_file. vm_compute. reflexivity. Qed.

Example le_run : sm_run le_file false = Ok le_st.
Proof. vm_compute. reflexivity. Qed.

Example le_hier : build_hierarchy (rs_om le_st) = Ok le_h.
Proof. vm_compute. reflexivity. Qed.

Example le_encodes : segs_encode (rs_segments le_st) le_file le_chunks.
Proof.
  assert (Hsegs : rs_segments le_st = [nth 0 (rs_segments le_st) seg0; nth 1 (rs_segments le_st) seg0;
                                        nth 2 (rs_segments le_st) seg0])
    by (vm_compute; reflexivity).
  rewrite Hsegs. clear Hsegs.
  unfold le_file, le_chunks.
  constructor; [|constructor; [|constructor; [|constructor]]].
  - eapply (rc_seg_interleaved _ _ [le_a2; le_b2] 2 2 le_rows).
    + vm_compute. reflexivity.
    + vm_compute. reflexivity.
    + discriminate.
    + reflexivity.
    + discriminate.
    + repeat constructor.
    + repeat constructor; discriminate.
    + vm_compute. reflexivity.
    + unfold le_rows. repeat constructor.
    + reflexivity.
    + vm_compute. reflexivity.
    + vm_compute. reflexivity.
  - eapply (rc_seg_contig _ _ [le_b3] le_css2).
    + vm_compute. reflexivity.
    + vm_compute. reflexivity.
    + vm_compute. reflexivity.
    + vm_compute. reflexivity.
    + unfold le_css2. repeat constructor.
    + unfold le_css2. repeat constructor.
    + vm_compute. reflexivity.
    + vm_compute. reflexivity.
  - eapply (rc_seg_contig _ _ [le_b3; le_a1] le_css3).
    + vm_compute. reflexivity.
    + vm_compute. reflexivity.
    + vm_compute. reflexivity.
    + vm_compute. reflexivity.
    + unfold le_css3. repeat constructor.
    + unfold le_css3. repeat constructor.
    + vm_compute. reflexivity.
    + vm_compute. reflexivity.
Qed.

Example le_canonical : om_paths_canonical (rs_om le_st).
Proof. apply om_paths_canonical_b_sound. vm_compute. reflexivity. Qed.

Example le_typed_channels : typed_objects_are_channels (rs_om le_st).
Proof. apply typed_objects_are_channels_b_sound. vm_compute. reflexivity. Qed.

Example le_distinct : seg_paths_distinct le_st.
Proof. apply seg_paths_distinct_b_sound. vm_compute. reflexivity. Qed.

Example le_chan_a : In (rc_chan le_h 0) (all_channels le_h) /\ ch_path (rc_chan le_h 0) = rc_path_a.
Proof. split; [vm_compute; left; reflexivity|vm_compute; reflexivity]. Qed.
Example le_chan_b : In (rc_chan le_h 1) (all_channels le_h) /\ ch_path (rc_chan le_h 1) = rc_path_b.
Proof. split; [vm_compute; right; left; reflexivity|vm_compute; reflexivity]. Qed.

(* the eager read of le_file (C01) ... *)
Example le_read_correct :
  rd_all (ser_file le_file) = Ok (expected_tokens le_st le_h (List.concat le_chunks), true).
Proof.
  exact (read_correct le_file le_st le_h le_chunks le_wf le_run le_hier le_encodes
                      le_canonical le_typed_channels).
Qed.

(* ... and every lazy window, by the theorem *)
Example le_lazy_windows : forall offs len, 0 <= offs -> len_nonneg len ->
  lz_read_bytes (ser_file le_file) rc_path_a offs len =
  Ok (window_of offs len (chan_values rc_path_a (List.concat le_chunks))) /\
  lz_read_bytes (ser_file le_file) rc_path_b offs len =
  Ok (window_of offs len (chan_values rc_path_b (List.concat le_chunks))).
Proof.
  intros offs len Ho Hl. split.
  - rewrite <- (proj2 le_chan_a).
    exact (lazy_is_window_of_eager le_file le_st le_h le_chunks le_wf le_run le_hier le_encodes
                                   le_canonical le_distinct _ offs len (proj1 le_chan_a) Ho Hl).
  - rewrite <- (proj2 le_chan_b).
    exact (lazy_is_window_of_eager le_file le_st le_h le_chunks le_wf le_run le_hier le_encodes
                                   le_canonical le_distinct _ offs len (proj1 le_chan_b) Ho Hl).
Qed.

(* evaluated on the bytes.  Channel a = 0102 0304 | 0506 0708 || (absent) || 0a0b | 0c0d *)
Example le_window_a_1_4 :
  lz_read_bytes (ser_file le_file) rc_path_a 1 (Some 4) =
  Ok [hex "0304"; hex "0506"; hex "0708"; hex "0a0b"] /\
  window_of 1 (Some 4) (chan_values rc_path_a (List.concat le_chunks)) =
  [hex "0304"; hex "0506"; hex "0708"; hex "0a0b"].
Proof. vm_compute. split; reflexivity. Qed.

Example le_window_a_3_end :
  lz_read_bytes (ser_file le_file) rc_path_a 3 None = Ok [hex "0708"; hex "0a0b"; hex "0c0d"] /\
  window_of 3 None (chan_values rc_path_a (List.concat le_chunks)) = [hex "0708"; hex "0a0b"; hex "0c0d"].
Proof. vm_compute. split; reflexivity. Qed.

(* channel b = 01 00 | 01 00 || 01 01 01 || 00 01 00 | 01 00 01 *)
Example le_window_b_3_6 :
  lz_read_bytes (ser_file le_file) rc_path_b 3 (Some 6) =
  Ok [hex "00"; hex "01"; hex "01"; hex "01"; hex "00"; hex "01"] /\
  window_of 3 (Some 6) (chan_values rc_path_b (List.concat le_chunks)) =
  [hex "00"; hex "01"; hex "01"; hex "01"; hex "00"; hex "01"].
Proof. vm_compute. split; reflexivity. Qed.

(* empty window in the middle, window past the end, negative offset *)
Example le_window_edge :
  lz_read_bytes (ser_file le_file) rc_path_a 5 (Some 0) = Ok [] /\
  lz_read_bytes (ser_file le_file) rc_path_a 4 (Some 100) = Ok [hex "0a0b"; hex "0c0d"] /\
  lz_read_bytes (ser_file le_file) rc_path_a 9 None = Ok [] /\
  lz_read_bytes (ser_file le_file) rc_path_a (-1) None = Err EValue.
Proof. vm_compute. repeat split; reflexivity. Qed.

(* channel a[-1::-2] through the translated _read_slice on the bytes = Python's slice
   of the eager data; a[-6] and a[6] through the index path *)
Example le_slice_a :
  run_slice (fun o l => lz_read_bytes (ser_file le_file) rc_path_a o (Some l)) 6 (Some (-1)) None (Some (-2))
  = Ok [hex "0c0d"; hex "0708"; hex "0304"] /\
  py_slice3 (chan_values rc_path_a (List.concat le_chunks)) (Some (-1)) None (Some (-2))
  = Ok [hex "0c0d"; hex "0708"; hex "0304"].
Proof. vm_compute. split; reflexivity. Qed.

Example le_slice_by_theorem : forall start stop step,
  run_slice (fun o l => lz_read_bytes (ser_file le_file) rc_path_a o (Some l)) 6 start stop step
  = py_slice3 (chan_values rc_path_a (List.concat le_chunks)) start stop step.
Proof.
  intros start stop step. rewrite <- (proj2 le_chan_a).
  change 6 with (ch_len (rc_chan le_h 0)).
  exact (lazy_slice_correct le_file le_st le_h le_chunks le_wf le_run le_hier le_encodes
                            le_canonical le_distinct _ start stop step (proj1 le_chan_a)).
Qed.

(* C14: len(channel) = number of values read, eagerly and lazily *)
Example le_lengths :
  ch_len (rc_chan le_h 0) = 6 /\ ch_len (rc_chan le_h 1) = 13 /\
  Z.of_nat (List.length (chan_values rc_path_a (List.concat le_chunks))) = 6 /\
  Z.of_nat (List.length (chan_values rc_path_b (List.concat le_chunks))) = 13.
Proof. vm_compute. repeat split; reflexivity. Qed.


Example le_lengths_lazy :
  exists va vb,
    lz_read_bytes (ser_file le_file) rc_path_a 0 None = Ok va /\ Z.of_nat (List.length va) = 6 /\
    lz_read_bytes (ser_file le_file) rc_path_b 0 None = Ok vb /\ Z.of_nat (List.length vb) = 13.
Proof.
  destruct (full_read_length_ser le_file le_st le_h le_chunks le_wf le_run le_hier le_encodes
                                 le_canonical le_distinct _ (proj1 le_chan_a)) as (_ & va & Ha & La).
  destruct (full_read_length_ser le_file le_st le_h le_chunks le_wf le_run le_hier le_encodes
                                 le_canonical le_distinct _ (proj1 le_chan_b)) as (_ & vb & Hb & Lb).
  rewrite (proj2 le_chan_a) in Ha. rewrite (proj2 le_chan_b) in Hb.
  destruct le_lengths as (Ea & Eb & _). rewrite Ea in La. rewrite Eb in Lb.
  exists va, vb. auto.
Qed.

(* ---- dup_file: the distinct-paths hypothesis is necessary ------------------------- *)

Definition dup_file : list fseg :=
  [ mkFseg 14 4713
      (Some [ mkEntry (hex "2f2767272f276127") (IFull 20 3 1 2 None) [] ])
      (hex "0100000002000000");
    mkFseg 14 4713
      (Some [ mkEntry (hex "2f2767272f276127") (IFull 20 3 1 2 None) [];
              mkEntry (hex "2f2767272f276127") INoData [] ])
      (hex "0300000004000000") ].

Definition dup_st : rstate := match sm_run dup_file false with Ok st => st | Err _ => rstate0 end.
Definition dup_h : hierarchy :=
  match build_hierarchy (rs_om dup_st) with Ok h => h | Err _ => mkHier [] [] end.
Definition dup_a : sobj := mkSobj rc_path_a true 2 8 (Some 3) None.
Definition dup_chunks : list (list chunk) :=
  [ [ [(rc_path_a, CData [hex "01000000"; hex "02000000"])] ];
    [ [(rc_path_a, CData [hex "03000000"; hex "04000000"])] ] ].

Example dup_wf : wf_file dup_file.
Proof. unfold wf_file. vm_compute. reflexivity. Qed.
Example dup_run : sm_run dup_file false = Ok dup_st.
Proof. vm_compute. reflexivity. Qed.
Example dup_hier : build_hierarchy (rs_om dup_st) = Ok dup_h.
Proof. vm_compute. reflexivity. Qed.

Example dup_encodes : segs_encode (rs_segments dup_st) dup_file dup_chunks.
Proof.
  assert (Hsegs : rs_segments dup_st = [nth 0 (rs_segments dup_st) seg0; nth 1 (rs_segments dup_st) seg0])
    by (vm_compute; reflexivity).
  rewrite Hsegs. clear Hsegs.
  unfold dup_file, dup_chunks.
  constructor; [|constructor; [|constructor]].
  - eapply (rc_seg_contig _ _ [dup_a] [ [ [hex "01000000"; hex "02000000"] ] ]).
    + vm_compute. reflexivity.
    + vm_compute. reflexivity.
    + vm_compute. reflexivity.
    + vm_compute. reflexivity.
    + repeat constructor.
    + repeat constructor.
    + vm_compute. reflexivity.
    + vm_compute. reflexivity.
  - eapply (rc_seg_contig _ _ [dup_a] [ [ [hex "03000000"; hex "04000000"] ] ]).
    + vm_compute. reflexivity.
    + vm_compute. reflexivity.
    + vm_compute. reflexivity.
    + vm_compute. reflexivity.
    + repeat constructor.
    + repeat constructor.
    + vm_compute. reflexivity.
    + vm_compute. reflexivity.
Qed.

Example dup_canonical : om_paths_canonical (rs_om dup_st).
Proof. apply om_paths_canonical_b_sound. vm_compute. reflexivity. Qed.
Example dup_typed_channels : typed_objects_are_channels (rs_om dup_st).
Proof. apply typed_objects_are_channels_b_sound. vm_compute. reflexivity. Qed.

(* the second segment's object list names the path twice *)
Example dup_not_distinct : seg_paths_distinct_b dup_st = false.
Proof. vm_compute. reflexivity. Qed.

(* without "no path twice in a segment's object list", lazy <> eager although every
   hypothesis of read_correct holds and the eager read succeeds with 4 values *)
Theorem lazy_eq_eager_refuted :
  exists segs st h chunkss c,
    wf_file segs /\ sm_run segs false = Ok st /\ build_hierarchy (rs_om st) = Ok h /\
    segs_encode (rs_segments st) segs chunkss /\ om_paths_canonical (rs_om st) /\
    typed_objects_are_channels (rs_om st) /\
    In c (all_channels h) /\ ch_dtype c <> None /\
    rd_all (ser_file segs) = Ok (expected_tokens st h (List.concat chunkss), true) /\
    chan_values (ch_path c) (List.concat chunkss) =
      [hex "01000000"; hex "02000000"; hex "03000000"; hex "04000000"] /\
    ch_len c = 4 /\
    lz_read_bytes (ser_file segs) (ch_path c) 0 None = Ok [hex "01000000"; hex "02000000"] /\
    lz_read_bytes (ser_file segs) (ch_path c) 0 None <> Ok (chan_values (ch_path c) (List.concat chunkss)).
Proof.
  exists dup_file, dup_st, dup_h, dup_chunks, (rc_chan dup_h 0).
  split; [exact dup_wf|]. split; [exact dup_run|]. split; [exact dup_hier|].
  split; [exact dup_encodes|]. split; [exact dup_canonical|]. split; [exact dup_typed_channels|].
  split; [vm_compute; left; reflexivity|]. split; [vm_compute; discriminate|].
  split; [exact (read_correct dup_file dup_st dup_h dup_chunks dup_wf dup_run dup_hier dup_encodes
                              dup_canonical dup_typed_channels)|].
  split; [vm_compute; reflexivity|]. split; [vm_compute; reflexivity|].
  split; [vm_compute; reflexivity|]. vm_compute. discriminate.
Qed.

End Examples.
