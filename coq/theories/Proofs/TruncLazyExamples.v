(* C06, lazy = eager on cut files: concrete instances for Props/C06_lazy.v.
   The three files of Props/C06_values.v (tv_file: int32 + int16 contiguous, two
   segments; rc_file: int32 + STRING, second segment without metadata; rc2_file:
   INTERLEAVED int16 + bool, then a metadata-only segment). *)
From Coq Require Import List ZArith Bool Lia.
From Coq Require Import Init.Byte.
Import ListNotations.
From NpTdms Require Import Base.Bytes Base.Res Base.PySlice Model.Tokens Model.TokensWf Model.SegState
     Model.Layout Model.Reader Model.FileSyn Model.LazyRead Model.LazyBytes
     Proofs.LayoutProofs Proofs.FileSynProofs Proofs.ReadCorrect Proofs.TruncValuesLayout
     Proofs.TruncValuesFile Proofs.TruncValuesExamples Proofs.LazyEagerIndex Proofs.LazyEagerView
     Proofs.LazyEagerTop Proofs.LazyEagerExamples Proofs.TruncLazyLayout Proofs.TruncLazyFile
     Proofs.TruncLazyUnknown.
Local Open Scope Z_scope.

Example tv_distinct : seg_paths_distinct tv_st.
Proof. apply seg_paths_distinct_b_sound. vm_compute. reflexivity. Qed.

(* the eager values of a path, read off the receivers of the eager data pass *)
Definition eager_vals (data path : bytes) : list bytes :=
  match rd_metadata data false (Some (blen data)) false with
  | Ok st =>
    match build_hierarchy (rs_om st) with
    | Ok h => match rd_eager st h data with
              | Ok recv => match alookup path recv with
                           | Some (Some (CData vs)) => vs
                           | _ => []
                           end
              | Err _ => []
              end
    | Err _ => []
    end
  | Err _ => []
  end.

(* every cut 4..len, every path, a family of windows: the lazy read on the cut
   bytes is the window of the eager values of the SAME cut bytes *)
Definition windows : list (Z * option Z) :=
  [(0, None); (1, None); (3, None); (7, None); (0, Some 0); (0, Some 1); (1, Some 2); (2, Some 3);
   (1, Some 4); (3, Some 9)].

Definition all_cuts_lazy_ok (segs : list fseg) (paths : list bytes) : bool :=
  let f := ser_file segs in
  forallb (fun k =>
             let data := take (Z.of_nat k) f in
             forallb (fun p =>
                        let ev := eager_vals data p in
                        forallb (fun ol =>
                                   match lz_read_bytes data p (fst ol) (snd ol) with
                                   | Ok vs => vals_eqb vs (window_of (fst ol) (snd ol) ev)
                                   | Err _ => false
                                   end) windows) paths)
          (seq 4 (length f - 3)).

Example all_cuts_lazy_of_the_examples :
  all_cuts_lazy_ok tv_file [rc_path_a; rc_path_b] = true /\
  all_cuts_lazy_ok rc_file [rc_path_a; rc_path_b] = true /\
  all_cuts_lazy_ok rc2_file [rc_path_a; rc_path_b] = true.
Proof. vm_compute. repeat split. Qed.

Section Ex.
Import String.
Local Open Scope string_scope.

(* tv_file cut at 152 (inside chunk 2 of segment 1, in the middle of an int32):
   eager a = 1,2,3 ; b = 10,11 (Props/C06_values.v).  Lazy: *)
Example tv_cut_lazy_eval :
  lz_read_bytes (take 152 (ser_file tv_file)) rc_path_a 0 None
  = Ok [hex "01000000"; hex "02000000"; hex "03000000"] /\
  lz_read_bytes (take 152 (ser_file tv_file)) rc_path_a 1 (Some 5) = Ok [hex "02000000"; hex "03000000"] /\
  lz_read_bytes (take 152 (ser_file tv_file)) rc_path_a 2 (Some 1) = Ok [hex "03000000"] /\
  lz_read_bytes (take 152 (ser_file tv_file)) rc_path_b 0 None = Ok [hex "0a00"; hex "0b00"] /\
  lz_read_bytes (take 152 (ser_file tv_file)) rc_path_b 1 None = Ok [hex "0b00"] /\
  eager_vals (take 152 (ser_file tv_file)) rc_path_a = [hex "01000000"; hex "02000000"; hex "03000000"] /\
  eager_vals (take 152 (ser_file tv_file)) rc_path_b = [hex "0a00"; hex "0b00"].
Proof. vm_compute. repeat split. Qed.

(* rc_file cut at 190 (a string channel in the truncated chunk: nobody gets a value
   from it): a = 1,2 ; b = "ab","c" *)
Example rc_cut_lazy_eval :
  lz_read_bytes (take 190 (ser_file rc_file)) rc_path_a 0 None = Ok [hex "01000000"; hex "02000000"] /\
  lz_read_bytes (take 190 (ser_file rc_file)) rc_path_b 0 None = Ok [hex "6162"; hex "63"] /\
  lz_read_bytes (take 190 (ser_file rc_file)) rc_path_b 1 (Some 3) = Ok [hex "63"] /\
  eager_vals (take 190 (ser_file rc_file)) rc_path_b = [hex "6162"; hex "63"].
Proof. vm_compute. repeat split. Qed.

(* rc2_file (interleaved) cut at 108: one complete row *)
Example rc2_cut_lazy_eval :
  lz_read_bytes (take 108 (ser_file rc2_file)) rc_path_a 0 None = Ok [hex "0102"] /\
  lz_read_bytes (take 108 (ser_file rc2_file)) rc_path_b 0 None = Ok [hex "01"] /\
  lz_read_bytes (take 108 (ser_file rc2_file)) rc_path_a 1 None = Ok [] /\
  eager_vals (take 108 (ser_file rc2_file)) rc_path_a = [hex "0102"].
Proof. vm_compute. repeat split. Qed.

(* the view of the cut segment: tv_file cut at 152, channel a: two chunks, the
   final one with 1 value (override), channel b: final chunk with 0 values *)
Example tv_cut_view_eval :
  (do '(svs, _) <- channel_view (take 152 (ser_file tv_file)) rc_path_a;
   Ok (map (fun sv => (sv_chunk sv, sv_nchunks sv, sv_final sv, map (@List.length bytes) (sv_vals sv))) svs))
  = Ok [(2, 2, Some 1, [2%nat; 1%nat])] /\
  (do '(svs, _) <- channel_view (take 152 (ser_file tv_file)) rc_path_b;
   Ok (map (fun sv => (sv_chunk sv, sv_nchunks sv, sv_final sv, map (@List.length bytes) (sv_vals sv))) svs))
  = Ok [(2, 2, Some 0, [2%nat; 0%nat])].
Proof. vm_compute. split; reflexivity. Qed.
End Ex.

(* ---- the length-unknown marker ---------------------------------------------------- *)

(* rc_file with the marker in its last lead-in (segment 2 starts at 207; the
   next-segment field is bytes 219..226): same length, only those 8 bytes differ *)
Definition differing_offsets (a b : bytes) : list nat :=
  filter (fun i => negb (bytes_eqb (firstn 1 (skipn i a)) (firstn 1 (skipn i b)))) (seq 0 (length a)).

Example unknown_bytes_rc :
  length (ser_file_unknown_last rc_file) = length (ser_file rc_file) /\
  differing_offsets (ser_file_unknown_last rc_file) (ser_file rc_file)
  = [219; 220; 221; 222; 223; 224; 225; 226]%nat /\
  read_at 219 8 (ser_file_unknown_last rc_file) = [xff; xff; xff; xff; xff; xff; xff; xff].
Proof. vm_compute. repeat split. Qed.

Definition toks_opt_eqb (a b : res (list tok * bool)) : bool :=
  match a, b with
  | Ok (t, f), Ok (t', f') => toks_eqb t t' && Bool.eqb f f'
  | Err _, Err _ => true
  | _, _ => false
  end.

(* every cut 4 <= k < len: the eager observation and a family of lazy windows of
   the marker file equal those of the explicit-length file cut at the same offset *)
Definition all_cuts_unknown_ok (segs : list fseg) (paths : list bytes) : bool :=
  let e := ser_file segs in
  let u := ser_file_unknown_last segs in
  forallb (fun k =>
             let de := take (Z.of_nat k) e in
             let du := take (Z.of_nat k) u in
             toks_opt_eqb (rd_all du) (rd_all de) &&
             forallb (fun p =>
                        forallb (fun ol =>
                                   match lz_read_bytes du p (fst ol) (snd ol), lz_read_bytes de p (fst ol) (snd ol) with
                                   | Ok a, Ok b => vals_eqb a b
                                   | _, _ => false
                                   end) windows) paths)
          (seq 4 (length e - 4)).

(* ms_file: ONE segment with a string channel and an int32 channel in TWO chunks
   (segment 1 of rc_file) -- strings in a multi-chunk segment under the marker *)
Definition ms_file : list fseg := firstn 1 rc_file.

Example all_cuts_unknown_of_the_examples :
  all_cuts_unknown_ok tv_file [rc_path_a; rc_path_b] = true /\
  all_cuts_unknown_ok rc_file [rc_path_a; rc_path_b] = true /\
  all_cuts_unknown_ok rc2_file [rc_path_a; rc_path_b] = true /\
  all_cuts_unknown_ok ms_file [rc_path_a; rc_path_b] = true.
Proof. vm_compute. repeat split. Qed.

(* the complete marker file: the values of the explicit file, status "incomplete"
   (first status token 1 instead of 0), for tv_file, rc_file and the multi-chunk
   string file ms_file *)
Definition complete_unknown_ok (segs : list fseg) (paths : list bytes) : bool :=
  let e := ser_file segs in
  let u := ser_file_unknown_last segs in
  match rd_all u, rd_all e with
  | Ok (tu, true), Ok (te, true) =>
    let nu := (length tu - length (match rd_metadata u false (Some (blen u)) false with
                                   | Ok st => obs_status st | Err _ => [] end))%nat in
    let ne := (length te - length (match rd_metadata e false (Some (blen e)) false with
                                   | Ok st => obs_status st | Err _ => [] end))%nat in
    toks_eqb (firstn nu tu) (firstn ne te) &&
    toks_eqb (firstn 1 (skipn nu tu)) [TZ 1] && toks_eqb (firstn 1 (skipn ne te)) [TZ 0] &&
    forallb (fun p => match lz_read_bytes u p 0 None, lz_read_bytes e p 0 None with
                      | Ok a, Ok b => vals_eqb a b && vals_eqb a (eager_vals u p)
                      | _, _ => false
                      end) paths
  | _, _ => false
  end.

Example complete_unknown_of_the_examples :
  complete_unknown_ok tv_file [rc_path_a; rc_path_b] = true /\
  complete_unknown_ok rc_file [rc_path_a; rc_path_b] = true /\
  complete_unknown_ok ms_file [rc_path_a; rc_path_b] = true.
Proof. vm_compute. repeat split. Qed.

Section ExU.
Import String.
Local Open Scope string_scope.
(* the marker file of rc_file, complete: a = 1..6, b = "ab","c","","xyz","q","rs";
   file_status: incomplete final segment, per channel (expected 2 / read 2)... the
   last segment has 2 + 2 values in one chunk *)
Example unknown_complete_rc_tokens :
  rd_all (ser_file_unknown_last rc_file) =
  Ok ([TZ 4713; TZ 0; TZ 1; TB (hex "67"); TZ 1; TB (hex "6e"); TZ 3; TB (hex "6869"); TZ 2;
       TB (hex "61"); TB (hex "67"); TB rc_path_a; TZ 3; TZ 6; TZ 1; TB (hex "70"); TZ 0; TZ 7;
       TZ 0; TZ 6; TB (hex "01000000"); TB (hex "02000000"); TB (hex "03000000"); TB (hex "04000000");
       TB (hex "05000000"); TB (hex "06000000");
       TB (hex "62"); TB (hex "67"); TB rc_path_b; TZ 32; TZ 6; TZ 0;
       TZ 0; TZ 6; TB (hex "6162"); TB (hex "63"); TB []; TB (hex "78797a"); TB (hex "71"); TB (hex "7273");
       TZ 1; TZ 1; TZ 2; TB rc_path_a; TZ 2; TZ 2; TB rc_path_b; TZ 2; TZ 2], true).
Proof. vm_compute. reflexivity. Qed.
End ExU.
