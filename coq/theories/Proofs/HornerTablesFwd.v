(* Proofs/HornerTablesFwd.v -- forward tables: the PrimFloat literals denote the hex real
   literals next to them, and per piece the rounding bound of Proofs/HornerTables.v holds
   (computed coefficient by coefficient with `interval`). *)
From Coq Require Import Reals ZArith List Lra Bool.
From Coq Require Import PrimFloat FloatOps.
From Flocq Require Import Core BinarySingleNaN.
From Interval Require Import Tactic.
Import ListNotations.
From NpTdms Require Import Gen.ThermoTables.
From NpTdms Require Import Model.ThermoR.
From NpTdms Require Import Proofs.HornerRound.
From NpTdms Require Import Proofs.HornerTables.
Open Scope R_scope.

Lemma fwd_tables_FR : forall T, map piece_FR (code_fwdF T) = map Some (code_fwdR T).
Proof. intros T. tables_FR_tac T. Qed.

Lemma fwd_pieces_ok : forall T,
  all2 (piece_ok (fst (fwd_range T)) (snd (fwd_range T))) (code_fwdR T) (fwd_Xe T).
Proof. intros T; destruct T; pieces_ok_tac. Qed.
