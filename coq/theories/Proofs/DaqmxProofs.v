(* Lemmas for C11: the row matrix of an interleaved / DAQmx buffer is strided
   direct addressing. *)
From Coq Require Import List ZArith Bool Lia.
Import ListNotations.
From NpTdms Require Import Base.Bytes Base.Res Model.Tokens Model.SegState Model.Layout.
Local Open Scope Z_scope.

Lemma skipn_skipn' {A} (a b : nat) (l : list A) : skipn a (skipn b l) = skipn (b + a) l.
Proof.
  revert l. induction b as [|b IH]; intros l; [reflexivity|].
  destruct l as [|x l]; cbn [skipn Nat.add]; [destruct a; reflexivity|]. apply IH.
Qed.

Lemma drop_drop (a b : Z) (l : bytes) : 0 <= a -> 0 <= b -> drop a (drop b l) = drop (b + a) l.
Proof.
  intros Ha Hb. rewrite !drop_skipn. rewrite skipn_skipn'. f_equal. lia.
Qed.

Lemma items_of_nth (fuel : nat) (width : Z) : forall (buf : bytes) (i : nat) (row : bytes),
    0 < width ->
    nth_error (items_of fuel width buf) i = Some row ->
    row = read_at (Z.of_nat i * width) width buf.
Proof.
  induction fuel as [|f IH]; intros buf i row Hw H.
  - destruct i; discriminate.
  - cbn [items_of] in H.
    destruct ((blen buf <? width) || (width <=? 0)) eqn:E.
    + destruct i; discriminate.
    + destruct i as [|i].
      * cbn in H. injection H as <-. unfold read_at. cbn.
        replace (drop 0 buf) with buf; [reflexivity|].
        rewrite drop_skipn. reflexivity.
      * cbn [nth_error] in H. apply IH in H; [|exact Hw]. subst row.
        unfold read_at. rewrite drop_drop by lia. f_equal. f_equal. lia.
Qed.
