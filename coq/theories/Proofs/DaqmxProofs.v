(* Lemmas for C11: the row matrix of an interleaved / DAQmx buffer is strided
   direct addressing. *)
From Coq Require Import List ZArith Bool Lia ZifyBool.
Import ListNotations.
From Coq Require String.
From NpTdms Require Import Base.Bytes Base.Res Model.Tokens Model.SegState Model.Layout
     Proofs.SegStateProofs.
Local Open Scope Z_scope.

Lemma skipn_skipn' {A} (a b : nat) (l : list A) : skipn a (skipn b l) = skipn (b + a) l.
Proof.
  revert l. induction b as [|b IH]; intros l; [reflexivity|].
  destruct l as [|x l]; cbn [skipn Nat.add]; [destruct a; reflexivity|]. apply IH.
Qed.

Lemma drop_drop (a b : Z) (l : bytes) : 0 <= a -> 0 <= b -> drop a (drop b l) = drop (b + a) l.
Proof.
  intros Ha Hb. rewrite !drop_skipn. rewrite skipn_skipn'. f_equal. lia.
Qed.

Lemma items_of_nth (fuel : nat) (width : Z) : forall (buf : bytes) (i : nat) (row : bytes),
    0 < width ->
    nth_error (items_of fuel width buf) i = Some row ->
    row = read_at (Z.of_nat i * width) width buf.
Proof.
  induction fuel as [|f IH]; intros buf i row Hw H.
  - destruct i; discriminate.
  - cbn [items_of] in H.
    destruct ((blen buf <? width) || (width <=? 0)) eqn:E.
    + destruct i; discriminate.
    + destruct i as [|i].
      * cbn in H. injection H as <-. unfold read_at. cbn.
        replace (drop 0 buf) with buf; [reflexivity|].
        rewrite drop_skipn. reflexivity.
      * cbn [nth_error] in H. apply IH in H; [|exact Hw]. subst row.
        unfold read_at. rewrite drop_drop by lia. f_equal. f_equal. lia.
Qed.

(* ---- slicing algebra -------------------------------------------------------- *)

Lemma take_take (a b : Z) (l : bytes) : take a (take b l) = take (Z.min a b) l.
Proof. rewrite !take_firstn, firstn_firstn. f_equal. lia. Qed.

Lemma drop_take (a b : Z) (l : bytes) : 0 <= a -> drop a (take b l) = take (b - a) (drop a l).
Proof.
  intros Ha. rewrite !take_firstn, !drop_skipn, skipn_firstn_comm. f_equal. lia.
Qed.

Lemma blen_drop (n : Z) (l : bytes) : 0 <= n -> blen (drop n l) = blen l - Z.min n (blen l).
Proof. intros Hn. rewrite drop_skipn. unfold blen. rewrite skipn_length. lia. Qed.

Lemma blen_take (n : Z) (l : bytes) : 0 <= n -> blen (take n l) = Z.min n (blen l).
Proof. intros Hn. rewrite take_firstn. unfold blen. rewrite firstn_length. lia. Qed.

(* a window of a window is a window of the whole *)
Lemma read_at_sub (a n b m : Z) (l : bytes) :
  0 <= a -> 0 <= b -> b + m <= n ->
  read_at b m (read_at a n l) = read_at (a + b) m l.
Proof.
  intros Ha Hb Hm. unfold read_at. rewrite drop_take by exact Hb.
  rewrite take_take, drop_drop by assumption. f_equal. lia.
Qed.

(* ---- the row matrix --------------------------------------------------------- *)

(* number of complete rows *)
Lemma items_of_length (width : Z) : 0 < width -> forall (fuel : nat) (buf : bytes),
    (length buf <= fuel)%nat ->
    Z.of_nat (length (items_of fuel width buf)) = blen buf / width.
Proof.
  intros Hw. induction fuel as [|f IH]; intros buf Hfuel.
  - destruct buf; [|cbn in Hfuel; lia]. change (0 = 0 / width). symmetry. apply Z.div_0_l. lia.
  - cbn [items_of]. destruct ((blen buf <? width) || (width <=? 0)) eqn:E.
    + cbn [length]. pose proof (blen_nonneg buf). rewrite Z.div_small by lia. reflexivity.
    + cbn [length]. rewrite Nat2Z.inj_succ, IH.
      * rewrite blen_drop by lia. rewrite Z.min_l by lia.
        assert (Hd : blen buf / width = (blen buf - width) / width + 1).
        { replace (blen buf) with ((blen buf - width) + 1 * width) at 1 by lia.
          apply Z.div_add. lia. }
        lia.
      * assert (Hl : blen (drop width buf) = blen buf - Z.min width (blen buf)) by (apply blen_drop; lia).
        unfold blen in *. lia.
Qed.

Lemma items_length (width : Z) (buf : bytes) :
  0 < width -> Z.of_nat (length (items width buf)) = blen buf / width.
Proof. intros Hw. apply items_of_length; [exact Hw|lia]. Qed.

(* Selecting byte columns [off, off+sz) from the row matrix IS reading [sz]
   bytes at [i * width + off] in the flat buffer, for every complete row i. *)
Theorem column_direct_addressing (e : endian) (dt : Z) (fuel : nat) (width : Z) (buf : bytes)
        (off sz : Z) (i : nat) :
  0 < width -> 0 <= off -> off + sz <= width ->
  (i < length (items_of fuel width buf))%nat ->
  nth_error (column_values e dt (items_of fuel width buf) off sz) i
  = Some (canon_value e dt (read_at (Z.of_nat i * width + off) sz buf)).
Proof.
  intros Hw Hoff Hsz Hi. unfold column_values. rewrite nth_error_map.
  destruct (nth_error (items_of fuel width buf) i) as [row|] eqn:Hrow.
  - apply items_of_nth in Hrow; [|exact Hw]. subst row. cbn [option_map]. do 2 f_equal.
    change (take sz (drop off (read_at (Z.of_nat i * width) width buf)))
      with (read_at off sz (read_at (Z.of_nat i * width) width buf)).
    apply read_at_sub; lia.
  - apply nth_error_None in Hrow. lia.
Qed.

Lemma column_values_length e dt rows off sz : length (column_values e dt rows off sz) = length rows.
Proof. unfold column_values. apply map_length. Qed.

(* ---- scalers ---------------------------------------------------------------- *)

(* every row of the matrix lies completely inside the buffer *)
Lemma items_of_nth_bound (fuel : nat) (width : Z) : forall (buf : bytes) (i : nat) (row : bytes),
    0 < width ->
    nth_error (items_of fuel width buf) i = Some row ->
    (Z.of_nat i + 1) * width <= blen buf.
Proof.
  induction fuel as [|f IH]; intros buf i row Hw H.
  - destruct i; discriminate.
  - cbn [items_of] in H.
    destruct ((blen buf <? width) || (width <=? 0)) eqn:E.
    + destruct i; discriminate.
    + destruct i as [|i].
      * lia.
      * cbn [nth_error] in H. apply IH in H; [|exact Hw].
        rewrite blen_drop in H by lia. lia.
Qed.

(* What a scaler denotes at row i of a buffer whose first row starts at byte
   [base] of [buf] and whose rows are [width] bytes apart: the typed value at
   the declared byte offset; digital lines: bit (offset mod 8) of the value at
   byte offset / 8. *)
Definition scaler_value_at (e : endian) (kind : Z) (s : scaler) (dt sz base width : Z) (buf : bytes)
           (i : nat) : bytes :=
  if kind =? DIGITAL_LINE_SCALER
  then digital_bit (sc_off s mod 8)
                   (canon_value e dt (read_at (base + Z.of_nat i * width + sc_off s / 8) sz buf))
  else canon_value e dt (read_at (base + Z.of_nat i * width + sc_off s) sz buf).

Theorem scaler_direct_addressing (e : endian) (kind : Z) (s : scaler) (fuel : nat) (width : Z)
        (buf : bytes) (dt sz : Z) (vs : list bytes) :
  0 < width -> 0 <= sc_off s ->
  daqmx_type (sc_type s) = Some dt -> tds_size dt = Some (Some sz) ->
  scaler_values e kind s (items_of fuel width buf) width = Ok vs ->
  length vs = length (items_of fuel width buf) /\
  forall i, (i < length (items_of fuel width buf))%nat ->
            nth_error vs i = Some (scaler_value_at e kind s dt sz 0 width buf i).
Proof.
  intros Hw Hoff Hdt Hsz Hok. unfold scaler_values in Hok. rewrite Hdt, Hsz in Hok.
  unfold scaler_value_at.
  destruct (kind =? DIGITAL_LINE_SCALER) eqn:Ek.
  - destruct (width <? sc_off s / 8 + sz) eqn:Ew; [discriminate|]. injection Hok as <-.
    assert (Hoff8 : 0 <= sc_off s / 8) by (apply Z.div_pos; lia).
    split; [rewrite map_length; apply column_values_length|].
    intros i Hi. rewrite nth_error_map.
    rewrite column_direct_addressing by (try assumption; lia). reflexivity.
  - destruct (width <? sc_off s + sz) eqn:Ew; [discriminate|]. injection Hok as <-.
    split; [apply column_values_length|].
    intros i Hi. apply column_direct_addressing; try assumption; lia.
Qed.

(* the same for a buffer that is the window [base, base + len) of a larger
   byte string (one raw buffer inside a chunk inside the file): addresses are
   relative to the larger string *)
Theorem scaler_window_addressing (e : endian) (kind : Z) (s : scaler) (fuel : nat)
        (base len width : Z) (buf : bytes) (dt sz : Z) (vs : list bytes) :
  0 < width -> 0 <= sc_off s -> 0 <= base -> 0 <= len ->
  daqmx_type (sc_type s) = Some dt -> tds_size dt = Some (Some sz) ->
  scaler_values e kind s (items_of fuel width (read_at base len buf)) width = Ok vs ->
  length vs = length (items_of fuel width (read_at base len buf)) /\
  forall i, (i < length (items_of fuel width (read_at base len buf)))%nat ->
            nth_error vs i = Some (scaler_value_at e kind s dt sz base width buf i).
Proof.
  intros Hw Hoff Hbase Hlen Hdt Hsz Hok.
  destruct (scaler_direct_addressing e kind s fuel width (read_at base len buf) dt sz vs
                                     Hw Hoff Hdt Hsz Hok) as [Hl Hnth].
  split; [exact Hl|]. intros i Hi. rewrite (Hnth i Hi). f_equal.
  (* the row lies inside the window *)
  destruct (nth_error (items_of fuel width (read_at base len buf)) i) as [row|] eqn:Hrow;
    [|apply nth_error_None in Hrow; lia].
  apply items_of_nth_bound in Hrow; [|exact Hw].
  assert (Hwin : blen (read_at base len buf) <= len).
  { unfold read_at. rewrite blen_take by exact Hlen. lia. }
  unfold scaler_values in Hok. rewrite Hdt, Hsz in Hok.
  unfold scaler_value_at. destruct (kind =? DIGITAL_LINE_SCALER) eqn:Ek.
  - destruct (width <? sc_off s / 8 + sz) eqn:Ew; [discriminate|].
    assert (Hoff8 : 0 <= sc_off s / 8) by (apply Z.div_pos; lia).
    do 2 f_equal. rewrite read_at_sub by nia. f_equal. lia.
  - destruct (width <? sc_off s + sz) eqn:Ew; [discriminate|].
    f_equal. rewrite read_at_sub by nia. f_equal. lia.
Qed.

(* conversely the scaler is decodable exactly when its bytes fit in the row *)
Lemma scaler_values_ok_iff (e : endian) (kind : Z) (s : scaler) (rows : list bytes) (width dt sz : Z) :
  daqmx_type (sc_type s) = Some dt -> tds_size dt = Some (Some sz) ->
  ((exists vs, scaler_values e kind s rows width = Ok vs) <->
   (if kind =? DIGITAL_LINE_SCALER then sc_off s / 8 else sc_off s) + sz <= width).
Proof.
  intros Hdt Hsz. unfold scaler_values. rewrite Hdt, Hsz.
  destruct (width <? (if kind =? DIGITAL_LINE_SCALER then sc_off s / 8 else sc_off s) + sz) eqn:E.
  - split; [intros [vs H]; discriminate|lia].
  - split; [lia|]. intros _. eexists. reflexivity.
Qed.

(* ---- buffers of a chunk: read one after another = addressed from the chunk base ---- *)

Lemma read_rows_spec (w n : Z) (cur : bytes) :
  read_rows w n cur = (items w (take (w * n) cur), drop (w * n) cur).
Proof. reflexivity. Qed.

(* read_rows consumes exactly min(width * nrows, available) bytes *)
Lemma read_rows_consumed (w n : Z) (cur : bytes) :
  0 <= w * n -> blen (snd (read_rows w n cur)) = blen cur - Z.min (w * n) (blen cur).
Proof. intros H. rewrite read_rows_spec. cbn [snd]. apply blen_drop. exact H. Qed.

(* the same loop with every buffer addressed from the start of [buf] *)
Fixpoint daqmx_buffers_at (e : endian) (objs : list sobj) (dims : list (Z * Z)) (bi base : Z)
         (buf : bytes) (data sdata : chunk) : res (chunk * chunk * bytes) :=
  match dims with
  | [] => Ok (data, sdata, drop base buf)
  | (n, w) :: r =>
    let rows := items w (read_at base (w * n) buf) in
    do '(d, s) <- daqmx_buffer_objs e objs bi rows w data sdata;
    daqmx_buffers_at e objs r (bi + 1) (base + w * n) buf d s
  end.

Theorem daqmx_buffers_direct (e : endian) (objs : list sobj) : forall dims bi base buf data sdata,
    0 <= base -> Forall (fun d => 0 <= fst d /\ 0 <= snd d) dims ->
    daqmx_buffers e objs dims bi (drop base buf) data sdata
    = daqmx_buffers_at e objs dims bi base buf data sdata.
Proof.
  induction dims as [|[n w] r IH]; intros bi base buf data sdata Hb Hd; [reflexivity|].
  inversion Hd as [|x l [Hn Hw] Hd']; subst x l. cbn [fst snd] in Hn, Hw.
  cbn [daqmx_buffers daqmx_buffers_at]. rewrite read_rows_spec.
  change (take (w * n) (drop base buf)) with (read_at base (w * n) buf).
  destruct (daqmx_buffer_objs e objs bi (items w (read_at base (w * n) buf)) w data sdata)
    as [[d s]|err]; cbn [bind]; [|reflexivity].
  rewrite drop_drop by nia. apply IH; [nia|exact Hd'].
Qed.

(* start of buffer k relative to the chunk base: the bytes of the earlier buffers *)
Definition buffer_base (dims : list (Z * Z)) (k : nat) : Z :=
  zsum (map (fun d => snd d * fst d) (firstn k dims)).

Lemma buffer_base_S n w r k : buffer_base ((n, w) :: r) (S k) = w * n + buffer_base r k.
Proof. reflexivity. Qed.

Lemma buffer_base_nonneg dims k :
  Forall (fun d => 0 <= fst d /\ 0 <= snd d) dims -> 0 <= buffer_base dims k.
Proof.
  intros H. revert k. induction H as [|[n w] r [Hn Hw] _ IH]; intros k.
  - destruct k; cbn; lia.
  - destruct k as [|k]; [cbn; lia|]. rewrite buffer_base_S. specialize (IH k).
    cbn [fst snd] in Hn, Hw. nia.
Qed.

Lemma drop_0 (l : bytes) : drop 0 l = l.
Proof. rewrite drop_skipn. reflexivity. Qed.

Lemma read_at_drop (a m b : Z) (l : bytes) :
  0 <= a -> 0 <= b -> read_at a m (drop b l) = read_at (b + a) m l.
Proof. intros Ha Hb. unfold read_at. rewrite drop_drop by assumption. reflexivity. Qed.

(* when the buffer is completely present it has exactly its declared number of rows *)
Lemma rows_count_full (w n base : Z) (cur : bytes) :
  0 < w -> 0 <= n -> 0 <= base -> base + w * n <= blen cur ->
  Z.of_nat (length (items w (read_at base (w * n) cur))) = n.
Proof.
  intros Hw Hn Hb Hfit. rewrite items_length by exact Hw.
  unfold read_at. rewrite blen_take by nia. rewrite blen_drop by exact Hb.
  replace (Z.min (w * n) (blen cur - Z.min base (blen cur))) with (n * w) by nia.
  apply Z.div_mul. lia.
Qed.

(* ---- bookkeeping: where a scaler's values are filed ------------------------------ *)

(* scaler_data[scale_id] of one channel *)
Fixpoint zfind (id : Z) (l : list (Z * list bytes)) : option (list bytes) :=
  match l with
  | [] => None
  | (k, v) :: r => if k =? id then Some v else zfind id r
  end.

Fixpoint zupd (id : Z) (vs : list bytes) (l : list (Z * list bytes)) : list (Z * list bytes) :=
  match l with
  | [] => [(id, vs)]
  | (k, v) :: r => if k =? id then (k, vs) :: r else (k, v) :: zupd id vs r
  end.

Lemma cdata_set_scaler_eq id vs c :
  cdata_set_scaler id vs c =
  CScalers (match c with Some (CScalers l) => zupd id vs l | _ => [(id, vs)] end).
Proof.
  destruct c as [[vals|l]|]; try reflexivity.
  unfold cdata_set_scaler. f_equal.
  induction l as [|[k v] r IH]; [reflexivity|].
  cbn. destruct (k =? id); [reflexivity|]. f_equal. exact IH.
Qed.

Lemma zfind_zupd_same id vs l : zfind id (zupd id vs l) = Some vs.
Proof.
  induction l as [|[k v] r IH]; cbn [zupd zfind].
  - rewrite Z.eqb_refl. reflexivity.
  - destruct (k =? id) eqn:E; cbn [zfind]; rewrite E; [reflexivity|exact IH].
Qed.

Lemma zfind_zupd_other id id' vs l : id' <> id -> zfind id' (zupd id vs l) = zfind id' l.
Proof.
  intros H. induction l as [|[k v] r IH]; cbn [zupd zfind].
  - replace (id =? id') with false by lia. reflexivity.
  - destruct (k =? id) eqn:E; cbn [zfind].
    + replace (k =? id') with false by lia. reflexivity.
    + destruct (k =? id'); [reflexivity|exact IH].
Qed.

(* the chunk dictionary [sd] files values [vs] under channel [path], scale id [id] *)
Definition holds (path : bytes) (id : Z) (vs : list bytes) (sd : chunk) : Prop :=
  exists l, alookup path sd = Some (CScalers l) /\ zfind id l = Some vs.

Lemma holds_set_same path id vs sd :
  holds path id vs (aset path (cdata_set_scaler id vs (alookup path sd)) sd).
Proof.
  unfold holds. rewrite alookup_aset, bytes_eqb_refl, cdata_set_scaler_eq.
  eexists. split; [reflexivity|].
  destruct (alookup path sd) as [[vals|l]|]; cbn [zfind]; try (rewrite Z.eqb_refl; reflexivity).
  apply zfind_zupd_same.
Qed.

Lemma holds_set_other path id vs path' id' vs' sd :
  path <> path' \/ id <> id' ->
  holds path id vs sd ->
  holds path id vs (aset path' (cdata_set_scaler id' vs' (alookup path' sd)) sd).
Proof.
  intros Hne [l [Hl Hf]]. unfold holds. rewrite alookup_aset.
  destruct (bytes_eqb path path') eqn:E.
  - apply bytes_eqb_eq in E. subst path'. destruct Hne as [Hne|Hne]; [contradiction|].
    rewrite Hl, cdata_set_scaler_eq. eexists. split; [reflexivity|].
    rewrite zfind_zupd_other by exact Hne. exact Hf.
  - exists l. split; assumption.
Qed.

Lemma aset_keys_subset {V} (k : bytes) (v : V) (l : alist V) (x : bytes) :
  In x (map fst (aset k v l)) -> x = k \/ In x (map fst l).
Proof.
  induction l as [|[k' v'] r IH]; cbn.
  - intros [H|[]]. left. symmetry. exact H.
  - destruct (bytes_eqb k k'); cbn; intros [H|H]; auto.
    destruct (IH H); auto.
Qed.

Lemma aset_NoDup {V} (k : bytes) (v : V) (l : alist V) :
  NoDup (map fst l) -> NoDup (map fst (aset k v l)).
Proof.
  induction l as [|[k' v'] r IH]; cbn; intros H.
  - constructor; [intros []|constructor].
  - inversion H as [|x l' Hnin Hnd]; subst. destruct (bytes_eqb k k') eqn:E; cbn.
    + constructor; assumption.
    + constructor; [|apply IH; exact Hnd]. intros Hin. apply aset_keys_subset in Hin.
      destruct Hin as [->|Hin]; [rewrite bytes_eqb_refl in E; discriminate|contradiction].
Qed.

Lemma NoDup_map_inj {A B} (f : A -> B) (l : list A) (x y : A) :
  NoDup (map f l) -> In x l -> In y l -> f x = f y -> x = y.
Proof.
  induction l as [|a l IH]; cbn; intros Hnd Hx Hy E; [contradiction|].
  inversion Hnd as [|b l' Hnin Hnd']; subst.
  destruct Hx as [->|Hx], Hy as [->|Hy]; try reflexivity.
  - exfalso. apply Hnin. rewrite E. apply in_map. exact Hy.
  - exfalso. apply Hnin. rewrite <- E. apply in_map. exact Hx.
  - apply IH; assumption.
Qed.

(* -- the scalers of one object in one buffer -- *)

Lemma obj_scalers_keys e o q bi rows w : forall scalers data sd d' s',
    daqmx_obj_scalers e o q bi rows w scalers data sd = Ok (d', s') ->
    NoDup (map fst sd) -> NoDup (map fst s').
Proof.
  induction scalers as [|s r IH]; intros data sd d' s' H Hnd; cbn [daqmx_obj_scalers] in H.
  - injection H as <- <-. exact Hnd.
  - destruct (negb (sc_buf s =? bi)); [eapply IH; eassumption|].
    destruct (scaler_values e (dq_kind q) s rows w) as [vs|]; cbn [bind] in H; [|discriminate].
    destruct (oz_eqb (so_dtype o) (Some T_DAQMX)).
    + eapply IH; [exact H|]. apply aset_NoDup. exact Hnd.
    + eapply IH; eassumption.
Qed.

Lemma obj_scalers_preserve e o q bi rows w path id vs0 : forall scalers data sd d' s',
    daqmx_obj_scalers e o q bi rows w scalers data sd = Ok (d', s') ->
    (path <> so_path o \/ forall s, In s scalers -> sc_buf s = bi -> sc_id s <> id) ->
    holds path id vs0 sd -> holds path id vs0 s'.
Proof.
  induction scalers as [|s r IH]; intros data sd d' s' H Hc Hh; cbn [daqmx_obj_scalers] in H.
  - injection H as <- <-. exact Hh.
  - assert (Hc' : path <> so_path o \/ forall s0, In s0 r -> sc_buf s0 = bi -> sc_id s0 <> id).
    { destruct Hc as [Hc|Hc]; [left; exact Hc|right]. intros s0 Hin. apply Hc. right. exact Hin. }
    destruct (sc_buf s =? bi) eqn:Eb; cbn [negb] in H; [|eapply IH; eassumption].
    destruct (scaler_values e (dq_kind q) s rows w) as [vs|]; cbn [bind] in H; [|discriminate].
    destruct (oz_eqb (so_dtype o) (Some T_DAQMX)).
    + eapply IH; [exact H|exact Hc'|]. apply holds_set_other; [|exact Hh].
      destruct Hc as [Hc|Hc]; [left; exact Hc|right]. intros E.
      apply (Hc s (or_introl eq_refl)); [lia|symmetry; exact E].
    + eapply IH; eassumption.
Qed.

Lemma obj_scalers_establish e o q bi rows w s : forall scalers data sd d' s',
    daqmx_obj_scalers e o q bi rows w scalers data sd = Ok (d', s') ->
    so_dtype o = Some T_DAQMX ->
    In s scalers -> sc_buf s = bi -> NoDup (map sc_id scalers) ->
    exists vs, scaler_values e (dq_kind q) s rows w = Ok vs /\ holds (so_path o) (sc_id s) vs s'.
Proof.
  induction scalers as [|s1 r IH]; intros data sd d' s' H Hdt Hin Hb Hnd; [contradiction|].
  cbn [daqmx_obj_scalers] in H. cbn [map] in Hnd. inversion Hnd as [|x l Hnin Hnd']; subst x l.
  destruct Hin as [Heq|Hin].
  - subst s1. replace (sc_buf s =? bi) with true in H by lia. cbn [negb] in H.
    destruct (scaler_values e (dq_kind q) s rows w) as [vs|] eqn:Ev; [|discriminate].
    cbn [bind] in H. rewrite Hdt in H.
    change (oz_eqb (Some T_DAQMX) (Some T_DAQMX)) with true in H. cbv iota in H.
    exists vs. split; [reflexivity|].
    eapply obj_scalers_preserve; [exact H| |apply holds_set_same].
    right. intros s0 Hin0 _ E. apply Hnin. rewrite <- E. apply in_map. exact Hin0.
  - destruct (negb (sc_buf s1 =? bi)); [eapply IH; eassumption|].
    destruct (scaler_values e (dq_kind q) s1 rows w) as [vs1|]; cbn [bind] in H; [|discriminate].
    destruct (oz_eqb (so_dtype o) (Some T_DAQMX)); eapply IH; eassumption.
Qed.

(* -- all objects in one buffer -- *)

Lemma buffer_objs_keys e bi rows w : forall objs data sd d' s',
    daqmx_buffer_objs e objs bi rows w data sd = Ok (d', s') ->
    NoDup (map fst sd) -> NoDup (map fst s').
Proof.
  induction objs as [|o r IH]; intros data sd d' s' H Hnd; cbn [daqmx_buffer_objs] in H.
  - injection H as <- <-. exact Hnd.
  - destruct (so_daqmx o) as [q|]; [|discriminate].
    destruct (daqmx_obj_scalers e o q bi rows w (dq_scalers q) data sd) as [[d1 s1]|] eqn:E1;
      cbn [bind] in H; [|discriminate].
    eapply IH; [exact H|]. eapply obj_scalers_keys; eassumption.
Qed.

Lemma buffer_objs_preserve e bi rows w path id vs0 : forall objs data sd d' s',
    daqmx_buffer_objs e objs bi rows w data sd = Ok (d', s') ->
    (forall o q s, In o objs -> so_daqmx o = Some q -> so_path o = path ->
                   In s (dq_scalers q) -> sc_buf s = bi -> sc_id s <> id) ->
    holds path id vs0 sd -> holds path id vs0 s'.
Proof.
  induction objs as [|o r IH]; intros data sd d' s' H Hc Hh; cbn [daqmx_buffer_objs] in H.
  - injection H as <- <-. exact Hh.
  - destruct (so_daqmx o) as [q|] eqn:Hq; [|discriminate].
    destruct (daqmx_obj_scalers e o q bi rows w (dq_scalers q) data sd) as [[d1 s1]|] eqn:E1;
      cbn [bind] in H; [|discriminate].
    eapply IH; [exact H| |].
    + intros o' q' s0 Hin. apply Hc. right. exact Hin.
    + eapply obj_scalers_preserve; [exact E1| |exact Hh].
      destruct (bytes_eqb path (so_path o)) eqn:Ep.
      * apply bytes_eqb_eq in Ep. right. intros s0 Hin0 Hb0.
        apply (Hc o q s0 (or_introl eq_refl) Hq (eq_sym Ep) Hin0 Hb0).
      * left. apply bytes_eqb_neq. exact Ep.
Qed.

Lemma buffer_objs_establish e bi rows w o q s : forall objs data sd d' s',
    daqmx_buffer_objs e objs bi rows w data sd = Ok (d', s') ->
    In o objs -> NoDup (map so_path objs) -> so_daqmx o = Some q -> so_dtype o = Some T_DAQMX ->
    In s (dq_scalers q) -> sc_buf s = bi -> NoDup (map sc_id (dq_scalers q)) ->
    exists vs, scaler_values e (dq_kind q) s rows w = Ok vs /\ holds (so_path o) (sc_id s) vs s'.
Proof.
  induction objs as [|o1 r IH]; intros data sd d' s' H Hin Hnd Hq Hdt Hs Hb Hids; [contradiction|].
  cbn [daqmx_buffer_objs] in H. cbn [map] in Hnd. inversion Hnd as [|x l Hnin Hnd']; subst x l.
  destruct Hin as [Heq|Hin].
  - subst o1. rewrite Hq in H.
    destruct (daqmx_obj_scalers e o q bi rows w (dq_scalers q) data sd) as [[d1 s1]|] eqn:E1;
      cbn [bind] in H; [|discriminate].
    destruct (obj_scalers_establish e o q bi rows w s _ _ _ _ _ E1 Hdt Hs Hb Hids) as [vs [Hv Hh]].
    exists vs. split; [exact Hv|].
    eapply buffer_objs_preserve; [exact H| |exact Hh].
    intros o' q' s0 Hin' _ Hp. exfalso. apply Hnin. rewrite <- Hp. apply in_map. exact Hin'.
  - destruct (so_daqmx o1) as [q1|]; [|discriminate].
    destruct (daqmx_obj_scalers e o1 q1 bi rows w (dq_scalers q1) data sd) as [[d1 s1]|];
      cbn [bind] in H; [|discriminate].
    eapply IH; eassumption.
Qed.

(* -- all buffers of a chunk -- *)

Lemma buffers_keys e objs : forall dims bi cur data sd d' s' cur',
    daqmx_buffers e objs dims bi cur data sd = Ok (d', s', cur') ->
    NoDup (map fst sd) -> NoDup (map fst s').
Proof.
  induction dims as [|[n w] r IH]; intros bi cur data sd d' s' cur' H Hnd; cbn [daqmx_buffers] in H.
  - injection H as <- <- <-. exact Hnd.
  - destruct (read_rows w n cur) as [rows cur1].
    destruct (daqmx_buffer_objs e objs bi rows w data sd) as [[d1 s1]|] eqn:E1;
      cbn [bind] in H; [|discriminate].
    eapply IH; [exact H|]. eapply buffer_objs_keys; eassumption.
Qed.

Lemma buffers_preserve e objs path id vs0 : forall dims bi cur data sd d' s' cur',
    daqmx_buffers e objs dims bi cur data sd = Ok (d', s', cur') ->
    (forall o q s, In o objs -> so_daqmx o = Some q -> so_path o = path ->
                   In s (dq_scalers q) -> sc_id s = id -> sc_buf s < bi) ->
    holds path id vs0 sd -> holds path id vs0 s'.
Proof.
  induction dims as [|[n w] r IH]; intros bi cur data sd d' s' cur' H Hc Hh; cbn [daqmx_buffers] in H.
  - injection H as <- <- <-. exact Hh.
  - destruct (read_rows w n cur) as [rows cur1].
    destruct (daqmx_buffer_objs e objs bi rows w data sd) as [[d1 s1]|] eqn:E1;
      cbn [bind] in H; [|discriminate].
    eapply IH; [exact H| |].
    + intros o q s Hin Hq Hp Hs Hid. specialize (Hc o q s Hin Hq Hp Hs Hid). lia.
    + eapply buffer_objs_preserve; [exact E1| |exact Hh].
      intros o q s Hin Hq Hp Hs Hb Hid. specialize (Hc o q s Hin Hq Hp Hs Hid). lia.
Qed.

Lemma buffers_establish e objs o q s : forall dims bi cur data sd d' s' cur' k n w,
    daqmx_buffers e objs dims bi cur data sd = Ok (d', s', cur') ->
    Forall (fun d => 0 <= fst d /\ 0 <= snd d) dims ->
    In o objs -> NoDup (map so_path objs) -> so_daqmx o = Some q -> so_dtype o = Some T_DAQMX ->
    In s (dq_scalers q) -> NoDup (map sc_id (dq_scalers q)) ->
    nth_error dims k = Some (n, w) -> sc_buf s = bi + Z.of_nat k ->
    exists vs, scaler_values e (dq_kind q) s (items w (read_at (buffer_base dims k) (w * n) cur)) w = Ok vs
               /\ holds (so_path o) (sc_id s) vs s'.
Proof.
  induction dims as [|[n0 w0] r IH];
    intros bi cur data sd d' s' cur' k n w H Hdims Hin Hnd Hq Hdt Hs Hids Hk Hb;
    [destruct k; discriminate|].
  cbn [daqmx_buffers] in H. inversion Hdims as [|x l [Hn0 Hw0] Hdims']; subst x l.
  cbn [fst snd] in Hn0, Hw0.
  destruct (read_rows w0 n0 cur) as [rows cur1] eqn:Er. rewrite read_rows_spec in Er.
  injection Er as <- <-.
  destruct (daqmx_buffer_objs e objs bi (items w0 (take (w0 * n0) cur)) w0 data sd) as [[d1 s1]|] eqn:E1;
    cbn [bind] in H; [|discriminate].
  destruct k as [|k].
  - cbn [nth_error] in Hk. injection Hk as -> ->.
    change (buffer_base ((n, w) :: r) 0) with 0. unfold read_at. rewrite drop_0.
    destruct (buffer_objs_establish e bi _ w o q s objs _ _ _ _ E1 Hin Hnd Hq Hdt Hs ltac:(lia) Hids)
      as [vs [Hv Hh]].
    exists vs. split; [exact Hv|].
    eapply buffers_preserve; [exact H| |exact Hh].
    intros o' q' s0 Hin' Hq' Hp Hs0 Hid.
    assert (o' = o) by (eapply (NoDup_map_inj so_path); eassumption). subst o'.
    rewrite Hq in Hq'. injection Hq' as <-.
    assert (s0 = s) by (eapply (NoDup_map_inj sc_id); eassumption). subst s0. lia.
  - cbn [nth_error] in Hk. rewrite buffer_base_S.
    destruct (IH (bi + 1) _ _ _ _ _ _ k n w H Hdims' Hin Hnd Hq Hdt Hs Hids Hk ltac:(lia))
      as [vs [Hv Hh]].
    exists vs. split; [|exact Hh].
    rewrite read_at_drop in Hv; [exact Hv|apply buffer_base_nonneg; exact Hdims'|nia].
Qed.

(* -- merging scaler entries into the chunk -- *)

Lemma merge_lookup_notin (s d : chunk) (k : bytes) :
  ~ In k (map fst s) ->
  alookup k (fold_left (fun acc kv => aset (fst kv) (snd kv) acc) s d) = alookup k d.
Proof.
  revert d. induction s as [|[k' v'] r IH]; intros d Hnin; [reflexivity|].
  cbn [fold_left fst snd]. rewrite IH by (intros Hin; apply Hnin; right; exact Hin).
  rewrite alookup_aset.
  destruct (bytes_eqb k k') eqn:E; [|reflexivity].
  apply bytes_eqb_eq in E. exfalso. apply Hnin. left. symmetry. exact E.
Qed.

Lemma merge_lookup (s d : chunk) (k : bytes) (v : cdata) :
  NoDup (map fst s) -> alookup k s = Some v ->
  alookup k (fold_left (fun acc kv => aset (fst kv) (snd kv) acc) s d) = Some v.
Proof.
  revert d. induction s as [|[k' v'] r IH]; intros d Hnd Hl; [discriminate|].
  cbn [map fst] in Hnd. inversion Hnd as [|x l Hnin Hnd']; subst x l.
  cbn [alookup] in Hl. cbn [fold_left fst snd].
  destruct (bytes_eqb k k') eqn:E.
  - apply bytes_eqb_eq in E. subst k'. injection Hl as ->.
    rewrite merge_lookup_notin by exact Hnin. rewrite alookup_aset, bytes_eqb_refl. reflexivity.
  - apply IH; assumption.
Qed.

(* DaqmxDataReader._read_data_chunk: scaler [s] of DAQmx channel [o], living in
   raw buffer [k] (n rows of w bytes), is filed under (path, scale id) with the
   values decoded from the window of the chunk that starts at the sum of the
   sizes of the earlier buffers. *)
Theorem read_daqmx_chunk_scaler e objs cur c cur1 dims o q s k n w :
  read_daqmx_chunk e objs cur = Ok (c, cur1) ->
  buffer_dims objs = Ok dims ->
  Forall (fun d => 0 <= fst d /\ 0 <= snd d) dims ->
  In o objs -> NoDup (map so_path objs) -> so_daqmx o = Some q -> so_dtype o = Some T_DAQMX ->
  In s (dq_scalers q) -> NoDup (map sc_id (dq_scalers q)) ->
  nth_error dims k = Some (n, w) -> sc_buf s = Z.of_nat k ->
  exists vs, scaler_values e (dq_kind q) s (items w (read_at (buffer_base dims k) (w * n) cur)) w = Ok vs
             /\ holds (so_path o) (sc_id s) vs c.
Proof.
  intros H Hd Hdims Hin Hnd Hq Hdt Hs Hids Hk Hb. unfold read_daqmx_chunk in H.
  rewrite Hd in H. cbn [bind] in H.
  destruct (daqmx_buffers e objs dims 0 cur [] []) as [[[d1 s1] cur1']|] eqn:E1;
    cbn [bind] in H; [|discriminate].
  injection H as <- <-.
  destruct (buffers_establish e objs o q s dims 0 cur [] [] d1 s1 cur1' k n w
                              E1 Hdims Hin Hnd Hq Hdt Hs Hids Hk ltac:(lia)) as [vs [Hv [l [Hl Hf]]]].
  exists vs. split; [exact Hv|]. exists l. split; [|exact Hf].
  apply merge_lookup; [|exact Hl].
  eapply buffers_keys; [exact E1|constructor].
Qed.

(* C11's addressing statement for one chunk: value i of the scaler is the typed
   value found at chunk offset buffer_base + i * width + byte offset (digital
   lines: the addressed bit), for every complete row of the buffer present. *)
Theorem daqmx_chunk_addressing e objs cur c cur1 dims o q s k n w dt sz :
  read_daqmx_chunk e objs cur = Ok (c, cur1) ->
  buffer_dims objs = Ok dims ->
  Forall (fun d => 0 <= fst d /\ 0 <= snd d) dims ->
  In o objs -> NoDup (map so_path objs) -> so_daqmx o = Some q -> so_dtype o = Some T_DAQMX ->
  In s (dq_scalers q) -> NoDup (map sc_id (dq_scalers q)) ->
  nth_error dims k = Some (n, w) -> sc_buf s = Z.of_nat k ->
  0 < w -> 0 <= sc_off s ->
  daqmx_type (sc_type s) = Some dt -> tds_size dt = Some (Some sz) ->
  exists vs,
    holds (so_path o) (sc_id s) vs c /\
    length vs = length (items w (read_at (buffer_base dims k) (w * n) cur)) /\
    forall i, (i < length vs)%nat ->
              nth_error vs i = Some (scaler_value_at e (dq_kind q) s dt sz (buffer_base dims k) w cur i).
Proof.
  intros H Hd Hdims Hin Hnd Hq Hdt Hs Hids Hk Hb Hw Hoff Hty Hsz.
  destruct (read_daqmx_chunk_scaler e objs cur c cur1 dims o q s k n w
                                    H Hd Hdims Hin Hnd Hq Hdt Hs Hids Hk Hb) as [vs [Hv Hh]].
  assert (Hnw : 0 <= n /\ 0 <= w).
  { rewrite Forall_forall in Hdims. apply (Hdims (n, w)). eapply nth_error_In. exact Hk. }
  destruct (scaler_window_addressing e (dq_kind q) s _ (buffer_base dims k) (w * n) w cur dt sz vs
                                     Hw Hoff (buffer_base_nonneg dims k Hdims) ltac:(nia) Hty Hsz Hv)
    as [Hl Hnth].
  exists vs. split; [exact Hh|]. split; [exact Hl|].
  intros i Hi. apply Hnth. unfold items in Hl. lia.
Qed.

(* ---- chunks of a segment ------------------------------------------------------- *)

(* bytes of one complete chunk: the buffers one after another *)
Definition chunk_bytes (dims : list (Z * Z)) : Z := zsum (map (fun d => snd d * fst d) dims).

Lemma chunk_bytes_nonneg dims :
  Forall (fun d => 0 <= fst d /\ 0 <= snd d) dims -> 0 <= chunk_bytes dims.
Proof.
  induction 1 as [|[n w] r [Hn Hw] _ IH]; cbn; [lia|].
  cbn [fst snd] in Hn, Hw. unfold chunk_bytes, zsum in IH. nia.
Qed.

Lemma buffer_base_all dims : buffer_base dims (length dims) = chunk_bytes dims.
Proof. unfold buffer_base, chunk_bytes. rewrite firstn_all. reflexivity. Qed.

(* a chunk's buffers consume chunk_bytes (or whatever is left) *)
Lemma daqmx_buffers_rest e objs : forall dims bi cur data sd d' s' cur',
    daqmx_buffers e objs dims bi cur data sd = Ok (d', s', cur') ->
    Forall (fun d => 0 <= fst d /\ 0 <= snd d) dims ->
    cur' = drop (chunk_bytes dims) cur.
Proof.
  induction dims as [|[n w] r IH]; intros bi cur data sd d' s' cur' H Hdims; cbn [daqmx_buffers] in H.
  - injection H as _ _ <-. symmetry. apply drop_0.
  - inversion Hdims as [|x l [Hn Hw] Hdims']; subst x l. cbn [fst snd] in Hn, Hw.
    destruct (read_rows w n cur) as [rows cur1] eqn:Er. rewrite read_rows_spec in Er.
    injection Er as _ <-.
    destruct (daqmx_buffer_objs e objs bi rows w data sd) as [[d1 s1]|];
      cbn [bind] in H; [|discriminate].
    rewrite (IH _ _ _ _ _ _ _ H Hdims'). rewrite drop_drop.
    + reflexivity.
    + apply chunk_bytes_nonneg. exact Hdims'.
    + nia.
Qed.

Lemma read_daqmx_chunk_rest e objs cur c cur1 dims :
  read_daqmx_chunk e objs cur = Ok (c, cur1) ->
  buffer_dims objs = Ok dims ->
  Forall (fun d => 0 <= fst d /\ 0 <= snd d) dims ->
  cur1 = drop (chunk_bytes dims) cur.
Proof.
  intros H Hd Hdims. unfold read_daqmx_chunk in H. rewrite Hd in H. cbn [bind] in H.
  destruct (daqmx_buffers e objs dims 0 cur [] []) as [[[d1 s1] cur1']|] eqn:E1;
    cbn [bind] in H; [|discriminate].
  injection H as _ <-. eapply daqmx_buffers_rest; eassumption.
Qed.

(* chunk j of the loop is read at j * (bytes per chunk) *)
Lemma read_chunks_loop_nth (rd : Z -> bytes -> res (chunk * bytes)) (sz : Z) :
  (forall ci c ch c', rd ci c = Ok (ch, c') -> c' = drop sz c) -> 0 <= sz ->
  forall fuel ci n cur cs cur',
    read_chunks_loop fuel rd ci n cur = Ok (cs, cur') ->
    forall j ch, nth_error cs j = Some ch ->
                 exists c', rd (ci + Z.of_nat j) (drop (Z.of_nat j * sz) cur) = Ok (ch, c').
Proof.
  intros Hrd Hsz. induction fuel as [|f IH]; intros ci n cur cs cur' H j ch Hj;
    cbn [read_chunks_loop] in H.
  - destruct (n <=? ci); [|discriminate]. injection H as <- _. destruct j; discriminate.
  - destruct (n <=? ci); [injection H as <- _; destruct j; discriminate|].
    destruct (rd ci cur) as [[c0 cur1]|] eqn:E0; cbn [bind] in H; [|discriminate].
    destruct (read_chunks_loop f rd (ci + 1) n cur1) as [[cs1 cur2]|] eqn:E1;
      cbn [bind] in H; [|discriminate].
    injection H as <- <-. destruct j as [|j].
    + cbn [nth_error] in Hj. injection Hj as <-. exists cur1.
      replace (ci + Z.of_nat 0) with ci by lia. cbn [Z.of_nat Z.mul]. rewrite drop_0. exact E0.
    + cbn [nth_error] in Hj. destruct (IH _ _ _ _ _ E1 j ch Hj) as [c' Hc'].
      exists c'. rewrite (Hrd _ _ _ _ E0) in Hc'. rewrite drop_drop in Hc' by lia.
      replace (ci + Z.of_nat (S j)) with (ci + 1 + Z.of_nat j) by lia.
      replace (Z.of_nat (S j) * sz) with (sz + Z.of_nat j * sz) by lia. exact Hc'.
Qed.

Lemma scaler_value_at_drop e kind s dt sz base w b cur i :
  0 <= b -> 0 <= base -> 0 <= w -> 0 <= sc_off s ->
  scaler_value_at e kind s dt sz base w (drop b cur) i
  = scaler_value_at e kind s dt sz (b + base) w cur i.
Proof.
  intros Hb Hbase Hw Hoff. unfold scaler_value_at.
  assert (Hoff8 : 0 <= sc_off s / 8) by (apply Z.div_pos; lia).
  destruct (kind =? DIGITAL_LINE_SCALER).
  - rewrite read_at_drop by nia. do 3 f_equal. lia.
  - rewrite read_at_drop by nia. do 2 f_equal. lia.
Qed.

(* C11, whole segment: value i of scaler [s] of DAQmx channel [o] in chunk j is
   the typed value at
     data_position + j * chunk_bytes + buffer_base(k) + i * width(k) + byte offset
   ([cur] is the file from the segment's data_position on). *)
Theorem daqmx_segment_addressing sg cur cs cur' dims o q s k n w dt sz j c :
  seg_layout sg = Ok LDaqmx ->
  read_segment_chunks sg cur = Ok (cs, cur') ->
  buffer_dims (data_objs (sg_objs sg)) = Ok dims ->
  Forall (fun d => 0 <= fst d /\ 0 <= snd d) dims ->
  In o (data_objs (sg_objs sg)) -> NoDup (map so_path (data_objs (sg_objs sg))) ->
  so_daqmx o = Some q -> so_dtype o = Some T_DAQMX ->
  In s (dq_scalers q) -> NoDup (map sc_id (dq_scalers q)) ->
  nth_error dims k = Some (n, w) -> sc_buf s = Z.of_nat k ->
  0 < w -> 0 <= sc_off s ->
  daqmx_type (sc_type s) = Some dt -> tds_size dt = Some (Some sz) ->
  nth_error cs j = Some c ->
  let base := Z.of_nat j * chunk_bytes dims + buffer_base dims k in
  exists vs,
    holds (so_path o) (sc_id s) vs c /\
    length vs = length (items w (read_at base (w * n) cur)) /\
    forall i, (i < length vs)%nat ->
              nth_error vs i
              = Some (scaler_value_at (toc_endian (sg_toc sg)) (dq_kind q) s dt sz base w cur i).
Proof.
  intros Hlay H Hd Hdims Hin Hnd Hq Hdt Hs Hids Hk Hb Hw Hoff Hty Hsz Hj base.
  unfold read_segment_chunks in H. rewrite Hlay in H. cbn [bind] in H.
  set (e := toc_endian (sg_toc sg)) in *. set (objs := data_objs (sg_objs sg)) in *.
  pose proof (chunk_bytes_nonneg dims Hdims) as Hcb.
  pose proof (buffer_base_nonneg dims k Hdims) as Hbb.
  assert (Hrd : forall (ci : Z) (c0 : bytes) (ch : chunk) (c' : bytes),
             (fun (_ : Z) (c1 : bytes) => read_daqmx_chunk e objs c1) ci c0 = Ok (ch, c') ->
             c' = drop (chunk_bytes dims) c0).
  { intros ci c0 ch c' Hr. exact (read_daqmx_chunk_rest e objs c0 ch c' dims Hr Hd Hdims). }
  destruct (read_chunks_loop_nth _ _ Hrd Hcb _ _ _ _ _ _ H j c Hj) as [c' Hc'].
  cbv beta in Hc'.
  destruct (daqmx_chunk_addressing e objs _ c c' dims o q s k n w dt sz
                                   Hc' Hd Hdims Hin Hnd Hq Hdt Hs Hids Hk Hb Hw Hoff Hty Hsz)
    as [vs [Hh [Hl Hnth]]].
  exists vs. split; [exact Hh|].
  rewrite read_at_drop in Hl by nia. split; [exact Hl|].
  intros i Hi. rewrite (Hnth i Hi). f_equal.
  apply scaler_value_at_drop; nia.
Qed.

(* ---- typed DAQmx channels (data type is the single scaler's type): data, not scaler_data ---- *)

Lemma oz_eqb_true a b : oz_eqb a b = true -> a = b.
Proof. destruct a, b; cbn; try discriminate; try reflexivity. intros H. f_equal. lia. Qed.

(* every key of the scaler dictionary is the path of a DaqMxRawData-typed object *)
Definition skeys_ok (all : list sobj) (sd : chunk) : Prop :=
  forall k, In k (map fst sd) ->
            exists o, In o all /\ so_path o = k /\ so_dtype o = Some T_DAQMX.

Lemma obj_scalers_skeys all e o q bi rows w : forall scalers data sd d' s',
    daqmx_obj_scalers e o q bi rows w scalers data sd = Ok (d', s') ->
    In o all -> skeys_ok all sd -> skeys_ok all s'.
Proof.
  induction scalers as [|s r IH]; intros data sd d' s' H Hin Hk; cbn [daqmx_obj_scalers] in H.
  - injection H as <- <-. exact Hk.
  - destruct (negb (sc_buf s =? bi)); [eapply IH; eassumption|].
    destruct (scaler_values e (dq_kind q) s rows w) as [vs|]; cbn [bind] in H; [|discriminate].
    destruct (oz_eqb (so_dtype o) (Some T_DAQMX)) eqn:Ed.
    + eapply IH; [exact H|exact Hin|]. intros k Hkin. apply aset_keys_subset in Hkin.
      destruct Hkin as [->|Hkin]; [|apply Hk; exact Hkin].
      exists o. repeat split; [exact Hin|apply oz_eqb_true; exact Ed].
    + eapply IH; eassumption.
Qed.

Lemma obj_scalers_data_other e o q bi rows w path : forall scalers data sd d' s',
    daqmx_obj_scalers e o q bi rows w scalers data sd = Ok (d', s') ->
    path <> so_path o -> alookup path d' = alookup path data.
Proof.
  induction scalers as [|s r IH]; intros data sd d' s' H Hne; cbn [daqmx_obj_scalers] in H.
  - injection H as <- <-. reflexivity.
  - destruct (negb (sc_buf s =? bi)); [eapply IH; eassumption|].
    destruct (scaler_values e (dq_kind q) s rows w) as [vs|]; cbn [bind] in H; [|discriminate].
    destruct (oz_eqb (so_dtype o) (Some T_DAQMX)).
    + eapply IH; eassumption.
    + rewrite (IH _ _ _ _ H Hne). rewrite alookup_aset.
      destruct (bytes_eqb path (so_path o)) eqn:E; [|reflexivity].
      apply bytes_eqb_eq in E. contradiction.
Qed.

Lemma obj_scalers_data_idle e o q bi rows w : forall scalers data sd d' s',
    daqmx_obj_scalers e o q bi rows w scalers data sd = Ok (d', s') ->
    (forall s, In s scalers -> sc_buf s <> bi) -> d' = data.
Proof.
  induction scalers as [|s r IH]; intros data sd d' s' H Hc; cbn [daqmx_obj_scalers] in H.
  - injection H as <- <-. reflexivity.
  - destruct (sc_buf s =? bi) eqn:Eb; cbn [negb] in H.
    + exfalso. apply (Hc s (or_introl eq_refl)). lia.
    + eapply IH; [exact H|]. intros s0 Hin. apply Hc. right. exact Hin.
Qed.

Lemma buffer_objs_skeys all e bi rows w : forall objs data sd d' s',
    daqmx_buffer_objs e objs bi rows w data sd = Ok (d', s') ->
    (forall o, In o objs -> In o all) -> skeys_ok all sd -> skeys_ok all s'.
Proof.
  induction objs as [|o r IH]; intros data sd d' s' H Hincl Hk; cbn [daqmx_buffer_objs] in H.
  - injection H as <- <-. exact Hk.
  - destruct (so_daqmx o) as [q|]; [|discriminate].
    destruct (daqmx_obj_scalers e o q bi rows w (dq_scalers q) data sd) as [[d1 s1]|] eqn:E1;
      cbn [bind] in H; [|discriminate].
    eapply IH; [exact H| |].
    + intros o' Hin. apply Hincl. right. exact Hin.
    + eapply obj_scalers_skeys; [exact E1|apply Hincl; left; reflexivity|exact Hk].
Qed.

Lemma buffer_objs_data_preserve e bi rows w path : forall objs data sd d' s',
    daqmx_buffer_objs e objs bi rows w data sd = Ok (d', s') ->
    (forall o q s, In o objs -> so_daqmx o = Some q -> so_path o = path ->
                   In s (dq_scalers q) -> sc_buf s <> bi) ->
    alookup path d' = alookup path data.
Proof.
  induction objs as [|o r IH]; intros data sd d' s' H Hc; cbn [daqmx_buffer_objs] in H.
  - injection H as <- <-. reflexivity.
  - destruct (so_daqmx o) as [q|] eqn:Hq; [|discriminate].
    destruct (daqmx_obj_scalers e o q bi rows w (dq_scalers q) data sd) as [[d1 s1]|] eqn:E1;
      cbn [bind] in H; [|discriminate].
    rewrite (IH _ _ _ _ H) by (intros o' q' s0 Hin; apply Hc; right; exact Hin).
    destruct (bytes_eqb path (so_path o)) eqn:Ep.
    + apply bytes_eqb_eq in Ep.
      rewrite (obj_scalers_data_idle _ _ _ _ _ _ _ _ _ _ _ E1); [reflexivity|].
      intros s0 Hin0. apply (Hc o q s0 (or_introl eq_refl) Hq (eq_sym Ep) Hin0).
    + eapply obj_scalers_data_other; [exact E1|]. apply bytes_eqb_neq. exact Ep.
Qed.

Lemma buffer_objs_data_establish e bi rows w o q s dto : forall objs data sd d' s',
    daqmx_buffer_objs e objs bi rows w data sd = Ok (d', s') ->
    In o objs -> NoDup (map so_path objs) -> so_daqmx o = Some q ->
    so_dtype o = Some dto -> dto <> T_DAQMX ->
    dq_scalers q = [s] -> sc_buf s = bi ->
    exists vs, scaler_values e (dq_kind q) s rows w = Ok vs /\
               alookup (so_path o) d' = Some (CData vs).
Proof.
  induction objs as [|o1 r IH]; intros data sd d' s' H Hin Hnd Hq Hdt Hne Hs Hb; [contradiction|].
  cbn [daqmx_buffer_objs] in H. cbn [map] in Hnd. inversion Hnd as [|x l Hnin Hnd']; subst x l.
  destruct Hin as [Heq|Hin].
  - subst o1. rewrite Hq in H. rewrite Hs in H. cbn [daqmx_obj_scalers] in H.
    replace (sc_buf s =? bi) with true in H by lia. cbn [negb] in H.
    destruct (scaler_values e (dq_kind q) s rows w) as [vs|] eqn:Ev; [|discriminate].
    cbn [bind] in H. rewrite Hdt in H. cbn [oz_eqb] in H.
    replace (dto =? T_DAQMX) with false in H by lia. cbn [bind] in H.
    exists vs. split; [reflexivity|].
    rewrite (buffer_objs_data_preserve _ _ _ _ _ _ _ _ _ _ H).
    + rewrite alookup_aset, bytes_eqb_refl. reflexivity.
    + intros o' q' s0 Hin' _ Hp. exfalso. apply Hnin. rewrite <- Hp. apply in_map. exact Hin'.
  - destruct (so_daqmx o1) as [q1|]; [|discriminate].
    destruct (daqmx_obj_scalers e o1 q1 bi rows w (dq_scalers q1) data sd) as [[d1 s1]|];
      cbn [bind] in H; [|discriminate].
    eapply IH; eassumption.
Qed.

Lemma buffers_skeys e objs : forall dims bi cur data sd d' s' cur',
    daqmx_buffers e objs dims bi cur data sd = Ok (d', s', cur') ->
    skeys_ok objs sd -> skeys_ok objs s'.
Proof.
  induction dims as [|[n w] r IH]; intros bi cur data sd d' s' cur' H Hk; cbn [daqmx_buffers] in H.
  - injection H as <- <- <-. exact Hk.
  - destruct (read_rows w n cur) as [rows cur1].
    destruct (daqmx_buffer_objs e objs bi rows w data sd) as [[d1 s1]|] eqn:E1;
      cbn [bind] in H; [|discriminate].
    eapply IH; [exact H|]. eapply buffer_objs_skeys; [exact E1|auto|exact Hk].
Qed.

Lemma buffers_data_preserve e objs path : forall dims bi cur data sd d' s' cur',
    daqmx_buffers e objs dims bi cur data sd = Ok (d', s', cur') ->
    (forall o q s, In o objs -> so_daqmx o = Some q -> so_path o = path ->
                   In s (dq_scalers q) -> sc_buf s < bi) ->
    alookup path d' = alookup path data.
Proof.
  induction dims as [|[n w] r IH]; intros bi cur data sd d' s' cur' H Hc; cbn [daqmx_buffers] in H.
  - injection H as <- <- <-. reflexivity.
  - destruct (read_rows w n cur) as [rows cur1].
    destruct (daqmx_buffer_objs e objs bi rows w data sd) as [[d1 s1]|] eqn:E1;
      cbn [bind] in H; [|discriminate].
    rewrite (IH _ _ _ _ _ _ _ H).
    + eapply buffer_objs_data_preserve; [exact E1|].
      intros o q s Hin Hq Hp Hs. specialize (Hc o q s Hin Hq Hp Hs). lia.
    + intros o q s Hin Hq Hp Hs. specialize (Hc o q s Hin Hq Hp Hs). lia.
Qed.

Lemma buffers_data_establish e objs o q s dto : forall dims bi cur data sd d' s' cur' k n w,
    daqmx_buffers e objs dims bi cur data sd = Ok (d', s', cur') ->
    Forall (fun d => 0 <= fst d /\ 0 <= snd d) dims ->
    In o objs -> NoDup (map so_path objs) -> so_daqmx o = Some q ->
    so_dtype o = Some dto -> dto <> T_DAQMX -> dq_scalers q = [s] ->
    nth_error dims k = Some (n, w) -> sc_buf s = bi + Z.of_nat k ->
    exists vs, scaler_values e (dq_kind q) s (items w (read_at (buffer_base dims k) (w * n) cur)) w = Ok vs
               /\ alookup (so_path o) d' = Some (CData vs).
Proof.
  induction dims as [|[n0 w0] r IH];
    intros bi cur data sd d' s' cur' k n w H Hdims Hin Hnd Hq Hdt Hne Hs Hk Hb;
    [destruct k; discriminate|].
  cbn [daqmx_buffers] in H. inversion Hdims as [|x l [Hn0 Hw0] Hdims']; subst x l.
  cbn [fst snd] in Hn0, Hw0.
  destruct (read_rows w0 n0 cur) as [rows cur1] eqn:Er. rewrite read_rows_spec in Er.
  injection Er as <- <-.
  destruct (daqmx_buffer_objs e objs bi (items w0 (take (w0 * n0) cur)) w0 data sd) as [[d1 s1]|] eqn:E1;
    cbn [bind] in H; [|discriminate].
  destruct k as [|k].
  - cbn [nth_error] in Hk. injection Hk as -> ->.
    change (buffer_base ((n, w) :: r) 0) with 0. unfold read_at. rewrite drop_0.
    destruct (buffer_objs_data_establish e bi _ w o q s dto objs _ _ _ _ E1 Hin Hnd Hq Hdt Hne Hs
                                         ltac:(lia)) as [vs [Hv Hl]].
    exists vs. split; [exact Hv|].
    rewrite (buffers_data_preserve _ _ _ _ _ _ _ _ _ _ _ H); [exact Hl|].
    intros o' q' s0 Hin' Hq' Hp Hs0.
    assert (o' = o) by (eapply (NoDup_map_inj so_path); eassumption). subst o'.
    rewrite Hq in Hq'. injection Hq' as <-. rewrite Hs in Hs0.
    destruct Hs0 as [<-|[]]. lia.
  - cbn [nth_error] in Hk. rewrite buffer_base_S.
    destruct (IH (bi + 1) _ _ _ _ _ _ k n w H Hdims' Hin Hnd Hq Hdt Hne Hs Hk ltac:(lia))
      as [vs [Hv Hl]].
    exists vs. split; [|exact Hl].
    rewrite read_at_drop in Hv; [exact Hv|apply buffer_base_nonneg; exact Hdims'|nia].
Qed.

(* the addressing statement for a typed DAQmx channel: its data are the values
   of its single scaler *)
Theorem daqmx_chunk_addressing_typed e objs cur c cur1 dims o q s dto k n w dt sz :
  read_daqmx_chunk e objs cur = Ok (c, cur1) ->
  buffer_dims objs = Ok dims ->
  Forall (fun d => 0 <= fst d /\ 0 <= snd d) dims ->
  In o objs -> NoDup (map so_path objs) -> so_daqmx o = Some q ->
  so_dtype o = Some dto -> dto <> T_DAQMX -> dq_scalers q = [s] ->
  nth_error dims k = Some (n, w) -> sc_buf s = Z.of_nat k ->
  0 < w -> 0 <= sc_off s ->
  daqmx_type (sc_type s) = Some dt -> tds_size dt = Some (Some sz) ->
  exists vs,
    alookup (so_path o) c = Some (CData vs) /\
    length vs = length (items w (read_at (buffer_base dims k) (w * n) cur)) /\
    forall i, (i < length vs)%nat ->
              nth_error vs i = Some (scaler_value_at e (dq_kind q) s dt sz (buffer_base dims k) w cur i).
Proof.
  intros H Hd Hdims Hin Hnd Hq Hdt Hne Hs Hk Hb Hw Hoff Hty Hsz.
  unfold read_daqmx_chunk in H. rewrite Hd in H. cbn [bind] in H.
  destruct (daqmx_buffers e objs dims 0 cur [] []) as [[[d1 s1] cur1']|] eqn:E1;
    cbn [bind] in H; [|discriminate].
  injection H as <- <-.
  destruct (buffers_data_establish e objs o q s dto dims 0 cur [] [] d1 s1 cur1' k n w
                                   E1 Hdims Hin Hnd Hq Hdt Hne Hs Hk ltac:(lia)) as [vs [Hv Hl]].
  assert (Hnw : 0 <= n /\ 0 <= w).
  { rewrite Forall_forall in Hdims. apply (Hdims (n, w)). eapply nth_error_In. exact Hk. }
  destruct (scaler_window_addressing e (dq_kind q) s _ (buffer_base dims k) (w * n) w cur dt sz vs
                                     Hw Hoff (buffer_base_nonneg dims k Hdims) ltac:(nia) Hty Hsz Hv)
    as [Hlen Hnth].
  exists vs. split; [|split; [exact Hlen|]].
  - rewrite merge_lookup_notin; [exact Hl|].
    intros Hkin.
    assert (Hsk : skeys_ok objs s1).
    { eapply buffers_skeys; [exact E1|]. intros k0 []. }
    destruct (Hsk _ Hkin) as [o' [Hin' [Hp Hdt']]].
    assert (o' = o) by (eapply (NoDup_map_inj so_path); eassumption). subst o'.
    rewrite Hdt in Hdt'. injection Hdt' as ->. contradiction.
  - intros i Hi. apply Hnth. unfold items in Hlen. lia.
Qed.

Theorem daqmx_segment_addressing_typed sg cur cs cur' dims o q s dto k n w dt sz j c :
  seg_layout sg = Ok LDaqmx ->
  read_segment_chunks sg cur = Ok (cs, cur') ->
  buffer_dims (data_objs (sg_objs sg)) = Ok dims ->
  Forall (fun d => 0 <= fst d /\ 0 <= snd d) dims ->
  In o (data_objs (sg_objs sg)) -> NoDup (map so_path (data_objs (sg_objs sg))) ->
  so_daqmx o = Some q -> so_dtype o = Some dto -> dto <> T_DAQMX -> dq_scalers q = [s] ->
  nth_error dims k = Some (n, w) -> sc_buf s = Z.of_nat k ->
  0 < w -> 0 <= sc_off s ->
  daqmx_type (sc_type s) = Some dt -> tds_size dt = Some (Some sz) ->
  nth_error cs j = Some c ->
  let base := Z.of_nat j * chunk_bytes dims + buffer_base dims k in
  exists vs,
    alookup (so_path o) c = Some (CData vs) /\
    length vs = length (items w (read_at base (w * n) cur)) /\
    forall i, (i < length vs)%nat ->
              nth_error vs i
              = Some (scaler_value_at (toc_endian (sg_toc sg)) (dq_kind q) s dt sz base w cur i).
Proof.
  intros Hlay H Hd Hdims Hin Hnd Hq Hdt Hne Hs Hk Hb Hw Hoff Hty Hsz Hj base.
  unfold read_segment_chunks in H. rewrite Hlay in H. cbn [bind] in H.
  set (e := toc_endian (sg_toc sg)) in *. set (objs := data_objs (sg_objs sg)) in *.
  pose proof (chunk_bytes_nonneg dims Hdims) as Hcb.
  pose proof (buffer_base_nonneg dims k Hdims) as Hbb.
  assert (Hrd : forall (ci : Z) (c0 : bytes) (ch : chunk) (c' : bytes),
             (fun (_ : Z) (c1 : bytes) => read_daqmx_chunk e objs c1) ci c0 = Ok (ch, c') ->
             c' = drop (chunk_bytes dims) c0).
  { intros ci c0 ch c' Hr. exact (read_daqmx_chunk_rest e objs c0 ch c' dims Hr Hd Hdims). }
  destruct (read_chunks_loop_nth _ _ Hrd Hcb _ _ _ _ _ _ H j c Hj) as [c' Hc'].
  cbv beta in Hc'.
  destruct (daqmx_chunk_addressing_typed e objs _ c c' dims o q s dto k n w dt sz
                                         Hc' Hd Hdims Hin Hnd Hq Hdt Hne Hs Hk Hb Hw Hoff Hty Hsz)
    as [vs [Hh [Hl Hnth]]].
  exists vs. split; [exact Hh|].
  rewrite read_at_drop in Hl by nia. split; [exact Hl|].
  intros i Hi. rewrite (Hnth i Hi). f_equal.
  apply scaler_value_at_drop; nia.
Qed.

(* how many rows a (possibly truncated) buffer yields: the complete rows among
   the bytes that are there *)
Lemma rows_count_available (w n base : Z) (cur : bytes) :
  0 < w -> 0 <= n -> 0 <= base ->
  Z.of_nat (length (items w (read_at base (w * n) cur)))
  = Z.min (w * n) (blen cur - Z.min base (blen cur)) / w.
Proof.
  intros Hw Hn Hb. rewrite items_length by exact Hw.
  unfold read_at. rewrite blen_take by nia. rewrite blen_drop by exact Hb. reflexivity.
Qed.

(* ---- a concrete segment ---------------------------------------------------------- *)
(* big-endian; two raw buffers (2 rows x 4 bytes, 3 rows x 3 bytes; 17 bytes per
   chunk), two chunks; channel a: two int16 scalers in buffer 0 at byte offsets 0
   and 2; channel b: one uint8 scaler in buffer 1 at byte offset 1; channel c:
   a digital line in buffer 1 at bit offset 10 (byte 1, bit 2). *)
Section Example.
Import String.
Local Open Scope string_scope.
Definition ex_qa := mkDq FORMAT_CHANGING_SCALER [mkScaler 3 0 0 0 0; mkScaler 3 0 2 0 1] [4; 3].
Definition ex_qb := mkDq FORMAT_CHANGING_SCALER [mkScaler 0 1 1 0 0] [4; 3].
Definition ex_qc := mkDq DIGITAL_LINE_SCALER [mkScaler 0 1 10 0 0] [4; 3].
Definition ex_oa := mkSobj (hex "2f2761") true 2 0 (Some T_DAQMX) (Some ex_qa).
Definition ex_ob := mkSobj (hex "2f2762") true 3 0 (Some T_DAQMX) (Some ex_qb).
Definition ex_oc := mkSobj (hex "2f2763") true 3 0 (Some T_DAQMX) (Some ex_qc).
Definition ex_seg := mkSeg 0 (2 + 4 + 8 + 64 + 128) 0 0 false [ex_oa; ex_ob; ex_oc] [] 2 None.
Definition ex_data := hex "0102030411121314a0a1a2b0b1b2c0c1c2212223243132333400040f00ff0a000100".

Example daqmx_segment_example :
  buffer_dims [ex_oa; ex_ob; ex_oc] = Ok [(2, 4); (3, 3)] /\
  read_segment_chunks ex_seg ex_data =
  Ok ([ [(hex "2f2761", CScalers [(0, [hex "0201"; hex "1211"]); (1, [hex "0403"; hex "1413"])]);
         (hex "2f2762", CScalers [(0, [hex "a1"; hex "b1"; hex "c1"])]);
         (hex "2f2763", CScalers [(0, [hex "00"; hex "00"; hex "00"])])];
        [(hex "2f2761", CScalers [(0, [hex "2221"; hex "3231"]); (1, [hex "2423"; hex "3433"])]);
         (hex "2f2762", CScalers [(0, [hex "04"; hex "ff"; hex "01"])]);
         (hex "2f2763", CScalers [(0, [hex "01"; hex "01"; hex "00"])])] ], []) /\
  (* chunk 1, buffer 1 (base 17 + 8), row 1, byte offset 1: address 17 + 8 + 1*3 + 1 = 29 *)
  scaler_value_at BE FORMAT_CHANGING_SCALER (mkScaler 0 1 1 0 0) 5 1
                  (1 * chunk_bytes [(2, 4); (3, 3)] + buffer_base [(2, 4); (3, 3)] 1) 3 ex_data 1
  = hex "ff" /\
  read_at 29 1 ex_data = hex "ff" /\
  (* the digital line at the same row: bit 2 of byte 29 *)
  scaler_value_at BE DIGITAL_LINE_SCALER (mkScaler 0 1 10 0 0) 5 1
                  (1 * chunk_bytes [(2, 4); (3, 3)] + buffer_base [(2, 4); (3, 3)] 1) 3 ex_data 1
  = hex "01".
Proof. vm_compute. repeat split. Qed.
End Example.
