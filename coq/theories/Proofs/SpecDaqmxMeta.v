(* Refinement of the reader model to Model/SpecDaqmx.v -- the metadata pass.

   Proofs/SpecRefineMeta.v (the simulation for Model/Spec.v) redone for the state of
   SpecDaqmx.v: the most recent index of an object is ordinary (GP) or DAQmx (GQ), the
   model's segment object for it is [gmk_obj]; the per-object metadata also carries the
   scale id -> type map, which the specification checks when a DAQmx index is listed
   and the model when it updates the metadata.  The generic dictionary lemmas of
   SpecRefineMeta.v are re-used; the positional index map is removed with
   SegStateInherit.positional_update_is_update_by_path (C02), as there. *)
From Coq Require Import List ZArith Bool Lia ZifyBool.
From Coq Require Import Init.Byte.
Import ListNotations.
From NpTdms Require Import Base.Bytes Base.Res Model.Tokens Model.TokensWf Model.SegState Model.Layout
     Model.Reader Model.FileSyn Model.Spec Model.SpecDaqmx Proofs.SegStateProofs Proofs.LayoutProofs
     Proofs.FileSynProofs Proofs.SegStateInherit Proofs.ReadCorrect Proofs.SpecRefineBase
     Proofs.SpecRefineMeta Proofs.SpecDaqmxBase.
Local Open Scope Z_scope.

Ltac to_model :=
  repeat match goal with
         | |- context [@get ?V ?k ?d] => change (@get V k d) with (@alookup V k d)
         | |- context [@put ?V ?k ?v ?d] => change (@put V k v d) with (@aset V k v d)
         | H : context [@get ?V ?k ?d] |- _ => change (@get V k d) with (@alookup V k d) in H
         | H : context [@put ?V ?k ?v ?d] |- _ => change (@put V k v d) with (@aset V k v d) in H
         end.

(* ---- the model's object list for an active list -------------------------------- *)

Definition gisd (a : option gidx) : bool := match a with Some _ => true | None => false end.

Definition gobjs_of (act : dict (option gidx)) (lst : dict gidx) : list sobj :=
  map (fun pa => gmk_obj (fst pa) (gisd (snd pa)) (alookup (fst pa) lst)) act.

Lemma gobjs_of_paths act lst : map so_path (gobjs_of act lst) = map fst act.
Proof.
  unfold gobjs_of. rewrite map_map. apply map_ext. intros [p a]. apply gmk_obj_path.
Qed.

Lemma gobjs_of_ext act lst lst' :
  (forall q, In q (map fst act) -> alookup q lst' = alookup q lst) ->
  gobjs_of act lst' = gobjs_of act lst.
Proof.
  intros H. unfold gobjs_of. apply map_ext_in. intros [q a] Hin. cbn [fst snd].
  rewrite H; [reflexivity|]. apply (in_map fst) in Hin. exact Hin.
Qed.

Lemma find_path_gobjs_of p lst : forall act,
  find_path p (gobjs_of act lst) =
  match alookup p act with
  | Some a => Some (gmk_obj p (gisd a) (alookup p lst))
  | None => None
  end.
Proof.
  induction act as [|[k a] r IH]; cbn [gobjs_of map find_path alookup fst snd]; [reflexivity|].
  rewrite gmk_obj_path. destruct (bytes_eqb p k) eqn:E.
  - apply bytes_eqb_eq in E. subst k. reflexivity.
  - exact IH.
Qed.

Lemma replace_path_gobjs_of p a lst lst' : forall act,
  NoDup (map fst act) ->
  alookup p act <> None ->
  (forall q, q <> p -> alookup q lst' = alookup q lst) ->
  replace_path p (gmk_obj p (gisd a) (alookup p lst')) (gobjs_of act lst) = gobjs_of (aset p a act) lst'.
Proof.
  induction act as [|[k a0] r IH]; intros Hnd Hin Hagree; [contradiction Hin; reflexivity|].
  cbn [gobjs_of map replace_path aset fst snd]. rewrite gmk_obj_path.
  cbn [map fst] in Hnd. apply NoDup_cons_iff in Hnd. destruct Hnd as [Hk Hnd].
  destruct (bytes_eqb p k) eqn:E.
  - apply bytes_eqb_eq in E. subst k. cbn [map fst snd]. f_equal.
    symmetry. apply gobjs_of_ext. intros q Hq. apply Hagree. intros ->. exact (Hk Hq).
  - cbn [map fst snd]. apply bytes_eqb_neq in E. rewrite (Hagree k) by congruence. f_equal.
    apply IH; [exact Hnd| |exact Hagree].
    cbn [alookup] in Hin. apply bytes_eqb_neq in E. rewrite E in Hin. exact Hin.
Qed.

Lemma append_gobjs_of p a lst lst' act :
  alookup p act = None ->
  (forall q, q <> p -> alookup q lst' = alookup q lst) ->
  gobjs_of act lst ++ [gmk_obj p (gisd a) (alookup p lst')] = gobjs_of (aset p a act) lst'.
Proof.
  intros Hnone Hagree.
  rewrite (aset_fresh p a act) by (apply alookup_none_not_in; exact Hnone).
  unfold gobjs_of at 2. rewrite map_app. cbn [map fst snd]. f_equal.
  symmetry. apply gobjs_of_ext. intros q Hq. apply Hagree. intros ->.
  exact (alookup_none_not_in _ _ Hnone Hq).
Qed.

(* ---- one listed object: the model's update functions on [gmk_obj] ---------------- *)

Lemma gnew_object_index_of p lf dt dim n total i :
  index_of dt dim n total = Some i ->
  new_object p (IFull lf dt dim n total) = Ok (gmk_obj p true (Some (GP i))).
Proof. intros H. rewrite (new_object_index_of p lf dt dim n total i H). reflexivity. Qed.

Lemma update_existing_gmk p hd oi (x : idx) :
  update_existing (gmk_obj p hd oi) x =
  match x with
  | INoData => Ok (gmk_obj p false oi)
  | IMatchPrev => Ok (gmk_obj p true oi)
  | _ => new_object p x
  end.
Proof.
  unfold update_existing. rewrite gmk_obj_has_data, gmk_obj_path.
  destruct x; try reflexivity; destruct hd; rewrite ?set_has_data_gmk; reflexivity.
Qed.

Lemma reuse_previous_gmk p hd oi (x : idx) :
  reuse_previous (gmk_obj p hd oi) x =
  match x with
  | INoData => Ok (gmk_obj p false oi)
  | IMatchPrev => Ok (gmk_obj p true oi)
  | _ => new_object p x
  end.
Proof. exact (update_existing_gmk p hd oi x). Qed.

(* ---- simulation of one metadata block -------------------------------------------- *)

Definition gprev_rel (prev : alist sobj) (c : dict dcobj) (lst : dict gidx) : Prop :=
  forall p, match alookup p c with
            | None => alookup p prev = None
            | Some _ => exists hd, alookup p prev = Some (gmk_obj p hd (alookup p lst))
            end.

(* the scale id -> type map a DAQmx index declares agrees with the one recorded in the
   content [c] for its object *)
Definition types_agree (c : dict dcobj) (lst : dict gidx) : Prop :=
  forall p q o t0, alookup p lst = Some (GQ q) -> alookup p c = Some o -> d_types o = Some t0 ->
                   same_map t0 (type_map (qi_scalers q)) = true.

Section Entries.
  Variable prev : alist sobj.
  Variable c0 : dict dcobj.
  Variable last0 : dict gidx.
  Hypothesis Hprev : gprev_rel prev c0 last0.

  Record GJ (st : dstate) (done : list bytes) : Prop := mkGJ {
    gj_objs : dobjs st = c0;
    gj_nodup : NoDup (map fst (dactive st));
    gj_act_last : forall p i, In (p, Some i) (dactive st) -> alookup p (dlast st) = Some i;
    gj_last_other : forall p, ~ In p done -> alookup p (dlast st) = alookup p last0;
    gj_act_known : forall p, In p (map fst (dactive st)) -> In p done \/ alookup p c0 <> None;
    gj_dt : forall p i0, alookup p last0 = Some i0 ->
                         exists i, alookup p (dlast st) = Some i /\ gi_dt i = gi_dt i0;
    gj_idx_ok : forall p i, alookup p (dlast st) = Some i -> gidx_ok i;
    gj_last_known : forall p i, alookup p (dlast st) = Some i -> In p done \/ alookup p c0 <> None;
    gj_done_act : forall p, In p done -> In p (map fst (dactive st));
    gj_types : types_agree c0 (dlast st) }.

  Lemma GJ_keep st done p a :
    GJ st done -> ~ In p done ->
    (forall i, a = Some i -> alookup p (dlast st) = Some i) ->
    GJ (mkDstate (aset p a (dactive st)) (dlast st) (dobjs st)) (p :: done).
  Proof.
    intros HJ Hp Ha. destruct HJ as [H1 H2 H3 H4 H5 H6 H7 H8 H9 H10].
    constructor; cbn [dactive dlast dobjs].
    - exact H1.
    - apply aset_keys_nodup. exact H2.
    - intros q i Hin. apply (In_aset_some q p a (Some i) _ H2) in Hin.
      destruct Hin as [[-> <-]|[_ Hin]]; [apply Ha; reflexivity|exact (H3 q i Hin)].
    - intros q Hq. apply H4. intros Hin. apply Hq. right. exact Hin.
    - intros q Hq. apply In_aset_keys in Hq. destruct Hq as [->|Hq]; [left; left; reflexivity|].
      destruct (H5 q Hq) as [Hd|Hk]; [left; right; exact Hd|right; exact Hk].
    - exact H6.
    - exact H7.
    - intros q i Hq. destruct (H8 q i Hq) as [Hd|Hk]; [left; right; exact Hd|right; exact Hk].
    - intros q [<-|Hq]; [apply aset_key_in|apply aset_keys_incl; exact (H9 q Hq)].
    - exact H10.
  Qed.

  Lemma GJ_full st done p i :
    GJ st done -> ~ In p done -> gidx_ok i ->
    (forall i0, alookup p (dlast st) = Some i0 -> gi_dt i = gi_dt i0) ->
    (forall q o t0, i = GQ q -> alookup p c0 = Some o -> d_types o = Some t0 ->
                    same_map t0 (type_map (qi_scalers q)) = true) ->
    GJ (mkDstate (aset p (Some i) (dactive st)) (aset p i (dlast st)) (dobjs st)) (p :: done).
  Proof.
    intros HJ Hp Hok Hdt Hty. destruct HJ as [H1 H2 H3 H4 H5 H6 H7 H8 H9 H10].
    constructor; cbn [dactive dlast dobjs].
    - exact H1.
    - apply aset_keys_nodup. exact H2.
    - intros q j Hin. apply (In_aset_some q p _ (Some j) _ H2) in Hin.
      destruct Hin as [[-> Hj]|[Hne Hin]].
      + injection Hj as ->. apply alookup_aset_eq.
      + rewrite alookup_aset_neq by exact Hne. exact (H3 q j Hin).
    - intros q Hq. rewrite alookup_aset_neq; [apply H4; intros Hin; apply Hq; right; exact Hin|].
      intros ->. apply Hq. left. reflexivity.
    - intros q Hq. apply In_aset_keys in Hq. destruct Hq as [->|Hq]; [left; left; reflexivity|].
      destruct (H5 q Hq) as [Hd|Hk]; [left; right; exact Hd|right; exact Hk].
    - intros q i0 Hq. destruct (H6 q i0 Hq) as (j & Hj & Hjdt).
      rewrite alookup_aset. destruct (bytes_eqb q p) eqn:E.
      + apply bytes_eqb_eq in E. subst q. exists i. split; [reflexivity|].
        rewrite (Hdt j Hj). exact Hjdt.
      + exists j. split; [exact Hj|exact Hjdt].
    - intros q j Hq. rewrite alookup_aset in Hq. destruct (bytes_eqb q p).
      + injection Hq as <-. exact Hok.
      + exact (H7 q j Hq).
    - intros q j Hq. rewrite alookup_aset in Hq. destruct (bytes_eqb q p) eqn:E.
      + apply bytes_eqb_eq in E. subst q. left. left. reflexivity.
      + destruct (H8 q j Hq) as [Hd|Hk]; [left; right; exact Hd|right; exact Hk].
    - intros q [<-|Hq]; [apply aset_key_in|apply aset_keys_incl; exact (H9 q Hq)].
    - intros q qi o t0 Hq Ho Ht. rewrite alookup_aset in Hq. destruct (bytes_eqb q p) eqn:E.
      + apply bytes_eqb_eq in E. subst q. injection Hq as Hq. exact (Hty qi o t0 Hq Ho Ht).
      + exact (H10 q qi o t0 Hq Ho Ht).
  Qed.

  Lemma gprev_lookup st done p :
    GJ st done -> ~ In p done ->
    match alookup p c0 with
    | None => alookup p prev = None
    | Some _ => exists hd, alookup p prev = Some (gmk_obj p hd (alookup p (dlast st)))
    end.
  Proof.
    intros HJ Hp. pose proof (Hprev p) as H. destruct (alookup p c0); [|exact H].
    destruct H as (hd & H). exists hd. rewrite (gj_last_other _ _ HJ p Hp). exact H.
  Qed.

  (* a listed object with a new index of either kind: [i] is the index the
     specification records, [Hnew] says the model builds the matching object *)
  Lemma gsim_entry_new st done x i :
    GJ st done -> ~ In (e_path x) done ->
    (forall hd oi, update_existing (gmk_obj (e_path x) hd oi) (e_idx x) = Ok (gmk_obj (e_path x) true (Some i))) ->
    new_object (e_path x) (e_idx x) = Ok (gmk_obj (e_path x) true (Some i)) ->
    (match e_idx x with IMatchPrev => False | _ => True end) ->
    spec_step prev (gobjs_of (dactive st) (dlast st)) x
    = Ok (gobjs_of (aset (e_path x) (Some i) (dactive st)) (aset (e_path x) i (dlast st))).
  Proof.
    intros HJ Hp Hnew Hnew0 Hnm. pose proof (gprev_lookup st done (e_path x) HJ Hp) as Hpl.
    unfold spec_step. rewrite find_path_gobjs_of. set (p := e_path x) in *.
    assert (Hagree : forall q, q <> p -> alookup q (aset p i (dlast st)) = alookup q (dlast st)).
    { intros q Hq. apply alookup_aset_neq. exact Hq. }
    assert (Hmk : gmk_obj p true (Some i) = gmk_obj p (gisd (Some i)) (alookup p (aset p i (dlast st)))).
    { rewrite alookup_aset_eq. reflexivity. }
    destruct (alookup p (dactive st)) as [a|] eqn:Ea.
    - rewrite Hnew. cbn [bind]. f_equal. rewrite Hmk.
      apply (replace_path_gobjs_of p (Some i) (dlast st));
        [exact (gj_nodup _ _ HJ)|rewrite Ea; discriminate|exact Hagree].
    - destruct (alookup p c0) as [o|] eqn:Ec.
      + destruct Hpl as (hd & ->). change reuse_previous with update_existing. rewrite Hnew.
        cbn [bind]. f_equal. rewrite Hmk.
        apply (append_gobjs_of p (Some i) (dlast st)); [exact Ea|exact Hagree].
      + rewrite Hpl.
        assert (Hgo : (do o' <- new_object p (e_idx x); Ok (gobjs_of (dactive st) (dlast st) ++ [o']))
                      = Ok (gobjs_of (aset p (Some i) (dactive st)) (aset p i (dlast st)))).
        { rewrite Hnew0. cbn [bind]. f_equal. rewrite Hmk.
          apply (append_gobjs_of p (Some i) (dlast st)); [exact Ea|exact Hagree]. }
        destruct (e_idx x); try exact Hgo. contradiction.
  Qed.

  Lemma gsim_entry st done x st' :
    GJ st done -> ~ In (e_path x) done -> entry_ok_dq x = true -> wf_entry x = true ->
    apply_entry_dq st x = SOk st' ->
    spec_step prev (gobjs_of (dactive st) (dlast st)) x = Ok (gobjs_of (dactive st') (dlast st')) /\
    GJ st' (e_path x :: done).
  Proof.
    intros HJ Hp Hok Hwfx Hap. pose proof (gprev_lookup st done (e_path x) HJ Hp) as Hpl.
    unfold apply_entry_dq in Hap. to_model.
    set (p := e_path x) in *.
    destruct (e_idx x) as [| |lf dt dim n total|kind dt dim n scalers widths] eqn:Eidx.
    - (* no data *)
      unfold spec_step. fold p. rewrite find_path_gobjs_of, Eidx.
      injection Hap as <-. cbn [dactive dlast dobjs].
      split; [|apply GJ_keep; [exact HJ|exact Hp|discriminate]].
      destruct (alookup p (dactive st)) as [a|] eqn:Ea.
      + rewrite update_existing_gmk. cbn [bind]. f_equal.
        apply (replace_path_gobjs_of p None (dlast st) (dlast st));
          [exact (gj_nodup _ _ HJ)|rewrite Ea; discriminate|reflexivity].
      + destruct (alookup p c0) as [o|] eqn:Ec.
        * destruct Hpl as (hd & ->). rewrite reuse_previous_gmk. cbn [bind]. f_equal.
          apply (append_gobjs_of p None (dlast st) (dlast st)); [exact Ea|reflexivity].
        * rewrite Hpl. cbn [new_object bind]. f_equal.
          assert (Hl : alookup p (dlast st) = None).
          { destruct (alookup p (dlast st)) as [i|] eqn:El; [|reflexivity].
            destruct (gj_last_known _ _ HJ p i El) as [Hd|Hk]; [contradiction|].
            rewrite Ec in Hk. contradiction Hk; reflexivity. }
          replace (mkSobj p false 0 0 None None) with (gmk_obj p (gisd None) (alookup p (dlast st)))
            by (rewrite Hl; reflexivity).
          apply (append_gobjs_of p None (dlast st) (dlast st)); [exact Ea|reflexivity].
    - (* same as before *)
      unfold spec_step. fold p. rewrite find_path_gobjs_of, Eidx.
      destruct (alookup p (dlast st)) as [i|] eqn:El.
      + injection Hap as <-. cbn [dactive dlast dobjs].
        split; [|apply GJ_keep; [exact HJ|exact Hp|intros i' Hi'; injection Hi' as <-; exact El]].
        assert (Hk : alookup p c0 <> None).
        { destruct (gj_last_known _ _ HJ p i El) as [Hd|Hk]; [contradiction|exact Hk]. }
        assert (Hmk : gmk_obj p true (Some i) = gmk_obj p (gisd (Some i)) (alookup p (dlast st)))
          by (rewrite El; reflexivity).
        destruct (alookup p (dactive st)) as [a|] eqn:Ea.
        * rewrite update_existing_gmk. cbn [bind]. f_equal. rewrite Hmk.
          apply (replace_path_gobjs_of p (Some i) (dlast st) (dlast st));
            [exact (gj_nodup _ _ HJ)|rewrite Ea; discriminate|reflexivity].
        * destruct (alookup p c0) as [o|] eqn:Ec; [|contradiction Hk; reflexivity].
          destruct Hpl as (hd & ->). rewrite reuse_previous_gmk. cbn [bind]. f_equal. rewrite Hmk.
          apply (append_gobjs_of p (Some i) (dlast st) (dlast st)); [exact Ea|reflexivity].
      + rewrite (gj_objs _ _ HJ) in Hap. destruct (alookup p c0); discriminate.
    - (* full index *)
      destruct (index_of dt dim n total) as [i|] eqn:Ei; [|discriminate].
      assert (Hiok : ri_dt i = dt /\ idx_ok0 i).
      { destruct (wf_entry_full x lf dt dim n total Hwfx Eidx) as [Hn Ht].
        exact (index_of_idx_ok dt dim n total i Ei Hn Ht). }
      destruct Hiok as [Hidt Hiok].
      unfold type_ok in Hap. to_model.
      destruct (match alookup p (dlast st) with Some i' => gi_dt i' =? dt | None => true end) eqn:Edt;
        [|discriminate].
      injection Hap as <-. cbn [dactive dlast dobjs].
      split.
      2:{ apply GJ_full; [exact HJ|exact Hp|exact Hiok| |discriminate].
          intros i0 Hi0. rewrite Hi0 in Edt. cbn [gi_dt]. lia. }
      apply (gsim_entry_new st done x (GP i) HJ Hp).
      + intros hd oi. rewrite Eidx, update_existing_gmk. apply gnew_object_index_of. exact Ei.
      + rewrite Eidx. apply gnew_object_index_of. exact Ei.
      + rewrite Eidx. exact I.
    - (* DAQmx index *)
      destruct (dq_index_of kind dt dim n scalers widths) as [q|] eqn:Ei; [|discriminate].
      destruct (dq_index_of_ok _ _ _ _ _ _ _ Ei) as (Hqdt & Hqsc & Hqok).
      unfold type_ok, types_ok in Hap. to_model.
      destruct (match alookup p (dlast st) with Some i' => gi_dt i' =? dt | None => true end) eqn:Edt;
        cbn [andb] in Hap; [|discriminate].
      destruct (match alookup p (dobjs st) with
                | Some o => match d_types o with Some t0 => same_map t0 (type_map scalers) | None => true end
                | None => true end) eqn:Ety; [|discriminate].
      injection Hap as <-. cbn [dactive dlast dobjs].
      split.
      2:{ apply GJ_full; [exact HJ|exact Hp|exact Hqok| |].
          - intros i0 Hi0. rewrite Hi0 in Edt. cbn [gi_dt]. lia.
          - intros q' o t0 Hq' Ho Ht. injection Hq' as <-. rewrite (gj_objs _ _ HJ), Ho, Ht in Ety.
            rewrite Hqsc. exact Ety. }
      apply (gsim_entry_new st done x (GQ q) HJ Hp).
      + intros hd oi. rewrite Eidx, update_existing_gmk. apply new_object_dq_index_of. exact Ei.
      + rewrite Eidx. apply new_object_dq_index_of. exact Ei.
      + rewrite Eidx. exact I.
  Qed.

  Lemma gsim_entries : forall es st done st',
    GJ st done ->
    NoDup (map e_path es) -> (forall p, In p (map e_path es) -> ~ In p done) ->
    forallb entry_ok_dq es = true -> forallb wf_entry es = true ->
    apply_entries_dq st es = SOk st' ->
    spec_fold_entries prev (gobjs_of (dactive st) (dlast st)) es = Ok (gobjs_of (dactive st') (dlast st')) /\
    GJ st' (rev (map e_path es) ++ done).
  Proof.
    induction es as [|x es IH]; intros st done st' HJ Hnd Hdis Hok Hwf Hap.
    - cbn [apply_entries_dq] in Hap. injection Hap as <-. split; [reflexivity|exact HJ].
    - cbn [apply_entries_dq sbind] in Hap. cbn [map] in Hnd. apply NoDup_cons_iff in Hnd.
      destruct Hnd as [Hx Hnd]. cbn [forallb] in Hok. apply andb_prop in Hok. destruct Hok as [Hokx Hok].
      cbn [forallb] in Hwf. apply andb_prop in Hwf. destruct Hwf as [Hwfx Hwf].
      destruct (apply_entry_dq st x) as [st1|e] eqn:E1; cbn [sbind] in Hap; [|discriminate].
      destruct (gsim_entry st done x st1 HJ (Hdis _ (or_introl eq_refl)) Hokx Hwfx E1) as [Hstep HJ1].
      cbn [spec_fold_entries]. rewrite Hstep. cbn [bind].
      destruct (IH st1 (e_path x :: done) st' HJ1 Hnd) as [Hfold HJ'].
      + intros p Hp [<-|Hd]; [exact (Hx Hp)|]. apply (Hdis p); [right; exact Hp|exact Hd].
      + exact Hok.
      + exact Hwf.
      + exact Hap.
      + split; [exact Hfold|]. cbn [map rev]. rewrite <- app_assoc. exact HJ'.
  Qed.
End Entries.

(* ---- per-object metadata ------------------------------------------------------------ *)

(* path, properties, data type, scale id -> type map (lengths are handled separately) *)
Definition gom_rel0 (pm : bytes * ometa) (po : bytes * dcobj) : Prop :=
  fst pm = fst po /\
  om_props (snd pm) = d_props (snd po) /\
  om_dtype (snd pm) = d_dtype (snd po) /\
  om_scalers (snd pm) = d_types (snd po).

Lemma gom_rel0_key x y : gom_rel0 x y -> fst x = fst y.
Proof. intros H. exact (proj1 H). Qed.

Definition gcdt (c : dict dcobj) (p : bytes) : option (option Z) := option_map d_dtype (alookup p c).

Lemma gcdt_none c p : gcdt c p = None <-> alookup p c = None.
Proof. unfold gcdt. destruct (alookup p c); cbn; split; intros H; try discriminate; reflexivity. Qed.

Lemma gcdt_none_iff_not c p : alookup p c <> None <-> gcdt c p <> None.
Proof. rewrite gcdt_none. tauto. Qed.

Definition touched (lst : dict gidx) (c : dict dcobj) (p : bytes) : dcobj :=
  let o := match alookup p c with Some o => o | None => dcobj0 end in
  mkDc (d_props o) (option_map gi_dt (alookup p lst)) (d_vals o)
       (match alookup p lst with Some (GQ q) => Some (type_map (qi_scalers q)) | _ => d_types o end)
       (d_len o) (d_svals o).

Lemma touch_dq_eq lst c p : touch_dq lst c p = aset p (touched lst c p) c.
Proof. reflexivity. Qed.

Lemma gcdt_touch lst c q p :
  gcdt (touch_dq lst c q) p = if bytes_eqb p q then Some (option_map gi_dt (alookup q lst)) else gcdt c p.
Proof.
  unfold gcdt. rewrite touch_dq_eq, alookup_aset. destruct (bytes_eqb p q); reflexivity.
Qed.

Lemma gcdt_fold_touch lst : forall ps c p,
  gcdt (fold_left (touch_dq lst) ps c) p =
  if existsb (bytes_eqb p) ps then Some (option_map gi_dt (alookup p lst)) else gcdt c p.
Proof.
  induction ps as [|q ps IH]; intros c p; cbn [fold_left existsb]; [reflexivity|].
  rewrite IH, gcdt_touch. destruct (bytes_eqb p q) eqn:E; cbn [orb].
  - apply bytes_eqb_eq in E. subst q. destruct (existsb (bytes_eqb p) ps); reflexivity.
  - reflexivity.
Qed.

Lemma set_props_dq_eq c x :
  set_props_dq c x =
  match alookup (e_path x) c with
  | Some o => aset (e_path x)
                   (mkDc (fold_left (fun ps pr => aset (p_name pr) pr ps) (e_props x) (d_props o))
                         (d_dtype o) (d_vals o) (d_types o) (d_len o) (d_svals o)) c
  | None => c
  end.
Proof. reflexivity. Qed.

Lemma gcdt_set_props c x p : gcdt (set_props_dq c x) p = gcdt c p.
Proof.
  rewrite set_props_dq_eq. destruct (alookup (e_path x) c) as [o|] eqn:E; [|reflexivity].
  unfold gcdt. rewrite alookup_aset. destruct (bytes_eqb p (e_path x)) eqn:Ep; [|reflexivity].
  apply bytes_eqb_eq in Ep. subst p. rewrite E. reflexivity.
Qed.

Lemma gcdt_fold_set_props : forall es c p, gcdt (fold_left set_props_dq es c) p = gcdt c p.
Proof.
  induction es as [|x es IH]; intros c p; cbn [fold_left]; [reflexivity|].
  rewrite IH. apply gcdt_set_props.
Qed.

Lemma touch_dq_nodup lst c p : NoDup (map fst c) -> NoDup (map fst (touch_dq lst c p)).
Proof. rewrite touch_dq_eq. apply aset_keys_nodup. Qed.

Lemma fold_touch_dq_nodup lst : forall ps c,
    NoDup (map fst c) -> NoDup (map fst (fold_left (touch_dq lst) ps c)).
Proof.
  induction ps as [|p ps IH]; intros c H; cbn [fold_left]; [exact H|]. apply IH. apply touch_dq_nodup. exact H.
Qed.

Lemma set_props_dq_nodup c x : NoDup (map fst c) -> NoDup (map fst (set_props_dq c x)).
Proof. rewrite set_props_dq_eq. destruct (alookup (e_path x) c); [apply aset_keys_nodup|tauto]. Qed.

Lemma fold_set_props_dq_nodup : forall es c,
    NoDup (map fst c) -> NoDup (map fst (fold_left set_props_dq es c)).
Proof.
  induction es as [|x es IH]; intros c H; cbn [fold_left]; [exact H|]. apply IH. apply set_props_dq_nodup. exact H.
Qed.

(* the scale id -> type map of a content object *)
Definition gtypes (c : dict dcobj) (p : bytes) : option (option (list (Z * Z))) :=
  option_map d_types (alookup p c).

Lemma types_agree_touch lst c p : types_agree c lst -> types_agree (touch_dq lst c p) lst.
Proof.
  intros H q qi o t0 Hq Ho Ht. rewrite touch_dq_eq, alookup_aset in Ho.
  destruct (bytes_eqb q p) eqn:E.
  - apply bytes_eqb_eq in E. subst q. injection Ho as <-. unfold touched in Ht. cbn [d_types] in Ht.
    rewrite Hq in Ht. injection Ht as <-. apply same_map_refl.
  - exact (H q qi o t0 Hq Ho Ht).
Qed.

(* the model's update of the per-object metadata for the segment's objects is the
   specification's "every active object is part of the content" *)
Lemma gsim_touch lst nch fin : forall act prev om c,
  Forall2 gom_rel0 om c ->
  (forall p, In p (map fst act) ->
             gcdt c p = None \/ gcdt c p = Some None \/ gcdt c p = Some (option_map gi_dt (alookup p lst))) ->
  types_agree c lst ->
  exists prev' om',
    update_object_metadata (gobjs_of act lst) nch fin prev om = Ok (prev', om') /\
    Forall2 gom_rel0 om' (fold_left (touch_dq lst) (map fst act) c).
Proof.
  induction act as [|[p a] r IH]; intros prev om c Hrel Hdt Hty.
  - exists prev, om. split; [reflexivity|exact Hrel].
  - cbn [gobjs_of map fst snd update_object_metadata fold_left]. rewrite gmk_obj_path.
    set (o := gmk_obj p (gisd a) (alookup p lst)).
    pose proof (rel_alookup gom_rel0 gom_rel0_key p om c Hrel) as Hlk.
    specialize (Hdt p (or_introl eq_refl)) as Hdtp. unfold gcdt in Hdtp.
    assert (Hm : exists m', update_ometa (get_ometa p om) o nch fin = Ok m' /\
                            gom_rel0 (p, m') (p, touched lst c p)).
    { unfold get_ometa, update_ometa, touched. subst o. rewrite gmk_obj_dtype, gmk_obj_daqmx.
      destruct (alookup p om) as [m|] eqn:Em; destruct (alookup p c) as [oc|] eqn:Ec; try contradiction.
      - destruct Hlk as (_ & Hprops & Hdtype & Hsc). cbn [fst snd] in *.
        assert (Hchk : (match om_dtype m with Some _ => true | None => false end) &&
                       negb (oz_eqb (om_dtype m) (option_map gi_dt (alookup p lst))) = false).
        { rewrite Hdtype. cbn [option_map] in Hdtp.
          destruct Hdtp as [Hd|[Hd|Hd]]; [discriminate| |]; injection Hd as ->.
          - reflexivity.
          - rewrite oz_eqb_refl. apply andb_false_r. }
        rewrite Hchk.
        destruct (alookup p lst) as [[i|q]|] eqn:El.
        + eexists. split; [reflexivity|].
          unfold gom_rel0. cbn [fst snd om_props om_dtype om_scalers d_props d_dtype d_types]. auto.
        + rewrite Hsc. destruct (d_types oc) as [t0|] eqn:Et.
          * change (scaler_types_eqb t0 (scaler_types (dq_of q))) with (same_map t0 (type_map (qi_scalers q))).
            rewrite (Hty p q oc t0 El Ec Et). eexists. split; [reflexivity|].
            unfold gom_rel0. cbn [fst snd om_props om_dtype om_scalers d_props d_dtype d_types]. auto.
          * eexists. split; [reflexivity|].
            unfold gom_rel0. cbn [fst snd om_props om_dtype om_scalers d_props d_dtype d_types]. auto.
        + eexists. split; [reflexivity|].
          unfold gom_rel0. cbn [fst snd om_props om_dtype om_scalers d_props d_dtype d_types]. auto.
      - cbn [ometa0 om_dtype andb om_scalers].
        destruct (alookup p lst) as [[i|q]|] eqn:El; (eexists; split; [reflexivity|]);
          unfold gom_rel0; cbn [fst snd om_props om_dtype om_scalers d_props d_dtype d_types dcobj0 ometa0]; auto. }
    destruct Hm as (m' & -> & Hrel'). cbn [bind].
    apply IH.
    + rewrite touch_dq_eq. apply (rel_aset gom_rel0 gom_rel0_key); assumption.
    + intros q Hq. rewrite gcdt_touch. destruct (bytes_eqb q p) eqn:E.
      * apply bytes_eqb_eq in E. subst q. right. right. reflexivity.
      * apply Hdt. right. exact Hq.
    + apply types_agree_touch. exact Hty.
Qed.

Lemma gsim_props : forall es om c,
  Forall2 gom_rel0 om c ->
  (forall x, In x es -> alookup (e_path x) c <> None) ->
  Forall2 gom_rel0 (update_object_properties (plist es) om) (fold_left set_props_dq es c).
Proof.
  induction es as [|x es IH]; intros om c Hrel Hin; [exact Hrel|].
  cbn [fold_left plist flat_map]. rewrite set_props_dq_eq.
  pose proof (rel_alookup gom_rel0 gom_rel0_key (e_path x) om c Hrel) as Hlk.
  destruct (alookup (e_path x) c) as [oc|] eqn:Ec; [|contradiction (Hin x (or_introl eq_refl)); exact Ec].
  destruct (alookup (e_path x) om) as [m|] eqn:Em; [|contradiction].
  destruct Hlk as (_ & Hprops & Hdtype & Hsc). cbn [fst snd] in *.
  assert (Hin' : forall c' : dict dcobj, (forall p, alookup p c <> None -> alookup p c' <> None) ->
                            forall y, In y es -> alookup (e_path y) c' <> None).
  { intros c' Hc' y Hy. apply Hc'. apply Hin. right. exact Hy. }
  destruct (e_props x) as [|pr ps] eqn:Ep.
  - cbv beta iota. cbn [app fold_left].
    replace (mkDc (d_props oc) (d_dtype oc) (d_vals oc) (d_types oc) (d_len oc) (d_svals oc)) with oc
      by (destruct oc; reflexivity).
    rewrite (alookup_aset_same _ _ _ Ec). apply IH; [exact Hrel|]. apply Hin'. tauto.
  - cbv beta iota. cbn [app].
    rewrite update_object_properties_cons. apply IH.
    + apply (rel_aset gom_rel0 gom_rel0_key); [exact Hrel|].
      unfold gom_rel0, get_ometa. rewrite Em.
      cbn [fst snd SegState.set_props om_props om_dtype om_scalers d_props d_dtype d_types].
      rewrite Hprops. auto.
    + apply Hin'. intros p Hp. rewrite alookup_aset. destruct (bytes_eqb p (e_path x)); [discriminate|exact Hp].
Qed.

Lemma types_agree_set_props c x lst : types_agree c lst -> types_agree (set_props_dq c x) lst.
Proof.
  intros H q qi o t0 Hq Ho Ht. rewrite set_props_dq_eq in Ho.
  destruct (alookup (e_path x) c) as [ox|] eqn:Ex; [|exact (H q qi o t0 Hq Ho Ht)].
  rewrite alookup_aset in Ho. destruct (bytes_eqb q (e_path x)) eqn:E.
  - apply bytes_eqb_eq in E. subst q. injection Ho as <-. cbn [d_types] in Ht.
    exact (H _ qi ox t0 Hq Ex Ht).
  - exact (H q qi o t0 Hq Ho Ht).
Qed.

Lemma types_agree_fold_touch lst : forall ps c, types_agree c lst -> types_agree (fold_left (touch_dq lst) ps c) lst.
Proof.
  induction ps as [|p ps IH]; intros c H; cbn [fold_left]; [exact H|]. apply IH. apply types_agree_touch. exact H.
Qed.

Lemma types_agree_fold_set_props lst : forall es c,
    types_agree c lst -> types_agree (fold_left set_props_dq es c) lst.
Proof.
  induction es as [|x es IH]; intros c H; cbn [fold_left]; [exact H|]. apply IH. apply types_agree_set_props. exact H.
Qed.

(* ---- the invariant between the two states ----------------------------------------- *)

Record GInv (first : bool) (st : dstate) (ps : option (list sobj)) (prev : alist sobj) (om : alist ometa)
  : Prop := mkGInv {
  iv_ps : ps = if first then None else Some (gobjs_of (dactive st) (dlast st));
  iv_first : first = true -> dactive st = [];
  iv_act_nodup : NoDup (map fst (dactive st));
  iv_act_last : forall p i, In (p, Some i) (dactive st) -> alookup p (dlast st) = Some i;
  iv_act_known : forall p, In p (map fst (dactive st)) -> alookup p (dobjs st) <> None;
  iv_last_known : forall p i, alookup p (dlast st) = Some i -> alookup p (dobjs st) <> None;
  iv_idx_ok : forall p i, alookup p (dlast st) = Some i -> gidx_ok i;
  iv_prev : gprev_rel prev (dobjs st) (dlast st);
  iv_prev_keys : prev_keys_ok prev;
  iv_om : Forall2 gom_rel0 om (dobjs st);
  iv_dtype : forall p, gcdt (dobjs st) p = None \/
                       gcdt (dobjs st) p = Some (option_map gi_dt (alookup p (dlast st)));
  iv_objs_nodup : NoDup (map fst (dobjs st));
  iv_types : types_agree (dobjs st) (dlast st) }.

Lemma GInv_init : GInv true dstate0 None [] [].
Proof.
  constructor; cbn [dstate0 dactive dlast dobjs map].
  - reflexivity.
  - intros _. reflexivity.
  - constructor.
  - intros p i [].
  - intros p [].
  - intros p i H. discriminate H.
  - intros p i H. discriminate H.
  - intros p. reflexivity.
  - intros p po H. discriminate H.
  - constructor.
  - intros p. left. reflexivity.
  - constructor.
  - intros p q o t0 H. discriminate H.
Qed.

(* the content changed only in values (data, samples, scaler data) *)
Definition same_meta (a b : bytes * dcobj) : Prop :=
  fst a = fst b /\ d_props (snd a) = d_props (snd b) /\ d_dtype (snd a) = d_dtype (snd b) /\
  d_types (snd a) = d_types (snd b).

Lemma same_meta_key x y : same_meta x y -> fst x = fst y.
Proof. intros H. exact (proj1 H). Qed.

Lemma same_meta_lookup c c' p :
  Forall2 same_meta c c' ->
  match alookup p c, alookup p c' with
  | Some a, Some b => d_props a = d_props b /\ d_dtype a = d_dtype b /\ d_types a = d_types b
  | None, None => True
  | _, _ => False
  end.
Proof.
  intros H. pose proof (rel_alookup same_meta same_meta_key p c c' H) as Hl.
  destruct (alookup p c), (alookup p c'); try exact Hl. destruct Hl as (_ & H1 & H2 & H3). auto.
Qed.

Lemma GInv_same_meta first st ps prev om c' :
  GInv first st ps prev om -> Forall2 same_meta (dobjs st) c' ->
  GInv first (mkDstate (dactive st) (dlast st) c') ps prev om.
Proof.
  intros [H1 H2 H3 H4 H5 H6 H7 H8 H9 H10 H11 H12 H13] Hsm.
  assert (Hk : forall p, alookup p c' <> None <-> alookup p (dobjs st) <> None).
  { intros p. pose proof (same_meta_lookup _ _ p Hsm) as Hl.
    destruct (alookup p (dobjs st)), (alookup p c'); try contradiction; split; intros H; congruence. }
  constructor; cbn [dactive dlast dobjs]; try assumption.
  - intros p Hp. apply Hk. exact (H5 p Hp).
  - intros p i Hp. apply Hk. exact (H6 p i Hp).
  - intros p. specialize (H8 p). pose proof (same_meta_lookup _ _ p Hsm) as Hl.
    destruct (alookup p (dobjs st)), (alookup p c'); try contradiction; exact H8.
  - clear - H10 Hsm. revert c' Hsm. induction H10 as [|x y om c Hxy H IH]; intros c' Hsm.
    + inversion Hsm. constructor.
    + inversion Hsm as [|y0 z c0 c1 Hyz Hrest]; subst. constructor; [|exact (IH _ Hrest)].
      destruct Hxy as (K1 & K2 & K3 & K4). destruct Hyz as (L1 & L2 & L3 & L4).
      unfold gom_rel0. rewrite K1, K2, K3, K4, L1, L2, L3, L4. auto.
  - intros p. specialize (H11 p). unfold gcdt in *. pose proof (same_meta_lookup _ _ p Hsm) as Hl.
    destruct (alookup p (dobjs st)), (alookup p c'); try contradiction; [|exact H11].
    destruct Hl as (_ & Hd & _). cbn [option_map] in *. rewrite <- Hd. exact H11.
  - rewrite <- (rel_keys same_meta same_meta_key _ _ Hsm). exact H12.
  - intros p q o t0 Hq Ho Ht. pose proof (same_meta_lookup _ _ p Hsm) as Hl. rewrite Ho in Hl.
    destruct (alookup p (dobjs st)) as [o0|] eqn:E0; [|contradiction].
    destruct Hl as (_ & _ & Hl). apply (H13 p q o0 t0 Hq E0). rewrite Hl. exact Ht.
Qed.

(* the start of a metadata block *)
Lemma GJ_init first st ps prev om (newlist : bool) :
  GInv first st ps prev om ->
  GJ (dobjs st) (dlast st) (if newlist then mkDstate [] (dlast st) (dobjs st) else st) [].
Proof.
  intros HI. destruct HI as [H1 H2 H3 H4 H5 H6 H7 H8 H9 H10 H11 H12 H13].
  destruct newlist; constructor; cbn [dactive dlast dobjs map].
  - reflexivity.
  - constructor.
  - intros p i [].
  - reflexivity.
  - intros p [].
  - intros p i0 H. exists i0. split; [exact H|reflexivity].
  - exact H7.
  - intros p i H. right. exact (H6 p i H).
  - intros p [].
  - exact H13.
  - reflexivity.
  - exact H3.
  - exact H4.
  - reflexivity.
  - intros p Hp. right. exact (H5 p Hp).
  - intros p i0 H. exists i0. split; [exact H|reflexivity].
  - exact H7.
  - intros p i H. right. exact (H6 p i H).
  - intros p [].
  - exact H13.
Qed.

Lemma apply_metadata_dq_inv first st s st1 :
  apply_metadata_dq first st s = SOk st1 ->
  exists ste,
    match fs_meta s with
    | None => first = false /\ ste = st
    | Some es => apply_entries_dq (if toc_has (fs_toc s) TOC_NEWLIST
                                   then mkDstate [] (dlast st) (dobjs st) else st) es = SOk ste
    end /\
    st1 = mkDstate (dactive ste) (dlast ste)
                   (fold_left set_props_dq (seg_entries s)
                              (fold_left (touch_dq (dlast ste)) (map fst (dactive ste)) (dobjs ste))).
Proof.
  unfold apply_metadata_dq, seg_entries. destruct (fs_meta s) as [es|].
  - destruct (apply_entries_dq _ es) as [ste|e] eqn:E; cbn [sbind]; [|discriminate].
    intros H. injection H as <-. exists ste. split; reflexivity.
  - destruct first; cbn [sbind]; [discriminate|]. intros H. injection H as <-.
    exists st. split; [split; reflexivity|reflexivity].
Qed.

Lemma gsim_read_objects first st ps prev om s ste :
  GInv first st ps prev om -> seg_ok_dq s = true -> wf_fseg s = true ->
  match fs_meta s with
  | None => first = false /\ ste = st
  | Some es => apply_entries_dq (if toc_has (fs_toc s) TOC_NEWLIST
                                 then mkDstate [] (dlast st) (dobjs st) else st) es = SOk ste
  end ->
  read_segment_objects (fs_toc s) (fs_meta s) prev ps
  = Ok (gobjs_of (dactive ste) (dlast ste), plist (seg_entries s)) /\
  exists done, GJ (dobjs st) (dlast st) ste done /\ NoDup (map e_path (seg_entries s)) /\
               forall x, In x (seg_entries s) -> In (e_path x) done.
Proof.
  intros HI Hok Hwfs Hm. pose proof (wf_fseg_entries s) as Hwfes.
  unfold seg_ok_dq, seg_entries in *. unfold read_segment_objects.
  rewrite (iv_ps _ _ _ _ _ HI).
  destruct (fs_meta s) as [es|].
  - apply andb_prop in Hok. destruct Hok as [Hnd Hoks]. apply nodup_b_sound in Hnd.
    specialize (Hwfes es Hwfs eq_refl).
    pose proof (GJ_init first st ps prev om (toc_has (fs_toc s) TOC_NEWLIST) HI) as HJ0.
    destruct (gsim_entries prev (dobjs st) (dlast st) (iv_prev _ _ _ _ _ HI) es _ [] ste HJ0 Hnd
                           (fun p _ H => H) Hoks Hwfes Hm) as [Hfold HJ].
    assert (Hfe : fold_entries (if toc_has (fs_toc s) TOC_NEWLIST then None
                                else (if first then None else Some (gobjs_of (dactive st) (dlast st))))
                               prev
                               (match (if toc_has (fs_toc s) TOC_NEWLIST then None
                                       else (if first then None else Some (gobjs_of (dactive st) (dlast st))))
                                with Some l => l | None => [] end) es
                  = Ok (gobjs_of (dactive ste) (dlast ste))).
    { rewrite <- Hfold. destruct (toc_has (fs_toc s) TOC_NEWLIST).
      - cbn [dactive dlast gobjs_of map].
        apply new_list_update_is_update_by_path0; [exact (iv_prev_keys _ _ _ _ _ HI)|exact Hnd].
      - destruct first.
        + rewrite (iv_first _ _ _ _ _ HI eq_refl). cbn [gobjs_of map].
          apply new_list_update_is_update_by_path0; [exact (iv_prev_keys _ _ _ _ _ HI)|exact Hnd].
        + apply positional_update_is_update_by_path;
            [exact (iv_prev_keys _ _ _ _ _ HI)|rewrite gobjs_of_paths; exact (iv_act_nodup _ _ _ _ _ HI)|exact Hnd]. }
    rewrite Hfe. cbn [bind]. split.
    + f_equal. f_equal. apply (collect_props_plist es []). exact Hnd.
    + eexists. split; [exact HJ|]. split; [exact Hnd|].
      intros x Hx. rewrite app_nil_r. apply -> in_rev. apply in_map. exact Hx.
  - destruct Hm as [-> ->]. split; [reflexivity|].
    exists []. split; [|split; [constructor|intros x []]].
    exact (GJ_init false st ps prev om false HI).
Qed.

(* One accepted metadata block: the model reads the object list the specification's
   active list describes, its per-object metadata update succeeds (whatever the chunk
   count), and the invariant is re-established. *)
Lemma gsim_segment first st ps prev om s st1 nch :
  GInv first st ps prev om -> seg_ok_dq s = true -> wf_fseg s = true ->
  apply_metadata_dq first st s = SOk st1 ->
  exists props po om1,
    read_segment_objects (fs_toc s) (fs_meta s) prev ps = Ok (gobjs_of (dactive st1) (dlast st1), props) /\
    update_object_metadata (gobjs_of (dactive st1) (dlast st1)) nch None prev om = Ok (po, om1) /\
    GInv false st1 (Some (gobjs_of (dactive st1) (dlast st1))) po (update_object_properties props om1).
Proof.
  intros HI Hok Hwfs Hmeta.
  destruct (apply_metadata_dq_inv first st s st1 Hmeta) as (ste & Hm & Hst1).
  destruct (gsim_read_objects first st ps prev om s ste HI Hok Hwfs Hm) as (Hro & done & HJ & Hnd & Hdone).
  set (c1 := fold_left (touch_dq (dlast ste)) (map fst (dactive ste)) (dobjs ste)) in *.
  set (c2 := fold_left set_props_dq (seg_entries s) c1) in *.
  subst st1. cbn [dactive dlast dobjs] in *.
  assert (Hc0 : dobjs ste = dobjs st) by exact (gj_objs _ _ _ _ HJ).
  assert (Hdt0 : forall p, gcdt (dobjs st) p = None \/ gcdt (dobjs st) p = Some None \/
                           gcdt (dobjs st) p = Some (option_map gi_dt (alookup p (dlast ste)))).
  { intros p. destruct (iv_dtype _ _ _ _ _ HI p) as [H|H]; [left; exact H|].
    destruct (alookup p (dlast st)) as [i0|] eqn:E0; [|right; left; exact H].
    right. right. rewrite H. destruct (gj_dt _ _ _ _ HJ p i0 E0) as (i & -> & Hi).
    cbn [option_map]. rewrite Hi. reflexivity. }
  destruct (gsim_touch (dlast ste) nch None (dactive ste) prev om (dobjs ste)) as (po & om1 & Hum & Hrel1).
  { rewrite Hc0. exact (iv_om _ _ _ _ _ HI). }
  { intros p _. rewrite Hc0. exact (Hdt0 p). }
  { rewrite Hc0. exact (gj_types _ _ _ _ HJ). }
  fold c1 in Hrel1.
  assert (Hcdt1 : forall p, gcdt c1 p = if existsb (bytes_eqb p) (map fst (dactive ste))
                                        then Some (option_map gi_dt (alookup p (dlast ste)))
                                        else gcdt (dobjs st) p).
  { intros p. unfold c1. rewrite gcdt_fold_touch, Hc0. reflexivity. }
  assert (Hcdt2 : forall p, gcdt c2 p = gcdt c1 p).
  { intros p. unfold c2. apply gcdt_fold_set_props. }
  assert (Hlisted : forall x, In x (seg_entries s) -> In (e_path x) (map fst (dactive ste))).
  { intros x Hx. exact (gj_done_act _ _ _ _ HJ _ (Hdone x Hx)). }
  assert (Hrel2 : Forall2 gom_rel0 (update_object_properties (plist (seg_entries s)) om1) c2).
  { unfold c2. apply gsim_props; [exact Hrel1|].
    intros x Hx. apply gcdt_none_iff_not. rewrite Hcdt1.
    rewrite (proj2 (existsb_bytes_in _ _) (Hlisted x Hx)). discriminate. }
  exists (plist (seg_entries s)), po, om1.
  split; [exact Hro|]. split; [exact Hum|].
  assert (Hobjs_nd : NoDup (map so_path (gobjs_of (dactive ste) (dlast ste)))).
  { rewrite gobjs_of_paths. exact (gj_nodup _ _ _ _ HJ). }
  destruct (prev_objs_tracks_segments _ _ _ _ _ _ _ Hum Hobjs_nd) as [Htr1 Htr2].
  assert (Hdone_act : forall p, ~ In p (map fst (dactive ste)) -> alookup p (dlast ste) = alookup p (dlast st)).
  { intros p Hp. apply (gj_last_other _ _ _ _ HJ). intros Hd. apply Hp. exact (gj_done_act _ _ _ _ HJ p Hd). }
  constructor; cbn [dactive dlast dobjs].
  - reflexivity.
  - discriminate.
  - exact (gj_nodup _ _ _ _ HJ).
  - exact (gj_act_last _ _ _ _ HJ).
  - intros p Hp. apply gcdt_none_iff_not. rewrite Hcdt2, Hcdt1.
    rewrite (proj2 (existsb_bytes_in _ _) Hp). discriminate.
  - intros p i Hp. apply gcdt_none_iff_not. rewrite Hcdt2, Hcdt1.
    destruct (existsb (bytes_eqb p) (map fst (dactive ste))) eqn:Ex; [discriminate|].
    apply existsb_bytes_not_in in Ex.
    destruct (gj_last_known _ _ _ _ HJ p i Hp) as [Hd|Hk].
    + contradiction Ex. exact (gj_done_act _ _ _ _ HJ p Hd).
    + apply gcdt_none_iff_not. exact Hk.
  - exact (gj_idx_ok _ _ _ _ HJ).
  - (* the global map *)
    intros p. destruct (existsb (bytes_eqb p) (map fst (dactive ste))) eqn:Ex.
    + apply existsb_bytes_in in Ex.
      destruct (alookup p (dactive ste)) as [a|] eqn:Ea; [|contradiction (in_keys_alookup _ _ Ex Ea)].
      assert (Hc2 : alookup p c2 <> None).
      { apply gcdt_none_iff_not. rewrite Hcdt2, Hcdt1, (proj2 (existsb_bytes_in _ _) Ex). discriminate. }
      destruct (alookup p c2); [|contradiction Hc2; reflexivity].
      exists (gisd a).
      assert (Hin : In (gmk_obj p (gisd a) (alookup p (dlast ste))) (gobjs_of (dactive ste) (dlast ste))).
      { apply alookup_In in Ea. unfold gobjs_of. apply in_map_iff. exists (p, a). split; [reflexivity|exact Ea]. }
      specialize (Htr1 _ Hin). rewrite gmk_obj_path in Htr1. exact Htr1.
    + apply existsb_bytes_not_in in Ex as Hnin.
      rewrite Htr2 by (rewrite gobjs_of_paths; exact Hnin).
      pose proof (iv_prev _ _ _ _ _ HI p) as Hp0.
      assert (Hsame : gcdt c2 p = gcdt (dobjs st) p) by (rewrite Hcdt2, Hcdt1, Ex; reflexivity).
      unfold gcdt in Hsame.
      destruct (alookup p c2) as [o2|]; destruct (alookup p (dobjs st)) as [o0|]; try discriminate.
      * rewrite (Hdone_act p Hnin). exact Hp0.
      * exact Hp0.
  - exact (update_object_metadata_keys_ok _ _ _ _ _ _ _ Hum (iv_prev_keys _ _ _ _ _ HI)).
  - exact Hrel2.
  - intros p. rewrite Hcdt2, Hcdt1.
    destruct (existsb (bytes_eqb p) (map fst (dactive ste))) eqn:Ex; [right; reflexivity|].
    apply existsb_bytes_not_in in Ex. rewrite (Hdone_act p Ex). exact (iv_dtype _ _ _ _ _ HI p).
  - unfold c2, c1. apply fold_set_props_dq_nodup. apply fold_touch_dq_nodup. rewrite Hc0.
    exact (iv_objs_nodup _ _ _ _ _ HI).
  - unfold c2, c1. apply types_agree_fold_set_props. apply types_agree_fold_touch.
    rewrite Hc0. exact (gj_types _ _ _ _ HJ).
Qed.
