(* The evaluation logic of nptdms/thermocouples.py TRANSLATED from the source (Gen/PyFuncsThermoEval.v, regenerated
   on every run) equals the hand-written element-wise model Model/ThermoF.v:
     Range / Polynomial / Thermocouple constructors, _verify_contiguous = mk_range / mk_polynomial / mk_thermocouple
     Range.within_range on an array  = map within_range        Polynomial.apply = map (horner ..)
     np.piecewise over the table     = map piecewise           (the NaN default only where no piece selects)
     Thermocouple.celsius_to_mv      = map celsius_to_mv, the exponential term PER ELEMENT where exp_condF holds
     Thermocouple.mv_to_celsius      = map mv_to_celsius
   An object of the model is mapped to the translation's record by obj_range / obj_poly / obj_tc. *)
From Coq Require Import String.
From Coq Require Import ZArith List Bool Lia PrimFloat.
Import ListNotations.
From NpTdms Require Import Base.Res Gen.ThermoTables Gen.PyFuncsScaling Gen.PyFuncsThermoEval.
From NpTdms Require Model.ScaleGraph Model.ThermoF Proofs.ThermoCoverage.
Local Open Scope list_scope.

Module TF := ThermoF.
Module SGr := ScaleGraph.

Definition tlift_err (e : TF.err) : err := match e with TF.ValueError => EValue | TF.IndexError => EIndex end.
Definition tlift {A} (r : TF.res A) : res A := match r with TF.Ok a => Ok a | TF.Err e => Err (tlift_err e) end.
Definition rmapT {A B} (f : A -> B) (r : TF.res A) : TF.res B :=
  match r with TF.Ok a => TF.Ok (f a) | TF.Err e => TF.Err e end.

Definition obj_range (r : TF.range) : range_py := mk_range_py (TF.range_start r) (TF.range_end r).
Definition obj_poly (p : TF.polynomial) : polynomial_py :=
  mk_polynomial_py (obj_range (TF.applicable_range p)) (TF.coefficients p).
Definition obj_tc (tc : TF.thermocouple) : thermocouple_py :=
  mk_thermocouple_py (map obj_poly (TF.forward_polynomials tc)) (map obj_poly (TF.inverse_polynomials tc))
                     (TF.exponential_term tc).

(* ---- constructors ------------------------------------------------------------------------------------------------ *)

Theorem range_new_eq s e : Range_new_gen s e = tlift (rmapT obj_range (TF.mk_range s e)).
Proof.
  unfold Range_new_gen, Range_init_gen, TF.mk_range.
  destruct s as [s|], e as [e|]; cbn [is_none andb]; try reflexivity.
  destruct (e <=? s)%float; reflexivity.
Qed.

(* the literal  Polynomial(applicable_range=Range(a, b), coefficients=[..])  through the translated constructors *)
Definition build_poly (pc : pieceF) : res polynomial_py :=
  let '(s, e, cs) := pc in do r <- Range_new_gen s e; Polynomial_new_gen r cs.

Theorem build_poly_eq pc : build_poly pc = tlift (rmapT obj_poly (TF.mk_polynomial pc)).
Proof.
  destruct pc as [[s e] cs]. unfold build_poly, TF.mk_polynomial. rewrite range_new_eq.
  destruct (TF.mk_range s e); reflexivity.
Qed.

Lemma build_polys_eq pcs : mapM build_poly pcs = tlift (rmapT (map obj_poly) (TF.mk_polynomials pcs)).
Proof.
  induction pcs as [|pc r IH]; [reflexivity|]. cbn [mapM TF.mk_polynomials]. rewrite build_poly_eq, IH.
  destruct (TF.mk_polynomial pc); cbn; [|reflexivity]. destruct (TF.mk_polynomials r); reflexivity.
Qed.

Definition last_end (pe : option float) (ps : list TF.polynomial) : option float :=
  fold_left (fun _ p => TF.range_end (TF.applicable_range p)) ps pe.

Lemma verify_loop_eq ps : forall pe,
  verify_contiguous_gen_loop1 (map obj_poly ps) pe
  = if TF.verify_contiguous pe ps then Ok (last_end pe ps) else Err EValue.
Proof.
  induction ps as [|p r IH]; intros pe; [reflexivity|].
  cbn [map verify_contiguous_gen_loop1 TF.verify_contiguous last_end fold_left].
  cbn [obj_poly poly_applicable_range obj_range range_start range_end_].
  destruct pe as [pe|].
  - destruct (TF.range_start (TF.applicable_range p)) as [s|]; cbn [negb andb]; [|reflexivity].
    destruct (s =? pe)%float; cbn [negb andb]; [apply IH|reflexivity].
  - cbn [andb]. apply IH.
Qed.

Lemma verify_eq ps :
  verify_contiguous_gen (map obj_poly ps)
  = if TF.verify_contiguous None ps then Ok (last_end None ps) else Err EValue.
Proof. unfold verify_contiguous_gen. rewrite verify_loop_eq. destruct (TF.verify_contiguous None ps); reflexivity. Qed.

Definition build_tc (fwd inv : list pieceF) (e : option (float * float * float)) : res thermocouple_py :=
  do f <- mapM build_poly fwd; do i <- mapM build_poly inv; Thermocouple_new_gen f i e.

Theorem build_tc_eq fwd inv e : build_tc fwd inv e = tlift (rmapT obj_tc (TF.mk_thermocouple fwd inv e)).
Proof.
  unfold build_tc, TF.mk_thermocouple. rewrite !build_polys_eq.
  destruct (TF.mk_polynomials fwd) as [f|]; cbn [tlift rmapT bind TF.bind]; [|reflexivity].
  destruct (TF.mk_polynomials inv) as [i|]; cbn [tlift rmapT bind TF.bind]; [|reflexivity].
  unfold Thermocouple_new_gen, Thermocouple_init_gen. rewrite !verify_eq.
  destruct (TF.verify_contiguous None f); cbn [negb bind]; [|reflexivity].
  destruct (TF.verify_contiguous None i); reflexivity.
Qed.

(* ---- Range.within_range, Polynomial.apply on arrays ----------------------------------------------------------- *)

Lemma bzip_map {A} (f g : A -> bool) (l : list A) :
  np_bzip andb (map f l) (map g l) = Ok (map (fun x => andb (f x) (g x)) l).
Proof.
  unfold np_bzip. rewrite !map_length, Nat.eqb_refl. f_equal.
  induction l as [|a r IH]; [reflexivity|]. cbn. rewrite IH. reflexivity.
Qed.

Theorem within_range_eq r xs : Range_within_range_gen (obj_range r) xs = Ok (map (TF.within_range r) xs).
Proof.
  destruct r as [e|s|s e]; unfold Range_within_range_gen;
    cbn [obj_range range_start range_end_ TF.range_start TF.range_end need bind]; try reflexivity.
  rewrite bzip_map. reflexivity.
Qed.

Lemma poly_within_range_eq p xs :
  Polynomial_within_range_gen (obj_poly p) xs = Ok (map (TF.within_range (TF.applicable_range p)) xs).
Proof. unfold Polynomial_within_range_gen. cbn [obj_poly poly_applicable_range]. rewrite within_range_eq. reflexivity. Qed.

(* NumPy's polyval loop (from the last coefficient down) and the model's recursion (from the first up) *)
Lemma horner_rev c cs x :
  match rev (c :: cs) with
  | [] => False
  | clast :: rest => SGr.horner clast rest x = TF.horner c cs x
  end.
Proof.
  revert c. induction cs as [|c' r IH]; intros c; [reflexivity|].
  specialize (IH c'). change (rev (c :: c' :: r)) with (rev (c' :: r) ++ [c]).
  destruct (rev (c' :: r)) as [|clast rest]; [contradiction IH|].
  cbn [app]. unfold SGr.horner in *. rewrite fold_left_app. cbn [fold_left TF.horner]. rewrite IH. reflexivity.
Qed.

Theorem apply_eq p xs :
  Polynomial_apply_gen (obj_poly p) xs
  = match TF.coefficients p with [] => Err EIndex | c :: cs => Ok (map (TF.horner c cs) xs) end.
Proof.
  unfold Polynomial_apply_gen, np_polyval. cbn [obj_poly poly_coefficients].
  destruct (TF.coefficients p) as [|c cs]; [reflexivity|].
  pose proof (horner_rev c cs) as H. destruct (rev (c :: cs)) as [|clast rest]; [contradiction (H 0%float)|].
  cbn [bind]. f_equal. apply map_ext. exact H.
Qed.

(* ---- np.piecewise over a table -------------------------------------------------------------------------------------- *)

(* the model's piecewise on one element when no coefficient list is empty: the value of the last selected piece *)
Definition sel (p : TF.polynomial) (x : float) : bool := TF.within_range (TF.applicable_range p) x.
Definition pval (p : TF.polynomial) (x : float) : float :=
  match TF.coefficients p with [] => nan | c :: cs => TF.horner c cs x end.
Definition go_val (x : float) (ps : list TF.polynomial) (y : float) : float :=
  fold_left (fun y p => if sel p x then pval p x else y) ps y.
Definition nonempty (ps : list TF.polynomial) : Prop := Forall (fun p => TF.coefficients p <> []) ps.

Lemma piecewise_go_val x ps : nonempty ps -> forall y s,
  TF.piecewise_go x ps y s = TF.Ok (if s || existsb (fun p => sel p x) ps then go_val x ps y else nan).
Proof.
  induction ps as [|p r IH]; intros Hne y s; cbn [TF.piecewise_go existsb go_val fold_left].
  - rewrite orb_false_r. reflexivity.
  - inversion Hne as [|? ? Hp Hr]; subst. fold (sel p x). destruct (sel p x) eqn:E.
    + unfold TF.apply, TF.polyval, pval. destruct (TF.coefficients p) as [|c cs]; [contradiction Hp; reflexivity|].
      cbn [TF.bind]. rewrite (IH Hr). cbn [orb]. rewrite orb_true_r. reflexivity.
    + rewrite (IH Hr). cbn [orb]. reflexivity.
Qed.

Lemma compress_all_false (c : list bool) (x : list float) :
  length c = length x -> np_compress c x = [] -> forallb negb c = true.
Proof.
  revert x. induction c as [|b c IH]; intros [|v x] Hl H; try reflexivity; try discriminate Hl.
  cbn in H |- *. destruct b; [discriminate H|]. apply (IH x); [cbn in Hl; lia|exact H].
Qed.

(* y[cond] = g(x[cond]) for an element-wise g *)
Lemma place_compress (g : float -> float) (c : list bool) : forall x y,
  length c = length x -> length y = length x ->
  np_place c y (map g (np_compress c x))
  = map (fun t : bool * float * float => if fst (fst t) then g (snd (fst t)) else snd t) (combine (combine c x) y).
Proof.
  induction c as [|b c IH]; intros [|v x] [|w y] Hc Hy; try reflexivity; try discriminate Hc; try discriminate Hy.
  cbn in Hc, Hy. cbn [np_compress combine map fst snd]. destruct b; cbn [map np_place].
  - f_equal. apply IH; lia.
  - f_equal. apply IH; lia.
Qed.

Lemma place_nothing (c : list bool) : forall y, forallb negb c = true -> length y = length c ->
  y = map (fun t : bool * float => if fst t then 0%float else snd t) (combine c y).
Proof.
  induction c as [|b c IH]; intros [|w y] H Hl; try reflexivity; try discriminate Hl.
  cbn in H. apply andb_true_iff in H. destruct H as [Hb H]. destruct b; [discriminate Hb|].
  cbn. f_equal. apply IH; [exact H|cbn in Hl; lia].
Qed.

(* the state of np.piecewise's loop after the pieces ps: element-wise go_val *)
Lemma piecewise_go_pieces xs ps : nonempty ps -> forall tail ys, length ys = length xs ->
  np_piecewise_go xs (combine (map (fun p => map (sel p) xs) ps) (map (fun p => PwFun (Polynomial_apply_gen (obj_poly p))) ps) ++ tail) ys
  = np_piecewise_go xs tail (map (fun t : float * float => go_val (fst t) ps (snd t)) (combine xs ys)).
Proof.
  induction ps as [|p r IH]; intros Hne tail ys Hl.
  - cbn [map combine app go_val fold_left]. f_equal.
    clear -Hl. revert ys Hl. induction xs as [|x xs IHx]; intros [|y ys] Hl; try reflexivity; try discriminate Hl.
    cbn. f_equal. apply IHx. cbn in Hl. lia.
  - inversion Hne as [|? ? Hp Hr]; subst.
    cbn [map combine app np_piecewise_go].
    assert (Hstep :
              map (fun t : float * float => go_val (fst t) (p :: r) (snd t)) (combine xs ys)
              = map (fun t : float * float => go_val (fst t) r (snd t))
                    (combine xs (map (fun t : float * float => if sel p (fst t) then pval p (fst t) else snd t) (combine xs ys)))).
    { clear -Hl. revert ys Hl. induction xs as [|x xs IHx]; intros [|y ys] Hl; try reflexivity; try discriminate Hl.
      cbn [combine map fst snd go_val fold_left]. f_equal. apply IHx. cbn in Hl. lia. }
    destruct (np_compress (map (sel p) xs) xs) as [|v vals] eqn:Ec.
    + rewrite (IH Hr) by exact Hl. f_equal. rewrite Hstep. f_equal. f_equal.
      pose proof (compress_all_false _ _ (map_length _ _) Ec) as Hf.
      clear -Hf Hl. revert ys Hl. induction xs as [|x xs IHx]; intros [|y ys] Hl; try reflexivity; try discriminate Hl.
      cbn in Hf. apply andb_true_iff in Hf. destruct Hf as [Hb Hf].
      cbn [combine map fst snd]. destruct (sel p x); [discriminate Hb|]. f_equal. apply IHx; [exact Hf|cbn in Hl; lia].
    + rewrite <- Ec. rewrite apply_eq. unfold pval in *.
      destruct (TF.coefficients p) as [|c cs]; [contradiction Hp; reflexivity|]. cbn [bind].
      rewrite place_compress by (rewrite ?map_length; lia).
      rewrite (IH Hr) by (rewrite map_length, combine_length, combine_length, map_length; lia).
      f_equal. rewrite Hstep. f_equal. f_equal.
      clear -Hl. revert ys Hl. induction xs as [|x xs IHx]; intros [|y ys] Hl; try reflexivity; try discriminate Hl.
      cbn [combine map fst snd]. f_equal. apply IHx. cbn in Hl. lia.
Qed.

Lemma repeat_map {A B} (b : B) (l : list A) : repeat b (length l) = map (fun _ => b) l.
Proof. induction l; [reflexivity|]. cbn. f_equal. assumption. Qed.

Lemma none_of_eq xs ps :
  np_none_of (map (fun p => map (sel p) xs) ps) (length xs) = map (fun x => negb (existsb (fun p => sel p x) ps)) xs.
Proof.
  induction ps as [|p r IH]; cbn [map np_none_of existsb].
  - apply repeat_map.
  - rewrite IH. clear IH. induction xs as [|x xs IHx]; [reflexivity|].
    cbn [map combine fst snd]. rewrite negb_orb. f_equal. exact IHx.
Qed.

Lemma fill_default xs (m : float -> bool) (v : float -> float) :
  np_fill (map m xs) (map v xs) nan = map (fun x => if m x then nan else v x) xs.
Proof. induction xs as [|x xs IH]; [reflexivity|]. cbn. rewrite IH. reflexivity. Qed.

Lemma mapM_ok {A B} (f : A -> res B) (g : A -> B) l : (forall a, f a = Ok (g a)) -> mapM f l = Ok (map g l).
Proof. intros H. induction l as [|a r IH]; [reflexivity|]. cbn. rewrite H, IH. reflexivity. Qed.

Lemma mapM_map {A B C} (f : B -> res C) (h : A -> B) l : mapM f (map h l) = mapM (fun a => f (h a)) l.
Proof. induction l as [|a r IH]; [reflexivity|]. cbn. rewrite IH. reflexivity. Qed.

Lemma combine_app {A B} (a1 a2 : list A) (b1 b2 : list B) :
  length a1 = length b1 -> combine (a1 ++ a2) (b1 ++ b2) = combine a1 b1 ++ combine a2 b2.
Proof.
  revert b1. induction a1 as [|x a1 IH]; intros [|y b1] H; try discriminate H; [reflexivity|].
  cbn. f_equal. apply IH. cbn in H. lia.
Qed.

Lemma combine_zeros xs (f : float -> float -> float) :
  map (fun t : float * float => f (fst t) (snd t)) (combine xs (repeat 0%float (length xs))) = map (fun x => f x 0%float) xs.
Proof. induction xs as [|x xs IH]; [reflexivity|]. cbn. rewrite IH. reflexivity. Qed.

(* np.piecewise(x, [p.within_range(x) for p in ps], [p.apply for p in ps] + [nan]) is the model's piecewise, per
   element: the NaN default exactly where no piece selects *)
Theorem piecewise_table_eq xs ps : ps <> [] -> nonempty ps ->
  (do conditions <- mapM (fun p => do t <- Polynomial_within_range_gen p xs; Ok t) (map obj_poly ps);
   np_piecewise xs conditions (map (fun p => PwFun (Polynomial_apply_gen p)) (map obj_poly ps) ++ [PwConst nan]))
  = mapM (fun x => tlift (TF.piecewise x ps)) xs.
Proof.
  intros Hnil Hne. rewrite mapM_map.
  rewrite (mapM_ok _ (fun p => map (sel p) xs)) by (intros p; rewrite poly_within_range_eq; reflexivity).
  cbn [bind]. rewrite map_map. unfold np_piecewise.
  destruct (map (fun p => map (sel p) xs) ps) as [|c0 cr] eqn:Ec; [destruct ps; [contradiction Hnil; reflexivity|discriminate Ec]|].
  rewrite <- Ec. clear Ec c0 cr.
  replace (forallb _ (map (fun p => map (sel p) xs) ps)) with true.
  2:{ symmetry. apply forallb_forall. intros c Hc. apply in_map_iff in Hc. destruct Hc as (p & <- & _).
      rewrite map_length. apply Nat.eqb_refl. }
  cbn [negb]. rewrite app_length, !map_length. cbn [length]. rewrite Nat.add_1_r, Nat.eqb_refl.
  rewrite combine_app by (rewrite !map_length; reflexivity).
  rewrite (piecewise_go_pieces xs ps Hne) by apply repeat_length.
  cbn [combine np_piecewise_go]. rewrite none_of_eq.
  rewrite (combine_zeros xs (fun x y => go_val x ps y)), fill_default.
  rewrite (mapM_ok _ (fun x => if existsb (fun p => sel p x) ps then go_val x ps 0%float else nan)).
  2:{ intros x. unfold TF.piecewise. rewrite (piecewise_go_val x ps Hne). reflexivity. }
  f_equal. apply map_ext. intros x. destruct (existsb _ ps); reflexivity.
Qed.

(* ---- Thermocouple.mv_to_celsius, Thermocouple.celsius_to_mv ------------------------------------------------------- *)

Definition good_tc (tc : TF.thermocouple) : Prop :=
  TF.forward_polynomials tc <> [] /\ TF.inverse_polynomials tc <> [] /\
  nonempty (TF.forward_polynomials tc) /\ nonempty (TF.inverse_polynomials tc).

Theorem mv_to_celsius_eq tc xs : good_tc tc ->
  Thermocouple_mv_to_celsius_gen (obj_tc tc) xs = mapM (fun x => tlift (TF.mv_to_celsius tc x)) xs.
Proof.
  intros (_ & Hn & _ & Hne). unfold Thermocouple_mv_to_celsius_gen, TF.mv_to_celsius. cbv zeta.
  cbn [obj_tc tc_inverse_polynomials].
  pose proof (piecewise_table_eq xs (TF.inverse_polynomials tc) Hn Hne) as H.
  destruct (mapM _ (map obj_poly (TF.inverse_polynomials tc))) as [conds|e]; cbn [bind] in H |- *.
  - rewrite H. destruct (mapM _ xs); reflexivity.
  - exact H.
Qed.

(* the value a fwd_result stands for, given exp *)
Definition eval_fwd (np_exp : float -> float) (r : TF.fwd_result) : float :=
  match r with
  | TF.Exact v => v
  | TF.PlusExp v (a0, a1, a2) t => (v + a0 * np_exp (a1 * ((t - a2) * (t - a2))))%float
  end.

Lemma mapM_ok_inv {A B} (f : A -> res B) l ys : mapM f l = Ok ys -> Forall2 (fun a y => f a = Ok y) l ys.
Proof.
  revert ys. induction l as [|a r IH]; intros ys H; cbn in H.
  - injection H as <-. constructor.
  - destruct (f a) as [y|] eqn:E; cbn in H; [|discriminate H]. destruct (mapM f r) as [ys'|]; cbn in H; [|discriminate H].
    injection H as <-. constructor; [exact E|apply IH; reflexivity].
Qed.

Lemma mapM_err {A B} (f : A -> res B) l e : mapM f l = Err e -> exists a, In a l /\ f a = Err e.
Proof.
  induction l as [|a r IH]; intros H; cbn in H; [discriminate H|].
  destruct (f a) as [y|e'] eqn:E; cbn in H.
  - destruct (mapM f r) as [ys'|e'']; cbn in H; [discriminate H|]. injection H as <-.
    destruct (IH eq_refl) as (a' & Hin & Ha). exists a'. split; [right; exact Hin|exact Ha].
  - injection H as <-. exists a. split; [left; reflexivity|exact E].
Qed.

(* the exponential term: np.piecewise(temperature, [temperature >= 0], [lambda t: a_0*exp(a_1*square(t - a_2)), 0.0])
   -- the lambda's value where the condition holds, 0.0 elsewhere, element by element *)
Lemma exp_term_eq np_exp a0 a1 a2 xs :
  np_piecewise xs [map (fun x => (0 <=? x)%float) xs]
    [PwFun (fun t => Ok (map (fun x => (a0 * x)%float) (map np_exp (map (fun x => (a1 * x)%float)
                    (map (fun x => (x * x)%float) (map (fun x => (x - a2)%float) t))))));
     PwConst 0%float]
  = Ok (map (fun x => if exp_condF x then (a0 * np_exp (a1 * ((x - a2) * (x - a2))))%float else 0%float) xs).
Proof.
  unfold np_piecewise. cbn [forallb]. rewrite map_length, Nat.eqb_refl. cbn [andb negb length Nat.eqb app combine np_none_of].
  cbn [np_piecewise_go].
  set (g := fun x => (a0 * np_exp (a1 * ((x - a2) * (x - a2))))%float).
  set (c := map (fun x => (0 <=? x)%float) xs).
  assert (Hg : forall t, map (fun x => (a0 * x)%float) (map np_exp (map (fun x => (a1 * x)%float)
                 (map (fun x => (x * x)%float) (map (fun x => (x - a2)%float) t)))) = map g t).
  { intros t. rewrite !map_map. reflexivity. }
  assert (Hfin : forall y, length y = length xs ->
            np_fill (map (fun p => negb (fst p) && snd p) (combine c (repeat true (length xs)))) y 0%float
            = map (fun t : bool * float => if fst t then snd t else 0%float) (combine c y)).
  { unfold c. clear. induction xs as [|x xs IH]; intros [|w y] Hl; try reflexivity; try discriminate Hl.
    cbn. rewrite andb_true_r. destruct (0 <=? x)%float; cbn; (f_equal; apply IH; cbn in Hl; lia). }
  destruct (np_compress c xs) as [|v vals] eqn:Ec.
  - rewrite Hfin by apply repeat_length. f_equal.
    pose proof (compress_all_false c xs (map_length _ _) Ec) as Hf. unfold c in *. clear -Hf.
    induction xs as [|x xs IH]; [reflexivity|]. cbn in Hf |- *. apply andb_true_iff in Hf. destruct Hf as [Hb Hf].
    unfold exp_condF. destruct (0 <=? x)%float; [discriminate Hb|]. f_equal. apply IH. exact Hf.
  - rewrite <- Ec. cbn [bind]. rewrite Hg, place_compress by (unfold c; rewrite ?map_length, ?repeat_length; reflexivity).
    rewrite Hfin by (rewrite map_length, !combine_length; unfold c; rewrite map_length, repeat_length; lia).
    f_equal. unfold c. clear. induction xs as [|x xs IH]; [reflexivity|].
    cbn. unfold exp_condF. destruct (0 <=? x)%float; cbn; f_equal; exact IH.
Qed.

Theorem celsius_to_mv_eq np_exp tc xs : good_tc tc ->
  Thermocouple_celsius_to_mv_gen np_exp (obj_tc tc) xs
  = mapM (fun x => tlift (rmapT (eval_fwd np_exp) (TF.celsius_to_mv tc x))) xs.
Proof.
  intros (Hn & _ & Hne & _). unfold Thermocouple_celsius_to_mv_gen. cbv zeta.
  cbn [obj_tc tc_forward_polynomials tc_exponential_term].
  pose proof (piecewise_table_eq xs (TF.forward_polynomials tc) Hn Hne) as H.
  destruct (mapM _ (map obj_poly (TF.forward_polynomials tc))) as [conds|e]; cbn [bind] in H |- *.
  2:{ destruct (mapM_err _ _ _ (eq_sym H)) as (a & _ & Ha). unfold TF.piecewise in Ha.
      rewrite (piecewise_go_val a _ Hne) in Ha. discriminate Ha. }
  rewrite H. clear H conds.
  assert (Hv : mapM (fun x => tlift (TF.piecewise x (TF.forward_polynomials tc))) xs
               = Ok (map (fun x => if existsb (fun p => sel p x) (TF.forward_polynomials tc)
                                   then go_val x (TF.forward_polynomials tc) 0%float else nan) xs)).
  { apply mapM_ok. intros x. unfold TF.piecewise. rewrite (piecewise_go_val x _ Hne). reflexivity. }
  rewrite Hv. cbn [bind].
  assert (Hm : forall x, TF.celsius_to_mv tc x
                = TF.Ok (let v := if existsb (fun p => sel p x) (TF.forward_polynomials tc)
                                  then go_val x (TF.forward_polynomials tc) 0%float else nan in
                         match TF.exponential_term tc with
                         | None => TF.Exact v
                         | Some a => if exp_condF x then TF.PlusExp v a x else TF.Exact (v + 0)%float
                         end)).
  { intros x. unfold TF.celsius_to_mv, TF.celsius_to_mv_poly, TF.piecewise. rewrite (piecewise_go_val x _ Hne).
    cbn [TF.bind orb]. destruct (TF.exponential_term tc); [destruct (exp_condF x)|]; reflexivity. }
  destruct (TF.exponential_term tc) as [[[a0 a1] a2]|].
  - rewrite exp_term_eq. cbn [bind]. unfold np_fzip. rewrite !map_length, Nat.eqb_refl. cbn [bind].
    symmetry. rewrite (mapM_ok _ (fun x => eval_fwd np_exp
        (let v := if existsb (fun p => sel p x) (TF.forward_polynomials tc)
                  then go_val x (TF.forward_polynomials tc) 0%float else nan in
         if exp_condF x then TF.PlusExp v (a0, a1, a2) x else TF.Exact (v + 0)%float)))
      by (intros x; rewrite Hm; reflexivity).
    f_equal. clear Hv. induction xs as [|x xs IH]; [reflexivity|]. cbn [map combine fst snd]. f_equal; [|exact IH].
    cbv zeta. destruct (exp_condF x); reflexivity.
  - symmetry. rewrite (mapM_ok _ (fun x => if existsb (fun p => sel p x) (TF.forward_polynomials tc)
                                           then go_val x (TF.forward_polynomials tc) 0%float else nan))
      by (intros x; rewrite Hm; reflexivity).
    reflexivity.
Qed.

(* ---- the eight module-level objects --------------------------------------------------------------------------- *)

Definition good_tcb (tc : TF.thermocouple) : bool :=
  let ne (ps : list TF.polynomial) :=
    match ps with [] => false | _ => true end
    && forallb (fun p => match TF.coefficients p with [] => false | _ => true end) ps in
  ne (TF.forward_polynomials tc) && ne (TF.inverse_polynomials tc).

Lemma good_tcb_ok tc : good_tcb tc = true -> good_tc tc.
Proof.
  unfold good_tcb, good_tc. intros H. apply andb_true_iff in H. destruct H as [Hf Hi].
  apply andb_true_iff in Hf. destruct Hf as [Hf1 Hf2]. apply andb_true_iff in Hi. destruct Hi as [Hi1 Hi2].
  assert (Hne : forall ps, forallb (fun p => match TF.coefficients p with [] => false | _ => true end) ps = true -> nonempty ps).
  { intros ps H. apply Forall_forall. intros p Hp. rewrite forallb_forall in H. specialize (H p Hp).
    destruct (TF.coefficients p); [discriminate H|discriminate]. }
  repeat split; try (apply Hne; assumption).
  - destruct (TF.forward_polynomials tc); [discriminate Hf1|discriminate].
  - destruct (TF.inverse_polynomials tc); [discriminate Hi1|discriminate].
Qed.

Lemma types_good T : match TF.type_tc T with TF.Ok tc => good_tcb tc | TF.Err _ => false end = true.
Proof. destruct T; vm_compute; reflexivity. Qed.

Lemma type_tc_good T tc : TF.type_tc T = TF.Ok tc -> good_tc tc.
Proof. intros H. apply good_tcb_ok. pose proof (types_good T) as G. rewrite H in G. exact G. Qed.

(* the objects built by the TRANSLATED constructors from the generated tables are the model's objects *)
Theorem build_type_tc T : build_tc (code_fwdF T) (code_invF T) (code_expF T) = tlift (rmapT obj_tc (TF.type_tc T)).
Proof. apply build_tc_eq. Qed.

Lemma mapM_forall2 {A B} (f : A -> res B) (P : A -> B -> Prop) l :
  Forall (fun a => exists b, f a = Ok b /\ P a b) l -> exists bs, mapM f l = Ok bs /\ Forall2 P l bs.
Proof.
  induction 1 as [|a r (b & Hb & Pb) _ (bs & Hbs & Pbs)].
  - exists []. split; [reflexivity|constructor].
  - exists (b :: bs). split; [cbn; rewrite Hb, Hbs; reflexivity|constructor; assumption].
Qed.

(* conversions_never_default (Props/C18.v) on the TRANSLATED array functions: for every element that is not NaN
   the result is the Horner value of the one polynomial whose range selects it (plus, forward and for type K,
   what celsius_to_mv adds), never np.piecewise's NaN default *)
Theorem conversions_never_default_gen : forall T, exists tc, TF.type_tc T = TF.Ok tc /\
  forall np_exp xs, Forall (fun x => is_nan x = false) xs ->
    (exists vs, Thermocouple_celsius_to_mv_gen np_exp (obj_tc tc) xs = Ok vs /\
       Forall2 (fun x v => exists p c cs r,
                  In p (TF.forward_polynomials tc) /\ TF.within_range (TF.applicable_range p) x = true /\
                  TF.coefficients p = c :: cs /\ TF.celsius_to_mv_poly tc x = TF.Ok (TF.horner c cs x) /\
                  TF.celsius_to_mv tc x = TF.Ok r /\ v = eval_fwd np_exp r) xs vs) /\
    (exists vs, Thermocouple_mv_to_celsius_gen (obj_tc tc) xs = Ok vs /\
       Forall2 (fun x v => exists p c cs,
                  In p (TF.inverse_polynomials tc) /\ TF.within_range (TF.applicable_range p) x = true /\
                  TF.coefficients p = c :: cs /\ v = TF.horner c cs x) xs vs).
Proof.
  intros T. destruct (ThermoCoverage.conversions_select_one_polynomial T) as (tc & Htc & Hsel).
  exists tc. split; [exact Htc|]. intros np_exp xs Hxs. pose proof (type_tc_good T tc Htc) as Hg. split.
  - rewrite (celsius_to_mv_eq np_exp tc xs Hg). apply mapM_forall2.
    eapply Forall_impl; [|exact Hxs]. cbv beta. intros x Hx. destruct (Hsel x Hx) as ((p & c & cs & Hin & Hw & Hc & Hp) & _).
    assert (Hr : exists r, TF.celsius_to_mv tc x = TF.Ok r).
    { unfold TF.celsius_to_mv. rewrite Hp. cbn [TF.bind]. destruct (TF.exponential_term tc); [destruct (exp_condF x)|]; eexists; reflexivity. }
    destruct Hr as (r & Hr). exists (eval_fwd np_exp r). split; [rewrite Hr; reflexivity|].
    exists p, c, cs, r. repeat split; assumption.
  - rewrite (mv_to_celsius_eq tc xs Hg). apply mapM_forall2.
    eapply Forall_impl; [|exact Hxs]. cbv beta. intros x Hx. destruct (Hsel x Hx) as (_ & (p & c & cs & Hin & Hw & Hc & Hp)).
    exists (TF.horner c cs x). split; [rewrite Hp; reflexivity|]. exists p, c, cs. repeat split; assumption.
Qed.
