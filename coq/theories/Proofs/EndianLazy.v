(* C15 for the LAZY byte-level model (Model/LazyBytes.v): every window read
   lazily from the reordered file (Proofs/EndianRead.v [reorder]: same content,
   segment i written in byte order es[i]) equals the window read from the
   original file, and the same chunks are fetched.

   Route: on a serialised file whose raw data blocks encode [chunkss], the
   per-segment view [segv_of] is a function of the segment record and of the
   segment's chunk VALUES only ([segv_pure]: read_segment yields exactly the
   encoded chunks, ReadCorrect.read_segment_encoded); the records of the two
   files differ only in the big-endian bit of the ToC mask
   (EndianRead.sm_run_reorder), which [segv_pure] does not look at. *)
From Coq Require Import List ZArith Bool Lia ZifyBool.
From Coq Require Import Init.Byte.
Import ListNotations.
From NpTdms Require Import Base.Bytes Base.Res Base.PySlice Model.Tokens Model.TokensWf Model.SegState
     Model.Layout Model.Reader Model.FileSyn Model.LazyRead Model.LazyBytes
     Proofs.LayoutProofs Proofs.FileSynProofs Proofs.ReadCorrect Proofs.EndianRead.
Local Open Scope Z_scope.

(* [segv_of] with the segment's decoded chunks given instead of read *)
Definition segv_pure (path : bytes) (s : segment) (cs : list chunk) : res (segv bytes) :=
  let chunk := match segment_object s path with
               | Some o => if so_has_data o then so_nvals o else 0
               | None => 0
               end in
  let final := match sg_final s with
               | Some f => Some (match alookup path f with Some v => v | None => 0 end)
               | None => None
               end in
  if chunk =? 0 then Ok (mk_segv (V:=bytes) 0 (sg_nchunks s) final false (fit_chunks (Z.to_nat (sg_nchunks s)) []))
  else
    do lay <- seg_layout s;
    let il := match lay with LContig => false | _ => true end in
    let per_chunk :=
        if il then split_chunks (S (length (flat_map (chunk_vals path) cs))) chunk
                                (flat_map (chunk_vals path) cs)
        else map (chunk_vals path) cs in
    Ok (mk_segv (V:=bytes) chunk (sg_nchunks s) final il (fit_chunks (Z.to_nat (sg_nchunks s)) per_chunk)).

Lemma segv_of_encoded path pre s rest g chunks :
  wf_fseg s = true ->
  seg_at (blen pre) s g ->
  seg_encodes g (fs_data s) chunks ->
  segv_of (pre ++ ser_seg TAG_DATA true s ++ rest) path g = segv_pure path g chunks.
Proof.
  intros Hwf Hat Henc. unfold segv_of, segv_pure. cbv zeta.
  rewrite (read_segment_encoded pre s rest g chunks Hwf Hat Henc).
  destruct (_ =? 0); [reflexivity|].
  destruct (seg_layout g) as [lay|e]; reflexivity.
Qed.

Lemma segv_pure_sim path g g' cs : seg_sim true g g' -> segv_pure path g' cs = segv_pure path g cs.
Proof.
  intros Hsim. pose proof (seg_layout_sim true g g' Hsim) as Hlay.
  destruct Hsim as (_ & _ & _ & _ & _ & Hobjs & Hn & Hf & Hi).
  unfold segv_pure, segment_object. rewrite Hlay, Hobjs, Hn, Hf, (Hi eq_refl). reflexivity.
Qed.

Definition segv_pure2 (path : bytes) (gc : segment * list chunk) : res (segv bytes) :=
  segv_pure path (fst gc) (snd gc).

Lemma mapM_segv_ser data path : forall segs gs chunkss pre,
    wf_file segs ->
    data = pre ++ ser_file segs ->
    segs_at (blen pre) segs gs ->
    segs_encode gs segs chunkss ->
    mapM (segv_of data path) gs = mapM (segv_pure2 path) (combine gs chunkss).
Proof.
  induction segs as [|s r IH]; intros gs chunkss pre Hwf Hdata Hat Henc.
  - inversion Hat; subst. inversion Henc; subst. reflexivity.
  - inversion Hat as [|pos s' r' g gs' Hg Hat']; subst.
    inversion Henc as [|g' gs'' s' r' cs css Hcs Henc']; subst.
    unfold wf_file in Hwf. cbn [forallb] in Hwf. apply andb_prop in Hwf. destruct Hwf as [Hs Hr].
    cbn [combine mapM]. unfold segv_pure2 at 1. cbn [fst snd].
    rewrite ser_file_cons at 1.
    rewrite (segv_of_encoded path pre s (ser_file r) g cs Hs Hg Hcs).
    rewrite (IH gs' css (pre ++ ser_seg TAG_DATA true s) Hr); [reflexivity| | |exact Henc'].
    + rewrite ser_file_cons, <- app_assoc. reflexivity.
    + rewrite blen_app. change TAG_DATA with (tag_of false). change true with (negb false).
      rewrite (blen_ser_seg false s Hs). unfold fseg_len in Hat'. exact Hat'.
Qed.

Lemma mapM_segv_pure_sim path : forall gs gs' chunkss,
    Forall2 (seg_sim true) gs gs' ->
    mapM (segv_pure2 path) (combine gs' chunkss) = mapM (segv_pure2 path) (combine gs chunkss).
Proof.
  intros gs gs' chunkss H. revert chunkss.
  induction H as [|g g' gs gs' Hg _ IH]; intros chunkss; [reflexivity|].
  destruct chunkss as [|cs css]; [reflexivity|].
  cbn [combine mapM]. unfold segv_pure2 at 1 3. cbn [fst snd].
  rewrite (segv_pure_sim path g g' cs Hg), IH. reflexivity.
Qed.

(* weakening and composing the state relations *)
Lemma seg_sim_trans ix1 ix2 a b c : seg_sim ix1 a b -> seg_sim ix2 b c -> seg_sim false a c.
Proof.
  intros (T1 & A1 & A2 & A3 & A4 & A5 & A6 & A7 & _) (T2 & B1 & B2 & B3 & B4 & B5 & B6 & B7 & _).
  unfold seg_sim. split; [exact (toc_sim_trans _ _ _ T1 T2)|].
  repeat split; try congruence; try discriminate.
Qed.

Lemma Forall2_seg_sim_trans ix1 ix2 : forall la lb lc,
    Forall2 (seg_sim ix1) la lb -> Forall2 (seg_sim ix2) lb lc -> Forall2 (seg_sim false) la lc.
Proof.
  intros la lb lc H. revert lc. induction H as [|a b la lb Hab _ IH]; intros lc Hbc.
  - inversion Hbc; subst. constructor.
  - inversion Hbc as [|x c l lc' Hb Hbc']; subst. constructor.
    + exact (seg_sim_trans ix1 ix2 a b c Hab Hb).
    + apply IH. exact Hbc'.
Qed.

Lemma st_sim_trans ix1 ix2 a b c : st_sim ix1 a b -> st_sim ix2 b c -> st_sim false a c.
Proof.
  intros (S1 & P1 & O1 & V1 & _) (S2 & P2 & O2 & V2 & _). unfold st_sim.
  split; [exact (Forall2_seg_sim_trans ix1 ix2 _ _ _ S1 S2)|].
  repeat split; try congruence; try discriminate.
Qed.

(* the encoding relation carries over to the records of another pass over the
   SAME syntax (e.g. with segment indexes) *)
Lemma segs_encode_transfer ix : forall gs segs chunkss,
    segs_encode gs segs chunkss ->
    forall gs2 pos, segs_at pos segs gs -> segs_at pos segs gs2 ->
                    Forall2 (seg_sim ix) gs gs2 -> segs_encode gs2 segs chunkss.
Proof.
  induction 1 as [|g gs s r cs css Hcs _ IH]; intros gs2 pos Hat Hat2 Hsim.
  - inversion Hsim; subst. constructor.
  - inversion Hsim as [|x g2 l gs2' Hg Hgs]; subst.
    inversion Hat as [|p0 s0 r0 g0 gs0 Hg0 Hat0]; subst.
    inversion Hat2 as [|p1 s1 r1 g1 gs1 Hg1 Hat1]; subst.
    constructor.
    + apply (seg_encodes_ext g g2); [|apply Hg|exact Hcs].
      destruct Hg0 as (_ & T0 & _). destruct Hg1 as (_ & T1 & _). congruence.
    + exact (IH gs2' _ Hat0 Hat1 Hgs).
Qed.

Theorem channel_view_reorder segs st chunkss es path :
  length es = length segs ->
  wf_file segs ->
  sm_run segs false = Ok st ->
  segs_encode (rs_segments st) segs chunkss ->
  channel_view (ser_file (reorder es segs chunkss)) path = channel_view (ser_file segs) path.
Proof.
  intros Hlen Hwf Hrun Henc.
  pose proof (reorder_wf segs st chunkss es Hlen Hwf Hrun Henc) as Hwf'.
  (* the pass with segment indexes on the original file *)
  pose proof (sm_run_index_sim segs false true) as Hix. rewrite Hrun in Hix.
  destruct (sm_run segs true) as [stt|e] eqn:Hrunt; [|contradiction].
  cbn [res_sim] in Hix.
  pose proof (sm_segment_positions _ _ _ Hrun) as Hat.
  pose proof (sm_segment_positions _ _ _ Hrunt) as Hatt.
  assert (Henct : segs_encode (rs_segments stt) segs chunkss).
  { apply (segs_encode_transfer false _ _ _ Henc _ 0 Hat Hatt). apply Hix. }
  (* ... and on the reordered file *)
  destruct (sm_run_reorder segs st chunkss es Hlen Hrun Henc true stt Hrunt) as (stt' & Hrunt' & Hsim).
  pose proof (sm_segment_positions _ _ _ Hrunt') as Hatt'.
  pose proof (reorder_encodes segs st chunkss es Hlen Hrun Henc false stt'
                              (st_sim_trans _ _ _ _ _ Hix Hsim) Hatt') as Henct'.
  unfold channel_view.
  rewrite (rd_metadata_ser _ true Hwf'), Hrunt'. rewrite (rd_metadata_ser _ true Hwf), Hrunt.
  cbn [bind].
  rewrite (mapM_segv_ser (ser_file (reorder es segs chunkss)) path _ _ chunkss [] Hwf' eq_refl Hatt' Henct').
  rewrite (mapM_segv_ser (ser_file segs) path _ _ chunkss [] Hwf eq_refl Hatt Henct).
  destruct Hsim as (Hs & _ & Hom & _).
  rewrite (mapM_segv_pure_sim path _ _ chunkss Hs), Hom. reflexivity.
Qed.

Theorem endian_transparent_lazy segs st chunkss es path offs len :
  length es = length segs ->
  wf_file segs ->
  sm_run segs false = Ok st ->
  segs_encode (rs_segments st) segs chunkss ->
  lz_read_bytes (ser_file (reorder es segs chunkss)) path offs len
  = lz_read_bytes (ser_file segs) path offs len.
Proof.
  intros Hlen Hwf Hrun Henc. unfold lz_read_bytes.
  rewrite (channel_view_reorder segs st chunkss es path Hlen Hwf Hrun Henc). reflexivity.
Qed.

Theorem endian_transparent_lazy_plan segs st chunkss es path offs len :
  length es = length segs ->
  wf_file segs ->
  sm_run segs false = Ok st ->
  segs_encode (rs_segments st) segs chunkss ->
  lz_plan_bytes (ser_file (reorder es segs chunkss)) path offs len
  = lz_plan_bytes (ser_file segs) path offs len.
Proof.
  intros Hlen Hwf Hrun Henc. unfold lz_plan_bytes.
  rewrite (channel_view_reorder segs st chunkss es path Hlen Hwf Hrun Henc). reflexivity.
Qed.
