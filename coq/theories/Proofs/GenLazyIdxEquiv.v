(* The lazy index path TRANSLATED from nptdms/reader.py and nptdms/tdms.py (Gen/PyFuncsLazyIdx.v,
   regenerated from the source on every run) equals the hand-written Model/LazyRead.v.

   _array_equal / _deduplicate_array   : block-wise comparison = list equality; de-duplication
                                         returns the value it was given
   TdmsReader._build_index             : = LazyRead.build_index on the per-channel views
   read_channel_chunk_for_index        : index arithmetic, then ONE tag check and ONE chunk read
   TdmsChannel._read_at_index          : = LazyRead.read_at_index (cache, bounds check, fetch)
   _read_channel_data (validation)     : the checks and the receiver size of LazyRead.read_channel_data
   _trim_channel_chunk                 : = LazyRead.trim_channel_chunk
   data_chunks (both)                  : running offsets = prefix sums *)
From Coq Require Import ZArith List Bool Lia ZifyBool.
Import ListNotations.
From NpTdms Require Import Base.Bytes Base.Res Base.PySlice Model.Tokens Model.SegState Model.LazyRead
     Gen.PySlice_gen Gen.TypeTable Gen.PyFuncsReader Gen.PyFuncsLazyIdx
     Proofs.LazyReadLemmas Proofs.LazyIndexProofs Proofs.LazyReadProofs Proofs.LazyTopProofs
     Proofs.GenReaderEquiv Proofs.GenReaderLazy.
Local Open Scope Z_scope.

(* ---- ranges ------------------------------------------------------------------------------- *)

Lemma py_range_nil a b : b <= a -> py_range a b = [].
Proof. intros H. unfold py_range. replace (Z.to_nat (b - a)) with O by lia. reflexivity. Qed.

Lemma py_range_cons a b : a < b -> py_range a b = a :: py_range (a + 1) b.
Proof.
  intros H. unfold py_range. replace (Z.to_nat (b - a)) with (S (Z.to_nat (b - (a + 1)))) by lia.
  cbn [seq map]. f_equal; [lia|]. rewrite <- seq_shift, map_map. apply map_ext. intros k. lia.
Qed.

(* ---- _array_equal --------------------------------------------------------------------------- *)

Lemma all_eq2_spec : forall x y, length x = length y -> all_eq2 x y = zlist_eqb x y.
Proof.
  induction x as [|a x IH]; intros [|b y] H; cbn [all_eq2 zlist_eqb]; try discriminate; [reflexivity|].
  rewrite IH by (cbn in H; lia). reflexivity.
Qed.

Lemma all_eq2_split : forall n x y, length x = length y ->
  all_eq2 x y = all_eq2 (firstn n x) (firstn n y) && all_eq2 (skipn n x) (skipn n y).
Proof.
  induction n as [|n IH]; intros x y H; [reflexivity|].
  destruct x as [|a x], y as [|b y]; try discriminate; [reflexivity|].
  cbn [firstn skipn all_eq2]. rewrite (IH x y) by (cbn in H; lia). rewrite andb_assoc. reflexivity.
Qed.

Lemma zlist_eqb_iff a : forall b, zlist_eqb a b = true <-> a = b.
Proof.
  induction a as [|x a IH]; intros [|y b]; cbn [zlist_eqb]; split; intros H; try discriminate; try reflexivity.
  - apply andb_prop in H. destruct H as [H1 H2]. apply IH in H2. f_equal; [lia|exact H2].
  - injection H as -> ->. rewrite Z.eqb_refl. apply IH. reflexivity.
Qed.

(* the loop over the blocks k, k+1, .. : x and y are what is left of a and b from block k on *)
Lemma array_equal_loop_spec cs a b : 0 < cs -> forall m k,
  0 <= k -> length (zskipn (k * cs) a) = length (zskipn (k * cs) b) ->
  zlen (zskipn (k * cs) a) <= Z.of_nat m * cs ->
  array_equal_gen_loop1 cs a b (py_range k (k + Z.of_nat m))
  = Ok (if all_eq2 (zskipn (k * cs) a) (zskipn (k * cs) b) then inl tt else inr false).
Proof.
  intros Hcs. induction m as [|m IH]; intros k Hk Hlen Hm.
  - rewrite py_range_nil by lia. cbn [array_equal_gen_loop1].
    assert (zskipn (k * cs) a = []) as -> by (destruct (zskipn (k * cs) a); [reflexivity|unfold zlen in Hm; cbn in Hm; lia]).
    reflexivity.
  - rewrite py_range_cons by lia. cbn [array_equal_gen_loop1].
    rewrite !py_slice_nonneg by nia. unfold sl.
    replace (k * cs + cs - k * cs) with cs by lia.
    set (x := zskipn (k * cs) a) in *. set (y := zskipn (k * cs) b) in *.
    unfold np_all_eq.
    assert (Hfl : zlen (zfirstn cs x) = zlen (zfirstn cs y)).
    { rewrite !zlen_zfirstn by lia. unfold zlen. lia. }
    rewrite Hfl, Z.eqb_refl. cbn [bind].
    rewrite (all_eq2_split (Z.to_nat cs) x y Hlen). fold (zfirstn cs x) (zfirstn cs y).
    destruct (all_eq2 (zfirstn cs x) (zfirstn cs y)); cbn [negb andb]; [|reflexivity].
    replace (k + Z.of_nat (S m)) with (k + 1 + Z.of_nat m) by lia.
    assert (Hsk : forall l : list Z, zskipn ((k + 1) * cs) l = skipn (Z.to_nat cs) (zskipn (k * cs) l)).
    { intros l. unfold zskipn. rewrite skipn_skipn'. f_equal. nia. }
    rewrite IH; [rewrite !Hsk; reflexivity | lia | rewrite !Hsk, !skipn_length; fold x y; lia |].
    rewrite Hsk. fold x. unfold zlen in *. rewrite skipn_length. nia.
Qed.

(* _array_equal is list equality, for every positive block size *)
Theorem array_equal_eq a b cs : 0 < cs -> array_equal_gen a b cs = Ok (zlist_eqb a b).
Proof.
  intros Hcs. unfold array_equal_gen.
  destruct (Z.of_nat (length a) =? Z.of_nat (length b)) eqn:El; cbn [negb].
  - unfold py_floordiv. replace (cs =? 0) with false by lia. cbn [bind].
    set (n := (Z.of_nat (length a) + cs - 1) / cs).
    assert (Hn : 0 <= n /\ Z.of_nat (length a) <= n * cs).
    { unfold n. split; [apply Z.div_pos; lia|]. nia. }
    replace n with (0 + Z.of_nat (Z.to_nat n)) by lia.
    rewrite (array_equal_loop_spec cs a b Hcs (Z.to_nat n) 0); cbn [Z.mul]; rewrite ?zskipn_nonpos by lia; try lia.
    + cbn [bind]. rewrite all_eq2_spec by lia. destruct (zlist_eqb a b); reflexivity.
    + unfold zlen. lia.
  - f_equal. symmetry. apply not_true_is_false. intros H. apply (proj1 (zlist_eqb_iff a b)) in H.
    subst b. lia.
Qed.

(* ---- _deduplicate_array: the value is the one it was given ------------------------------------ *)

Lemma deduplicate_loop_spec xs : forall cands,
  deduplicate_array_gen_loop2 xs cands = Ok (inl tt) \/ deduplicate_array_gen_loop2 xs cands = Ok (inr xs).
Proof.
  induction cands as [|c r IH]; cbn [deduplicate_array_gen_loop2]; [left; reflexivity|].
  rewrite array_equal_eq by lia. cbn [bind].
  destruct (zlist_eqb xs c) eqn:E; [|exact IH].
  apply zlist_eqb_iff in E. subst c. right. reflexivity.
Qed.

Theorem deduplicate_array_eq xs cands : deduplicate_array_gen xs cands = Ok xs.
Proof.
  unfold deduplicate_array_gen. destruct (deduplicate_loop_spec xs cands) as [-> | ->]; reflexivity.
Qed.

(* ---- TdmsReader._build_index ------------------------------------------------------------------ *)

(* the per-channel views of the segments (Proofs/GenReaderLazy.v seg_view; no values) *)
Definition seg_views (segs : list segment) (path : bytes) : list (segv unit) :=
  map (fun s => seg_view s path) segs.

(* what the reader guarantees about a segment's object_index and final chunk lengths, as far as the
   channel [path] is concerned: the index entry points at an object with that path (object_index is
   built from ordered_objects), and an object that has data but declares 0 values per chunk has none
   in a truncated final chunk either (final lengths never exceed number_values) *)
Definition seg_ok (path : bytes) (s : segment) : bool :=
  match alookup path (sg_index s) with
  | None => true
  | Some i =>
    match nth_error (sg_objs s) i with
    | None => false
    | Some o =>
      bytes_eqb (so_path o) path &&
      (negb (so_has_data o) || negb (so_nvals o =? 0) ||
       match sg_final s with
       | None => true
       | Some f => match alookup path f with Some v => v =? 0 | None => true end
       end)
    end
  end.

Lemma py_index_of_nat {A} (l : list A) i x : nth_error l i = Some x -> py_index l (Z.of_nat i) = Ok x.
Proof.
  intros H. unfold py_index. assert (Hl : (i < length l)%nat) by (apply nth_error_Some; congruence).
  replace (Z.of_nat i <? 0) with false by lia. unfold zlen.
  replace ((0 <=? Z.of_nat i) && (Z.of_nat i <? Z.of_nat (length l))) with true by lia.
  rewrite Nat2Z.id, H. reflexivity.
Qed.

Lemma replace_nth_app {A} (a : list A) x y r : replace_nth (length a) y (a ++ x :: r) = a ++ y :: r.
Proof. induction a as [|z a IH]; cbn [replace_nth length app]; [reflexivity|]. rewrite IH. reflexivity. Qed.

Lemma py_setitem_app (a : list Z) x y r : py_setitem (a ++ x :: r) (zlen a) y = Ok (a ++ y :: r).
Proof.
  unfold py_setitem. pose proof (zlen_nonneg a) as Ha. rewrite zlen_app, zlen_cons. pose proof (zlen_nonneg r).
  replace (zlen a <? 0) with false by lia.
  replace ((0 <=? zlen a) && (zlen a <? zlen a + (1 + zlen r))) with true by lia.
  unfold zlen. rewrite Nat2Z.id, replace_nth_app. reflexivity.
Qed.

(* one segment: the number of values the translated code computes is the view's *)
Lemma segment_step path s : seg_ok path s = true ->
  match object_index_get s path with
  | None => number_of_segment_values unit (seg_view s path) = 0
  | Some i => exists o, py_index (sg_objs s) i = Ok o /\
                        number_of_segment_values_gen o s = Ok (number_of_segment_values unit (seg_view s path))
  end.
Proof.
  unfold seg_ok, object_index_get, seg_view, number_of_segment_values, segment_object.
  cbn [sv_chunk sv_nchunks sv_final].
  destruct (alookup path (sg_index s)) as [i|]; [|reflexivity].
  destruct (nth_error (sg_objs s) i) as [o|] eqn:En; [|discriminate]. intros H.
  apply andb_prop in H. destruct H as [Hp H]. apply SegStateProofs.bytes_eqb_eq in Hp.
  exists o. split; [apply py_index_of_nat; exact En|].
  rewrite number_of_segment_values_eq. unfold seg_values. f_equal.
  destruct (so_has_data o); cbn [negb orb] in *; [|reflexivity].
  destruct (so_nvals o =? 0) eqn:E0; cbn [negb orb] in H.
  - assert (so_nvals o = 0) as -> by lia. destruct (sg_final s) as [f|]; [|lia].
    rewrite Hp. destruct (alookup path f); lia.
  - destruct (sg_final s) as [f|]; [rewrite Hp|]; reflexivity.
Qed.

Lemma build_index_loop_spec path : forall xs i done first last,
  forallb (seg_ok path) xs = true ->
  (forall v, In v (seg_nums unit (seg_views xs path)) -> v < 2 ^ 63) ->
  zlen done = i ->
  build_index_gen_loop3 path xs i (done ++ repeat 0 (length xs)) last first
  = let '(F, L) := scan_first_last i (seg_nums unit (seg_views xs path)) first last in
    Ok (done ++ seg_nums unit (seg_views xs path), L, F).
Proof.
  induction xs as [|s xs IH]; intros i done first last Hok Hlt Hi.
  - cbn. rewrite app_nil_r. reflexivity.
  - cbn [forallb] in Hok. apply andb_prop in Hok. destruct Hok as [Hs Hok].
    cbn [build_index_gen_loop3 seg_views map seg_nums scan_first_last length repeat].
    fold (seg_views xs path). fold (seg_nums unit (seg_views xs path)).
    set (nv := number_of_segment_values unit (seg_view s path)) in *.
    assert (Hnv : (if nv >? 0 then nv else 0) < 2 ^ 63).
    { apply Hlt. cbn [seg_views map seg_nums]. left. reflexivity. }
    assert (Hlt' : forall v, In v (seg_nums unit (seg_views xs path)) -> v < 2 ^ 63).
    { intros v Hv. apply Hlt. cbn [seg_views map seg_nums]. right. exact Hv. }
    assert (Hdone : forall x, done ++ x :: repeat 0 (length xs) = (done ++ [x]) ++ repeat 0 (length xs))
      by (intros x; rewrite <- app_assoc; reflexivity).
    assert (Hi' : zlen (done ++ [nv]) = i + 1 /\ zlen (done ++ [0]) = i + 1)
      by (rewrite !zlen_app; cbn; lia).
    pose proof (segment_step path s Hs) as Hstep. fold nv in Hstep.
    destruct (object_index_get s path) as [oi|].
    + destruct Hstep as (o & Hpi & Hn). rewrite Hpi. cbn [bind]. rewrite Hn. cbn [bind].
      destruct (nv >? 0) eqn:Epos; cbv iota.
      * rewrite Epos. unfold np_i64_store. replace ((- 2 ^ 63 <=? nv) && (nv <? 2 ^ 63)) with true by lia. cbn [bind].
        rewrite <- Hi, py_setitem_app. cbn [bind]. rewrite Hi.
        destruct (first =? -1) eqn:Ef; rewrite (Hdone nv), (IH (i + 1) (done ++ [nv])) by (try assumption; lia);
          destruct (scan_first_last (i + 1) (seg_nums unit (seg_views xs path)) _ i) as [F L];
          rewrite <- app_assoc; reflexivity.
      * change (0 >? 0) with false. cbv iota.
        rewrite (Hdone 0), (IH (i + 1) (done ++ [0])) by (try assumption; lia).
        destruct (scan_first_last (i + 1) (seg_nums unit (seg_views xs path)) first last) as [F L].
        rewrite <- app_assoc. reflexivity.
    + rewrite Hstep. change (0 >? 0) with false. cbv iota.
      rewrite (Hdone 0), (IH (i + 1) (done ++ [0])) by (try assumption; lia).
      destruct (scan_first_last (i + 1) (seg_nums unit (seg_views xs path)) first last) as [F L].
      rewrite <- app_assoc. reflexivity.
Qed.

Lemma np_wrap_small v : - 2 ^ 63 <= v < 2 ^ 63 -> np_wrap_i64 v = v.
Proof. intros H. unfold np_wrap_i64. rewrite Z.mod_small by lia. lia. Qed.

Lemma np_cumsum_from_eq : forall l acc, (forall x, In x l -> 0 <= x) -> 0 <= acc -> acc + zsum l < 2 ^ 63 ->
  np_cumsum_from acc l = cumsum acc l.
Proof.
  induction l as [|x r IH]; intros acc Hnn Hacc Hs; [reflexivity|].
  cbn [np_cumsum_from cumsum]. cbn [zsum fold_right] in Hs.
  assert (Hx : 0 <= x) by (apply Hnn; left; reflexivity).
  assert (Hr : 0 <= zsum r) by (apply zsum_nonneg; intros y Hy; apply Hnn; right; exact Hy).
  change (fold_right Z.add 0 r) with (zsum r) in Hs.
  rewrite np_wrap_small by lia. f_equal. apply IH; [intros y Hy; apply Hnn; right; exact Hy|lia|lia].
Qed.

Lemma seg_nums_nonneg (svs : list (segv unit)) x : In x (seg_nums unit svs) -> 0 <= x.
Proof.
  unfold seg_nums. intros H. apply in_map_iff in H. destruct H as (sv & <- & _).
  destruct (number_of_segment_values unit sv >? 0) eqn:E; lia.
Qed.

Lemma zsum_In_le l x : (forall y, In y l -> 0 <= y) -> In x l -> x <= zsum l.
Proof.
  induction l as [|y r IH]; intros Hnn Hin; [destruct Hin|].
  cbn [zsum fold_right]. change (fold_right Z.add 0 r) with (zsum r).
  assert (0 <= y) by (apply Hnn; left; reflexivity).
  assert (0 <= zsum r) by (apply zsum_nonneg; intros z Hz; apply Hnn; right; exact Hz).
  destruct Hin as [->|Hin]; [lia|]. specialize (IH (fun z Hz => Hnn z (or_intror Hz)) Hin). lia.
Qed.

Lemma In_skipn' {A} n : forall (l : list A) x, In x (skipn n l) -> In x l.
Proof. induction n as [|n IH]; intros [|y l] x H; cbn [skipn] in H; auto. right. apply IH. exact H. Qed.

Lemma zsum_sl_le (l : list Z) a b : (forall y, In y l -> 0 <= y) -> zsum (sl a b l) <= zsum l.
Proof.
  intros Hnn. unfold sl, zfirstn, zskipn.
  rewrite <- (firstn_skipn (Z.to_nat a) l) at 2. rewrite zsum_app.
  rewrite <- (firstn_skipn (Z.to_nat (b - a)) (skipn (Z.to_nat a) l)) at 2. rewrite zsum_app.
  assert (0 <= zsum (firstn (Z.to_nat a) l)).
  { apply zsum_nonneg. intros y Hy. apply Hnn. eapply In_zfirstn. exact Hy. }
  assert (0 <= zsum (skipn (Z.to_nat (b - a)) (skipn (Z.to_nat a) l))).
  { apply zsum_nonneg. intros y Hy. apply Hnn. eapply In_skipn', In_skipn'. exact Hy. }
  lia.
Qed.

(* _build_index enters into _segment_channel_offsets exactly the model's index of the channel, whatever
   the table held before (de-duplication does not change values), provided the total fits an int64 *)
Theorem build_index_eq segs tbl path :
  forallb (seg_ok path) segs = true ->
  zsum (seg_nums unit (seg_views segs path)) < 2 ^ 63 ->
  build_index_gen segs tbl path = Ok (aset path (build_index unit (seg_views segs path)) tbl).
Proof.
  intros Hok Htot. unfold build_index_gen, build_index.
  set (nums := seg_nums unit (seg_views segs path)) in *.
  assert (Hnn : forall x, In x nums -> 0 <= x) by (intros x; apply seg_nums_nonneg).
  unfold np_zeros_i64. replace (Z.of_nat (length segs) <? 0) with false by lia. cbn [bind].
  rewrite Nat2Z.id.
  pose proof (build_index_loop_spec path segs 0 [] (-1) (-1) Hok) as Hloop. cbn [app] in Hloop.
  rewrite Hloop; [|intros v Hv; pose proof (zsum_In_le _ v Hnn Hv); fold nums in Hv; lia|reflexivity].
  fold nums. destruct (scan_first_last 0 nums (-1) (-1)) as [F L]. cbn [bind].
  assert (Hzl : zlen (seg_views segs path) = Z.of_nat (length segs)) by (unfold zlen, seg_views; rewrite map_length; reflexivity).
  rewrite Hzl.
  destruct (F =? -1); cbn [bind].
  - rewrite deduplicate_array_eq. cbn [bind]. unfold np_cumsum_i64.
    rewrite np_cumsum_from_eq; [reflexivity| | lia |].
    + intros x Hx. apply Hnn. unfold py_slice in Hx. eapply In_sl. exact Hx.
    + unfold py_slice. pose proof (zsum_sl_le nums (adjust_index (zlen nums) (Z.of_nat (length segs)) 1)
                                              (adjust_index (zlen nums) (Z.of_nat (length segs) + 1) 1) Hnn). lia.
  - rewrite deduplicate_array_eq. cbn [bind]. unfold np_cumsum_i64.
    rewrite np_cumsum_from_eq; [reflexivity| | lia |].
    + intros x Hx. apply Hnn. unfold py_slice in Hx. eapply In_sl. exact Hx.
    + unfold py_slice. pose proof (zsum_sl_le nums (adjust_index (zlen nums) F 1)
                                              (adjust_index (zlen nums) (L + 1) 1) Hnn). lia.
Qed.

(* ---- the world the translated index functions run in ---------------------------------------------- *)

From NpTdms Require Proofs.SegStateProofs.

Section World.
  Variable V : Type.

  (* what the file holds for the channel in one segment: layout kind, values of each chunk *)
  Definition seg_data := (bool * list (list V))%type.

  (* the model's view of a segment: the metadata part is the translated code's (seg_view) *)
  Definition lview (path : bytes) (sd : segment * seg_data) : segv V :=
    let v := seg_view (fst sd) path in
    mk_segv (sv_chunk v) (sv_nchunks v) (sv_final v) (fst (snd sd)) (snd (snd sd)).

  Definition lviews (segs : list segment) (path : bytes) (dat : list seg_data) : list (segv V) :=
    map (lview path) (combine segs dat).

  (* the file: its state is the log of (segment, chunk) reads; the tag check reads no chunk *)
  Definition iolog := list (Z * Z).
  Definition w_verify (f : iolog) (j : Z) : res iolog := Ok f.
  Definition w_next (svs : list (segv V)) (f : iolog) (j c n : Z) : res (list V * iolog) :=
    do sv <- py_index svs j;
    do chunks <- seg_fetch V sv c n;
    match chunks with
    | [] => Err EOther
    | ch :: _ => Ok (ch, f ++ [(if j <? 0 then j + zlen svs else j, c)])
    end.

  Lemma nosv_lview path sd :
    number_of_segment_values V (lview path sd) = number_of_segment_values unit (seg_view (fst sd) path).
  Proof. reflexivity. Qed.

  Lemma seg_nums_lviews path : forall segs dat, length dat = length segs ->
    seg_nums V (lviews segs path dat) = seg_nums unit (seg_views segs path).
  Proof.
    induction segs as [|s segs IH]; intros [|d dat] H; try discriminate; [reflexivity|].
    unfold lviews, seg_views, seg_nums in *. cbn [combine map]. f_equal. apply IH. cbn in H. lia.
  Qed.

  Lemma zlen_lviews path segs dat : length dat = length segs -> zlen (lviews segs path dat) = zlen segs.
  Proof. intros H. unfold lviews, zlen. rewrite map_length, combine_length. lia. Qed.

  Lemma build_index_lviews path segs dat : length dat = length segs ->
    build_index V (lviews segs path dat) = build_index unit (seg_views segs path).
  Proof.
    intros H. unfold build_index. rewrite seg_nums_lviews by exact H. rewrite zlen_lviews by exact H.
    replace (zlen (seg_views segs path)) with (zlen segs) by (unfold zlen, seg_views; rewrite map_length; reflexivity).
    reflexivity.
  Qed.

  Lemma total_values_zsum : forall svs : list (segv V),
    (forall sv, In sv svs -> 0 <= number_of_segment_values V sv) -> total_values V svs = zsum (seg_nums V svs).
  Proof.
    induction svs as [|sv r IH]; intros H; [reflexivity|].
    unfold seg_nums in *. cbn [total_values map]. unfold zsum in *. cbn [fold_right].
    rewrite IH by (intros x Hx; apply H; right; exact Hx).
    specialize (H sv (or_introl eq_refl)). destruct (number_of_segment_values V sv >? 0) eqn:E; lia.
  Qed.

  Lemma nth_error_combine_fst {A B} : forall (l : list A) (m : list B) k a b,
    nth_error (combine l m) k = Some (a, b) -> nth_error l k = Some a.
  Proof.
    induction l as [|x l IH]; intros [|y m] [|k] a b H; cbn in *; try discriminate.
    - injection H as -> _. reflexivity.
    - eapply IH. exact H.
  Qed.

  Lemma py_index_lviews path segs dat i sv : length dat = length segs ->
    py_index (lviews segs path dat) i = Ok sv ->
    exists s d, py_index segs i = Ok s /\ sv = lview path (s, d).
  Proof.
    intros Hl H. unfold py_index in *. rewrite zlen_lviews in H by exact Hl.
    destruct ((0 <=? (if i <? 0 then i + zlen segs else i)) && ((if i <? 0 then i + zlen segs else i) <? zlen segs)); [|discriminate].
    set (k := Z.to_nat (if i <? 0 then i + zlen segs else i)) in *.
    destruct (nth_error (lviews segs path dat) k) as [x|] eqn:E; [|discriminate]. injection H as ->.
    unfold lviews in E. rewrite nth_error_map in E.
    destruct (nth_error (combine segs dat) k) as [[s d]|] eqn:Ec; [|discriminate]. injection E as <-.
    exists s, d. split; [|reflexivity].
    rewrite (nth_error_combine_fst _ _ _ _ _ Ec). reflexivity.
  Qed.

  (* the index table holds nothing for the channel, or the index the model computes *)
  Definition tbl_ok (segs : list segment) (path : bytes) (tbl : alist (Z * list Z)) : Prop :=
    match alookup path tbl with
    | None => True
    | Some e => e = build_index unit (seg_views segs path)
    end.

  (* read_channel_chunk_for_index, with the index entry already looked up *)
  Lemma chunk_for_index_core segs dat path index chunk off j c (tbl : alist (Z * list Z)) f :
    length dat = length segs ->
    read_chunk_for_index V (lviews segs path dat) index = Ok (chunk, off, (j, c)) ->
    (let '(first_segment, segment_offsets) := build_index unit (seg_views segs path) in
     let segment_index := first_segment + np_searchsorted true segment_offsets index in
     do segment <- py_index segs segment_index;
     let segment_obj := segment_object segment path in
     let chunk_size := match segment_obj with None => 0 | Some segment_obj => so_nvals segment_obj end in
     do segment_start_index <- (if segment_index =? first_segment then Ok 0
                                else do t <- py_index segment_offsets (segment_index - first_segment - 1); Ok t);
     let index_in_segment := index - segment_start_index in
     do chunk_index <- py_floordiv index_in_segment chunk_size;
     do f1 <- w_verify f segment_index;
     do '(t, f2) <- w_next (lviews segs path dat) f1 segment_index chunk_index 1;
     let chunk_data := t in
     let chunk_offset := segment_start_index + chunk_index * chunk_size in
     Ok ((chunk_data, chunk_offset), (tbl, f2)))
    = Ok ((chunk, off), (tbl, f ++ [(j, c)])).
  Proof.
    intros Hl H. unfold read_chunk_for_index in H. rewrite build_index_lviews in H by exact Hl.
    destruct (build_index unit (seg_views segs path)) as [first offs]. cbv beta iota zeta.
    change (np_searchsorted true offs index) with (searchsorted_right offs index).
    set (si := first + searchsorted_right offs index) in *.
    destruct (py_index (lviews segs path dat) si) as [sv|] eqn:Esv; [|discriminate]. cbn [bind] in H.
    destruct (py_index_lviews path segs dat si sv Hl Esv) as (s & d & Hs & ->).
    rewrite Hs. cbn [bind].
    assert (Hstart : (if si =? first then Ok 0 else do t <- py_index offs (si - first - 1); Ok t)
                     = (if si =? first then Ok 0 else py_index offs (si - first - 1))).
    { destruct (si =? first); [reflexivity|]. destruct (py_index offs (si - first - 1)); reflexivity. }
    rewrite Hstart.
    destruct (if si =? first then Ok 0 else py_index offs (si - first - 1)) as [start|]; [|discriminate].
    cbn [bind] in *.
    set (sv := lview path (s, d)) in *.
    assert (Hc : sv_chunk sv = match segment_object s path with
                               | Some o => if so_has_data o then so_nvals o else 0
                               | None => 0
                               end) by reflexivity.
    cbv zeta in H. rewrite Hc in H. clear Hc.
    destruct (segment_object s path) as [o|]; [|discriminate].
    destruct (so_has_data o); [|discriminate].
    destruct (so_nvals o =? 0) eqn:E0; [discriminate|].
    unfold py_floordiv. rewrite E0. cbn [bind w_verify]. unfold w_next. rewrite Esv. cbn [bind].
    destruct (seg_fetch V sv ((index - start) / so_nvals o) 1) as [chunks|]; [|discriminate]. cbn [bind] in *.
    destruct chunks as [|ch r]; [discriminate|]. injection H as <- <- <- <-.
    rewrite zlen_lviews by exact Hl. reflexivity.
  Qed.
End World.

(* ---- read_channel_chunk_for_index and _read_at_index against the model ------------------------------ *)

Section Top.
  Variable V : Type.
  Variable segs : list segment.
  Variable path : bytes.
  Variable dat : list (seg_data V).
  Hypothesis Hl : length dat = length segs.
  Hypothesis Hok : forallb (seg_ok path) segs = true.
  Hypothesis Hfit : zsum (seg_nums unit (seg_views segs path)) < 2 ^ 63.

  Let svs := lviews V segs path dat.
  Let idx_ok := tbl_ok segs path.

  (* TdmsReader.read_channel_chunk_for_index: whenever the model finds the chunk, the translated code
     returns the same chunk and offset, has made the model's one chunk read, and leaves a correct table *)
  Theorem read_channel_chunk_for_index_eq tbl f index chunk off j c :
    idx_ok tbl ->
    read_chunk_for_index V svs index = Ok (chunk, off, (j, c)) ->
    exists tbl', idx_ok tbl' /\
      read_channel_chunk_for_index_gen (iolog) (list V) (w_verify) (w_next V svs) (Some segs) tbl f path index
      = Ok ((chunk, off), (tbl', f ++ [(j, c)])).
  Proof.
    intros Ht H. unfold read_channel_chunk_for_index_gen. unfold idx_ok, tbl_ok in Ht.
    destruct (alookup path tbl) as [hit|] eqn:Ea.
    - subst hit. exists tbl. split; [unfold idx_ok, tbl_ok; rewrite Ea; reflexivity|].
      exact (chunk_for_index_core V segs dat path index chunk off j c tbl f Hl H).
    - rewrite build_index_eq by assumption. cbn [bind].
      set (tbl' := aset path (build_index unit (seg_views segs path)) tbl).
      assert (Ea' : alookup path tbl' = Some (build_index unit (seg_views segs path))).
      { unfold tbl'. rewrite SegStateProofs.alookup_aset, SegStateProofs.bytes_eqb_refl. reflexivity. }
      rewrite Ea'. cbn [need bind]. exists tbl'. split; [unfold idx_ok, tbl_ok; rewrite Ea'; reflexivity|].
      exact (chunk_for_index_core V segs dat path index chunk off j c tbl' f Hl H).
  Qed.

  (* the cache of the model and the two attributes of the channel object *)
  Definition cache_rel (st : cache V) (cc : option (list V)) (cb : option (Z * Z)) : Prop :=
    match st with
    | None => cc = None
    | Some (c, b) => cc = Some c /\ cb = Some b
    end.

  Let gen_index := read_at_index_gen (iolog) (list V) V (w_verify) (w_next V svs) (fun c => Ok c) (fun c => Ok c)
                                     (Some segs).

  (* TdmsChannel._read_at_index: every successful run of the model is a run of the translated code with
     the same value, the same new cache, and exactly the model's chunk reads appended to the file log *)
  Theorem read_at_index_eq st cc cb tbl f i x st' log :
    cache_rel st cc cb -> idx_ok tbl ->
    read_at_index V svs st i = Ok (x, st', log) ->
    exists tbl' c' b', idx_ok tbl' /\ st' = Some (c', b') /\
      gen_index tbl f path (total_values V svs) cc cb i = Ok (x, (c', Some b', tbl', f ++ log)).
  Proof.
    intros Hrel Ht H. unfold read_at_index, read_at_index_check in H.
    unfold gen_index, read_at_index_gen. cbv zeta in H. cbv zeta.
    set (n := total_values V svs) in *.
    assert (Hi : (if i <? 0 then Ok (n + i) else Ok i) = Ok (if i <? 0 then n + i else i) :> res Z)
      by (destruct (i <? 0); reflexivity).
    rewrite Hi. clear Hi. cbn [bind].
    set (i' := if i <? 0 then n + i else i) in *.
    destruct ((i' <? 0) || (i' >=? n)); [discriminate|]. cbn [bind] in H.
    destruct st as [[cached [b0 b1]]|].
    - destruct Hrel as [-> ->]. cbn [need bind fst snd].
      destruct ((b0 <=? i') && (i' <? b1)).
      + destruct (py_index cached (i' - b0)) as [v|]; [|discriminate]. cbn [bind] in *.
        injection H as <- <- <-. exists tbl, cached, (b0, b1). rewrite app_nil_r. auto.
      + destruct (read_chunk_for_index V svs i') as [[[chunk off] [j c]]|] eqn:Erc; [|discriminate].
        cbn [bind] in H.
        destruct (read_channel_chunk_for_index_eq tbl f i' chunk off j c Ht Erc) as (tbl' & Ht' & Hg).
        unfold read_channel_data_chunk_for_index_gen. rewrite Hg. cbn [bind].
        destruct (py_index chunk (i' - off)) as [v|]; [|discriminate]. cbn [bind] in *.
        injection H as <- <- <-. exists tbl', chunk, (off, off + zlen chunk). auto.
    - cbn [cache_rel] in Hrel. subst cc.
      destruct (read_chunk_for_index V svs i') as [[[chunk off] [j c]]|] eqn:Erc; [|discriminate].
      cbn [bind] in H.
      destruct (read_channel_chunk_for_index_eq tbl f i' chunk off j c Ht Erc) as (tbl' & Ht' & Hg).
      unfold read_channel_data_chunk_for_index_gen. rewrite Hg. cbn [bind].
      destruct (py_index chunk (i' - off)) as [v|]; [|discriminate]. cbn [bind] in *.
      injection H as <- <- <-. exists tbl', chunk, (off, off + zlen chunk). auto.
  Qed.
End Top.

(* the bounds check: the translated _read_at_index raises IndexError exactly when the (also translated)
   read_at_index_check of Gen/PySlice_gen.v does, before touching the cache, the index table or the file *)
Theorem read_at_index_bounds F C V io_verify io_next convert scale sg tbl (f : F) path n cc cb i e :
  read_at_index_check n i = Err e ->
  read_at_index_gen F C V io_verify io_next convert scale sg tbl f path n cc cb i = Err EIndex.
Proof.
  unfold read_at_index_check, read_at_index_gen. cbv zeta. intros H.
  destruct (i <? 0); cbn [bind] in *; match goal with |- context [?a || ?b] => destruct (a || b) end;
    try reflexivity; discriminate.
Qed.

(* C19: an index inside the cached bounds touches nothing -- for ANY file, chunk source and scaling *)
Theorem cache_hit_reads_nothing_gen F C V io_verify io_next convert scale sg tbl (f : F) path n cached b0 b1 i r :
  let i' := if i <? 0 then n + i else i in
  b0 <= i' < b1 ->
  read_at_index_gen F C V io_verify io_next convert scale sg tbl f path n (Some cached) (Some (b0, b1)) i = Ok r ->
  snd r = (cached, Some (b0, b1), tbl, f).
Proof.
  intros i' Hb. unfold read_at_index_gen. cbv zeta.
  assert (Hi : (if i <? 0 then Ok (n + i) else Ok i) = Ok i' :> res Z) by (unfold i'; destruct (i <? 0); reflexivity).
  rewrite Hi. cbn [bind need fst snd].
  destruct ((i' <? 0) || (i' >=? n)); [discriminate|].
  replace ((b0 <=? i') && (i' <? b1)) with true by lia.
  destruct (py_index cached (i' - b0)); cbn [bind]; [|discriminate]. intros H. injection H as <-. reflexivity.
Qed.

(* ---- C04 (iii) and C19 transported to the translated _read_at_index ------------------------------------ *)

Section Transport.
  Variable V : Type.
  Variable segs : list segment.
  Variable path : bytes.
  Variable dat : list (seg_data V).
  Hypothesis Hl : length dat = length segs.
  Hypothesis Hok : forallb (seg_ok path) segs = true.
  Hypothesis Hfit : zsum (seg_nums unit (seg_views segs path)) < 2 ^ 63.

  Let svs := lviews V segs path dat.
  Let gen_index := read_at_index_gen (iolog) (list V) V (w_verify) (w_next V svs) (fun c => Ok c) (fun c => Ok c)
                                     (Some segs).

  Theorem index_correct_gen st cc cb tbl f i :
    wf V svs = true -> cache_inv V svs st -> cache_rel V st cc cb -> tbl_ok segs path tbl ->
    match py_index (full V svs) i with
    | Ok x => exists c' b' tbl' f',
        gen_index tbl f path (total_values V svs) cc cb i = Ok (x, (c', Some b', tbl', f')) /\
        cache_inv V svs (Some (c', b')) /\ tbl_ok segs path tbl' /\
        (f' = f \/
         exists j c sv, f' = f ++ [(j, c)] /\ 0 <= j /\ nth_error svs (Z.to_nat j) = Some sv /\
                        sv_chunk sv <> 0 /\ 0 <= c < sv_nchunks sv /\
                        let i' := if i <? 0 then i + total_values V svs else i in
                        chunk_start V (pre V svs j) sv c <= i' < chunk_end V (pre V svs j) sv c)
    | Err _ => gen_index tbl f path (total_values V svs) cc cb i = Err EIndex
    end.
  Proof.
    intros Hwf Hinv Hrel Ht.
    pose proof (LazyTopProofs.index_correct V svs st i Hwf Hinv) as H.
    destruct (py_index (full V svs) i) as [x|e] eqn:Epi.
    - destruct H as (st' & log & Hrun & Hinv' & Hlog).
      destruct (read_at_index_eq V segs path dat Hl Hok Hfit st cc cb tbl f i x st' log Hrel Ht Hrun)
        as (tbl' & c' & b' & Ht' & -> & Hg).
      exists c', b', tbl', (f ++ log). split; [exact Hg|]. split; [exact Hinv'|]. split; [exact Ht'|].
      destruct Hlog as [->|(j & c & sv & -> & Hrest)]; [left; apply app_nil_r|].
      right. exists j, c, sv. split; [reflexivity|exact Hrest].
    - apply (read_at_index_bounds _ _ _ _ _ _ _ _ _ _ _ _ _ _ _ EIndex).
      unfold read_at_index_check. cbv zeta.
      destruct (py_index_spec (full V svs) i) as [Hin _]. cbv zeta in Hin.
      rewrite (zlen_full V svs Hwf) in Hin.
      set (n := total_values V svs) in *.
      replace (if i <? 0 then n + i else i) with (if i <? 0 then i + n else i) by (destruct (i <? 0); lia).
      destruct ((if i <? 0 then i + n else i) <? 0) eqn:E1; [reflexivity|].
      destruct ((if i <? 0 then i + n else i) >=? n) eqn:E2; [reflexivity|].
      destruct Hin as (y & Hy & _); [lia|]. rewrite Epi in Hy. discriminate.
  Qed.

  (* C19: a successful channel[i] appended to the file log nothing, or exactly the one chunk that holds i *)
  Theorem index_fetches_one_chunk_gen st cc cb tbl f i x c' b' tbl' f' :
    wf V svs = true -> cache_inv V svs st -> cache_rel V st cc cb -> tbl_ok segs path tbl ->
    gen_index tbl f path (total_values V svs) cc cb i = Ok (x, (c', b', tbl', f')) ->
    f' = f \/
    exists j c sv, f' = f ++ [(j, c)] /\ 0 <= j /\ nth_error svs (Z.to_nat j) = Some sv /\
                   sv_chunk sv <> 0 /\ 0 <= c < sv_nchunks sv /\
                   let i' := if i <? 0 then i + total_values V svs else i in
                   chunk_start V (pre V svs j) sv c <= i' < chunk_end V (pre V svs j) sv c.
  Proof.
    intros Hwf Hinv Hrel Ht Hrun.
    pose proof (index_correct_gen st cc cb tbl f i Hwf Hinv Hrel Ht) as H.
    destruct (py_index (full V svs) i).
    - destruct H as (c2 & b2 & tbl2 & f2 & H1 & _ & _ & H4). rewrite Hrun in H1. injection H1 as _ _ _ _ Hf. rewrite Hf. exact H4.
    - rewrite Hrun in H. discriminate.
  Qed.
End Transport.

(* ---- _trim_channel_chunk, the validation of _read_channel_data, the data_chunks offsets ----------------- *)

Theorem trim_channel_chunk_eq V (chunk : list V) skip trim :
  trim_channel_chunk_gen V chunk skip trim = Ok (trim_channel_chunk V chunk skip trim).
Proof.
  unfold trim_channel_chunk_gen, trim_channel_chunk. destruct ((skip =? 0) && (trim =? 0)); reflexivity.
Qed.

Theorem read_channel_data_alloc_eq dt only n offset length :
  read_channel_data_alloc_gen dt only n offset length
  = if offset <? 0 then Err EValue
    else if (match length with Some l => l <? 0 | None => false end) then Err EValue
    else match dt with
         | None => Ok None
         | Some _ =>
           if only then Err ERuntime
           else Ok (Some (Z.max 0 (match length with None => n - offset | Some l => Z.min l (n - offset) end)))
         end.
Proof.
  unfold read_channel_data_alloc_gen. destruct (offset <? 0); [reflexivity|].
  destruct length as [l|]; [destruct (l <? 0); [reflexivity|]|]; destruct dt; try reflexivity; destruct only; reflexivity.
Qed.

(* the hand model's read_channel_data performs exactly the translated validation, allocates a receiver of
   the translated size and then runs the generator *)
Theorem read_channel_data_validated V (zero : V) fi ff rk svs offset length dt :
  read_channel_data V zero fi ff rk svs offset length
  = match read_channel_data_alloc_gen (Some dt) false (total_values V svs) offset length with
    | Err e => Err e
    | Ok None => Err EOther
    | Ok (Some num_values) =>
      do '(chunks, _) <- lz_gen V fi ff svs offset length;
      match rk with
      | RNumpy => recv_numpy V (repeat zero (Z.to_nat num_values)) 0 chunks
      | RList => Ok (concat chunks)
      end
    end.
Proof.
  rewrite read_channel_data_alloc_eq. unfold read_channel_data.
  destruct (offset <? 0); [reflexivity|]. destruct length as [l|]; [destruct (l <? 0)|]; reflexivity.
Qed.

Fixpoint running (acc : Z) (l : list Z) : list Z :=
  match l with [] => [] | x :: r => acc :: running (acc + x) r end.

Lemma channel_data_chunks_loop : forall l ys acc,
  channel_data_chunks_gen_loop4 l ys acc = Ok (ys ++ running acc l, acc + zsum l).
Proof.
  induction l as [|x r IH]; intros ys acc; cbn [channel_data_chunks_gen_loop4 running zsum fold_right].
  - rewrite app_nil_r. f_equal. f_equal. lia.
  - rewrite IH, <- app_assoc. cbn [app]. f_equal. f_equal. change (fold_right Z.add 0 r) with (zsum r). lia.
Qed.

(* TdmsChannel.data_chunks: the k-th chunk object carries the number of values of the chunks before it *)
Theorem channel_data_chunks_eq lens : channel_data_chunks_gen lens = Ok (running 0 lens).
Proof. unfold channel_data_chunks_gen. rewrite channel_data_chunks_loop. reflexivity. Qed.

(* TdmsFile.data_chunks: channel_offsets after a chunk = before + len(data) per channel of the chunk *)
Fixpoint add_chunk_lens (offsets : alist Z) (l : list (bytes * Z)) : alist Z :=
  match l with
  | [] => offsets
  | (p, n) :: r => add_chunk_lens (aset p (alookup_z0 p offsets + n) offsets) r
  end.

Fixpoint running_offsets (offsets : alist Z) (chunks : list (list (bytes * Z))) : list (alist Z) :=
  match chunks with
  | [] => []
  | c :: r => offsets :: running_offsets (add_chunk_lens offsets c) r
  end.

Lemma file_data_chunks_inner : forall l offsets, file_data_chunks_gen_loop6 l offsets = Ok (add_chunk_lens offsets l).
Proof. induction l as [|[p n] r IH]; intros offsets; cbn [file_data_chunks_gen_loop6 add_chunk_lens]; [reflexivity|apply IH]. Qed.

Lemma file_data_chunks_outer : forall chunks ys offsets, exists final,
  file_data_chunks_gen_loop5 chunks ys offsets = Ok (ys ++ running_offsets offsets chunks, final).
Proof.
  induction chunks as [|c r IH]; intros ys offsets; cbn [file_data_chunks_gen_loop5 running_offsets].
  - exists offsets. rewrite app_nil_r. reflexivity.
  - rewrite file_data_chunks_inner. cbn [bind].
    destruct (IH (ys ++ [offsets]) (add_chunk_lens offsets c)) as (final & ->). exists final.
    rewrite <- app_assoc. reflexivity.
Qed.

Theorem file_data_chunks_eq chunks : file_data_chunks_gen chunks = Ok (running_offsets [] chunks).
Proof.
  unfold file_data_chunks_gen. destruct (file_data_chunks_outer chunks [] []) as (final & ->). reflexivity.
Qed.

(* ---- read_raw_data_for_channel: the window arithmetic before the loop over segments --------------------- *)

Theorem read_window_bounds_eq n first offs offset length :
  read_window_bounds_gen n first offs offset length
  = let max_length_from_offset := n - offset in
    let length := match length with None => max_length_from_offset | Some l => Z.min l max_length_from_offset end in
    let end_index := offset + length in
    Ok (length, end_index, first + searchsorted_right offs offset, first + searchsorted_left offs end_index).
Proof. unfold read_window_bounds_gen. destruct length; reflexivity. Qed.

(* the model's generator (about which window_correct and plan_exact_chunks are proved) starts its loop over
   the segments with exactly the translated bounds *)
Theorem lz_gen_uses_translated_bounds V fi ff (segs : list (segv V)) offset length :
  lz_gen V fi ff segs offset length
  = let '(first_segment, segment_offsets) := build_index V segs in
    match read_window_bounds_gen (total_values V segs) first_segment segment_offsets offset length with
    | Ok (length, end_index, start_segment, end_segment) =>
      lz_loop V fi ff first_segment segment_offsets start_segment end_segment offset length end_index
              (py_slice segs start_segment (end_segment + 1)) start_segment start_segment 0
    | Err e => Err e
    end.
Proof.
  unfold lz_gen. destruct (build_index V segs) as [first offs]. rewrite read_window_bounds_eq. reflexivity.
Qed.

(* ---- a concrete file: channel a (3 values per chunk) in segments 0 and 2, absent from segment 1 (which
   holds channel b); segment 2 has three chunks, the last one truncated to 2 values; 6 + 8 = 14 values ---- *)
Section GenLazyIdxExample.

Definition ex_path : bytes := so_path ex_a.
Definition ex_segs : list segment :=
  [ mkSeg 0 14 100 28 false [ex_a] [(so_path ex_a, 0%nat)] 2 None;
    mkSeg 100 14 200 128 false [ex_b] [(so_path ex_b, 0%nat)] 1 None;
    mkSeg 200 14 300 228 true [ex_b; ex_a] [(so_path ex_b, 0%nat); (so_path ex_a, 1%nat)] 3
          (Some [(so_path ex_b, 2); (so_path ex_a, 2)]) ].
Definition ex_dat : list (seg_data Z) :=
  [ (false, [[1; 2; 3]; [4; 5; 6]]); (false, [[]]); (false, [[7; 8; 9]; [10; 11; 12]; [13; 14]]) ].

Lemma ex_hyps :
  length ex_dat = length ex_segs /\ forallb (seg_ok ex_path) ex_segs = true /\
  zsum (seg_nums unit (seg_views ex_segs ex_path)) < 2 ^ 63 /\
  wf Z (lviews Z ex_segs ex_path ex_dat) = true /\
  full Z (lviews Z ex_segs ex_path ex_dat) = [1; 2; 3; 4; 5; 6; 7; 8; 9; 10; 11; 12; 13; 14].
Proof. repeat split; vm_compute; congruence. Qed.

Lemma ex_build_index : build_index_gen ex_segs [] ex_path = Ok [(ex_path, (0, [6; 6; 14]))].
Proof. vm_compute. reflexivity. Qed.

(* channel[-3] (= value 12 at position 11): miss, index built, chunk 1 of segment 2 fetched (values 10..12,
   positions 9..11); then channel[9]: hit, nothing read *)
Lemma ex_index_run :
  let g := read_at_index_gen (iolog) (list Z) Z (w_verify) (w_next Z (lviews Z ex_segs ex_path ex_dat))
                             (fun c => Ok c) (fun c => Ok c) (Some ex_segs) in
  g [] [] ex_path 14 None None (-3)
  = Ok (12, ([10; 11; 12], Some (9, 12), [(ex_path, (0, [6; 6; 14]))], [(2, 1)])) /\
  g [(ex_path, (0, [6; 6; 14]))] [(2, 1)] ex_path 14 (Some [10; 11; 12]) (Some (9, 12)) 9
  = Ok (10, ([10; 11; 12], Some (9, 12), [(ex_path, (0, [6; 6; 14]))], [(2, 1)])) /\
  g [] [] ex_path 14 None None 14 = Err EIndex.
Proof. vm_compute. repeat split; reflexivity. Qed.

(* index_correct_gen applied to the example: channel[-3] = full[-3] = 12 *)
Lemma ex_index_applied : exists c' b' tbl' f',
  read_at_index_gen (iolog) (list Z) Z (w_verify) (w_next Z (lviews Z ex_segs ex_path ex_dat))
                    (fun c => Ok c) (fun c => Ok c) (Some ex_segs) [] [] ex_path
                    (total_values Z (lviews Z ex_segs ex_path ex_dat)) None None (-3)
  = Ok (12, (c', Some b', tbl', f')).
Proof.
  destruct ex_hyps as (H1 & H2 & H3 & H4 & H5).
  pose proof (index_correct_gen Z ex_segs ex_path ex_dat H1 H2 H3 None None None [] [] (-3) H4 I eq_refl I) as H.
  rewrite H5 in H.
  change (py_index [1; 2; 3; 4; 5; 6; 7; 8; 9; 10; 11; 12; 13; 14] (-3)) with (@Ok Z 12) in H.
  destruct H as (c' & b' & tbl' & f' & H & _). eauto.
Qed.

Lemma ex_array_equal :
  array_equal_gen (py_range 0 250) (map (fun k => if k =? 200 then -7 else k) (py_range 0 250)) 100 = Ok false /\
  array_equal_gen (py_range 0 250) (py_range 0 250) 100 = Ok true.
Proof. vm_compute. split; reflexivity. Qed.
End GenLazyIdxExample.
