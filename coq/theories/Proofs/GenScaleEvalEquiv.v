(* The scaling classes TRANSLATED from nptdms/scaling.py (Gen/PyFuncsScaleEval.v, regenerated from the source on
   every run) equal the hand-written Model/ScaleGraph.v:
     X.from_properties / X.__init__   = the branch of scaling_at for scale type X  (which properties, order, defaults)
     the loop of _get_channel_scaling = build_scalings;  _get_channel_scaling = get_channel_scaling
     X.scale                          = scale_linear / scale_polynomial / scale_table / scale_add / scale_subtract
     MultiScaling._compute_scaled_data, one call = one unfolding of eval_src (any recursive callee);
     MultiScaling.scale               = eval, for acyclic definitions (wf_graph)
   An object of the translation is mapped to the model's scaling by [forget] (a sensor object keeps only its input
   source there). *)
From Coq Require Import String Ascii.
From Coq Require Import ZArith List Bool Lia PrimFloat.
Import ListNotations.
From NpTdms Require Import Base.Res Base.PySlice Gen.NumpyPromote Gen.ThermoTables Gen.PyFuncsScaling Gen.PyFuncsScaleEval.
From NpTdms Require Import Proofs.GenScalingEquiv Proofs.ScaleProofs.
From NpTdms Require Model.ScaleGraph.
Local Open Scope Z_scope.
Local Open Scope list_scope.

Definition rmap {A B} (f : A -> B) (r : res A) : res B :=
  match r with Ok a => Ok (f a) | Err e => Err e end.

Lemma lift_is_sg_lift {A} (r : SG.res A) : lift r = sg_lift r.
Proof. destruct r as [a|[]]; reflexivity. Qed.

(* ---- the objects ------------------------------------------------------------------------------------------------ *)

Definition forget (s : scaling_py) : SG.scaling :=
  match s with
  | PyNoOpScaling src => SG.NoOp (SG.src_of_int src)
  | PyLinearScaling b a src => SG.Linear a b (SG.src_of_int src)
  | PyPolynomialScaling cs src => SG.Polynomial cs (SG.src_of_int src)
  | PyRtdScaling _ _ _ _ _ _ _ src => SG.Sensor SG.SRtd (SG.src_of_int src)
  | PyStrainScaling _ _ _ _ _ _ _ _ src => SG.Sensor SG.SStrain (SG.src_of_int src)
  | PyTableScaling xs ys src => SG.Table xs ys (SG.src_of_int src)
  | PyThermistorScaling _ _ _ _ _ _ _ _ _ src => SG.Sensor SG.SThermistor (SG.src_of_int src)
  | PyThermocoupleScaling _ _ src => SG.Sensor SG.SThermocouple (SG.src_of_int src)
  | PyAddScaling l r => SG.Add (SG.src_of_int l) (SG.src_of_int r)
  | PySubtractScaling l r => SG.Subtract (SG.src_of_int l) (SG.src_of_int r)
  | PyDaqMxScalerScaling id => SG.DaqmxScaler (Z.to_nat id)
  end.

(* ---- strings: "NI_Scale[%d]..." % i ------------------------------------------------------------------------------ *)

Lemma py_dec_nat (i : nat) : py_dec (Z.of_nat i) = SG.dec i.
Proof.
  unfold py_dec. destruct (Z.of_nat i <? 0) eqn:E; [apply Z.ltb_lt in E; lia|]. rewrite Nat2Z.id. reflexivity.
Qed.

Lemma app_assoc_s (a b c : string) : ((a ++ b) ++ c = a ++ (b ++ c))%string.
Proof. induction a as [|ch a IH]; cbn; [reflexivity|]. rewrite IH. reflexivity. Qed.

(* both sides' property names are brought to one normal form: the literal prefix consumed character by character,
   then dec i ++ the literal rest *)
Ltac norm_keys :=
  rewrite ?py_dec_nat; unfold SG.skey; cbn [append]; rewrite ?app_assoc_s; cbn [append];
  unfold SG.get_source_default, SG.get_source, SG.get_float, SG.get_int.

(* ---- reading the properties ----------------------------------------------------------------------------------------- *)

Definition rmapS := rmap (fun o => Some (forget o)).

Ltac simp :=
  cbn [bind need py_catch err_eqb py_int_of_pval py_float_of_pval py_get_int rmap forget sg_lift sg_lift_err
       SG.bind SG.get_source_default SG.get_source SG.get_float SG.get_int SG.require_all map
       NoOpScaling_new_gen NoOpScaling_init_gen LinearScaling_new_gen LinearScaling_init_gen
       PolynomialScaling_new_gen PolynomialScaling_init_gen RtdScaling_new_gen RtdScaling_init_gen
       StrainScaling_new_gen StrainScaling_init_gen ThermistorScaling_new_gen ThermistorScaling_init_gen
       AddScaling_new_gen AddScaling_init_gen SubtractScaling_new_gen SubtractScaling_init_gen
       DaqMxScalerScaling_new_gen DaqMxScalerScaling_init_gen fst snd].

(* the translation's next read is at the head of the left-hand side: split on it (a typed read: on the value's
   Python type as well) *)
Ltac rd3 k p := destruct (SG.pget k p) as [[?s|?f|?z]|]; simp; try reflexivity.
Ltac rd :=
  lazymatch goal with
  | |- rmap _ (bind (need EKey (SG.pget ?k ?p)) (fun v => bind (py_int_of_pval v) (@?f v))) = _ => rd3 k p
  | |- rmap _ (bind (need EKey (SG.pget ?k ?p)) (fun v => bind (py_float_of_pval v) (@?f v))) = _ => rd3 k p
  | |- rmap _ (bind (need EKey (SG.pget ?k ?p)) _) = _ => destruct (SG.pget k p) as [?v|]; simp; try reflexivity
  | |- rmap _ (bind (py_catch EKey (bind (need EKey (SG.pget ?k ?p)) _) _) _) = _ => rd3 k p
  | |- rmap _ (bind (py_get_int ?k ?p _) _) = _ => unfold py_get_int at 1; rd3 k p
  end.

Lemma rmapS_ret (r : res scaling_py) : rmapS (do t <- r; Ok t) = rmap Some (rmap forget r).
Proof. destruct r; reflexivity. Qed.

(* ---- from_properties of the classes = the branches of ScaleGraph.scaling_at ------------------------------------ *)

Lemma noop_from_properties p i :
  rmapS (NoOpScaling_from_properties_gen p (Z.of_nat i) "AdvancedAPI")
  = sg_lift (SG.bind (SG.get_source_default p (SG.skey i "_AdvancedAPI_Input_Source")) (fun s => SG.Ok (Some (SG.NoOp s)))).
Proof. unfold rmapS, NoOpScaling_from_properties_gen. norm_keys. simp. rd. Qed.

Lemma linear_from_properties p i :
  rmapS (LinearScaling_from_properties_gen p (Z.of_nat i))
  = sg_lift (SG.bind (SG.get_source_default p (SG.skey i "_Linear_Input_Source")) (fun s =>
             SG.bind (SG.get_float p (SG.skey i "_Linear_Y_Intercept")) (fun b =>
             SG.bind (SG.get_float p (SG.skey i "_Linear_Slope")) (fun a => SG.Ok (Some (SG.Linear a b s)))))).
Proof. unfold rmapS, LinearScaling_from_properties_gen. norm_keys. simp. rd; rd; rd. Qed.

Lemma add_from_properties p i :
  rmapS (AddScaling_from_properties_gen p (Z.of_nat i))
  = sg_lift (SG.bind (SG.get_source p (SG.skey i "_Add_Left_Operand_Input_Source")) (fun l =>
             SG.bind (SG.get_source p (SG.skey i "_Add_Right_Operand_Input_Source")) (fun r => SG.Ok (Some (SG.Add l r))))).
Proof. unfold rmapS, AddScaling_from_properties_gen. norm_keys. simp. rd; rd. Qed.

Lemma subtract_from_properties p i :
  rmapS (SubtractScaling_from_properties_gen p (Z.of_nat i))
  = sg_lift (SG.bind (SG.get_source p (SG.skey i "_Subtract_Left_Operand_Input_Source")) (fun l =>
             SG.bind (SG.get_source p (SG.skey i "_Subtract_Right_Operand_Input_Source")) (fun r => SG.Ok (Some (SG.Subtract l r))))).
Proof. unfold rmapS, SubtractScaling_from_properties_gen. norm_keys. simp. rd; rd. Qed.

(* ---- the coefficient / table loops -------------------------------------------------------------------------------- *)

Lemma py_range_seq n : py_range 0 n = map Z.of_nat (seq 0 (Z.to_nat n)).
Proof. unfold py_range. rewrite Z.sub_0_r. apply map_ext. intros k. reflexivity. Qed.

Lemma mapM_get_floats p (K : Z -> string) (K' : nat -> string) :
  (forall j, K (Z.of_nat j) = K' j) -> forall n,
  mapM (fun i => do t <- need EKey (SG.pget (K i) p); do t' <- py_float_of_pval t; Ok t') (py_range 0 n)
  = sg_lift (SG.get_floats p K' (SG.range n)).
Proof.
  intros HK n. rewrite py_range_seq. unfold SG.range. generalize 0%nat.
  induction (Z.to_nat n) as [|m IH]; intros a; [reflexivity|].
  cbn [seq map mapM SG.get_floats]. rewrite HK. unfold SG.get_float.
  destruct (SG.pget (K' a) p) as [[s|f|z]|]; cbn [need bind py_float_of_pval SG.bind sg_lift sg_lift_err]; try reflexivity.
  rewrite IH. destruct (SG.get_floats p K' (seq (S a) m)); reflexivity.
Qed.

(* rewrite the next comprehension of the left-hand side into the model's get_floats (the key functions agree
   up to py_dec (Z.of_nat j) = dec j) *)
Ltac loop_floats :=
  match goal with
  | |- context [mapM (fun i0 => bind (need EKey (SG.pget (@?K i0) ?p)) _) (py_range 0 ?n)] =>
      match goal with
      | |- context [SG.get_floats p ?K' (SG.range n)] =>
          let HK := fresh "HK" in
          assert (HK : forall j, K (Z.of_nat j) = K' j) by (intro j; cbv beta; rewrite ?py_dec_nat, ?app_assoc_s; cbn [append]; reflexivity);
          rewrite (mapM_get_floats p K K' HK n); clear HK
      end
  end.

Lemma polynomial_from_properties p i :
  rmapS (PolynomialScaling_from_properties_gen p (Z.of_nat i))
  = sg_lift (SG.bind (match SG.pget (SG.skey i "_Polynomial_Coefficients_Size") p with
                      | None => SG.Ok 4 | Some (SG.PInt z) => SG.Ok z | Some _ => SG.Err SG.EUnmodelled end) (fun n =>
             SG.bind (SG.get_source_default p (SG.skey i "_Polynomial_Input_Source")) (fun s =>
             SG.bind (SG.get_floats p (fun j => SG.skey i ("_Polynomial_Coefficients[" ++ SG.dec j ++ "]")) (SG.range n))
                     (fun cs => SG.Ok (Some (SG.Polynomial cs s)))))).
Proof.
  unfold rmapS, PolynomialScaling_from_properties_gen. norm_keys. simp.
  rd; rd; loop_floats;
    match goal with |- context [SG.get_floats ?p ?K ?l] => destruct (SG.get_floats p K l) end; reflexivity.
Qed.

(* ---- TableScaling.__init__ ---------------------------------------------------------------------------------------------- *)

Lemma forallb_map {A B} (f : B -> bool) (g : A -> B) l : forallb f (map g l) = forallb (fun x => f (g x)) l.
Proof. induction l as [|x r IH]; [reflexivity|]. cbn. rewrite IH. reflexivity. Qed.

Lemma increasing_eq l :
  forallb (fun b => b) (map (fun x => (0 <? x)%float) (np_diff l)) = SG.increasing l.
Proof. unfold np_diff, SG.increasing. rewrite !forallb_map. reflexivity. Qed.

Lemma table_new pre sc z :
  rmap forget (TableScaling_new_gen pre sc z) = sg_lift (SG.mk_table pre sc (SG.src_of_int z)).
Proof.
  unfold TableScaling_new_gen, TableScaling_init_gen, SG.mk_table. rewrite !increasing_eq.
  destruct (SG.increasing sc) eqn:E1; cbn [negb bind].
  - rewrite increasing_eq, E1. reflexivity.
  - rewrite increasing_eq. destruct (SG.increasing (rev sc)); reflexivity.
Qed.

Lemma rmap_bind_new {A} (r : res A) (k : A -> res scaling_py) :
  rmap forget (do x <- r; do t <- k x; Ok t) = bind r (fun x => rmap forget (k x)).
Proof. destruct r as [x|e]; [|reflexivity]. cbn [bind]. destruct (k x); reflexivity. Qed.

Lemma rmap_bind_ret {A B} (f : A -> B) (r : res A) : rmap f (do t <- r; Ok t) = rmap f r.
Proof. destruct r; reflexivity. Qed.

Lemma table_from_properties p i :
  rmapS (TableScaling_from_properties_gen p (Z.of_nat i))
  = sg_lift (SG.bind (SG.get_source_default p (SG.skey i "_Table_Input_Source")) (fun s =>
             SG.bind (SG.get_int p (SG.skey i "_Table_Pre_Scaled_Values_Size")) (fun n1 =>
             SG.bind (SG.get_int p (SG.skey i "_Table_Scaled_Values_Size")) (fun n2 =>
             if negb (n1 =? n2) then SG.Err SG.EValue else
             SG.bind (SG.get_floats p (fun j => SG.skey i ("_Table_Pre_Scaled_Values[" ++ SG.dec j ++ "]")) (SG.range n1)) (fun pre =>
             SG.bind (SG.get_floats p (fun j => SG.skey i ("_Table_Scaled_Values[" ++ SG.dec j ++ "]")) (SG.range n2)) (fun sc =>
             SG.bind (SG.mk_table pre sc s) (fun t => SG.Ok (Some t)))))))).
Proof.
  unfold rmapS, TableScaling_from_properties_gen. cbv zeta. norm_keys. simp.
  rd; rd; rd;
    (match goal with |- context [negb (?a =? ?b)] => destruct (a =? b) end; cbn [negb]; [|reflexivity]);
    loop_floats; loop_floats;
    (match goal with |- context [SG.get_floats ?p ?K ?l] => destruct (SG.get_floats p K l) as [pre|e] end;
     cbn [bind sg_lift SG.bind]; [|reflexivity]);
    (match goal with |- context [SG.get_floats ?p ?K ?l] => destruct (SG.get_floats p K l) as [sc|e] end;
     cbn [bind sg_lift SG.bind]; [|reflexivity]);
    try change SG.Raw with (SG.src_of_int 4294967295);
    (match goal with |- rmap ?f ?r = _ => change (rmap f r) with (rmapS r) end);
    rewrite rmapS_ret, table_new;
    match goal with |- context [SG.mk_table ?a ?b ?c] => destruct (SG.mk_table a b c) end; reflexivity.
Qed.

(* ---- the sensor classes: every parameter is read (a missing one: KeyError), the input source is an int ---------- *)

Lemma rtd_from_properties p i :
  rmapS (RtdScaling_from_properties_gen p (Z.of_nat i))
  = sg_lift (SG.bind (SG.require_all p (map (fun x => SG.skey i ("_RTD_" ++ x))
               ["Current_Excitation"; "R0_Nominal_Resistance"; "A"; "B"; "C"; "Lead_Wire_Resistance";
                "Resistance_Configuration"]%string)) (fun _ =>
             SG.bind (SG.get_source p (SG.skey i "_RTD_Input_Source")) (fun s => SG.Ok (Some (SG.Sensor SG.SRtd s))))).
Proof.
  unfold rmapS, RtdScaling_from_properties_gen. cbv zeta. cbn [map]. norm_keys. simp. do 8 rd.
Qed.

Lemma strain_from_properties p i :
  rmapS (StrainScaling_from_properties_gen p (Z.of_nat i))
  = sg_lift (SG.bind (SG.require_all p (map (fun x => SG.skey i ("_Strain_" ++ x))
               ["Configuration"; "Poisson_Ratio"; "Gage_Resistance"; "Lead_Wire_Resistance";
                "Initial_Bridge_Voltage"; "Gage_Factor"; "Bridge_Shunt_Calibration_Gain_Adjustment";
                "Voltage_Excitation"]%string)) (fun _ =>
             SG.bind (SG.get_source p (SG.skey i "_Strain_Input_Source")) (fun s => SG.Ok (Some (SG.Sensor SG.SStrain s))))).
Proof.
  unfold rmapS, StrainScaling_from_properties_gen. cbv zeta. cbn [map]. norm_keys. simp. do 9 rd.
Qed.

Lemma thermistor_from_properties p i :
  rmapS (ThermistorScaling_from_properties_gen p (Z.of_nat i))
  = sg_lift (SG.bind (SG.require_all p (map (fun x => SG.skey i ("_Thermistor_" ++ x))
               ["Excitation_Type"; "Excitation_Value"; "Resistance_Configuration";
                "R1_Reference_Resistance"; "Lead_Wire_Resistance"; "A"; "B"; "C";
                "Temperature_Offset"]%string)) (fun _ =>
             SG.bind (SG.get_source p (SG.skey i "_Thermistor_Input_Source")) (fun s => SG.Ok (Some (SG.Sensor SG.SThermistor s))))).
Proof.
  unfold rmapS, ThermistorScaling_from_properties_gen. cbv zeta. cbn [map]. norm_keys. simp. do 10 rd.
Qed.

(* the type-code table of ThermocoupleScaling.__init__ has exactly the model's eight codes *)
Lemma thermocouple_new code dir z :
  rmap forget (ThermocoupleScaling_new_gen code dir z)
  = if SG.thermocouple_type_ok code then Ok (SG.Sensor SG.SThermocouple (SG.src_of_int z)) else Err EKey.
Proof.
  unfold ThermocoupleScaling_new_gen, ThermocoupleScaling_init_gen, SG.thermocouple_type_ok.
  cbn [py_zdict_get existsb].
  rewrite !(Z.eqb_sym code).
  repeat (match goal with |- context [?k =? code] => destruct (k =? code) end; [reflexivity|]). reflexivity.
Qed.

Lemma thermocouple_from_properties p i :
  rmapS (ThermocoupleScaling_from_properties_gen p (Z.of_nat i))
  = sg_lift (SG.bind (SG.get_source_default p (SG.skey i "_Thermocouple_Input_Source")) (fun s =>
             SG.bind (match SG.pget (SG.skey i "_Thermocouple_Thermocouple_Type") p with
                      | None => SG.Ok 10072 | Some (SG.PInt z) => SG.Ok z | Some _ => SG.Err SG.EUnmodelled end) (fun tc =>
             if SG.thermocouple_type_ok tc then SG.Ok (Some (SG.Sensor SG.SThermocouple s)) else SG.Err SG.EKey))).
Proof.
  unfold rmapS, ThermocoupleScaling_from_properties_gen. cbv zeta. norm_keys. simp.
  rd; rd; (match goal with |- rmap ?f ?r = _ => change (rmap f r) with (rmapS r) end);
    rewrite rmapS_ret, thermocouple_new;
    try change SG.Raw with (SG.src_of_int 4294967295);
    match goal with |- context [SG.thermocouple_type_ok ?c] => destruct (SG.thermocouple_type_ok c) end; reflexivity.
Qed.

(* ---- the construction loop of _get_channel_scaling ------------------------------------------------------------ *)

(* one round of the loop: the object built for scale index z; None = "Unsupported scale type" *)
Definition scaling_at_py (p : SG.props) (z : Z) : res (option scaling_py) :=
  match SG.pget ("NI_Scale[" ++ py_dec z ++ "]_Scale_Type")%string p with
  | None => do o <- DaqMxScalerScaling_new_gen z; Ok (Some o)
  | Some st =>
    if pval_eq_str st "Polynomial" then do o <- PolynomialScaling_from_properties_gen p z; Ok (Some o)
    else if pval_eq_str st "Linear" then do o <- LinearScaling_from_properties_gen p z; Ok (Some o)
    else if pval_eq_str st "RTD" then do o <- RtdScaling_from_properties_gen p z; Ok (Some o)
    else if pval_eq_str st "Strain" then do o <- StrainScaling_from_properties_gen p z; Ok (Some o)
    else if pval_eq_str st "Table" then do o <- TableScaling_from_properties_gen p z; Ok (Some o)
    else if pval_eq_str st "Thermistor" then do o <- ThermistorScaling_from_properties_gen p z; Ok (Some o)
    else if pval_eq_str st "Thermocouple" then do o <- ThermocoupleScaling_from_properties_gen p z; Ok (Some o)
    else if pval_eq_str st "Add" then do o <- AddScaling_from_properties_gen p z; Ok (Some o)
    else if pval_eq_str st "Subtract" then do o <- SubtractScaling_from_properties_gen p z; Ok (Some o)
    else if pval_eq_str st "AdvancedAPI" then do o <- NoOpScaling_from_properties_gen p z "AdvancedAPI"; Ok (Some o)
    else Ok None
  end.

Lemma loop_cons p z xs sc :
  get_channel_scaling_gen_loop1 p (z :: xs) sc
  = do o <- scaling_at_py p z;
    match o with
    | None => Ok (inr None)
    | Some x => do sc' <- py_setitem sc z (Some x); get_channel_scaling_gen_loop1 p xs sc'
    end.
Proof.
  cbn [get_channel_scaling_gen_loop1]. cbv zeta. unfold scaling_at_py.
  destruct (SG.pget _ p) as [st|]; cbn [need bind err_eqb].
  - repeat (match goal with |- context [pval_eq_str st ?t] => destruct (pval_eq_str st t) end;
            [match goal with |- context [bind ?r _] => destruct r end; reflexivity|]).
    reflexivity.
  - reflexivity.
Qed.

Lemma rmap_opt_ret (r : res scaling_py) :
  rmap (option_map forget) (do o <- r; Ok (Some o)) = rmapS r.
Proof. destruct r; reflexivity. Qed.

Lemma scale_type_key i : ("NI_Scale[" ++ py_dec (Z.of_nat i) ++ "]_Scale_Type")%string = SG.skey i "_Scale_Type".
Proof. norm_keys. reflexivity. Qed.

Theorem scaling_at_eq p i :
  rmap (option_map forget) (scaling_at_py p (Z.of_nat i)) = sg_lift (SG.scaling_at p i).
Proof.
  unfold scaling_at_py, SG.scaling_at. rewrite scale_type_key.
  destruct (SG.pget (SG.skey i "_Scale_Type") p) as [[t|f|z]|]; cbn [pval_eq_str]; try reflexivity.
  - destruct (String.eqb t "Polynomial"); [rewrite rmap_opt_ret; apply polynomial_from_properties|].
    destruct (String.eqb t "Linear"); [rewrite rmap_opt_ret; apply linear_from_properties|].
    destruct (String.eqb t "RTD"); [rewrite rmap_opt_ret; apply rtd_from_properties|].
    destruct (String.eqb t "Strain"); [rewrite rmap_opt_ret; apply strain_from_properties|].
    destruct (String.eqb t "Table"); [rewrite rmap_opt_ret; apply table_from_properties|].
    destruct (String.eqb t "Thermistor"); [rewrite rmap_opt_ret; apply thermistor_from_properties|].
    destruct (String.eqb t "Thermocouple"); [rewrite rmap_opt_ret; apply thermocouple_from_properties|].
    destruct (String.eqb t "Add"); [rewrite rmap_opt_ret; apply add_from_properties|].
    destruct (String.eqb t "Subtract"); [rewrite rmap_opt_ret; apply subtract_from_properties|].
    destruct (String.eqb t "AdvancedAPI"); [rewrite rmap_opt_ret; apply noop_from_properties|].
    reflexivity.
  - cbn. rewrite Nat2Z.id. reflexivity.
Qed.

(* the list the model builds, with the translation's objects *)
Fixpoint build_py (p : SG.props) (idxs : list nat) : res (option (list scaling_py)) :=
  match idxs with
  | [] => Ok (Some [])
  | i :: rest =>
      do o <- scaling_at_py p (Z.of_nat i);
      match o with
      | None => Ok None
      | Some x => do r <- build_py p rest; match r with None => Ok None | Some l => Ok (Some (x :: l)) end
      end
  end.

Lemma build_py_eq p idxs :
  rmap (option_map (map forget)) (build_py p idxs) = sg_lift (SG.build_scalings p idxs).
Proof.
  induction idxs as [|i rest IH]; [reflexivity|]. cbn [build_py SG.build_scalings].
  pose proof (scaling_at_eq p i) as H.
  destruct (scaling_at_py p (Z.of_nat i)) as [[x|]|e]; destruct (SG.scaling_at p i) as [[y|]|e'];
    cbn [rmap option_map sg_lift bind] in H |- *; try discriminate H; try (injection H as <-); try reflexivity.
  - destruct (build_py p rest) as [[l|]|e]; destruct (SG.build_scalings p rest) as [[l'|]|e'];
      cbn [rmap option_map sg_lift bind] in IH |- *; try discriminate IH; try reflexivity.
    + injection IH as <-. reflexivity.
    + exact IH.
Qed.

Lemma setitem_next {A} (done : list A) (x : A) m :
  py_setitem (map Some done ++ repeat None (S m)) (Z.of_nat (length done)) (Some x)
  = Ok (map Some (done ++ [x]) ++ repeat None m).
Proof.
  unfold py_setitem. rewrite app_length, map_length, repeat_length.
  destruct (Z.of_nat (length done) <? 0) eqn:E; [apply Z.ltb_lt in E; lia|].
  replace ((0 <=? Z.of_nat (length done)) && (Z.of_nat (length done) <? Z.of_nat (length done + S m))) with true
    by (symmetry; apply andb_true_iff; split; [apply Z.leb_le|apply Z.ltb_lt]; lia).
  rewrite Nat2Z.id. f_equal.
  rewrite firstn_app, map_length, Nat.sub_diag, firstn_O, app_nil_r.
  rewrite <- (map_length Some done) at 1. rewrite firstn_all.
  rewrite skipn_app, map_length.
  rewrite (skipn_all2 (map Some done)) by (rewrite map_length; lia).
  replace (S (length done) - length done)%nat with 1%nat by lia. cbn [repeat skipn app].
  rewrite map_app, <- app_assoc. reflexivity.
Qed.

Lemma loop_build p : forall m k done, length done = k ->
  get_channel_scaling_gen_loop1 p (map Z.of_nat (seq k m)) (map Some done ++ repeat None m)
  = match build_py p (seq k m) with
    | Err e => Err e
    | Ok None => Ok (inr None)
    | Ok (Some l) => Ok (inl (map Some (done ++ l)))
    end.
Proof.
  induction m as [|m IH]; intros k done Hk.
  - cbn. rewrite !app_nil_r. reflexivity.
  - cbn [seq map build_py]. rewrite loop_cons.
    destruct (scaling_at_py p (Z.of_nat k)) as [[x|]|e]; cbn [bind]; try reflexivity.
    rewrite <- Hk, setitem_next. cbn [bind]. rewrite Hk.
    rewrite (IH (S k) (done ++ [x])) by (rewrite app_length; cbn; lia).
    destruct (build_py p (seq (S k) m)) as [[l|]|e]; cbn [bind]; try reflexivity.
    rewrite <- app_assoc. reflexivity.
Qed.

(* ---- _get_channel_scaling ------------------------------------------------------------------------------------------ *)

Fixpoint all_some {A} (l : list (option A)) : option (list A) :=
  match l with
  | [] => Some []
  | Some a :: r => match all_some r with Some r' => Some (a :: r') | None => None end
  | None :: _ => None
  end.

Lemma all_some_map {A} (l : list A) : all_some (map Some l) = Some l.
Proof. induction l as [|a r IH]; [reflexivity|]. cbn. rewrite IH. reflexivity. Qed.

(* what a result of the translated _get_channel_scaling is in the model: no scaling, or the graph of the objects.
   (Err EFuel marks a list with an unset entry; sg_lift never produces it, so the theorem below excludes it.) *)
Definition view (r : res (option (list (option scaling_py)))) : res (option SG.graph) :=
  match r with
  | Err e => Err e
  | Ok None => Ok None
  | Ok (Some l) => match all_some l with Some objs => Ok (Some (map forget objs)) | None => Err EFuel end
  end.

Theorem get_channel_scaling_eq p : view (get_channel_scaling_gen p) = sg_lift (SG.get_channel_scaling p).
Proof.
  unfold get_channel_scaling_gen, SG.get_channel_scaling.
  rewrite get_number_of_scalings_eq, lift_is_sg_lift.
  destruct (SG.number_of_scalings p) as [[n|]|e]; cbn [sg_lift bind view]; try reflexivity.
  destruct (n =? 0); [reflexivity|].
  destruct (SG.pget "NI_Scaling_Status" p) as [[s| |]|]; cbn [pval_eq_str];
    [rewrite match_scaled; destruct (String.eqb s "scaled"); [reflexivity|] | | |
     change ("unscaled" =? "scaled")%string with false; cbv iota];
    cbn [need bind]; rewrite py_range_seq;
    rewrite <- (app_nil_l (repeat None (Z.to_nat n)));
    change (@nil (option scaling_py)) with (map (@Some scaling_py) []);
    rewrite (loop_build p (Z.to_nat n) 0 [] eq_refl); unfold SG.range;
    pose proof (build_py_eq p (seq 0 (Z.to_nat n))) as H;
    destruct (build_py p (seq 0 (Z.to_nat n))) as [[l|]|e];
    destruct (SG.build_scalings p (seq 0 (Z.to_nat n))) as [[g|]|e'];
    cbn [rmap option_map sg_lift bind view] in H |- *; try discriminate H; try reflexivity; try exact H;
    injection H as <-; cbn [app]; (destruct l as [|x l]; [reflexivity|]);
    cbn [map negb MultiScaling_init_gen bind view all_some]; rewrite all_some_map; reflexivity.
Qed.

(* ---- the scale methods --------------------------------------------------------------------------------------------- *)

Lemma dtype_not_complex v : is_complexfloating (SG.dtype_of v) = false.
Proof. destruct v as [l|k l|l|l]; try destruct k; reflexivity. Qed.

Section Scale.
Variable sens : scaling_py -> SG.value -> res SG.value.

Lemma noop_scale s v : dispatch_scale1 sens (PyNoOpScaling s) v = Ok v.
Proof. reflexivity. Qed.

Lemma linear_scale b a s v : dispatch_scale1 sens (PyLinearScaling b a s) v = sg_lift (SG.scale_linear a b v).
Proof.
  cbn [dispatch_scale1]. unfold LinearScaling_scale_gen, double_precision_dtype_gen, SG.scale_linear.
  rewrite dtype_not_complex. cbn [bind np_astype np_mul_k np_add_k np_arr_k sg_lift]. rewrite map_map. reflexivity.
Qed.

Lemma polynomial_scale cs s v :
  dispatch_scale1 sens (PyPolynomialScaling cs s) v = sg_lift (SG.scale_polynomial cs v).
Proof.
  cbn [dispatch_scale1]. unfold PolynomialScaling_scale_gen, SG.scale_polynomial, np_polyval.
  destruct cs as [|c r].
  - cbn. rewrite Nat2Z.id. reflexivity.
  - replace (Z.of_nat (length (c :: r)) =? 0) with false by (symmetry; apply Z.eqb_neq; cbn [length]; lia).
    destruct (rev (c :: r)) as [|cl rest] eqn:E.
    + apply (f_equal (@length float)) in E. rewrite rev_length in E. discriminate E.
    + reflexivity.
Qed.

Lemma table_scale xs ys s v : dispatch_scale1 sens (PyTableScaling xs ys s) v = sg_lift (SG.scale_table xs ys v).
Proof.
  cbn [dispatch_scale1]. unfold TableScaling_scale_gen, np_interp, SG.scale_table.
  destruct (negb (length xs =? length ys)%nat); [reflexivity|].
  destruct (combine xs ys); reflexivity.
Qed.

Lemma add_scale l r a b : dispatch_scale2 (PyAddScaling l r) a b = sg_lift (SG.scale_add a b).
Proof.
  cbn [dispatch_scale2]. unfold AddScaling_scale_gen, np_add, SG.scale_add.
  destruct (SG.np_arith _ _ a b); reflexivity.
Qed.

Lemma sub_arr_sym a b : sub_arr a b = sub_arr b a.
Proof. destruct a, b; reflexivity. Qed.

(* right minus left *)
Lemma subtract_scale l r a b : dispatch_scale2 (PySubtractScaling l r) a b = sg_lift (SG.scale_subtract a b).
Proof.
  cbn [dispatch_scale2]. unfold SubtractScaling_scale_gen, np_sub, SG.scale_subtract.
  rewrite (sub_arr_sym (SG.dtype_of b)). destruct (SG.np_arith _ _ b a); reflexivity.
Qed.

(* ---- one call of _compute_scaled_data = one unfolding of eval_src ------------------------------------------------- *)

(* the model's evaluation of one node, its inputs coming from [recm] *)
Definition eval_node (recm : SG.src -> SG.res SG.value) (raw : SG.rawdata) (sc : SG.scaling) : SG.res SG.value :=
  match sc with
  | SG.DaqmxScaler id =>
      match SG.assoc_nat id (SG.rscalers raw) with None => SG.Err SG.EKey | Some v => SG.Ok v end
  | SG.Linear a b s' => SG.bind (recm s') (fun v => SG.scale_linear a b v)
  | SG.Polynomial cs s' => SG.bind (recm s') (fun v => SG.scale_polynomial cs v)
  | SG.Table xs ys s' => SG.bind (recm s') (fun v => SG.scale_table xs ys v)
  | SG.NoOp s' => recm s'
  | SG.Sensor _ s' => SG.bind (recm s') (fun v => SG.Err SG.ESensor)
  | SG.Add l r => SG.bind (recm l) (fun lv => SG.bind (recm r) (fun rv => SG.scale_add lv rv))
  | SG.Subtract l r => SG.bind (recm l) (fun lv => SG.bind (recm r) (fun rv => SG.scale_subtract lv rv))
  end.

Definition eval_body (recm : SG.src -> SG.res SG.value) (g : SG.graph) (raw : SG.rawdata) (s : SG.src) : SG.res SG.value :=
  match s with
  | SG.Raw => match SG.rdata raw with None => SG.Err SG.EDaqmxSource | Some v => SG.Ok v end
  | SG.Idx z => match SG.py_index g z with None => SG.Err SG.EIndex | Some sc => eval_node recm raw sc end
  end.

Lemma eval_src_S fuel g raw s : SG.eval_src (S fuel) g raw s = eval_body (SG.eval_src fuel g raw) g raw s.
Proof.
  destruct s as [|z]; [reflexivity|]. cbn [SG.eval_src eval_body].
  destruct (SG.py_index g z) as [[]|]; reflexivity.
Qed.

Lemma eval_src_raw fuel g raw :
  SG.eval_src fuel g raw SG.Raw = match SG.rdata raw with None => SG.Err SG.EDaqmxSource | Some v => SG.Ok v end.
Proof. destruct fuel; reflexivity. Qed.

(* input sources of an object / scale ids are natural numbers / no sensor *)
Definition srcs (o : scaling_py) : list Z :=
  match o with
  | PyAddScaling l r | PySubtractScaling l r => [l; r]
  | PyDaqMxScalerScaling _ => []
  | PyNoOpScaling s | PyLinearScaling _ _ s | PyPolynomialScaling _ s | PyTableScaling _ _ s
  | PyRtdScaling _ _ _ _ _ _ _ s | PyStrainScaling _ _ _ _ _ _ _ _ s | PyThermistorScaling _ _ _ _ _ _ _ _ _ s
  | PyThermocoupleScaling _ _ s => [s]
  end.
Definition id_ok (o : scaling_py) : Prop := match o with PyDaqMxScalerScaling id => 0 <= id | _ => True end.
Definition structural (o : scaling_py) : Prop := match forget o with SG.Sensor _ _ => False | _ => True end.

Lemma index_objs (objs : list scaling_py) z :
  py_index (map Some objs) z
  = match SG.py_index objs z with Some o => Ok (Some o) | None => Err EIndex end.
Proof.
  unfold py_index, SG.py_index, zlen. rewrite map_length.
  destruct (0 <=? z) eqn:E0b.
  - pose proof E0b as E0. apply Z.leb_le in E0. destruct (z <? 0) eqn:E1; [apply Z.ltb_lt in E1; lia|].
    rewrite E0b. cbn [andb].
    rewrite nth_error_map. destruct (z <? Z.of_nat (length objs)) eqn:E2.
    + destruct (nth_error objs (Z.to_nat z)); reflexivity.
    + apply Z.ltb_ge in E2. assert (H : nth_error objs (Z.to_nat z) = None) by (apply nth_error_None; lia).
      rewrite H. reflexivity.
  - pose proof E0b as E0. apply Z.leb_gt in E0. destruct (z <? 0) eqn:E1; [|apply Z.ltb_ge in E1; lia].
    rewrite (Z.add_comm z).
    destruct (0 <=? Z.of_nat (length objs) + z) eqn:E2.
    + pose proof E2 as E2'. apply Z.leb_le in E2'.
      replace (Z.of_nat (length objs) + z <? Z.of_nat (length objs)) with true by (symmetry; apply Z.ltb_lt; lia).
      cbn [andb]. rewrite nth_error_map. destruct (nth_error objs _); reflexivity.
    + reflexivity.
Qed.

Lemma index_forget (objs : list scaling_py) z :
  SG.py_index (map forget objs) z = option_map forget (SG.py_index objs z).
Proof.
  unfold SG.py_index. rewrite map_length.
  destruct (0 <=? z); [apply nth_error_map|]. destruct (0 <=? _); [apply nth_error_map|reflexivity].
Qed.

Lemma src_of_int_raw z : z <> 4294967295 -> SG.src_of_int z = SG.Idx z.
Proof. intros H. unfold SG.src_of_int, SG.RAW_DATA_INPUT_SOURCE. destruct (z =? 4294967295) eqn:E; [apply Z.eqb_eq in E; lia|reflexivity]. Qed.

Theorem compute_step rec recm objs raw z :
  z <> 4294967295 ->
  (forall o, SG.py_index objs z = Some o ->
     id_ok o /\ structural o /\ forall zc, In zc (srcs o) -> rec zc raw = sg_lift (recm (SG.src_of_int zc))) ->
  compute_scaled_data_gen sens rec (map Some objs) z raw
  = sg_lift (eval_body recm (map forget objs) raw (SG.Idx z)).
Proof.
  intros Hz H. unfold compute_scaled_data_gen.
  replace (z =? 4294967295) with false by (symmetry; apply Z.eqb_neq; exact Hz).
  cbn [eval_body]. rewrite index_objs, index_forget.
  destruct (SG.py_index objs z) as [o|]; cbn [bind option_map sg_lift sg_lift_err]; [|reflexivity].
  destruct (H o eq_refl) as (Hid & Hst & Hrec).
  destruct o; cbn [is_DaqMxScalerScaling has_input_source has_left_input_source has_right_input_source
                     get_input_source get_left_input_source get_right_input_source is_none negb andb need bind
                     forget eval_node srcs id_ok structural] in *;
    try contradiction Hst.
  - (* NoOp *) rewrite (Hrec _ (or_introl eq_refl)). destruct (recm _); reflexivity.
  - (* Linear *) rewrite (Hrec _ (or_introl eq_refl)). destruct (recm _) as [v|e]; cbn [bind sg_lift SG.bind]; [|reflexivity].
    rewrite linear_scale. destruct (SG.scale_linear _ _ v); reflexivity.
  - (* Polynomial *) rewrite (Hrec _ (or_introl eq_refl)). destruct (recm _) as [v|e]; cbn [bind sg_lift SG.bind]; [|reflexivity].
    rewrite polynomial_scale. destruct (SG.scale_polynomial _ v); reflexivity.
  - (* Table *) rewrite (Hrec _ (or_introl eq_refl)). destruct (recm _) as [v|e]; cbn [bind sg_lift SG.bind]; [|reflexivity].
    rewrite table_scale. destruct (SG.scale_table _ _ v); reflexivity.
  - (* Add *) rewrite (Hrec _ (or_introl eq_refl)). destruct (recm _) as [lv|e]; cbn [bind sg_lift SG.bind]; [|reflexivity].
    rewrite (Hrec _ (or_intror (or_introl eq_refl))). destruct (recm _) as [rv|e]; cbn [bind sg_lift SG.bind]; [|reflexivity].
    rewrite add_scale. destruct (SG.scale_add lv rv); reflexivity.
  - (* Subtract *) rewrite (Hrec _ (or_introl eq_refl)). destruct (recm _) as [lv|e]; cbn [bind sg_lift SG.bind]; [|reflexivity].
    rewrite (Hrec _ (or_intror (or_introl eq_refl))). destruct (recm _) as [rv|e]; cbn [bind sg_lift SG.bind]; [|reflexivity].
    rewrite subtract_scale. destruct (SG.scale_subtract lv rv); reflexivity.
  - (* DAQmx scaler *) unfold dispatch_scale_daqmx1, DaqMxScalerScaling_scale_daqmx_gen, py_scaler_get.
    destruct (scale_id <? 0) eqn:E; [apply Z.ltb_lt in E; lia|].
    destruct (SG.assoc_nat _ _); reflexivity.
Qed.

Theorem compute_raw rec objs raw :
  compute_scaled_data_gen sens rec (map Some objs) 4294967295 raw
  = sg_lift (match SG.rdata raw with None => SG.Err SG.EDaqmxSource | Some v => SG.Ok v end).
Proof. unfold compute_scaled_data_gen. cbn. destruct (SG.rdata raw); reflexivity. Qed.

End Scale.

(* ---- MultiScaling.scale = eval, for acyclic definitions --------------------------------------------------------- *)

Definition int_of_src (s : SG.src) : Z := match s with SG.Raw => 4294967295 | SG.Idx z => z end.

Lemma int_of_src_of_int z : int_of_src (SG.src_of_int z) = z.
Proof.
  unfold SG.src_of_int, SG.RAW_DATA_INPUT_SOURCE. destruct (z =? 4294967295) eqn:E; [apply Z.eqb_eq in E; subst z|]; reflexivity.
Qed.

Lemma compute_fuel_unfold sens n l z raw :
  compute_scaled_data_fuel sens n l z raw
  = compute_scaled_data_gen sens
      (fun z' r' => match n with O => Err EFuel | S f => compute_scaled_data_fuel sens f l z' r' end) l z raw.
Proof. destruct n; reflexivity. Qed.

Lemma src_okb_mono i j s : SG.src_okb i s = true -> (i <= j)%nat -> SG.src_okb j s = true.
Proof.
  destruct s as [|z]; [reflexivity|]. cbn. intros H Hij. apply andb_true_iff in H. destruct H as [H1 H2].
  apply andb_true_iff. split; [exact H1|]. apply Z.ltb_lt in H2. apply Z.ltb_lt. lia.
Qed.

Lemma wf_node_srcs i o zc :
  SG.wf_scalingb i (forget o) = true -> In zc (srcs o) -> SG.src_okb i (SG.src_of_int zc) = true.
Proof.
  destruct o; cbn [forget SG.wf_scalingb srcs In]; intros H Hin;
    repeat match goal with
           | H : _ \/ _ |- _ => destruct H
           | H : False |- _ => contradiction H
           | H : _ && _ = true |- _ => apply andb_true_iff in H; destruct H
           end; subst; assumption.
Qed.

Section Eval.
Variable sens : scaling_py -> SG.value -> res SG.value.
Variable objs : list scaling_py.
Variable raw : SG.rawdata.
Hypothesis Hids : Forall id_ok objs.
Hypothesis Hstr : Forall structural objs.
Hypothesis Hwf : SG.wf_graph (map forget objs).
(* the code compares an index with RAW_DATA_INPUT_SOURCE = 2^32 - 1 before it looks at the list: with 2^32
   scalings the last one would be taken for "raw data"; the model does not have this corner *)
Hypothesis Hlen : Z.of_nat (length objs) <= 4294967295.

Lemma compute_fuel_eq : forall i s n m,
  SG.src_okb i s = true -> (i <= n)%nat -> (i <= m)%nat -> (i <= length objs)%nat ->
  compute_scaled_data_fuel sens n (map Some objs) (int_of_src s) raw
  = sg_lift (SG.eval_src m (map forget objs) raw s).
Proof.
  induction i as [|i IH]; intros s n m Hs Hn Hm Hl.
  - destruct s as [|z]; [|cbn in Hs; apply andb_true_iff in Hs; destruct Hs as [H1 H2];
                          apply Z.leb_le in H1; apply Z.ltb_lt in H2; lia].
    rewrite compute_fuel_unfold, eval_src_raw. apply compute_raw.
  - destruct s as [|z]; [rewrite compute_fuel_unfold, eval_src_raw; apply compute_raw|].
    pose proof Hs as Hs'. cbn in Hs'. apply andb_true_iff in Hs'. destruct Hs' as [H1 H2].
    apply Z.leb_le in H1. apply Z.ltb_lt in H2.
    destruct n as [|n]; [lia|]. destruct m as [|m]; [lia|].
    rewrite compute_fuel_unfold, eval_src_S. cbn [int_of_src].
    apply compute_step; [lia|].
    intros o Ho.
    assert (Hnth : nth_error objs (Z.to_nat z) = Some o).
    { unfold SG.py_index in Ho. replace (0 <=? z) with true in Ho by (symmetry; apply Z.leb_le; lia). exact Ho. }
    assert (Hin : In o objs) by (eapply nth_error_In; exact Hnth).
    split; [exact (proj1 (Forall_forall _ _) Hids o Hin)|].
    split; [exact (proj1 (Forall_forall _ _) Hstr o Hin)|].
    intros zc Hzc.
    assert (Hwfo : SG.wf_scalingb (Z.to_nat z) (forget o) = true).
    { apply (Hwf (Z.to_nat z)). rewrite nth_error_map, Hnth. reflexivity. }
    pose proof (wf_node_srcs _ _ _ Hwfo Hzc) as Hc.
    rewrite <- (int_of_src_of_int zc) at 1.
    apply IH; [apply (src_okb_mono (Z.to_nat z)); [exact Hc|lia] | lia | lia | lia].
Qed.

Theorem scale_fuel_eq fuel : (length objs <= fuel)%nat ->
  MultiScaling_scale_fuel sens fuel (map Some objs) raw = sg_lift (SG.eval (map forget objs) raw).
Proof.
  intros Hf. unfold MultiScaling_scale_fuel, MultiScaling_scale_gen, SG.eval, SG.final_src.
  cbv zeta. rewrite !map_length.
  destruct objs as [|o r] eqn:Eo.
  - cbn. rewrite compute_fuel_unfold. reflexivity.
  - rewrite <- Eo in *.
    assert (Hpos : (0 < length objs)%nat) by (rewrite Eo; cbn; lia).
    change (Z.of_nat (length objs) - 1) with (int_of_src (SG.Idx (Z.of_nat (length objs) - 1))).
    rewrite (compute_fuel_eq (length objs) (SG.Idx (Z.of_nat (length objs) - 1)) fuel (S (length objs))); try lia.
    + destruct (SG.eval_src _ _ raw _); reflexivity.
    + cbn. apply andb_true_iff. split; [apply Z.leb_le|apply Z.ltb_lt]; lia.
Qed.

End Eval.

(* ---- the objects _get_channel_scaling builds carry natural scale ids ------------------------------------------ *)

Ltac innermost r := lazymatch r with bind ?r' _ => innermost r' | _ => r end.
Ltac inv_ok H :=
  cbv zeta in H; cbn [bind] in H;
  repeat match type of H with
         | bind ?r _ = Ok _ =>
             let r0 := innermost r in
             lazymatch r0 with
             | (if ?c then _ else _) => destruct c; cbv zeta in H; cbn [bind] in H
             | _ => destruct r0; cbv zeta in H; cbn [bind] in H; [|discriminate H]
             end
         | (if ?c then _ else _) = Ok _ => destruct c; try discriminate H
         | context [match ?x with pair _ _ => _ end] => destruct x
         | Ok _ = Ok _ => injection H as <-
         | Err _ = Ok _ => discriminate H
         end.

Lemma from_properties_id_ok p z o :
  NoOpScaling_from_properties_gen p z "AdvancedAPI" = Ok o \/ LinearScaling_from_properties_gen p z = Ok o \/
  PolynomialScaling_from_properties_gen p z = Ok o \/ RtdScaling_from_properties_gen p z = Ok o \/
  StrainScaling_from_properties_gen p z = Ok o \/ TableScaling_from_properties_gen p z = Ok o \/
  ThermistorScaling_from_properties_gen p z = Ok o \/ ThermocoupleScaling_from_properties_gen p z = Ok o \/
  AddScaling_from_properties_gen p z = Ok o \/ SubtractScaling_from_properties_gen p z = Ok o -> id_ok o.
Proof.
  intros H. repeat destruct H as [H|H].
  - unfold NoOpScaling_from_properties_gen, NoOpScaling_new_gen, NoOpScaling_init_gen in H. inv_ok H; exact I.
  - unfold LinearScaling_from_properties_gen, LinearScaling_new_gen, LinearScaling_init_gen in H. inv_ok H; exact I.
  - unfold PolynomialScaling_from_properties_gen, PolynomialScaling_new_gen, PolynomialScaling_init_gen in H. inv_ok H; exact I.
  - unfold RtdScaling_from_properties_gen, RtdScaling_new_gen, RtdScaling_init_gen in H. inv_ok H; exact I.
  - unfold StrainScaling_from_properties_gen, StrainScaling_new_gen, StrainScaling_init_gen in H. inv_ok H; exact I.
  - unfold TableScaling_from_properties_gen, TableScaling_new_gen, TableScaling_init_gen in H. inv_ok H; exact I.
  - unfold ThermistorScaling_from_properties_gen, ThermistorScaling_new_gen, ThermistorScaling_init_gen in H. inv_ok H; exact I.
  - unfold ThermocoupleScaling_from_properties_gen, ThermocoupleScaling_new_gen, ThermocoupleScaling_init_gen in H. inv_ok H; exact I.
  - unfold AddScaling_from_properties_gen, AddScaling_new_gen, AddScaling_init_gen in H. inv_ok H; exact I.
  - unfold SubtractScaling_from_properties_gen, SubtractScaling_new_gen, SubtractScaling_init_gen in H. inv_ok H; exact I.
Qed.

Lemma scaling_at_id_ok p z o : 0 <= z -> scaling_at_py p z = Ok (Some o) -> id_ok o.
Proof.
  intros Hz H. unfold scaling_at_py in H.
  destruct (SG.pget _ p) as [st|].
  - repeat match type of H with
           | (if ?c then _ else _) = _ =>
               destruct c; [match type of H with bind ?r _ = _ => destruct r eqn:E; cbn [bind] in H; [|discriminate H] end;
                            injection H as <-; apply (from_properties_id_ok p z); tauto|]
           end.
    discriminate H.
  - cbn in H. injection H as <-. exact Hz.
Qed.

Lemma build_py_id_ok p idxs l : build_py p idxs = Ok (Some l) -> Forall id_ok l.
Proof.
  revert l. induction idxs as [|i rest IH]; intros l H; cbn [build_py] in H.
  - injection H as <-. constructor.
  - destruct (scaling_at_py p (Z.of_nat i)) as [[x|]|e] eqn:E; cbn [bind] in H; try discriminate H.
    destruct (build_py p rest) as [[l'|]|e]; cbn [bind] in H; try discriminate H.
    injection H as <-. constructor; [apply (scaling_at_id_ok p (Z.of_nat i)); [lia|exact E]|apply IH; reflexivity].
Qed.

(* the result of the translated _get_channel_scaling is a fully set list of objects with natural scale ids *)
Theorem get_channel_scaling_objs p l :
  get_channel_scaling_gen p = Ok (Some l) -> exists objs, l = map Some objs /\ Forall id_ok objs.
Proof.
  unfold get_channel_scaling_gen. intros H.
  destruct (get_number_of_scalings_gen p) as [[n|]|e]; cbn [bind] in H; try discriminate H.
  destruct (n =? 0); [discriminate H|].
  destruct (pval_eq_str _ "scaled"); [discriminate H|].
  cbn [need bind] in H. rewrite py_range_seq in H.
  rewrite <- (app_nil_l (repeat None (Z.to_nat n))) in H.
  change (@nil (option scaling_py)) with (map (@Some scaling_py) []) in H.
  rewrite (loop_build p (Z.to_nat n) 0 [] eq_refl) in H.
  destruct (build_py p (seq 0 (Z.to_nat n))) as [[objs|]|e] eqn:E; cbn [bind app] in H; try discriminate H.
  destruct objs as [|x objs]; [discriminate H|]. cbn [map negb MultiScaling_init_gen bind] in H.
  injection H as <-. exists (x :: objs). split; [reflexivity|]. exact (build_py_id_ok p _ _ E).
Qed.

(* ---- composed: lookup through the three levels, and the scaled channel ------------------------------------------ *)

Lemma sg_lift_ok {A} (r : SG.res A) a : sg_lift r = Ok a -> r = SG.Ok a.
Proof. destruct r; cbn; intros H; [injection H as <-; reflexivity|discriminate H]. Qed.

Theorem get_scaling_eq2 c g f :
  view (get_scaling_gen _ get_channel_scaling_gen c g f) = sg_lift (SG.get_scaling c g f).
Proof.
  unfold get_scaling_gen, SG.get_scaling. cbn [py_first_some SG.first_scaling].
  pose proof (get_channel_scaling_eq c) as Hc. pose proof (get_channel_scaling_eq g) as Hg.
  pose proof (get_channel_scaling_eq f) as Hf.
  destruct (get_channel_scaling_gen c) as [[lc|]|ec]; cbn [bind view] in Hc |- *.
  - destruct (SG.get_channel_scaling c) as [[x|]|e]; destruct (all_some lc); cbn [sg_lift] in Hc |- *;
      try discriminate Hc; exact Hc.
  - destruct (SG.get_channel_scaling c) as [[x|]|e]; cbn [sg_lift] in Hc |- *; try discriminate Hc.
    destruct (get_channel_scaling_gen g) as [[lg|]|eg]; cbn [bind view] in Hg |- *.
    + destruct (SG.get_channel_scaling g) as [[x|]|e]; destruct (all_some lg); cbn [sg_lift] in Hg |- *;
        try discriminate Hg; exact Hg.
    + destruct (SG.get_channel_scaling g) as [[x|]|e]; cbn [sg_lift] in Hg |- *; try discriminate Hg.
      destruct (get_channel_scaling_gen f) as [[lf|]|ef]; cbn [bind view] in Hf |- *.
      * destruct (SG.get_channel_scaling f) as [[x|]|e]; destruct (all_some lf); cbn [sg_lift] in Hf |- *;
          try discriminate Hf; exact Hf.
      * destruct (SG.get_channel_scaling f) as [[x|]|e]; cbn [sg_lift] in Hf |- *; try discriminate Hf; reflexivity.
      * destruct (SG.get_channel_scaling f) as [[x|]|e]; cbn [sg_lift] in Hf |- *; try discriminate Hf; exact Hf.
    + destruct (SG.get_channel_scaling g) as [[x|]|e]; cbn [sg_lift] in Hg |- *; try discriminate Hg; exact Hg.
  - destruct (SG.get_channel_scaling c) as [[x|]|e]; cbn [sg_lift] in Hc |- *; try discriminate Hc; exact Hc.
Qed.

(* what the translated construction returns is the model's graph, and evaluating it is the model's eval *)
Theorem scaled_channel_eq p l :
  get_channel_scaling_gen p = Ok (Some l) ->
  exists objs, l = map Some objs /\ SG.get_channel_scaling p = SG.Ok (Some (map forget objs)) /\
    (Forall structural objs -> SG.wf_graph (map forget objs) -> Z.of_nat (length objs) <= 4294967295 ->
     forall sens raw fuel, (length objs <= fuel)%nat ->
       MultiScaling_scale_fuel sens fuel l raw = sg_lift (SG.eval (map forget objs) raw)).
Proof.
  intros H. destruct (get_channel_scaling_objs p l H) as (objs & -> & Hid). exists objs.
  split; [reflexivity|]. split.
  - pose proof (get_channel_scaling_eq p) as E. rewrite H in E. cbn [view] in E. rewrite all_some_map in E.
    symmetry in E. exact (sg_lift_ok _ _ E).
  - intros Hstr Hwf Hlen sens raw fuel Hf. apply scale_fuel_eq; assumption.
Qed.

(* eval_is_dataflow (Props/C13.v) on the translated evaluator *)
Theorem eval_is_dataflow_gen sens objs raw v fuel :
  Forall id_ok objs -> Forall structural objs -> SG.wf_graph (map forget objs) ->
  Z.of_nat (length objs) <= 4294967295 -> (length objs <= fuel)%nat ->
  (MultiScaling_scale_fuel sens fuel (map Some objs) raw = Ok v
   <-> SG.flows (map forget objs) raw (SG.final_src (map forget objs)) v).
Proof.
  intros Hid Hstr Hwf Hlen Hf. rewrite (scale_fuel_eq sens objs raw Hid Hstr Hwf Hlen fuel Hf).
  rewrite <- (eval_is_dataflow_proof _ raw v Hwf).
  split; [apply sg_lift_ok|intros ->; reflexivity].
Qed.

(* ---- ThermocoupleScaling.__init__: WHICH code is WHICH thermocouple (NI's enumeration of thermocouple types) ----- *)

Definition ni_type_code (T : tctype) : Z :=
  match T with
  | TB => 10047 | TE => 10055 | TJ => 10072 | TK => 10073 | TN => 10077 | TR => 10082 | TS => 10085 | TT => 10086
  end.

Theorem thermocouple_type_table code dir z :
  ThermocoupleScaling_new_gen code dir z
  = match find (fun T => ni_type_code T =? code) all_types with
    | Some T => Ok (PyThermocoupleScaling T dir z)
    | None => Err EKey
    end.
Proof.
  unfold ThermocoupleScaling_new_gen, ThermocoupleScaling_init_gen, all_types. cbv zeta.
  cbn [py_zdict_get find ni_type_code]. rewrite !(Z.eqb_sym code).
  repeat (match goal with |- context [?k =? code] => destruct (k =? code) end; [reflexivity|]). reflexivity.
Qed.
