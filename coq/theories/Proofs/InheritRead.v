(* C02, end to end: the WHOLE read (objects, order, lengths, properties and every
   data value) of a file whose segments inherit / abbreviate their metadata
   equals the read of its fully explicit re-encoding.

   Composition of
     SegStateExplicit.inheritance_transparent_listed_once  (metadata pass)
     ReadCorrect.read_correct                              (values)
   The new ingredients proved here:
     A  [sm_run_fields_wf]     every object the metadata pass of a well-formed
                               file keeps has field values that fit the widths
                               of a restated raw data index (they were read
                               from fields of those widths earlier);
     B  [wf_file_explicit]     hence the explicit re-encoding is a well-formed
                               file syntax, PROVIDED it fits the container
                               ([explicit_fits]: number of restated objects
                               < 2^32 and metadata + raw data < 2^64 - 1 per
                               segment; the explicit metadata is longer than
                               the abbreviated one, so this cannot be derived);
     C  [seg_encodes_sim], [segs_encode_explicit]
                               the raw data blocks are untouched and encode the
                               same chunks for the segment records of the
                               explicit run (same object lists, same layout,
                               same byte order);
     D  [expected_tokens_same_reading]
                               the observation does not look at what differs
                               between the two runs (segment positions, the
                               two ToC flags the explicit form sets);
     E  [inheritance_transparent_read], [same_explicit_same_read]. *)
From Coq Require Import List ZArith Bool Lia ZifyBool.
From Coq Require Import Init.Byte.
Import ListNotations.
From NpTdms Require Import Base.Bytes Base.Res Model.Tokens Model.TokensWf Model.SegState
     Model.Layout Model.Reader Model.FileSyn Proofs.SegStateProofs Proofs.SegStateInherit
     Proofs.FileSynProofs Proofs.LayoutProofs Proofs.ReadCorrect Proofs.SegStateExplicit.
Local Open Scope Z_scope.
Ltac Zify.zify_post_hook ::= Z.to_euclidean_division_equations.

(* ======================================================================== *)
(* A. field widths of the objects the state machine keeps                     *)
(* ======================================================================== *)

(* the path fits a length-prefixed string and the full index that restates the
   object's fields (whatever its current has_data flag) is well formed *)
Definition fields_wf (o : sobj) : Prop :=
  is_u32 (blen (so_path o)) = true /\ wf_idx (idx_of (set_has_data o true)) = true.

Lemma set_has_data_twice o b c : set_has_data (set_has_data o b) c = set_has_data o c.
Proof. destruct o; reflexivity. Qed.

Lemma fields_wf_set o b : fields_wf o -> fields_wf (set_has_data o b).
Proof.
  intros [H1 H2]. unfold fields_wf. rewrite set_has_data_twice, set_has_data_path.
  split; assumption.
Qed.

Lemma fields_wf_idx o : fields_wf o -> wf_idx (idx_of o) = true.
Proof.
  intros [_ H]. destruct (so_has_data o) eqn:E.
  - rewrite (set_has_data_same o true E) in H. exact H.
  - unfold idx_of. rewrite E. reflexivity.
Qed.

Lemma fields_wf_blank p : is_u32 (blen p) = true -> fields_wf (blank p).
Proof. intros H. split; [exact H|reflexivity]. Qed.

(* what a full index of well-formed field values defines has well-formed fields *)
Lemma new_object_fields_wf p i o :
  is_u32 (blen p) = true -> wf_idx i = true -> new_object p i = Ok o -> fields_wf o.
Proof.
  intros Hp Hi H. unfold new_object in H.
  destruct i as [| |lf dt dim n total|kind dt dim n scalers widths].
  - injection H as <-. apply fields_wf_blank. exact Hp.
  - injection H as <-. apply fields_wf_blank. exact Hp.
  - destruct (tds_size dt) as [sz|] eqn:Esz; [|discriminate].
    destruct (_ && negb (dt =? T_STRING)) eqn:Eand; [discriminate|].
    destruct (negb (dim =? 1)) eqn:Edim; [discriminate|].
    injection H as <-. split; [exact Hp|].
    unfold idx_of, set_has_data.
    cbn [so_has_data so_dtype so_daqmx so_nvals so_dsize so_path]. cbv zeta.
    destruct (dt =? T_STRING) eqn:Es.
    + assert (Hdt : dt = T_STRING) by lia. subst dt.
      vm_compute in Esz. injection Esz as <-.
      destruct total as [t|].
      * unfold wf_idx, is_u32, is_u64, T_STRING, RAW_DATA_INDEX_NO_DATA,
          RAW_DATA_INDEX_MATCHES_PREVIOUS, FORMAT_CHANGING_SCALER, DIGITAL_LINE_SCALER in *. lia.
      * unfold wf_idx, T_STRING in Hi. lia.
    + unfold wf_idx, is_u32, is_u64, T_STRING, RAW_DATA_INDEX_NO_DATA,
        RAW_DATA_INDEX_MATCHES_PREVIOUS, FORMAT_CHANGING_SCALER, DIGITAL_LINE_SCALER in *.
      destruct total as [t|]; lia.
  - destruct (tds_size dt) as [sz|]; [|discriminate].
    destruct (negb (dim =? 1)) eqn:Edim; [discriminate|].
    destruct (negb (forallb _ scalers)); [discriminate|].
    destruct (_ && _); [discriminate|].
    injection H as <-. split; [exact Hp|].
    unfold idx_of, set_has_data.
    cbn [so_has_data so_dtype so_daqmx so_nvals so_dsize so_path dq_kind dq_scalers dq_widths].
    assert (Hd : dim = 1) by lia. subst dim. exact Hi.
Qed.

Lemma update_existing_fields_wf o i o' :
  wf_idx i = true -> fields_wf o -> update_existing o i = Ok o' -> fields_wf o'.
Proof.
  intros Hi Ho H. unfold update_existing in H.
  destruct i as [| |lf dt dim n total|kind dt dim n scalers widths].
  - injection H as <-. destruct (so_has_data o); [apply fields_wf_set|]; exact Ho.
  - injection H as <-. destruct (so_has_data o); [|apply fields_wf_set]; exact Ho.
  - exact (new_object_fields_wf _ _ _ (proj1 Ho) Hi H).
  - exact (new_object_fields_wf _ _ _ (proj1 Ho) Hi H).
Qed.

Lemma step_entry_fields_wf base prev ordered x ordered' :
  is_u32 (blen (e_path x)) = true -> wf_idx (e_idx x) = true ->
  (forall b, base = Some b -> Forall fields_wf b) ->
  (forall p po, alookup p prev = Some po -> fields_wf po) ->
  step_entry base prev ordered x = Ok ordered' ->
  Forall fields_wf ordered -> Forall fields_wf ordered'.
Proof.
  intros Hp Hi Hbase Hprev H HF. unfold step_entry in H.
  destruct (match base with Some b => existing_lookup (e_path x) 0 b None | None => None end)
    as [[i o]|] eqn:E.
  - destruct base as [b|]; [|discriminate].
    apply existing_lookup_some in E. destruct E as (_ & Hnth & _).
    apply nth_error_In in Hnth.
    pose proof (Hbase b eq_refl) as Hb. rewrite Forall_forall in Hb.
    destruct (update_existing o (e_idx x)) as [o'|e] eqn:Eu; cbn [bind] in H; [|discriminate].
    injection H as <-. apply Forall_replace_nth; [exact HF|].
    exact (update_existing_fields_wf o _ o' Hi (Hb o Hnth) Eu).
  - destruct (alookup (e_path x) prev) as [po|] eqn:Ep.
    + destruct (reuse_previous po (e_idx x)) as [o'|e] eqn:Eu; cbn [bind] in H; [|discriminate].
      injection H as <-. apply Forall_app. split; [exact HF|]. constructor; [|constructor].
      exact (update_existing_fields_wf po _ o' Hi (Hprev _ _ Ep) Eu).
    + assert (Hn : exists o', new_object (e_path x) (e_idx x) = Ok o' /\ ordered' = ordered ++ [o']).
      { destruct (e_idx x) as [| |lf dt dim n total|kind dt dim n scalers widths] eqn:Ei.
        - destruct (new_object (e_path x) INoData) as [o'|e] eqn:En; cbn [bind] in H; [|discriminate].
          injection H as <-. exists o'. split; reflexivity.
        - discriminate.
        - destruct (new_object (e_path x) (IFull lf dt dim n total)) as [o'|e] eqn:En;
            cbn [bind] in H; [|discriminate].
          injection H as <-. exists o'. split; reflexivity.
        - destruct (new_object (e_path x) (IDaqmx kind dt dim n scalers widths)) as [o'|e] eqn:En;
            cbn [bind] in H; [|discriminate].
          injection H as <-. exists o'. split; reflexivity. }
      destruct Hn as (o' & En & ->).
      apply Forall_app. split; [exact HF|]. constructor; [|constructor].
      exact (new_object_fields_wf _ _ _ Hp Hi En).
Qed.

Lemma fold_entries_fields_wf base prev :
  (forall b, base = Some b -> Forall fields_wf b) ->
  (forall p po, alookup p prev = Some po -> fields_wf po) ->
  forall es ordered r,
    forallb wf_entry es = true ->
    fold_entries base prev ordered es = Ok r -> Forall fields_wf ordered -> Forall fields_wf r.
Proof.
  intros Hbase Hprev. induction es as [|x es IH]; intros ordered r Hes H HF.
  - cbn [fold_entries] in H. injection H as <-. exact HF.
  - cbn [fold_entries] in H. cbn [forallb] in Hes. apply andb_prop in Hes. destruct Hes as [Hx Hes].
    destruct (step_entry base prev ordered x) as [o'|e] eqn:Es; cbn [bind] in H; [|discriminate].
    apply (IH o' r Hes H).
    unfold wf_entry in Hx. rewrite !andb_true_iff in Hx. destruct Hx as [[[Hx1 Hx2] _] _].
    apply (step_entry_fields_wf base prev ordered x o'); assumption.
Qed.

Lemma read_segment_objects_fields_wf toc md prev ps objs props :
  match md with Some es => forallb wf_entry es = true | None => True end ->
  (forall l, ps = Some l -> Forall fields_wf l) ->
  (forall p po, alookup p prev = Some po -> fields_wf po) ->
  read_segment_objects toc md prev ps = Ok (objs, props) ->
  Forall fields_wf objs.
Proof.
  intros Hmd Hps Hprev H. unfold read_segment_objects in H.
  destruct md as [es|].
  - cbv zeta in H.
    destruct (fold_entries _ prev _ es) as [ordered|e] eqn:Ef; cbn [bind] in H; [|discriminate].
    injection H as <- _.
    refine (fold_entries_fields_wf _ prev _ Hprev es _ ordered Hmd Ef _).
    + intros b Hb. destruct (toc_has toc TOC_NEWLIST); [discriminate|]. exact (Hps b Hb).
    + destruct (toc_has toc TOC_NEWLIST); [constructor|].
      destruct ps as [l|]; [|constructor]. exact (Hps l eq_refl).
  - destruct ps as [l|]; [|discriminate]. injection H as <- _. exact (Hps l eq_refl).
Qed.

Lemma wf_fseg_entries s :
  wf_fseg s = true ->
  match fs_meta s with Some es => forallb wf_entry es = true | None => True end.
Proof.
  intros H. unfold wf_fseg in H. destruct (fs_meta s) as [es|]; [|exact I].
  unfold wf_metadata in H. rewrite !andb_true_iff in H. apply H.
Qed.

Lemma sm_loop_fields_wf : forall segs w pos ps pi st stf,
    sm_loop segs w pos ps pi st = Ok stf ->
    wf_file segs ->
    (forall p po, alookup p (rs_prev_objs st) = Some po -> fields_wf po) ->
    (forall l, ps = Some l -> Forall fields_wf l) ->
    (forall g, In g (rs_segments st) -> Forall fields_wf (sg_objs g)) ->
    forall g, In g (rs_segments stf) -> Forall fields_wf (sg_objs g).
Proof.
  induction segs as [|s r IH]; intros w pos ps pi st stf H Hwf Hprev Hps Hsegs.
  - rewrite sm_loop_nil in H. injection H as <-. exact Hsegs.
  - apply ReadCorrect.sm_loop_cons_inv in H.
    destruct H as (objs & props & idx & cache & nch & fin & po & om & Hro & Hcc & Hum & Hloop).
    unfold wf_file in Hwf. cbn [forallb] in Hwf. apply andb_prop in Hwf. destruct Hwf as [Hs Hwf].
    assert (Hobjs : Forall fields_wf objs).
    { apply (read_segment_objects_fields_wf _ _ _ _ _ _ (wf_fseg_entries s Hs) Hps Hprev Hro). }
    apply (IH _ _ _ _ _ _ Hloop Hwf); cbn [rs_prev_objs rs_segments].
    + apply (update_object_metadata_values fields_wf _ _ _ _ _ _ _ Hum Hprev Hobjs).
    + intros l Hl. injection Hl as <-. exact Hobjs.
    + intros g Hg. apply in_app_or in Hg. destruct Hg as [Hg|[<-|[]]].
      * exact (Hsegs g Hg).
      * exact Hobjs.
Qed.

Theorem sm_run_fields_wf segs w st :
  wf_file segs -> sm_run segs w = Ok st ->
  Forall (Forall fields_wf) (map sg_objs (rs_segments st)).
Proof.
  unfold sm_run. intros Hwf H. apply Forall_forall. intros objs Hin.
  apply in_map_iff in Hin. destruct Hin as (g & <- & Hg).
  apply (sm_loop_fields_wf segs w 0 None [] rstate0 st H Hwf); cbn [rstate0 rs_prev_objs rs_segments].
  - intros p po Hp. discriminate Hp.
  - intros l Hl. discriminate Hl.
  - intros g0 [].
  - exact Hg.
Qed.

(* ======================================================================== *)
(* B. the explicit re-encoding is a well-formed file syntax                   *)
(* ======================================================================== *)

Lemma lor_u32 a b :
  0 <= a < 4294967296 -> 0 <= b < 4294967296 -> 0 <= Z.lor a b < 4294967296.
Proof.
  intros Ha Hb.
  assert (Hnn : 0 <= Z.lor a b) by (apply Z.lor_nonneg; lia).
  split; [exact Hnn|].
  destruct (Z.eq_dec (Z.lor a b) 0) as [E|E]; [rewrite E; lia|].
  change 4294967296 with (2 ^ 32). apply Z.log2_lt_pow2; [lia|].
  rewrite Z.log2_lor by lia.
  assert (Hl : forall x, 0 <= x < 4294967296 -> Z.log2 x < 32).
  { intros x Hx. destruct (Z.eq_dec x 0) as [->|Hx0]; [vm_compute; reflexivity|].
    apply Z.log2_lt_pow2; [lia|]. change (2 ^ 32) with 4294967296. lia. }
  apply Z.max_lub_lt; apply Hl; assumption.
Qed.

Lemma explicit_toc_u32 toc : is_u32 toc = true -> is_u32 (explicit_toc toc) = true.
Proof.
  intros H. unfold explicit_toc, TOC_META, TOC_NEWLIST.
  assert (H1 : 0 <= Z.lor toc 2 < 4294967296) by (apply lor_u32; unfold is_u32 in H; lia).
  assert (H2 : 0 <= Z.lor (Z.lor toc 2) 4 < 4294967296) by (apply lor_u32; lia).
  unfold is_u32. lia.
Qed.

(* where a collected property list comes from *)
Lemma listed_props_origin k : forall es cur ps,
  listed_props k es cur = Some ps ->
  cur = Some ps \/ exists x, In x es /\ e_props x = ps.
Proof.
  induction es as [|x es IH]; intros cur ps H; cbn [listed_props] in H; [left; exact H|].
  apply IH in H. destruct H as [H|(y & Hy & Hps)].
  - destruct (bytes_eqb k (e_path x)); [|left; exact H].
    destruct (e_props x) as [|p q] eqn:Ep; [left; exact H|].
    injection H as <-. right. exists x. split; [left; reflexivity|exact Ep].
  - right. exists y. split; [right; exact Hy|exact Hps].
Qed.

Lemma props_of_meta_wf md k :
  match md with Some es => forallb wf_entry es = true | None => True end ->
  len_u32 (props_of (meta_props md) k) = true /\
  forallb wf_prop (props_of (meta_props md) k) = true.
Proof.
  intros Hmd. unfold props_of.
  destruct (alookup k (meta_props md)) as [ps|] eqn:E; [|split; reflexivity].
  destruct md as [es|]; [|discriminate E].
  unfold meta_props in E. rewrite alookup_collect_props in E. cbn [alookup] in E.
  destruct (listed_props_origin k es None ps E) as [H|(x & Hx & <-)]; [discriminate H|].
  rewrite forallb_forall in Hmd. specialize (Hmd x Hx). unfold wf_entry in Hmd.
  rewrite !andb_true_iff in Hmd. split; apply Hmd.
Qed.

Lemma explicit_entries_wf md objs :
  match md with Some es => forallb wf_entry es = true | None => True end ->
  Forall fields_wf objs ->
  forallb wf_entry (explicit_entries_p (meta_props md) objs) = true.
Proof.
  intros Hmd HF. apply forallb_forall. intros x Hx.
  unfold explicit_entries_p in Hx. apply in_map_iff in Hx. destruct Hx as (o & <- & Ho).
  rewrite Forall_forall in HF. specialize (HF o Ho).
  destruct (props_of_meta_wf md (so_path o) Hmd) as [H1 H2].
  unfold wf_entry. cbn [e_path e_idx e_props].
  rewrite (proj1 HF), (fields_wf_idx o HF), H1, H2. reflexivity.
Qed.

(* the container limits the explicit form must respect: the number of restated
   objects is stored in 4 bytes, and the next-segment offset in 8 bytes (and
   must not be the "unknown length" marker) *)
Definition seg_fits (s : fseg) : Prop :=
  match fs_meta s with Some es => len_u32 es = true | None => True end /\
  blen (fs_meta_bytes s) + blen (fs_data s) < 0xFFFFFFFFFFFFFFFF.

Definition explicit_fits (segs : list fseg) (objss : list (list sobj)) : Prop :=
  Forall seg_fits (explicit_segs segs objss).

Definition seg_fitsb (s : fseg) : bool :=
  match fs_meta s with Some es => len_u32 es | None => true end &&
  (blen (fs_meta_bytes s) + blen (fs_data s) <? 0xFFFFFFFFFFFFFFFF).

Lemma explicit_fitsb_sound segs objss :
  forallb seg_fitsb (explicit_segs segs objss) = true -> explicit_fits segs objss.
Proof.
  intros H. unfold explicit_fits. apply Forall_forall. intros s Hs.
  rewrite forallb_forall in H. specialize (H s Hs). unfold seg_fitsb, seg_fits in *.
  apply andb_true_iff in H. destruct H as [H1 H2]. apply Z.ltb_lt in H2.
  split; [|exact H2]. destruct (fs_meta s); [exact H1|exact I].
Qed.

Lemma wf_fseg_explicit s objs :
  wf_fseg s = true -> Forall fields_wf objs -> seg_fits (explicit_seg s objs) ->
  wf_fseg (explicit_seg s objs) = true.
Proof.
  intros Hs HF [Hlen Hsize].
  pose proof (explicit_entries_wf (fs_meta s) objs (wf_fseg_entries s Hs) HF) as Hes.
  apply wf_fseg_spec in Hs. destruct Hs as (Ht & Hv & _ & _).
  apply wf_fseg_spec. unfold wf_fseg_P.
  change (fs_meta (explicit_seg s objs))
    with (Some (explicit_entries_p (meta_props (fs_meta s)) objs)) in *.
  change (fs_toc (explicit_seg s objs)) with (explicit_toc (fs_toc s)).
  change (fs_version (explicit_seg s objs)) with (fs_version s).
  split; [|split; [exact Hv|split; [exact Hsize|split; [apply explicit_toc_meta|]]]].
  - pose proof (explicit_toc_u32 (fs_toc s)) as H. unfold is_u32 in H. lia.
  - unfold wf_metadata. rewrite Hlen, Hes. reflexivity.
Qed.

Lemma wf_file_explicit_gen : forall segs objss,
  wf_file segs -> Forall (Forall fields_wf) objss -> explicit_fits segs objss ->
  wf_file (explicit_segs segs objss).
Proof.
  unfold wf_file, explicit_fits.
  induction segs as [|s r IH]; intros [|objs ro] Hwf HF Hfit; cbn [explicit_segs forallb]; try reflexivity.
  cbn [forallb] in Hwf. apply andb_prop in Hwf. destruct Hwf as [Hs Hwf].
  apply Forall_cons_iff in HF. destruct HF as [Ho HF].
  cbn [explicit_segs] in Hfit. apply Forall_cons_iff in Hfit. destruct Hfit as [Hf Hfit].
  rewrite (wf_fseg_explicit s objs Hs Ho Hf). cbn [andb]. exact (IH ro Hwf HF Hfit).
Qed.

Theorem wf_file_explicit segs w st :
  wf_file segs -> sm_run segs w = Ok st ->
  explicit_fits segs (map sg_objs (rs_segments st)) ->
  wf_file (explicit_segs segs (map sg_objs (rs_segments st))).
Proof.
  intros Hwf Hrun Hfit. apply wf_file_explicit_gen; [exact Hwf| |exact Hfit].
  exact (sm_run_fields_wf segs w st Hwf Hrun).
Qed.

(* ======================================================================== *)
(* C. the raw data blocks encode the same chunks for the explicit run         *)
(* ======================================================================== *)

(* what the data pass and the observation look at in a segment record, apart
   from the positions *)
Definition seg_sim (g g' : segment) : Prop :=
  sg_objs g' = sg_objs g /\ sg_nchunks g' = sg_nchunks g /\ sg_final g' = sg_final g /\
  sg_incomplete g' = sg_incomplete g /\ sg_toc g' = explicit_toc (sg_toc g).

Lemma maps_seg_sim : forall l l' : list segment,
  map sg_objs l' = map sg_objs l ->
  map sg_nchunks l' = map sg_nchunks l ->
  map sg_final l' = map sg_final l ->
  map sg_incomplete l' = map sg_incomplete l ->
  map sg_toc l' = map explicit_toc (map sg_toc l) ->
  Forall2 seg_sim l l'.
Proof.
  induction l as [|g l IH]; intros [|g' l'] H1 H2 H3 H4 H5; cbn [map] in *; try discriminate.
  - constructor.
  - injection H1 as E1 H1. injection H2 as E2 H2. injection H3 as E3 H3.
    injection H4 as E4 H4. injection H5 as E5 H5.
    constructor; [|exact (IH l' H1 H2 H3 H4 H5)].
    unfold seg_sim. repeat split; assumption.
Qed.

Lemma same_reading_sim st st' :
  same_reading st st' -> Forall2 seg_sim (rs_segments st) (rs_segments st').
Proof.
  intros (H1 & _ & H3 & H4 & _ & H6 & H7 & _). apply maps_seg_sim; assumption.
Qed.

Lemma seg_layout_sim g g' : seg_sim g g' -> seg_layout g' = seg_layout g.
Proof.
  intros (Ho & _ & _ & _ & Ht). unfold seg_layout, have_interleaved.
  rewrite Ho, Ht, explicit_toc_interleaved. reflexivity.
Qed.

Lemma seg_encodes_sim g g' data chunks :
  seg_sim g g' -> seg_encodes g data chunks -> seg_encodes g' data chunks.
Proof.
  intros Hsim Henc. pose proof (seg_layout_sim g g' Hsim) as Hlay'.
  destruct Hsim as (Ho & _ & _ & _ & Ht).
  assert (He : toc_endian (sg_toc g') = toc_endian (sg_toc g)) by (rewrite Ht; apply explicit_toc_endian).
  destruct Henc as [Hd Hdata | css Hlay Hpos Hnd Hok Hds Hdata
                    | nv m rows Hlay Hne Hnv Hm Hobjs Hsz Hnd Hrows Hlen Hdata].
  - apply se_empty; [rewrite Ho; exact Hd|exact Hdata].
  - rewrite <- Ho. apply se_contig; rewrite ?Ho, ?He, ?Hlay'; assumption.
  - rewrite <- Ho. apply (se_interleaved g' data nv m rows); rewrite ?Ho, ?He, ?Hlay'; assumption.
Qed.

Lemma segs_encode_explicit : forall gs segs chunkss,
  segs_encode gs segs chunkss ->
  forall gs', Forall2 seg_sim gs gs' ->
  segs_encode gs' (explicit_segs segs (map sg_objs gs)) chunkss.
Proof.
  induction 1 as [|g gs s r cs css Hg Hrest IH]; intros gs' Hsim.
  - inversion Hsim. subst. constructor.
  - inversion Hsim as [|g0 g' gs0 gs'0 Hgg Hgs]. subst.
    cbn [map explicit_segs]. constructor; [|exact (IH _ Hgs)].
    change (fs_data (explicit_seg s (sg_objs g))) with (fs_data s).
    exact (seg_encodes_sim g g' _ _ Hgg Hg).
Qed.

(* ======================================================================== *)
(* D. the observation does not see the differences                            *)
(* ======================================================================== *)

Lemma Forall2_rev' {A B} (R : A -> B -> Prop) l l' :
  Forall2 R l l' -> Forall2 R (rev l) (rev l').
Proof.
  induction 1 as [|x y l l' Hxy Hl IH]; cbn [rev]; [constructor|].
  apply Forall2_app; [exact IH|]. constructor; [exact Hxy|constructor].
Qed.

Lemma obs_status_same_reading st st' : same_reading st st' -> obs_status st' = obs_status st.
Proof.
  intros H. pose proof (Forall2_rev' _ _ _ (same_reading_sim st st' H)) as Hr.
  unfold obs_status.
  destruct Hr as [|g g' l l' (Ho & _ & Hf & Hi & _) _]; [reflexivity|].
  rewrite Ho, Hf, Hi. reflexivity.
Qed.

Lemma expected_tokens_same_reading st st' h chunks :
  same_reading st st' -> expected_tokens st' h chunks = expected_tokens st h chunks.
Proof.
  intros H. unfold expected_tokens. rewrite (obs_status_same_reading st st' H).
  destruct H as (_ & _ & _ & _ & _ & _ & _ & _ & _ & Hv). rewrite Hv. reflexivity.
Qed.

(* ======================================================================== *)
(* E. the whole read                                                          *)
(* ======================================================================== *)

(* the object lists the metadata pass computes for the segments of [segs] *)
Definition object_lists (st : rstate) : list (list sobj) := map sg_objs (rs_segments st).

(* the fully explicit re-encoding of an accepted file syntax *)
Definition explicit_of (segs : list fseg) (st : rstate) : list fseg :=
  explicit_segs segs (object_lists st).

(* "data objects have a data type": excludes the corner "no data, then matches
   previous, for an object that never had an index" (DESIGN 13.2) *)
Definition data_objects_typed (st : rstate) : Prop :=
  Forall (fun g => forall o, In o (sg_objs g) -> so_has_data o = true -> so_dtype o <> None)
         (rs_segments st).

Lemma object_lists_nodup segs w st :
  sm_run segs w = Ok st -> Forall listed_once segs ->
  Forall (fun objs => NoDup (map so_path objs)) (object_lists st).
Proof.
  intros Hrun Hl. unfold sm_run in Hrun.
  pose proof (sm_loop_nodup segs w 0 None [] rstate0 st (rs_segments st) Hrun eq_refl
                            prev_keys_ok_nil) as Hn.
  unfold object_lists. apply Forall_forall. intros objs Hin.
  apply in_map_iff in Hin. destruct Hin as (g & <- & Hg).
  assert (HF : Forall (fun g => NoDup (map so_path (sg_objs g))) (rs_segments st)).
  { apply Hn; [intros b Hb; discriminate Hb|exact Hl]. }
  rewrite Forall_forall in HF. exact (HF g Hg).
Qed.

Theorem explicit_read_hypotheses segs st h chunkss :
  wf_file segs ->
  sm_run segs false = Ok st ->
  build_hierarchy (rs_om st) = Ok h ->
  segs_encode (rs_segments st) segs chunkss ->
  om_paths_canonical (rs_om st) ->
  typed_objects_are_channels (rs_om st) ->
  Forall listed_once segs ->
  data_objects_typed st ->
  explicit_fits segs (object_lists st) ->
  exists st',
    wf_file (explicit_of segs st) /\
    sm_run (explicit_of segs st) false = Ok st' /\
    same_reading st st' /\
    build_hierarchy (rs_om st') = Ok h /\
    segs_encode (rs_segments st') (explicit_of segs st) chunkss /\
    om_paths_canonical (rs_om st') /\
    typed_objects_are_channels (rs_om st') /\
    Forall listed_once (explicit_of segs st) /\
    expected_tokens st' h (concat chunkss) = expected_tokens st h (concat chunkss).
Proof.
  intros Hwf Hrun Hh Henc Hcan Hty Hl Hdt Hfit.
  destruct (inheritance_transparent_listed_once segs false st Hrun Hl Hdt) as (st' & Hrun' & Hsame).
  exists st'.
  pose proof Hsame as (_ & _ & _ & _ & _ & _ & _ & Hom & _ & _).
  split; [exact (wf_file_explicit segs false st Hwf Hrun Hfit)|].
  split; [exact Hrun'|]. split; [exact Hsame|].
  split; [rewrite Hom; exact Hh|].
  split; [exact (segs_encode_explicit _ _ _ Henc _ (same_reading_sim st st' Hsame))|].
  split; [rewrite Hom; exact Hcan|]. split; [rewrite Hom; exact Hty|].
  split; [|exact (expected_tokens_same_reading st st' h _ Hsame)].
  pose proof (object_lists_nodup segs false st Hrun Hl) as Hnd.
  pose proof (explicit_segs_shape segs (object_lists st) Hnd) as Hshape.
  apply Forall_forall. intros s Hs. rewrite Forall_forall in Hshape. exact (proj1 (Hshape s Hs)).
Qed.

Theorem inheritance_transparent_read segs st h chunkss :
  wf_file segs ->
  sm_run segs false = Ok st ->
  build_hierarchy (rs_om st) = Ok h ->
  segs_encode (rs_segments st) segs chunkss ->
  om_paths_canonical (rs_om st) ->
  typed_objects_are_channels (rs_om st) ->
  Forall listed_once segs ->
  data_objects_typed st ->
  explicit_fits segs (object_lists st) ->
  rd_all (ser_file (explicit_of segs st)) = Ok (expected_tokens st h (concat chunkss), true) /\
  rd_all (ser_file segs) = Ok (expected_tokens st h (concat chunkss), true).
Proof.
  intros Hwf Hrun Hh Henc Hcan Hty Hl Hdt Hfit.
  split; [|exact (read_correct segs st h chunkss Hwf Hrun Hh Henc Hcan Hty)].
  destruct (explicit_read_hypotheses segs st h chunkss Hwf Hrun Hh Henc Hcan Hty Hl Hdt Hfit)
    as (st' & Hwf' & Hrun' & _ & Hh' & Henc' & Hcan' & Hty' & _ & Htok).
  rewrite <- Htok.
  exact (read_correct _ st' h chunkss Hwf' Hrun' Hh' Henc' Hcan' Hty').
Qed.

Corollary inheritance_transparent_read_eq segs st h chunkss :
  wf_file segs ->
  sm_run segs false = Ok st ->
  build_hierarchy (rs_om st) = Ok h ->
  segs_encode (rs_segments st) segs chunkss ->
  om_paths_canonical (rs_om st) ->
  typed_objects_are_channels (rs_om st) ->
  Forall listed_once segs ->
  data_objects_typed st ->
  explicit_fits segs (object_lists st) ->
  rd_all (ser_file (explicit_of segs st)) = rd_all (ser_file segs).
Proof.
  intros Hwf Hrun Hh Henc Hcan Hty Hl Hdt Hfit.
  destruct (inheritance_transparent_read segs st h chunkss Hwf Hrun Hh Henc Hcan Hty Hl Hdt Hfit)
    as [H1 H2].
  rewrite H1, H2. reflexivity.
Qed.

(* two valid abbreviation choices of the same content read the same *)
Corollary same_explicit_same_read segs1 st1 h1 chunkss1 segs2 st2 h2 chunkss2 :
  wf_file segs1 -> sm_run segs1 false = Ok st1 -> build_hierarchy (rs_om st1) = Ok h1 ->
  segs_encode (rs_segments st1) segs1 chunkss1 ->
  om_paths_canonical (rs_om st1) -> typed_objects_are_channels (rs_om st1) ->
  Forall listed_once segs1 -> data_objects_typed st1 -> explicit_fits segs1 (object_lists st1) ->
  wf_file segs2 -> sm_run segs2 false = Ok st2 -> build_hierarchy (rs_om st2) = Ok h2 ->
  segs_encode (rs_segments st2) segs2 chunkss2 ->
  om_paths_canonical (rs_om st2) -> typed_objects_are_channels (rs_om st2) ->
  Forall listed_once segs2 -> data_objects_typed st2 -> explicit_fits segs2 (object_lists st2) ->
  explicit_of segs1 st1 = explicit_of segs2 st2 ->
  rd_all (ser_file segs1) = rd_all (ser_file segs2).
Proof.
  intros A1 A2 A3 A4 A5 A6 A7 A8 A9 B1 B2 B3 B4 B5 B6 B7 B8 B9 E.
  rewrite <- (inheritance_transparent_read_eq segs1 st1 h1 chunkss1 A1 A2 A3 A4 A5 A6 A7 A8 A9).
  rewrite <- (inheritance_transparent_read_eq segs2 st2 h2 chunkss2 B1 B2 B3 B4 B5 B6 B7 B8 B9).
  rewrite E. reflexivity.
Qed.


(* ---- the explicit form is a fixpoint of the re-encoding ----------------------- *)

Lemma explicit_toc_idem toc : explicit_toc (explicit_toc toc) = explicit_toc toc.
Proof. unfold explicit_toc. rewrite <- !Z.lor_assoc. reflexivity. Qed.

Lemma props_of_explicit P objs k :
  NoDup (map so_path objs) -> In k (map so_path objs) ->
  props_of (collect_props (explicit_entries_p P objs) []) k = props_of P k.
Proof.
  intros Hnd Hin. unfold props_of. rewrite alookup_collect_props. cbn [alookup].
  rewrite (listed_props_explicit P k objs None Hnd).
  apply in_paths_iff in Hin. rewrite Hin. unfold props_of.
  destruct (alookup k P) as [[|p ps]|]; reflexivity.
Qed.

Lemma explicit_seg_idem s objs :
  NoDup (map so_path objs) -> explicit_seg (explicit_seg s objs) objs = explicit_seg s objs.
Proof.
  intros Hnd. unfold explicit_seg. cbn [fs_toc fs_version fs_meta fs_data meta_props].
  rewrite explicit_toc_idem. f_equal. f_equal.
  unfold explicit_entries_p at 1 3. apply map_ext_in. intros o Ho. f_equal.
  apply props_of_explicit; [exact Hnd|apply in_map; exact Ho].
Qed.

Lemma explicit_segs_idem : forall segs objss,
  Forall (fun objs => NoDup (map so_path objs)) objss ->
  explicit_segs (explicit_segs segs objss) objss = explicit_segs segs objss.
Proof.
  induction segs as [|s r IH]; intros [|objs ro] HF; cbn [explicit_segs]; try reflexivity.
  apply Forall_cons_iff in HF. destruct HF as [Ho HF].
  rewrite (explicit_seg_idem s objs Ho), (IH ro HF). reflexivity.
Qed.

(* re-encoding the explicit form explicitly changes nothing *)
Theorem explicit_of_fixpoint segs w st st' :
  sm_run segs w = Ok st -> Forall listed_once segs -> same_reading st st' ->
  explicit_of (explicit_of segs st) st' = explicit_of segs st.
Proof.
  intros Hrun Hl Hsame. unfold explicit_of.
  assert (Ho : object_lists st' = object_lists st) by (unfold object_lists; apply Hsame).
  rewrite Ho. apply explicit_segs_idem. exact (object_lists_nodup segs w st Hrun Hl).
Qed.

(* ======================================================================== *)
(* concrete instances                                                         *)
(* ======================================================================== *)

(* decidable forms of the three extra hypotheses *)
Definition extra_hyps_b (segs : list fseg) (st : rstate) : bool :=
  forallb listed_onceb segs && forallb seg_condb (rs_segments st) &&
  forallb seg_fitsb (explicit_of segs st).

Lemma extra_hyps_b_sound segs st :
  extra_hyps_b segs st = true ->
  Forall listed_once segs /\ data_objects_typed st /\ explicit_fits segs (object_lists st).
Proof.
  unfold extra_hyps_b. rewrite !andb_true_iff. intros [[H1 H2] H3].
  split; [exact (listed_onceb_sound segs H1)|].
  split; [exact (proj2 (seg_condb_sound _ H2))|exact (explicit_fitsb_sound _ _ H3)].
Qed.

Section IrExample.
Import String.
Local Open Scope string_scope.

(* ---- rc_file (Proofs/ReadCorrect.v): segment 2 has NO metadata block --------- *)

Example rc_extra : extra_hyps_b rc_file rc_st = true.
Proof. vm_compute. reflexivity. Qed.

(* the explicit form gives segment 2 a metadata block restating all four objects *)
Example rc_explicit_form :
  map (fun s => (fs_toc s, option_map (map (fun x => (e_path x, e_idx x))) (fs_meta s)))
      (explicit_of rc_file rc_st) =
  [ (14, Some [ (hex "2f", INoData); (hex "2f276727", INoData);
                (rc_path_a, IFull 20 3 1 2 None); (rc_path_b, IFull 28 T_STRING 1 2 (Some 11)) ]);
    (14, Some [ (hex "2f", INoData); (hex "2f276727", INoData);
                (rc_path_a, IFull 20 3 1 2 None); (rc_path_b, IFull 28 T_STRING 1 2 (Some 11)) ]) ] /\
  map fs_data (explicit_of rc_file rc_st) = map fs_data rc_file.
Proof. vm_compute. split; reflexivity. Qed.

Example rc_bytes_differ :
  blen (ser_file rc_file) = 254 /\ blen (ser_file (explicit_of rc_file rc_st)) = 367 /\
  ser_file (explicit_of rc_file rc_st) <> ser_file rc_file.
Proof.
  split; [vm_compute; reflexivity|]. split; [vm_compute; reflexivity|].
  intros H. apply (f_equal blen) in H. vm_compute in H. discriminate H.
Qed.

Example rc_inherit_read :
  rd_all (ser_file (explicit_of rc_file rc_st))
    = Ok (expected_tokens rc_st rc_h (List.concat rc_chunks), true) /\
  rd_all (ser_file rc_file) = Ok (expected_tokens rc_st rc_h (List.concat rc_chunks), true).
Proof.
  destruct (extra_hyps_b_sound _ _ rc_extra) as (H1 & H2 & H3).
  exact (inheritance_transparent_read rc_file rc_st rc_h rc_chunks rc_wf rc_run rc_hier rc_encodes
                                      rc_canonical rc_typed_channels H1 H2 H3).
Qed.

(* both files evaluated: the same explicit token list *)
Example rc_inherit_read_tokens :
  let toks :=
      [TZ 4713; TZ 0; TZ 1; TB (hex "67"); TZ 1; TB (hex "6e"); TZ 3; TB (hex "6869"); TZ 2;
       TB (hex "61"); TB (hex "67"); TB rc_path_a; TZ 3; TZ 6; TZ 1; TB (hex "70"); TZ 0; TZ 7;
       TZ 0; TZ 6; TB (hex "01000000"); TB (hex "02000000"); TB (hex "03000000");
       TB (hex "04000000"); TB (hex "05000000"); TB (hex "06000000");
       TB (hex "62"); TB (hex "67"); TB rc_path_b; TZ 32; TZ 6; TZ 0;
       TZ 0; TZ 6; TB (hex "6162"); TB (hex "63"); TB []; TB (hex "78797a"); TB (hex "71");
       TB (hex "7273");
       TZ 0; TZ 0] in
  rd_all (ser_file rc_file) = Ok (toks, true) /\
  rd_all (ser_file (explicit_of rc_file rc_st)) = Ok (toks, true).
Proof. vm_compute. split; reflexivity. Qed.

(* ---- ir_file: "same as before" and "no data" entries, unlisted objects ------- *)

(* Segment 1 (new list): root, group g (property n), a: int32 x 2 (property p),
     b: int16 x 1; two chunks of 10 bytes.
   Segment 2 (inherited list): a "same as before" (raw index 0x00000000), b "no
     data" (0xFFFFFFFF); root and group are not listed and carry over; two
     chunks of 8 bytes (a only).
   Segment 3 (inherited list): only b is listed, "same as before", which
     re-activates the index it got in segment 1, with a new property q; a, root
     and group carry over; one chunk of 10 bytes. *)
Definition ir_file : list fseg :=
  [ mkFseg 14 4713
      (Some [ mkEntry (hex "2f") INoData [];
              mkEntry (hex "2f276727") INoData [mkProp (hex "6e") T_STRING (hex "6869")];
              mkEntry rc_path_a (IFull 20 3 1 2 None) [mkProp (hex "70") 3 (hex "07000000")];
              mkEntry rc_path_b (IFull 20 2 1 1 None) [] ])
      (hex "01000000020000000a0003000000040000000b00");
    mkFseg 10 4713
      (Some [ mkEntry rc_path_a IMatchPrev [];
              mkEntry rc_path_b INoData [] ])
      (hex "05000000060000000700000008000000");
    mkFseg 10 4713
      (Some [ mkEntry rc_path_b IMatchPrev [mkProp (hex "71") 3 (hex "09000000")] ])
      (hex "090000000a0000000c00") ].

Definition ir_st : rstate := match sm_run ir_file false with Ok st => st | Err _ => rstate0 end.
Definition ir_h : hierarchy :=
  match build_hierarchy (rs_om ir_st) with Ok h => h | Err _ => mkHier [] [] end.

Definition ir_obj_a : sobj := mkSobj rc_path_a true 2 8 (Some 3) None.   (* int32 x 2 *)
Definition ir_obj_b : sobj := mkSobj rc_path_b true 1 2 (Some 2) None.   (* int16 x 1 *)

(* per segment: its data objects and, per chunk, per data object, the values *)
Definition ir_dobjs : list (list sobj) := [ [ir_obj_a; ir_obj_b]; [ir_obj_a]; [ir_obj_a; ir_obj_b] ].
Definition ir_values : list (list (list (list bytes))) :=
  [ [ [ [hex "01000000"; hex "02000000"]; [hex "0a00"] ];
      [ [hex "03000000"; hex "04000000"]; [hex "0b00"] ] ];
    [ [ [hex "05000000"; hex "06000000"] ];
      [ [hex "07000000"; hex "08000000"] ] ];
    [ [ [hex "09000000"; hex "0a000000"]; [hex "0c00"] ] ] ].

Definition ir_chunks : list (list chunk) :=
  map (fun dv => map (fun vss => chunk_of (combine (fst dv) vss)) (snd dv)) (combine ir_dobjs ir_values).

Example ir_wf : wf_file ir_file.
Proof. unfold wf_file. vm_compute. reflexivity. Qed.

Example ir_run : sm_run ir_file false = Ok ir_st.
Proof. vm_compute. reflexivity. Qed.

Example ir_hier : build_hierarchy (rs_om ir_st) = Ok ir_h.
Proof. vm_compute. reflexivity. Qed.

(* the object lists: b is kept, without data, in segment 2 and has its old
   index back in segment 3 *)
Example ir_object_lists :
  map (map (fun o => (so_path o, so_has_data o, so_nvals o, so_dtype o))) (object_lists ir_st) =
  [ [ (hex "2f", false, 0, None); (hex "2f276727", false, 0, None);
      (rc_path_a, true, 2, Some 3); (rc_path_b, true, 1, Some 2) ];
    [ (hex "2f", false, 0, None); (hex "2f276727", false, 0, None);
      (rc_path_a, true, 2, Some 3); (rc_path_b, false, 1, Some 2) ];
    [ (hex "2f", false, 0, None); (hex "2f276727", false, 0, None);
      (rc_path_a, true, 2, Some 3); (rc_path_b, true, 1, Some 2) ] ].
Proof. vm_compute. reflexivity. Qed.

Example ir_encodes : segs_encode (rs_segments ir_st) ir_file ir_chunks.
Proof.
  pose (d := mkSeg 0 0 0 0 false [] [] 0 None).
  assert (Hsegs : rs_segments ir_st = [nth 0 (rs_segments ir_st) d; nth 1 (rs_segments ir_st) d;
                                        nth 2 (rs_segments ir_st) d])
    by (vm_compute; reflexivity).
  rewrite Hsegs. clear Hsegs.
  unfold ir_file, ir_chunks, ir_dobjs, ir_values. cbn [map combine fst snd].
  constructor; [|constructor; [|constructor; [|constructor]]].
  - eapply (rc_seg_contig _ _ [ir_obj_a; ir_obj_b] (nth 0 ir_values [])).
    + vm_compute. reflexivity.
    + vm_compute. reflexivity.
    + vm_compute. reflexivity.
    + vm_compute. reflexivity.
    + unfold ir_values. cbn [nth]. repeat constructor.
    + unfold ir_values. cbn [nth]. repeat constructor.
    + vm_compute. reflexivity.
    + reflexivity.
  - eapply (rc_seg_contig _ _ [ir_obj_a] (nth 1 ir_values [])).
    + vm_compute. reflexivity.
    + vm_compute. reflexivity.
    + vm_compute. reflexivity.
    + vm_compute. reflexivity.
    + unfold ir_values. cbn [nth]. repeat constructor.
    + unfold ir_values. cbn [nth]. repeat constructor.
    + vm_compute. reflexivity.
    + reflexivity.
  - eapply (rc_seg_contig _ _ [ir_obj_a; ir_obj_b] (nth 2 ir_values [])).
    + vm_compute. reflexivity.
    + vm_compute. reflexivity.
    + vm_compute. reflexivity.
    + vm_compute. reflexivity.
    + unfold ir_values. cbn [nth]. repeat constructor.
    + unfold ir_values. cbn [nth]. repeat constructor.
    + vm_compute. reflexivity.
    + reflexivity.
Qed.

Example ir_canonical : om_paths_canonical (rs_om ir_st).
Proof. apply om_paths_canonical_b_sound. vm_compute. reflexivity. Qed.

Example ir_typed_channels : typed_objects_are_channels (rs_om ir_st).
Proof. apply typed_objects_are_channels_b_sound. vm_compute. reflexivity. Qed.

Example ir_extra : extra_hyps_b ir_file ir_st = true.
Proof. vm_compute. reflexivity. Qed.

(* the explicit form: new-list flag everywhere, all four objects restated in
   every segment, a's index in full in segments 2 and 3, b "no data" in
   segment 2 and in full in segment 3, the property q still attached to b *)
Example ir_explicit_form :
  map (fun s => (fs_toc s, option_map (map (fun x => (e_path x, e_idx x, map p_name (e_props x))))
                                      (fs_meta s)))
      (explicit_of ir_file ir_st) =
  [ (14, Some [ (hex "2f", INoData, []); (hex "2f276727", INoData, [hex "6e"]);
                (rc_path_a, IFull 20 3 1 2 None, [hex "70"]); (rc_path_b, IFull 20 2 1 1 None, []) ]);
    (14, Some [ (hex "2f", INoData, []); (hex "2f276727", INoData, []);
                (rc_path_a, IFull 20 3 1 2 None, []); (rc_path_b, INoData, []) ]);
    (14, Some [ (hex "2f", INoData, []); (hex "2f276727", INoData, []);
                (rc_path_a, IFull 20 3 1 2 None, []); (rc_path_b, IFull 20 2 1 1 None, [hex "71"]) ]) ] /\
  map fs_data (explicit_of ir_file ir_st) = map fs_data ir_file.
Proof. vm_compute. split; reflexivity. Qed.

Example ir_bytes_differ :
  blen (ser_file ir_file) = 344 /\ blen (ser_file (explicit_of ir_file ir_st)) = 470 /\
  ser_file (explicit_of ir_file ir_st) <> ser_file ir_file.
Proof.
  split; [vm_compute; reflexivity|]. split; [vm_compute; reflexivity|].
  intros H. apply (f_equal blen) in H. vm_compute in H. discriminate H.
Qed.

Example ir_inherit_read :
  rd_all (ser_file (explicit_of ir_file ir_st))
    = Ok (expected_tokens ir_st ir_h (List.concat ir_chunks), true) /\
  rd_all (ser_file ir_file) = Ok (expected_tokens ir_st ir_h (List.concat ir_chunks), true).
Proof.
  destruct (extra_hyps_b_sound _ _ ir_extra) as (H1 & H2 & H3).
  exact (inheritance_transparent_read ir_file ir_st ir_h ir_chunks ir_wf ir_run ir_hier ir_encodes
                                      ir_canonical ir_typed_channels H1 H2 H3).
Qed.

(* both files evaluated: a has its 10 values 1..10 in file order (segments 1, 2,
   3), b its 3 values (segments 1 and 3 only), properties p on a and q on b *)
Example ir_inherit_read_tokens :
  let toks :=
      [TZ 4713; TZ 0; TZ 1; TB (hex "67"); TZ 1; TB (hex "6e"); TZ 3; TB (hex "6869"); TZ 2;
       TB (hex "61"); TB (hex "67"); TB rc_path_a; TZ 3; TZ 10; TZ 1; TB (hex "70"); TZ 0; TZ 7;
       TZ 0; TZ 10; TB (hex "01000000"); TB (hex "02000000"); TB (hex "03000000");
       TB (hex "04000000"); TB (hex "05000000"); TB (hex "06000000"); TB (hex "07000000");
       TB (hex "08000000"); TB (hex "09000000"); TB (hex "0a000000");
       TB (hex "62"); TB (hex "67"); TB rc_path_b; TZ 2; TZ 3; TZ 1; TB (hex "71"); TZ 0; TZ 9;
       TZ 0; TZ 3; TB (hex "0a00"); TB (hex "0b00"); TB (hex "0c00");
       TZ 0; TZ 0] in
  rd_all (ser_file ir_file) = Ok (toks, true) /\
  rd_all (ser_file (explicit_of ir_file ir_st)) = Ok (toks, true) /\
  expected_tokens ir_st ir_h (List.concat ir_chunks) = toks.
Proof. vm_compute. repeat split; reflexivity. Qed.

(* ---- ir_alt: another abbreviation of the same content ------------------------ *)

(* Segment 2 starts a NEW list and restates everything; segment 3 has NO new
   list, restates b's index in full (instead of "same as before") and leaves
   the rest unlisted.  Its explicit form is ir_file's. *)
Definition ir_alt : list fseg :=
  [ mkFseg 14 4713
      (Some [ mkEntry (hex "2f") INoData [];
              mkEntry (hex "2f276727") INoData [mkProp (hex "6e") T_STRING (hex "6869")];
              mkEntry rc_path_a (IFull 20 3 1 2 None) [mkProp (hex "70") 3 (hex "07000000")];
              mkEntry rc_path_b (IFull 20 2 1 1 None) [] ])
      (hex "01000000020000000a0003000000040000000b00");
    mkFseg 14 4713
      (Some [ mkEntry (hex "2f") INoData [];
              mkEntry (hex "2f276727") INoData [];
              mkEntry rc_path_a (IFull 20 3 1 2 None) [];
              mkEntry rc_path_b INoData [] ])
      (hex "05000000060000000700000008000000");
    mkFseg 10 4713
      (Some [ mkEntry rc_path_b (IFull 20 2 1 1 None) [mkProp (hex "71") 3 (hex "09000000")] ])
      (hex "090000000a0000000c00") ].

Definition ir_alt_st : rstate := match sm_run ir_alt false with Ok st => st | Err _ => rstate0 end.

Example ir_alt_wf : wf_file ir_alt.
Proof. unfold wf_file. vm_compute. reflexivity. Qed.

Example ir_alt_run : sm_run ir_alt false = Ok ir_alt_st.
Proof. vm_compute. reflexivity. Qed.

Example ir_alt_hier : build_hierarchy (rs_om ir_alt_st) = Ok ir_h.
Proof. vm_compute. reflexivity. Qed.

Example ir_alt_encodes : segs_encode (rs_segments ir_alt_st) ir_alt ir_chunks.
Proof.
  pose (d := mkSeg 0 0 0 0 false [] [] 0 None).
  assert (Hsegs : rs_segments ir_alt_st = [nth 0 (rs_segments ir_alt_st) d; nth 1 (rs_segments ir_alt_st) d;
                                            nth 2 (rs_segments ir_alt_st) d])
    by (vm_compute; reflexivity).
  rewrite Hsegs. clear Hsegs.
  unfold ir_alt, ir_chunks, ir_dobjs, ir_values. cbn [map combine fst snd].
  constructor; [|constructor; [|constructor; [|constructor]]].
  - eapply (rc_seg_contig _ _ [ir_obj_a; ir_obj_b] (nth 0 ir_values [])).
    + vm_compute. reflexivity.
    + vm_compute. reflexivity.
    + vm_compute. reflexivity.
    + vm_compute. reflexivity.
    + unfold ir_values. cbn [nth]. repeat constructor.
    + unfold ir_values. cbn [nth]. repeat constructor.
    + vm_compute. reflexivity.
    + reflexivity.
  - eapply (rc_seg_contig _ _ [ir_obj_a] (nth 1 ir_values [])).
    + vm_compute. reflexivity.
    + vm_compute. reflexivity.
    + vm_compute. reflexivity.
    + vm_compute. reflexivity.
    + unfold ir_values. cbn [nth]. repeat constructor.
    + unfold ir_values. cbn [nth]. repeat constructor.
    + vm_compute. reflexivity.
    + reflexivity.
  - eapply (rc_seg_contig _ _ [ir_obj_a; ir_obj_b] (nth 2 ir_values [])).
    + vm_compute. reflexivity.
    + vm_compute. reflexivity.
    + vm_compute. reflexivity.
    + vm_compute. reflexivity.
    + unfold ir_values. cbn [nth]. repeat constructor.
    + unfold ir_values. cbn [nth]. repeat constructor.
    + vm_compute. reflexivity.
    + reflexivity.
Qed.

Example ir_alt_canonical : om_paths_canonical (rs_om ir_alt_st).
Proof. apply om_paths_canonical_b_sound. vm_compute. reflexivity. Qed.

Example ir_alt_typed_channels : typed_objects_are_channels (rs_om ir_alt_st).
Proof. apply typed_objects_are_channels_b_sound. vm_compute. reflexivity. Qed.

Example ir_alt_extra : extra_hyps_b ir_alt ir_alt_st = true.
Proof. vm_compute. reflexivity. Qed.

Example ir_alt_same_explicit :
  explicit_of ir_file ir_st = explicit_of ir_alt ir_alt_st /\ ser_file ir_file <> ser_file ir_alt.
Proof.
  split; [vm_compute; reflexivity|].
  intros H. apply (f_equal blen) in H. vm_compute in H. discriminate H.
Qed.

Example ir_alt_same_read : rd_all (ser_file ir_file) = rd_all (ser_file ir_alt).
Proof.
  destruct (extra_hyps_b_sound _ _ ir_extra) as (H1 & H2 & H3).
  destruct (extra_hyps_b_sound _ _ ir_alt_extra) as (K1 & K2 & K3).
  exact (same_explicit_same_read
           ir_file ir_st ir_h ir_chunks ir_alt ir_alt_st ir_h ir_chunks
           ir_wf ir_run ir_hier ir_encodes ir_canonical ir_typed_channels H1 H2 H3
           ir_alt_wf ir_alt_run ir_alt_hier ir_alt_encodes ir_alt_canonical ir_alt_typed_channels
           K1 K2 K3 (proj1 ir_alt_same_explicit)).
Qed.

(* ---- the hypothesis [data_objects_typed] is necessary ------------------------- *)

(* Channel c is declared "no data" in segment 1 and "same as before" in segment
   2 although it never had an index; segment 2 has no raw data, so nothing is
   read for c (length 0, no type) and every hypothesis of read_correct holds.
   The re-encoding would have to restate an index c never had: the reader
   rejects it (ValueError: unsupported data type, in the implementation as in
   the model).  This is the corner excluded by [data_objects_typed]
   (DESIGN 13.2, "no data, then matches previous"). *)
Definition rc_path_c : bytes := hex "2f2767272f276327".
Definition nt_file : list fseg :=
  [ mkFseg 14 4713
      (Some [ mkEntry (hex "2f") INoData [];
              mkEntry (hex "2f276727") INoData [];
              mkEntry rc_path_a (IFull 20 3 1 2 None) [];
              mkEntry rc_path_c INoData [] ])
      (hex "0100000002000000");
    mkFseg 2 4713 (Some [ mkEntry rc_path_c IMatchPrev [] ]) [] ].
Definition nt_st : rstate := match sm_run nt_file false with Ok st => st | Err _ => rstate0 end.
Definition nt_h : hierarchy :=
  match build_hierarchy (rs_om nt_st) with Ok h => h | Err _ => mkHier [] [] end.
Definition nt_obj_c : sobj := mkSobj rc_path_c true 0 0 None None.
Definition nt_chunks : list (list chunk) :=
  [ [ chunk_of [(ir_obj_a, [hex "01000000"; hex "02000000"])] ]; [] ].

Example nt_encodes : segs_encode (rs_segments nt_st) nt_file nt_chunks.
Proof.
  pose (d := mkSeg 0 0 0 0 false [] [] 0 None).
  assert (Hsegs : rs_segments nt_st = [nth 0 (rs_segments nt_st) d; nth 1 (rs_segments nt_st) d])
    by (vm_compute; reflexivity).
  rewrite Hsegs. clear Hsegs. unfold nt_file, nt_chunks.
  constructor; [|constructor; [|constructor]].
  - eapply (rc_seg_contig _ _ [ir_obj_a] [ [ [hex "01000000"; hex "02000000"] ] ]).
    + vm_compute. reflexivity.
    + vm_compute. reflexivity.
    + vm_compute. reflexivity.
    + vm_compute. reflexivity.
    + repeat constructor.
    + repeat constructor.
    + vm_compute. reflexivity.
    + reflexivity.
  - eapply (rc_seg_contig _ _ [ir_obj_a; nt_obj_c] []).
    + vm_compute. reflexivity.
    + vm_compute. reflexivity.
    + vm_compute. reflexivity.
    + vm_compute. reflexivity.
    + constructor.
    + constructor.
    + vm_compute. reflexivity.
    + reflexivity.
Qed.

Example inheritance_transparent_read_needs_typed :
  wf_file nt_file /\ sm_run nt_file false = Ok nt_st /\ build_hierarchy (rs_om nt_st) = Ok nt_h /\
  segs_encode (rs_segments nt_st) nt_file nt_chunks /\
  om_paths_canonical (rs_om nt_st) /\ typed_objects_are_channels (rs_om nt_st) /\
  Forall listed_once nt_file /\ explicit_fits nt_file (object_lists nt_st) /\
  ~ data_objects_typed nt_st /\
  (exists t, rd_all (ser_file nt_file) = Ok (t, true)) /\
  rd_all (ser_file (explicit_of nt_file nt_st)) = Err EValue.
Proof.
  split; [unfold wf_file; vm_compute; reflexivity|].
  split; [vm_compute; reflexivity|]. split; [vm_compute; reflexivity|].
  split; [exact nt_encodes|].
  split; [apply om_paths_canonical_b_sound; vm_compute; reflexivity|].
  split; [apply typed_objects_are_channels_b_sound; vm_compute; reflexivity|].
  split; [apply listed_onceb_sound; vm_compute; reflexivity|].
  split; [apply explicit_fitsb_sound; vm_compute; reflexivity|].
  split.
  - intros H. unfold data_objects_typed in H. rewrite Forall_forall in H.
    apply (H (nth 1 (rs_segments nt_st) (mkSeg 0 0 0 0 false [] [] 0 None)) ltac:(vm_compute; auto)
             nt_obj_c ltac:(vm_compute; auto) eq_refl).
    reflexivity.
  - split; [eexists; vm_compute; reflexivity|vm_compute; reflexivity].
Qed.

End IrExample.
