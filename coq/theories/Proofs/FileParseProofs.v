(* The strict whole-stream parser of Model/FileParse.v is the two-sided inverse of
   the serialiser of Model/FileSyn.v on well-formed syntax:

     parse_file_sound    : parse_file b = Some segs -> ser_file segs = b /\ wf_file segs
     parse_file_complete : wf_file segs -> parse_file (ser_file segs) = Some segs

   Soundness is the new direction (every lexer function of Model/Tokens.v is
   inverted: what it returns re-serialises to exactly the bytes it consumed and
   satisfies the boolean well-formedness predicate of Model/TokensWf.v);
   completeness re-uses Proofs/TokensRoundtrip.v.  Then: cuts of a parsed stream
   ([parse_file_cut]) and the strict lexer against the lenient one of Tokens.v. *)
From Coq Require Import List ZArith Bool Lia ZifyBool.
From Coq Require Import Init.Byte.
Import ListNotations.
From NpTdms Require Import Base.Bytes Base.Res Model.ByteStr Model.Tokens Model.TokensWf Model.Reader
     Model.FileSyn Model.FileParse Proofs.ByteStrProofs Proofs.TokensRoundtrip Proofs.FileSynProofs.
Local Open Scope Z_scope.

(* ---- slicing ---------------------------------------------------------------------- *)

Lemma take_drop n (bs : bytes) : take n bs ++ drop n bs = bs.
Proof. unfold take, drop. apply firstn_skipn. Qed.

Lemma blen_take k (bs : bytes) : 0 <= k <= blen bs -> blen (take k bs) = k.
Proof.
  intros Hk. rewrite take_firstn. unfold blen in *. rewrite firstn_length. lia.
Qed.

Lemma blen_nil_inv (x : bytes) : blen x = 0 -> x = [].
Proof. destruct x; [reflexivity|]. unfold blen. cbn [length]. lia. Qed.

(* ---- inverting the primitive reads ------------------------------------------------- *)

Lemma get_exact_inv n bs x r : get_exact n bs = Ok (x, r) -> bs = x ++ r /\ blen x = n.
Proof.
  unfold get_exact, get_raw. destruct (blen (take n bs) =? n) eqn:E; [|discriminate].
  intros H. injection H as <- <-. split; [symmetry; apply take_drop|lia].
Qed.

Lemma length_of_blen (x : bytes) n : blen x = Z.of_nat n -> length x = n.
Proof. unfold blen. lia. Qed.

Lemma get_u32_inv e bs z r :
  get_u32 e bs = Ok (z, r) -> bs = put_u32 e z ++ r /\ is_u32 z = true.
Proof.
  unfold get_u32. destruct (get_exact 4 bs) as [[x r0]|] eqn:E; cbn [bind]; [|discriminate].
  intros H. injection H as <- <-. apply get_exact_inv in E. destruct E as [-> Hl].
  pose proof (length_of_blen x 4 Hl) as Hlen.
  pose proof (u_dec_range e x) as Hr. rewrite Hlen, pow256_4 in Hr.
  split.
  - unfold put_u32. rewrite <- Hlen, u_enc_dec. reflexivity.
  - apply is_u32_spec. exact Hr.
Qed.

Lemma get_u64_inv e bs z r :
  get_u64 e bs = Ok (z, r) -> bs = put_u64 e z ++ r /\ is_u64 z = true.
Proof.
  unfold get_u64. destruct (get_exact 8 bs) as [[x r0]|] eqn:E; cbn [bind]; [|discriminate].
  intros H. injection H as <- <-. apply get_exact_inv in E. destruct E as [-> Hl].
  pose proof (length_of_blen x 8 Hl) as Hlen.
  pose proof (u_dec_range e x) as Hr. rewrite Hlen, pow256_8 in Hr.
  split.
  - unfold put_u64. rewrite <- Hlen, u_enc_dec. reflexivity.
  - apply is_u64_spec. exact Hr.
Qed.

Lemma get_u8_inv bs z r :
  get_u8 bs = Ok (z, r) -> bs = put_u8 z ++ r /\ is_u8 z = true.
Proof.
  unfold get_u8. destruct (get_exact 1 bs) as [[x r0]|] eqn:E; cbn [bind]; [|discriminate].
  intros H. injection H as <- <-. apply get_exact_inv in E. destruct E as [-> Hl].
  pose proof (length_of_blen x 1 Hl) as Hlen.
  destruct x as [|b [|c x]]; try discriminate Hlen.
  cbn [u_dec le_dec]. pose proof (b2z_range b) as Hb. split.
  - unfold put_u8. replace (b2z b + 256 * 0) with (b2z b) by lia. rewrite z2b_b2z. reflexivity.
  - apply is_u8_spec. lia.
Qed.

Lemma get_string_x_inv e bs s r :
  get_string_x e bs = Ok (s, r) -> bs = put_string e s ++ r /\ is_u32 (blen s) = true.
Proof.
  unfold get_string_x. destruct (get_u32 e bs) as [[n r0]|] eqn:E; cbn [bind]; [|discriminate].
  intros H. apply get_u32_inv in E. destruct E as [-> Hn].
  apply get_exact_inv in H. destruct H as [-> Hl]. subst n.
  split; [|exact Hn]. unfold put_string. rewrite <- app_assoc. reflexivity.
Qed.

(* ---- inverting  for _ in range(n): parse ------------------------------------------- *)

Lemma repeat_parse_inv {A} (p : bytes -> res (A * bytes)) (ser : A -> bytes) (ok : A -> bool) :
  (forall b x r, p b = Ok (x, r) -> b = ser x ++ r /\ ok x = true) ->
  forall fuel n bs xs r, repeat_parse p fuel n bs = Ok (xs, r) ->
    bs = flat_map ser xs ++ r /\ forallb ok xs = true /\ Z.of_nat (length xs) = Z.max 0 n.
Proof.
  intros Hp. induction fuel as [|f IH]; intros n bs xs r H.
  - cbn [repeat_parse] in H. destruct (n <=? 0) eqn:En; [|discriminate].
    injection H as <- <-. cbn [flat_map forallb length app]. repeat split; lia.
  - cbn [repeat_parse] in H. destruct (n <=? 0) eqn:En.
    + injection H as <- <-. cbn [flat_map forallb length app]. repeat split; lia.
    + destruct (p bs) as [[x b1]|] eqn:Ep; cbn [bind] in H; [|discriminate].
      destruct (repeat_parse p f (n - 1) b1) as [[ys b2]|] eqn:Er; cbn [bind] in H; [|discriminate].
      injection H as <- <-.
      apply Hp in Ep. destruct Ep as [-> Hx].
      apply IH in Er. destruct Er as [-> [Hys Hl]].
      cbn [flat_map forallb length]. rewrite <- app_assoc, Hx, Hys.
      repeat split; lia.
Qed.

Lemma parse_n_inv {A} (p : bytes -> res (A * bytes)) (ser : A -> bytes) (ok : A -> bool) :
  (forall b x r, p b = Ok (x, r) -> b = ser x ++ r /\ ok x = true) ->
  forall n bs xs r, is_u32 n = true -> parse_n p n bs = Ok (xs, r) ->
    bs = flat_map ser xs ++ r /\ forallb ok xs = true /\ Z.of_nat (length xs) = n /\ len_u32 xs = true.
Proof.
  intros Hp n bs xs r Hn H. unfold parse_n in H.
  apply (repeat_parse_inv p ser ok Hp) in H. destruct H as [-> [Hok Hl]].
  apply is_u32_spec in Hn.
  assert (Hlen : Z.of_nat (length xs) = n) by lia.
  repeat split; try assumption. unfold len_u32. rewrite Hlen. apply is_u32_spec. exact Hn.
Qed.

(* ---- properties -------------------------------------------------------------------- *)

Lemma canon_canon e ty x :
  (ty =? T_C64) || (ty =? T_C128) = false -> canon_value e ty (canon_value e ty x) = x.
Proof. intros H. apply (canon_store_rev e ty x H). Qed.

Lemma blen_canon e ty x :
  (ty =? T_C64) || (ty =? T_C128) = false -> blen (canon_value e ty x) = blen x.
Proof. intros H. apply (blen_store_value e ty x H). Qed.

Lemma parse_prop_value_x_inv e ty bs v r :
  parse_prop_value_x e ty bs = Ok (v, r) ->
  bs = ser_prop_value e ty v ++ r /\ readable_prop_type ty = true /\ prop_val_ok ty v = true.
Proof.
  unfold parse_prop_value_x, ser_prop_value, prop_val_ok, readable_prop_type.
  destruct (ty =? T_STRING) eqn:Es.
  - intros H. apply get_string_x_inv in H. destruct H as [-> Hl].
    split; [reflexivity|]. split; [reflexivity|exact Hl].
  - unfold parse_prop_value. rewrite Es.
    destruct (tds_size ty) as [sz|] eqn:Hsz; [|discriminate].
    destruct (ty =? T_TIME) eqn:Et.
    + assert (ty = T_TIME) by lia. subst ty. cbv in Hsz. injection Hsz as <-.
      destruct (get_exact 16 bs) as [[x r0]|] eqn:E; cbn [bind]; [|discriminate].
      intros H. injection H as <- <-. apply get_exact_inv in E. destruct E as [-> Hl].
      unfold store_value. rewrite canon_canon by reflexivity.
      rewrite blen_canon by reflexivity. split; [reflexivity|]. split; [reflexivity|lia].
    + destruct (is_struct_type ty) eqn:Est; [|discriminate].
      assert (Hnc : (ty =? T_C64) || (ty =? T_C128) = false).
      { unfold is_struct_type, T_C64, T_C128 in *. lia. }
      destruct sz as [n|]; [|discriminate].
      destruct (get_exact n bs) as [[x r0]|] eqn:E; cbn [bind]; [|discriminate].
      intros H. injection H as <- <-. apply get_exact_inv in E. destruct E as [-> Hl].
      unfold store_value. rewrite canon_canon by exact Hnc.
      rewrite blen_canon by exact Hnc. split; [reflexivity|]. split; [reflexivity|lia].
Qed.

Lemma parse_prop_x_inv e bs p r :
  parse_prop_x e bs = Ok (p, r) -> bs = ser_prop e p ++ r /\ wf_prop p = true.
Proof.
  unfold parse_prop_x.
  destruct (get_string_x e bs) as [[name r1]|] eqn:E1; cbn [bind]; [|discriminate].
  destruct (get_u32 e r1) as [[ty r2]|] eqn:E2; cbn [bind]; [|discriminate].
  destruct (parse_prop_value_x e ty r2) as [[v r3]|] eqn:E3; cbn [bind]; [|discriminate].
  intros H. injection H as <- <-.
  apply get_string_x_inv in E1. destruct E1 as [-> Hname].
  apply get_u32_inv in E2. destruct E2 as [-> Hty].
  apply parse_prop_value_x_inv in E3. destruct E3 as [-> [Hr Hv]].
  unfold ser_prop, wf_prop. cbn [p_name p_type p_val]. rewrite <- !app_assoc.
  split; [reflexivity|]. rewrite Hname, Hr, Hv. reflexivity.
Qed.

Lemma parse_props_x_inv e bs ps r :
  parse_props_x e bs = Ok (ps, r) ->
  bs = put_u32 e (Z.of_nat (length ps)) ++ flat_map (ser_prop e) ps ++ r /\
  len_u32 ps = true /\ forallb wf_prop ps = true.
Proof.
  unfold parse_props_x.
  destruct (get_u32 e bs) as [[n r0]|] eqn:E; cbn [bind]; [|discriminate].
  intros H. apply get_u32_inv in E. destruct E as [-> Hn].
  apply (parse_n_inv (parse_prop_x e) (ser_prop e) wf_prop) in H;
    [|intros b x r1 Hb; apply parse_prop_x_inv; exact Hb|exact Hn].
  destruct H as [-> [Hok [Hl Hlu]]]. rewrite Hl. repeat split; assumption.
Qed.

(* ---- raw data index ---------------------------------------------------------------- *)

Lemma parse_scaler_inv e kind bs s r :
  parse_scaler e kind bs = Ok (s, r) -> bs = ser_scaler e kind s ++ r /\ wf_scaler kind s = true.
Proof.
  unfold parse_scaler.
  destruct (get_u32 e bs) as [[ty r1]|] eqn:E1; cbn [bind]; [|discriminate].
  destruct (get_u32 e r1) as [[buf r2]|] eqn:E2; cbn [bind]; [|discriminate].
  destruct (get_u32 e r2) as [[off r3]|] eqn:E3; cbn [bind]; [|discriminate].
  apply get_u32_inv in E1. destruct E1 as [-> Hty].
  apply get_u32_inv in E2. destruct E2 as [-> Hbuf].
  apply get_u32_inv in E3. destruct E3 as [-> Hoff].
  unfold ser_scaler, wf_scaler.
  destruct (kind =? DIGITAL_LINE_SCALER) eqn:Ek.
  - destruct (get_u8 r3) as [[fmt r4]|] eqn:E4; cbn [bind]; [|discriminate].
    destruct (get_u32 e r4) as [[id r5]|] eqn:E5; cbn [bind]; [|discriminate].
    intros H. injection H as <- <-.
    apply get_u8_inv in E4. destruct E4 as [-> Hfmt].
    apply get_u32_inv in E5. destruct E5 as [-> Hid].
    cbn [sc_type sc_buf sc_off sc_fmt sc_id]. rewrite <- !app_assoc.
    split; [reflexivity|]. rewrite Hty, Hbuf, Hoff, Hfmt, Hid. reflexivity.
  - destruct (get_u32 e r3) as [[fmt r4]|] eqn:E4; cbn [bind]; [|discriminate].
    destruct (get_u32 e r4) as [[id r5]|] eqn:E5; cbn [bind]; [|discriminate].
    intros H. injection H as <- <-.
    apply get_u32_inv in E4. destruct E4 as [-> Hfmt].
    apply get_u32_inv in E5. destruct E5 as [-> Hid].
    cbn [sc_type sc_buf sc_off sc_fmt sc_id]. rewrite <- !app_assoc.
    split; [reflexivity|]. rewrite Hty, Hbuf, Hoff, Hfmt, Hid. reflexivity.
Qed.

Lemma parse_idx_inv e bs i r :
  parse_idx e bs = Ok (i, r) -> bs = ser_idx e i ++ r /\ wf_idx i = true.
Proof.
  unfold parse_idx.
  destruct (get_u32 e bs) as [[hdr r0]|] eqn:E0; cbn [bind]; [|discriminate].
  apply get_u32_inv in E0. destruct E0 as [-> Hhdr].
  destruct (hdr =? RAW_DATA_INDEX_NO_DATA) eqn:End.
  { intros H. injection H as <- <-. assert (hdr = RAW_DATA_INDEX_NO_DATA) by lia. subst hdr.
    split; reflexivity. }
  destruct (hdr =? RAW_DATA_INDEX_MATCHES_PREVIOUS) eqn:Emp.
  { intros H. injection H as <- <-. assert (hdr = RAW_DATA_INDEX_MATCHES_PREVIOUS) by lia. subst hdr.
    split; reflexivity. }
  destruct ((hdr =? FORMAT_CHANGING_SCALER) || (hdr =? DIGITAL_LINE_SCALER)) eqn:Edq.
  - destruct (get_u32 e r0) as [[dt r1]|] eqn:E1; cbn [bind]; [|discriminate].
    destruct (get_u32 e r1) as [[dim r2]|] eqn:E2; cbn [bind]; [|discriminate].
    destruct (get_u64 e r2) as [[n r3]|] eqn:E3; cbn [bind]; [|discriminate].
    destruct (get_u32 e r3) as [[ns r4]|] eqn:E4; cbn [bind]; [|discriminate].
    destruct (parse_n (parse_scaler e hdr) ns r4) as [[scalers r5]|] eqn:E5; cbn [bind]; [|discriminate].
    destruct (get_u32 e r5) as [[nw r6]|] eqn:E6; cbn [bind]; [|discriminate].
    destruct (parse_n (get_u32 e) nw r6) as [[widths r7]|] eqn:E7; cbn [bind]; [|discriminate].
    intros H. injection H as <- <-.
    apply get_u32_inv in E1. destruct E1 as [-> Hdt].
    apply get_u32_inv in E2. destruct E2 as [-> Hdim].
    apply get_u64_inv in E3. destruct E3 as [-> Hn].
    apply get_u32_inv in E4. destruct E4 as [-> Hns].
    apply (parse_n_inv (parse_scaler e hdr) (ser_scaler e hdr) (wf_scaler hdr)) in E5;
      [|intros b x r8 Hb; apply parse_scaler_inv; exact Hb|exact Hns].
    destruct E5 as [-> [Hss [Hsl Hslu]]].
    apply get_u32_inv in E6. destruct E6 as [-> Hnw].
    apply (parse_n_inv (get_u32 e) (put_u32 e) is_u32) in E7;
      [|intros b x r8 Hb; apply get_u32_inv; exact Hb|exact Hnw].
    destruct E7 as [-> [Hws [Hwl Hwlu]]].
    cbn [ser_idx wf_idx]. rewrite Hsl, Hwl, <- !app_assoc.
    split; [reflexivity|].
    rewrite Edq, Hdt, Hdim, Hn, Hslu, Hss, Hwlu, Hws. reflexivity.
  - apply orb_false_iff in Edq. destruct Edq as [Ef Ed].
    destruct (get_u32 e r0) as [[dt r1]|] eqn:E1; cbn [bind]; [|discriminate].
    destruct (get_u32 e r1) as [[dim r2]|] eqn:E2; cbn [bind]; [|discriminate].
    destruct (get_u64 e r2) as [[n r3]|] eqn:E3; cbn [bind]; [|discriminate].
    apply get_u32_inv in E1. destruct E1 as [-> Hdt].
    apply get_u32_inv in E2. destruct E2 as [-> Hdim].
    apply get_u64_inv in E3. destruct E3 as [-> Hn].
    destruct (dt =? T_STRING) eqn:Es.
    + destruct (get_u64 e r3) as [[t r4]|] eqn:E4; cbn [bind]; [|discriminate].
      intros H. injection H as <- <-.
      apply get_u64_inv in E4. destruct E4 as [-> Ht].
      cbn [ser_idx wf_idx]. rewrite <- !app_assoc. split; [reflexivity|].
      rewrite Hhdr, End, Emp, Ef, Ed, Hdt, Hdim, Hn, Es, Ht. reflexivity.
    + intros H. injection H as <- <-.
      cbn [ser_idx wf_idx]. rewrite <- !app_assoc, app_nil_l. split; [reflexivity|].
      rewrite Hhdr, End, Emp, Ef, Ed, Hdt, Hdim, Hn, Es. reflexivity.
Qed.

(* ---- entries and the metadata block ------------------------------------------------ *)

Lemma parse_entry_x_inv e bs x r :
  parse_entry_x e bs = Ok (x, r) -> bs = ser_entry e x ++ r /\ wf_entry x = true.
Proof.
  unfold parse_entry_x.
  destruct (get_string_x e bs) as [[path r1]|] eqn:E1; cbn [bind]; [|discriminate].
  destruct (parse_idx e r1) as [[i r2]|] eqn:E2; cbn [bind]; [|discriminate].
  destruct (parse_props_x e r2) as [[ps r3]|] eqn:E3; cbn [bind]; [|discriminate].
  intros H. injection H as <- <-.
  apply get_string_x_inv in E1. destruct E1 as [-> Hpath].
  apply parse_idx_inv in E2. destruct E2 as [-> Hidx].
  apply parse_props_x_inv in E3. destruct E3 as [-> [Hpl Hps]].
  unfold ser_entry, wf_entry. cbn [e_path e_idx e_props]. rewrite <- !app_assoc.
  split; [reflexivity|]. rewrite Hpath, Hidx, Hpl, Hps. reflexivity.
Qed.

Lemma parse_metadata_x_inv e bs es r :
  parse_metadata_x e bs = Ok (es, r) -> bs = ser_metadata e es ++ r /\ wf_metadata es = true.
Proof.
  unfold parse_metadata_x.
  destruct (get_u32 e bs) as [[n r0]|] eqn:E; cbn [bind]; [|discriminate].
  intros H. apply get_u32_inv in E. destruct E as [-> Hn].
  apply (parse_n_inv (parse_entry_x e) (ser_entry e) wf_entry) in H;
    [|intros b x r1 Hb; apply parse_entry_x_inv; exact Hb|exact Hn].
  destruct H as [-> [Hok [Hl Hlu]]].
  unfold ser_metadata, wf_metadata. rewrite Hl, <- app_assoc.
  split; [reflexivity|]. rewrite Hlu, Hok. reflexivity.
Qed.

(* ---- lead-in ------------------------------------------------------------------------ *)

Lemma s_enc_dec4 e vb : blen vb = 4 -> s_enc e 4 (s_dec e vb) = vb /\ is_i32 (s_dec e vb) = true.
Proof.
  intros Hl. pose proof (length_of_blen vb 4 Hl) as Hlen.
  pose proof (u_dec_range e vb) as Hr. rewrite Hlen, pow256_4 in Hr.
  unfold s_enc, s_dec, s_of_u, u_of_s. rewrite Hlen, pow256_4.
  change (4294967296 / 2) with 2147483648.
  destruct (u_dec e vb <? 2147483648) eqn:C.
  - split.
    + rewrite Z.mod_small by lia. rewrite <- Hlen. apply u_enc_dec.
    + apply is_i32_spec. lia.
  - split.
    + replace ((u_dec e vb - 4294967296) mod 4294967296) with (u_dec e vb).
      * rewrite <- Hlen. apply u_enc_dec.
      * apply Z.mod_unique with (q := -1); lia.
    + apply is_i32_spec. lia.
Qed.

Lemma parse_leadin_inv lb l :
  blen lb = 28 -> parse_leadin lb = Ok l -> ser_leadin l = lb /\ wf_leadin l = true.
Proof.
  intros H28. unfold parse_leadin.
  destruct (get_exact 4 lb) as [[tag r0]|] eqn:E0; cbn [bind]; [|discriminate].
  destruct (get_u32 LE r0) as [[toc r1]|] eqn:E1; cbn [bind]; [|discriminate].
  cbv zeta.
  destruct (get_exact 4 r1) as [[vb r2]|] eqn:E2; cbn [bind]; [|discriminate].
  destruct (get_u64 (toc_endian toc) r2) as [[nxt r3]|] eqn:E3; cbn [bind]; [|discriminate].
  destruct (get_u64 (toc_endian toc) r3) as [[raw r4]|] eqn:E4; cbn [bind]; [|discriminate].
  intros H. injection H as <-.
  apply get_exact_inv in E0. destruct E0 as [-> Htag].
  apply get_u32_inv in E1. destruct E1 as [-> Htoc].
  apply get_exact_inv in E2. destruct E2 as [-> Hvb].
  apply get_u64_inv in E3. destruct E3 as [-> Hnxt].
  apply get_u64_inv in E4. destruct E4 as [-> Hraw].
  destruct (s_enc_dec4 (toc_endian toc) vb Hvb) as [Henc Hi32].
  assert (r4 = []).
  { apply blen_nil_inv. unfold put_u32, put_u64 in H28.
    rewrite !blen_app, !blen_u_enc in H28. pose proof (blen_nonneg r4). lia. }
  subst r4. rewrite !app_nil_r.
  unfold ser_leadin, wf_leadin. cbn [l_tag l_toc l_version l_next l_raw].
  rewrite Henc. split; [reflexivity|].
  rewrite Htoc, Hi32, Hnxt, Hraw. lia.
Qed.

(* ---- one segment -------------------------------------------------------------------- *)

Lemma parse_meta_block_inv toc raw mb meta :
  blen mb = raw -> parse_meta_block toc raw mb = Ok meta ->
  match meta with
  | Some es => toc_has toc TOC_META = true /\ wf_metadata es = true /\
               ser_metadata (toc_endian toc) es = mb
  | None => toc_has toc TOC_META = false /\ mb = []
  end.
Proof.
  intros Hl. unfold parse_meta_block. destruct (toc_has toc TOC_META) eqn:Em.
  - destruct (parse_metadata_x (toc_endian toc) mb) as [[es rest]|] eqn:E; cbn [bind]; [|discriminate].
    destruct rest as [|b rest]; [|discriminate].
    intros H. injection H as <-.
    apply parse_metadata_x_inv in E. destruct E as [-> Hwf]. rewrite app_nil_r.
    repeat split. exact Hwf.
  - destruct (raw =? 0) eqn:Er; [|discriminate].
    intros H. injection H as <-. split; [reflexivity|]. apply blen_nil_inv. lia.
Qed.

Lemma parse_seg_inv bs s r :
  parse_seg bs = Ok (s, r) -> bs = ser_seg TAG_DATA true s ++ r /\ wf_fseg s = true.
Proof.
  unfold parse_seg.
  destruct (get_exact 28 bs) as [[lb r0]|] eqn:E0; cbn [bind]; [|discriminate].
  destruct (parse_leadin lb) as [l|] eqn:El; cbn [bind]; [|discriminate].
  destruct (negb (bytes_eqb (l_tag l) TAG_DATA)) eqn:Etag; [discriminate|].
  destruct (l_next l =? NEXT_UNKNOWN) eqn:Eunk; [discriminate|].
  destruct (l_next l <? l_raw l) eqn:Elt; [discriminate|].
  destruct (get_exact (l_raw l) r0) as [[mb r1]|] eqn:E1; cbn [bind]; [|discriminate].
  destruct (get_exact (l_next l - l_raw l) r1) as [[db r2]|] eqn:E2; cbn [bind]; [|discriminate].
  destruct (parse_meta_block (l_toc l) (l_raw l) mb) as [meta|] eqn:Em; cbn [bind]; [|discriminate].
  intros H. injection H as <- <-.
  apply get_exact_inv in E0. destruct E0 as [-> H28].
  apply (parse_leadin_inv lb l H28) in El. destruct El as [Hser Hwfl].
  apply get_exact_inv in E1. destruct E1 as [-> Hmb].
  apply get_exact_inv in E2. destruct E2 as [-> Hdb].
  apply (parse_meta_block_inv _ _ _ _ Hmb) in Em.
  apply negb_false_iff in Etag. apply bytes_eqb_eq in Etag.
  assert (Hmeta : fs_meta_bytes (mkFseg (l_toc l) (l_version l) meta db) = mb).
  { unfold fs_meta_bytes. cbn [fs_meta fs_toc]. destruct meta as [es|].
    - destruct Em as [_ [_ Hs]]. exact Hs.
    - destruct Em as [_ Hs]. symmetry. exact Hs. }
  split.
  - unfold ser_seg. rewrite Hmeta. cbn [fs_toc fs_version fs_data].
    replace (blen mb + blen db) with (l_next l) by lia. rewrite Hmb, <- Etag.
    replace (mkLeadin (l_tag l) (l_toc l) (l_version l) (l_next l) (l_raw l)) with l
      by (destruct l; reflexivity).
    rewrite Hser, <- !app_assoc. reflexivity.
  - unfold wf_fseg. rewrite Hmeta. cbn [fs_toc fs_version fs_meta fs_data].
    unfold wf_leadin in Hwfl. unfold NEXT_UNKNOWN in Eunk.
    assert (Hu : is_u64 (l_next l) = true) by lia. apply is_u64_spec in Hu.
    destruct meta as [es|].
    + destruct Em as [Hm [Hes _]]. rewrite Hm, Hes. lia.
    + destruct Em as [Hm _]. rewrite Hm. lia.
Qed.

(* ---- the whole stream: soundness ------------------------------------------------------ *)

Lemma parse_segs_inv : forall fuel bs segs,
  parse_segs fuel bs = Ok segs -> ser_file segs = bs /\ wf_file segs.
Proof.
  induction fuel as [|f IH]; intros bs segs H.
  - destruct bs as [|b bs]; cbn [parse_segs] in H; [|discriminate].
    injection H as <-. split; reflexivity.
  - destruct bs as [|b bs]; cbn [parse_segs] in H.
    + injection H as <-. split; reflexivity.
    + destruct (parse_seg (b :: bs)) as [[s r]|] eqn:Es; cbn [bind] in H; [|discriminate].
      destruct (parse_segs f r) as [ss|] eqn:Er; cbn [bind] in H; [|discriminate].
      injection H as <-.
      apply parse_seg_inv in Es. destruct Es as [Hb Hs].
      apply IH in Er. destruct Er as [Hr Hss].
      split.
      * unfold ser_file in *. cbn [flat_map]. rewrite Hr, Hb. reflexivity.
      * unfold wf_file in *. cbn [forallb]. rewrite Hs, Hss. reflexivity.
Qed.

Theorem parse_file_sound : forall b segs,
  parse_file b = Some segs -> ser_file segs = b /\ wf_file segs.
Proof.
  intros b segs H. unfold parse_file in H.
  destruct (parse_segs (length b) b) as [ss|] eqn:E; [|discriminate].
  injection H as <-. apply (parse_segs_inv _ _ _ E).
Qed.

(* ---- completeness --------------------------------------------------------------------- *)

Lemma get_string_x_put e s r :
  is_u32 (blen s) = true -> get_string_x e (put_string e s ++ r) = Ok (s, r).
Proof.
  intros H. unfold get_string_x, put_string. rewrite <- app_assoc.
  rewrite get_u32_put by exact H. cbn [bind]. apply get_exact_app. reflexivity.
Qed.

Lemma parse_prop_value_x_ser e ty v r :
  readable_prop_type ty = true -> prop_val_ok ty v = true ->
  parse_prop_value_x e ty (ser_prop_value e ty v ++ r) = Ok (v, r).
Proof.
  intros Hr Hv. unfold parse_prop_value_x. destruct (ty =? T_STRING) eqn:Es.
  - unfold ser_prop_value, prop_val_ok in *. rewrite Es in *. apply get_string_x_put. exact Hv.
  - apply parse_prop_value_ser; assumption.
Qed.

Lemma parse_prop_x_ser e p rest :
  wf_prop p = true -> parse_prop_x e (ser_prop e p ++ rest) = Ok (p, rest).
Proof.
  intros Hwf. pose proof (wf_prop_type_u32 p Hwf) as Hty.
  unfold wf_prop in Hwf. apply andb_prop in Hwf. destruct Hwf as [Hwf Hval].
  apply andb_prop in Hwf. destruct Hwf as [Hname Hread].
  unfold parse_prop_x, ser_prop. rewrite <- !app_assoc.
  rewrite get_string_x_put by exact Hname. cbn [bind].
  rewrite get_u32_put by exact Hty. cbn [bind].
  rewrite parse_prop_value_x_ser by assumption. cbn [bind].
  destruct p; reflexivity.
Qed.

Lemma parse_props_x_ser e ps rest :
  len_u32 ps = true -> forallb wf_prop ps = true ->
  parse_props_x e (put_u32 e (Z.of_nat (length ps)) ++ flat_map (ser_prop e) ps ++ rest) = Ok (ps, rest).
Proof.
  intros Hl Hps. unfold parse_props_x. rewrite get_u32_put by exact Hl. cbn [bind].
  apply parse_n_ser with (ok := wf_prop).
  - intros x r Hx. apply parse_prop_x_ser. exact Hx.
  - apply ser_prop_length_ge.
  - exact Hps.
Qed.

Lemma parse_entry_x_ser e x rest :
  wf_entry x = true -> parse_entry_x e (ser_entry e x ++ rest) = Ok (x, rest).
Proof.
  intros Hwf. unfold wf_entry in Hwf.
  apply andb_prop in Hwf. destruct Hwf as [Hwf Hps].
  apply andb_prop in Hwf. destruct Hwf as [Hwf Hpl].
  apply andb_prop in Hwf. destruct Hwf as [Hpath Hidx].
  unfold parse_entry_x, ser_entry. rewrite <- !app_assoc.
  rewrite get_string_x_put by exact Hpath. cbn [bind].
  rewrite parse_idx_ser by exact Hidx. cbn [bind].
  rewrite parse_props_x_ser by assumption. cbn [bind].
  destruct x; reflexivity.
Qed.

Lemma parse_metadata_x_ser e es rest :
  wf_metadata es = true -> parse_metadata_x e (ser_metadata e es ++ rest) = Ok (es, rest).
Proof.
  intros Hwf. unfold wf_metadata in Hwf.
  apply andb_prop in Hwf. destruct Hwf as [Hl Hes].
  unfold parse_metadata_x, ser_metadata. rewrite <- app_assoc.
  rewrite get_u32_put by exact Hl. cbn [bind].
  apply parse_n_ser with (ok := wf_entry).
  - intros x r Hx. apply parse_entry_x_ser. exact Hx.
  - apply ser_entry_length_ge.
  - exact Hes.
Qed.

Lemma parse_seg_ser s rest :
  wf_fseg s = true -> parse_seg (ser_seg TAG_DATA true s ++ rest) = Ok (s, rest).
Proof.
  intros Hwf.
  pose proof (wf_seg_leadin false s Hwf) as HwfL. cbn [tag_of] in HwfL.
  pose proof (ser_leadin_length _ HwfL) as HlenL.
  apply wf_fseg_spec in Hwf. destruct Hwf as [Htoc [Hver [Hlen Hmeta]]].
  pose proof (blen_nonneg (fs_meta_bytes s)) as Hm0.
  pose proof (blen_nonneg (fs_data s)) as Hd0.
  rewrite ser_seg_eq. set (L := seg_leadin TAG_DATA s) in *.
  unfold parse_seg. rewrite <- !app_assoc.
  rewrite get_exact_app by exact HlenL. cbn [bind].
  rewrite (parse_leadin_ser L HwfL). cbn [bind].
  unfold L, seg_leadin. cbn [l_tag l_toc l_version l_next l_raw].
  rewrite bytes_eqb_refl. cbn [negb].
  replace (blen (fs_meta_bytes s) + blen (fs_data s) =? NEXT_UNKNOWN) with false
    by (unfold NEXT_UNKNOWN; lia).
  replace (blen (fs_meta_bytes s) + blen (fs_data s) <? blen (fs_meta_bytes s)) with false by lia.
  rewrite get_exact_app by reflexivity. cbn [bind].
  rewrite get_exact_app by lia. cbn [bind].
  unfold parse_meta_block, fs_meta_bytes. destruct (fs_meta s) as [es|] eqn:Hm.
  - destruct Hmeta as [Hflag Hes]. rewrite Hflag.
    rewrite <- (app_nil_r (ser_metadata _ es)).
    rewrite (parse_metadata_x_ser _ es [] Hes). cbn [bind].
    destruct s; cbn in *; subst; reflexivity.
  - rewrite Hmeta. cbn [blen length Z.of_nat Z.eqb bind].
    destruct s; cbn in *; subst; reflexivity.
Qed.

Lemma ser_seg_nonempty s : ser_seg TAG_DATA true s <> [].
Proof.
  intros H. pose proof (ser_seg_length_ge TAG_DATA true s) as Hl. rewrite H in Hl. cbn in Hl. lia.
Qed.

Lemma parse_segs_ser : forall segs fuel,
  wf_file segs -> (length segs <= fuel)%nat -> parse_segs fuel (ser_file segs) = Ok segs.
Proof.
  induction segs as [|s r IH]; intros fuel Hwf Hfuel.
  - destruct fuel; reflexivity.
  - unfold wf_file in Hwf. cbn [forallb] in Hwf. apply andb_prop in Hwf. destruct Hwf as [Hs Hr].
    cbn [length] in Hfuel. destruct fuel as [|f]; [lia|].
    unfold ser_file. cbn [flat_map]. fold (ser_file r).
    destruct (ser_seg TAG_DATA true s ++ ser_file r) as [|b bs] eqn:Eb.
    + apply app_eq_nil in Eb. destruct Eb as [Eb _]. exfalso. exact (ser_seg_nonempty s Eb).
    + cbn [parse_segs]. rewrite <- Eb. rewrite (parse_seg_ser s _ Hs). cbn [bind].
      rewrite IH by (try exact Hr; lia). reflexivity.
Qed.

Theorem parse_file_complete : forall segs,
  wf_file segs -> parse_file (ser_file segs) = Some segs.
Proof.
  intros segs Hwf. unfold parse_file.
  rewrite (parse_segs_ser segs _ Hwf); [reflexivity|].
  rewrite ser_file_segs. apply ser_segs_length_ge.
Qed.

Theorem parse_file_iff : forall b segs,
  parse_file b = Some segs <-> (b = ser_file segs /\ wf_file segs).
Proof.
  intros b segs. split.
  - intros H. apply parse_file_sound in H. destruct H as [H1 H2]. split; [symmetry|]; assumption.
  - intros [-> Hwf]. apply parse_file_complete. exact Hwf.
Qed.

(* the syntax of an accepted stream is unique, and so is the stream of a syntax *)
Theorem ser_file_injective : forall segs segs',
  wf_file segs -> wf_file segs' -> ser_file segs = ser_file segs' -> segs = segs'.
Proof.
  intros segs segs' H H' E. apply parse_file_complete in H. apply parse_file_complete in H'.
  rewrite E in H. rewrite H in H'. injection H' as ->. reflexivity.
Qed.

(* the fuel never runs out on an accepted or rejected stream: more fuel, same answer *)
Lemma parse_segs_some_fuel : forall fuel bs segs,
  parse_segs fuel bs = Ok segs -> forall fuel', (length segs <= fuel')%nat -> parse_segs fuel' bs = Ok segs.
Proof.
  intros fuel bs segs H fuel' Hf. apply parse_segs_inv in H. destruct H as [<- Hwf].
  apply parse_segs_ser; assumption.
Qed.

(* ---- the strict lexer against the lenient one of Tokens.v ----------------------------- *)

Lemma get_string_x_lenient e bs y : get_string_x e bs = Ok y -> get_string e bs = Ok y.
Proof.
  unfold get_string_x, get_string.
  destruct (get_u32 e bs) as [[n r]|]; cbn [bind]; [|discriminate].
  unfold get_exact. destruct (get_raw n r) as [x r']. destruct (blen x =? n); [|discriminate].
  intros H. exact H.
Qed.

Lemma repeat_parse_mono {A} (p q : bytes -> res (A * bytes)) :
  (forall b y, p b = Ok y -> q b = Ok y) ->
  forall fuel n bs y, repeat_parse p fuel n bs = Ok y -> repeat_parse q fuel n bs = Ok y.
Proof.
  intros Hpq. induction fuel as [|f IH]; intros n bs y H.
  - cbn [repeat_parse] in *. destruct (n <=? 0); [exact H|discriminate].
  - cbn [repeat_parse] in *. destruct (n <=? 0); [exact H|].
    destruct (p bs) as [[x b1]|] eqn:Ep; cbn [bind] in H; [|discriminate].
    rewrite (Hpq _ _ Ep). cbn [bind].
    destruct (repeat_parse p f (n - 1) b1) as [[ys b2]|] eqn:Er; cbn [bind] in H; [|discriminate].
    rewrite (IH _ _ _ Er). cbn [bind]. exact H.
Qed.

Lemma parse_prop_x_lenient e bs y : parse_prop_x e bs = Ok y -> parse_prop e bs = Ok y.
Proof.
  unfold parse_prop_x, parse_prop.
  destruct (get_string_x e bs) as [[name r1]|] eqn:E1; cbn [bind]; [|discriminate].
  rewrite (get_string_x_lenient _ _ _ E1). cbn [bind].
  destruct (get_u32 e r1) as [[ty r2]|]; cbn [bind]; [|discriminate].
  destruct (parse_prop_value_x e ty r2) as [[v r3]|] eqn:E3; cbn [bind]; [|discriminate].
  assert (Hv : parse_prop_value e ty r2 = Ok (v, r3)).
  { unfold parse_prop_value_x in E3. destruct (ty =? T_STRING) eqn:Es; [|exact E3].
    assert (ty = T_STRING) by lia. subst ty. unfold parse_prop_value. cbn [tds_size T_STRING].
    cbn. apply get_string_x_lenient. exact E3. }
  rewrite Hv. cbn [bind]. intros H. exact H.
Qed.

Lemma parse_entry_x_lenient e bs y : parse_entry_x e bs = Ok y -> parse_entry e bs = Ok y.
Proof.
  unfold parse_entry_x, parse_entry.
  destruct (get_string_x e bs) as [[path r1]|] eqn:E1; cbn [bind]; [|discriminate].
  rewrite (get_string_x_lenient _ _ _ E1). cbn [bind].
  destruct (parse_idx e r1) as [[i r2]|]; cbn [bind]; [|discriminate].
  destruct (parse_props_x e r2) as [[ps r3]|] eqn:E3; cbn [bind]; [|discriminate].
  assert (Hp : parse_props e r2 = Ok (ps, r3)).
  { unfold parse_props_x, parse_props in *.
    destruct (get_u32 e r2) as [[n r]|]; cbn [bind] in *; [|discriminate].
    unfold parse_n in *. apply (repeat_parse_mono (parse_prop_x e) (parse_prop e)); [|exact E3].
    intros b y0 Hb. apply parse_prop_x_lenient. exact Hb. }
  rewrite Hp. cbn [bind]. intros H. exact H.
Qed.

(* where the strict lexer succeeds, the reader's lexer returns the same *)
Theorem parse_metadata_x_lenient : forall e bs y,
  parse_metadata_x e bs = Ok y -> parse_metadata e bs = Ok y.
Proof.
  intros e bs y. unfold parse_metadata_x, parse_metadata.
  destruct (get_u32 e bs) as [[n r]|]; cbn [bind]; [|discriminate].
  unfold parse_n. apply repeat_parse_mono. intros b y0 Hb. apply parse_entry_x_lenient. exact Hb.
Qed.

(* ---- cuts ------------------------------------------------------------------------------ *)

Lemma ser_file_app a b : ser_file (a ++ b) = ser_file a ++ ser_file b.
Proof. unfold ser_file. apply flat_map_app. Qed.

Lemma wf_file_app a b : wf_file (a ++ b) <-> wf_file a /\ wf_file b.
Proof. unfold wf_file. rewrite forallb_app. split; [apply andb_prop|intros [-> ->]; reflexivity]. Qed.

Lemma wf_file_firstn j segs : wf_file segs -> wf_file (firstn j segs).
Proof.
  intros H. rewrite <- (firstn_skipn j segs) in H. apply wf_file_app in H. apply H.
Qed.

(* a well-formed serialisation that is a prefix of another one is the
   serialisation of a prefix of the segment list *)
Lemma ser_file_prefix : forall segs' segs t,
  wf_file segs' -> wf_file segs -> ser_file segs = ser_file segs' ++ t ->
  exists r, segs = segs' ++ r.
Proof.
  induction segs' as [|s' r' IH]; intros segs t H' H E.
  - exists segs. reflexivity.
  - unfold wf_file in H'. cbn [forallb] in H'. apply andb_prop in H'. destruct H' as [Hs' Hr'].
    destruct segs as [|s r].
    + exfalso. unfold ser_file in E. cbn [flat_map] in E. symmetry in E.
      apply app_eq_nil in E. destruct E as [E _]. apply app_eq_nil in E. destruct E as [E _].
      exact (ser_seg_nonempty s' E).
    + unfold wf_file in H. cbn [forallb] in H. apply andb_prop in H. destruct H as [Hs Hr].
      unfold ser_file in E. cbn [flat_map] in E. fold (ser_file r) in E. fold (ser_file r') in E.
      rewrite <- app_assoc in E.
      pose proof (parse_seg_ser s (ser_file r) Hs) as P1.
      pose proof (parse_seg_ser s' (ser_file r' ++ t) Hs') as P2.
      rewrite E in P1. rewrite P1 in P2. injection P2 as -> E2.
      destruct (IH r t Hr' Hr E2) as [q ->]. exists q. reflexivity.
Qed.

Lemma blen_ser_file_cons' s r :
  wf_fseg s = true ->
  blen (ser_file (s :: r)) = 28 + blen (fs_meta_bytes s) + blen (fs_data s) + blen (ser_file r).
Proof. apply blen_ser_file_cons. Qed.

Lemma cut_boundary_spec : forall segs k j,
  wf_file segs ->
  (cut_boundary segs k = Some j <-> (j <= length segs)%nat /\ k = blen (ser_file (firstn j segs))).
Proof.
  induction segs as [|s r IH]; intros k j Hwf.
  - cbn [cut_boundary]. destruct (k =? 0) eqn:Ek.
    + split.
      * intros H. injection H as <-. split; [cbn; lia|]. cbn. lia.
      * intros [Hj Hk]. cbn [length] in Hj. assert (j = O) by lia. subst. reflexivity.
    + split; [discriminate|]. intros [Hj Hk]. rewrite firstn_nil in Hk. cbn in Hk. lia.
  - unfold wf_file in Hwf. cbn [forallb] in Hwf. apply andb_prop in Hwf. destruct Hwf as [Hs Hr].
    pose proof (blen_nonneg (fs_meta_bytes s)) as Hm0.
    pose proof (blen_nonneg (fs_data s)) as Hd0.
    cbn [cut_boundary]. destruct (k =? 0) eqn:Ek.
    + split.
      * intros H. injection H as <-. split; [lia|]. cbn. lia.
      * intros [Hj Hk]. destruct j as [|j]; [reflexivity|].
        cbn [firstn] in Hk. rewrite (blen_ser_file_cons' s _ Hs) in Hk.
        pose proof (blen_nonneg (ser_file (firstn j r))). lia.
    + cbv zeta. destruct (k <? 28 + blen (fs_meta_bytes s) + blen (fs_data s)) eqn:Elt.
      * split; [discriminate|]. intros [Hj Hk]. destruct j as [|j]; [cbn in Hk; lia|].
        cbn [firstn] in Hk. rewrite (blen_ser_file_cons' s _ Hs) in Hk.
        pose proof (blen_nonneg (ser_file (firstn j r))). lia.
      * destruct (cut_boundary r (k - (28 + blen (fs_meta_bytes s) + blen (fs_data s)))) as [j'|] eqn:Ec.
        -- apply (IH _ _ Hr) in Ec. destruct Ec as [Hj' Hk'].
           split.
           ++ intros H. injection H as <-. cbn [length firstn]. split; [lia|].
              rewrite (blen_ser_file_cons' s _ Hs). lia.
           ++ intros [Hj Hk]. destruct j as [|j]; [cbn in Hk; lia|].
              cbn [firstn length] in Hk, Hj. rewrite (blen_ser_file_cons' s _ Hs) in Hk.
              assert (Hc : cut_boundary r (k - (28 + blen (fs_meta_bytes s) + blen (fs_data s))) = Some j).
              { apply (IH _ _ Hr). split; [lia|lia]. }
              rewrite (proj2 (IH _ _ Hr) (conj Hj' Hk')) in Hc. injection Hc as ->. reflexivity.
        -- split; [discriminate|]. intros [Hj Hk]. destruct j as [|j]; [cbn in Hk; lia|].
           cbn [firstn length] in Hk, Hj. rewrite (blen_ser_file_cons' s _ Hs) in Hk.
           assert (Hc : cut_boundary r (k - (28 + blen (fs_meta_bytes s) + blen (fs_data s))) = Some j).
           { apply (IH _ _ Hr). split; [lia|lia]. }
           rewrite Hc in Ec. discriminate.
Qed.

Lemma take_ser_file_firstn j segs :
  take (blen (ser_file (firstn j segs))) (ser_file segs) = ser_file (firstn j segs).
Proof.
  rewrite <- (firstn_skipn j segs) at 2. rewrite ser_file_app. apply take_app_exact.
Qed.

(* A cut of an accepted stream is accepted exactly when it falls on a segment
   boundary, and then it is the stream of the segments before the cut. *)
Theorem parse_file_cut : forall b segs k,
  parse_file b = Some segs -> 0 <= k <= blen b ->
  parse_file (take k b) =
  match cut_boundary segs k with
  | Some j => Some (firstn j segs)
  | None => None
  end.
Proof.
  intros b segs k Hp Hk. apply parse_file_sound in Hp. destruct Hp as [<- Hwf].
  destruct (cut_boundary segs k) as [j|] eqn:Ec.
  - apply (cut_boundary_spec _ _ _ Hwf) in Ec. destruct Ec as [Hj ->].
    rewrite take_ser_file_firstn. apply parse_file_complete. apply wf_file_firstn. exact Hwf.
  - destruct (parse_file (take k (ser_file segs))) as [segs'|] eqn:Ep; [|reflexivity].
    exfalso. apply parse_file_sound in Ep. destruct Ep as [Hser Hwf'].
    assert (E : ser_file segs = ser_file segs' ++ drop k (ser_file segs)).
    { rewrite Hser. symmetry. apply take_drop. }
    destruct (ser_file_prefix _ _ _ Hwf' Hwf E) as [r Hr].
    assert (Hc : cut_boundary segs k = Some (length segs')).
    { apply (cut_boundary_spec _ _ _ Hwf). split.
      - rewrite Hr, app_length. lia.
      - rewrite Hr, firstn_app, Nat.sub_diag, firstn_all. cbn [firstn]. rewrite app_nil_r.
        rewrite Hser. symmetry. apply blen_take. exact Hk. }
    rewrite Hc in Ec. discriminate.
Qed.

(* in particular: a cut strictly inside a segment is not in the parser's domain *)
Corollary parse_file_cut_inside : forall b segs k,
  parse_file b = Some segs -> 0 <= k <= blen b ->
  (forall j, (j <= length segs)%nat -> k <> blen (ser_file (firstn j segs))) ->
  parse_file (take k b) = None.
Proof.
  intros b segs k Hp Hk Hno. rewrite (parse_file_cut b segs k Hp Hk).
  destruct (cut_boundary segs k) as [j|] eqn:Ec; [|reflexivity].
  apply parse_file_sound in Hp. destruct Hp as [_ Hwf].
  apply (cut_boundary_spec _ _ _ Hwf) in Ec. destruct Ec as [Hj Hkj].
  exfalso. exact (Hno j Hj Hkj).
Qed.

(* ... and a cut on a boundary is *)
Corollary parse_file_cut_boundary : forall b segs j,
  parse_file b = Some segs -> (j <= length segs)%nat ->
  parse_file (take (blen (ser_file (firstn j segs))) b) = Some (firstn j segs).
Proof.
  intros b segs j Hp Hj. apply parse_file_sound in Hp. destruct Hp as [<- Hwf].
  rewrite take_ser_file_firstn. apply parse_file_complete. apply wf_file_firstn. exact Hwf.
Qed.
