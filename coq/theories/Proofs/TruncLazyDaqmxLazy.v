(* C11: lazy windows and chunk streams of DAQmx channels.

   TdmsChannel.read_data(offset, length, scaled=False) on a file opened with
   TdmsFile.open returns, for a channel of type DaqMxRawData, a dictionary
   scale id -> raw scaler values (tdms.py read_data / _read_channel_data: the
   DaqmxDataReceiver gets, for every chunk the generator
   reader.read_raw_data_for_channel yields, chunk.scaler_data[id] after
   _trim_channel_chunk cut EVERY scaler array of the chunk by the same skip/trim).
   Model/LazyBytes.v covers plain data only (chunk_vals).  Here:

     scaler_chunk_vals p id c   what one decoded chunk holds under (path, scale id)
     segv_of_scaler             the per-segment view of ONE scaler, computed like
                                LazyBytes.segv_of from the reader state and the bytes
                                (DaqmxDataReader yields one chunk object per chunk)
     lz_read_scaler_bytes       read_data(offs, len, scaled=False)[id]: the window
                                reader LazyRead.lz_read (the line-by-line model of
                                read_raw_data_for_channel, NumPy receiver) on that view;
                                KeyError when the channel is not DaqMxRawData or has
                                no scaler with that id
     segv_of_scaler_content     one segment of either kind (ordinary, or readable
                                DAQmx): the view is well formed and holds exactly the
                                directly addressed values of ReadCorrectDaqmx.direct_chunks
     daqmx_lazy_windows         on the bytes of a serialised file (hypotheses of
                                read_correct_daqmx + no object list names a path twice):
                                every window of every scaler of every DaqMxRawData
                                channel = the window of the eager per-scaler values
     daqmx_chunk_stream         the chunk stream (offset 0, no length) concatenates to
                                the eager per-scaler values. *)
From Coq Require Import List ZArith Bool Lia ZifyBool.
From Coq Require Import Init.Byte.
Import ListNotations.
From NpTdms Require Import Base.Bytes Base.Res Base.PySlice Model.Tokens Model.TokensWf Model.SegState
     Model.Layout Model.Reader Model.FileSyn Model.LazyRead Model.LazyBytes
     Proofs.TokensRoundtrip Proofs.SegStateProofs Proofs.LayoutProofs Proofs.FileSynProofs
     Proofs.SegStateInherit Proofs.DaqmxProofs Proofs.TruncProofs Proofs.ReadCorrect Proofs.ReadCorrectDaqmx
     Proofs.TruncValuesLayout
     Proofs.LazyReadLemmas Proofs.LazyReadProofs Proofs.LazyTopProofs Proofs.LazyWindowProofs
     Proofs.LazyEagerIndex Proofs.LazyEagerView Proofs.LazyEagerTop Proofs.TruncLazyLayout.
Local Open Scope Z_scope.
Ltac Zify.zify_post_hook ::= Z.to_euclidean_division_equations.

(* ======================================================================== *)
(* The model of the lazy scaler read                                          *)
(* ======================================================================== *)

(* RawChannelDataChunk.scaler_data[id] of the chunk's entry for the path *)
Definition scaler_chunk_vals (path : bytes) (id : Z) (c : chunk) : list bytes :=
  match alookup path c with
  | Some (CScalers l) => match zfind id l with Some vs => vs | None => [] end
  | _ => []
  end.

Definition segv_of_scaler (data path : bytes) (id : Z) (s : segment) : res (segv bytes) :=
  let chunk := match segment_object s path with
               | Some o => if so_has_data o then so_nvals o else 0
               | None => 0
               end in
  let final := match sg_final s with
               | Some f => Some (match alookup path f with Some v => v | None => 0 end)
               | None => None
               end in
  if chunk =? 0 then Ok (mk_segv (V:=bytes) 0 (sg_nchunks s) final false (fit_chunks (Z.to_nat (sg_nchunks s)) []))
  else
    do cs <- read_segment data s;
    Ok (mk_segv (V:=bytes) chunk (sg_nchunks s) final false
                (fit_chunks (Z.to_nat (sg_nchunks s)) (map (scaler_chunk_vals path id) cs))).

Definition scaler_view (data path : bytes) (id : Z) : res (list (segv bytes) * option ometa) :=
  do st <- rd_metadata data false (Some (blen data)) true;
  do svs <- mapM (segv_of_scaler data path id) (rs_segments st);
  Ok (svs, alookup path (rs_om st)).

Definition has_scaler (m : ometa) (id : Z) : bool :=
  oz_eqb (om_dtype m) (Some T_DAQMX) &&
  match om_scalers m with Some sts => existsb (fun kv => fst kv =? id) sts | None => false end.

(* channel.read_data(offset, length, scaled=False)[id] on TdmsFile.open(stream) *)
Definition lz_read_scaler_bytes (data path : bytes) (id : Z) (offs : Z) (len : option Z) : res (list bytes) :=
  do '(svs, m) <- scaler_view data path id;
  match m with
  | Some m => if has_scaler m id then lz_read bytes zero_value RNumpy svs offs len else Err EKey
  | None => Err EKey
  end.

(* for chunk in channel.data_chunks(): chunk.scaler_data[id] -- the generator with
   offset 0 and no length *)
Definition lz_scaler_chunks (data path : bytes) (id : Z) : res (list (list bytes)) :=
  do '(svs, m) <- scaler_view data path id;
  match m with
  | Some m => if has_scaler m id then do '(chunks, _) <- lz_gen bytes true true svs 0 None; Ok chunks
              else Err EKey
  | None => Err EKey
  end.

Lemma segv_of_scaler_unfold D p id g :
  segv_of_scaler D p id g =
  (if chunk_of_view g p =? 0
   then Ok (mk_segv 0 (sg_nchunks g) (final_of p (sg_final g)) false
                    (fit_chunks (Z.to_nat (sg_nchunks g)) []))
   else
     do cs <- read_segment D g;
     Ok (mk_segv (chunk_of_view g p) (sg_nchunks g) (final_of p (sg_final g)) false
                 (fit_chunks (Z.to_nat (sg_nchunks g)) (map (scaler_chunk_vals p id) cs)))).
Proof. reflexivity. Qed.

(* ======================================================================== *)
(* One chunk                                                                  *)
(* ======================================================================== *)

Lemma scaler_chunk_vals_shape objs c p id :
  chunk_shape objs c -> scaler_chunk_vals p id c = chunk_scaler_values p id c.
Proof.
  intros [Hnd Hent]. rewrite (chunk_scaler_values_lookup p id c Hnd). unfold scaler_chunk_vals.
  destruct (alookup p c) as [[vs|l]|] eqn:El; try reflexivity.
  apply alookup_In in El. rewrite Forall_forall in Hent.
  destruct (Hent _ El) as [(l0 & o0 & Hl0 & _ & _ & _ & Hnd0 & _)|(vs0 & o0 & Hv0 & _)];
    cbn [fst snd] in *; [|discriminate].
  injection Hl0 as <-. rewrite (sc_values_zfind id l Hnd0). reflexivity.
Qed.

Lemma scaler_chunk_vals_only_cdata c p id : only_cdata c -> scaler_chunk_vals p id c = [].
Proof.
  intros H. unfold scaler_chunk_vals. destruct (alookup p c) as [[vs|l]|] eqn:El; try reflexivity.
  apply alookup_In in El. unfold only_cdata in H. rewrite Forall_forall in H.
  destruct (H _ El) as [vs Hvs]. discriminate Hvs.
Qed.

(* under the path of a DaqMxRawData object with that scale id, every direct chunk
   holds number_values values *)
Lemma direct_chunk_scaler_count g data p id j :
  daqmx_seg_ok g data -> raw_view p id g ->
  Z.of_nat (length (chunk_scaler_values p id
                      (direct_chunk (toc_endian (sg_toc g)) (data_objs (sg_objs g))
                                    (dims_spec (data_objs (sg_objs g))) data j)))
  = path_count p so_nvals (data_objs (sg_objs g)).
Proof.
  intros Hok Hview.
  rewrite chunk_scaler_values_direct_chunk. pose proof Hok as (_ & Hnd & _).
  destruct (path_in_dec p (data_objs (sg_objs g))) as [(o & Ho & Hp)|Habs].
  - rewrite (path_count_unique p so_nvals _ o Hnd Ho Hp). subst p.
    rewrite (flat_map_unique so_path
               (fun o0 => chunk_scaler_values (so_path o) id
                            (direct_obj_entries (toc_endian (sg_toc g))
                               (dims_spec (data_objs (sg_objs g))) data j o0)) _ o Hnd Ho).
    2:{ intros y _ Hne. exact (proj2 (direct_entries_other _ _ _ _ y (so_path o) Hne) id). }
    pose proof (daqmx_seg_ok_kinds g data Hok) as Hk. rewrite Forall_forall in Hk.
    destruct (Hk o Ho) as (q & Hq & Hids & Hkind).
    assert (Hty : so_dtype o <> None) by (destruct Hkind as [H|(s & dt & _ & H & _)]; rewrite H; discriminate).
    destruct (Hview o Ho eq_refl Hty) as (Hraw & q' & Hq' & Hin).
    rewrite Hq in Hq'. injection Hq' as <-.
    rewrite (proj2 (direct_entries_raw _ _ _ _ o q Hq Hraw) id).
    apply in_map_iff in Hin. destruct Hin as (s & Hsid & Hs).
    rewrite (flat_map_unique sc_id _ _ s Hids Hs).
    + replace (sc_id s =? id) with true by lia.
      destruct (obj_nvals_nonneg g data o q s Hok Ho Hq Hs) as [Hso Hnv].
      rewrite (direct_scaler_chunk_length _ _ _ _ _ _ _ Hso). lia.
    + intros y _ Hy. replace (sc_id y =? id) with false by lia. reflexivity.
  - rewrite (ReadCorrectDaqmx.path_count_absent p so_nvals _ Habs).
    rewrite flat_map_all_nil; [reflexivity|]. intros y Hy.
    exact (proj2 (direct_entries_other _ _ _ _ y p (Habs y Hy)) id).
Qed.

(* a data object without data type in an encoded segment: the segment has no chunk *)
Lemma seg_encodes_untyped g data cs o :
  seg_encodes g data cs -> In o (data_objs (sg_objs g)) -> so_dtype o = None -> cs = [] /\ data = [].
Proof.
  intros [Hd Hdata | css Hlay Hpos Hnd Hok Hds Hdata
          | nv m rows Hlay Hne Hnv Hm Hobjs Hsz Hnd Hrows Hlen Hdata] Ho Hty.
  - split; [reflexivity|exact Hdata].
  - destruct css as [|vss css']; [split; [reflexivity|subst data; reflexivity]|].
    exfalso. inversion Hok as [|x l Hv _]; subst x l.
    destruct (Forall2_in_l _ _ _ _ Hv Ho) as (vs & _ & Hvs). exact (vals_ok_dtype _ _ _ Hvs Hty).
  - exfalso. rewrite Forall_forall in Hsz. exact (sized_dtype o (Hsz o Ho) Hty).
Qed.

(* ======================================================================== *)
(* One segment                                                                *)
(* ======================================================================== *)

Lemma zlen_map_const {A} (f : A -> list bytes) (k : Z) (l : list A) :
  (forall x, In x l -> zlen (f x) = k) -> Forall (fun c => zlen c = k) (map f l).
Proof. intros H. apply Forall_map. apply Forall_forall. exact H. Qed.

Lemma concat_len_const (k : Z) (l : list (list bytes)) :
  Forall (fun c => zlen c = k) l -> Z.of_nat (length (concat l)) = k * Z.of_nat (length l).
Proof.
  induction 1 as [|c l Hc _ IH]; [cbn; lia|].
  cbn [concat length]. rewrite app_length. unfold zlen in Hc. lia.
Qed.

Theorem segv_of_scaler_content pre s rest g cs p id :
  wf_fseg s = true ->
  seg_at (blen pre) s g ->
  seg_content g s cs ->
  seg_ready g ->
  raw_view p id g ->
  exists sv, segv_of_scaler (pre ++ ser_seg TAG_DATA true s ++ rest) p id g = Ok sv /\
             wf_seg bytes sv = true /\
             seg_vals bytes sv = chan_scaler_values p id cs /\
             number_of_segment_values bytes sv = seg_total p g.
Proof.
  intros Hwf Hat Hcon (Hnd & Hidx & Hnv) Hview.
  pose proof Hat as (_ & _ & _ & _ & _ & Hcc).
  pose proof (seg_content_count_raw g s cs (blen pre) p id Hat Hcon Hview) as Hcount.
  pose proof (data_objs_nodup _ Hnd) as Hndd.
  set (dobjs := data_objs (sg_objs g)) in *.
  set (K := path_count p so_nvals dobjs).
  assert (HK0 : 0 <= K).
  { apply path_count_nonneg. apply Forall_forall. intros o Ho. rewrite Forall_forall in Hnv.
    exact (Hnv o (data_objs_sub _ o Ho)). }
  (* no override, and the credit of the metadata pass *)
  assert (Hcommon : sg_final g = None /\ 0 <= sg_nchunks g).
  { destruct Hcon as [cs0 Henc|Hok].
    - destruct (seg_encodes_chunks g (fs_data s) cs0 p Henc Hcc Hnv) as (Hf & Hn & _). split; assumption.
    - destruct (daqmx_seg_ok_nchunks g (fs_data s) Hok Hcc) as (Hf & Hn & _). split; assumption. }
  destruct Hcommon as [Hfin Hn0].
  assert (Htot : seg_total p g = sg_nchunks g * K).
  { unfold seg_total. rewrite Hfin, obj_total_data_objs.
    apply (obj_total_no_final p _ _ (data_objs_have_data _)). }
  rewrite segv_of_scaler_unfold, (chunk_of_view_count g p Hidx Hnd). fold dobjs K. rewrite Hfin.
  cbn [final_of].
  destruct (Z.eq_dec K 0) as [HK|HK].
  - (* nothing under this path in this segment *)
    rewrite HK. cbn [Z.eqb]. eexists. split; [reflexivity|].
    unfold wf_seg, seg_vals, number_of_segment_values.
    cbn [sv_chunk sv_nchunks sv_final sv_vals sv_interleaved Z.eqb].
    split; [|split].
    + unfold zlen. rewrite fit_chunks_nil_length.
      rewrite (chunks_ok_const 0 _ (fit_chunks_nil_all _)). lia.
    + rewrite fit_chunks_nil_concat. symmetry. apply length_zero_nil. rewrite Hcount, Htot, HK. lia.
    + rewrite Htot, HK. lia.
  - replace (K =? 0) with false by lia.
    rewrite (read_segment_ser pre s rest g Hwf Hat).
    destruct Hcon as [cs0 Henc|Hok].
    + (* an ordinary segment: the object under this path has no data type, no chunk *)
      rewrite (seg_encodes_read g (fs_data s) cs0 rest Henc Hcc). cbn [bind].
      pose proof HK as HK'. unfold K in HK'. rewrite (path_count_obj p _ _ Hndd) in HK'.
      destruct (obj_for p dobjs) as [o|] eqn:Eo; [|contradiction].
      pose proof (obj_for_some _ _ _ Eo) as [Ho Hpo].
      assert (Hunt : so_dtype o = None).
      { destruct (so_dtype o) as [dt|] eqn:Edt; [|reflexivity]. exfalso.
        destruct (Hview o Ho Hpo ltac:(rewrite Edt; discriminate)) as (_ & q & Hq & _).
        rewrite (seg_encodes_no_daqmx g _ cs0 Henc o Ho) in Hq. discriminate. }
      destruct (seg_encodes_untyped g _ cs0 o Henc Ho Hunt) as [-> Hdata].
      assert (Hn : sg_nchunks g = 0).
      { rewrite Hdata in Hcc. change (blen []) with 0 in Hcc.
        unfold calculate_chunks in Hcc. destruct (chunk_size (sg_objs g)) as [csz|]; cbn [bind] in Hcc; [|discriminate].
        destruct ((csz <? 0) || (0 <? 0)); [discriminate|].
        destruct (csz =? 0) eqn:E0; [cbn in Hcc; injection Hcc as <- _; reflexivity|].
        rewrite Z.mod_0_l in Hcc by lia. cbn [Z.eqb] in Hcc. rewrite Z.div_0_l in Hcc by lia.
        injection Hcc as <- _. reflexivity. }
      rewrite Hn. cbn [Z.to_nat map fit_chunks].
      eexists. split; [reflexivity|].
      unfold wf_seg, seg_vals, number_of_segment_values.
      cbn [sv_chunk sv_nchunks sv_final sv_vals sv_interleaved chunks_ok concat].
      split; [|split; [reflexivity|]].
      * unfold zlen. cbn [length]. lia.
      * replace (K =? 0) with false by lia. rewrite Htot, Hn. lia.
    + (* a DAQmx segment *)
      destruct (daqmx_seg_decodes g (fs_data s) rest Hok Hcc) as (cs_dec & cur' & Hread & Hext & Hshape).
      rewrite Hread. cbn [bind].
      destruct (daqmx_seg_total g (fs_data s) p Hok Hcc) as (_ & _ & Hlen).
      pose proof (Forall2_length _ _ _ Hext) as Hl2.
      assert (Hl : length (map (scaler_chunk_vals p id) cs_dec) = Z.to_nat (sg_nchunks g)).
      { rewrite map_length, Hl2, Hlen. reflexivity. }
      assert (Hall : Forall (fun c => zlen c = K) (map (scaler_chunk_vals p id) cs_dec)).
      { apply Forall_map. apply Forall_forall. intros c Hc. cbn beta.
        rewrite Forall_forall in Hshape. rewrite (scaler_chunk_vals_shape _ c p id (Hshape c Hc)).
        apply In_nth_error in Hc. destruct Hc as [i Hi].
        assert (Hi' : (i < length (direct_chunks g (fs_data s)))%nat).
        { rewrite <- Hl2. apply nth_error_Some. rewrite Hi. discriminate. }
        destruct (nth_error (direct_chunks g (fs_data s)) i) as [c'|] eqn:Ei';
          [|apply nth_error_None in Ei'; lia].
        assert (Hce : chunk_ext c c').
        { clear - Hext Hi Ei'. revert i Hi Ei'. induction Hext as [|x y a b Hxy _ IH]; intros [|i] Hi Ei';
            try discriminate; cbn [nth_error] in Hi, Ei'.
          - injection Hi as <-. injection Ei' as <-. exact Hxy.
          - exact (IH i Hi Ei'). }
        rewrite (proj2 (Hce p) id).
        unfold direct_chunks in Ei'. rewrite nth_error_map in Ei'.
        destruct (nth_error (seq 0 _) i) as [j|]; [|discriminate]. cbn [option_map] in Ei'.
        injection Ei' as <-. unfold zlen. exact (direct_chunk_scaler_count g (fs_data s) p id j Hok Hview). }
      rewrite <- Hl, fit_chunks_exact.
      eexists. split; [reflexivity|].
      unfold wf_seg, seg_vals, number_of_segment_values.
      cbn [sv_chunk sv_nchunks sv_final sv_vals sv_interleaved].
      split; [|split].
      * rewrite (chunks_ok_const K _ Hall). unfold zlen. rewrite Hl. lia.
      * rewrite <- flat_map_concat_map.
        transitivity (chan_scaler_values p id cs_dec).
        -- unfold chan_scaler_values. apply flat_map_ext_in'. intros c Hc.
           rewrite Forall_forall in Hshape. exact (scaler_chunk_vals_shape _ c p id (Hshape c Hc)).
        -- exact (proj2 (chunks_ext_values _ _ Hext p) id).
      * replace (K =? 0) with false by lia. rewrite Htot. lia.
Qed.

(* ======================================================================== *)
(* All segments                                                               *)
(* ======================================================================== *)

Lemma scaler_view_loop data p id : forall segs gs chunkss pre,
    wf_file segs ->
    data = pre ++ ser_file segs ->
    segs_at (blen pre) segs gs ->
    segs_content gs segs chunkss ->
    Forall seg_ready gs ->
    (forall g, In g gs -> raw_view p id g) ->
    exists svs, mapM (segv_of_scaler data p id) gs = Ok svs /\
                wf bytes svs = true /\
                full bytes svs = chan_scaler_values p id (concat chunkss) /\
                total_values bytes svs = zsum (map (seg_total p) gs).
Proof.
  induction segs as [|s r IH]; intros gs chunkss pre Hwf Hdata Hat Hcon Hready Hview.
  - inversion Hat; subst. inversion Hcon; subst. exists []. repeat split; reflexivity.
  - inversion Hat as [|pos s' r' g gs' Hg Hat']; subst.
    inversion Hcon as [|g' gs'' s' r' cs css Hcs Hcon']; subst.
    inversion Hready as [|x y Hrg Hready']; subst x y.
    unfold wf_file in Hwf. cbn [forallb] in Hwf. apply andb_prop in Hwf. destruct Hwf as [Hs Hr].
    cbn [mapM]. rewrite ser_file_cons.
    destruct (segv_of_scaler_content pre s (ser_file r) g cs p id Hs Hg Hcs Hrg (Hview g (or_introl eq_refl)))
      as (sv & Hsv & Hwfsv & Hvals & Htot).
    rewrite Hsv. cbn [bind].
    destruct (IH gs' css (pre ++ ser_seg TAG_DATA true s) Hr) as (svs & Hsvs & Hwfs & Hfull & Htots).
    + rewrite <- app_assoc. reflexivity.
    + rewrite blen_app. change TAG_DATA with (tag_of false). change true with (negb false).
      rewrite (blen_ser_seg false s Hs). unfold fseg_len in Hat'. exact Hat'.
    + exact Hcon'.
    + exact Hready'.
    + intros g0 Hg0. apply Hview. right. exact Hg0.
    + rewrite ser_file_cons in Hsvs. rewrite Hsvs. cbn [bind].
      exists (sv :: svs). split; [reflexivity|]. split; [|split].
      * unfold wf. cbn [forallb]. rewrite Hwfsv. exact Hwfs.
      * unfold full in *. cbn [map concat]. rewrite Hfull, Hvals, chan_scaler_values_app. reflexivity.
      * cbn [total_values map zsum fold_right]. rewrite Htot, Htots. reflexivity.
Qed.

Lemma seg_content_with_index g s cs : seg_content g s cs -> seg_content (with_index g) s cs.
Proof.
  intros [cs0 Henc|Hok].
  - apply sct_plain. apply seg_encodes_with_index. exact Henc.
  - exact (sct_daqmx (with_index g) s Hok).
Qed.

Lemma segs_content_with_index gs segs chunkss :
  segs_content gs segs chunkss -> segs_content (map with_index gs) segs chunkss.
Proof.
  induction 1 as [|g gs s r cs css Hcs _ IH]; cbn [map]; constructor.
  - apply seg_content_with_index. exact Hcs.
  - exact IH.
Qed.

(* ======================================================================== *)
(* The whole file                                                             *)
(* ======================================================================== *)

Section Main.
  Variables (segs : list fseg) (st : rstate) (h : hierarchy) (chunkss : list (list chunk)).
  Hypothesis Hwf : wf_file segs.
  Hypothesis Hrun : sm_run segs false = Ok st.
  Hypothesis Hh : build_hierarchy (rs_om st) = Ok h.
  Hypothesis Hcon : segs_content (rs_segments st) segs chunkss.
  Hypothesis Hcanon : om_paths_canonical (rs_om st).
  Hypothesis Hdist : seg_paths_distinct st.

  (* a scale id of a DaqMxRawData channel of the hierarchy *)
  Definition channel_scaler (c : channel) (id : Z) : Prop :=
    ch_dtype c = Some T_DAQMX /\ exists sts, ch_scalers c = Some sts /\ In id (map fst sts).

  Lemma scaler_view_channel c id :
    In c (all_channels h) -> channel_scaler c id ->
    exists svs m, scaler_view (ser_file segs) (ch_path c) id = Ok (svs, Some m) /\
                  has_scaler m id = true /\
                  wf bytes svs = true /\
                  full bytes svs = chan_scaler_values (ch_path c) id (concat chunkss) /\
                  total_values bytes svs = ch_len c.
  Proof.
    intros Hc (Hdq & sts & Hsts & Hid).
    destruct (chan_from_om_canonical2 _ c Hcanon (build_hierarchy_channels _ _ Hh c Hc))
      as (m & Hin & Hdt & Hlen & Hsc).
    destruct (sm_run_trace segs false st Hrun) as (Hat0 & Hlens & Hndom & _).
    pose proof (alookup_in_nodup _ m (rs_om st) Hndom Hin) as Hlk.
    assert (Hsub : forall g o, In o (data_objs (sg_objs g)) -> In o (sg_objs g)).
    { intros g o Ho. unfold data_objs in Ho. apply filter_In in Ho. tauto. }
    (* every segment sees the path as a DaqMxRawData object with that scale id *)
    assert (Hview : forall g, In g (rs_segments st) -> raw_view (ch_path c) id g).
    { intros g Hg o Ho Hp Hty.
      destruct (sm_run_tracks segs false st Hrun g o Hg (Hsub g o Ho)) as (m' & Hm' & Ht1 & Ht2).
      rewrite Hp, Hlk in Hm'. injection Hm' as <-.
      destruct (so_dtype o) as [dt'|] eqn:Eo; [|contradiction].
      pose proof (Ht1 dt' eq_refl) as Hm. rewrite <- Hdt, Hdq in Hm. injection Hm as <-.
      split; [reflexivity|].
      destruct (sm_run_dq segs false st Hrun g o Hg (Hsub g o Ho)) as [Hdqo _].
      destruct (so_daqmx o) as [q|] eqn:Hq; [|exfalso; apply (Hdqo Eo); reflexivity].
      exists q. split; [reflexivity|].
      destruct (Ht2 q eq_refl) as (sts' & Hsts' & _ & Heq).
      rewrite <- Hsc, Hsts in Hsts'. injection Hsts' as <-.
      apply scaler_types_keys. apply (st_equiv_keys _ _ _ Heq). exact Hid. }
    destruct (sm_run_with_index segs st Hrun) as (st' & Hrun' & Hsegs & _ & Hom & _).
    pose proof (sm_segment_positions segs true st' Hrun') as Hat.
    pose proof (sm_run_nvals_nonneg segs true st' Hwf Hrun') as Hnv.
    destruct (scaler_view_loop (ser_file segs) (ch_path c) id segs (rs_segments st') chunkss [] Hwf eq_refl Hat)
      as (svs & Hsvs & Hwfs & Hfull & Htot).
    - rewrite Hsegs. apply segs_content_with_index. exact Hcon.
    - apply Forall_forall. intros g' Hg'. pose proof (Hnv g' Hg') as Hnvg.
      rewrite Hsegs in Hg'. apply in_map_iff in Hg'. destruct Hg' as (g & <- & Hg).
      unfold seg_paths_distinct in Hdist. rewrite Forall_forall in Hdist.
      split; [exact (Hdist g Hg)|]. split; [reflexivity|exact Hnvg].
    - intros g' Hg'. rewrite Hsegs in Hg'. apply in_map_iff in Hg'. destruct Hg' as (g & <- & Hg).
      exact (Hview g Hg).
    - exists svs, m. unfold scaler_view.
      rewrite (rd_metadata_ser segs true Hwf), Hrun'. cbn [bind]. rewrite Hsvs. cbn [bind]. rewrite Hom, Hlk.
      split; [reflexivity|]. split; [|split; [exact Hwfs|split; [exact Hfull|]]].
      + unfold has_scaler. rewrite <- Hdt, Hdq, <- Hsc, Hsts. cbn [oz_eqb]. rewrite Z.eqb_refl. cbn [andb].
        apply existsb_exists. apply in_map_iff in Hid. destruct Hid as (kv & Hk & Hkv).
        exists kv. split; [exact Hkv|lia].
      + rewrite Htot. destruct (sm_run_trace segs true st' Hrun') as (_ & Hlen' & _).
        rewrite <- Hlen', Hom. unfold get_ometa. rewrite Hlk. symmetry. exact Hlen.
  Qed.

  Theorem daqmx_lazy_windows c id offs len :
    In c (all_channels h) -> channel_scaler c id -> 0 <= offs -> len_nonneg len ->
    lz_read_scaler_bytes (ser_file segs) (ch_path c) id offs len
    = Ok (window_of offs len (chan_scaler_values (ch_path c) id (concat chunkss))).
  Proof.
    intros Hc Hs Hoffs Hlen.
    destruct (scaler_view_channel c id Hc Hs) as (svs & m & Hv & Hhas & Hwfs & Hfull & _).
    unfold lz_read_scaler_bytes. rewrite Hv. cbn [bind]. rewrite Hhas.
    rewrite (LazyTopProofs.window_correct bytes zero_value RNumpy svs offs len Hwfs Hoffs Hlen).
    unfold LazyWindowProofs.window. rewrite Hfull. reflexivity.
  Qed.

  Theorem daqmx_lazy_rejects_negative c id offs len :
    In c (all_channels h) -> channel_scaler c id ->
    offs < 0 \/ (exists l, len = Some l /\ l < 0) ->
    lz_read_scaler_bytes (ser_file segs) (ch_path c) id offs len = Err EValue.
  Proof.
    intros Hc Hs Hneg.
    destruct (scaler_view_channel c id Hc Hs) as (svs & m & Hv & Hhas & _).
    unfold lz_read_scaler_bytes. rewrite Hv. cbn [bind]. rewrite Hhas.
    apply (lz_read_negative bytes zero_value). exact Hneg.
  Qed.

  (* the chunk stream of a scaler concatenates to the eager values, and the full
     lazy read has len(channel) values *)
  Theorem daqmx_chunk_stream c id :
    In c (all_channels h) -> channel_scaler c id ->
    exists chunks, lz_scaler_chunks (ser_file segs) (ch_path c) id = Ok chunks /\
                   concat chunks = chan_scaler_values (ch_path c) id (concat chunkss) /\
                   Z.of_nat (length (chan_scaler_values (ch_path c) id (concat chunkss))) = ch_len c.
  Proof.
    intros Hc Hs.
    destruct (scaler_view_channel c id Hc Hs) as (svs & m & Hv & Hhas & Hwfs & Hfull & Htot).
    destruct (lz_gen_spec bytes svs 0 None Hwfs ltac:(lia) I) as (outs & log & Hgen & Hcat & _).
    exists outs. unfold lz_scaler_chunks. rewrite Hv. cbn [bind]. rewrite Hhas, Hgen. cbn [bind].
    split; [reflexivity|]. split.
    - rewrite Hcat. unfold LazyWindowProofs.window. rewrite Hfull. reflexivity.
    - rewrite <- Hfull, <- Htot. apply (zlen_full bytes svs Hwfs).
  Qed.
End Main.

(* ======================================================================== *)
(* Channels with plain data in files that contain DAQmx segments              *)
(* (DAQmx channels typed by their single scaler, and ordinary channels)       *)
(* ======================================================================== *)

Lemma direct_chunk_typed_count g data p j :
  daqmx_seg_ok g data -> typed_view p g ->
  Z.of_nat (length (chunk_values p
                      (direct_chunk (toc_endian (sg_toc g)) (data_objs (sg_objs g))
                                    (dims_spec (data_objs (sg_objs g))) data j)))
  = path_count p so_nvals (data_objs (sg_objs g)).
Proof.
  intros Hok Hview.
  rewrite chunk_values_direct_chunk. pose proof Hok as (_ & Hnd & _).
  destruct (path_in_dec p (data_objs (sg_objs g))) as [(o & Ho & Hp)|Habs].
  - rewrite (path_count_unique p so_nvals _ o Hnd Ho Hp). subst p.
    rewrite (flat_map_unique so_path
               (fun o0 => chunk_values (so_path o)
                            (direct_obj_entries (toc_endian (sg_toc g))
                               (dims_spec (data_objs (sg_objs g))) data j o0)) _ o Hnd Ho).
    2:{ intros y _ Hne. exact (proj1 (direct_entries_other _ _ _ _ y (so_path o) Hne)). }
    pose proof (daqmx_seg_ok_kinds g data Hok) as Hk. rewrite Forall_forall in Hk.
    destruct (Hk o Ho) as (q & Hq & _ & [Hraw|(s & dt & Hs & Hdt & Hne)]).
    + exfalso. exact (Hview o Ho eq_refl Hraw).
    + rewrite (proj1 (direct_entries_typed _ _ _ _ o q s dt Hq Hdt Hne Hs)).
      destruct (obj_nvals_nonneg g data o q s Hok Ho Hq) as [Hso Hnv]; [rewrite Hs; left; reflexivity|].
      rewrite (direct_scaler_chunk_length _ _ _ _ _ _ _ Hso). lia.
  - rewrite (ReadCorrectDaqmx.path_count_absent p so_nvals _ Habs).
    rewrite flat_map_all_nil; [reflexivity|]. intros y Hy.
    exact (proj1 (direct_entries_other _ _ _ _ y p (Habs y Hy))).
Qed.

Theorem segv_of_content pre s rest g cs p :
  wf_fseg s = true ->
  seg_at (blen pre) s g ->
  seg_content g s cs ->
  seg_ready g ->
  typed_view p g ->
  exists sv, segv_of (pre ++ ser_seg TAG_DATA true s ++ rest) p g = Ok sv /\
             wf_seg bytes sv = true /\
             seg_vals bytes sv = chan_values p cs /\
             number_of_segment_values bytes sv = seg_total p g.
Proof.
  intros Hwf Hat Hcon (Hnd & Hidx & Hnv) Hview.
  destruct Hcon as [cs0 Henc|Hok].
  - exact (segv_of_encoded pre s rest g cs0 p Hwf Hat Henc Hnd Hidx Hnv).
  - pose proof Hat as (_ & _ & _ & _ & _ & Hcc).
    pose proof (daqmx_seg_count_typed g (fs_data s) p Hok Hcc Hview) as Hcount.
    set (dobjs := data_objs (sg_objs g)) in *.
    set (K := path_count p so_nvals dobjs).
    assert (HK0 : 0 <= K).
    { apply path_count_nonneg. apply Forall_forall. intros o Ho. rewrite Forall_forall in Hnv.
      exact (Hnv o (data_objs_sub _ o Ho)). }
    destruct (daqmx_seg_ok_nchunks g (fs_data s) Hok Hcc) as (Hfin & Hn0 & _).
    destruct (daqmx_seg_total g (fs_data s) p Hok Hcc) as (Htot & _ & Hlen). fold dobjs K in Htot.
    rewrite segv_of_unfold, (chunk_of_view_count g p Hidx Hnd). fold dobjs K. rewrite Hfin. cbn [final_of].
    destruct (Z.eq_dec K 0) as [HK|HK].
    + rewrite HK. cbn [Z.eqb]. eexists. split; [reflexivity|].
      unfold wf_seg, seg_vals, number_of_segment_values.
      cbn [sv_chunk sv_nchunks sv_final sv_vals sv_interleaved Z.eqb].
      split; [|split].
      * unfold zlen. rewrite fit_chunks_nil_length.
        rewrite (chunks_ok_const 0 _ (fit_chunks_nil_all _)). lia.
      * rewrite fit_chunks_nil_concat. symmetry. apply length_zero_nil. rewrite Hcount, Htot, HK. lia.
      * rewrite Htot, HK. lia.
    + replace (K =? 0) with false by lia.
      rewrite (daqmx_seg_ok_layout g (fs_data s) Hok). cbn [bind il_of].
      rewrite (read_segment_ser pre s rest g Hwf Hat).
      destruct (daqmx_seg_decodes g (fs_data s) rest Hok Hcc) as (cs_dec & cur' & Hread & Hext & Hshape).
      rewrite Hread. cbn [bind]. unfold per_chunk_of.
      assert (Hkeys : Forall (fun c : chunk => NoDup (map fst c)) cs_dec).
      { eapply Forall_impl; [|exact Hshape]. intros c [Hc _]. exact Hc. }
      rewrite (flat_map_chunk_vals_values p cs_dec Hkeys).
      rewrite (proj1 (chunks_ext_values _ _ Hext p)).
      set (col := chan_values p (direct_chunks g (fs_data s))) in *.
      destruct (split_chunks_exact K ltac:(lia) (Z.to_nat (sg_nchunks g)) col (S (length col)))
        as (Hcat & Hl & Hall).
      { apply Nat2Z.inj. rewrite Nat2Z.inj_mul, !Z2Nat.id by lia. lia. }
      { assert (Z.of_nat (Z.to_nat (sg_nchunks g)) <= Z.of_nat (length col)) by nia. lia. }
      assert (Hfit : fit_chunks (Z.to_nat (sg_nchunks g)) (split_chunks (S (length col)) K col)
                     = split_chunks (S (length col)) K col).
      { rewrite <- Hl. apply fit_chunks_exact. }
      rewrite Hfit.
      eexists. split; [reflexivity|].
      unfold wf_seg, seg_vals, number_of_segment_values.
      cbn [sv_chunk sv_nchunks sv_final sv_vals sv_interleaved].
      split; [|split; [exact Hcat|replace (K =? 0) with false by lia; rewrite Htot; lia]].
      rewrite (chunks_ok_const K _ Hall). unfold zlen. rewrite Hl. lia.
Qed.

Lemma view_loop_content data p : forall segs gs chunkss pre,
    wf_file segs ->
    data = pre ++ ser_file segs ->
    segs_at (blen pre) segs gs ->
    segs_content gs segs chunkss ->
    Forall seg_ready gs ->
    (forall g, In g gs -> typed_view p g) ->
    exists svs, mapM (segv_of data p) gs = Ok svs /\
                wf bytes svs = true /\
                full bytes svs = chan_values p (concat chunkss) /\
                total_values bytes svs = zsum (map (seg_total p) gs).
Proof.
  induction segs as [|s r IH]; intros gs chunkss pre Hwf Hdata Hat Hcon Hready Hview.
  - inversion Hat; subst. inversion Hcon; subst. exists []. repeat split; reflexivity.
  - inversion Hat as [|pos s' r' g gs' Hg Hat']; subst.
    inversion Hcon as [|g' gs'' s' r' cs css Hcs Hcon']; subst.
    inversion Hready as [|x y Hrg Hready']; subst x y.
    unfold wf_file in Hwf. cbn [forallb] in Hwf. apply andb_prop in Hwf. destruct Hwf as [Hs Hr].
    cbn [mapM]. rewrite ser_file_cons.
    destruct (segv_of_content pre s (ser_file r) g cs p Hs Hg Hcs Hrg (Hview g (or_introl eq_refl)))
      as (sv & Hsv & Hwfsv & Hvals & Htot).
    rewrite Hsv. cbn [bind].
    destruct (IH gs' css (pre ++ ser_seg TAG_DATA true s) Hr) as (svs & Hsvs & Hwfs & Hfull & Htots).
    + rewrite <- app_assoc. reflexivity.
    + rewrite blen_app. change TAG_DATA with (tag_of false). change true with (negb false).
      rewrite (blen_ser_seg false s Hs). unfold fseg_len in Hat'. exact Hat'.
    + exact Hcon'.
    + exact Hready'.
    + intros g0 Hg0. apply Hview. right. exact Hg0.
    + rewrite ser_file_cons in Hsvs. rewrite Hsvs. cbn [bind].
      exists (sv :: svs). split; [reflexivity|]. split; [|split].
      * unfold wf. cbn [forallb]. rewrite Hwfsv. exact Hwfs.
      * unfold full in *. cbn [map concat]. rewrite Hfull, Hvals, chan_values_app. reflexivity.
      * cbn [total_values map zsum fold_right]. rewrite Htot, Htots. reflexivity.
Qed.

(* every channel with a data type other than DaqMxRawData -- ordinary channels and
   DAQmx channels typed by their single scaler -- in a file that may contain DAQmx
   segments: lazy windows are windows of the eager data of read_correct_daqmx *)
Theorem daqmx_lazy_windows_typed segs st h chunkss c dt offs len :
  wf_file segs ->
  sm_run segs false = Ok st ->
  build_hierarchy (rs_om st) = Ok h ->
  segs_content (rs_segments st) segs chunkss ->
  om_paths_canonical (rs_om st) ->
  seg_paths_distinct st ->
  In c (all_channels h) -> ch_dtype c = Some dt -> dt <> T_DAQMX ->
  0 <= offs -> len_nonneg len ->
  lz_read_bytes (ser_file segs) (ch_path c) offs len
  = Ok (window_of offs len (chan_values (ch_path c) (concat chunkss))) /\
  Z.of_nat (length (chan_values (ch_path c) (concat chunkss))) = ch_len c.
Proof.
  intros Hwf Hrun Hh Hcon Hcanon Hdist Hc Hdtc Hne Hoffs Hlen.
  destruct (chan_from_om_canonical2 _ c Hcanon (build_hierarchy_channels _ _ Hh c Hc))
    as (m & Hin & Hdt & Hlenm & _).
  destruct (sm_run_trace segs false st Hrun) as (_ & _ & Hndom & _).
  pose proof (alookup_in_nodup _ m (rs_om st) Hndom Hin) as Hlk.
  assert (Hsub : forall g o, In o (data_objs (sg_objs g)) -> In o (sg_objs g)).
  { intros g o Ho. unfold data_objs in Ho. apply filter_In in Ho. tauto. }
  assert (Hview : forall g, In g (rs_segments st) -> typed_view (ch_path c) g).
  { intros g Hg o Ho Hp Eo.
    destruct (sm_run_tracks segs false st Hrun g o Hg (Hsub g o Ho)) as (m' & Hm' & Ht1 & _).
    rewrite Hp, Hlk in Hm'. injection Hm' as <-.
    pose proof (Ht1 _ Eo) as Hm. rewrite <- Hdt, Hdtc in Hm. injection Hm as ->. apply Hne. reflexivity. }
  destruct (sm_run_with_index segs st Hrun) as (st' & Hrun' & Hsegs & _ & Hom & _).
  pose proof (sm_segment_positions segs true st' Hrun') as Hat.
  pose proof (sm_run_nvals_nonneg segs true st' Hwf Hrun') as Hnv.
  destruct (view_loop_content (ser_file segs) (ch_path c) segs (rs_segments st') chunkss [] Hwf eq_refl Hat)
    as (svs & Hsvs & Hwfs & Hfull & Htot).
  - rewrite Hsegs. apply segs_content_with_index. exact Hcon.
  - apply Forall_forall. intros g' Hg'. pose proof (Hnv g' Hg') as Hnvg.
    rewrite Hsegs in Hg'. apply in_map_iff in Hg'. destruct Hg' as (g & <- & Hg).
    unfold seg_paths_distinct in Hdist. rewrite Forall_forall in Hdist.
    split; [exact (Hdist g Hg)|]. split; [reflexivity|exact Hnvg].
  - intros g' Hg'. rewrite Hsegs in Hg'. apply in_map_iff in Hg'. destruct Hg' as (g & <- & Hg).
    exact (Hview g Hg).
  - split.
    + unfold lz_read_bytes, channel_view.
      rewrite (rd_metadata_ser segs true Hwf), Hrun'. cbn [bind]. rewrite Hsvs. cbn [bind].
      rewrite Hom, Hlk, <- Hdt, Hdtc.
      rewrite (LazyTopProofs.window_correct bytes zero_value (recv_of (Some dt)) svs offs len Hwfs Hoffs Hlen).
      unfold LazyWindowProofs.window. rewrite Hfull. reflexivity.
    + rewrite <- Hfull. change (Z.of_nat (length (full bytes svs))) with (zlen (full bytes svs)).
      rewrite (zlen_full bytes svs Hwfs), Htot.
      destruct (sm_run_trace segs true st' Hrun') as (_ & Hlen' & _).
      rewrite <- Hlen', Hom. unfold get_ometa. rewrite Hlk. symmetry. exact Hlenm.
Qed.
