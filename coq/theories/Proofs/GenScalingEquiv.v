(* The lookup of scaling definitions TRANSLATED from nptdms/scaling.py (Gen/PyFuncsScaling.v, regenerated from
   the source on every run) equals the hand-written Model/ScaleGraph.v:
     _get_number_of_scalings            = number_of_scalings
     head of _get_channel_scaling       = the head of get_channel_scaling (no scalings / status 'scaled')
     get_scaling (channel, group, file) = first_scaling, lazily, left to right *)
From Coq Require Import String Ascii.
From Coq Require Import ZArith List Bool Lia.
Import ListNotations.
From NpTdms Require Import Base.Res Gen.PyFuncsScaling.
From NpTdms Require Model.ScaleGraph.
Local Open Scope Z_scope.

Module SG := ScaleGraph.

(* errors of the model as exception classes of the translation; what the model leaves out of scope
   (EUnmodelled) and its internal kinds are "some other exception" *)
Definition lift_err (e : SG.err) : err :=
  match e with
  | SG.EKey => EKey
  | SG.EIndex => EIndex
  | SG.EValue => EValue
  | SG.EType => EType
  | _ => EOther
  end.
Definition lift {A} (r : SG.res A) : res A :=
  match r with SG.Ok a => Ok a | SG.Err e => Err (lift_err e) end.

(* ---- _get_number_of_scalings ------------------------------------------------------------------------------ *)

Lemma matches_filter_map (p : SG.props) :
  flat_map (fun o : option Z => match o with Some v => [v] | None => [] end)
           (map (fun key => SG.scale_regex_match key) (map fst p))
  = SG.filter_map (fun kv => SG.scale_regex_match (fst kv)) p.
Proof.
  induction p as [|[k v] r IH]; [reflexivity|]. cbn [map flat_map SG.filter_map fst].
  destruct (SG.scale_regex_match k); cbn [app]; rewrite IH; reflexivity.
Qed.

Theorem get_number_of_scalings_eq p : get_number_of_scalings_gen p = lift (SG.number_of_scalings p).
Proof.
  unfold get_number_of_scalings_gen, SG.number_of_scalings.
  destruct (SG.pget "NI_Number_Of_Scales" p) as [v|]; cbn [is_none negb need bind].
  - destruct v; reflexivity.
  - rewrite matches_filter_map, map_id.
    destruct (SG.filter_map (fun kv => SG.scale_regex_match (fst kv)) p) as [|z zs]; reflexivity.
Qed.

(* ---- the head of _get_channel_scaling ----------------------------------------------------------------------- *)

Lemma match_scaled {A} (s : string) (a b : A) :
  match s with "scaled"%string => a | _ => b end = if String.eqb s "scaled" then a else b.
Proof.
  destruct (String.eqb s "scaled") eqn:E; [apply String.eqb_eq in E; subst s; reflexivity|].
  do 6 (destruct s as [|[[|] [|] [|] [|] [|] [|] [|] [|]] s]; try reflexivity).
  destruct s; [discriminate E|reflexivity].
Qed.

(* what get_channel_scaling does after its head, given the number of scalings *)
Definition build_part (p : SG.props) (n : Z) : SG.res (option SG.graph) :=
  match SG.build_scalings p (SG.range n) with
  | SG.Err e => SG.Err e
  | SG.Ok None => SG.Ok None
  | SG.Ok (Some []) => SG.Ok None
  | SG.Ok (Some g) => SG.Ok (Some g)
  end.

Theorem channel_scaling_head_eq p :
  SG.get_channel_scaling p
  = match channel_scaling_head_gen p with
    | Err _ => SG.Err SG.EUnmodelled
    | Ok None => SG.Ok None
    | Ok (Some n) => build_part p n
    end.
Proof.
  unfold SG.get_channel_scaling, channel_scaling_head_gen. rewrite get_number_of_scalings_eq.
  assert (Herr : forall e, SG.number_of_scalings p = SG.Err e -> e = SG.EUnmodelled).
  { unfold SG.number_of_scalings. intros e. destruct (SG.pget "NI_Number_Of_Scales" p) as [[| |]|];
      try (intros H; injection H as <-; reflexivity); try discriminate.
    destruct (SG.filter_map _ p); discriminate. }
  destruct (SG.number_of_scalings p) as [[n|]|e]; cbn [lift bind]; [| reflexivity | rewrite (Herr e eq_refl); reflexivity].
  destruct (n =? 0); [reflexivity|].
  destruct (SG.pget "NI_Scaling_Status" p) as [[s| |]|]; cbn [pval_eq_str]; try reflexivity.
  - rewrite match_scaled. destruct (String.eqb s "scaled"); reflexivity.
Qed.

(* ---- get_scaling -------------------------------------------------------------------------------------------- *)

Theorem get_scaling_eq c g f :
  get_scaling_gen SG.graph (fun p => lift (SG.get_channel_scaling p)) c g f = lift (SG.get_scaling c g f).
Proof.
  unfold get_scaling_gen, SG.get_scaling. cbn [py_first_some SG.first_scaling].
  destruct (SG.get_channel_scaling c) as [[x|]|e]; cbn [lift bind]; try reflexivity.
  destruct (SG.get_channel_scaling g) as [[x|]|e]; cbn [lift bind]; try reflexivity.
  destruct (SG.get_channel_scaling f) as [[x|]|e]; cbn [lift bind]; reflexivity.
Qed.

(* laziness: a level after the first that has a scaling is never consulted, for ANY _get_channel_scaling *)
Theorem get_scaling_first_wins S (F : SG.props -> res (option S)) c g f s :
  F c = Ok (Some s) -> get_scaling_gen S F c g f = Ok (Some s).
Proof. intros H. unfold get_scaling_gen. cbn [py_first_some]. rewrite H. reflexivity. Qed.

Theorem get_scaling_falls_through S (F : SG.props -> res (option S)) c g f :
  F c = Ok None -> get_scaling_gen S F c g f = py_first_some F [g; f].
Proof. intros H. unfold get_scaling_gen. cbn [py_first_some]. rewrite H. reflexivity. Qed.
