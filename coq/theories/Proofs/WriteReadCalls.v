(* C07 composed, step 3a: the object sequence of the FILE (per call the writer's
   sorted list: root objects incl. the automatically inserted one, group
   objects incl. the automatically inserted ones - which depend on the writer's
   _groups_written state -, channel objects) and the object sequence of the
   SPECIFICATION ([obj_seq]: no inserted root, a blank group object for EVERY
   group a channel of the call needs) describe the same content:

     - every function that vanishes on blank objects (WRoot [], WGroup g []) has
       the same flat_map over both (properties, values, data types and channel
       names per path / group);
     - the groups appear for the first time in the same order (the groups the
       writer does not insert because they were already written in this session
       have appeared before);
     - in the file every channel's group is declared by a group object;
     - no call lists a path twice. *)
From Coq Require Import List ZArith Bool Lia ZifyBool Sorted.
From Coq Require Import Init.Byte.
Import ListNotations.
From NpTdms Require Import Base.Bytes Base.Res Model.Tokens Model.TokensWf Model.ByteStr
  Model.StrictParse Model.Writer Proofs.ByteStrProofs Proofs.WriterProofs.
From NpTdms Require Import Model.SegState Model.Layout Model.Reader
  Proofs.SegStateProofs Proofs.WriteReadSpec Proofs.WriteReadBytes Proofs.WriteReadState
  Proofs.WriteReadHier.
Local Open Scope Z_scope.

(* ---- Python's str order on byte strings is a strict total order ----------------------------- *)

Definition blt (a b : bytes) : Prop := bytes_ltb a b = true.

Lemma b2z_inj x y : b2z x = b2z y -> x = y.
Proof. intros H. rewrite <- (z2b_b2z x), <- (z2b_b2z y), H. reflexivity. Qed.

Lemma ltb_irrefl a : bytes_ltb a a = false.
Proof.
  induction a as [|x a IH]; [reflexivity|]. cbn [bytes_ltb].
  replace (b2z x <? b2z x) with false by lia. exact IH.
Qed.

Lemma ltb_trans : forall a b c, blt a b -> blt b c -> blt a c.
Proof.
  unfold blt. induction a as [|x a IH]; intros [|y b] [|z c] Hab Hbc; cbn [bytes_ltb] in *;
    try discriminate; try reflexivity.
  destruct (b2z x <? b2z y) eqn:E1.
  - destruct (b2z y <? b2z z) eqn:E2.
    + replace (b2z x <? b2z z) with true by lia. reflexivity.
    + destruct (b2z z <? b2z y) eqn:E3; [discriminate|].
      replace (b2z x <? b2z z) with true by lia. reflexivity.
  - destruct (b2z y <? b2z x) eqn:E1'; [discriminate|].
    destruct (b2z y <? b2z z) eqn:E2.
    + replace (b2z x <? b2z z) with true by lia. reflexivity.
    + destruct (b2z z <? b2z y) eqn:E3; [discriminate|].
      replace (b2z x <? b2z z) with false by lia. replace (b2z z <? b2z x) with false by lia.
      exact (IH b c Hab Hbc).
Qed.

Lemma ltb_total : forall a b, bytes_ltb a b = false -> a <> b -> blt b a.
Proof.
  unfold blt. induction a as [|x a IH]; intros [|y b] Hab Hne; cbn [bytes_ltb] in *;
    try discriminate; try reflexivity; [contradiction|].
  destruct (b2z x <? b2z y) eqn:E1; [discriminate|].
  destruct (b2z y <? b2z x) eqn:E2; [reflexivity|].
  assert (x = y) by (apply b2z_inj; lia). subst y.
  apply IH; [exact Hab|]. intros ->. apply Hne. reflexivity.
Qed.

(* ---- sorted(set(..)) -------------------------------------------------------------------------- *)

Lemma insert_uniq_sorted g : forall L, StronglySorted blt L -> StronglySorted blt (insert_uniq g L).
Proof.
  induction L as [|h t IH]; intros HS; cbn [insert_uniq].
  - constructor; constructor.
  - inversion HS as [|x y Ht Hh]; subst.
    destruct (ByteStr.bytes_eqb g h) eqn:E; [exact HS|].
    destruct (bytes_ltb g h) eqn:El.
    + constructor; [exact HS|]. constructor; [exact El|].
      eapply Forall_impl; [|exact Hh]. intros z Hz. exact (ltb_trans g h z El Hz).
    + constructor; [exact (IH Ht)|].
      assert (Hhg : blt h g).
      { apply ltb_total; [exact El|]. intros ->. rewrite ByteStrProofs.bytes_eqb_refl in E. discriminate. }
      apply Forall_forall. intros z Hz. apply in_insert_uniq in Hz. destruct Hz as [->|Hz]; [exact Hhg|].
      rewrite Forall_forall in Hh. exact (Hh z Hz).
Qed.

Lemma sorted_set_sorted l : StronglySorted blt (sorted_set l).
Proof.
  unfold sorted_set. induction l as [|g r IH]; cbn [fold_right]; [constructor|].
  apply insert_uniq_sorted. exact IH.
Qed.

Lemma sorted_filter (f : bytes -> bool) L : StronglySorted blt L -> StronglySorted blt (filter f L).
Proof.
  induction L as [|h t IH]; intros HS; [constructor|].
  inversion HS as [|x y Ht Hh]; subst. cbn [filter]. destruct (f h); [|exact (IH Ht)].
  constructor; [exact (IH Ht)|]. apply Forall_forall. intros z Hz. apply filter_In in Hz.
  rewrite Forall_forall in Hh. exact (Hh z (proj1 Hz)).
Qed.

Lemma sorted_unique : forall X Y,
  StronglySorted blt X -> StronglySorted blt Y -> (forall z, In z X <-> In z Y) -> X = Y.
Proof.
  induction X as [|x X IH]; intros [|y Y] HX HY Heq.
  - reflexivity.
  - exfalso. apply (proj2 (Heq y)). left. reflexivity.
  - exfalso. apply (proj1 (Heq x)). left. reflexivity.
  - inversion HX as [|a b HX' Hx]; subst. inversion HY as [|a b HY' Hy]; subst.
    rewrite Forall_forall in Hx, Hy.
    assert (x = y).
    { destruct (proj1 (Heq x) (or_introl eq_refl)) as [E|Hin]; [symmetry; exact E|].
      destruct (proj2 (Heq y) (or_introl eq_refl)) as [E|Hin']; [exact E|].
      pose proof (ltb_trans x y x (Hx y Hin') (Hy x Hin)) as Hxx. unfold blt in Hxx.
      rewrite ltb_irrefl in Hxx. discriminate. }
    subst y. f_equal. apply IH; [exact HX'|exact HY'|].
    intros z. split; intros Hz.
    + destruct (proj1 (Heq z) (or_intror Hz)) as [E|H]; [|exact H].
      subst z. pose proof (Hx x Hz) as Hxx. unfold blt in Hxx. rewrite ltb_irrefl in Hxx. discriminate.
    + destruct (proj2 (Heq z) (or_intror Hz)) as [E|H]; [|exact H].
      subst z. pose proof (Hy x Hz) as Hxx. unfold blt in Hxx. rewrite ltb_irrefl in Hxx. discriminate.
Qed.

Lemma sorted_set_filter (f : bytes -> bool) l :
  sorted_set (filter f l) = filter f (sorted_set l).
Proof.
  apply sorted_unique.
  - apply sorted_set_sorted.
  - apply sorted_filter. apply sorted_set_sorted.
  - intros z. rewrite in_sorted_set, !filter_In, in_sorted_set. reflexivity.
Qed.

(* adding a sorted list of names of which the filtered-out ones were seen before *)
Lemma fold_add_new_filter (f : bytes -> bool) : forall L acc,
  (forall x, In x L -> f x = false -> In x acc) ->
  fold_left add_new (filter f L) acc = fold_left add_new L acc.
Proof.
  induction L as [|x L IH]; intros acc H; [reflexivity|].
  cbn [filter fold_left]. destruct (f x) eqn:E.
  - cbn [fold_left]. apply IH. intros y Hy Hfy. apply add_new_in. left. apply H; [right; exact Hy|exact Hfy].
  - assert (Hx : In x acc) by (apply H; [left; reflexivity|exact E]).
    replace (add_new acc x) with acc.
    + apply IH. intros y Hy Hfy. apply H; [right; exact Hy|exact Hfy].
    + unfold add_new. apply mem_In in Hx. rewrite Hx. reflexivity.
Qed.

(* ---- one call ----------------------------------------------------------------------------------- *)

Definition blank_vanish {B} (h : wobj -> list B) : Prop :=
  h (WRoot []) = [] /\ forall g, h (WGroup g []) = [].

Lemma flat_map_blank_groups {B} (h : wobj -> list B) names :
  blank_vanish h -> flat_map h (map (fun g => WGroup g []) names) = [].
Proof.
  intros [_ Hg]. induction names as [|g r IH]; [reflexivity|]. cbn [map flat_map]. rewrite Hg, IH. reflexivity.
Qed.

Lemma filter_blank_groups names :
  filter is_root (map (fun g => WGroup g []) names) = [] /\
  filter is_group (map (fun g => WGroup g []) names) = map (fun g => WGroup g []) names /\
  filter is_chan (map (fun g => WGroup g []) names) = [].
Proof.
  induction names as [|g r (IH1 & IH2 & IH3)]; [repeat split|].
  cbn [map filter is_root is_group is_chan]. rewrite IH1, IH2, IH3. repeat split.
Qed.

Definition auto_root (st : wstate) (objs : list wobj) : list wobj :=
  if negb (root_written st) && negb (existsb is_root objs) then [WRoot []] else [].

Lemma partition3_pairs st objs :
  partition3 (pairs_of st objs) =
  (filter is_root objs ++ auto_root st objs) ++
  (filter is_group objs ++ map (fun g => WGroup g []) (groups_to_add st objs)) ++
  filter is_chan objs.
Proof.
  unfold partition3, pairs_of. fold (auto_root st objs).
  destruct (filter_blank_groups (groups_to_add st objs)) as (H1 & H2 & H3).
  rewrite !filter_app, H1, H2, H3.
  unfold auto_root. destruct (negb (root_written st) && negb (existsb is_root objs));
    cbn [filter is_root is_group is_chan]; rewrite ?app_nil_r; reflexivity.
Qed.

Lemma auto_root_blank {B} (h : wobj -> list B) st objs :
  blank_vanish h -> flat_map h (auto_root st objs) = [].
Proof.
  intros [Hr _]. unfold auto_root. destruct (_ && _); [|reflexivity]. cbn [flat_map]. rewrite Hr. reflexivity.
Qed.

Lemma call_flat_map {B} (h : wobj -> list B) st objs :
  blank_vanish h ->
  flat_map h (partition3 (pairs_of st objs)) = flat_map h (call_seq objs).
Proof.
  intros Hb. rewrite partition3_pairs. unfold call_seq, implied_groups.
  rewrite !flat_map_app, (auto_root_blank h st objs Hb), !(flat_map_blank_groups h _ Hb).
  rewrite !app_nil_r. reflexivity.
Qed.

Lemma names_filter_group objs : flat_map group_name_of (filter is_group objs) = groups_included objs.
Proof.
  unfold groups_included. induction objs as [|o r IH]; [reflexivity|].
  destruct o; cbn [filter is_group flat_map group_name_of app]; rewrite IH; reflexivity.
Qed.

Lemma names_no_group (p : wobj -> bool) objs :
  (forall o, p o = true -> is_group o = false) -> flat_map group_name_of (filter p objs) = [].
Proof.
  intros H. induction objs as [|o r IH]; [reflexivity|]. cbn [filter].
  destruct (p o) eqn:E; [|exact IH]. cbn [flat_map]. rewrite IH.
  specialize (H o E). destruct o; try discriminate; reflexivity.
Qed.

Lemma names_blank_groups names : flat_map group_name_of (map (fun g => WGroup g []) names) = names.
Proof. induction names as [|g r IH]; [reflexivity|]. cbn [map flat_map group_name_of app]. rewrite IH. reflexivity. Qed.

Lemma names_auto_root st objs : flat_map group_name_of (auto_root st objs) = [].
Proof. unfold auto_root. destruct (_ && _); reflexivity. Qed.

Lemma names_sorted st objs :
  flat_map group_name_of (partition3 (pairs_of st objs)) = groups_included objs ++ groups_to_add st objs.
Proof.
  rewrite partition3_pairs, !flat_map_app, names_filter_group, names_blank_groups, names_auto_root.
  rewrite (names_no_group is_root) by (intros o; destruct o; cbn; congruence).
  rewrite (names_no_group is_chan) by (intros o; destruct o; cbn; congruence).
  cbn [app]. rewrite !app_nil_r. reflexivity.
Qed.

Lemma names_call_seq objs :
  flat_map group_name_of (call_seq objs) = groups_included objs ++ sorted_set (groups_required objs).
Proof.
  unfold call_seq, implied_groups.
  rewrite !flat_map_app, names_filter_group, names_blank_groups.
  rewrite (names_no_group is_root) by (intros o; destruct o; cbn; congruence).
  rewrite (names_no_group is_chan) by (intros o; destruct o; cbn; congruence).
  cbn [app]. rewrite !app_nil_r. reflexivity.
Qed.

Lemma bmem_mem x l : bmem x l = mem x l.
Proof.
  unfold bmem, mem. induction l as [|y l IH]; [reflexivity|]. cbn [existsb]. rewrite beqb_agree, IH. reflexivity.
Qed.

(* the groups of one call are added to the groups seen so far in the same way *)
Lemma call_names_fold st objs acc :
  (forall g, bmem g (groups_written st) = true -> In g acc) ->
  fold_left add_new (groups_included objs ++ groups_to_add st objs) acc =
  fold_left add_new (groups_included objs ++ sorted_set (groups_required objs)) acc.
Proof.
  intros HW. rewrite !fold_left_app. unfold groups_to_add.
  rewrite sorted_set_filter. apply fold_add_new_filter.
  intros x _ Hf. apply fold_add_new_in.
  apply andb_false_iff in Hf. destruct Hf as [Hf|Hf]; apply negb_false_iff in Hf.
  - right. apply ByteStrProofs.bmem_In. exact Hf.
  - left. apply HW. exact Hf.
Qed.

(* ---- all calls of a session --------------------------------------------------------------------- *)

Definition names (l : list wobj) : list bytes := flat_map group_name_of l.

Lemma names_app a b : names (a ++ b) = names a ++ names b.
Proof. apply flat_map_app. Qed.

Lemma calls_trace : forall calls st sl N0,
  sorted_calls st calls = Ok sl ->
  (forall g, bmem g (groups_written st) = true -> In g N0) ->
  (forall B (h : wobj -> list B), blank_vanish h ->
     flat_map h (concat sl) = flat_map h (flat_map call_seq calls)) /\
  (forall acc, (forall g, In g N0 -> In g acc) ->
     fold_left add_new (names (concat sl)) acc = fold_left add_new (names (flat_map call_seq calls)) acc) /\
  (forall g c dt vs ps, In (WChan g c dt vs ps) (concat sl) -> In g (N0 ++ names (concat sl))) /\
  Forall (fun sorted => NoDup (map obj_path sorted)) sl.
Proof.
  induction calls as [|objs r IH]; intros st sl N0 Hs HW.
  - cbn in Hs. injection Hs as <-. repeat split; try constructor. intros g c dt vs ps [].
  - cbn [sorted_calls] in Hs.
    destruct (wr_objects st objs) as [[sorted st']|e] eqn:Eo; cbn [bind] in Hs; [|discriminate].
    destruct (sorted_calls st' r) as [sl'|e] eqn:Er; cbn [bind] in Hs; [|discriminate].
    injection Hs as <-.
    destruct (wr_objects_spec _ _ _ _ Eo) as (Hsorted & Hdup & Hst').
    assert (Hnames : names sorted = groups_included objs ++ groups_to_add st objs)
      by (rewrite Hsorted; apply names_sorted).
    destruct (IH st' sl' (N0 ++ names sorted) Er) as (H1 & H2 & H3 & H4).
    { intros g Hg. rewrite Hst' in Hg. cbn [groups_written] in Hg. rewrite bmem_app in Hg.
      apply in_or_app. apply orb_prop in Hg. destruct Hg as [Hg|Hg].
      - left. apply HW. exact Hg.
      - right. rewrite Hnames. apply ByteStrProofs.bmem_In. exact Hg. }
    cbn [concat flat_map]. split; [|split; [|split]].
    + intros B h Hb. rewrite !flat_map_app, (H1 B h Hb), Hsorted, (call_flat_map h st objs Hb). reflexivity.
    + intros acc Hacc. rewrite !names_app, !fold_left_app, Hnames.
      unfold names at 2. rewrite names_call_seq.
      assert (Hfirst : fold_left add_new (groups_included objs ++ groups_to_add st objs) acc =
                       fold_left add_new (groups_included objs ++ sorted_set (groups_required objs)) acc).
      { apply call_names_fold. intros g Hg. apply Hacc. apply HW. exact Hg. }
      rewrite <- Hfirst. apply H2. intros g Hg. apply fold_add_new_in.
      apply in_app_or in Hg. destruct Hg as [Hg|Hg]; [left; apply Hacc; exact Hg|right].
      rewrite <- Hnames. exact Hg.
    + intros g c dt vs ps Hin. rewrite names_app, app_assoc. apply in_app_or in Hin. destruct Hin as [Hin|Hin].
      * apply in_or_app. left.
        rewrite Hsorted in Hin. apply (proj1 (in_partition3 _ _)) in Hin. apply chan_in_pairs in Hin.
        assert (Hreq : In g (groups_required objs)) by (apply in_groups_required; eauto).
        rewrite Hnames.
        destruct (bmem g (groups_included objs)) eqn:Ei.
        -- apply in_or_app. right. apply in_or_app. left. apply ByteStrProofs.bmem_In. exact Ei.
        -- destruct (bmem g (groups_written st)) eqn:Ew.
           ++ apply in_or_app. left. apply HW. exact Ew.
           ++ apply in_or_app. right. apply in_or_app. right. apply in_groups_to_add. auto.
      * exact (H3 g c dt vs ps Hin).
    + constructor; [|exact H4]. apply has_dup_nodup. exact Hdup.
Qed.

(* ---- all sessions --------------------------------------------------------------------------------- *)

Lemma flat_map_snd_pairs (v : Z) (a : list (list wobj)) : flat_map snd (map (pair v) a) = concat a.
Proof. induction a as [|x a IH]; [reflexivity|]. cbn [map flat_map snd concat]. rewrite IH. reflexivity. Qed.

Lemma sorted_calls_length : forall calls st sl, sorted_calls st calls = Ok sl -> length sl = length calls.
Proof.
  induction calls as [|objs r IH]; intros st sl H; cbn [sorted_calls] in H.
  - injection H as <-. reflexivity.
  - destruct (wr_objects st objs) as [[sorted st']|e]; cbn [bind] in H; [|discriminate].
    destruct (sorted_calls st' r) as [sl'|e] eqn:Er; cbn [bind] in H; [|discriminate].
    injection H as <-. cbn [length]. rewrite (IH _ _ Er). reflexivity.
Qed.

Lemma file_trace : forall sessions sl,
  sorted_file sessions = Ok sl ->
  (forall B (h : wobj -> list B), blank_vanish h ->
     flat_map h (flat_map snd sl) = flat_map h (obj_seq sessions)) /\
  (forall acc, fold_left add_new (names (flat_map snd sl)) acc =
               fold_left add_new (names (obj_seq sessions)) acc) /\
  groups_present (flat_map snd sl) /\
  Forall (fun vs : Z * list wobj => NoDup (map obj_path (snd vs))) sl /\
  sl_version sl = content_version sessions.
Proof.
  induction sessions as [|[v calls] r IH]; intros sl Hs.
  - cbn in Hs. injection Hs as <-. repeat split; try constructor. intros g c dt vs ps [].
  - cbn [sorted_file] in Hs.
    destruct (sorted_calls w_init calls) as [a|e] eqn:Ea; cbn [bind] in Hs; [|discriminate].
    destruct (sorted_file r) as [b|e] eqn:Eb; cbn [bind] in Hs; [|discriminate].
    injection Hs as <-.
    destruct (calls_trace calls w_init a [] Ea) as (H1 & H2 & H3 & H4); [intros g Hg; discriminate Hg|].
    destruct (IH b eq_refl) as (I1 & I2 & I3 & I4 & I5).
    unfold obj_seq, all_calls in *. cbn [flat_map snd].
    rewrite !flat_map_app, flat_map_snd_pairs.
    split; [|split; [|split; [|split]]].
    + intros B h Hb. rewrite !flat_map_app, (H1 B h Hb), (I1 B h Hb). reflexivity.
    + intros acc. rewrite !names_app, !fold_left_app.
      rewrite (H2 acc) by (intros g []). apply I2.
    + intros g c dt vs ps Hin. unfold names in *. rewrite flat_map_app. apply in_or_app.
      apply in_app_or in Hin. destruct Hin as [Hin|Hin].
      * left. exact (H3 g c dt vs ps Hin).
      * right. exact (I3 g c dt vs ps Hin).
    + apply Forall_app. split; [|exact I4]. apply Forall_map. exact H4.
    + pose proof (sorted_calls_length _ _ _ Ea) as Hl.
      destruct calls as [|c0 cr]; destruct a as [|a0 ar]; cbn [length] in Hl; try discriminate.
      * cbn [map app content_version]. exact I5.
      * reflexivity.
Qed.
