(* The writer's size / index / lead-in functions TRANSLATED from the Python source on every run
   (Gen/PyFuncsWSize.v; harness/gen/gen_pyfuncs_wsize.py) are EQUAL to the hand-written model
   (Model/Writer.v, Model/Tokens.v serialisers), for all inputs.

   The Python functions build LISTS of TdmsType values whose `.bytes` are joined; the model
   builds the syntax (idx / entry / leadin) and serialises it.  The structural difference is
   bridged here: [idx_fields], [prop_fields], [entry_fields] list the fields of a piece of
   syntax, their concatenation is the model's serialisation, and the translated functions
   return exactly those lists.  An edit of the source (an index length, a field order, a
   flag, the size formula) changes the translated Gallina and breaks the proofs here. *)
From Coq Require Import ZArith List Bool Lia ZifyBool.
From Coq Require Import Init.Byte.
Import ListNotations.
From NpTdms Require Import Base.Bytes Base.Res Base.PySlice Model.Tokens Model.TokensWf Model.ByteStr
     Model.StrictParse Model.SegState Model.Writer Proofs.StrictClauses Proofs.WriterProofs Proofs.WriterClauses
     Gen.PyFuncsWSize.
Local Open Scope Z_scope.

(* ---- reflected tables ------------------------------------------------------------------ *)

Ltac chain_eq ty :=
  repeat match goal with
         | |- context [ty =? ?k] => destruct (Z.eqb_spec ty k); [subst ty; reflexivity|]
         end.

Lemma cls_size_eq ty :
  cls_size ty = match tds_size ty with Some (Some k) => Some k | _ => None end.
Proof. unfold cls_size, tds_size. chain_eq ty. reflexivity. Qed.

Lemma cls_constants_eq : cls_String = T_STRING /\ cls_Void = T_VOID.
Proof. split; reflexivity. Qed.

Definition toc_mask_of (toc : list tocflag) (acc : Z) : Z :=
  fold_left (fun m k => Z.lor m (toc_properties_tbl k)) toc acc.

(* the flags TdmsSegment.write passes: kTocMetaData | kTocRawData | kTocNewObjList *)
Definition WRITER_TOC : list tocflag := [F_kTocMetaData; F_kTocRawData; F_kTocNewObjList].

Lemma toc_tbl_eq :
  toc_properties_tbl F_kTocMetaData = TOC_META /\ toc_properties_tbl F_kTocRawData = TOC_RAW /\
  toc_properties_tbl F_kTocDAQmxRawData = TOC_DAQMX /\ toc_properties_tbl F_kTocInterleavedData = TOC_INTERLEAVED /\
  toc_properties_tbl F_kTocBigEndian = TOC_BIGENDIAN /\ toc_properties_tbl F_kTocNewObjList = TOC_NEWLIST.
Proof. repeat split. Qed.

Lemma writer_toc_eq : toc_mask_of WRITER_TOC 0 = TOC_WRITER.
Proof. reflexivity. Qed.

(* ---- signed and unsigned little-endian packing give the same bytes ------------------------ *)

Lemma z2b_mod z : z2b (z mod 256) = z2b z.
Proof. unfold z2b. rewrite Z.mod_mod by lia. reflexivity. Qed.

Lemma le_enc_mod n : forall z, le_enc n (z mod 256 ^ Z.of_nat n) = le_enc n z.
Proof.
  induction n as [|n IH]; intros z; [reflexivity|].
  cbn [le_enc]. rewrite Nat2Z.inj_succ, Z.pow_succ_r by lia.
  pose proof (pow256_pos n) as Hp.
  rewrite Z.rem_mul_r by lia.
  set (q := (z / 256) mod 256 ^ Z.of_nat n).
  assert (H1 : (z mod 256 + 256 * q) mod 256 = z mod 256).
  { rewrite (Z.mul_comm 256 q), Z.mod_add by lia. apply Z.mod_mod. lia. }
  assert (H2 : (z mod 256 + 256 * q) / 256 = q).
  { rewrite (Z.mul_comm 256 q), Z.div_add by lia.
    rewrite (Z.div_small (z mod 256)) by (apply Z.mod_pos_bound; lia). lia. }
  f_equal.
  - rewrite <- (z2b_mod z), <- (z2b_mod (_ + _)), H1. reflexivity.
  - rewrite H2. apply IH.
Qed.

Lemma s_enc_le n z : s_enc LE n z = u_enc LE n z.
Proof. unfold s_enc, u_of_s, u_enc. apply le_enc_mod. Qed.

Lemma tv_Int32_u32 z : tv_Int32 z = put_u32 LE z.
Proof. unfold tv_Int32, put_u32. apply s_enc_le. Qed.

Lemma tv_String_eq s : tv_String s = put_string LE s.
Proof. reflexivity. Qed.

(* ---- _has_raw_data, object_data_size, _data_size ------------------------------------------- *)

Definition has_raw (o : wobj) : bool :=
  match o with WChan _ _ dt _ _ => negb (dt =? T_VOID) | _ => false end.

Lemma has_raw_data_eq o : has_raw_data_gen o = Ok (has_raw o).
Proof. destruct o; reflexivity. Qed.

Lemma zsum_string_total vals :
  zsum (map (fun s : bytes => 4 + Z.of_nat (length s)) (map (fun s => s) vals)) = string_total vals.
Proof.
  induction vals as [|s r IH]; [reflexivity|].
  cbn [map zsum fold_right string_total]. unfold zsum in IH. rewrite IH. unfold blen. lia.
Qed.

(* object_data_size on the type and values of a channel that has raw data *)
Lemma object_data_size_eq g c dt vals ps :
  dt <> T_VOID -> object_data_size_gen dt vals = obj_data_size (WChan g c dt vals ps).
Proof.
  intros Hv. unfold object_data_size_gen, obj_data_size.
  replace (dt =? T_VOID) with false by (symmetry; apply Z.eqb_neq; exact Hv).
  change cls_String with T_STRING. destruct (dt =? T_STRING).
  - rewrite zsum_string_total. reflexivity.
  - rewrite cls_size_eq. destruct (tds_size dt) as [[k|]|]; reflexivity.
Qed.

Lemma object_data_size_void vals : object_data_size_gen T_VOID vals = Err EType.
Proof. reflexivity. Qed.

Lemma data_size_loop_eq objs : forall acc,
  data_size_gen_loop1 objs acc = do d <- data_size objs; Ok (acc + d).
Proof.
  induction objs as [|o r IH]; intros acc.
  - cbn [data_size_gen_loop1 data_size bind]. rewrite Z.add_0_r. reflexivity.
  - cbn [data_size_gen_loop1 data_size]. rewrite has_raw_data_eq. cbn [bind].
    destruct o as [ps|g ps|g c dt vals ps]; cbn [has_raw].
    + cbn [obj_data_size bind]. rewrite IH. destruct (data_size r); reflexivity.
    + cbn [obj_data_size bind]. rewrite IH. destruct (data_size r); reflexivity.
    + destruct (dt =? T_VOID) eqn:Ev; cbn [negb].
      * cbn [obj_data_size]. rewrite Ev. cbn [bind]. rewrite IH. destruct (data_size r); reflexivity.
      * cbn [wobj_dtype need bind obj_values].
        rewrite (object_data_size_eq g c dt vals ps) by (apply Z.eqb_neq; exact Ev).
        destruct (obj_data_size (WChan g c dt vals ps)) as [a|e]; [|reflexivity]. cbn [bind].
        rewrite IH. destruct (data_size r) as [b|e]; cbn [bind]; [|reflexivity]. f_equal. lia.
Qed.

Theorem data_size_eq objs : data_size_gen objs = data_size objs.
Proof.
  unfold data_size_gen. rewrite data_size_loop_eq. destruct (data_size objs); reflexivity.
Qed.

(* ---- raw_data_index: the fields of the model's index ------------------------------------------ *)

Definition idx_fields (i : idx) : list bytes :=
  match i with
  | INoData => [put_u32 LE RAW_DATA_INDEX_NO_DATA]
  | IMatchPrev => [put_u32 LE RAW_DATA_INDEX_MATCHES_PREVIOUS]
  | IFull lf dt dim n total =>
    [put_u32 LE lf; put_u32 LE dt; put_u32 LE dim; put_u64 LE n] ++
    match total with Some t => [put_u64 LE t] | None => [] end
  | IDaqmx _ _ _ _ _ _ => [ser_idx LE i]
  end.

Lemma concat_idx_fields i : concat (idx_fields i) = ser_idx LE i.
Proof.
  destruct i as [| |lf dt dim n [t|]|]; cbn [idx_fields concat app ser_idx]; rewrite ?app_nil_r; reflexivity.
Qed.

Theorem raw_data_index_eq o : raw_data_index_gen o = Ok (idx_fields (idx_of o)).
Proof.
  unfold raw_data_index_gen. rewrite has_raw_data_eq. cbn [bind].
  destruct o as [ps|g ps|g c dt vals ps]; cbn [has_raw idx_of]; try reflexivity.
  destruct (dt =? T_VOID) eqn:Ev; cbn [negb]; [reflexivity|].
  cbn [wobj_dtype need bind obj_values]. unfold cls_enum_value. change cls_String with T_STRING.
  destruct (dt =? T_STRING) eqn:Es.
  - apply Z.eqb_eq in Es. subst dt.
    rewrite (object_data_size_eq g c T_STRING vals ps) by discriminate.
    cbn [obj_data_size]. change (T_STRING =? T_VOID) with false. change (T_STRING =? T_STRING) with true.
    cbn [bind py_setitem]. cbn [idx_fields app]. rewrite tv_Int32_u32. reflexivity.
  - cbn [bind idx_fields app]. rewrite tv_Int32_u32. reflexivity.
Qed.

(* ---- metadata: the fields of every entry ------------------------------------------------------------ *)

Definition prop_fields (p : prop) : list bytes :=
  [tv_String (p_name p); tv_Int32 (p_type p); prop_value_bytes p].

Definition entry_fields (o : wobj) : list bytes :=
  [tv_String (obj_path o)] ++ idx_fields (idx_of o) ++
  [tv_Uint32 (Z.of_nat (length (obj_props o)))] ++ flat_map prop_fields (obj_props o).

Lemma concat_prop_fields p : concat (prop_fields p) = ser_prop LE p.
Proof.
  unfold prop_fields, ser_prop. cbn [concat]. rewrite app_nil_r, tv_Int32_u32. reflexivity.
Qed.

Lemma concat_flat_map {A} (f : A -> list bytes) (g : A -> bytes) l :
  (forall x, concat (f x) = g x) -> concat (flat_map f l) = flat_map g l.
Proof.
  intros H. induction l as [|x r IH]; [reflexivity|].
  cbn [flat_map]. rewrite concat_app, H, IH. reflexivity.
Qed.

Lemma concat_entry_fields o : concat (entry_fields o) = ser_entry LE (entry_of o).
Proof.
  unfold entry_fields, ser_entry, entry_of. cbn [e_path e_idx e_props].
  rewrite !concat_app, concat_idx_fields. cbn [concat]. rewrite !app_nil_r.
  rewrite (concat_flat_map prop_fields (ser_prop LE)) by apply concat_prop_fields. reflexivity.
Qed.

Lemma metadata_loop3_eq ps : forall acc,
  metadata_gen_loop3 (map (fun p => (p_name p, p)) ps) acc = Ok (acc ++ flat_map prop_fields ps).
Proof.
  induction ps as [|p r IH]; intros acc.
  - cbn. rewrite app_nil_r. reflexivity.
  - cbn [map metadata_gen_loop3]. rewrite IH. cbn [flat_map prop_fields].
    rewrite <- !app_assoc. reflexivity.
Qed.

Lemma metadata_loop2_eq objs : forall acc,
  metadata_gen_loop2 objs acc = Ok (acc ++ flat_map entry_fields objs).
Proof.
  induction objs as [|o r IH]; intros acc.
  - cbn. rewrite app_nil_r. reflexivity.
  - cbn [metadata_gen_loop2]. rewrite raw_data_index_eq. cbn [bind].
    rewrite metadata_loop3_eq. cbn [bind]. rewrite IH. cbn [flat_map]. unfold entry_fields.
    rewrite <- !app_assoc. reflexivity.
Qed.

Definition metadata_fields (objs : list wobj) : list bytes :=
  tv_Uint32 (Z.of_nat (length objs)) :: flat_map entry_fields objs.

Theorem metadata_eq objs : metadata_gen objs = Ok (metadata_fields objs).
Proof. unfold metadata_gen. rewrite metadata_loop2_eq. reflexivity. Qed.

Theorem concat_metadata_fields objs :
  concat (metadata_fields objs) = ser_metadata LE (map entry_of objs).
Proof.
  unfold metadata_fields, ser_metadata. cbn [concat]. rewrite map_length.
  rewrite (concat_flat_map entry_fields (fun o => ser_entry LE (entry_of o))) by apply concat_entry_fields.
  rewrite flat_map_concat_map, (flat_map_concat_map (ser_entry LE)), map_map. reflexivity.
Qed.

(* ---- leadin --------------------------------------------------------------------------------------------- *)

Lemma leadin_loop_eq toc : forall acc, leadin_gen_loop4 toc acc = Ok (toc_mask_of toc acc).
Proof. induction toc as [|k r IH]; intros acc; [reflexivity|]. cbn [leadin_gen_loop4]. apply IH. Qed.

Definition tag_of (is_index : bool) : bytes := if is_index then TAG_INDEX else TAG_DATA.

Theorem leadin_eq objs is_index version toc msize :
  leadin_gen objs is_index version toc msize
  = do d <- data_size objs;
    Ok [tag_of is_index; tv_Int32 (toc_mask_of toc 0); tv_Int32 version; tv_Uint64 (msize + d); tv_Uint64 msize].
Proof.
  unfold leadin_gen. rewrite leadin_loop_eq. cbn [bind]. rewrite data_size_eq.
  destruct (data_size objs) as [d|e]; [|reflexivity]. cbn [bind app].
  destruct is_index; reflexivity.
Qed.

Lemma concat_leadin_fields is_index version next raw :
  concat [tag_of is_index; tv_Int32 TOC_WRITER; tv_Int32 version; tv_Uint64 next; tv_Uint64 raw]
  = ser_leadin (mkLeadin (tag_of is_index) TOC_WRITER version next raw).
Proof.
  unfold ser_leadin. cbn [l_toc l_tag l_version l_next l_raw]. rewrite toc_writer_le.
  cbn [concat]. rewrite app_nil_r. rewrite (tv_Int32_u32 TOC_WRITER). reflexivity.
Qed.

(* ---- TdmsSegment.write: the bytes before the raw data ------------------------------------------------------ *)

Lemma zsum_len_concat (l : list bytes) :
  zsum (map (fun v => Z.of_nat (length (tval_bytes v))) l) = blen (concat l).
Proof.
  unfold blen, tval_bytes. induction l as [|x r IH]; [reflexivity|].
  cbn [map zsum fold_right concat]. unfold zsum in IH. rewrite IH, app_length. lia.
Qed.

Lemma concat_map_id (l : list bytes) : concat (map (fun v => tval_bytes v) l) = concat l.
Proof. unfold tval_bytes. rewrite map_id. reflexivity. Qed.

Theorem write_head_eq objs is_index version :
  write_head_gen objs is_index version
  = do d <- data_size objs;
    let meta := ser_metadata LE (map entry_of objs) in
    Ok (ser_leadin (mkLeadin (tag_of is_index) TOC_WRITER version (blen meta + d) (blen meta)) ++ meta).
Proof.
  unfold write_head_gen. rewrite metadata_eq. cbn [bind].
  rewrite zsum_len_concat, concat_metadata_fields.
  change [F_kTocMetaData; F_kTocRawData; F_kTocNewObjList] with WRITER_TOC.
  rewrite leadin_eq. destruct (data_size objs) as [d|e]; [|reflexivity]. cbn [bind].
  rewrite writer_toc_eq, !concat_map_id, concat_leadin_fields, concat_metadata_fields. reflexivity.
Qed.

(* ---- the whole segment, and C08's headline theorem on the translated functions --------------------------------- *)

(* TdmsSegment.write for the data file and for the index file, with the translated head *)
Definition wr_segment_bytes_tr (version : Z) (objs : list wobj) : res (bytes * bytes) :=
  do hd <- write_head_gen objs false version;
  do hi <- write_head_gen objs true version;
  Ok (hd ++ flat_map obj_raw objs, hi).

Theorem wr_segment_bytes_tr_eq version objs :
  wr_segment_bytes_tr version objs = wr_segment_bytes true version objs.
Proof.
  unfold wr_segment_bytes_tr, wr_segment_bytes. rewrite !write_head_eq, mapM_wr_entry. cbn [bind].
  destruct (data_size objs) as [d|e]; [|reflexivity]. cbn [bind tag_of].
  rewrite <- app_assoc. reflexivity.
Qed.

Definition wr_segment_tr (version : Z) (st : wstate) (objs : list wobj) : res (bytes * bytes * wstate) :=
  do '(sorted, st') <- wr_objects st objs;
  do '(d, i) <- wr_segment_bytes_tr version sorted;
  Ok (d, i, st').

Fixpoint wr_calls_tr (version : Z) (st : wstate) (calls : list (list wobj)) : res (bytes * bytes) :=
  match calls with
  | [] => Ok ([], [])
  | objs :: r =>
    do '(d, i, st') <- wr_segment_tr version st objs;
    do '(d2, i2) <- wr_calls_tr version st' r;
    Ok (d ++ d2, i ++ i2)
  end.

Definition wr_session_tr (version : Z) (calls : list (list wobj)) : res (bytes * bytes) :=
  if valid_version version then wr_calls_tr version w_init calls else Err EValue.

Fixpoint wr_file_tr (sessions : list (Z * list (list wobj))) : res (bytes * bytes) :=
  match sessions with
  | [] => Ok ([], [])
  | (v, calls) :: r =>
    do '(d, i) <- wr_session_tr v calls;
    do '(d2, i2) <- wr_file_tr r;
    Ok (d ++ d2, i ++ i2)
  end.

Lemma wr_segment_tr_eq v st objs : wr_segment_tr v st objs = wr_segment v st objs.
Proof.
  unfold wr_segment_tr, wr_segment, wr_segment_gen.
  destruct (wr_objects st objs) as [[sorted st']|e]; [|reflexivity]. cbn [bind].
  rewrite wr_segment_bytes_tr_eq. reflexivity.
Qed.

Lemma wr_calls_tr_eq v calls : forall st, wr_calls_tr v st calls = wr_calls true v st calls.
Proof.
  induction calls as [|objs r IH]; intros st; [reflexivity|].
  cbn [wr_calls_tr wr_calls]. rewrite wr_segment_tr_eq. unfold wr_segment.
  destruct (wr_segment_gen true v st objs) as [[[d i] st']|e]; [|reflexivity]. cbn [bind].
  rewrite IH. reflexivity.
Qed.

Lemma wr_file_tr_eq sessions : wr_file_tr sessions = wr_file sessions.
Proof.
  induction sessions as [|[v calls] r IH]; [reflexivity|].
  cbn [wr_file_tr]. unfold wr_file in *. cbn [wr_file_gen]. unfold wr_session_tr, wr_session_gen.
  rewrite wr_calls_tr_eq, IH. reflexivity.
Qed.

Theorem writer_structurally_valid_gen : forall sessions data index,
  wf_file sessions = true ->
  wr_file_tr sessions = Ok (data, index) ->
  exists segs,
    strict_parse data = Some segs /\
    Forall segment_consistent segs /\
    first_segment_declares_root segs /\
    groups_declared_before_channels segs /\
    data = flat_map ser_segment segs /\
    index = flat_map ser_index_segment segs /\
    strip_raw_and_retag data = Some index.
Proof.
  intros sessions data index Hwf Hwr. rewrite wr_file_tr_eq in Hwr.
  exact (writer_structurally_valid_lemma sessions data index Hwf Hwr).
Qed.

(* ---- an instance: a string channel (index length 28, total = 4n + bytes) and an int32 channel -------------------- *)

Definition ex_str : wobj := WChan [x67] [x73] T_STRING [[x61]; [x62; x63; x64]; []] [].
Definition ex_i32 : wobj := WChan [x67] [x69] 3 [[x01; x00; x00; x00]; [x02; x00; x00; x00]] [].

Lemma ex_wsize_values :
  raw_data_index_gen ex_str
  = Ok [put_u32 LE 28; put_u32 LE 32; put_u32 LE 1; put_u64 LE 3; put_u64 LE 16] /\
  raw_data_index_gen ex_i32 = Ok [put_u32 LE 20; put_u32 LE 3; put_u32 LE 1; put_u64 LE 2] /\
  data_size_gen [WRoot []; ex_str; ex_i32] = Ok 24 /\
  (exists hd, write_head_gen [WRoot []; ex_str; ex_i32] false 4712 = Ok hd /\
              read_at 4 4 hd = u_enc LE 4 14 /\
              u_dec LE (read_at 12 8 hd) = u_dec LE (read_at 20 8 hd) + 24 /\
              u_dec LE (read_at 20 8 hd) = blen hd - 28).
Proof.
  split; [vm_compute; reflexivity|]. split; [vm_compute; reflexivity|]. split; [vm_compute; reflexivity|].
  eexists. split; [vm_compute; reflexivity|]. vm_compute. repeat split.
Qed.

Lemma obj_idx_fixed o : obj_idx true o = Ok (idx_of o).
Proof.
  destruct o as [ps|g ps|g c dt vals ps]; cbn [obj_idx idx_of]; try reflexivity.
  destruct (dt =? T_VOID); reflexivity.
Qed.

Lemma raw_data_index_full o :
  raw_data_index_gen o = Ok (idx_fields (idx_of o)) /\
  concat (idx_fields (idx_of o)) = ser_idx LE (idx_of o) /\
  obj_idx true o = Ok (idx_of o).
Proof. split; [apply raw_data_index_eq|]. split; [apply concat_idx_fields|apply obj_idx_fixed]. Qed.

Lemma metadata_full objs :
  metadata_gen objs = Ok (metadata_fields objs) /\
  concat (metadata_fields objs) = ser_metadata LE (map entry_of objs) /\
  mapM (wr_entry true) objs = Ok (map entry_of objs).
Proof. split; [apply metadata_eq|]. split; [apply concat_metadata_fields|apply mapM_wr_entry]. Qed.

Lemma ex_wsize_file :
  exists data index,
    wf_file [(4712, [[WRoot []; ex_str; ex_i32]])] = true /\
    wr_file_tr [(4712, [[WRoot []; ex_str; ex_i32]])] = Ok (data, index).
Proof. eexists. eexists. split; vm_compute; reflexivity. Qed.
