(* C11: instances for the truncated-DAQmx statements (Props/C11_lazy.v): segment 0
   of ReadCorrectDaqmx.dx_file -- big-endian, raw buffers (2 rows x 4 bytes) and
   (3 rows x 3 bytes), 17 bytes per chunk, TWO chunks (34 bytes of raw data);
   channel c0 (DaqMxRawData, scalers id 0 and id 5 in buffer 0), c1 (digital line,
   buffer 1), c2 (typed int32, buffer 0). *)
From Coq Require Import List ZArith Bool Lia.
From Coq Require Import Init.Byte.
Import ListNotations.
From NpTdms Require Import Base.Bytes Base.Res Model.Tokens Model.TokensWf Model.SegState
     Model.Layout Model.Reader Model.FileSyn Proofs.LayoutProofs Proofs.FileSynProofs
     Proofs.DaqmxProofs Proofs.TruncProofs Proofs.ReadCorrect Proofs.ReadCorrectDaqmx
     Proofs.TruncValuesLayout Proofs.TruncLazyDaqmx.
From NpTdms Require Import Base.PySlice Model.LazyRead Model.LazyBytes Proofs.LazyEagerIndex Proofs.LazyEagerView
     Proofs.LazyEagerTop Proofs.TruncLazyDaqmxLazy.
Local Open Scope Z_scope.

(* the record the metadata pass builds for segment 0 when the file ends after j bytes
   of its raw data *)
Definition dx_cut_seg (j : Z) : segment :=
  let g := dx_seg 0 in
  match calculate_chunks (sg_toc g) true (sg_objs g) j with
  | Ok (n, f) => mkSeg (sg_pos g) (sg_toc g) (sg_data g + j) (sg_data g) true (sg_objs g) (sg_index g) n f
  | Err _ => g
  end.

Example dx_seg0_ok : daqmx_seg_ok (dx_seg 0) (dx_data 0).
Proof. apply daqmx_seg_ok_b_sound. vm_compute. reflexivity. Qed.

(* the theorem applies to every cut of the raw data block *)
Example dx_cut_applies : forall j, 0 <= j < 34 ->
    exists cs cur',
      read_segment_chunks (dx_cut_seg j) (take j (dx_data 0)) = Ok (cs, cur') /\
      Forall2 chunk_ext cs (cut_direct_chunks (dx_seg 0) (dx_data 0) j) /\
      Forall (chunk_shape (data_objs (sg_objs (dx_seg 0)))) cs /\
      sg_nchunks (dx_cut_seg j) = Z.of_nat (length cs).
Proof.
  intros j Hj.
  assert (Hlen : blen (dx_data 0) = 34) by (vm_compute; reflexivity).
  destruct (cut_calculate_chunks_ok (sg_toc (dx_seg 0)) false true (sg_objs (dx_seg 0)) 34 j (2, None))
    as [[n f] Hcc]; [vm_compute; reflexivity|lia|].
  assert (Hg : dx_cut_seg j = mkSeg (sg_pos (dx_seg 0)) (sg_toc (dx_seg 0)) (sg_data (dx_seg 0) + j)
                                    (sg_data (dx_seg 0)) true (sg_objs (dx_seg 0)) (sg_index (dx_seg 0)) n f).
  { unfold dx_cut_seg. cbv zeta. rewrite Hcc. reflexivity. }
  rewrite Hg.
  apply (daqmx_truncation_complete_rows (dx_seg 0) _ (dx_data 0) j dx_seg0_ok);
    [rewrite Hlen; exact Hj|reflexivity|reflexivity|exact Hcc].
Qed.

Section Ex.
Import String.
Local Open Scope string_scope.

(* get_daqmx_final_chunk_lengths' row counts for 11 and for 6 left-over bytes *)
Example dx_buffer_lengths :
  daqmx_buffer_lengths [(2, 4); (3, 3)] 11 = [2; 1] /\
  daqmx_buffer_lengths [(2, 4); (3, 3)] 6 = [1; 0] /\
  daqmx_buffer_lengths [(2, 4); (3, 3)] 8 = [2; 0] /\
  map (fun k => rows_within 3 3 8 k) [8; 10; 11; 14; 17] = [0; 0; 1; 2; 3].
Proof. vm_compute. repeat split. Qed.

(* cut after 28 bytes: chunk 0 complete; of chunk 1 buffer 0 is whole (2 rows) and
   buffer 1 has ONE complete row (3 of its 9 bytes): c0 and c2 get 2 values, the
   digital-line channel c1 gets 1 *)
Example dx_cut_28 :
  cut_direct_chunks (dx_seg 0) (dx_data 0) 28 =
  [ [(dx_p0, CScalers [(0, [hex "0201"; hex "1211"]); (5, [hex "04"; hex "14"])]);
     (dx_p1, CScalers [(0, [hex "00"; hex "01"; hex "00"])]);
     (dx_p2, CData [hex "04030201"; hex "14131211"])];
    [(dx_p0, CScalers [(0, [hex "2221"; hex "3231"]); (5, [hex "24"; hex "34"])]);
     (dx_p1, CScalers [(0, [hex "01"])]);
     (dx_p2, CData [hex "24232221"; hex "34333231"])] ] /\
  read_segment_chunks (dx_cut_seg 28) (take 28 (dx_data 0)) =
  Ok ([ [(dx_p2, CData [hex "04030201"; hex "14131211"]);
         (dx_p0, CScalers [(0, [hex "0201"; hex "1211"]); (5, [hex "04"; hex "14"])]);
         (dx_p1, CScalers [(0, [hex "00"; hex "01"; hex "00"])])];
        [(dx_p2, CData [hex "24232221"; hex "34333231"]);
         (dx_p0, CScalers [(0, [hex "2221"; hex "3231"]); (5, [hex "24"; hex "34"])]);
         (dx_p1, CScalers [(0, [hex "01"])])] ], []) /\
  (sg_nchunks (dx_cut_seg 28), sg_final (dx_cut_seg 28))
  = (2, Some [(dx_p0, 2); (dx_p1, 1); (dx_p2, 2)]).
Proof. vm_compute. repeat split. Qed.

(* cut after 23 bytes: 6 bytes of chunk 1: one complete row of buffer 0, nothing
   of buffer 1 *)
Example dx_cut_23 :
  cut_direct_chunks (dx_seg 0) (dx_data 0) 23 =
  [ [(dx_p0, CScalers [(0, [hex "0201"; hex "1211"]); (5, [hex "04"; hex "14"])]);
     (dx_p1, CScalers [(0, [hex "00"; hex "01"; hex "00"])]);
     (dx_p2, CData [hex "04030201"; hex "14131211"])];
    [(dx_p0, CScalers [(0, [hex "2221"]); (5, [hex "24"])]);
     (dx_p1, CScalers [(0, [])]);
     (dx_p2, CData [hex "24232221"])] ] /\
  (sg_nchunks (dx_cut_seg 23), sg_final (dx_cut_seg 23))
  = (2, Some [(dx_p0, 1); (dx_p1, 0); (dx_p2, 1)]).
Proof. vm_compute. repeat split. Qed.

(* cut on the chunk boundary: one chunk, no override *)
Example dx_cut_17 :
  cut_direct_chunks (dx_seg 0) (dx_data 0) 17 = firstn 1 (direct_chunks (dx_seg 0) (dx_data 0)) /\
  (sg_nchunks (dx_cut_seg 17), sg_final (dx_cut_seg 17)) = (1, None).
Proof. vm_compute. repeat split. Qed.
End Ex.

(* every cut 0 <= j < 34, computed: the decoder's chunks hold, under every path and
   (path, scale id) of the example, the values of cut_direct_chunks *)
Definition dx_cut_agrees (j : Z) : bool :=
  match read_segment_chunks (dx_cut_seg j) (take j (dx_data 0)) with
  | Ok (cs, _) =>
    let spec := cut_direct_chunks (dx_seg 0) (dx_data 0) j in
    forallb (fun p =>
               LazyBytes.vals_eqb (chan_values p cs) (chan_values p spec) &&
               forallb (fun id => LazyBytes.vals_eqb (chan_scaler_values p id cs) (chan_scaler_values p id spec))
                       [0; 5; 7]) [dx_p0; dx_p1; dx_p2; dx_px]
  | Err _ => false
  end.

Example dx_all_cuts : forallb (fun k => dx_cut_agrees (Z.of_nat k)) (seq 0 34) = true.
Proof. vm_compute. reflexivity. Qed.

(* ---- lazy windows of DAQmx channels (dx_file, complete) ------------------------------ *)

Example dx_distinct : seg_paths_distinct dx_st.
Proof. apply seg_paths_distinct_b_sound. vm_compute. reflexivity. Qed.

Definition dx_chan (i : nat) : channel := nth i (all_channels dx_h) (mkChan [] [] [] None None 0 []).

Example dx_channels :
  map ch_path (all_channels dx_h) = [dx_p0; dx_p1; dx_p2; dx_px] /\
  map ch_dtype (all_channels dx_h) = [Some T_DAQMX; Some T_DAQMX; Some 3; Some 3] /\
  map ch_scalers (all_channels dx_h) = [Some [(0, 2); (5, 5)]; Some [(0, 5)]; Some [(0, 3)]; None].
Proof. vm_compute. repeat split. Qed.

Lemma dx_chan_in i : (i < 4)%nat -> In (dx_chan i) (all_channels dx_h).
Proof.
  intros H. unfold dx_chan. apply nth_In.
  replace (length (all_channels dx_h)) with 4%nat by (vm_compute; reflexivity). exact H.
Qed.

(* the theorems, instantiated: scalers 0 and 5 of c0, scaler 0 of the digital-line
   channel c1, and the plain-data channels c2 (typed DAQmx) and x (ordinary) *)
Example dx_lazy_windows : forall offs len, 0 <= offs -> len_nonneg len ->
  lz_read_scaler_bytes (ser_file dx_file) dx_p0 0 offs len
  = Ok (window_of offs len (chan_scaler_values dx_p0 0 (List.concat dx_chunks))) /\
  lz_read_scaler_bytes (ser_file dx_file) dx_p0 5 offs len
  = Ok (window_of offs len (chan_scaler_values dx_p0 5 (List.concat dx_chunks))) /\
  lz_read_scaler_bytes (ser_file dx_file) dx_p1 0 offs len
  = Ok (window_of offs len (chan_scaler_values dx_p1 0 (List.concat dx_chunks))) /\
  lz_read_bytes (ser_file dx_file) dx_p2 offs len
  = Ok (window_of offs len (chan_values dx_p2 (List.concat dx_chunks))) /\
  lz_read_bytes (ser_file dx_file) dx_px offs len
  = Ok (window_of offs len (chan_values dx_px (List.concat dx_chunks))).
Proof.
  intros offs len Ho Hl.
  assert (Hs : forall i id, (i < 2)%nat -> In id (match i with O => [0; 5] | _ => [0] end) ->
                            channel_scaler (dx_chan i) id).
  { intros i id Hi Hid. destruct i as [|[|i]]; [| |lia].
    - split; [vm_compute; reflexivity|]. exists [(0, 2); (5, 5)]. split; [vm_compute; reflexivity|].
      cbn [map fst]. exact Hid.
    - split; [vm_compute; reflexivity|]. exists [(0, 5)]. split; [vm_compute; reflexivity|].
      cbn [map fst]. exact Hid. }
  pose proof (fun c id => daqmx_lazy_windows dx_file dx_st dx_h dx_chunks dx_wf dx_run dx_hier dx_content
                            dx_canonical dx_distinct c id offs len) as W.
  pose proof (fun c dt => daqmx_lazy_windows_typed dx_file dx_st dx_h dx_chunks c dt offs len dx_wf dx_run dx_hier
                            dx_content dx_canonical dx_distinct) as T.
  split; [|split; [|split; [|split]]].
  - exact (W (dx_chan 0) 0 (dx_chan_in 0 ltac:(lia)) (Hs 0%nat 0 ltac:(lia) ltac:(left; reflexivity)) Ho Hl).
  - exact (W (dx_chan 0) 5 (dx_chan_in 0 ltac:(lia)) (Hs 0%nat 5 ltac:(lia) ltac:(right; left; reflexivity)) Ho Hl).
  - exact (W (dx_chan 1) 0 (dx_chan_in 1 ltac:(lia)) (Hs 1%nat 0 ltac:(lia) ltac:(left; reflexivity)) Ho Hl).
  - exact (proj1 (T (dx_chan 2) 3 (dx_chan_in 2 ltac:(lia)) ltac:(vm_compute; reflexivity) ltac:(discriminate) Ho Hl)).
  - exact (proj1 (T (dx_chan 3) 3 (dx_chan_in 3 ltac:(lia)) ltac:(vm_compute; reflexivity) ltac:(discriminate) Ho Hl)).
Qed.

Section ExL.
Import String.
Local Open Scope string_scope.

(* evaluated: scaler 0 of c0 = 0201 1211 | 2221 3231 || 4241 5251 (chunk | segment
   boundaries); the window [1, 5) crosses both *)
Example dx_lazy_eval :
  lz_read_scaler_bytes (ser_file dx_file) dx_p0 0 1 (Some 4) = Ok [hex "1211"; hex "2221"; hex "3231"; hex "4241"] /\
  window_of 1 (Some 4) (chan_scaler_values dx_p0 0 (List.concat dx_chunks)) = [hex "1211"; hex "2221"; hex "3231"; hex "4241"] /\
  lz_read_scaler_bytes (ser_file dx_file) dx_p0 5 3 None = Ok [hex "34"; hex "44"; hex "54"] /\
  lz_read_scaler_bytes (ser_file dx_file) dx_p1 0 2 (Some 5) = Ok [hex "00"; hex "01"; hex "01"; hex "00"; hex "01"] /\
  lz_read_scaler_bytes (ser_file dx_file) dx_p0 7 0 None = Err EKey /\
  lz_read_scaler_bytes (ser_file dx_file) dx_p2 0 0 None = Err EKey /\
  lz_read_bytes (ser_file dx_file) dx_p2 1 (Some 3) = Ok [hex "14131211"; hex "24232221"; hex "34333231"] /\
  lz_scaler_chunks (ser_file dx_file) dx_p0 0 = Ok [[hex "0201"; hex "1211"]; [hex "2221"; hex "3231"]; [hex "4241"; hex "5251"]].
Proof. vm_compute. repeat split. Qed.
End ExL.

(* every window (offs 0..7, len None / 0..7) of every scaler, computed against the
   eager per-scaler values of the theorem's right-hand side *)
Definition dx_windows_ok : bool :=
  let data := ser_file dx_file in
  let eager p id := chan_scaler_values p id (List.concat dx_chunks) in
  forallb (fun pid =>
             forallb (fun o =>
                        forallb (fun l =>
                                   match lz_read_scaler_bytes data (fst pid) (snd pid) o l with
                                   | Ok vs => vals_eqb vs (window_of o l (eager (fst pid) (snd pid)))
                                   | Err _ => false
                                   end)
                                (None :: map (fun n => Some (Z.of_nat n)) (seq 0 8)))
                     (map Z.of_nat (seq 0 8)))
          [(dx_p0, 0); (dx_p0, 5); (dx_p1, 0)].

Example dx_all_windows : dx_windows_ok = true.
Proof. vm_compute. reflexivity. Qed.
