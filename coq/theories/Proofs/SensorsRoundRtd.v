(* Proofs/SensorsRoundRtd.v -- rounding error of the quadratic branch of RtdScaling.scale in
   binary64 (Model/SensorsF.rtd_scale_F) against the real formula (Model/SensorsR.rtd_scale_pos
   applied to rtd_r_t), and its composition with the inversion theorem of Props/C17.v.

   The twelve rounded operations, in the order of the code
       r1 = v / i        l2 = 2.0 * lead      rt = r1 - l2       (3-wire: rt = r1 - lead)
       q = rt / r_0      w = 1.0 - q          b4 = 4.0 * b       m = b4 * w
       d = a**2 - m      s = sqrt(d)          n = -a + s         b2 = 2.0 * b      t = n / b2
   are followed with the calculus of Proofs/SensorsRoundBase.v.  The first three are kept
   proportional to r_0 (a resistance ratio is what matters: |rt - r| <= (53 u + ..) r_0),
   from q on all bounds are numerals.  Ranges (all on the values of the float parameters):
       1e-5 <= i <= 1,  10 <= r_0 <= 1e4,  3e-3 <= a <= 5e-3,  -1e-6 <= b <= -1e-7,
       0 <= lead <= 100,  |a**2 - a a| <= 2^-52 a a  (pow of the C library, see Model/SensorsF.v),
       0 <= r <= 6 r_0  and  a^2 - 4 b (1 - r / r_0) >= 9e-7   for the measured resistance r
   (for these parameters the discriminant is (a + 2 b T)^2 and T <= 1000 keeps it >= 1e-6).
   The subtraction  -a + sqrt(..)  cancels near T = 0; the bound is therefore absolute:
       |float result - real formula| <= 3e-10 degC,
   dominated by  (error of q, 59 u) * 4|b|max / sqrt(9e-7) / (2|b|min). *)
From Coq Require Import Reals ZArith List Bool Lra Lia Psatz.
From Coq Require Import PrimFloat.
From Flocq Require Import Core BinarySingleNaN.
From Interval Require Import Tactic.
From NpTdms Require Import Model.SensorsR Model.SensorsF.
From NpTdms Require Import Proofs.SensorsProofs Proofs.HornerRound Proofs.SensorsRoundBase.
Open Scope R_scope.
Unset Lia Cache. Unset Nia Cache. Unset Nra Cache.

Ltac ul := rewrite ?u64_val; lra.

(* the parameter ranges of the rounding theorem *)
Definition rtd_ranges (I R0 A A2 B L : R) : Prop :=
  1e-5 <= I <= 1 /\ 10 <= R0 <= 1e4 /\ 3e-3 <= A <= 5e-3 /\ -1e-6 <= B <= -1e-7 /\
  0 <= L <= 100 /\ Rabs (A2 - A ^ 2) <= 2 * u64 * A ^ 2.

(* the resistance ranges *)
Definition rtd_resistance_ok (R0 A B r : R) : Prop :=
  0 <= r <= 6 * R0 /\ 9e-7 <= A ^ 2 - 4 * B * (1 - r / R0).

Definition rtd_E2 (R0 : R) : R := 53 * u64 * R0 + 4 * eta64.

Section Rtd.
  Variables i r0 a a2 b lead v : float.
  Variable cfg : Z.
  Hypothesis Hfi : Ffin i.
  Hypothesis Hfr0 : Ffin r0.
  Hypothesis Hfa : Ffin a.
  Hypothesis Hfa2 : Ffin a2.
  Hypothesis Hfb : Ffin b.
  Hypothesis Hfl : Ffin lead.
  Hypothesis Hfv : Ffin v.
  Hypothesis Hrg : rtd_ranges (FR i) (FR r0) (FR a) (FR a2) (FR b) (FR lead).

  Let r := rtd_r_t (FR i) (FR lead) cfg (FR v).

  Hypothesis Hr : 0 <= r <= 6 * FR r0.

  (* ---- r1 = v / i, l2, rt ---- *)
  Lemma rtd_r_t_near :
    fnear (rtd_r_t_F i lead cfg v) r (rtd_E2 (FR r0)) (6 * FR r0).
  Proof.
    destruct Hrg as [HI [HR0 [HA [HB [HL Ha2]]]]].
    pose proof u64_pos as Hu. pose proof eta64_pos as He. pose proof eta64_small as Hes.
    assert (Hu' := u64_val).
    unfold rtd_r_t_F, adjust_for_lead_resistance_F, rtd_E2.
    assert (Hr' := Hr). revert Hr'.
    unfold r, rtd_r_t, adjust_for_lead_resistance.
    rewrite Z.eqb_refl. cbn [andb].
    assert (HI0 : FR i <> 0) by lra.
    destruct (cfg =? 3)%Z; [|destruct (cfg =? 2)%Z]; intros Hr'.
    - (* 3-wire: r1 - lead *)
      assert (H1 : fnear (v / i)%float (FR v / FR i) (26 * u64 * FR r0 + eta64) (26 * FR r0)).
      { apply fnear_div_exact; try assumption; [apply Rabs_le; lra|ul|ul]. }
      assert (HLn : fnear lead (FR lead) 0 100) by (apply fnear_in; [assumption|apply Rabs_le; lra]).
      eapply fnear_sub; [exact H1|exact HLn|apply Rabs_le; lra|ul|ul].
    - (* 2-wire: r1 - 2.0 * lead *)
      assert (H1 : fnear (v / i)%float (FR v / FR i) (26 * u64 * FR r0 + eta64) (26 * FR r0)).
      { apply fnear_div_exact; try assumption; [apply Rabs_le; lra|ul|ul]. }
      assert (HLn : fnear lead (FR lead) 0 100) by (apply fnear_in; [assumption|apply Rabs_le; lra]).
      assert (HL2 : fnear (2 * lead)%float (2 * FR lead) (200 * u64 + eta64) 200).
      { eapply fnear_mul; [exact fnear_two|exact HLn|apply Rabs_le; lra|ul|ul]. }
      eapply fnear_sub; [exact H1|exact HL2|apply Rabs_le; lra|ul|ul].
    - (* 4-wire: r1 *)
      apply fnear_div_exact; try assumption; [apply Rabs_le; lra|ul|ul].
  Qed.

  (* ---- the quadratic form ---- *)
  Hypothesis HD : 9e-7 <= FR a ^ 2 - 4 * FR b * (1 - r / FR r0).
  (* the float comparison r_t >= r_0 came out true *)
  Hypothesis Hbranch : (r0 <=? rtd_r_t_F i lead cfg v)%float = true.

  Lemma rtd_q_lower : 1 - 6e-15 <= r / FR r0 <= 6.
  Proof.
    destruct Hrg as [HI [HR0 [HA [HB [HL Ha2]]]]].
    pose proof rtd_r_t_near as [Hf [He _]].
    pose proof (leb_FR _ _ Hfr0 Hf Hbranch) as Hle.
    apply Rabs_le_inv in He. unfold rtd_E2 in He.
    pose proof eta64_small as Hes. pose proof eta64_pos as Hep.
    rewrite u64_val in He.
    assert (Hlow : FR r0 * (1 - 6e-15) <= r) by lra.
    apply Rdiv_between; lra.
  Qed.

  Lemma rtd_scale_pos_near :
    fnear (rtd_scale_pos_F a a2 b r0 (rtd_r_t_F i lead cfg v))
          (rtd_scale_pos (FR a) (FR b) (FR r0) r) 3e-10 25100.
  Proof.
    pose proof rtd_q_lower as Hq.
    pose proof rtd_r_t_near as Hrt.
    destruct Hrg as [HI [HR0 [HA [HB [HL Ha2]]]]].
    pose proof u64_pos as Hu. pose proof eta64_pos as He. pose proof eta64_small as Hes.
    unfold rtd_scale_pos_F, rtd_scale_pos.
    set (rt := rtd_r_t_F i lead cfg v) in *.
    (* q = rt / r_0 *)
    assert (Hqn : fnear (rt / r0)%float (r / FR r0) 6.6e-15 6).
    { eapply (fnear_div_exact_den rt r0 r _ _ (53 * u64 + 4 * eta64)); [exact Hrt|exact Hfr0|lra| | | |].
      - unfold rtd_E2. assert (eta64 * 1 <= eta64 * FR r0) by (apply Rmult_le_compat_l; lra). lra.
      - apply Rabs_le. lra.
      - fnum.
      - fnum. }
    (* w = 1 - q *)
    assert (Hwn : fnear (1 - rt / r0)%float (1 - r / FR r0) 7.2e-15 5).
    { eapply fnear_sub; [exact fnear_one|exact Hqn|apply Rabs_le; lra|fnum|fnum]. }
    (* b4 = 4 * b *)
    assert (Hbn : fnear b (FR b) 0 1e-6) by (apply fnear_in; [assumption|apply Rabs_le; lra]).
    assert (Hb4 : fnear (4 * b)%float (4 * FR b) 4.5e-22 4e-6).
    { eapply fnear_mul; [exact fnear_four|exact Hbn|apply Rabs_le; lra|fnum|fnum]. }
    (* m = b4 * w *)
    assert (Hmn : fnear (4 * b * (1 - rt / r0))%float (4 * FR b * (1 - r / FR r0)) 3.4e-20 (4e-6 * 5)).
    { eapply fnear_mul; [exact Hb4|exact Hwn| |fnum|fnum].
      apply Rabs_mul_le; apply Rabs_le; lra. }
    (* d = a2 - m *)
    assert (HA2 : 9e-6 <= FR a ^ 2 <= 2.5e-5) by nra.
    assert (Ha2n : fnear a2 (FR a ^ 2) 5.6e-21 2.5e-5).
    { split; [exact Hfa2|]. split; [|apply Rabs_le; lra].
      apply Rle_trans with (1 := Ha2).
      apply Rle_trans with (2 * u64 * 2.5e-5); [apply Rmult_le_compat_l; lra|fnum]. }
    set (d := FR a ^ 2 - 4 * FR b * (1 - r / FR r0)) in *.
    assert (Hdu : d <= 2.6e-5).
    { unfold d. assert (- 4 * FR b * (1 - r / FR r0) <= 4e-6 * 6e-15) by nra. lra. }
    assert (Hdn : fnear (a2 - 4 * b * (1 - rt / r0))%float d 4.3e-20 2.6e-5).
    { eapply fnear_sub; [exact Ha2n|exact Hmn|fold d; apply Rabs_le; lra|fnum|fnum]. }
    (* s = sqrt d *)
    assert (Hsn : fnear (PrimFloat.sqrt (a2 - 4 * b * (1 - rt / r0)))%float (R_sqrt.sqrt d) 4.7e-17 5.1e-3).
    { eapply (fnear_sqrt _ _ _ _ 9.4e-4); [exact Hdn|lra|lra|lra|lra|lra|fnum|fnum]. }
    (* n = -a + s *)
    assert (Han : fnear (- a)%float (- FR a) 0 5e-3).
    { apply fnear_opp. apply fnear_in; [assumption|apply Rabs_le; lra]. }
    assert (Hs1 : 9.4e-4 <= R_sqrt.sqrt d <= 5.1e-3).
    { split.
      - rewrite <- (sqrt_square 9.4e-4) by lra. apply sqrt_le_1_alt. lra.
      - rewrite <- (sqrt_square 5.1e-3) by lra. apply sqrt_le_1_alt. lra. }
    assert (Hnn : fnear (- a + PrimFloat.sqrt (a2 - 4 * b * (1 - rt / r0)))%float
                        (- FR a + R_sqrt.sqrt d) 4.8e-17 5e-3).
    { eapply fnear_add; [exact Han|exact Hsn|apply Rabs_le; lra|fnum|fnum]. }
    (* b2 = 2 * b *)
    assert (Hb2 : fnear (2 * b)%float (2 * FR b) 2.3e-22 2e-6).
    { eapply fnear_mul; [exact fnear_two|exact Hbn|apply Rabs_le; lra|fnum|fnum]. }
    (* t = n / b2 *)
    eapply (fnear_div _ _ _ _ _ _ _ _ 2e-7 25100); [exact Hnn|exact Hb2| |lra| |fnum|fnum].
    - rewrite Rabs_left by lra. lra.
    - apply Rle_trans with (5e-3 / 2e-7); [|lra].
      apply Rabs_div_le; [apply Rabs_le; lra|lra|rewrite Rabs_left by lra; lra].
  Qed.

  (* the float result of rtd_scale_F on the quadratic branch *)
  Lemma rtd_scale_F_quadratic :
    rtd_scale_F i r0 a a2 b lead cfg v = Some (rtd_scale_pos_F a a2 b r0 (rtd_r_t_F i lead cfg v)).
  Proof. unfold rtd_scale_F. rewrite Hbranch. reflexivity. Qed.
End Rtd.

(* ---- the rounding theorem ------------------------------------------------------------------- *)

Theorem rtd_quadratic_rounding_all : forall (i r0 a a2 b lead v : float) (cfg : Z) (y : float),
  Ffin i -> Ffin r0 -> Ffin a -> Ffin a2 -> Ffin b -> Ffin lead -> Ffin v ->
  rtd_ranges (FR i) (FR r0) (FR a) (FR a2) (FR b) (FR lead) ->
  rtd_resistance_ok (FR r0) (FR a) (FR b) (rtd_r_t (FR i) (FR lead) cfg (FR v)) ->
  rtd_scale_F i r0 a a2 b lead cfg v = Some y ->
  Ffin y /\
  Rabs (FR y - rtd_scale_pos (FR a) (FR b) (FR r0) (rtd_r_t (FR i) (FR lead) cfg (FR v))) <= 3e-10.
Proof.
  intros i r0 a a2 b lead v cfg y Hfi Hfr0 Hfa Hfa2 Hfb Hfl Hfv Hrg [Hr HD] Hs.
  unfold rtd_scale_F in Hs.
  destruct (r0 <=? rtd_r_t_F i lead cfg v)%float eqn:Hbranch; [|discriminate].
  injection Hs as <-.
  destruct (rtd_scale_pos_near i r0 a a2 b lead v cfg Hfi Hfr0 Hfa Hfa2 Hfb Hfl Hfv Hrg Hr HD Hbranch)
    as [Hf [He _]].
  split; assumption.
Qed.

(* ---- composition with the inversion theorem over the reals ------------------------------------- *)

(* rtd_r_t is affine in the voltage *)
Lemma rtd_r_t_affine : forall I L cfg V V', 
  rtd_r_t I L cfg V' - rtd_r_t I L cfg V = (V' - V) / I.
Proof.
  intros I L cfg V V'. unfold rtd_r_t, adjust_for_lead_resistance.
  destruct (cfg =? 3)%Z; [|destruct ((CURRENT_EXCITATION =? CURRENT_EXCITATION)%Z && (cfg =? 2)%Z)%bool];
    unfold Rdiv; ring.
Qed.

(* the quadratic formula is Lipschitz in the resistance where the discriminant is >= k^2 *)
Lemma rtd_scale_pos_lipschitz : forall A B R0 r r' k,
  0 < R0 -> B < 0 -> 0 < k ->
  0 <= A ^ 2 - 4 * B * (1 - r' / R0) ->
  k * k <= A ^ 2 - 4 * B * (1 - r / R0) ->
  Rabs (rtd_scale_pos A B R0 r' - rtd_scale_pos A B R0 r) <= 2 * Rabs (r' - r) / (R0 * k).
Proof.
  intros A B R0 r r' k HR0 HB Hk Hd' Hd. unfold rtd_scale_pos.
  set (d' := A ^ 2 - 4 * B * (1 - r' / R0)) in *. set (d := A ^ 2 - 4 * B * (1 - r / R0)) in *.
  replace ((- A + R_sqrt.sqrt d') / (2 * B) - (- A + R_sqrt.sqrt d) / (2 * B))
    with ((R_sqrt.sqrt d' - R_sqrt.sqrt d) / (2 * B)) by (field; lra).
  pose proof (sqrt_lipschitz d' d k Hd' Hk Hd) as Hs.
  assert (Hdd : d' - d = 4 * B * (r' - r) / R0) by (unfold d', d; field; lra).
  rewrite Hdd in Hs.
  unfold Rdiv at 1. rewrite Rabs_mult, Rabs_inv.
  assert (H2B : Rabs (2 * B) = - (2 * B)) by (apply Rabs_left; lra).
  rewrite H2B.
  assert (Hq : Rabs (4 * B * (r' - r) / R0) = - (4 * B) * Rabs (r' - r) / R0).
  { unfold Rdiv. rewrite !Rabs_mult, Rabs_inv, (Rabs_pos_eq R0) by lra.
    replace (Rabs 4) with 4 by (symmetry; apply Rabs_pos_eq; lra).
    rewrite (Rabs_left B) by lra. ring. }
  rewrite Hq in Hs.
  apply Rle_trans with ((- (4 * B) * Rabs (r' - r) / R0 / k) * / (- (2 * B))).
  - apply Rmult_le_compat_r; [apply Rlt_le, Rinv_0_lt_compat; lra|exact Hs].
  - apply Req_le. field. repeat split; lra.
Qed.

Section RtdInverts.
  Variables i r0 a a2 b lead v : float.
  Variable w : wiring.
  Variables C T : R.
  Hypothesis Hfi : Ffin i.
  Hypothesis Hfr0 : Ffin r0.
  Hypothesis Hfa : Ffin a.
  Hypothesis Hfa2 : Ffin a2.
  Hypothesis Hfb : Ffin b.
  Hypothesis Hfl : Ffin lead.
  Hypothesis Hfv : Ffin v.
  Hypothesis Hrg : rtd_ranges (FR i) (FR r0) (FR a) (FR a2) (FR b) (FR lead).
  Hypothesis HT : 0 <= T <= 1000.
  (* the voltage the equation yields, rounded once to binary64 *)
  Hypothesis Hv : FR v = rnd (current_excitation_voltage (FR i) w (FR lead)
                                                        (cvd (FR r0) (FR a) (FR b) C T)).

  Let rT := cvd_pos (FR r0) (FR a) (FR b) T.
  Let r' := rtd_r_t (FR i) (FR lead) (wiring_code w) (FR v).

  Lemma rtd_lin : 1e-3 <= FR a + 2 * FR b * T.
  Proof.
    destruct Hrg as [HI [HR0 [HA [HB [HL Ha2]]]]].
    assert (H : -1e-6 * T <= FR b * T) by (apply Rmult_le_compat_r; lra). lra.
  Qed.

  Lemma rtd_rT_range : FR r0 * (1 + T * 2e-3) <= rT <= 5.9 * FR r0.
  Proof.
    destruct Hrg as [HI [HR0 [HA [HB [HL Ha2]]]]]. unfold rT, cvd_pos.
    assert (H1 : 2e-3 <= FR a + FR b * T <= 5e-3 - 1e-7 * T) by nra.
    assert (H2 : T * 2e-3 <= T * (FR a + FR b * T)) by (apply Rmult_le_compat_l; lra).
    assert (H3 : T * (FR a + FR b * T) <= T * (5e-3 - 1e-7 * T)) by (apply Rmult_le_compat_l; lra).
    assert (H4 : T * (5e-3 - 1e-7 * T) <= 4.9) by nra.
    replace (1 + FR a * T + FR b * T ^ 2) with (1 + T * (FR a + FR b * T)) by ring.
    split; nra.
  Qed.

  Lemma rtd_rT_ge : FR r0 <= rT.
  Proof.
    pose proof rtd_rT_range as HrT. destruct Hrg as [HI [HR0 _]].
    assert (0 <= FR r0 * (T * 2e-3)) by (apply Rmult_le_pos; nra). lra.
  Qed.

  Lemma rtd_r'_close : Rabs (r' - rT) <= 26 * u64 * FR r0 + 1e5 * eta64.
  Proof.
    pose proof rtd_rT_range as HrT. pose proof rtd_rT_ge as HrT0.
    destruct Hrg as [HI [HR0 [HA [HB [HL Ha2]]]]].
    set (Vr := current_excitation_voltage (FR i) w (FR lead) (cvd (FR r0) (FR a) (FR b) C T)) in *.
    assert (HrV : rtd_r_t (FR i) (FR lead) (wiring_code w) Vr = rT).
    { unfold Vr. rewrite rtd_r_t_of_voltage by lra. unfold rT. apply cvd_eval_pos. lra. }
    unfold r'. rewrite <- HrV, rtd_r_t_affine, Hv.
    pose proof (rnd_error Vr) as He.
    assert (HVr : Rabs Vr <= FR i * (25.9 * FR r0)).
    { unfold Vr, current_excitation_voltage. rewrite cvd_eval_pos by lra. fold rT.
      assert (0 <= lead_in_measurement CurrentExcitation w (FR lead) <= 200)
        by (destruct w; cbn [lead_in_measurement]; lra).
      rewrite Rabs_mult, (Rabs_pos_eq (FR i)) by lra.
      apply Rmult_le_compat_l; [lra|]. apply Rabs_le. lra. }
    pose proof u64_pos as Hu. pose proof eta64_pos as Het.
    assert (Hinv : 0 < / FR i <= 1e5).
    { split; [apply Rinv_0_lt_compat; lra|].
      replace 1e5 with (/ 1e-5) by lra. apply Rinv_le_contravar; lra. }
    unfold Rdiv. rewrite Rabs_mult, (Rabs_pos_eq (/ FR i)) by lra.
    apply Rle_trans with ((u64 * (FR i * (25.9 * FR r0)) + eta64) * / FR i).
    - apply Rmult_le_compat_r; [lra|].
      apply Rle_trans with (1 := He). apply Rplus_le_compat_r. apply Rmult_le_compat_l; lra.
    - replace ((u64 * (FR i * (25.9 * FR r0)) + eta64) * / FR i)
        with (25.9 * u64 * FR r0 + eta64 * / FR i) by (field; lra).
      assert (eta64 * / FR i <= eta64 * 1e5) by (apply Rmult_le_compat_l; lra).
      assert (0 <= u64 * FR r0) by (apply Rmult_le_pos; lra). lra.
  Qed.

  Lemma rtd_r'_ok : rtd_resistance_ok (FR r0) (FR a) (FR b) r'.
  Proof.
    pose proof rtd_rT_range as HrT. pose proof rtd_r'_close as Hc. pose proof rtd_rT_ge as HrT0.
    destruct Hrg as [HI [HR0 [HA [HB [HL Ha2]]]]].
    apply Rabs_le_inv in Hc. pose proof eta64_small as Hes. pose proof eta64_pos as Het.
    rewrite u64_val in Hc.
    split; [lra|].
    assert (HdT : FR a ^ 2 - 4 * FR b * (1 - rT / FR r0) = (FR a + 2 * FR b * T) * (FR a + 2 * FR b * T)).
    { unfold rT, cvd_pos. field. lra. }
    pose proof rtd_lin as Hlin.
    assert (HdT1 : 1e-6 <= FR a ^ 2 - 4 * FR b * (1 - rT / FR r0)) by (rewrite HdT; nra).
    replace (FR a ^ 2 - 4 * FR b * (1 - r' / FR r0))
      with ((FR a ^ 2 - 4 * FR b * (1 - rT / FR r0)) + 4 * FR b * ((r' - rT) / FR r0)) by (field; lra).
    assert (Hq : - 1e-14 <= (r' - rT) / FR r0 <= 1e-14).
    { apply Rdiv_between; lra. }
    nra.
  Qed.

  Lemma rtd_float_inverts_value : forall y,
    rtd_scale_F i r0 a a2 b lead (wiring_code w) v = Some y ->
    Ffin y /\ Rabs (FR y - T) <= 4e-10.
  Proof.
    intros y Hy.
    pose proof rtd_r'_ok as Hok. pose proof rtd_rT_range as HrT. pose proof rtd_r'_close as Hc.
    destruct (rtd_quadratic_rounding_all i r0 a a2 b lead v (wiring_code w) y
                Hfi Hfr0 Hfa Hfa2 Hfb Hfl Hfv Hrg Hok Hy) as [Hfy Hey].
    split; [exact Hfy|]. fold r' in Hey.
    destruct Hrg as [HI [HR0 [HA [HB [HL Ha2]]]]]. destruct Hok as [Hr' HD'].
    pose proof rtd_lin as Hlin.
    assert (HTinv : rtd_scale_pos (FR a) (FR b) (FR r0) rT = T).
    { unfold rT. apply rtd_scale_pos_inverts; lra. }
    assert (HdT : 9.4e-4 * 9.4e-4 <= FR a ^ 2 - 4 * FR b * (1 - rT / FR r0)).
    { replace (FR a ^ 2 - 4 * FR b * (1 - rT / FR r0))
        with ((FR a + 2 * FR b * T) * (FR a + 2 * FR b * T)) by (unfold rT, cvd_pos; field; lra).
      nra. }
    assert (HLip := rtd_scale_pos_lipschitz (FR a) (FR b) (FR r0) rT r' 9.4e-4).
    assert (HL' : Rabs (rtd_scale_pos (FR a) (FR b) (FR r0) r' - T) <= 1e-11).
    { assert (Heq : rtd_scale_pos (FR a) (FR b) (FR r0) r' - T
                    = rtd_scale_pos (FR a) (FR b) (FR r0) r' - rtd_scale_pos (FR a) (FR b) (FR r0) rT)
        by (rewrite HTinv; reflexivity).
      rewrite Heq. eapply Rle_trans; [apply HLip; lra|].
      pose proof eta64_small as Hes. pose proof eta64_pos as Het. pose proof u64_pos as Hu.
      apply Rle_trans with (2 * (26 * u64 * FR r0 + 1e5 * eta64) / (FR r0 * 9.4e-4)).
      - unfold Rdiv. apply Rmult_le_compat_r.
        + apply Rlt_le, Rinv_0_lt_compat. nra.
        + lra.
      - replace (2 * (26 * u64 * FR r0 + 1e5 * eta64) / (FR r0 * 9.4e-4))
          with (52 * u64 / 9.4e-4 + 2e5 * eta64 / 9.4e-4 * / FR r0) by (field; lra).
        assert (Hinv : 0 < / FR r0 <= 1).
        { split; [apply Rinv_0_lt_compat; lra|]. rewrite <- Rinv_1. apply Rinv_le_contravar; lra. }
        assert (2e5 * eta64 / 9.4e-4 * / FR r0 <= 2e5 * eta64 / 9.4e-4 * 1)
          by (apply Rmult_le_compat_l; lra).
        rewrite u64_val. lra. }
    replace (FR y - T) with ((FR y - rtd_scale_pos (FR a) (FR b) (FR r0) r')
                              + (rtd_scale_pos (FR a) (FR b) (FR r0) r' - T)) by ring.
    apply Rle_trans with (1 := Rabs_triang _ _). lra.
  Qed.

  (* from 1e-9 degC on, the float comparison r_t >= r_0 is true: the quadratic branch is taken *)
  Lemma rtd_float_inverts_branch :
    1e-9 <= T ->
    exists y, rtd_scale_F i r0 a a2 b lead (wiring_code w) v = Some y.
  Proof.
    intros HT9.
    pose proof rtd_r'_ok as [Hr' _]. pose proof rtd_rT_range as HrT. pose proof rtd_r'_close as Hc.
    destruct (rtd_r_t_near i r0 a a2 b lead v (wiring_code w) Hfi Hfl Hfv Hrg Hr') as [Hf [He _]].
    destruct Hrg as [HI [HR0 [HA [HB [HL Ha2]]]]].
    unfold rtd_scale_F.
    assert (Hle : FR r0 <= FR (rtd_r_t_F i lead (wiring_code w) v)).
    { fold r' in He. apply Rabs_le_inv in He. apply Rabs_le_inv in Hc. unfold rtd_E2 in He.
      pose proof eta64_small as Hes. pose proof eta64_pos as Het.
      rewrite u64_val in He, Hc.
      assert (FR r0 * 2e-12 <= FR r0 * (T * 2e-3)) by (apply Rmult_le_compat_l; lra). lra. }
    rewrite (leb_of_FR _ _ Hfr0 Hf Hle). eexists. reflexivity.
  Qed.
End RtdInverts.

(* ---- the composed statements -------------------------------------------------------------------- *)

Theorem rtd_float_inverts_sharp_all :
  forall (i r0 a a2 b lead v : float) (w : wiring) (C T : R),
  Ffin i -> Ffin r0 -> Ffin a -> Ffin a2 -> Ffin b -> Ffin lead -> Ffin v ->
  rtd_ranges (FR i) (FR r0) (FR a) (FR a2) (FR b) (FR lead) ->
  0 <= T <= 1000 ->
  FR v = rnd (current_excitation_voltage (FR i) w (FR lead) (cvd (FR r0) (FR a) (FR b) C T)) ->
  (forall y, rtd_scale_F i r0 a a2 b lead (wiring_code w) v = Some y ->
             Ffin y /\ Rabs (FR y - T) <= 4e-10) /\
  (1e-9 <= T -> exists y, rtd_scale_F i r0 a a2 b lead (wiring_code w) v = Some y).
Proof.
  intros i r0 a a2 b lead v w C T Hi Hr0 Ha Ha2 Hb Hl Hv Hrg HT Hvv. split.
  - exact (rtd_float_inverts_value i r0 a a2 b lead v w C T Hi Hr0 Ha Ha2 Hb Hl Hv Hrg HT Hvv).
  - exact (rtd_float_inverts_branch i r0 a a2 b lead v w C T Hi Hr0 Hl Hv Hrg HT Hvv).
Qed.

Theorem rtd_float_inverts_all :
  forall (i r0 a a2 b lead v : float) (w : wiring) (C T : R),
  Ffin i -> Ffin r0 -> Ffin a -> Ffin a2 -> Ffin b -> Ffin lead -> Ffin v ->
  rtd_ranges (FR i) (FR r0) (FR a) (FR a2) (FR b) (FR lead) ->
  0 <= T <= 1000 ->
  FR v = rnd (current_excitation_voltage (FR i) w (FR lead) (cvd (FR r0) (FR a) (FR b) C T)) ->
  (forall y, rtd_scale_F i r0 a a2 b lead (wiring_code w) v = Some y ->
             Ffin y /\ Rabs (FR y - T) <= 1e-6 * (1 + Rabs T)) /\
  (1e-9 <= T -> exists y, rtd_scale_F i r0 a a2 b lead (wiring_code w) v = Some y).
Proof.
  intros i r0 a a2 b lead v w C T Hi Hr0 Ha Ha2 Hb Hl Hv Hrg HT Hvv.
  destruct (rtd_float_inverts_sharp_all i r0 a a2 b lead v w C T Hi Hr0 Ha Ha2 Hb Hl Hv Hrg HT Hvv)
    as [H1 H2].
  split; [|exact H2]. intros y Hy. destruct (H1 y Hy) as [Hf He]. split; [exact Hf|].
  pose proof (Rabs_pos T). lra.
Qed.
