(* C02 — the multi-segment statement: a whole stream of segments, read by the
   metadata pass on syntax ([sm_run], Model/FileSyn.v), and its FULLY EXPLICIT
   re-encoding (every segment gets a metadata block, the new-object-list flag,
   every object of its list restated in full or as "no data", the segment's
   property updates re-attached to the entry of their object) produce the same
   object lists, path indexes, chunk counts, final-chunk overrides, per-object
   metadata (lengths, data types, scaler types, properties, in the same order)
   and global previous-object map.  Only positions differ, because the explicit
   metadata blocks have other byte lengths.

   The one-step ingredients are in Proofs/SegStateInherit.v. *)
From Coq Require Import List ZArith Bool Lia.
From Coq Require Import Init.Byte.
Import ListNotations.
From NpTdms Require Import Base.Bytes Base.Res Model.Tokens Model.SegState Model.Layout Model.Reader
     Model.FileSyn Proofs.SegStateProofs Proofs.SegStateInherit.
Local Open Scope Z_scope.

(* ======================================================================== *)
(* ordered dictionaries: unique keys, extensionality                          *)
(* ======================================================================== *)

Lemma alookup_none_keys {V} (k : bytes) (l : alist V) :
  alookup k l = None <-> ~ In k (map fst l).
Proof.
  induction l as [|[k' v] r IH]; cbn.
  - split; [intros _ []|reflexivity].
  - destruct (bytes_eqb k k') eqn:E.
    + apply bytes_eqb_eq in E. split; [discriminate|]. intros H. exfalso. apply H. left. symmetry. exact E.
    + apply bytes_eqb_neq in E. rewrite IH. split.
      * intros H [H'|H']; [apply E; symmetry; exact H'|exact (H H')].
      * intros H H'. apply H. right. exact H'.
Qed.

Lemma alookup_In {V} (k : bytes) (v : V) (l : alist V) : In (k, v) l -> alookup k l <> None.
Proof.
  intros Hin Hn. apply alookup_none_keys in Hn. apply Hn.
  apply in_map_iff. exists (k, v). split; [reflexivity|exact Hin].
Qed.

Lemma aset_nodup_keys {V} (k : bytes) (v : V) (l : alist V) :
  NoDup (map fst l) -> NoDup (map fst (aset k v l)).
Proof.
  intros Hnd. destruct (alookup k l) as [x|] eqn:E.
  - rewrite aset_keys_in; [exact Hnd|]. rewrite E. discriminate.
  - rewrite (aset_keys_new k v l E). apply NoDup_app_intro; [exact Hnd| |].
    + apply NoDup_cons; [intros []|apply NoDup_nil].
    + intros y Hy [<-|[]]. apply alookup_none_keys in E. exact (E Hy).
Qed.

Lemma alist_ext {V} : forall (l1 l2 : alist V),
  NoDup (map fst l1) -> map fst l1 = map fst l2 ->
  (forall k, alookup k l1 = alookup k l2) -> l1 = l2.
Proof.
  induction l1 as [|[k v1] r1 IH]; intros [|[k2 v2] r2] Hnd Hk Hl; cbn in Hk; try discriminate.
  - reflexivity.
  - injection Hk as <- Hk. cbn [map fst] in Hnd. apply NoDup_cons_iff in Hnd. destruct Hnd as [Hkr Hnd].
    pose proof (Hl k) as Hlk. cbn in Hlk. rewrite bytes_eqb_refl in Hlk. injection Hlk as <-.
    f_equal. apply IH; [exact Hnd|exact Hk|].
    intros k'. destruct (bytes_eqb k' k) eqn:E.
    + apply bytes_eqb_eq in E. subst k'.
      assert (H1 : alookup k r1 = None) by (apply alookup_none_keys; exact Hkr).
      assert (H2 : alookup k r2 = None) by (apply alookup_none_keys; rewrite <- Hk; exact Hkr).
      rewrite H1, H2. reflexivity.
    + pose proof (Hl k') as Hlk'. cbn in Hlk'. rewrite E in Hlk'. exact Hlk'.
Qed.

(* ======================================================================== *)
(* properties                                                                 *)
(* ======================================================================== *)

(* the properties a metadata block finally attaches to path [k]: the last
   non-empty property list among the entries for [k] *)
Fixpoint listed_props (k : bytes) (es : list entry) (cur : option (list prop)) : option (list prop) :=
  match es with
  | [] => cur
  | x :: r =>
    listed_props k r (if bytes_eqb k (e_path x)
                      then match e_props x with [] => cur | ps => Some ps end
                      else cur)
  end.

Lemma alookup_collect_props k : forall es acc,
  alookup k (collect_props es acc) = listed_props k es (alookup k acc).
Proof.
  induction es as [|x es IH]; intros acc; cbn [collect_props listed_props]; [reflexivity|].
  rewrite IH. f_equal.
  destruct (e_props x) as [|p ps]; [destruct (bytes_eqb k (e_path x)); reflexivity|].
  rewrite alookup_aset. reflexivity.
Qed.

Lemma collect_props_nodup : forall es acc,
  NoDup (map fst acc) -> NoDup (map fst (collect_props es acc)).
Proof.
  induction es as [|x es IH]; intros acc Hnd; cbn [collect_props]; [exact Hnd|].
  apply IH. destruct (e_props x); [exact Hnd|]. apply aset_nodup_keys. exact Hnd.
Qed.

Lemma listed_props_listed k : forall es cur ps,
  listed_props k es cur = Some ps -> cur = Some ps \/ In k (map e_path es).
Proof.
  induction es as [|x es IH]; intros cur ps H; cbn [listed_props] in H; [left; exact H|].
  apply IH in H. destruct H as [H|H]; [|right; right; exact H].
  destruct (bytes_eqb k (e_path x)) eqn:E; [|left; exact H].
  apply bytes_eqb_eq in E. right. left. symmetry. exact E.
Qed.

Lemma listed_props_nonempty k : forall es cur ps,
  (forall ps0, cur = Some ps0 -> ps0 <> []) ->
  listed_props k es cur = Some ps -> ps <> [].
Proof.
  induction es as [|x es IH]; intros cur ps Hc H; cbn [listed_props] in H; [exact (Hc ps H)|].
  apply (IH _ ps) in H; [exact H|].
  intros ps0 H0. destruct (bytes_eqb k (e_path x)); [|exact (Hc ps0 H0)].
  destruct (e_props x) as [|p q] eqn:Ep; [exact (Hc ps0 H0)|].
  injection H0 as <-. discriminate.
Qed.

(* the property updates a segment carries, as the reader collects them *)
Definition meta_props (metadata : option (list entry)) : alist (list prop) :=
  match metadata with Some es => collect_props es [] | None => [] end.

Definition props_of (P : alist (list prop)) (p : bytes) : list prop :=
  match alookup p P with Some ps => ps | None => [] end.

(* explicit entries carrying the properties [P] lists for their path *)
Definition explicit_entries_p (P : alist (list prop)) (objs : list sobj) : list entry :=
  map (fun o => mkEntry (so_path o) (idx_of o) (props_of P (so_path o))) objs.

Lemma explicit_entries_p_nil objs : explicit_entries_p [] objs = explicit_entries objs.
Proof. reflexivity. Qed.

Lemma explicit_entries_p_paths P objs : map e_path (explicit_entries_p P objs) = map so_path objs.
Proof. unfold explicit_entries_p. rewrite map_map. reflexivity. Qed.

Lemma listed_props_explicit P k : forall objs cur,
  NoDup (map so_path objs) ->
  listed_props k (explicit_entries_p P objs) cur =
  if in_paths k objs then match props_of P k with [] => cur | ps => Some ps end else cur.
Proof.
  induction objs as [|o objs IH]; intros cur Hnd; [reflexivity|].
  cbn [explicit_entries_p map listed_props e_path e_props]. fold (explicit_entries_p P objs).
  cbn [map] in Hnd. apply NoDup_cons_iff in Hnd. destruct Hnd as [Ho Hnd].
  rewrite (IH _ Hnd). unfold in_paths. cbn [existsb]. fold (in_paths k objs).
  destruct (bytes_eqb k (so_path o)) eqn:E.
  - apply bytes_eqb_eq in E. subst k. cbn [orb].
    assert (Hin : in_paths (so_path o) objs = false).
    { destruct (in_paths (so_path o) objs) eqn:Ei; [|reflexivity].
      apply in_paths_iff in Ei. contradiction. }
    rewrite Hin. reflexivity.
  - cbn [orb]. reflexivity.
Qed.

(* re-attaching the collected properties to the explicit entries gives back
   the same dictionary, key by key *)
Lemma explicit_props_lookup P objs :
  NoDup (map so_path objs) ->
  (forall k ps, alookup k P = Some ps -> ps <> [] /\ In k (map so_path objs)) ->
  forall k, alookup k (collect_props (explicit_entries_p P objs) []) = alookup k P.
Proof.
  intros Hnd HP k. rewrite alookup_collect_props. cbn [alookup].
  rewrite (listed_props_explicit P k objs None Hnd). unfold props_of.
  destruct (alookup k P) as [ps|] eqn:E.
  - destruct (HP k ps E) as [Hne Hin]. apply in_paths_iff in Hin. rewrite Hin.
    destruct ps; [contradiction|reflexivity].
  - destruct (in_paths k objs); reflexivity.
Qed.

(* ---- update_object_properties, key by key ----------------------------------- *)

Lemma update_object_properties_keys : forall props om,
  Forall (fun kv => alookup (fst kv) om <> None) props ->
  map fst (update_object_properties props om) = map fst om.
Proof.
  unfold update_object_properties.
  induction props as [|[k ps] props IH]; intros om HF; cbn [fold_left fst snd]; [reflexivity|].
  apply Forall_cons_iff in HF. destruct HF as [Hk HF]. cbn [fst] in Hk.
  rewrite IH.
  - apply aset_keys_in. exact Hk.
  - apply Forall_forall. intros [k' ps'] Hin. cbn [fst]. rewrite alookup_aset.
    destruct (bytes_eqb k' k); [discriminate|].
    rewrite Forall_forall in HF. apply (HF (k', ps') Hin).
Qed.

Lemma update_object_properties_lookup k : forall props om,
  NoDup (map fst props) ->
  alookup k (update_object_properties props om) =
  match alookup k props with
  | Some ps => Some (set_props (get_ometa k om) ps)
  | None => alookup k om
  end.
Proof.
  unfold update_object_properties.
  induction props as [|[k1 ps1] props IH]; intros om Hnd; cbn [fold_left fst snd alookup]; [reflexivity|].
  cbn [map fst] in Hnd. apply NoDup_cons_iff in Hnd. destruct Hnd as [Hk1 Hnd].
  rewrite (IH _ Hnd).
  destruct (bytes_eqb k k1) eqn:E.
  - apply bytes_eqb_eq in E. subst k1.
    assert (Hn : alookup k props = None) by (apply alookup_none_keys; exact Hk1).
    rewrite Hn, alookup_aset, bytes_eqb_refl. reflexivity.
  - destruct (alookup k props) as [ps|].
    + unfold get_ometa. rewrite alookup_aset, E. reflexivity.
    + rewrite alookup_aset, E. reflexivity.
Qed.

Lemma update_object_properties_ext props props' om :
  NoDup (map fst om) ->
  NoDup (map fst props) -> NoDup (map fst props') ->
  (forall k, alookup k props <> None -> alookup k om <> None) ->
  (forall k, alookup k props = alookup k props') ->
  update_object_properties props om = update_object_properties props' om.
Proof.
  intros Hom Hp Hp' Hin Heq.
  assert (HF : forall q : alist (list prop), (forall k, alookup k q <> None -> alookup k om <> None) ->
                         Forall (fun kv => alookup (fst kv) om <> None) q).
  { intros q Hq. apply Forall_forall. intros [k ps] Hk. cbn [fst]. apply Hq.
    apply (alookup_In k ps q Hk). }
  assert (Hin' : forall k, alookup k props' <> None -> alookup k om <> None).
  { intros k. rewrite <- Heq. apply Hin. }
  apply alist_ext.
  - rewrite (update_object_properties_keys props om (HF props Hin)). exact Hom.
  - rewrite (update_object_properties_keys props om (HF props Hin)).
    rewrite (update_object_properties_keys props' om (HF props' Hin')). reflexivity.
  - intros k. rewrite (update_object_properties_lookup k props om Hp).
    rewrite (update_object_properties_lookup k props' om Hp'). rewrite Heq. reflexivity.
Qed.

Lemma update_object_properties_nodup : forall props om,
  NoDup (map fst om) -> NoDup (map fst (update_object_properties props om)).
Proof.
  unfold update_object_properties.
  induction props as [|[k ps] props IH]; intros om Hnd; cbn [fold_left]; [exact Hnd|].
  apply IH. apply aset_nodup_keys. exact Hnd.
Qed.

(* ---- update_object_metadata and the per-object metadata dictionary ---------- *)

Lemma update_object_metadata_om : forall objs n f prev om prev' om',
  update_object_metadata objs n f prev om = Ok (prev', om') ->
  (NoDup (map fst om) -> NoDup (map fst om')) /\
  (forall k, alookup k om <> None -> alookup k om' <> None) /\
  (forall k, In k (map so_path objs) -> alookup k om' <> None).
Proof.
  induction objs as [|o r IH]; intros n f prev om prev' om' H; cbn [update_object_metadata] in H.
  - injection H as _ <-. split; [intros Hn; exact Hn|]. split; [intros k Hk; exact Hk|intros k []].
  - destruct (update_ometa (get_ometa (so_path o) om) o n f) as [m|e]; cbn [bind] in H; [|discriminate].
    destruct (IH _ _ _ _ _ _ H) as (H1 & H2 & H3).
    assert (Hmono : forall k, alookup k om <> None -> alookup k (aset (so_path o) m om) <> None).
    { intros k Hk. rewrite alookup_aset. destruct (bytes_eqb k (so_path o)); [discriminate|exact Hk]. }
    split; [intros Hn; apply H1; apply aset_nodup_keys; exact Hn|].
    split; [intros k Hk; apply H2; apply Hmono; exact Hk|].
    intros k [Hk|Hk]; [|exact (H3 k Hk)].
    apply H2. rewrite alookup_aset, <- Hk, bytes_eqb_refl. discriminate.
Qed.

(* ======================================================================== *)
(* ToC flags                                                                  *)
(* ======================================================================== *)

Definition explicit_toc (toc : Z) : Z := Z.lor (Z.lor toc TOC_META) TOC_NEWLIST.

Lemma toc_has_lor_same a f : f <> 0 -> toc_has (Z.lor a f) f = true.
Proof.
  intros Hf. unfold toc_has. rewrite Z.land_lor_distr_l, Z.land_diag.
  apply negb_true_iff. apply Z.eqb_neq. intros H. apply Z.lor_eq_0_iff in H. apply Hf. apply H.
Qed.

Lemma toc_has_lor_other a f g : Z.land f g = 0 -> toc_has (Z.lor a f) g = toc_has a g.
Proof.
  intros Hfg. unfold toc_has. rewrite Z.land_lor_distr_l, Hfg, Z.lor_0_r. reflexivity.
Qed.

Lemma explicit_toc_newlist toc : toc_has (explicit_toc toc) TOC_NEWLIST = true.
Proof. unfold explicit_toc. apply toc_has_lor_same. discriminate. Qed.

Lemma explicit_toc_meta toc : toc_has (explicit_toc toc) TOC_META = true.
Proof.
  unfold explicit_toc. rewrite toc_has_lor_other; [|reflexivity].
  apply toc_has_lor_same. discriminate.
Qed.

(* every other flag is kept *)
Lemma explicit_toc_other toc flag :
  Z.land TOC_META flag = 0 -> Z.land TOC_NEWLIST flag = 0 ->
  toc_has (explicit_toc toc) flag = toc_has toc flag.
Proof.
  intros H1 H2. unfold explicit_toc.
  rewrite (toc_has_lor_other _ _ _ H2). apply (toc_has_lor_other _ _ _ H1).
Qed.

Lemma explicit_toc_interleaved toc :
  toc_has (explicit_toc toc) TOC_INTERLEAVED = toc_has toc TOC_INTERLEAVED.
Proof. apply explicit_toc_other; reflexivity. Qed.

Lemma explicit_toc_endian toc : toc_endian (explicit_toc toc) = toc_endian toc.
Proof. unfold toc_endian. rewrite explicit_toc_other; reflexivity. Qed.

(* the chunk calculation reads the ToC mask through the interleaved flag only *)
Lemma calculate_chunks_toc toc toc' inc objs total :
  toc_has toc' TOC_INTERLEAVED = toc_has toc TOC_INTERLEAVED ->
  calculate_chunks toc' inc objs total = calculate_chunks toc inc objs total.
Proof.
  intros Ht. unfold calculate_chunks, final_chunk_lengths. rewrite Ht. reflexivity.
Qed.

(* ======================================================================== *)
(* one segment                                                                *)
(* ======================================================================== *)

Lemma read_segment_objects_props toc metadata prev ps objs props :
  read_segment_objects toc metadata prev ps = Ok (objs, props) -> props = meta_props metadata.
Proof.
  unfold read_segment_objects, meta_props. intros H. destruct metadata as [es|].
  - destruct (fold_entries _ _ _ es) as [r|e]; cbn [bind] in H; [|discriminate].
    injection H as _ <-. reflexivity.
  - destruct ps as [l|]; [|discriminate]. injection H as _ <-. reflexivity.
Qed.

(* the object list does not depend on the properties the entries carry *)
Lemma fold_entries_explicit_p base prev P : forall objs ordered,
  fold_entries base prev ordered (explicit_entries_p P objs) =
  fold_entries base prev ordered (explicit_entries objs).
Proof.
  induction objs as [|o objs IH]; intros ordered; [reflexivity|].
  cbn [explicit_entries_p explicit_entries map fold_entries].
  fold (explicit_entries_p P objs). fold (explicit_entries objs).
  change (step_entry base prev ordered (mkEntry (so_path o) (idx_of o) (props_of P (so_path o))))
    with (step_entry base prev ordered (mkEntry (so_path o) (idx_of o) [])).
  destruct (step_entry base prev ordered (mkEntry (so_path o) (idx_of o) [])) as [o'|e];
    cbn [bind]; [apply IH|reflexivity].
Qed.

(* every listed path is in the segment's object list *)
Lemma listed_in_objs toc es prev ps objs props :
  prev_keys_ok prev ->
  read_segment_objects toc (Some es) prev ps = Ok (objs, props) ->
  forall k, In k (map e_path es) -> In k (map so_path objs).
Proof.
  intros Hk H k Hin. unfold read_segment_objects in H.
  destruct (if toc_has toc TOC_NEWLIST then None else ps) as [b|] eqn:Eb.
  - destruct (fold_entries (Some b) prev b es) as [r|e] eqn:Ef; cbn [bind] in H; [|discriminate].
    injection H as <- _. rewrite (fold_entries_paths b prev es r Hk Ef).
    apply in_or_app. destruct (in_paths k b) eqn:Ei.
    + left. apply in_paths_iff. exact Ei.
    + right. unfold appended_paths. apply filter_In. split; [exact Hin|]. rewrite Ei. reflexivity.
  - destruct (fold_entries None prev [] es) as [r|e] eqn:Ef; cbn [bind] in H; [|discriminate].
    injection H as <- _. rewrite (fold_entries_paths_new_list prev es r Hk Ef). exact Hin.
Qed.

Lemma meta_props_ok toc metadata prev ps objs props :
  prev_keys_ok prev ->
  read_segment_objects toc metadata prev ps = Ok (objs, props) ->
  forall k pl, alookup k (meta_props metadata) = Some pl -> pl <> [] /\ In k (map so_path objs).
Proof.
  intros Hk H k pl Ha. destruct metadata as [es|]; [|discriminate Ha].
  unfold meta_props in Ha. rewrite alookup_collect_props in Ha. cbn [alookup] in Ha. split.
  - apply (listed_props_nonempty k es None pl); [intros ps0 H0; discriminate H0|exact Ha].
  - apply (listed_in_objs toc es prev ps objs props Hk H).
    destruct (listed_props_listed k es None pl Ha) as [H0|H0]; [discriminate H0|exact H0].
Qed.

(* the one-step theorem, with the segment's properties re-attached *)
Lemma explicit_segment_step toc metadata prev ps objs props :
  prev_keys_ok prev -> prev_wf prev -> base_tracked ps prev ->
  read_segment_objects toc metadata prev ps = Ok (objs, props) ->
  (forall o, In o objs -> so_has_data o = true -> so_dtype o <> None) ->
  read_segment_objects (explicit_toc toc) (Some (explicit_entries_p (meta_props metadata) objs)) prev ps
  = Ok (objs, collect_props (explicit_entries_p (meta_props metadata) objs) []).
Proof.
  intros Hk Hw Hb H Hd.
  pose proof (inheritance_transparent_step toc metadata prev ps objs props (explicit_toc toc)
                Hk Hw Hb H Hd (explicit_toc_newlist toc)) as H'.
  unfold read_segment_objects in *. rewrite explicit_toc_newlist in *.
  rewrite fold_entries_explicit_p.
  destruct (fold_entries None prev [] (explicit_entries objs)) as [r|e]; cbn [bind] in *; [|discriminate].
  injection H' as -> _. reflexivity.
Qed.

(* ======================================================================== *)
(* the explicit re-encoding of a stream                                       *)
(* ======================================================================== *)

(* same version, same raw data, same ToC flags except that the metadata and
   new-object-list flags are set; metadata: every object of [objs] restated,
   with the properties the original block listed for its path *)
Definition explicit_seg (s : fseg) (objs : list sobj) : fseg :=
  mkFseg (explicit_toc (fs_toc s)) (fs_version s)
         (Some (explicit_entries_p (meta_props (fs_meta s)) objs)) (fs_data s).

Fixpoint explicit_segs (segs : list fseg) (objss : list (list sobj)) : list fseg :=
  match segs, objss with
  | s :: r, objs :: ro => explicit_seg s objs :: explicit_segs r ro
  | _, _ => []
  end.

(* ---- sm_loop, one iteration --------------------------------------------------- *)

Definition seg_ic (s : fseg) (w : bool) (pi : alist nat) (c : index_cache) (objs : list sobj)
  : alist nat * index_cache :=
  match fs_meta s with
  | None => (pi, c)
  | Some _ => if w then get_index c objs else ([], c)
  end.

Definition next_state (s : fseg) (w : bool) (pos : Z) (pi : alist nat) (st : rstate)
           (objs : list sobj) (props : alist (list prop)) (nch : Z) (fn : option (alist Z))
           (po : alist sobj) (om : alist ometa) : rstate :=
  let dp := pos + 28 + blen (fs_meta_bytes s) in
  let np := dp + blen (fs_data s) in
  let ic := seg_ic s w pi (rs_cache st) objs in
  mkRstate (rs_segments st ++ [mkSeg pos (fs_toc s) np dp false objs (fst ic) nch fn])
           po (update_object_properties props om) (snd ic)
           (match rs_version st with Some v => Some v | None => Some (fs_version s) end).

Lemma sm_loop_cons_ok s r w pos ps pi st objs props nch fn po om :
  read_segment_objects (fs_toc s) (fs_meta s) (rs_prev_objs st) ps = Ok (objs, props) ->
  calculate_chunks (fs_toc s) false objs (blen (fs_data s)) = Ok (nch, fn) ->
  update_object_metadata objs nch fn (rs_prev_objs st) (rs_om st) = Ok (po, om) ->
  sm_loop (s :: r) w pos ps pi st =
  sm_loop r w (pos + 28 + blen (fs_meta_bytes s) + blen (fs_data s)) (Some objs)
          (fst (seg_ic s w pi (rs_cache st) objs))
          (next_state s w pos pi st objs props nch fn po om).
Proof.
  intros H1 H2 H3. cbn [sm_loop]. cbv zeta. cbn [rs_prev_objs rs_om rs_cache rs_segments].
  rewrite H1. cbn [bind]. rewrite Z.add_simpl_l, H2. cbn [bind]. rewrite H3. cbn [bind].
  unfold next_state, seg_ic. cbv zeta.
  destruct (match fs_meta s with
            | Some _ => if w then get_index (rs_cache st) objs else ([], rs_cache st)
            | None => (pi, rs_cache st)
            end) as [idx cache].
  reflexivity.
Qed.

Lemma sm_loop_cons_inv s r w pos ps pi st fin :
  sm_loop (s :: r) w pos ps pi st = Ok fin ->
  exists objs props nch fn po om,
    read_segment_objects (fs_toc s) (fs_meta s) (rs_prev_objs st) ps = Ok (objs, props) /\
    calculate_chunks (fs_toc s) false objs (blen (fs_data s)) = Ok (nch, fn) /\
    update_object_metadata objs nch fn (rs_prev_objs st) (rs_om st) = Ok (po, om).
Proof.
  intros H. cbn [sm_loop] in H. cbv zeta in H. cbn [rs_prev_objs rs_om rs_cache rs_segments] in H.
  destruct (read_segment_objects (fs_toc s) (fs_meta s) (rs_prev_objs st) ps)
    as [[objs props]|e] eqn:E1; cbn [bind] in H; [|discriminate].
  destruct (match fs_meta s with
            | Some _ => if w then get_index (rs_cache st) objs else ([], rs_cache st)
            | None => (pi, rs_cache st)
            end) as [idx cache].
  rewrite Z.add_simpl_l in H.
  destruct (calculate_chunks (fs_toc s) false objs (blen (fs_data s)))
    as [[nch fn]|e] eqn:E2; cbn [bind] in H; [|discriminate].
  destruct (update_object_metadata objs nch fn (rs_prev_objs st) (rs_om st))
    as [[po om]|e] eqn:E3; cbn [bind] in H; [|discriminate].
  exists objs, props, nch, fn, po, om. split; [reflexivity|]. split; [exact E2|exact E3].
Qed.

(* the run appends exactly one segment record per segment *)
Lemma sm_loop_segments : forall segs w pos ps pi st fin,
  sm_loop segs w pos ps pi st = Ok fin ->
  exists news, rs_segments fin = rs_segments st ++ news /\ length news = length segs.
Proof.
  induction segs as [|s r IH]; intros w pos ps pi st fin H.
  - cbn in H. injection H as <-. exists []. rewrite app_nil_r. split; reflexivity.
  - destruct (sm_loop_cons_inv _ _ _ _ _ _ _ _ H) as (objs & props & nch & fn & po & om & H1 & H2 & H3).
    rewrite (sm_loop_cons_ok _ _ _ _ _ _ _ _ _ _ _ _ _ H1 H2 H3) in H.
    destruct (IH _ _ _ _ _ _ H) as (news & Hs & Hl).
    unfold next_state in Hs. cbv zeta in Hs. cbn [rs_segments] in Hs.
    rewrite <- app_assoc in Hs. eexists. split; [exact Hs|]. cbn. rewrite Hl. reflexivity.
Qed.

(* ======================================================================== *)
(* simulation                                                                 *)
(* ======================================================================== *)

(* the shared index of a metadata-less segment is the fresh index of the list *)
Definition idx_ok (w : bool) (ps : option (list sobj)) (pi : alist nat) : Prop :=
  forall b, ps = Some b -> pi = if w then fresh_index (map so_path b) else [].

(* invariants of the reader state between two segments *)
Definition run_inv (w : bool) (ps : option (list sobj)) (pi : alist nat) (st : rstate) : Prop :=
  prev_keys_ok (rs_prev_objs st) /\ prev_wf (rs_prev_objs st) /\
  base_tracked ps (rs_prev_objs st) /\
  NoDup (map fst (rs_om st)) /\ cache_ok (rs_cache st) /\ idx_ok w ps pi.

(* what is compared of a segment record: everything but the positions (the
   raw data length [sg_next - sg_data] is compared) and the ToC mask *)
Definition seg_view (g : segment) :=
  (sg_objs g, sg_index g, sg_nchunks g, sg_final g, sg_next g - sg_data g, sg_incomplete g).

Definition st_rel (st1 st2 : rstate) : Prop :=
  map seg_view (rs_segments st2) = map seg_view (rs_segments st1) /\
  map sg_toc (rs_segments st2) = map explicit_toc (map sg_toc (rs_segments st1)) /\
  rs_om st2 = rs_om st1 /\ rs_prev_objs st2 = rs_prev_objs st1 /\
  rs_version st2 = rs_version st1.

(* side conditions on a segment's object list *)
Definition seg_cond (g : segment) : Prop :=
  NoDup (map so_path (sg_objs g)) /\
  (forall o, In o (sg_objs g) -> so_has_data o = true -> so_dtype o <> None).

Lemma seg_ic_index s w pi c objs ps props toc prev :
  cache_ok c -> idx_ok w ps pi ->
  read_segment_objects toc (fs_meta s) prev ps = Ok (objs, props) ->
  fst (seg_ic s w pi c objs) = (if w then fresh_index (map so_path objs) else []) /\
  cache_ok (snd (seg_ic s w pi c objs)).
Proof.
  intros Hc Hi H. unfold seg_ic. destruct (fs_meta s) as [es|].
  - destruct w; [apply (get_index_fresh c objs Hc)|split; [reflexivity|exact Hc]].
  - cbn [fst snd]. split; [|exact Hc].
    unfold read_segment_objects in H. destruct ps as [b|]; [|discriminate].
    injection H as <- _. apply Hi. reflexivity.
Qed.

Lemma run_inv_next s w pos ps pi st objs props nch fn po om :
  run_inv w ps pi st ->
  read_segment_objects (fs_toc s) (fs_meta s) (rs_prev_objs st) ps = Ok (objs, props) ->
  update_object_metadata objs nch fn (rs_prev_objs st) (rs_om st) = Ok (po, om) ->
  NoDup (map so_path objs) ->
  run_inv w (Some objs) (fst (seg_ic s w pi (rs_cache st) objs))
          (next_state s w pos pi st objs props nch fn po om).
Proof.
  intros (Hk & Hw & Hb & Hom & Hc & Hi) H1 H3 Hnd.
  pose proof (read_segment_objects_obj_ok _ _ _ _ _ _ Hk Hw Hb H1) as Hok.
  destruct (state_invariants_preserved _ _ _ _ _ _ _ H3 Hk Hw Hok Hnd) as (Hk' & Hw' & Hb').
  destruct (update_object_metadata_om _ _ _ _ _ _ _ H3) as (Hn' & _ & _).
  destruct (seg_ic_index s w pi (rs_cache st) objs ps props _ _ Hc Hi H1) as [Hidx Hc'].
  unfold run_inv, next_state. cbv zeta. cbn [rs_prev_objs rs_om rs_cache].
  split; [exact Hk'|]. split; [exact Hw'|]. split; [exact Hb'|].
  split; [apply update_object_properties_nodup; apply Hn'; exact Hom|].
  split; [exact Hc'|].
  intros b Hb0. injection Hb0 as <-. exact Hidx.
Qed.

Lemma explicit_sim : forall segs w pos1 pos2 ps pi1 pi2 st1 st2 fin1 news,
  sm_loop segs w pos1 ps pi1 st1 = Ok fin1 ->
  rs_segments fin1 = rs_segments st1 ++ news ->
  run_inv w ps pi1 st1 ->
  cache_ok (rs_cache st2) -> idx_ok w ps pi2 -> st_rel st1 st2 ->
  Forall seg_cond news ->
  exists fin2,
    sm_loop (explicit_segs segs (map sg_objs news)) w pos2 ps pi2 st2 = Ok fin2 /\
    st_rel fin1 fin2.
Proof.
  induction segs as [|s r IH]; intros w pos1 pos2 ps pi1 pi2 st1 st2 fin1 news H Hs Hinv Hc2 Hi2 Hrel Hcond.
  - cbn in H. injection H as <-. exists st2. split; [reflexivity|exact Hrel].
  - destruct (sm_loop_cons_inv _ _ _ _ _ _ _ _ H) as (objs & props & nch & fn & po & om & H1 & H2 & H3).
    rewrite (sm_loop_cons_ok _ _ _ _ _ _ _ _ _ _ _ _ _ H1 H2 H3) in H.
    destruct (sm_loop_segments _ _ _ _ _ _ _ H) as (news' & Hs' & _).
    (* the first new record is this segment's *)
    assert (Hnews : news =
                    mkSeg pos1 (fs_toc s) (pos1 + 28 + blen (fs_meta_bytes s) + blen (fs_data s))
                          (pos1 + 28 + blen (fs_meta_bytes s)) false objs
                          (fst (seg_ic s w pi1 (rs_cache st1) objs)) nch fn :: news').
    { unfold next_state in Hs'. cbv zeta in Hs'. cbn [rs_segments] in Hs'.
      rewrite Hs, <- app_assoc in Hs'. apply app_inv_head in Hs'. exact Hs'. }
    subst news. apply Forall_cons_iff in Hcond. destruct Hcond as [[Hnd Hdt] Hcond].
    cbn [sg_objs] in Hnd, Hdt. cbn [map sg_objs explicit_segs].
    pose proof Hinv as (Hk & Hw & Hb & Hom & Hc1 & Hi1).
    destruct Hrel as (Rv & Rt & Rom & Rpo & Rver).
    (* the explicit segment, step by step *)
    set (s' := explicit_seg s objs).
    set (props' := collect_props (explicit_entries_p (meta_props (fs_meta s)) objs) []).
    assert (H1' : read_segment_objects (fs_toc s') (fs_meta s') (rs_prev_objs st2) ps = Ok (objs, props')).
    { rewrite Rpo. apply (explicit_segment_step _ _ _ _ _ props Hk Hw Hb H1 Hdt). }
    assert (H2' : calculate_chunks (fs_toc s') false objs (blen (fs_data s')) = Ok (nch, fn)).
    { cbn [s' explicit_seg fs_toc fs_data].
      rewrite (calculate_chunks_toc (fs_toc s) _ _ _ _ (explicit_toc_interleaved (fs_toc s))).
      exact H2. }
    assert (H3' : update_object_metadata objs nch fn (rs_prev_objs st2) (rs_om st2) = Ok (po, om)).
    { rewrite Rpo, Rom. exact H3. }
    rewrite (sm_loop_cons_ok s' _ _ _ _ _ _ _ _ _ _ _ _ H1' H2' H3').
    (* the properties land in the same dictionary *)
    assert (Hprops : update_object_properties props' om = update_object_properties props om).
    { destruct (update_object_metadata_om _ _ _ _ _ _ _ H3) as (Hn' & _ & Hin').
      pose proof (read_segment_objects_props _ _ _ _ _ _ H1) as Hp. subst props.
      pose proof (meta_props_ok _ _ _ _ _ _ Hk H1) as HP.
      pose proof (explicit_props_lookup _ objs Hnd HP) as Hl. fold props' in Hl.
      symmetry. apply update_object_properties_ext.
      - apply Hn'. exact Hom.
      - unfold meta_props. destruct (fs_meta s) as [es|]; [|apply NoDup_nil].
        apply collect_props_nodup. apply NoDup_nil.
      - apply collect_props_nodup. apply NoDup_nil.
      - intros k Hne. apply Hin'.
        destruct (alookup k (meta_props (fs_meta s))) as [pl|] eqn:E; [|contradiction].
        apply (HP k pl E).
      - intros k. symmetry. apply Hl. }
    destruct (seg_ic_index s w pi1 (rs_cache st1) objs ps _ _ _ Hc1 Hi1 H1) as [Hidx1 _].
    destruct (seg_ic_index s' w pi2 (rs_cache st2) objs ps _ _ _ Hc2 Hi2 H1') as [Hidx2 Hc2'].
    apply (IH w _ _ (Some objs) _ _ _ _ fin1 news' H).
    + exact Hs'.
    + apply (run_inv_next s w pos1 ps pi1 st1 objs props nch fn po om Hinv H1 H3 Hnd).
    + unfold next_state. cbv zeta. cbn [rs_cache]. exact Hc2'.
    + intros b Hb0. injection Hb0 as <-. exact Hidx2.
    + unfold st_rel, next_state. cbv zeta. cbn [rs_segments rs_om rs_prev_objs rs_version].
      rewrite !map_app, Rv, Rt, Hprops, Rver. cbn [map].
      split; [|split; [reflexivity|split; [reflexivity|split; reflexivity]]].
      f_equal. unfold seg_view.
      cbn [sg_objs sg_index sg_nchunks sg_final sg_next sg_data sg_incomplete s' explicit_seg fs_data].
      rewrite Hidx1, Hidx2, !Z.add_simpl_l. reflexivity.
    + exact Hcond.
Qed.

(* ======================================================================== *)
(* the multi-segment theorem                                                  *)
(* ======================================================================== *)

Lemma run_inv_initial w : run_inv w None [] rstate0.
Proof.
  destruct state_invariants_initial as (Hk & Hw & Hb).
  unfold run_inv. cbn [rstate0 rs_prev_objs rs_om rs_cache].
  split; [exact Hk|]. split; [exact Hw|]. split; [exact Hb|].
  split; [apply NoDup_nil|]. split; [apply cache_ok_nil|].
  intros b Hb0. discriminate Hb0.
Qed.

Lemma map_view {A} (f : segment -> A) (g : _ -> A) (l1 l2 : list segment) :
  (forall x, f x = g (seg_view x)) ->
  map seg_view l2 = map seg_view l1 -> map f l2 = map f l1.
Proof.
  intros Hf H. rewrite (map_ext f (fun x => g (seg_view x)) Hf l2).
  rewrite (map_ext f (fun x => g (seg_view x)) Hf l1).
  rewrite <- !(map_map seg_view g). rewrite H. reflexivity.
Qed.

(* what "reads the same" means for two runs of the metadata pass: everything
   the reader keeps, except the segment positions (the raw data LENGTH of each
   segment is compared) and the two ToC flags the explicit encoding sets *)
Definition same_reading (st st' : rstate) : Prop :=
  map sg_objs (rs_segments st') = map sg_objs (rs_segments st) /\
  map sg_index (rs_segments st') = map sg_index (rs_segments st) /\
  map sg_nchunks (rs_segments st') = map sg_nchunks (rs_segments st) /\
  map sg_final (rs_segments st') = map sg_final (rs_segments st) /\
  map (fun g => sg_next g - sg_data g) (rs_segments st') =
    map (fun g => sg_next g - sg_data g) (rs_segments st) /\
  map sg_incomplete (rs_segments st') = map sg_incomplete (rs_segments st) /\
  map sg_toc (rs_segments st') = map explicit_toc (map sg_toc (rs_segments st)) /\
  rs_om st' = rs_om st /\
  rs_prev_objs st' = rs_prev_objs st /\
  rs_version st' = rs_version st.

(* C02, multi-segment: any accepted stream and its fully explicit re-encoding
   read the same, modulo segment positions. *)
Theorem inheritance_transparent segs w st :
  sm_run segs w = Ok st ->
  (* no segment's object list mentions a path twice *)
  Forall (fun g => NoDup (map so_path (sg_objs g))) (rs_segments st) ->
  (* no object has data without ever having received an index *)
  Forall (fun g => forall o, In o (sg_objs g) -> so_has_data o = true -> so_dtype o <> None)
         (rs_segments st) ->
  exists st',
    sm_run (explicit_segs segs (map sg_objs (rs_segments st))) w = Ok st' /\ same_reading st st'.
Proof.
  unfold sm_run. intros H Hnd Hdt.
  assert (Hcond : Forall seg_cond (rs_segments st)).
  { rewrite Forall_forall in *. intros g Hg. split; [exact (Hnd g Hg)|exact (Hdt g Hg)]. }
  destruct (explicit_sim segs w 0 0 None [] [] rstate0 rstate0 st (rs_segments st) H eq_refl
                         (run_inv_initial w) cache_ok_nil) as (st' & Hrun & Hrel).
  - intros b Hb0. discriminate Hb0.
  - unfold st_rel. repeat split; reflexivity.
  - exact Hcond.
  - exists st'. split; [exact Hrun|]. unfold same_reading.
    destruct Hrel as (Rv & Rt & Rom & Rpo & Rver).
    split; [apply (map_view sg_objs (fun v => fst (fst (fst (fst (fst v)))))); [reflexivity|exact Rv]|].
    split; [apply (map_view sg_index (fun v => snd (fst (fst (fst (fst v)))))); [reflexivity|exact Rv]|].
    split; [apply (map_view sg_nchunks (fun v => snd (fst (fst (fst v))))); [reflexivity|exact Rv]|].
    split; [apply (map_view sg_final (fun v => snd (fst (fst v)))); [reflexivity|exact Rv]|].
    split; [apply (map_view (fun g => sg_next g - sg_data g) (fun v => snd (fst v))); [reflexivity|exact Rv]|].
    split; [apply (map_view sg_incomplete (fun v => snd v)); [reflexivity|exact Rv]|].
    split; [exact Rt|]. split; [exact Rom|]. split; [exact Rpo|exact Rver].
Qed.

(* ---- the uniqueness side condition from the syntax ----------------------------- *)

(* no metadata block lists a path twice *)
Definition listed_once (s : fseg) : Prop :=
  match fs_meta s with Some es => NoDup (map e_path es) | None => True end.

Lemma read_segment_objects_nodup toc metadata prev ps objs props :
  prev_keys_ok prev ->
  (forall b, ps = Some b -> NoDup (map so_path b)) ->
  match metadata with Some es => NoDup (map e_path es) | None => True end ->
  read_segment_objects toc metadata prev ps = Ok (objs, props) ->
  NoDup (map so_path objs).
Proof.
  intros Hk Hps Hes H. unfold read_segment_objects in H. destruct metadata as [es|].
  - destruct (if toc_has toc TOC_NEWLIST then None else ps) as [b|] eqn:Eb.
    + destruct (fold_entries (Some b) prev b es) as [r|e] eqn:Ef; cbn [bind] in H; [|discriminate].
      injection H as <- _.
      apply (fold_entries_nodup_listed_once b prev es r Hk); [|exact Hes|exact Ef].
      apply Hps. destruct (toc_has toc TOC_NEWLIST); [discriminate Eb|exact Eb].
    + destruct (fold_entries None prev [] es) as [r|e] eqn:Ef; cbn [bind] in H; [|discriminate].
      injection H as <- _. apply (fold_entries_nodup_new_list prev es r Hk Hes Ef).
  - destruct ps as [b|]; [|discriminate]. injection H as <- _. apply Hps. reflexivity.
Qed.

Lemma sm_loop_nodup : forall segs w pos ps pi st fin news,
  sm_loop segs w pos ps pi st = Ok fin ->
  rs_segments fin = rs_segments st ++ news ->
  prev_keys_ok (rs_prev_objs st) ->
  (forall b, ps = Some b -> NoDup (map so_path b)) ->
  Forall listed_once segs ->
  Forall (fun g => NoDup (map so_path (sg_objs g))) news.
Proof.
  induction segs as [|s r IH]; intros w pos ps pi st fin news H Hs Hk Hps Hl.
  - cbn in H. injection H as <-.
    rewrite <- (app_nil_r (rs_segments st)) in Hs at 1. apply app_inv_head in Hs. subst news.
    apply Forall_nil.
  - destruct (sm_loop_cons_inv _ _ _ _ _ _ _ _ H) as (objs & props & nch & fn & po & om & H1 & H2 & H3).
    rewrite (sm_loop_cons_ok _ _ _ _ _ _ _ _ _ _ _ _ _ H1 H2 H3) in H.
    destruct (sm_loop_segments _ _ _ _ _ _ _ H) as (news' & Hs' & _).
    apply Forall_cons_iff in Hl. destruct Hl as [Hls Hl].
    pose proof (read_segment_objects_nodup _ _ _ _ _ _ Hk Hps Hls H1) as Hnd.
    assert (Hn : Forall (fun g => NoDup (map so_path (sg_objs g))) news').
    { apply (IH _ _ _ _ _ _ _ H Hs').
      - unfold next_state. cbv zeta. cbn [rs_prev_objs].
        apply (update_object_metadata_keys_ok _ _ _ _ _ _ _ H3 Hk).
      - intros b Hb0. injection Hb0 as <-. exact Hnd.
      - exact Hl. }
    unfold next_state in Hs'. cbv zeta in Hs'. cbn [rs_segments] in Hs'.
    rewrite Hs, <- app_assoc in Hs'. apply app_inv_head in Hs'. subst news.
    apply Forall_cons; [exact Hnd|exact Hn].
Qed.

Theorem inheritance_transparent_listed_once segs w st :
  sm_run segs w = Ok st ->
  Forall listed_once segs ->
  Forall (fun g => forall o, In o (sg_objs g) -> so_has_data o = true -> so_dtype o <> None)
         (rs_segments st) ->
  exists st',
    sm_run (explicit_segs segs (map sg_objs (rs_segments st))) w = Ok st' /\ same_reading st st'.
Proof.
  intros H Hl Hdt. apply (inheritance_transparent segs w st H); [|exact Hdt].
  unfold sm_run in H.
  apply (sm_loop_nodup segs w 0 None [] rstate0 st (rs_segments st) H eq_refl).
  - exact prev_keys_ok_nil.
  - intros b Hb0. discriminate Hb0.
  - exact Hl.
Qed.

(* the explicit stream is again listed-once, has metadata everywhere and the
   new-object-list flag everywhere *)
Lemma explicit_segs_shape : forall segs objss,
  Forall (fun objs => NoDup (map so_path objs)) objss ->
  Forall (fun s => listed_once s /\ fs_meta s <> None /\
                   toc_has (fs_toc s) TOC_META = true /\ toc_has (fs_toc s) TOC_NEWLIST = true)
         (explicit_segs segs objss).
Proof.
  induction segs as [|s r IH]; intros [|objs ro] HF; cbn [explicit_segs]; try apply Forall_nil.
  apply Forall_cons_iff in HF. destruct HF as [Ho HF].
  apply Forall_cons; [|apply IH; exact HF].
  unfold listed_once, explicit_seg. cbn [fs_meta fs_toc].
  split; [rewrite explicit_entries_p_paths; exact Ho|].
  split; [discriminate|]. split; [apply explicit_toc_meta|apply explicit_toc_newlist].
Qed.

Lemma explicit_segs_kept : forall segs objss,
  length objss = length segs ->
  map fs_version (explicit_segs segs objss) = map fs_version segs /\
  map fs_data (explicit_segs segs objss) = map fs_data segs /\
  map fs_toc (explicit_segs segs objss) = map explicit_toc (map fs_toc segs).
Proof.
  induction segs as [|s r IH]; intros [|objs ro] Hl; cbn in Hl; try discriminate.
  - repeat split; reflexivity.
  - injection Hl as Hl. destruct (IH ro Hl) as (H1 & H2 & H3).
    cbn [explicit_segs map explicit_seg fs_version fs_data fs_toc].
    rewrite H1, H2, H3. repeat split; reflexivity.
Qed.

(* ======================================================================== *)
(* serialised files                                                           *)
(* ======================================================================== *)

From NpTdms Require Import Proofs.FileSynProofs.

(* Reading the BYTES of a well-formed file and of its explicit re-encoding.
   ([wf_file] of the re-encoding is a decidable syntactic check: field widths
   of the restated indexes and the 32-bit ToC mask.) *)
Corollary inheritance_transparent_files segs w st :
  wf_file segs ->
  rd_metadata (ser_file segs) false (Some (blen (ser_file segs))) w = Ok st ->
  Forall listed_once segs ->
  Forall (fun g => forall o, In o (sg_objs g) -> so_has_data o = true -> so_dtype o <> None)
         (rs_segments st) ->
  let segs' := explicit_segs segs (map sg_objs (rs_segments st)) in
  wf_file segs' ->
  exists st',
    rd_metadata (ser_file segs') false (Some (blen (ser_file segs'))) w = Ok st' /\
    same_reading st st'.
Proof.
  intros Hwf H Hl Hdt segs' Hwf'. rewrite (rd_metadata_ser segs w Hwf) in H.
  destruct (inheritance_transparent_listed_once segs w st H Hl Hdt) as (st' & Hrun & Hsame).
  exists st'. split; [|exact Hsame]. rewrite (rd_metadata_ser segs' w Hwf'). exact Hrun.
Qed.

(* ======================================================================== *)
(* a concrete stream                                                          *)
(* ======================================================================== *)

(* decidable forms of the side conditions *)
Definition seg_condb (g : segment) : bool :=
  nodupb (map so_path (sg_objs g)) &&
  forallb (fun o => negb (so_has_data o) || match so_dtype o with Some _ => true | None => false end)
          (sg_objs g).

Lemma seg_condb_sound l :
  forallb seg_condb l = true ->
  Forall (fun g => NoDup (map so_path (sg_objs g))) l /\
  Forall (fun g => forall o, In o (sg_objs g) -> so_has_data o = true -> so_dtype o <> None) l.
Proof.
  intros H. rewrite forallb_forall in H. split; apply Forall_forall; intros g Hg;
    specialize (H g Hg); unfold seg_condb in H; apply andb_true_iff in H; destruct H as [H1 H2].
  - apply nodupb_sound. exact H1.
  - intros o Ho Hd. rewrite forallb_forall in H2. specialize (H2 o Ho). rewrite Hd in H2.
    cbn in H2. destruct (so_dtype o); [discriminate|discriminate H2].
Qed.

Definition listed_onceb (s : fseg) : bool :=
  match fs_meta s with Some es => nodupb (map e_path es) | None => true end.

Lemma listed_onceb_sound segs : forallb listed_onceb segs = true -> Forall listed_once segs.
Proof.
  intros H. rewrite forallb_forall in H. apply Forall_forall. intros s Hs. specialize (H s Hs).
  unfold listed_onceb, listed_once in *. destruct (fs_meta s); [apply nodupb_sound; exact H|exact I].
Qed.

Module ExS.
  Definition pR : bytes := ["/"%byte].
  Definition pG : bytes := ["/"%byte; "g"%byte].
  Definition pA : bytes := ["/"%byte; "g"%byte; "/"%byte; "a"%byte].
  Definition pB : bytes := ["/"%byte; "g"%byte; "/"%byte; "b"%byte].
  Definition pS : bytes := ["/"%byte; "g"%byte; "/"%byte; "s"%byte].
  Definition pC : bytes := ["/"%byte; "g"%byte; "/"%byte; "c"%byte].
  Definition prN := mkProp ["n"%byte] T_STRING ["h"%byte; "i"%byte].
  Definition prU1 := mkProp ["u"%byte] 3 [x07; x00; x00; x00].
  Definition prU2 := mkProp ["u"%byte] 3 [x09; x00; x00; x00].
  Definition prV := mkProp ["v"%byte] 3 [x01; x00; x00; x00].
  (* Segment 1 (new list): root, group, int32 x 2, float64 x 1, and a channel
       that is only declared; two chunks of 16 bytes.
     Segment 2 (inherited list): b "no data", a "matches previous" with a
       property update, a new uint8 x 3 channel; root, group and s are not
       listed and carry over; one chunk of 11 bytes.
     Segment 3: no metadata block at all; two chunks.
     Segment 4 (inherited list): b "matches previous" re-activates the index it
       got in segment 1; one chunk of 19 bytes. *)
  Definition segs : list fseg :=
    [ mkFseg 14 4713
        (Some [ mkEntry pR INoData [];
                mkEntry pG INoData [prN];
                mkEntry pA (IFull 20 3 1 2 None) [prU1];
                mkEntry pB (IFull 20 10 1 1 None) [];
                mkEntry pS INoData [] ])
        (repeat x01 32);
      mkFseg 10 4713
        (Some [ mkEntry pB INoData [];
                mkEntry pA IMatchPrev [prU2; prV];
                mkEntry pC (IFull 20 5 1 3 None) [prV] ])
        (repeat x02 11);
      mkFseg 8 4713 None (repeat x03 22);
      mkFseg 10 4713 (Some [ mkEntry pB IMatchPrev [] ]) (repeat x04 19) ].
  Definition oR := blank pR.
  Definition oG := blank pG.
  Definition oS := blank pS.
  Definition oA := mkSobj pA true 2 8 (Some 3) None.
  Definition oB b := mkSobj pB b 1 8 (Some 10) None.
  Definition oC := mkSobj pC true 3 3 (Some 5) None.
  Definition objss : list (list sobj) :=
    [ [oR; oG; oA; oB true; oS];
      [oR; oG; oA; oB false; oS; oC];
      [oR; oG; oA; oB false; oS; oC];
      [oR; oG; oA; oB true; oS; oC] ].
End ExS.

Example ex_stream_run :
  match sm_run ExS.segs true with
  | Ok st =>
    map sg_objs (rs_segments st) = ExS.objss /\
    map sg_nchunks (rs_segments st) = [2; 1; 2; 1] /\
    map sg_pos (rs_segments st) = [0; 199; 345; 395]
  | Err _ => False
  end.
Proof. vm_compute. repeat split; reflexivity. Qed.

(* the explicit re-encoding of that stream: segment 2 restates all six objects,
   properties stay with a and c; segment 3 gets a metadata block *)
Example ex_stream_explicit :
  map (fun s => (fs_toc s, fs_version s, blen (fs_data s)))
      (explicit_segs ExS.segs ExS.objss) = [(14, 4713, 32); (14, 4713, 11); (14, 4713, 22); (14, 4713, 19)] /\
  map fs_meta (explicit_segs ExS.segs ExS.objss) =
  [ Some [ mkEntry ExS.pR INoData [];
           mkEntry ExS.pG INoData [ExS.prN];
           mkEntry ExS.pA (IFull 20 3 1 2 None) [ExS.prU1];
           mkEntry ExS.pB (IFull 20 10 1 1 None) [];
           mkEntry ExS.pS INoData [] ];
    Some [ mkEntry ExS.pR INoData [];
           mkEntry ExS.pG INoData [];
           mkEntry ExS.pA (IFull 20 3 1 2 None) [ExS.prU2; ExS.prV];
           mkEntry ExS.pB INoData [];
           mkEntry ExS.pS INoData [];
           mkEntry ExS.pC (IFull 20 5 1 3 None) [ExS.prV] ];
    Some [ mkEntry ExS.pR INoData [];
           mkEntry ExS.pG INoData [];
           mkEntry ExS.pA (IFull 20 3 1 2 None) [];
           mkEntry ExS.pB INoData [];
           mkEntry ExS.pS INoData [];
           mkEntry ExS.pC (IFull 20 5 1 3 None) [] ];
    Some [ mkEntry ExS.pR INoData [];
           mkEntry ExS.pG INoData [];
           mkEntry ExS.pA (IFull 20 3 1 2 None) [];
           mkEntry ExS.pB (IFull 20 10 1 1 None) [];
           mkEntry ExS.pS INoData [];
           mkEntry ExS.pC (IFull 20 5 1 3 None) [] ] ].
Proof. vm_compute. split; reflexivity. Qed.

(* the hypotheses of the theorems hold for it (checked through their decidable
   forms), both runs succeed, read the same, and sit at different positions *)
Example inheritance_transparent_instance :
  match sm_run ExS.segs true, sm_run (explicit_segs ExS.segs ExS.objss) true with
  | Ok st, Ok st' =>
    map sg_objs (rs_segments st) = ExS.objss /\
    forallb listed_onceb ExS.segs = true /\
    forallb seg_condb (rs_segments st) = true /\
    same_reading st st' /\
    map sg_pos (rs_segments st) = [0; 199; 345; 395] /\
    map sg_pos (rs_segments st') = [0; 199; 404; 581] /\
    map (fun kv => (fst kv, om_len (snd kv), om_dtype (snd kv), map fst (om_props (snd kv))))
        (rs_om st') =
      [ (ExS.pR, 0, None, []); (ExS.pG, 0, None, [["n"%byte]]);
        (ExS.pA, 12, Some 3, [["u"%byte]; ["v"%byte]]);
        (ExS.pB, 3, Some 10, []); (ExS.pS, 0, None, []);
        (ExS.pC, 12, Some 5, [["v"%byte]]) ]
  | _, _ => False
  end.
Proof. vm_compute. repeat split; reflexivity. Qed.

(* ... and as files: both are well formed, and reading their bytes is the run
   on the syntax *)
Example inheritance_transparent_files_instance :
  wf_file ExS.segs /\ wf_file (explicit_segs ExS.segs ExS.objss) /\
  rd_metadata (ser_file ExS.segs) false (Some (blen (ser_file ExS.segs))) true
    = sm_run ExS.segs true /\
  rd_metadata (ser_file (explicit_segs ExS.segs ExS.objss)) false
              (Some (blen (ser_file (explicit_segs ExS.segs ExS.objss)))) true
    = sm_run (explicit_segs ExS.segs ExS.objss) true /\
  blen (ser_file ExS.segs) = 462 /\ blen (ser_file (explicit_segs ExS.segs ExS.objss)) = 771.
Proof.
  assert (H1 : wf_file ExS.segs) by (unfold wf_file; vm_compute; reflexivity).
  assert (H2 : wf_file (explicit_segs ExS.segs ExS.objss)) by (unfold wf_file; vm_compute; reflexivity).
  split; [exact H1|]. split; [exact H2|].
  split; [apply (rd_metadata_ser _ _ H1)|]. split; [apply (rd_metadata_ser _ _ H2)|].
  split; vm_compute; reflexivity.
Qed.
