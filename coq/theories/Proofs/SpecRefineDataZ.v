(* Refinement of the reader model to Model/Spec.v — raw data, with objects that
   declare ZERO values / zero bytes per chunk allowed ([idx_ok0] instead of
   [idx_ok]).  The zero-chunk-size segments are the two extra cases of
   [seg_encodes_z] (Proofs/SegEncodesZ.v).  Everything of
   Proofs/SpecRefineData.v that does not depend on positivity is reused; the
   lemmas that took [idx_ok] are re-proved here from [idx_ok0]. *)
From Coq Require Import List ZArith Bool Lia ZifyBool.
From Coq Require Import Init.Byte.
Import ListNotations.
From NpTdms Require Import Base.Bytes Base.Res Model.Tokens Model.SegState Model.Layout Model.Reader
     Model.FileSyn Model.Spec Proofs.SegStateProofs Proofs.LayoutProofs Proofs.ReadCorrect
     Proofs.SpecRefineBase Proofs.SpecRefineData Proofs.SegEncodesZ.
Local Open Scope Z_scope.
Ltac Zify.zify_post_hook ::= Z.to_euclidean_division_equations.

(* [idx_ok0] and [idx_ok_idx_ok0] are in Proofs/SpecRefineBase.v *)

(* ---- sizes ---------------------------------------------------------------------- *)

Lemma chunk_bytes_nonneg0 dobjs :
  Forall (fun o => idx_ok0 (snd o)) dobjs -> 0 <= chunk_bytes dobjs.
Proof.
  induction 1 as [|o r Ho _ IH]; [unfold chunk_bytes; cbn; lia|].
  rewrite chunk_bytes_cons. destruct Ho as (_ & Hb & _). lia.
Qed.

Lemma chunk_bytes_zero dobjs :
  Forall (fun o => idx_ok0 (snd o)) dobjs -> chunk_bytes dobjs = 0 ->
  Forall (fun o => ri_bytes (snd o) = 0) dobjs.
Proof.
  induction 1 as [|o r Ho Hr IH]; intros Hz; [constructor|].
  rewrite chunk_bytes_cons in Hz. destruct Ho as (_ & Hb & _).
  pose proof (chunk_bytes_nonneg0 r Hr) as Hnn.
  constructor; [lia|]. apply IH. lia.
Qed.

(* ---- one object's values in a contiguous chunk ---------------------------------- *)

Lemma obj_values_enc0 e (o : bytes * rawidx) (x : bytes) vs :
  idx_ok0 (snd o) -> blen x = ri_bytes (snd o) ->
  obj_values e (snd o) x = Some vs ->
  vals_ok (so_nvals (dobj o)) (dobj o) vs /\ enc_obj e (dobj o) vs = x.
Proof.
  destruct o as [p [dt n b]]. unfold idx_ok0, obj_values, vals_ok, enc_obj, dobj, mk_obj.
  cbn [fst snd ri_dt ri_n ri_bytes so_nvals so_dtype].
  intros (Hn & Hb & Ht) Hx Hov.
  destruct (type_size dt) as [sz|] eqn:Hts.
  - (* fixed size *)
    pose proof (type_size_pos _ _ Hts) as Hsz.
    rewrite (type_size_some _ _ Hts). injection Hov as <-.
    assert (Hlen : (Z.to_nat n * Z.to_nat sz)%nat = length x).
    { rewrite <- Z2Nat.inj_mul by lia. unfold blen in Hx. lia. }
    split; [split|].
    + rewrite map_length, pieces_length. lia.
    + apply Forall_map. eapply Forall_impl; [|apply pieces_Forall; lia].
      intros v Hv. rewrite canon_value_blen. unfold blen. rewrite Hv. lia.
    + unfold enc_values. rewrite flat_map_concat_map, map_map.
      rewrite (map_ext _ (fun v => v)) by (intros v; apply canon_then_store).
      rewrite map_id, pieces_concat, Hlen. apply firstn_all.
  - (* strings *)
    subst dt. change (tds_size T_STRING) with (Some (@None Z)). cbv iota.
    destruct ((n <? 0) || (blen x <? 4 * n)) eqn:C; [discriminate|].
    destruct (slices_spec _ _ _ _ Hov) as [He Hc].
    assert (H4 : Forall (fun p => length p = 4%nat) (pieces (Z.to_nat n) 4 x)).
    { apply pieces_Forall. unfold blen in C. lia. }
    split; [split; [|split; [reflexivity|]]|].
    + rewrite <- (end_offsets_length 0 vs), He, map_length, pieces_length. lia.
    + change (2 ^ 32) with 4294967296.
      apply (end_offsets_bound 4294967296 vs 0); [|lia].
      rewrite He. apply Forall_map. eapply Forall_impl; [|exact H4].
      intros q Hq. pose proof (u_dec_range e q) as Hr. rewrite Hq in Hr.
      change (256 ^ Z.of_nat 4) with 4294967296 in Hr. lia.
    + unfold enc_strings. rewrite He, Hc, (put_dec_pieces e _ H4), pieces_concat.
      rewrite Nat.mul_comm. apply firstn_skipn.
Qed.

(* ---- one contiguous chunk --------------------------------------------------------- *)

Lemma chunk_values_enc0 e : forall dobjs (x : bytes) vss,
    Forall (fun o => idx_ok0 (snd o)) dobjs -> blen x = chunk_bytes dobjs ->
    Spec.chunk_values e dobjs x = Some vss ->
    Forall2 (fun o vs => vals_ok (so_nvals o) o vs) (map dobj dobjs) vss /\
    Forall2 (dsize_ok e) (map dobj dobjs) vss /\
    x = enc_chunk e (combine (map dobj dobjs) vss).
Proof.
  induction dobjs as [|[p i] r IH]; intros x vss Hok Hx Hcv; cbn [Spec.chunk_values] in Hcv.
  - injection Hcv as <-. destruct x as [|b x]; [|unfold blen, chunk_bytes in Hx; cbn in Hx; lia].
    split; [constructor|split; [constructor|reflexivity]].
  - destruct (obj_values e i (firstn (Z.to_nat (ri_bytes i)) x)) as [vs|] eqn:Hov; [|discriminate].
    destruct (Spec.chunk_values e r (skipn (Z.to_nat (ri_bytes i)) x)) as [vss'|] eqn:Hr; [|discriminate].
    injection Hcv as <-.
    inversion Hok as [|o l Hi Hrok]; subst o l. cbn [snd] in Hi.
    rewrite chunk_bytes_cons in Hx. cbn [snd] in Hx.
    pose proof (chunk_bytes_nonneg0 r Hrok) as Hnn.
    assert (Hb : 0 <= ri_bytes i) by (destruct Hi as (_ & Hb & _); exact Hb).
    assert (Hx1 : blen (firstn (Z.to_nat (ri_bytes i)) x) = ri_bytes i)
      by (unfold blen in *; rewrite firstn_length; lia).
    assert (Hx2 : blen (skipn (Z.to_nat (ri_bytes i)) x) = chunk_bytes r)
      by (unfold blen in *; rewrite skipn_length; lia).
    destruct (obj_values_enc0 e (p, i) _ vs Hi Hx1 Hov) as [Hv He].
    destruct (IH _ _ Hrok Hx2 Hr) as (IH1 & IH2 & IH3).
    cbn [map combine]. split; [|split].
    + constructor; assumption.
    + constructor; [|assumption]. unfold dsize_ok. rewrite He, Hx1. reflexivity.
    + unfold enc_chunk in *. cbn [flat_map fst snd]. rewrite He, <- IH3.
      symmetry. apply firstn_skipn.
Qed.

Lemma units_contig0 e dobjs :
  Forall (fun o => idx_ok0 (snd o)) dobjs ->
  forall (l : list bytes) css,
    Forall2 (fun x vss => Spec.chunk_values e dobjs x = Some vss) l css ->
    Forall (fun x => blen x = chunk_bytes dobjs) l ->
    Forall (fun vss => Forall2 (fun o vs => vals_ok (so_nvals o) o vs) (map dobj dobjs) vss) css /\
    Forall (Forall2 (dsize_ok e) (map dobj dobjs)) css /\
    concat l = enc_chunks e (map dobj dobjs) css.
Proof.
  intros Hok. induction 1 as [|x vss l css Hx _ IH]; intros Hl.
  - split; [constructor|split; [constructor|reflexivity]].
  - inversion Hl as [|y l' Hy Hl']; subst y l'.
    destruct (IH Hl') as (I1 & I2 & I3).
    destruct (chunk_values_enc0 e dobjs x vss Hok Hy Hx) as (C1 & C2 & C3).
    split; [constructor; assumption|split; [constructor; assumption|]].
    unfold enc_chunks in *. cbn [concat flat_map]. rewrite I3, <- C3. reflexivity.
Qed.

(* ---- contiguous segments, positive chunk size ------------------------------------------------ *)

Lemma decode_contig0 g dobjs (d : bytes) css :
  data_objs (sg_objs g) = map dobj dobjs ->
  NoDup (map fst dobjs) ->
  Forall (fun o => idx_ok0 (snd o)) dobjs ->
  0 < chunk_bytes dobjs ->
  have_interleaved (sg_toc g) (map dobj dobjs) = Ok false ->
  whole_chunks (toc_endian (sg_toc g)) (chunk_bytes dobjs) dobjs d = SOk css ->
  exists cs : list chunk,
    seg_encodes g d cs /\
    forall c0 : dict cobj, NoDup (map fst c0) ->
      fold_left (add_chunk dobjs) css c0 = grow (fun k => chan_values k cs) c0.
Proof.
  intros Hdo Hnd Hok Hpos Hil Hwc.
  unfold whole_chunks in Hwc.
  destruct (chunk_bytes dobjs =? 0) eqn:E0; [lia|].
  destruct (negb (blen d mod chunk_bytes dobjs =? 0)) eqn:Em; [discriminate|].
  destruct (all_some _) as [css'|] eqn:Has; [|discriminate]. injection Hwc as ->.
  apply all_some_map_inv in Has.
  destruct (pieces_whole d (chunk_bytes dobjs) Hpos ltac:(lia)) as (Hcat & Hlens & _).
  destruct (units_contig0 (toc_endian (sg_toc g)) dobjs Hok _ _ Has Hlens) as (U1 & U2 & U3).
  rewrite Hcat in U3.
  exists (map (fun vss => chunk_of (combine (data_objs (sg_objs g)) vss)) css). split.
  - apply se_contig; rewrite ?Hdo.
    + exact (seg_layout_dobj g dobjs false Hdo Hil).
    + rewrite dsizes_dobj. exact Hpos.
    + rewrite paths_dobj. exact Hnd.
    + exact U1.
    + exact U2.
    + exact U3.
  - intros c0 Hc0. rewrite (fold_add_chunk dobjs css c0 Hc0). apply grow_ext. intros k.
    rewrite chan_values_map, Hdo. apply flat_map_ext. intros vss.
    symmetry. apply chunk_of_vals.
Qed.

(* ---- interleaved segments, positive chunk size ---------------------------------------------- *)

Lemma chunk_bytes_rows0 nv dobjs :
  Forall (fun o => idx_ok0 (snd o)) dobjs ->
  forallb is_fixed dobjs = true ->
  Forall (fun o => ri_n (snd o) = nv) dobjs ->
  chunk_bytes dobjs = nv * chunk_bytes (map one_value dobjs).
Proof.
  induction 1 as [|o r Ho _ IH]; intros Hfix Hn; [unfold chunk_bytes; cbn; lia|].
  cbn [forallb] in Hfix. apply andb_prop in Hfix. destruct Hfix as [Hfo Hfr].
  inversion Hn as [|x l Hno Hnr]; subst x l. specialize (IH Hfr Hnr).
  cbn [map]. rewrite !chunk_bytes_cons, IH.
  unfold is_fixed in Hfo. destruct Ho as (_ & _ & Hb).
  destruct (type_size (ri_dt (snd o))) as [sz|] eqn:Hts; [|discriminate].
  rewrite (one_value_bytes o sz Hts), Hb, Hno. ring.
Qed.

Lemma same_counts_Forall o0 r :
  same_counts (o0 :: r) = true -> Forall (fun o => ri_n (snd o) = ri_n (snd o0)) (o0 :: r).
Proof.
  cbn [same_counts]. intros Hsame. constructor; [reflexivity|].
  apply Forall_forall. intros o Hin. rewrite forallb_forall in Hsame.
  specialize (Hsame o Hin). lia.
Qed.

(* the per-object side conditions of se_interleaved / sez_zero_interleaved *)
Lemma interleaved_objs nv dobjs :
  Forall (fun o => idx_ok0 (snd o)) dobjs ->
  forallb is_fixed dobjs = true ->
  Forall (fun o => ri_n (snd o) = nv) dobjs ->
  Forall (fun o => so_nvals o = nv /\ so_dsize o = so_nvals o * size_or0 o) (map dobj dobjs) /\
  Forall (fun o => sized o <> None) (map dobj dobjs).
Proof.
  intros Hok Hfix Hcounts. split; apply Forall_map; rewrite Forall_forall in *; intros o Hin;
    specialize (Hok o Hin); specialize (Hcounts o Hin);
    rewrite forallb_forall in Hfix; specialize (Hfix o Hin); unfold is_fixed in Hfix.
  - unfold size_or0. rewrite sized_dobj.
    destruct o as [p [dt n b]]. cbn [snd ri_dt ri_n] in *.
    destruct Hok as (_ & _ & Hb). cbn [ri_dt ri_bytes ri_n] in Hb.
    destruct (type_size dt) as [sz|]; [|discriminate].
    split; [exact Hcounts|]. exact Hb.
  - rewrite sized_dobj. destruct (type_size (ri_dt (snd o))); [discriminate|discriminate].
Qed.

Lemma have_interleaved_fixed toc dobjs :
  toc_has toc TOC_INTERLEAVED = true -> forallb is_fixed dobjs = true ->
  have_interleaved toc (map dobj dobjs) = Ok true.
Proof.
  intros Htoc Hfix. unfold have_interleaved. rewrite Htoc. cbn [negb].
  rewrite (unsized_fixed dobjs Hfix). reflexivity.
Qed.

Lemma decode_interleaved0 g dobjs (d : bytes) css :
  data_objs (sg_objs g) = map dobj dobjs ->
  NoDup (map fst dobjs) ->
  Forall (fun o => idx_ok0 (snd o)) dobjs ->
  0 < chunk_bytes dobjs ->
  forallb is_fixed dobjs = true ->
  same_counts dobjs = true ->
  toc_has (sg_toc g) TOC_INTERLEAVED = true ->
  whole_chunks (toc_endian (sg_toc g)) (chunk_bytes dobjs) (map one_value dobjs) d = SOk css ->
  exists cs : list chunk,
    seg_encodes g d cs /\
    forall c0 : dict cobj, NoDup (map fst c0) ->
      fold_left (add_chunk dobjs) css c0 = grow (fun k => chan_values k cs) c0.
Proof.
  intros Hdo Hnd Hok Hpos Hfix Hsame Htoc Hwc.
  destruct dobjs as [|o0 r] eqn:Edobjs; [unfold chunk_bytes in Hpos; cbn in Hpos; lia|].
  rewrite <- Edobjs in *.
  assert (Hne : dobjs <> []) by (rewrite Edobjs; discriminate).
  pose proof (width_pos_spec dobjs Hfix Hne) as Hw.
  set (nv := ri_n (snd o0)).
  assert (Hcounts : Forall (fun o => ri_n (snd o) = nv) dobjs).
  { rewrite Edobjs in *. exact (same_counts_Forall o0 r Hsame). }
  pose proof (chunk_bytes_rows0 nv dobjs Hok Hfix Hcounts) as Hcb.
  set (w := chunk_bytes (map one_value dobjs)) in *.
  assert (Hnv : 0 < nv) by nia.
  unfold whole_chunks in Hwc.
  destruct (chunk_bytes dobjs =? 0) eqn:E0; [lia|].
  destruct (negb (blen d mod chunk_bytes dobjs =? 0)) eqn:Em; [discriminate|].
  fold w in Hwc.
  destruct (all_some _) as [css'|] eqn:Has; [|discriminate]. injection Hwc as ->.
  apply all_some_map_inv in Has.
  assert (Hmod : blen d mod chunk_bytes dobjs = 0) by lia.
  assert (Hm0 : 0 <= blen d / chunk_bytes dobjs) by (apply Z.div_pos; [apply blen_nonneg|lia]).
  assert (Hd : blen d = blen d / chunk_bytes dobjs * chunk_bytes dobjs).
  { pose proof (Z.div_mod (blen d) (chunk_bytes dobjs)) as H. rewrite Hmod in H. lia. }
  assert (Hdw : blen d = (nv * (blen d / chunk_bytes dobjs)) * w) by (rewrite Hd at 1; rewrite Hcb; ring).
  assert (Hmodw : blen d mod w = 0) by (rewrite Hdw; apply Z.mod_mul; lia).
  assert (Hdivw : blen d / w = nv * (blen d / chunk_bytes dobjs))
    by (rewrite Hdw at 1; apply Z.div_mul; lia).
  destruct (pieces_whole d w Hw Hmodw) as (Hcat & Hlens & Hcount).
  destruct (units_rows (toc_endian (sg_toc g)) dobjs Hfix _ _ Has Hlens)
    as (rows & -> & Hlen & Hrows & Henc).
  rewrite Hcat in Henc.
  pose proof (have_interleaved_fixed (sg_toc g) dobjs Htoc Hfix) as Hil.
  destruct (interleaved_objs nv dobjs Hok Hfix Hcounts) as [Ho1 Ho2].
  exists [cols_of (data_objs (sg_objs g)) rows]. split.
  - apply (se_interleaved g d nv (blen d / chunk_bytes dobjs) rows); rewrite ?Hdo.
    + exact (seg_layout_dobj g dobjs true Hdo Hil).
    + rewrite Edobjs. discriminate.
    + exact Hnv.
    + exact Hm0.
    + exact Ho1.
    + exact Ho2.
    + rewrite paths_dobj. exact Hnd.
    + exact Hrows.
    + rewrite Hlen, Hcount. exact Hdivw.
    + exact Henc.
  - intros c0 Hc0. rewrite (fold_add_chunk dobjs _ c0 Hc0). apply grow_ext. intros k.
    rewrite chan_values_cons. cbn [chan_values flat_map]. rewrite app_nil_r, Hdo.
    rewrite flat_map_map. apply cols_of_vals; [exact Hnd|].
    eapply Forall_impl; [|exact Hrows]. intros row Hrow.
    destruct (Forall2_combine _ _ _ Hrow) as [_ Hl]. rewrite map_length in Hl. symmetry. exact Hl.
Qed.

(* ---- zero chunk size: the block must be empty, nothing is decoded ------------------------- *)

Lemma whole_chunks_zero e unit (d : bytes) css :
  whole_chunks e 0 unit d = SOk css -> d = [] /\ css = [].
Proof.
  unfold whole_chunks. cbn [Z.eqb]. destruct (blen d =? 0) eqn:E; [|discriminate].
  intros H. injection H as <-. split; [|reflexivity].
  destruct d; [reflexivity|unfold blen in E; cbn [length] in E; lia].
Qed.

Lemma decode_zero_contig g dobjs :
  data_objs (sg_objs g) = map dobj dobjs ->
  dobjs <> [] -> chunk_bytes dobjs = 0 ->
  have_interleaved (sg_toc g) (map dobj dobjs) = Ok false ->
  exists cs : list chunk,
    seg_encodes_z g [] cs /\
    forall c0 : dict cobj, NoDup (map fst c0) ->
      fold_left (add_chunk dobjs) [] c0 = grow (fun k => chan_values k cs) c0.
Proof.
  intros Hdo Hne Hz Hil. exists []. split.
  - apply sez_zero_contig; rewrite ?Hdo.
    + exact (seg_layout_dobj g dobjs false Hdo Hil).
    + destruct dobjs; [contradiction|discriminate].
    + rewrite dsizes_dobj. exact Hz.
    + reflexivity.
  - intros c0 _. cbn [fold_left]. symmetry. apply grow_id. reflexivity.
Qed.

Lemma decode_zero_interleaved g dobjs :
  data_objs (sg_objs g) = map dobj dobjs ->
  NoDup (map fst dobjs) ->
  Forall (fun o => idx_ok0 (snd o)) dobjs ->
  dobjs <> [] -> chunk_bytes dobjs = 0 ->
  forallb is_fixed dobjs = true ->
  toc_has (sg_toc g) TOC_INTERLEAVED = true ->
  exists cs : list chunk,
    seg_encodes_z g [] cs /\
    forall c0 : dict cobj, NoDup (map fst c0) ->
      fold_left (add_chunk dobjs) [] c0 = grow (fun k => chan_values k cs) c0.
Proof.
  intros Hdo Hnd Hok Hne Hz Hfix Htoc.
  pose proof (have_interleaved_fixed (sg_toc g) dobjs Htoc Hfix) as Hil.
  assert (Hcounts : Forall (fun o => ri_n (snd o) = 0) dobjs).
  { pose proof (chunk_bytes_zero dobjs Hok Hz) as Hb0.
    rewrite Forall_forall in *. intros o Hin.
    specialize (Hok o Hin). specialize (Hb0 o Hin).
    rewrite forallb_forall in Hfix. specialize (Hfix o Hin). unfold is_fixed in Hfix.
    destruct Hok as (Hn & _ & Hb).
    destruct (type_size (ri_dt (snd o))) as [sz|] eqn:Hts; [|discriminate].
    pose proof (type_size_pos _ _ Hts). nia. }
  destruct (interleaved_objs 0 dobjs Hok Hfix Hcounts) as [Ho1 Ho2].
  exists [cols_of (data_objs (sg_objs g)) []]. split.
  - apply sez_zero_interleaved; rewrite ?Hdo.
    + exact (seg_layout_dobj g dobjs true Hdo Hil).
    + destruct dobjs; [contradiction|discriminate].
    + rewrite dsizes_dobj. exact Hz.
    + eapply Forall_impl; [|exact Ho1]. intros o [H _]. exact H.
    + exact Ho2.
    + rewrite paths_dobj. exact Hnd.
    + reflexivity.
  - intros c0 _. cbn [fold_left]. symmetry. apply grow_id. intros k _.
    rewrite chan_values_cons. cbn [chan_values flat_map]. rewrite app_nil_r, Hdo.
    symmetry. exact (cols_of_vals k dobjs [] Hnd (Forall_nil _)).
Qed.

(* ---- the theorem ---------------------------------------------------------------------------- *)

Theorem decode_data_encodes_z : forall (g : segment) (dobjs : list (bytes * rawidx)) (d : bytes) css,
    data_objs (sg_objs g) = map dobj dobjs ->
    NoDup (map fst dobjs) ->
    Forall (fun o => idx_ok0 (snd o)) dobjs ->
    decode_data (sg_toc g) dobjs d = SOk css ->
    exists cs : list chunk,
      seg_encodes_z g d cs /\
      forall c0 : dict cobj,
        NoDup (map fst c0) ->
        fold_left (add_chunk dobjs) css c0 =
        map (fun po => (fst po, mkCobj (o_props (snd po)) (o_dtype (snd po))
                                       (o_vals (snd po) ++ chan_values (fst po) cs))) c0.
Proof.
  intros g dobjs d css Hdo Hnd Hok Hdec.
  change (exists cs : list chunk,
             seg_encodes_z g d cs /\
             forall c0 : dict cobj, NoDup (map fst c0) ->
               fold_left (add_chunk dobjs) css c0 = grow (fun k => chan_values k cs) c0).
  assert (Hlift : (exists cs : list chunk,
             seg_encodes g d cs /\
             forall c0 : dict cobj, NoDup (map fst c0) ->
               fold_left (add_chunk dobjs) css c0 = grow (fun k => chan_values k cs) c0) ->
           exists cs : list chunk,
             seg_encodes_z g d cs /\
             forall c0 : dict cobj, NoDup (map fst c0) ->
               fold_left (add_chunk dobjs) css c0 = grow (fun k => chan_values k cs) c0).
  { intros (cs & Henc & Hv). exists cs. split; [apply sez_enc; exact Henc|exact Hv]. }
  destruct dobjs as [|o0 r] eqn:Edobjs.
  - (* no data objects: the block must be empty *)
    assert (Hwc : whole_chunks (toc_endian (sg_toc g)) 0 [] d = SOk css).
    { unfold decode_data in Hdec. cbn [forallb same_counts map] in Hdec.
      change (chunk_bytes []) with 0 in Hdec.
      destruct (negb (toc_has (sg_toc g) TOC_INTERLEAVED)); exact Hdec. }
    destruct (whole_chunks_zero _ _ _ _ Hwc) as [-> ->].
    exists []. split.
    + apply sez_enc. apply se_empty; [exact Hdo|reflexivity].
    + intros c0 _. cbn [fold_left]. symmetry. apply grow_id. reflexivity.
  - rewrite <- Edobjs in *.
    assert (Hne : dobjs <> []) by (rewrite Edobjs; discriminate).
    pose proof (chunk_bytes_nonneg0 dobjs Hok) as Hnn.
    unfold decode_data in Hdec.
    destruct (toc_has (sg_toc g) TOC_INTERLEAVED) eqn:Htoc; cbn [negb] in Hdec.
    + destruct (forallb is_fixed dobjs) eqn:Hfix.
      * destruct (same_counts dobjs) eqn:Hsame; [|discriminate].
        destruct (Z.eq_dec (chunk_bytes dobjs) 0) as [Hz|Hnz].
        -- rewrite Hz in Hdec. destruct (whole_chunks_zero _ _ _ _ Hdec) as [-> ->].
           exact (decode_zero_interleaved g dobjs Hdo Hnd Hok Hne Hz Hfix Htoc).
        -- apply Hlift.
           exact (decode_interleaved0 g dobjs d css Hdo Hnd Hok ltac:(lia) Hfix Hsame Htoc Hdec).
      * (* a lone string channel *)
        destruct dobjs as [|o1 [|o2 r']] eqn:E1; try discriminate. rewrite <- E1 in *.
        assert (Hil : have_interleaved (sg_toc g) (map dobj dobjs) = Ok false).
        { unfold have_interleaved. rewrite Htoc. cbn [negb]. rewrite E1 in *.
          cbn [forallb] in Hfix. rewrite andb_true_r in Hfix. unfold is_fixed in Hfix.
          cbn [map filter]. rewrite sized_dobj.
          destruct (type_size (ri_dt (snd o1))); [discriminate|reflexivity]. }
        destruct (Z.eq_dec (chunk_bytes dobjs) 0) as [Hz|Hnz].
        -- rewrite Hz in Hdec. destruct (whole_chunks_zero _ _ _ _ Hdec) as [-> ->].
           exact (decode_zero_contig g dobjs Hdo Hne Hz Hil).
        -- apply Hlift.
           exact (decode_contig0 g dobjs d css Hdo Hnd Hok ltac:(lia) Hil Hdec).
    + assert (Hil : have_interleaved (sg_toc g) (map dobj dobjs) = Ok false)
        by (unfold have_interleaved; rewrite Htoc; reflexivity).
      destruct (Z.eq_dec (chunk_bytes dobjs) 0) as [Hz|Hnz].
      * rewrite Hz in Hdec. destruct (whole_chunks_zero _ _ _ _ Hdec) as [-> ->].
        exact (decode_zero_contig g dobjs Hdo Hne Hz Hil).
      * apply Hlift.
        exact (decode_contig0 g dobjs d css Hdo Hnd Hok ltac:(lia) Hil Hdec).
Qed.

(* the hypotheses are satisfiable in the new cases: a contiguous chunk of positive
   size holding an object with 0 values (fixed size and string), and segments
   whose chunk size is 0 (contiguous, interleaved) *)
Section Examples.
Import String.
Local Open Scope string_scope.

Example decode_data_encodes_z_example_mixed :
  let dobjs := [(hex "2f2761", mkIdx 2 0 0); (hex "2f2762", mkIdx 2 2 4); (hex "2f2763", mkIdx T_STRING 0 0)] in
  let g := mkSeg 0 14 0 0 false (map dobj dobjs) [] 0 None in
  let d := hex "0100020005000600" in
  data_objs (sg_objs g) = map dobj dobjs /\ NoDup (map fst dobjs) /\
  Forall (fun o => idx_ok0 (snd o)) dobjs /\
  decode_data (sg_toc g) dobjs d =
  SOk [ [ []; [hex "0100"; hex "0200"]; [] ]; [ []; [hex "0500"; hex "0600"]; [] ] ].
Proof.
  cbv zeta. split; [reflexivity|split; [|split; [|vm_compute; reflexivity]]].
  - repeat constructor; cbn [In]; intros H; vm_compute in H; intuition discriminate.
  - repeat constructor; vm_compute; try reflexivity; discriminate.
Qed.

Example decode_data_encodes_z_example_zero :
  let dobjs := [(hex "2f2761", mkIdx 2 0 0); (hex "2f2762", mkIdx 1 0 0)] in
  let g := mkSeg 0 14 0 0 false (map dobj dobjs) [] 0 None in
  let g' := mkSeg 0 46 0 0 false (map dobj dobjs) [] 0 None in
  data_objs (sg_objs g) = map dobj dobjs /\ NoDup (map fst dobjs) /\
  Forall (fun o => idx_ok0 (snd o)) dobjs /\
  decode_data (sg_toc g) dobjs [] = SOk [] /\ decode_data (sg_toc g') dobjs [] = SOk [].
Proof.
  cbv zeta. split; [reflexivity|split; [|split; [|split; vm_compute; reflexivity]]].
  - repeat constructor; cbn [In]; intros H; vm_compute in H; intuition discriminate.
  - repeat constructor; vm_compute; try reflexivity; discriminate.
Qed.
End Examples.

Print Assumptions decode_data_encodes_z.
