(* C12 — proofs about Model/Timestamp.v. *)
From Coq Require Import ZArith List Bool Lia ZifyBool.
From NpTdms Require Import Base.Bytes Model.Timestamp.
Import ListNotations.
Local Open Scope Z_scope.
Ltac Zify.zify_post_hook ::= Z.to_euclidean_division_equations.

(* ---- shifts and masks as division ------------------------------------- *)

Lemma frac_steps_scalar_div r f :
  frac_steps_scalar r f = ((f + TOL) * steps_per_second r) / 2 ^ 64.
Proof. unfold frac_steps_scalar. apply Z.shiftr_div_pow2. lia. Qed.

Lemma mask32 f : Z.land f 0xFFFFFFFF = f mod 2 ^ 32.
Proof. change 0xFFFFFFFF with (Z.ones 32). apply Z.land_ones. lia. Qed.

Lemma frac_steps_array_div r f :
  frac_steps_array r f =
  let m := steps_per_second r in
  let high := f / 2 ^ 32 in
  let low := (f mod 2 ^ 32 + TOL) mod 2 ^ 64 in
  (((high * m) mod 2 ^ 64 + ((low * m) mod 2 ^ 64) / 2 ^ 32) mod 2 ^ 64) / 2 ^ 32.
Proof.
  unfold frac_steps_array, u64. cbv zeta.
  rewrite mask32, !Z.shiftr_div_pow2 by lia. reflexivity.
Qed.

Lemma steps_range r : 1 <= steps_per_second r <= 1000000000.
Proof. destruct r; cbn; lia. Qed.

(* ---- scalar path = array path (the hi/lo split never wraps) -----------
   floor ((hi * 2^32 + lo + t) * m / 2^64) = floor ((hi * m + floor ((lo + t) * m / 2^32)) / 2^32)
   and none of the uint64 operations wraps when m <= 10^9 and t <= 2^12. *)

Lemma hi_lo_split f m t :
  0 <= f < 2 ^ 64 -> 1 <= m <= 1000000000 -> 0 <= t <= 2 ^ 12 ->
  (((f / 2 ^ 32 * m) mod 2 ^ 64 +
    ((((f mod 2 ^ 32 + t) mod 2 ^ 64) * m) mod 2 ^ 64) / 2 ^ 32) mod 2 ^ 64) / 2 ^ 32
  = ((f + t) * m) / 2 ^ 64.
Proof.
  intros Hf Hm Ht.
  pose proof (Z.div_mod f (2 ^ 32) ltac:(lia)) as Hdm.
  pose proof (Z.mod_pos_bound f (2 ^ 32) ltac:(lia)) as Hlo.
  assert (Hhi : 0 <= f / 2 ^ 32 < 2 ^ 32)
    by (split; [apply Z.div_pos; lia | apply Z.div_lt_upper_bound; lia]).
  revert Hdm Hlo Hhi. generalize (f / 2 ^ 32) (f mod 2 ^ 32). intros hi lo Hdm Hlo Hhi.
  rewrite (Z.mod_small (lo + t)) by lia.
  assert (Hlm : 0 <= (lo + t) * m <= (2 ^ 32 + 2 ^ 12) * 1000000000)
    by (split; [apply Z.mul_nonneg_nonneg; lia | apply Z.mul_le_mono_nonneg; lia]).
  assert (Hhm : 0 <= hi * m <= 2 ^ 32 * 1000000000)
    by (split; [apply Z.mul_nonneg_nonneg; lia | apply Z.mul_le_mono_nonneg; lia]).
  rewrite (Z.mod_small ((lo + t) * m)) by lia.
  rewrite (Z.mod_small (hi * m)) by lia.
  assert (Hq : 0 <= (lo + t) * m / 2 ^ 32 < 2 ^ 31)
    by (split; [apply Z.div_pos; lia | apply Z.div_lt_upper_bound; lia]).
  rewrite (Z.mod_small (hi * m + _)) by lia.
  replace ((f + t) * m) with (hi * m * 2 ^ 32 + (lo + t) * m) by (rewrite Hdm; ring).
  change (2 ^ 64) with (2 ^ 32 * 2 ^ 32).
  rewrite <- Z.div_div by lia. rewrite Z.div_add_l by lia. reflexivity.
Qed.

Lemma frac_steps_array_scalar r f :
  in_u64 f -> frac_steps_array r f = frac_steps_scalar r f.
Proof.
  unfold in_u64. intros Hf.
  rewrite frac_steps_array_div, frac_steps_scalar_div. cbv zeta.
  apply hi_lo_split; [exact Hf | apply steps_range | unfold TOL; lia].
Qed.

Lemma conv_array_scalar r s f :
  in_u64 f -> conv_array r s f = conv_scalar r s f.
Proof. intros Hf. unfold conv_array, conv_scalar. rewrite frac_steps_array_scalar by exact Hf. reflexivity. Qed.

Lemma conv_arr_conv r s f : in_u64 f -> conv_arr r s f = conv r s f.
Proof. intros Hf. unfold conv_arr, conv. rewrite frac_steps_array_scalar by exact Hf. reflexivity. Qed.

(* the 1970-based datetime64 integer and the 1904-based count differ by the epoch *)
Lemma conv_scalar_conv r s f : conv_scalar r s f = EPOCH_S * steps_per_second r + conv r s f.
Proof. unfold conv_scalar, conv, dt64_of. lia. Qed.

(* ---- the fraction part -------------------------------------------------- *)

Lemma frac_steps_bounds r f :
  in_u64 f ->
  let m := steps_per_second r in
  let c := frac_steps_scalar r f in
  c * 2 ^ 64 <= (f + TOL) * m < (c + 1) * 2 ^ 64 /\ 0 <= c <= m.
Proof.
  unfold in_u64. intros Hf. cbv zeta. rewrite frac_steps_scalar_div. unfold TOL.
  destruct r; cbn [steps_per_second]; lia.
Qed.

Lemma frac_steps_mono r f f' :
  0 <= f <= f' -> frac_steps_scalar r f <= frac_steps_scalar r f'.
Proof.
  intros Hf. rewrite !frac_steps_scalar_div. unfold TOL.
  destruct r; cbn [steps_per_second]; lia.
Qed.

(* within one unit of the exact rational time X / 2^64 seconds, X = s * 2^64 + f *)
Lemma conv_within_unit r s f :
  in_u64 f ->
  let m := steps_per_second r in
  let X := s * 2 ^ 64 + f in
  m * X - 2 ^ 64 < conv r s f * 2 ^ 64 <= m * X + m * TOL /\ m * TOL < 2 ^ 64.
Proof.
  intros Hf. cbv zeta. pose proof (frac_steps_bounds r f Hf) as Hb. cbv zeta in Hb.
  unfold conv, TOL in *. destruct r; cbn [steps_per_second] in *; lia.
Qed.

Lemma conv_monotone r s f s' f' :
  in_u64 f -> in_u64 f' ->
  s < s' \/ (s = s' /\ f <= f') ->
  conv r s f <= conv r s' f'.
Proof.
  intros Hf Hf' Hord. unfold conv.
  pose proof (frac_steps_bounds r f Hf) as Hb. pose proof (frac_steps_bounds r f' Hf') as Hb'.
  cbv zeta in Hb, Hb'. destruct Hord as [Hlt | [Heq Hle]].
  - pose proof (steps_range r) as Hm. nia.
  - subst s'. pose proof (frac_steps_mono r f f') as Hmono. unfold in_u64 in *. lia.
Qed.

(* Any stored fraction that is at most TOL units below the exact value of k
   steps (k / m seconds) still converts to k: fractions written by truncating
   float arithmetic (older versions of this library, other writers) read back
   as intended.  With d = 0 this is the repaired encoder. *)
Lemma frac_steps_tolerates r k d :
  let m := steps_per_second r in
  0 <= k < m -> 0 <= d <= TOL ->
  0 <= - ((- k * 2 ^ 64) / m) - d ->
  frac_steps_scalar r (- ((- k * 2 ^ 64) / m) - d) = k.
Proof.
  cbv zeta. intros Hk Hd Hpos. rewrite frac_steps_scalar_div. unfold TOL in *.
  destruct r; cbn [steps_per_second] in *; lia.
Qed.

(* ---- encode / decode ------------------------------------------------------ *)

Lemma enc_us_ranges v :
  in_i64 v -> in_i64 (fst (enc_us v)) /\ in_u64 (snd (enc_us v)).
Proof.
  unfold in_i64, in_u64, enc_us. cbn [fst snd]. intros Hv. lia.
Qed.

Lemma dec_enc_us v : dec_us (enc_us v) = v.
Proof.
  unfold dec_us, enc_us, conv. cbn [fst snd]. rewrite frac_steps_scalar_div.
  unfold TOL. cbn [steps_per_second]. lia.
Qed.

Lemma dec_enc_dt d : dec_dt (enc_dt d) = d.
Proof.
  unfold dec_dt, enc_dt. rewrite conv_scalar_conv.
  change (conv Rus (fst (enc_us (d - TDMS_EPOCH_US))) (snd (enc_us (d - TDMS_EPOCH_US))))
    with (dec_us (enc_us (d - TDMS_EPOCH_US))).
  rewrite dec_enc_us. unfold EPOCH_S, TDMS_EPOCH_US. cbn [steps_per_second]. lia.
Qed.

(* the array path reads the same value back *)
Lemma dec_enc_dt_array d :
  in_i64 (d - TDMS_EPOCH_US) ->
  conv_array Rus (fst (enc_dt d)) (snd (enc_dt d)) = d.
Proof.
  intros Hd. unfold enc_dt. rewrite conv_array_scalar by (apply enc_us_ranges; exact Hd).
  apply dec_enc_dt.
Qed.

(* ---- raw bytes ------------------------------------------------------------- *)

Lemma pow256_8 : 256 ^ Z.of_nat 8 = 2 ^ 64.
Proof. reflexivity. Qed.

Lemma read_first a b : length a = 8%nat -> read_at 0 8 (a ++ b) = a.
Proof.
  intros Ha. pose proof (read_at_app [] a b) as H. cbn [app] in H.
  unfold blen in H. rewrite Ha in H. exact H.
Qed.

Lemma read_second a b : length a = 8%nat -> length b = 8%nat -> read_at 8 8 (a ++ b) = b.
Proof.
  intros Ha Hb. pose proof (read_at_app a b []) as H. rewrite app_nil_r in H.
  unfold blen in H. rewrite Ha, Hb in H. exact H.
Qed.

Lemma i64b_true s : in_i64 s -> i64b s = true.
Proof. unfold in_i64, i64b. lia. Qed.

Lemma u64b_true f : in_u64 f -> u64b f = true.
Proof. unfold in_u64, u64b. lia. Qed.

Lemma s_dec_enc8 e s : in_i64 s -> s_dec e (s_enc e 8 s) = s.
Proof.
  unfold in_i64. intros Hs. apply s_dec_enc; [lia|].
  rewrite pow256_8. change (2 ^ 64 / 2) with (2 ^ 63). lia.
Qed.

Lemma u_dec_enc8 e f : in_u64 f -> u_dec e (u_enc e 8 f) = f.
Proof. unfold in_u64. intros Hf. apply u_dec_enc. rewrite pow256_8. lia. Qed.

Lemma s_enc_length e n z : length (s_enc e n z) = n.
Proof. unfold s_enc. apply u_enc_length. Qed.

Theorem raw_bytes_roundtrip e s f :
  in_u64 f -> in_i64 s ->
  exists b, wr_ts e s f = Some b /\ length b = 16%nat /\ rd_ts e b = Some (s, f).
Proof.
  intros Hf Hs. unfold wr_ts. rewrite (i64b_true s Hs), (u64b_true f Hf). cbn [andb].
  eexists. split; [reflexivity|].
  assert (Hlen : length (match e with
                         | LE => u_enc LE 8 f ++ s_enc LE 8 s
                         | BE => s_enc BE 8 s ++ u_enc BE 8 f
                         end) = 16%nat).
  { destruct e; rewrite app_length, ?s_enc_length, ?u_enc_length; reflexivity. }
  split; [exact Hlen|].
  unfold rd_ts. rewrite Hlen. cbn [Nat.eqb].
  destruct e.
  - rewrite read_first by apply u_enc_length.
    rewrite read_second by (apply u_enc_length || apply s_enc_length).
    rewrite s_dec_enc8, u_dec_enc8 by assumption. reflexivity.
  - rewrite read_first by apply s_enc_length.
    rewrite read_second by (apply u_enc_length || apply s_enc_length).
    rewrite s_dec_enc8, u_dec_enc8 by assumption. reflexivity.
Qed.

(* the other direction: 16 bytes -> fields -> the same 16 bytes (what
   raw_timestamps=True reading followed by writing / defragment relies on) *)
Lemma u_of_s_of_u n u :
  (0 < n)%nat -> 0 <= u < 256 ^ Z.of_nat n -> u_of_s n (s_of_u n u) = u.
Proof.
  intros Hn Hu. unfold u_of_s, s_of_u.
  pose proof (pow256_pos n) as Hp. set (M := 256 ^ Z.of_nat n) in *.
  destruct (u <? M / 2) eqn:C.
  - apply Z.mod_small. lia.
  - symmetry. apply Z.mod_unique with (q := -1); lia.
Qed.

Lemma s_enc_dec e l : (0 < length l)%nat -> s_enc e (length l) (s_dec e l) = l.
Proof.
  intros Hl. unfold s_enc, s_dec. rewrite u_of_s_of_u.
  - apply u_enc_dec.
  - exact Hl.
  - apply u_dec_range.
Qed.

Lemma s_dec_range8 e l : length l = 8%nat -> in_i64 (s_dec e l).
Proof.
  intros Hl. unfold s_dec, s_of_u, in_i64. pose proof (u_dec_range e l) as Hr.
  rewrite Hl in *. rewrite pow256_8 in *. change (2 ^ 64 / 2) with (2 ^ 63).
  destruct (u_dec e l <? 2 ^ 63) eqn:C; lia.
Qed.

Lemma u_dec_range8 e l : length l = 8%nat -> in_u64 (u_dec e l).
Proof.
  intros Hl. unfold in_u64. pose proof (u_dec_range e l) as Hr.
  rewrite Hl, pow256_8 in Hr. exact Hr.
Qed.

Lemma split16 (b : bytes) :
  length b = 16%nat ->
  b = read_at 0 8 b ++ read_at 8 8 b /\
  length (read_at 0 8 b) = 8%nat /\ length (read_at 8 8 b) = 8%nat.
Proof.
  intros Hb. unfold read_at. rewrite !take_firstn, !drop_skipn.
  change (Z.to_nat 0) with 0%nat. change (Z.to_nat 8) with 8%nat. cbn [skipn].
  assert (Hs : length (skipn 8 b) = 8%nat) by (rewrite skipn_length, Hb; reflexivity).
  rewrite (firstn_all2 (skipn 8 b)) by (rewrite Hs; apply le_n).
  split; [symmetry; apply firstn_skipn|].
  split; [|exact Hs]. rewrite firstn_length, Hb. reflexivity.
Qed.

Lemma u_enc_dec8 e l : length l = 8%nat -> u_enc e 8 (u_dec e l) = l.
Proof. intros H. rewrite <- H. apply u_enc_dec. Qed.

Lemma s_enc_dec8 e l : length l = 8%nat -> s_enc e 8 (s_dec e l) = l.
Proof. intros H. rewrite <- H at 1. apply s_enc_dec. rewrite H. apply Nat.lt_0_succ. Qed.

Theorem raw_bytes_roundtrip_rev e b s f :
  rd_ts e b = Some (s, f) ->
  wr_ts e s f = Some b /\ in_i64 s /\ in_u64 f.
Proof.
  unfold rd_ts. destruct (length b =? 16)%nat eqn:Hlen; [|discriminate].
  apply Nat.eqb_eq in Hlen. destruct (split16 b Hlen) as (Hsplit & H1 & H2).
  intros Hrd.
  assert (Hs : in_i64 s /\ in_u64 f).
  { destruct e; injection Hrd as <- <-.
    - split; [apply (s_dec_range8 LE) | apply (u_dec_range8 LE)]; assumption.
    - split; [apply (s_dec_range8 BE) | apply (u_dec_range8 BE)]; assumption. }
  destruct Hs as [Hs Hf]. split; [|split; assumption].
  unfold wr_ts. rewrite (i64b_true s Hs), (u64b_true f Hf). cbn [andb]. f_equal.
  destruct e; injection Hrd as <- <-;
    rewrite u_enc_dec8, s_enc_dec8 by assumption; symmetry; exact Hsplit.
Qed.

(* an array of n records *)
Lemma take_drop_app16 (x r : bytes) :
  length x = 16%nat -> take 16 (x ++ r) = x /\ drop 16 (x ++ r) = r.
Proof.
  intros Hx. assert (H16 : 16 = blen x) by (unfold blen; rewrite Hx; reflexivity).
  rewrite H16. split; [apply take_app_exact | apply drop_app_exact].
Qed.

Lemma raw_array_roundtrip e l :
  Forall (fun sf => in_i64 (fst sf) /\ in_u64 (snd sf)) l ->
  exists b, wr_ts_array e l = Some b /\ rd_ts_array e (length l) b = Some l.
Proof.
  induction l as [|[s f] r IH]; intros Hall.
  - exists []. split; reflexivity.
  - inversion Hall as [|x y [Hs Hf] Hr]; subst. cbn [fst snd] in Hs, Hf.
    destruct (IH Hr) as (br & Hw & Hrd).
    destruct (raw_bytes_roundtrip e s f Hf Hs) as (b1 & Hw1 & Hl1 & Hr1).
    exists (b1 ++ br). cbn [wr_ts_array length rd_ts_array]. rewrite Hw1, Hw. split; [reflexivity|].
    destruct (take_drop_app16 b1 br Hl1) as [Ht Hd]. rewrite Ht, Hd, Hr1, Hrd. reflexivity.
Qed.

(* ---- the complete chain: datetime -> fields -> bytes -> fields -> datetime -- *)

(* the only intermediate value NumPy forms when decoding, (EPOCH + seconds)
   scaled to microseconds, is the start of the second containing d *)
Lemma enc_dt_second_start d :
  (EPOCH_S + fst (enc_dt d)) * 1000000 = d / 1000000 * 1000000.
Proof. unfold enc_dt, enc_us, EPOCH_S, TDMS_EPOCH_US. cbn [fst]. lia. Qed.

Theorem ts_roundtrip_bytes d :
  in_i64 (d - TDMS_EPOCH_US) -> - 2 ^ 63 + 1000000 <= d ->
  exists b, wr_ts LE (fst (enc_dt d)) (snd (enc_dt d)) = Some b /\
            forall sf, rd_ts LE b = Some sf ->
                       dec_dt sf = d /\ conv_array Rus (fst sf) (snd sf) = d /\
                       in_i64 ((EPOCH_S + fst sf) * 1000000).
Proof.
  intros Hd Hlow. destruct (enc_us_ranges _ Hd) as [Hs Hf]. fold (enc_dt d) in Hs, Hf.
  destruct (raw_bytes_roundtrip LE _ _ Hf Hs) as (b & Hw & _ & Hr).
  exists b. split; [exact Hw|]. intros sf Hsf. rewrite Hr in Hsf. injection Hsf as <-.
  cbn [fst snd]. split; [|split].
  - unfold dec_dt. cbn [fst snd]. apply dec_enc_dt.
  - apply dec_enc_dt_array. exact Hd.
  - clear Hs Hf Hw Hr. unfold enc_dt, enc_us, in_i64, TDMS_EPOCH_US, EPOCH_S in *. cbn [fst]. lia.
Qed.

(* ---- the unchanged (float) code does not round-trip ------------------------ *)

Lemma asis_frac_roundtrip_refuted :
  exists us, 0 <= us < 1000000 /\ AsIs.dec_frac (AsIs.enc_frac us) <> us.
Proof. exists 1. split; [lia|]. vm_compute. discriminate. Qed.

(* 2020-01-01T00:00:16.000001 = 3660681616000001 us after the TDMS epoch *)
Lemma asis_roundtrip_refuted : exists v, AsIs.dec_us (AsIs.enc_us v) <> v.
Proof. exists 3660681616000001. vm_compute. discriminate. Qed.

(* a ceiling encoder alone is not enough with the float decoder *)
Lemma asis_decoder_refuted :
  exists us, 0 <= us < 1000000 /\ AsIs.dec_frac (- ((- us * 2 ^ 64) / 10 ^ 6)) <> us.
Proof. exists 493. split; [lia|]. vm_compute. discriminate. Qed.

(* ---- time_track over the reals ---------------------------------------------- *)

From Coq Require Import Reals Lra.
From Flocq Require Import Core.Raux.
Local Open Scope R_scope.

Lemma linspace_R_length a b n : length (linspace_R a b n) = n.
Proof.
  destruct n as [|[|k]]; [reflexivity | reflexivity |].
  unfold linspace_R. rewrite map_length, seq_length. reflexivity.
Qed.

Lemma time_track_length o inc n : length (time_track_R o inc n) = n.
Proof. apply linspace_R_length. Qed.

Lemma time_track_0 o inc : time_track_R o inc 0 = [].
Proof. reflexivity. Qed.

Lemma time_track_1 o inc : time_track_R o inc 1 = [o].
Proof. reflexivity. Qed.

Lemma nth_error_seq0 n i : (i < n)%nat -> nth_error (seq 0 n) i = Some i.
Proof.
  intros H. rewrite (nth_error_nth' _ 0%nat) by (rewrite seq_length; exact H).
  rewrite seq_nth by exact H. reflexivity.
Qed.

Lemma time_track_nth o inc n i :
  (i < n)%nat -> nth_error (time_track_R o inc n) i = Some (o + INR i * inc).
Proof.
  intros Hi. destruct n as [|[|k]].
  - inversion Hi.
  - assert (i = 0%nat) by (inversion Hi as [|? H0]; [reflexivity | inversion H0]). subst i.
    cbn. f_equal. lra.
  - unfold time_track_R, linspace_R.
    erewrite map_nth_error by (apply nth_error_seq0; exact Hi). f_equal.
    replace (S (S k) - 1)%nat with (S k) by lia.
    rewrite (S_INR (S k)).
    assert (Hk : INR (S k) <> 0) by (apply not_0_INR; discriminate).
    field. exact Hk.
Qed.

Lemma time_track_spacing o inc n i x y :
  (S i < n)%nat ->
  nth_error (time_track_R o inc n) i = Some x ->
  nth_error (time_track_R o inc n) (S i) = Some y ->
  y - x = inc.
Proof.
  intros Hi Hx Hy.
  rewrite time_track_nth in Hx by (apply Nat.lt_trans with (S i); [apply Nat.lt_succ_diag_r | exact Hi]).
  rewrite time_track_nth in Hy by exact Hi. rewrite S_INR in Hy.
  injection Hx as <-. injection Hy as <-. lra.
Qed.

Lemma Ztrunc_within_one x : Rabs (IZR (Ztrunc x) - x) < 1.
Proof.
  unfold Ztrunc. destruct (Rlt_bool_spec x 0) as [Hneg | Hpos].
  - pose proof (Zceil_ub x) as Hu. pose proof (Zceil_lb x) as Hl.
    apply Rabs_def1; lra.
  - pose proof (Zfloor_lb x) as Hl. pose proof (Zfloor_ub x) as Hu.
    apply Rabs_def1; lra.
Qed.

Lemma time_track_abs_length start r o inc n : length (time_track_abs start r o inc n) = n.
Proof. unfold time_track_abs. rewrite map_length. apply time_track_length. Qed.

Lemma time_track_abs_nth start r o inc n i :
  (i < n)%nat ->
  exists z,
    nth_error (time_track_abs start r o inc n) i = Some z /\
    z = (start + Ztrunc ((o + INR i * inc) * unit_correction r))%Z /\
    Rabs (IZR z - (IZR start + (o + INR i * inc) * unit_correction r)) < 1.
Proof.
  intros Hi. unfold time_track_abs.
  exists (start + Ztrunc ((o + INR i * inc) * unit_correction r))%Z.
  split; [|split; [reflexivity|]].
  - apply (map_nth_error (fun t : R => (start + Ztrunc (t * unit_correction r))%Z) i
                         (time_track_R o inc n)).
    apply time_track_nth. exact Hi.
  - rewrite plus_IZR.
    pose proof (Ztrunc_within_one ((o + INR i * inc) * unit_correction r)) as H.
    replace (IZR start + IZR (Ztrunc ((o + INR i * inc) * unit_correction r)) -
             (IZR start + (o + INR i * inc) * unit_correction r))
      with (IZR (Ztrunc ((o + INR i * inc) * unit_correction r)) - (o + INR i * inc) * unit_correction r)
      by lra.
    exact H.
Qed.
