(* Refinement of the reader model to Model/SpecDaqmx.v -- shared vocabulary.
   [gmk_obj]: the segment object the model holds for an object the specification
   describes by (path, has data, most recent index of either kind).  The
   specification's helper functions are the model's: scale id -> type maps, the bit of
   a digital line, buffer dimensions, directly addressed scaler values. *)
From Coq Require Import List ZArith Bool Lia ZifyBool.
From Coq Require Import Init.Byte.
Import ListNotations.
From NpTdms Require Import Base.Bytes Base.Res Model.Tokens Model.SegState Model.Layout Model.Reader
     Model.FileSyn Model.Spec Model.SpecDaqmx Proofs.SegStateProofs Proofs.DaqmxProofs Proofs.ReadCorrect
     Proofs.ReadCorrectDaqmx Proofs.SpecRefineBase.
Local Open Scope Z_scope.

Definition dq_of (q : dqidx) : dq := mkDq (qi_kind q) (qi_scalers q) (qi_widths q).

Definition gmk_obj (p : bytes) (hd : bool) (oi : option gidx) : sobj :=
  match oi with
  | Some (GP i) => mkSobj p hd (ri_n i) (ri_bytes i) (Some (ri_dt i)) None
  | Some (GQ q) => mkSobj p hd (qi_n q) 0 (Some (qi_dt q)) (Some (dq_of q))
  | None => mkSobj p hd 0 0 None None
  end.

Lemma gmk_obj_plain p hd oi : gmk_obj p hd (option_map GP oi) = mk_obj p hd oi.
Proof. destruct oi; reflexivity. Qed.

Lemma gmk_obj_path p hd oi : so_path (gmk_obj p hd oi) = p.
Proof. destruct oi as [[i|q]|]; reflexivity. Qed.

Lemma gmk_obj_has_data p hd oi : so_has_data (gmk_obj p hd oi) = hd.
Proof. destruct oi as [[i|q]|]; reflexivity. Qed.

Lemma gmk_obj_dtype p hd oi : so_dtype (gmk_obj p hd oi) = option_map gi_dt oi.
Proof. destruct oi as [[i|q]|]; reflexivity. Qed.

Lemma gmk_obj_daqmx p hd oi :
  so_daqmx (gmk_obj p hd oi) = match oi with Some (GQ q) => Some (dq_of q) | _ => None end.
Proof. destruct oi as [[i|q]|]; reflexivity. Qed.

Lemma set_has_data_gmk p hd oi b : set_has_data (gmk_obj p hd oi) b = gmk_obj p b oi.
Proof. destruct oi as [[i|q]|]; reflexivity. Qed.

(* data objects of the two kinds *)
Definition pdobj (o : bytes * rawidx) : sobj := gmk_obj (fst o) true (Some (GP (snd o))).
Definition qdobj (o : bytes * dqidx) : sobj := gmk_obj (fst o) true (Some (GQ (snd o))).

Lemma pdobj_dobj o : pdobj o = dobj o.
Proof. reflexivity. Qed.

(* ---- scale id -> type maps ---------------------------------------------------------- *)

Lemma type_map_scaler_types q : type_map (qi_scalers q) = scaler_types (dq_of q).
Proof. reflexivity. Qed.

Lemma same_map_eqb a b : same_map a b = scaler_types_eqb a b.
Proof. reflexivity. Qed.

Lemma map_sub_refl a : map_sub a a = true.
Proof.
  unfold map_sub. apply forallb_forall. intros kv Hkv. apply existsb_exists. exists kv.
  split; [exact Hkv|]. rewrite !Z.eqb_refl. reflexivity.
Qed.

Lemma same_map_refl a : same_map a a = true.
Proof. unfold same_map. rewrite map_sub_refl. reflexivity. Qed.

(* ---- what an accepted index guarantees ------------------------------------------------- *)

Definition gidx_ok (i : gidx) : Prop :=
  match i with
  | GP i => idx_ok0 i
  | GQ q => qi_dt q = T_DAQMX \/ (qi_dt q <> T_DAQMX /\ exists s, qi_scalers q = [s])
  end.

Lemma new_object_dq_index_of p kind dt dim n scalers widths q :
  dq_index_of kind dt dim n scalers widths = Some q ->
  new_object p (IDaqmx kind dt dim n scalers widths) = Ok (gmk_obj p true (Some (GQ q))).
Proof.
  unfold dq_index_of, new_object, scaler_dt. intros H.
  destruct (dim =? 1) eqn:Edim; cbn [negb] in H |- *; cbv beta iota in H; [|discriminate].
  destruct (tds_size dt) as [sz|] eqn:Esz; [|discriminate].
  destruct (forallb _ scalers) eqn:Eall; cbn [negb] in H |- *; cbv beta iota in H; [|discriminate].
  destruct (dt =? T_DAQMX) eqn:Edq; cbn [orb negb andb] in H |- *.
  - injection H as <-. reflexivity.
  - destruct (match scalers with [s] => _ | _ => false end) eqn:Es; [|discriminate].
    injection H as <-. cbn [negb]. reflexivity.
Qed.

Lemma dq_index_of_ok kind dt dim n scalers widths q :
  dq_index_of kind dt dim n scalers widths = Some q ->
  qi_dt q = dt /\ qi_scalers q = scalers /\ gidx_ok (GQ q).
Proof.
  unfold dq_index_of. intros H.
  destruct (negb (dim =? 1)); [discriminate|].
  destruct (tds_size dt); [|discriminate].
  destruct (negb (forallb _ scalers)); [discriminate|].
  destruct (dt =? T_DAQMX) eqn:Edq; cbn [orb] in H.
  - injection H as <-. cbn [qi_dt qi_scalers gidx_ok]. split; [reflexivity|]. split; [reflexivity|]. left. lia.
  - destruct scalers as [|s [|s' r]]; try discriminate.
    destruct (scaler_dt s); [|discriminate]. destruct (_ =? dt); [|discriminate].
    injection H as <-. cbn [qi_dt qi_scalers gidx_ok]. split; [reflexivity|]. split; [reflexivity|].
    right. split; [lia|]. exists s. reflexivity.
Qed.

(* ---- the bit of a digital line ---------------------------------------------------------- *)

Lemma the_bit_digital_bit bit v : 0 <= bit -> the_bit bit v = digital_bit bit v.
Proof.
  intros Hb. unfold the_bit, digital_bit. f_equal.
  rewrite Z.shiftr_land. f_equal. rewrite Z.shiftr_shiftl_l by exact Hb.
  rewrite Z.sub_diag. reflexivity.
Qed.

(* ---- buffer dimensions and addressed values ---------------------------------------------- *)

Lemma uses_buffer_qdobj o k : uses_buffer (qdobj o) k = q_uses (snd o) k.
Proof. reflexivity. Qed.

Lemma buffer_rows_qdobj qobjs k : buffer_rows (map qdobj qobjs) k = q_rows qobjs k.
Proof.
  unfold buffer_rows, q_rows. induction qobjs as [|o r IH]; [reflexivity|].
  cbn [map fold_right]. rewrite IH, uses_buffer_qdobj. reflexivity.
Qed.

Lemma dims_spec_from_qdobj qobjs : forall widths k,
    dims_spec_from k (map qdobj qobjs) widths = q_dims_from k qobjs widths.
Proof.
  induction widths as [|w r IH]; intros k; [reflexivity|].
  cbn [dims_spec_from q_dims_from]. rewrite buffer_rows_qdobj, IH. reflexivity.
Qed.

Lemma common_widths_qdobj qobjs : common_widths (map qdobj qobjs) = q_widths qobjs.
Proof. destruct qobjs as [|[p q] r]; reflexivity. Qed.

Lemma dims_spec_qdobj qobjs : dims_spec (map qdobj qobjs) = q_dims qobjs.
Proof. unfold dims_spec, q_dims. rewrite common_widths_qdobj. apply dims_spec_from_qdobj. Qed.

Lemma q_chunk_chunk_bytes dims : q_chunk dims = DaqmxProofs.chunk_bytes dims.
Proof. reflexivity. Qed.

Lemma q_base_buffer_base dims k : q_base dims k = buffer_base dims k.
Proof. reflexivity. Qed.

Lemma type_size_tds dt sz : type_size dt = Some sz <-> tds_size dt = Some (Some sz).
Proof.
  unfold type_size. destruct (tds_size dt) as [[s|]|]; split; intros H; try discriminate; congruence.
Qed.

Lemma q_scaler_values_direct e kind dims d j s :
  0 <= sc_off s ->
  q_scaler_values e kind dims d j s = direct_scaler_chunk e kind dims d j s.
Proof.
  intros Hoff. unfold q_scaler_values, direct_scaler_chunk, scaler_dt.
  destruct (nth_error dims (Z.to_nat (sc_buf s))) as [[n w]|]; [|reflexivity].
  destruct (daqmx_type (sc_type s)) as [dt|]; [|reflexivity].
  unfold type_size. destruct (tds_size dt) as [[sz|]|]; try reflexivity.
  apply map_ext. intros i. unfold q_value, scaler_value_at.
  rewrite q_chunk_chunk_bytes, q_base_buffer_base.
  destruct (kind =? DIGITAL_LINE_SCALER); [|reflexivity].
  apply the_bit_digital_bit. apply Z.mod_pos_bound. lia.
Qed.
