(* C04 / C19: the repaired lazy read returns exactly the requested window of the
   channel's data and fetches exactly the chunks that meet the window. *)
From Coq Require Import ZArith List Bool Lia ZifyBool.
From NpTdms Require Import Base.Res Base.PySlice Gen.PySlice_gen Model.LazyRead
     Proofs.LazyReadLemmas Proofs.LazyIndexProofs.
Import ListNotations.
Open Scope Z_scope.

Section Proofs.
  Variable V : Type.
  Variable zero : V.
  Notation segv := (segv V).
  Notation nv := (number_of_segment_values V).

  Definition nums (segs : list segv) : list Z := map nv segs.
  (* number of values the channel holds before segment k *)
  Definition pre (segs : list segv) (k : Z) : Z := psum (nums segs) k.

  Lemma wf_In : forall segs sv, wf V segs = true -> In sv segs -> wf_seg V sv = true.
  Proof. intros segs sv H Hin. unfold wf in H. rewrite forallb_forall in H. apply H. exact Hin. Qed.

  Lemma wf_app : forall a b, wf V (a ++ b) = true -> wf V a = true /\ wf V b = true.
  Proof. intros a b H. unfold wf in *. rewrite forallb_app in H. apply andb_true_iff in H. exact H. Qed.

  Lemma wf_cons : forall sv r, wf V (sv :: r) = true -> wf_seg V sv = true /\ wf V r = true.
  Proof. intros sv r H. unfold wf in *. cbn [forallb] in H. apply andb_true_iff in H. exact H. Qed.

  Lemma nv_nonneg : forall sv, wf_seg V sv = true -> 0 <= nv sv.
  Proof.
    intros sv H. destruct (wf_seg_total V sv H) as [Hlen _]. rewrite <- Hlen. apply zlen_nonneg.
  Qed.

  Lemma nums_nonneg : forall segs, wf V segs = true -> forall x, In x (nums segs) -> 0 <= x.
  Proof.
    intros segs H x Hx. unfold nums in Hx. apply in_map_iff in Hx. destruct Hx as [sv [<- Hin]].
    apply nv_nonneg. eapply wf_In; eauto.
  Qed.

  Lemma seg_nums_eq : forall segs, wf V segs = true -> seg_nums V segs = nums segs.
  Proof.
    intros segs H. unfold seg_nums, nums. apply map_ext_in. intros sv Hin.
    pose proof (nv_nonneg sv (wf_In _ _ H Hin)) as Hnn. cbv zeta.
    destruct (nv sv >? 0) eqn:E; lia.
  Qed.

  Lemma total_values_zsum : forall segs, total_values V segs = zsum (nums segs).
  Proof. induction segs as [|sv r IH]; cbn [total_values nums map zsum]; [reflexivity|]. unfold nums in IH. rewrite IH. reflexivity. Qed.

  Lemma zlen_nums : forall segs, zlen (nums segs) = zlen segs.
  Proof. intros. unfold nums, zlen. rewrite map_length. reflexivity. Qed.

  Lemma zlen_full : forall segs, wf V segs = true -> zlen (full V segs) = total_values V segs.
  Proof.
    induction segs as [|sv r IH]; intros H; [reflexivity|].
    apply wf_cons in H. destruct H as [Hsv Hr].
    unfold full in *. cbn [map concat total_values]. rewrite zlen_app. rewrite IH by exact Hr.
    destruct (wf_seg_total V sv Hsv) as [-> _]. reflexivity.
  Qed.

  Lemma pre_total : forall segs k, zlen segs <= k -> pre segs k = total_values V segs.
  Proof. intros. unfold pre. rewrite psum_all by (rewrite zlen_nums; lia). symmetry. apply total_values_zsum. Qed.

  Lemma pre_mono : forall segs a b, wf V segs = true -> 0 <= a -> a <= b -> pre segs a <= pre segs b.
  Proof. intros. unfold pre. apply psum_mono; try lia. apply nums_nonneg. assumption. Qed.

  Lemma pre_le_total : forall segs k, wf V segs = true -> 0 <= k -> pre segs k <= total_values V segs.
  Proof.
    intros segs k H Hk. destruct (Z_le_gt_dec (zlen segs) k).
    - rewrite pre_total by lia. lia.
    - rewrite <- (pre_total segs (zlen segs)) by lia. apply pre_mono; try lia; assumption.
  Qed.

  (* at a decomposition point: pre = number of values of the prefix *)
  Lemma pre_app : forall a b, pre (a ++ b) (zlen a) = total_values V a.
  Proof.
    intros a b. unfold pre, psum, nums. rewrite map_app. rewrite zfirstn_app.
    replace (zlen a - zlen (map nv a)) with 0 by (unfold zlen; rewrite map_length; lia).
    rewrite zfirstn_all by (unfold zlen; rewrite map_length; lia).
    rewrite zfirstn_nonpos by lia. rewrite app_nil_r. symmetry. apply total_values_zsum.
  Qed.

  Lemma pre_app_succ : forall a sv b, pre (a ++ sv :: b) (zlen a + 1) = total_values V a + nv sv.
  Proof.
    intros a sv b.
    replace (a ++ sv :: b) with ((a ++ [sv]) ++ b) by (rewrite <- app_assoc; reflexivity).
    replace (zlen a + 1) with (zlen (a ++ [sv])) by (rewrite zlen_app; reflexivity).
    rewrite pre_app. rewrite !total_values_zsum. unfold nums. rewrite map_app, zsum_app. cbn [map zsum]. lia.
  Qed.

  Lemma zfirstn_sl : forall {A} j a b (l : list A), 0 <= j -> 0 <= a ->
    zfirstn j (sl a b l) = sl a (Z.min (a + j) b) l.
  Proof.
    intros A j a b l Hj Ha. rewrite <- sl_0. rewrite sl_sl by lia. f_equal. lia.
  Qed.

  Lemma zskipn_sl : forall {A} j a b (l : list A), 0 <= j -> 0 <= a ->
    zskipn j (sl a b l) = sl (a + j) b l.
  Proof.
    intros A j a b l Hj Ha.
    destruct (Z_le_gt_dec b (a + j)).
    - rewrite (sl_nil_ge (a + j)) by lia. apply zskipn_all. rewrite zlen_sl by lia. lia.
    - rewrite <- (sl_clip j (b - a + 1)) by (rewrite zlen_sl by lia; lia).
      rewrite sl_sl by lia. f_equal. lia.
  Qed.

  (* ---- what _build_index computes -------------------------------------- *)

  Record index_ok (segs : list segv) (f : Z) (offs : list Z) : Prop := {
    ix_f0 : 0 <= f;
    ix_fm : f + zlen offs <= zlen segs;
    ix_nth : forall k, 0 <= k -> k < zlen offs ->
                       nth_error offs (Z.to_nat k) = Some (pre segs (f + k + 1));
    ix_pre_f : pre segs f = 0;
    ix_pre_last : pre segs (f + zlen offs) = total_values V segs;
    ix_first_pos : 0 < zlen offs -> 0 < pre segs (f + 1);
    ix_none : zlen offs = 0 -> f = zlen segs;
    ix_sorted : zsorted offs
  }.

  Lemma build_index_ok : forall segs f offs, wf V segs = true ->
    build_index V segs = (f, offs) -> index_ok segs f offs.
  Proof.
    intros segs f offs Hwf Hbi. unfold build_index in Hbi.
    rewrite seg_nums_eq in Hbi by exact Hwf.
    pose proof (nums_nonneg segs Hwf) as Hnn.
    destruct (scan_first_last 0 (nums segs) (-1) (-1)) as [F L] eqn:Hscan.
    destruct (scan_spec (nums segs) 0 (-1) (-1) F L Hnn (Z.le_refl 0) Hscan) as [Hs _].
    specialize (Hs eq_refl). rewrite zlen_nums in Hs.
    pose proof (zlen_nonneg segs) as Hlen.
    destruct Hs as [[HF [HL Hz]]|[HF1 [HFL [HL [Hp0 [Hp1 Hp2]]]]]].
    - subst F L. cbn [Z.eqb] in Hbi. replace (-1 =? -1) with true in Hbi by reflexivity.
      injection Hbi as <- <-.
      rewrite (py_slice_nonneg (nums segs) (zlen segs) (zlen segs + 1)) by lia.
      rewrite sl_beyond by (rewrite zlen_nums; lia). cbn [cumsum].
      constructor; change (zlen (@nil Z)) with 0; try lia; try exact I.
      + rewrite pre_total by lia. rewrite total_values_zsum. exact Hz.
      + rewrite pre_total by lia. reflexivity.
    - replace (F =? -1) with false in Hbi by lia. injection Hbi as <- <-.
      rewrite (py_slice_nonneg (nums segs) F (L + 1)) by lia.
      rewrite !Z.sub_0_r in *.
      assert (Hm : zlen (cumsum 0 (sl F (L + 1) (nums segs))) = L + 1 - F).
      { rewrite cumsum_length. rewrite zlen_sl by lia. rewrite zlen_nums. lia. }
      assert (Hsub : forall j, 0 <= j -> j <= L + 1 - F ->
                psum (sl F (L + 1) (nums segs)) j = pre segs (F + j)).
      { intros j Hj1 Hj2. unfold pre. rewrite (psum_split (nums segs) F (F + j)) by lia.
        unfold psum at 1. rewrite zfirstn_sl by lia. rewrite Hp0.
        replace (Z.min (F + j) (L + 1)) with (F + j) by lia. lia. }
      constructor; rewrite ?Hm; try lia.
      + intros k Hk1 Hk2. rewrite cumsum_nth by (try rewrite zlen_sl by lia; try rewrite zlen_nums; lia).
        rewrite Hsub by lia. replace (F + (k + 1)) with (F + k + 1) by lia. reflexivity.
      + exact Hp0.
      + replace (F + (L + 1 - F)) with (L + 1) by lia. unfold pre. rewrite Hp2. symmetry. apply total_values_zsum.
      + intros _. exact Hp1.
      + apply cumsum_sorted. intros x Hx. apply Hnn. eapply In_sl. exact Hx.
  Qed.

  Lemma lookup_start : forall segs f offs i, index_ok segs f offs ->
    f <= i -> i <= f + zlen offs ->
    (if i =? f then Ok 0 else py_index offs (i - f - 1)) = Ok (pre segs i).
  Proof.
    intros segs f offs i Hix H1 H2. destruct (i =? f) eqn:E.
    - assert (i = f) by lia. subst. rewrite (ix_pre_f _ _ _ Hix). reflexivity.
    - unfold py_index. replace (i - f - 1 <? 0) with false by lia.
      replace ((0 <=? i - f - 1) && (i - f - 1 <? zlen offs)) with true by lia.
      rewrite (ix_nth _ _ _ Hix) by lia. f_equal. f_equal. lia.
  Qed.

  Lemma lookup_end : forall segs f offs i, index_ok segs f offs ->
    f <= i -> i < f + zlen offs ->
    py_index offs (i - f) = Ok (pre segs (i + 1)).
  Proof.
    intros segs f offs i Hix H1 H2. unfold py_index. replace (i - f <? 0) with false by lia.
    replace ((0 <=? i - f) && (i - f <? zlen offs)) with true by lia.
    rewrite (ix_nth _ _ _ Hix) by lia. f_equal. f_equal. lia.
  Qed.

  (* ---- the chunk arithmetic of one loop iteration, without the lookups --- *)

  Definition range_pure (cs N fl S E offset end_index : Z) (is_start is_end : bool) : Z * Z * Z :=
    let '(co, r, nc0) :=
      if is_start then ((offset - S) / cs, (offset - S) mod cs, N - (offset - S) / cs)
      else (0, 0, N) in
    let nc :=
      if is_end then
        let t := E - end_index in
        let '(nc1, t1) := if t >=? fl then (nc0 - 1, t - fl) else (nc0, t) in
        nc1 - t1 / cs
      else nc0 in
    (co, nc, r).

  Lemma seg_chunk_range_pure : forall f offs s e offset end_index i (sv : segv) S E,
    (if i =? f then Ok 0 else py_index offs (i - f - 1)) = Ok S ->
    ((i =? e) = true -> py_index offs (i - f) = Ok E) ->
    seg_chunk_range V true f offs s e offset end_index i sv =
      Ok (range_pure (sv_chunk sv) (sv_nchunks sv) (final_len V sv) S E offset end_index (i =? s) (i =? e)).
  Proof.
    intros f offs s e offset end_index i sv S E H1 H2.
    unfold seg_chunk_range, range_pure, final_len. rewrite H1. cbn [bind].
    destruct (i =? s); destruct (i =? e) eqn:Ee.
    - rewrite (H2 eq_refl). cbn [bind].
      destruct (E - end_index >=? match sv_final sv with Some f0 => f0 | None => sv_chunk sv end); reflexivity.
    - reflexivity.
    - rewrite (H2 eq_refl). cbn [bind].
      destruct (E - end_index >=? match sv_final sv with Some f0 => f0 | None => sv_chunk sv end); reflexivity.
    - reflexivity.
  Qed.

  (* value count of a segment from its shape *)
  Definition shape_values (cs N fl : Z) : Z := if N =? 0 then 0 else (N - 1) * cs + fl.

  Lemma range_pure_spec : forall cs N fl S E offset L end_index (is_start is_end : bool) co nc r,
    0 < cs -> 0 <= N -> 0 <= fl <= cs -> (N = 0 -> fl = cs) ->
    let v := shape_values cs N fl in
    E = S + v -> 0 <= L -> end_index = offset + L ->
    (is_start = true -> S <= offset < E) ->
    (is_start = false -> offset < S <= end_index) ->
    (is_end = true -> end_index <= E) ->
    (is_end = false -> E < end_index) ->
    range_pure cs N fl S E offset end_index is_start is_end = (co, nc, r) ->
    (0 <= co /\ 0 <= nc /\ co + nc <= N) /\
    (co * cs + r = Z.max S offset - S /\ 0 <= r) /\
    ((nc = 0 -> r = 0) /\ (1 <= nc -> r <= Z.min ((co + 1) * cs) v - co * cs)) /\
    (Z.min E end_index - S <= Z.min ((co + nc) * cs) v) /\
    (1 <= nc -> (co + nc - 1) * cs <= end_index - S) /\
    (forall c, 0 <= c < N ->
       (co <= c < co + nc <-> S + c * cs < end_index /\ offset < S + Z.min ((c + 1) * cs) v)) /\
    (is_end = false -> co + nc = N) /\
    co * cs <= v.
  Proof.
    intros cs N fl S E offset L end_index is_start is_end co nc r Hcs HN Hfl HN0 v HE HL Hend
           Hst Hnst Hen Hnen Hrp.
    unfold range_pure in Hrp. subst v. unfold shape_values in *.
    pose proof (Z.div_mod (offset - S) cs ltac:(lia)) as Hdm.
    pose proof (Z.mod_pos_bound (offset - S) cs Hcs) as Hmb.
    set (q0 := (offset - S) / cs) in *. set (r0 := (offset - S) mod cs) in *.
    destruct is_start.
    - specialize (Hst eq_refl). clear Hnst.
      destruct is_end.
      + specialize (Hen eq_refl). clear Hnen.
        destruct (E - end_index >=? fl) eqn:Et.
        * pose proof (Z.div_mod (E - end_index - fl) cs ltac:(lia)) as Hdm1.
          pose proof (Z.mod_pos_bound (E - end_index - fl) cs Hcs) as Hmb1.
          set (q1 := (E - end_index - fl) / cs) in *. set (r1 := (E - end_index - fl) mod cs) in *.
          injection Hrp as <- <- <-.
          destruct (N =? 0) eqn:EN; [lia|].
          assert (Hq0 : 0 <= q0) by nia.
          assert (Hq1 : 0 <= q1) by nia.
          assert (Hqq : q0 + q1 <= N - 1) by nia.
          repeat split; try nia.
        * injection Hrp as <- <- <-.
          replace ((E - end_index) / cs) with 0 by (symmetry; apply Z.div_small; lia).
          destruct (N =? 0) eqn:EN; [lia|].
          assert (Hq0 : 0 <= q0) by nia.
          assert (Hq0N : q0 <= N - 1) by nia.
          repeat split; try nia.
      + specialize (Hnen eq_refl). clear Hen.
        injection Hrp as <- <- <-.
        destruct (N =? 0) eqn:EN; [lia|].
        assert (Hq0 : 0 <= q0) by nia.
        assert (Hq0N : q0 <= N - 1) by nia.
        repeat split; try nia.
    - specialize (Hnst eq_refl). clear Hst.
      destruct is_end.
      + specialize (Hen eq_refl). clear Hnen.
        destruct (E - end_index >=? fl) eqn:Et.
        * pose proof (Z.div_mod (E - end_index - fl) cs ltac:(lia)) as Hdm1.
          pose proof (Z.mod_pos_bound (E - end_index - fl) cs Hcs) as Hmb1.
          set (q1 := (E - end_index - fl) / cs) in *. set (r1 := (E - end_index - fl) mod cs) in *.
          injection Hrp as <- <- <-.
          destruct (N =? 0) eqn:EN; [lia|].
          assert (Hq1 : 0 <= q1) by nia.
          assert (Hqq : q1 <= N - 1) by nia.
          repeat split; try nia.
        * injection Hrp as <- <- <-.
          replace ((E - end_index) / cs) with 0 by (symmetry; apply Z.div_small; lia).
          destruct (N =? 0) eqn:EN.
          -- repeat split; try nia.
          -- repeat split; try nia.
      + specialize (Hnen eq_refl). clear Hen.
        injection Hrp as <- <- <-.
        destruct (N =? 0) eqn:EN.
        -- repeat split; try nia.
        -- repeat split; try nia.
  Qed.

  (* ---- one loop iteration: fetch + inner chunk loop ---------------------- *)

  Lemma zlen_concat_sl : forall (vals : list (list V)) a b, 0 <= a -> a <= b ->
    zlen (concat (sl a b vals)) = plen V vals b - plen V vals a.
  Proof.
    intros vals a b Ha Hab. unfold plen. rewrite (zfirstn_app_sl a b) by lia.
    rewrite zlen_concat_app. lia.
  Qed.

  Lemma nv_shape : forall sv, wf_seg V sv = true ->
    nv sv = shape_values (sv_chunk sv) (sv_nchunks sv) (final_len V sv).
  Proof. intros sv H. destruct (wf_seg_total V sv H) as [_ Hnv]. exact Hnv. Qed.

  Lemma seg_step_spec : forall (sv : segv) S E offset L end_index (is_start is_end : bool) co nc r vr,
    wf_seg V sv = true -> sv_chunk sv <> 0 ->
    E = S + nv sv -> 0 <= L -> end_index = offset + L ->
    (is_start = true -> S <= offset < E) ->
    (is_start = false -> offset < S <= end_index) ->
    (is_end = true -> end_index <= E) ->
    (is_end = false -> E < end_index) ->
    vr = (if is_start then 0 else S - offset) ->
    range_pure (sv_chunk sv) (sv_nchunks sv) (final_len V sv) S E offset end_index is_start is_end
      = (co, nc, r) ->
    exists objs outs vr',
      seg_fetch V sv co nc = Ok objs /\
      emit_chunks V objs true r vr L = (outs, vr') /\
      concat outs = sl (Z.max S offset - S) (Z.min E end_index - S) (seg_vals V sv) /\
      (is_end = false -> vr' = E - offset) /\
      (0 <= co /\ 0 <= nc /\ co + nc <= sv_nchunks sv) /\
      (forall c, 0 <= c < sv_nchunks sv ->
         (co <= c < co + nc <->
          S + c * sv_chunk sv < end_index /\ offset < S + Z.min ((c + 1) * sv_chunk sv) (nv sv))).
  Proof.
    intros sv S E offset L end_index is_start is_end co nc r vr Hwf Hcs0 HE HL Hend Hst Hnst Hen Hnen Hvr Hrp.
    destruct (wf_seg_facts V sv Hwf) as (Hcs & HN & Hlen & Hfl & Hfin & Hok).
    assert (Hcspos : 0 < sv_chunk sv) by lia.
    assert (HN0 : sv_nchunks sv = 0 -> final_len V sv = sv_chunk sv).
    { intros HN0. unfold final_len. destruct (sv_final sv) eqn:Ef; [|reflexivity].
      assert (1 <= sv_nchunks sv) by (apply Hfin; congruence). lia. }
    pose proof (nv_shape sv Hwf) as Hshape.
    rewrite Hshape in HE.
    destruct (range_pure_spec _ _ _ _ _ _ _ _ _ _ _ _ _ Hcspos HN Hfl HN0 HE HL Hend Hst Hnst Hen Hnen Hrp)
      as (R1 & R2 & R3 & R4 & R5 & R6 & R7 & R8).
    rewrite <- Hshape in *. clear Hshape.
    pose proof R1 as R1'. pose proof R6 as R6'.
    set (cs := sv_chunk sv) in *. set (N := sv_nchunks sv) in *. set (v := nv sv) in *.
    destruct R1 as (Hco & Hnc & HcoN). destruct R2 as (Hlo & Hr0). destruct R3 as (Hnc0 & Hnc1).
    assert (Hpl : forall k, 0 <= k -> k <= N -> plen V (sv_vals sv) k = Z.min (k * cs) v).
    { intros k Hk1 Hk2. apply wf_seg_plen; assumption. }
    assert (Hv0 : 0 <= v) by (apply nv_nonneg; exact Hwf).
    (* the chunks fetched *)
    set (chunks := sl co (co + nc) (sv_vals sv)).
    assert (Hmap : mapM (chunk_at V sv) (zrange co (nc + co)) = Ok chunks).
    { replace (nc + co) with (co + nc) by lia. apply mapM_chunk_at'; fold N; lia. }
    assert (Hcat : concat chunks = sl (co * cs) (Z.min ((co + nc) * cs) v) (seg_vals V sv)).
    { unfold chunks. rewrite concat_sl by lia. rewrite !Hpl by lia. unfold seg_vals. f_equal. lia. }
    assert (Hcatlen : zlen (concat chunks) = Z.min ((co + nc) * cs) v - co * cs).
    { unfold chunks. rewrite zlen_concat_sl by lia. rewrite !Hpl by lia. lia. }
    (* the objects yielded, per layout *)
    assert (Hobjs : exists objs, seg_fetch V sv co nc = Ok objs /\ concat objs = concat chunks /\
                                 emit_ok V objs r vr L /\ (objs = [] -> r = 0)).
    { unfold seg_fetch. destruct (sv_interleaved sv).
      - (* one object for the whole range *)
        replace (sv_chunk sv * (nc + co - co) <? 0) with false by (fold cs; nia).
        rewrite Hmap. cbn [bind]. exists [concat chunks]. split; [reflexivity|].
        split; [cbn [concat]; apply app_nil_r|]. split; [|discriminate].
        apply emit_ok_of_last.
        + rewrite Hcatlen. split; [lia|]. destruct (Z.eq_dec nc 0) as [Hz|Hz]; [rewrite (Hnc0 Hz); nia | nia].
        + cbn [removelast concat]. rewrite zlen_nil. destruct is_start; subst vr; [lia|].
          specialize (Hnst eq_refl). lia.
      - (* one object per chunk *)
        rewrite Hmap. exists chunks. split; [reflexivity|]. split; [reflexivity|].
        destruct (Z.eq_dec nc 0) as [Hz|Hz].
        + split; [|intros _; apply Hnc0; exact Hz].
          unfold chunks. rewrite sl_nil_ge by lia. exact I.
        + assert (Hsplit : chunks = sl co (co + 1) (sv_vals sv) ++ sl (co + 1) (co + nc) (sv_vals sv)).
          { unfold chunks. symmetry. apply sl_app_adj; lia. }
          assert (Hone : exists c, sl co (co + 1) (sv_vals sv) = [c]).
          { assert (Hl : zlen (sl co (co + 1) (sv_vals sv)) = 1) by (rewrite zlen_sl by lia; lia).
            destruct (sl co (co + 1) (sv_vals sv)) as [|x [|y t]].
            - rewrite zlen_nil in Hl. lia.
            - eauto.
            - rewrite !zlen_cons in Hl. pose proof (zlen_nonneg t). lia. }
          destruct Hone as [c Hc].
          assert (Hclen : zlen c = Z.min ((co + 1) * cs) v - co * cs).
          { pose proof (zlen_concat_sl (sv_vals sv) co (co + 1) ltac:(lia) ltac:(lia)) as H.
            rewrite Hc in H. cbn [concat] in H. rewrite app_nil_r in H. rewrite H. rewrite !Hpl by lia. lia. }
          split; [|intros Hnil; rewrite Hsplit, Hc in Hnil; discriminate].
          apply emit_ok_of_last.
          * rewrite Hsplit, Hc. cbn [app]. rewrite Hclen. split; [lia|]. apply Hnc1. lia.
          * unfold chunks. rewrite removelast_sl by lia.
            rewrite zlen_concat_sl by lia. rewrite !Hpl by lia.
            assert (R5' : (co + nc - 1) * cs <= end_index - S) by (apply R5; lia).
            destruct is_start; subst vr.
            -- specialize (Hst eq_refl). nia.
            -- specialize (Hnst eq_refl). nia. }
    destruct Hobjs as (objs & Hfetch & Hcobjs & Hemit_ok & Hnil).
    destruct (emit_chunks_spec V objs true r vr L Hemit_ok) as (outs & Hemit & Houts).
    cbv beta iota zeta in Hemit, Houts.
    eexists objs, outs, _. split; [exact Hfetch|]. split; [exact Hemit|].
    split; [| split; [| split; [exact R1' | exact R6']]].
    - rewrite Houts. rewrite Hcobjs, Hcat.
      rewrite zskipn_sl by nia.
      destruct (Z_le_gt_dec 0 (L - vr)) as [Hpos|Hneg].
      + rewrite zfirstn_sl by nia.
        f_equal; [lia|].
        destruct is_start; subst vr.
        * specialize (Hst eq_refl). lia.
        * specialize (Hnst eq_refl). lia.
      + rewrite zfirstn_nonpos by lia. symmetry. apply sl_nil_ge.
        destruct is_start; subst vr.
        * specialize (Hst eq_refl). lia.
        * specialize (Hnst eq_refl). lia.
    - intros Hne. specialize (R7 Hne). specialize (Hnen Hne).
      rewrite Hcobjs, Hcatlen.
      assert (Hsk : match objs with [] => 0 | _ :: _ => r end = r).
      { destruct objs; [symmetry; apply Hnil; reflexivity | reflexivity]. }
      rewrite Hsk.
      assert (Hfull : Z.min ((co + nc) * cs) v = v).
      { rewrite R7. destruct (wf_seg_total V sv Hwf) as [_ Hnv]. fold v N cs in Hnv.
        destruct (N =? 0) eqn:EN; nia. }
      rewrite Hfull.
      destruct is_start; subst vr.
      + specialize (Hst eq_refl). lia.
      + specialize (Hnst eq_refl). lia.
  Qed.

End Proofs.
