(* Proofs/SensorsRoundBase.v -- a small calculus for bounding the rounding error of a
   straight-line binary64 computation (+, -, *, /, sqrt, unary minus) against the same
   expression over the reals, used for the sensor scalings (Model/SensorsF.v against
   Model/SensorsR.v).

   Vocabulary and per-operation model are those of Proofs/HornerRound.v:
   FR x = B2R (Prim2B x), Ffin, u64 = 2^-53, eta64 = 2^-1075, ovf64 = 2^1024,
   |rnd z - z| <= u64 |z| + eta64 (round to nearest even, gradual underflow; Flocq
   error_N_FLT), the bridge from primitive floats is Flocq's IEEE754/PrimFloat.v, overflow
   is excluded through Bplus_correct / Bminus_correct / Bmult_correct / Bdiv_correct, the
   square root is the correctly rounded one (sqrt_equiv, Bsqrt_correct).

       fnear f x E M   :=   f is finite,  |FR f - x| <= E,  |x| <= M

   "the float f approximates the real x to within E, and x is at most M in magnitude".
   One lemma per operation: from fnear of the operands to fnear of the result, the new error
   being (propagated error) + u64 (M + propagated error) + eta64; the caller gives the
   magnitude bound M of the exact result (from the parameter ranges) and an upper bound E' of
   the new error, and proves the two numeric side conditions (lra / interval). *)
From Coq Require Import Reals ZArith List Lra Lia.
From Coq Require Import PrimFloat.
From Flocq Require Import Core BinarySingleNaN Relative.
From Flocq Require IEEE754.PrimFloat.
From Interval Require Import Tactic.
From NpTdms Require Import Proofs.HornerRound.
Open Scope R_scope.

(* ---- float operations not in HornerRound.v ---------------------------------------------------- *)

Lemma fsub_ok : forall a b, Ffin a -> Ffin b ->
  Rabs (rnd (FR a - FR b)) < ovf64 ->
  Ffin (a - b)%float /\ FR (a - b)%float = rnd (FR a - FR b).
Proof.
  intros a b Ha Hb Hov. unfold Ffin, FR in *. rewrite FP.sub_equiv.
  pose proof (Bminus_correct _ _ FP.Hprec FP.Hmax mode_NE (FP.Prim2B a) (FP.Prim2B b) Ha Hb) as H.
  rewrite ovf64_bpow in Hov. unfold rnd in Hov. change 1024%Z with FloatOps.emax in Hov.
  rewrite (Rlt_bool_true _ _ Hov) in H. destruct H as [H1 [H2 _]].
  split; [exact H2|exact H1].
Qed.

Lemma fdiv_ok : forall a b, Ffin a -> Ffin b -> FR b <> 0 ->
  Rabs (rnd (FR a / FR b)) < ovf64 ->
  Ffin (a / b)%float /\ FR (a / b)%float = rnd (FR a / FR b).
Proof.
  intros a b Ha Hb Hnz Hov. unfold Ffin, FR in *. rewrite FP.div_equiv.
  pose proof (Bdiv_correct _ _ FP.Hprec FP.Hmax mode_NE (FP.Prim2B a) (FP.Prim2B b) Hnz) as H.
  rewrite ovf64_bpow in Hov. unfold rnd in Hov. change 1024%Z with FloatOps.emax in Hov.
  rewrite (Rlt_bool_true _ _ Hov) in H. destruct H as [H1 [H2 _]].
  split; [rewrite H2; exact Ha|exact H1].
Qed.

Lemma fopp_ok : forall a, Ffin a -> Ffin (- a)%float /\ FR (- a)%float = - FR a.
Proof.
  intros a Ha. unfold Ffin, FR in *. rewrite FP.opp_equiv.
  split; [rewrite is_finite_Bopp; exact Ha|apply B2R_Bopp].
Qed.

(* the square root of a finite non-negative float is finite and correctly rounded *)
Lemma fsqrt_ok : forall a, Ffin a -> 0 <= FR a ->
  Ffin (PrimFloat.sqrt a) /\ FR (PrimFloat.sqrt a) = rnd (R_sqrt.sqrt (FR a)).
Proof.
  intros a Ha Hpos. unfold Ffin, FR in *. rewrite FP.sqrt_equiv.
  destruct (Bsqrt_correct _ _ FP.Hprec FP.Hmax mode_NE (FP.Prim2B a)) as [H1 [H2 _]].
  split; [|exact H1].
  rewrite H2. destruct (FP.Prim2B a) as [s|s| |s m e Hb]; try reflexivity; try discriminate.
  destruct s; [|reflexivity].
  exfalso. cbn [B2R] in Hpos.
  assert (Hneg : F2R (Float radix2 (SpecFloat.cond_Zopp true (Zpos m)) e) < 0).
  { apply F2R_lt_0. simpl. lia. }
  lra.
Qed.

Lemma leb_of_FR : forall a b, Ffin a -> Ffin b -> FR a <= FR b -> (a <=? b)%float = true.
Proof.
  intros a b Ha Hb H. rewrite FP.leb_equiv. rewrite (Bleb_correct _ _ _ _ Ha Hb).
  apply Rle_bool_true. exact H.
Qed.

Lemma feqb_zero_true : forall x, Ffin x -> (x =? 0)%float = true -> FR x = 0.
Proof.
  intros x Hx H. rewrite FP.eqb_equiv in H.
  rewrite (Beqb_correct _ _ _ _ Hx Ffin_zero) in H. fold (FR x) in H. fold (FR 0%float) in H.
  rewrite FR_zero in H. destruct (Req_bool_spec (FR x) 0); [assumption|discriminate].
Qed.

(* ---- constants ----------------------------------------------------------------------------- *)

Lemma u64_val : u64 = / 9007199254740992.
Proof. unfold u64, Q2R. simpl. lra. Qed.

Lemma eta64_small : eta64 <= 1e-300.
Proof. unfold eta64. interval. Qed.

Lemma rnd_lt_ovf : forall z, Rabs z <= 1e300 -> Rabs (rnd z) < ovf64.
Proof.
  intros z Hz. apply Rle_lt_trans with (1 := rnd_abs z).
  pose proof u64_pos as Hu. pose proof eta64_small as He.
  apply Rle_lt_trans with (1e300 * (1 + u64) + 1e-300).
  - apply Rplus_le_compat; [|exact He]. apply Rmult_le_compat_r; lra.
  - unfold u64, ovf64. interval.
Qed.

Lemma FR_one : FR 1%float = 1. Proof. fr_lit. Qed.
Lemma FR_two : FR 2%float = 2. Proof. fr_lit. Qed.
Lemma FR_four : FR 4%float = 4. Proof. fr_lit. Qed.
Lemma FR_mtwo : FR (-2)%float = -2. Proof. fr_lit. Qed.
Lemma FR_mhalf : FR (-0x1p-1)%float = - (1 / 2). Proof. fr_lit. Qed.
Lemma Ffin_one : Ffin 1%float. Proof. apply Ffin_prim. reflexivity. Qed.
Lemma Ffin_two : Ffin 2%float. Proof. apply Ffin_prim. reflexivity. Qed.
Lemma Ffin_four : Ffin 4%float. Proof. apply Ffin_prim. reflexivity. Qed.
Lemma Ffin_mtwo : Ffin (-2)%float. Proof. apply Ffin_prim. reflexivity. Qed.
Lemma Ffin_mhalf : Ffin (-0x1p-1)%float. Proof. apply Ffin_prim. reflexivity. Qed.

(* ---- the predicate ---------------------------------------------------------------------------- *)

Definition fnear (f : float) (x E M : R) : Prop :=
  Ffin f /\ Rabs (FR f - x) <= E /\ Rabs x <= M.

Lemma fnear_in : forall f M, Ffin f -> Rabs (FR f) <= M -> fnear f (FR f) 0 M.
Proof.
  intros f M Hf HM. split; [exact Hf|]. split; [|exact HM].
  replace (FR f - FR f) with 0 by ring. rewrite Rabs_R0. apply Rle_refl.
Qed.

Lemma fnear_weaken : forall f x E M E' M', fnear f x E M -> E <= E' -> M <= M' -> fnear f x E' M'.
Proof. intros f x E M E' M' [Hf [He Hm]] H1 H2. split; [exact Hf|]. split; lra. Qed.

Lemma fnear_eq : forall f x y E M, fnear f x E M -> x = y -> fnear f y E M.
Proof. intros f x y E M H <-. exact H. Qed.

Lemma fnear_E_nonneg : forall f x E M, fnear f x E M -> 0 <= E.
Proof. intros f x E M [_ [He _]]. apply Rle_trans with (2 := He). apply Rabs_pos. Qed.

Lemma fnear_M_nonneg : forall f x E M, fnear f x E M -> 0 <= M.
Proof. intros f x E M [_ [_ Hm]]. apply Rle_trans with (2 := Hm). apply Rabs_pos. Qed.

(* the float value itself is bounded by M + E *)
Lemma fnear_abs : forall f x E M, fnear f x E M -> Rabs (FR f) <= M + E.
Proof.
  intros f x E M [_ [He Hm]]. replace (FR f) with ((FR f - x) + x) by ring.
  apply Rle_trans with (1 := Rabs_triang _ _). lra.
Qed.

(* ---- one rounding on top of a propagated error --------------------------------------------- *)

(* z: what the float operation rounds; x: the exact value; Ez: |z - x| *)
Lemma rnd_near : forall z x Ez M E',
  Rabs (z - x) <= Ez -> Rabs x <= M ->
  Ez + u64 * (M + Ez) + eta64 <= E' ->
  Rabs (rnd z - x) <= E' /\ Rabs z <= M + Ez.
Proof.
  intros z x Ez M E' Hz Hx HE.
  assert (Hza : Rabs z <= M + Ez).
  { replace z with ((z - x) + x) by ring. apply Rle_trans with (1 := Rabs_triang _ _). lra. }
  split; [|exact Hza].
  replace (rnd z - x) with ((rnd z - z) + (z - x)) by ring.
  apply Rle_trans with (1 := Rabs_triang _ _).
  pose proof (rnd_error z) as Hr. pose proof u64_pos as Hu.
  assert (u64 * Rabs z <= u64 * (M + Ez)) by (apply Rmult_le_compat_l; lra).
  lra.
Qed.

(* ---- the operations ---------------------------------------------------------------------------- *)

Lemma fnear_opp : forall a x E M, fnear a x E M -> fnear (- a)%float (- x) E M.
Proof.
  intros a x E M [Ha [He Hm]]. destruct (fopp_ok a Ha) as [Hf Hv].
  split; [exact Hf|]. rewrite Hv. split.
  - replace (- FR a - - x) with (- (FR a - x)) by ring. rewrite Rabs_Ropp. exact He.
  - rewrite Rabs_Ropp. exact Hm.
Qed.

Lemma fnear_add : forall a b x y Ea Ma Eb Mb M E',
  fnear a x Ea Ma -> fnear b y Eb Mb ->
  Rabs (x + y) <= M ->
  (Ea + Eb) + u64 * (M + (Ea + Eb)) + eta64 <= E' ->
  M + (Ea + Eb) <= 1e300 ->
  fnear (a + b)%float (x + y) E' M.
Proof.
  intros a b x y Ea Ma Eb Mb M E' [Ha [Hea _]] [Hb [Heb _]] HM HE Hbig.
  assert (Hz : Rabs ((FR a + FR b) - (x + y)) <= Ea + Eb).
  { replace (FR a + FR b - (x + y)) with ((FR a - x) + (FR b - y)) by ring.
    apply Rle_trans with (1 := Rabs_triang _ _). lra. }
  destruct (rnd_near _ _ _ _ _ Hz HM HE) as [H1 H2].
  destruct (add_ok a b Ha Hb) as [Hf Hv]; [apply rnd_lt_ovf; lra|].
  split; [exact Hf|]. rewrite Hv. split; assumption.
Qed.

Lemma fnear_sub : forall a b x y Ea Ma Eb Mb M E',
  fnear a x Ea Ma -> fnear b y Eb Mb ->
  Rabs (x - y) <= M ->
  (Ea + Eb) + u64 * (M + (Ea + Eb)) + eta64 <= E' ->
  M + (Ea + Eb) <= 1e300 ->
  fnear (a - b)%float (x - y) E' M.
Proof.
  intros a b x y Ea Ma Eb Mb M E' [Ha [Hea _]] [Hb [Heb _]] HM HE Hbig.
  assert (Hz : Rabs ((FR a - FR b) - (x - y)) <= Ea + Eb).
  { replace (FR a - FR b - (x - y)) with ((FR a - x) + - (FR b - y)) by ring.
    apply Rle_trans with (1 := Rabs_triang _ _). rewrite Rabs_Ropp. lra. }
  destruct (rnd_near _ _ _ _ _ Hz HM HE) as [H1 H2].
  destruct (fsub_ok a b Ha Hb) as [Hf Hv]; [apply rnd_lt_ovf; lra|].
  split; [exact Hf|]. rewrite Hv. split; assumption.
Qed.

Lemma fnear_mul : forall a b x y Ea Ma Eb Mb M E',
  fnear a x Ea Ma -> fnear b y Eb Mb ->
  Rabs (x * y) <= M ->
  (Ea * (Mb + Eb) + Ma * Eb) + u64 * (M + (Ea * (Mb + Eb) + Ma * Eb)) + eta64 <= E' ->
  M + (Ea * (Mb + Eb) + Ma * Eb) <= 1e300 ->
  fnear (a * b)%float (x * y) E' M.
Proof.
  intros a b x y Ea Ma Eb Mb M E' Hna Hnb HM HE Hbig.
  pose proof (fnear_abs _ _ _ _ Hnb) as Hbabs.
  pose proof (fnear_E_nonneg _ _ _ _ Hna) as HEa0.
  pose proof (fnear_E_nonneg _ _ _ _ Hnb) as HEb0.
  destruct Hna as [Ha [Hea Hma]]. destruct Hnb as [Hb [Heb Hmb]].
  assert (Hz : Rabs (FR a * FR b - x * y) <= Ea * (Mb + Eb) + Ma * Eb).
  { replace (FR a * FR b - x * y) with ((FR a - x) * FR b + x * (FR b - y)) by ring.
    apply Rle_trans with (1 := Rabs_triang _ _). rewrite !Rabs_mult.
    apply Rplus_le_compat; apply Rmult_le_compat; try apply Rabs_pos; assumption. }
  destruct (rnd_near _ _ _ _ _ Hz HM HE) as [H1 H2].
  destruct (mul_ok a b Ha Hb) as [Hf Hv]; [apply rnd_lt_ovf; lra|].
  split; [exact Hf|]. rewrite Hv. split; assumption.
Qed.

(* division: mb is a lower bound of |y|, Mq an upper bound of |x / y| *)
Lemma fnear_div : forall a b x y Ea Ma Eb Mb mb M E',
  fnear a x Ea Ma -> fnear b y Eb Mb ->
  mb <= Rabs y -> Eb < mb ->
  Rabs (x / y) <= M ->
  ((Ea + M * Eb) / (mb - Eb)) + u64 * (M + ((Ea + M * Eb) / (mb - Eb))) + eta64 <= E' ->
  M + ((Ea + M * Eb) / (mb - Eb)) <= 1e300 ->
  fnear (a / b)%float (x / y) E' M.
Proof.
  intros a b x y Ea Ma Eb Mb mb M E' Hna Hnb Hmb HEb HM HE Hbig.
  pose proof (fnear_E_nonneg _ _ _ _ Hna) as HEa0.
  pose proof (fnear_E_nonneg _ _ _ _ Hnb) as HEb0.
  destruct Hna as [Ha [Hea Hma]]. destruct Hnb as [Hb [Heb Hmb']].
  assert (Hy0 : y <> 0).
  { intro Hc. rewrite Hc, Rabs_R0 in Hmb. lra. }
  assert (Hfb : mb - Eb <= Rabs (FR b)).
  { replace y with (FR b + - (FR b - y)) in Hmb by ring.
    pose proof (Rabs_triang (FR b) (- (FR b - y))) as Ht. rewrite Rabs_Ropp in Ht. lra. }
  assert (Hb0 : FR b <> 0).
  { intro Hc. rewrite Hc, Rabs_R0 in Hfb. lra. }
  assert (HM0 : 0 <= M) by (apply Rle_trans with (2 := HM); apply Rabs_pos).
  assert (Hz : Rabs (FR a / FR b - x / y) <= (Ea + M * Eb) / (mb - Eb)).
  { replace (FR a / FR b - x / y) with (((FR a - x) - (x / y) * (FR b - y)) / FR b)
      by (field; split; assumption).
    unfold Rdiv at 1. rewrite Rabs_mult, Rabs_inv.
    apply Rle_trans with ((Ea + M * Eb) * / Rabs (FR b)).
    - apply Rmult_le_compat_r; [apply Rlt_le, Rinv_0_lt_compat; lra|].
      apply Rle_trans with (1 := Rabs_triang _ _). rewrite Rabs_Ropp, Rabs_mult.
      apply Rplus_le_compat; [exact Hea|].
      apply Rmult_le_compat; try apply Rabs_pos; assumption.
    - unfold Rdiv. apply Rmult_le_compat_l.
      + assert (0 <= M * Eb) by (apply Rmult_le_pos; assumption). lra.
      + apply Rinv_le_contravar; lra. }
  destruct (rnd_near _ _ _ _ _ Hz HM HE) as [H1 H2].
  destruct (fdiv_ok a b Ha Hb Hb0) as [Hf Hv]; [apply rnd_lt_ovf; lra|].
  split; [exact Hf|]. rewrite Hv. split; assumption.
Qed.

(* division by an exact positive float whose value is not a numeral (a resistance):
   the propagated error is given as a multiple of the divisor *)
Lemma fnear_div_exact_den : forall a b x Ea Ma Ez M E',
  fnear a x Ea Ma -> Ffin b -> 0 < FR b ->
  Ea <= Ez * FR b ->
  Rabs (x / FR b) <= M ->
  Ez + u64 * (M + Ez) + eta64 <= E' ->
  M + Ez <= 1e300 ->
  fnear (a / b)%float (x / FR b) E' M.
Proof.
  intros a b x Ea Ma Ez M E' [Ha [Hea Hma]] Hb Hb0 HEz HM HE Hbig.
  assert (Hz : Rabs (FR a / FR b - x / FR b) <= Ez).
  { replace (FR a / FR b - x / FR b) with ((FR a - x) / FR b) by (field; lra).
    unfold Rdiv. rewrite Rabs_mult, Rabs_inv, (Rabs_pos_eq (FR b)) by lra.
    apply Rmult_le_reg_r with (FR b); [exact Hb0|].
    rewrite Rmult_assoc, Rinv_l by lra. lra. }
  destruct (rnd_near _ _ _ _ _ Hz HM HE) as [H1 H2].
  destruct (fdiv_ok a b Ha Hb) as [Hf Hv]; [lra|apply rnd_lt_ovf; lra|].
  split; [exact Hf|]. rewrite Hv. split; assumption.
Qed.

(* |sqrt x - sqrt y| <= |x - y| / k  when  k^2 <= y *)
Lemma sqrt_lipschitz : forall x y k, 0 <= x -> 0 < k -> k * k <= y ->
  Rabs (R_sqrt.sqrt x - R_sqrt.sqrt y) <= Rabs (x - y) / k.
Proof.
  intros x y k Hx Hk Hy.
  assert (Hy0 : 0 < y) by nra.
  assert (Hsy : k <= R_sqrt.sqrt y).
  { rewrite <- (sqrt_square k) by lra. apply sqrt_le_1_alt. exact Hy. }
  pose proof (sqrt_pos x) as Hsx.
  assert (Hsum : 0 < R_sqrt.sqrt x + R_sqrt.sqrt y) by lra.
  assert (Hx2 : x = R_sqrt.sqrt x * R_sqrt.sqrt x) by (symmetry; apply sqrt_sqrt; lra).
  assert (Hy2 : y = R_sqrt.sqrt y * R_sqrt.sqrt y) by (symmetry; apply sqrt_sqrt; lra).
  replace (R_sqrt.sqrt x - R_sqrt.sqrt y) with ((x - y) / (R_sqrt.sqrt x + R_sqrt.sqrt y)).
  2:{ set (sx := R_sqrt.sqrt x) in *. set (sy := R_sqrt.sqrt y) in *.
      rewrite Hx2, Hy2. field. lra. }
  unfold Rdiv. rewrite Rabs_mult, Rabs_inv, (Rabs_pos_eq (R_sqrt.sqrt x + R_sqrt.sqrt y)) by lra.
  apply Rmult_le_compat_l; [apply Rabs_pos|].
  apply Rinv_le_contravar; lra.
Qed.

(* square root: k^2 <= x <= M^2 *)
Lemma fnear_sqrt : forall a x Ea Ma k M E',
  fnear a x Ea Ma ->
  0 < k -> k * k <= x -> Ea <= k * k -> 0 <= M -> x <= M * M ->
  (Ea / k) + u64 * (M + Ea / k) + eta64 <= E' ->
  M + Ea / k <= 1e300 ->
  fnear (PrimFloat.sqrt a) (R_sqrt.sqrt x) E' M.
Proof.
  intros a x Ea Ma k M E' [Ha [Hea Hma]] Hk Hkx HEk HM0 HxM HE Hbig.
  assert (Ha0 : 0 <= FR a).
  { apply Rabs_le_inv in Hea. lra. }
  assert (Hz : Rabs (R_sqrt.sqrt (FR a) - R_sqrt.sqrt x) <= Ea / k).
  { apply Rle_trans with (1 := sqrt_lipschitz _ _ _ Ha0 Hk Hkx).
    unfold Rdiv. apply Rmult_le_compat_r; [apply Rlt_le, Rinv_0_lt_compat; exact Hk|exact Hea]. }
  assert (HMx : Rabs (R_sqrt.sqrt x) <= M).
  { rewrite Rabs_pos_eq by apply sqrt_pos. rewrite <- (sqrt_square M) by exact HM0.
    apply sqrt_le_1_alt. exact HxM. }
  destruct (rnd_near _ _ _ _ _ Hz HMx HE) as [H1 H2].
  destruct (fsqrt_ok a Ha Ha0) as [Hf Hv].
  split; [exact Hf|]. rewrite Hv. split; assumption.
Qed.

(* division of two input floats (no propagated error); M may be symbolic *)
Lemma fnear_div_exact : forall a b M E',
  Ffin a -> Ffin b -> FR b <> 0 ->
  Rabs (FR a / FR b) <= M ->
  u64 * M + eta64 <= E' ->
  M <= 1e300 ->
  fnear (a / b)%float (FR a / FR b) E' M.
Proof.
  intros a b M E' Ha Hb Hb0 HM HE Hbig.
  assert (Hz : Rabs (FR a / FR b - FR a / FR b) <= 0).
  { replace (FR a / FR b - FR a / FR b) with 0 by ring. rewrite Rabs_R0. apply Rle_refl. }
  assert (HE0 : 0 + u64 * (M + 0) + eta64 <= E') by lra.
  destruct (rnd_near _ _ _ _ _ Hz HM HE0) as [H1 H2].
  destruct (fdiv_ok a b Ha Hb Hb0) as [Hf Hv]; [apply rnd_lt_ovf; lra|].
  split; [exact Hf|]. rewrite Hv. split; assumption.
Qed.

(* the literals *)
Lemma fnear_lit : forall f x M, Ffin f -> FR f = x -> Rabs x <= M -> fnear f x 0 M.
Proof.
  intros f x M Hf Hx HM. split; [exact Hf|]. rewrite Hx. split; [|exact HM].
  replace (x - x) with 0 by ring. rewrite Rabs_R0. apply Rle_refl.
Qed.
Lemma fnear_one : fnear 1%float 1 0 1.
Proof. apply fnear_lit; [apply Ffin_one|apply FR_one|apply Rabs_le; lra]. Qed.
Lemma fnear_two : fnear 2%float 2 0 2.
Proof. apply fnear_lit; [apply Ffin_two|apply FR_two|apply Rabs_le; lra]. Qed.
Lemma fnear_four : fnear 4%float 4 0 4.
Proof. apply fnear_lit; [apply Ffin_four|apply FR_four|apply Rabs_le; lra]. Qed.
Lemma fnear_mtwo : fnear (-2)%float (-2) 0 2.
Proof. apply fnear_lit; [apply Ffin_mtwo|apply FR_mtwo|apply Rabs_le; lra]. Qed.
Lemma fnear_mhalf : fnear (-0x1p-1)%float (- (1 / 2)) 0 (1 / 2).
Proof. apply fnear_lit; [apply Ffin_mhalf|apply FR_mhalf|apply Rabs_le; lra]. Qed.

(* magnitude bounds of products and quotients *)
Lemma Rabs_mul_le : forall x y a b, Rabs x <= a -> Rabs y <= b -> Rabs (x * y) <= a * b.
Proof.
  intros x y a b Hx Hy. rewrite Rabs_mult. apply Rmult_le_compat; try apply Rabs_pos; assumption.
Qed.

Lemma Rabs_div_le : forall x y a m, Rabs x <= a -> 0 < m -> m <= Rabs y -> Rabs (x / y) <= a / m.
Proof.
  intros x y a m Hx Hm Hy.
  assert (Hy0 : y <> 0) by (intro Hc; rewrite Hc, Rabs_R0 in Hy; lra).
  unfold Rdiv. rewrite Rabs_mult, Rabs_inv.
  apply Rmult_le_compat; try apply Rabs_pos.
  - apply Rlt_le, Rinv_0_lt_compat. lra.
  - exact Hx.
  - apply Rinv_le_contravar; lra.
Qed.

Lemma Rabs_le_of : forall x lo hi M, lo <= x <= hi -> - M <= lo -> hi <= M -> Rabs x <= M.
Proof. intros x lo hi M Hx H1 H2. apply Rabs_le. lra. Qed.

Lemma Rdiv_between : forall x c lo hi, 0 < c -> lo * c <= x <= hi * c -> lo <= x / c <= hi.
Proof.
  intros x c lo hi Hc [H1 H2]. assert (Hi : 0 < / c) by (apply Rinv_0_lt_compat; exact Hc).
  unfold Rdiv. split.
  - replace lo with (lo * c * / c) by (field; lra). apply Rmult_le_compat_r; lra.
  - replace hi with (hi * c * / c) by (field; lra). apply Rmult_le_compat_r; lra.
Qed.

(* numeric side conditions: constants only *)
Ltac fnum := unfold u64, eta64; interval with (i_prec 80).
