(* The SEGMENT-LEVEL generator of the lazy per-channel read, TRANSLATED from the source on every run
   (Gen/PyFuncsLazySeg.v; harness/gen/gen_pyfuncs_lazyseg.py: TdmsSegment._read_channel_data_chunks with the base
   generator inlined / the list variant, TdmsSegment.read_raw_data_for_channel, BaseDataReader._read_channel_data_chunk as
   inherited by DaqmxDataReader): which reader runs, and the loop with its re-seeks as the per-chunk readers run at the
   arithmetic positions  initial_position + i * chunk_size. *)
From Coq Require Import String Ascii.
From Coq Require Import ZArith List Bool Lia ZifyBool.
From Coq Require Import Init.Byte.
Import ListNotations.
From NpTdms Require Import Base.Bytes Base.Res Base.PySlice Model.Tokens Model.SegState Model.Layout Model.Reader
     Gen.TypeTable Gen.PyFuncsReader Gen.PyFuncsDecode Gen.PyFuncsDaqmxRead Gen.PyFuncsDaqmxLoop Gen.PyFuncsEagerLoop
     Gen.PyFuncsLazySeg
     Proofs.SegStateProofs Proofs.LayoutProofs Proofs.GenReaderEquiv Proofs.GenDecodeEquiv Proofs.GenDecodeRecv
     Proofs.GenDaqmxEquiv Proofs.GenDaqmxLoopEquiv Proofs.GenEagerEquiv.
Local Open Scope Z_scope.
Ltac Zify.zify_post_hook ::= Z.to_euclidean_division_equations.

(* ---- which variant, which per-chunk reader: by the segment's layout -------------------------------------------------------- *)

Theorem segment_read_channel_data_chunks_dispatch sg f objs path co stop cs :
  segment_read_channel_data_chunks_gen sg f objs path co stop cs
  = do lay <- seg_layout sg;
    match lay with
    | LInterleaved => segment_read_channel_data_chunks_list_gen sg f objs path co stop cs
    | _ => segment_read_channel_data_chunks_lazy_gen sg f objs path co stop cs
    end.
Proof.
  unfold segment_read_channel_data_chunks_gen. rewrite get_data_reader_eq.
  destruct (seg_layout sg) as [[| |]|e]; reflexivity.
Qed.

Lemma reader_chunk_contig sg f objs ci path :
  reader_read_channel_data_chunk_gen (reader_of sg LContig) f objs ci path
  = contig_read_channel_data_chunk_gen (sg_nchunks sg) (sg_final sg) (toc_endian (sg_toc sg)) f objs ci path.
Proof. unfold reader_read_channel_data_chunk_gen, reader_of. cbn [layout_code Z.eqb]. rewrite dr_endian_flag. reflexivity. Qed.

Lemma reader_chunk_daqmx sg f objs ci path :
  reader_read_channel_data_chunk_gen (reader_of sg LDaqmx) f objs ci path
  = pf_run (fun cur => daqmx_read_channel_data_chunk_gen (sg_nchunks sg) (sg_final sg) (toc_endian (sg_toc sg)) cur objs ci path) f.
Proof. unfold reader_read_channel_data_chunk_gen, reader_of. cbn [layout_code Z.eqb]. rewrite dr_endian_flag. reflexivity. Qed.

(* BaseDataReader._read_channel_data_chunk of a DaqmxDataReader: the whole chunk, then the channel's entry *)
Theorem daqmx_read_channel_data_chunk_eq nc fin e cur objs ci path :
  daqmx_read_channel_data_chunk_gen nc fin e cur objs ci path
  = do '(rc, f) <- daqmx_read_data_chunk_gen e cur objs ci; Ok (channel_of_chunk rc path, f).
Proof.
  unfold daqmx_read_channel_data_chunk_gen.
  destruct (daqmx_read_data_chunk_gen e cur objs ci) as [[rc f]|er]; cbn [bind]; [|reflexivity].
  rewrite data_chunk_to_channel_chunk_eq. reflexivity.
Qed.

(* ---- variant G on a contiguous segment: the per-chunk reads at the arithmetic positions ------------------------------------- *)

(* the values the sequential model reads for the channel in chunk [ci] when the chunk starts at [pos] (no such object:
   no values) *)
Definition chunk_view (e : endian) (objs : list sobj) (nc : Z) (fin : option (alist Z)) (path data : bytes) (pos ci : Z)
  : res (list bytes) :=
  do '(o, _) <- seq_channel_chunk e objs ci nc fin path (drop pos data);
  Ok (match o with Some vs => vs | None => [] end).

(* chunk k of the request (chunk index ci) is read at  init + i * cs *)
Fixpoint pos_chunks (e : endian) (objs : list sobj) (nc : Z) (fin : option (alist Z)) (path data : bytes) (init cs : Z)
         (cis : list Z) (i : Z) : res (list (list bytes)) :=
  match cis with
  | [] => Ok []
  | ci :: r =>
    do vs <- chunk_view e objs nc fin path data (init + i * cs) ci;
    do rest <- pos_chunks e objs nc fin path data init cs r (i + 1);
    Ok (vs :: rest)
  end.

(* the declared sizes are the real sizes (Proofs/GenDecodeEquiv.v sizes_real) in every chunk read, at its position *)
Fixpoint all_sizes_real (e : endian) (objs : list sobj) (nc : Z) (fin : option (alist Z)) (path data : bytes) (init cs : Z)
         (cis : list Z) (i : Z) : Prop :=
  match cis with
  | [] => True
  | ci :: r =>
    Forall (fun o => 0 <= chunk_nvals o ci nc fin) objs /\
    sizes_real e objs ci nc fin path (drop (init + i * cs) data) /\
    all_sizes_real e objs nc fin path data init cs r (i + 1)
  end.

Definition chunks_values (l : list rcdc) : option (list (list bytes)) := opt_all (map rcdc_values l).

Lemma chunks_values_snoc l x vs v :
  chunks_values l = Some vs -> rcdc_values x = Some v -> chunks_values (l ++ [x]) = Some (vs ++ [v]).
Proof.
  unfold chunks_values. revert vs. induction l as [|y l IH]; intros vs Hl Hx; cbn [app map opt_all] in *.
  - injection Hl as <-. rewrite Hx. reflexivity.
  - destruct (rcdc_values y); [|discriminate]. destruct (opt_all (map rcdc_values l)) as [r|]; [|discriminate].
    injection Hl as <-. rewrite (IH r eq_refl Hx). reflexivity.
Qed.

(* the per-chunk reader only moves the position *)
Lemma contig_channel_loop_data ci path e nc fin : forall objs cd cpos f rc cp f',
    contig_read_channel_data_chunk_gen_loop4 ci path e nc fin objs cd cpos f = Ok (rc, cp, f') -> pf_data f' = pf_data f.
Proof.
  induction objs as [|o objs IH]; intros cd cpos f rc cp f' H; cbn [contig_read_channel_data_chunk_gen_loop4] in H.
  - injection H as _ _ <-. reflexivity.
  - rewrite get_channel_number_values_eq in H. cbn [bind] in H.
    destruct (bytes_eqb (so_path o) path).
    + unfold pf_seek in H. destruct (cpos <? 0); [discriminate|]. cbn [bind] in H. unfold pf_run in H. cbn [pf_data pf_pos] in H.
      destruct (segobj_read_values_gen o _ _ e) as [[d cur']|]; cbn [bind] in H; [|discriminate].
      injection H as _ _ <-. reflexivity.
    + destruct (chunk_nvals o ci nc fin =? so_nvals o); [exact (IH _ _ _ _ _ _ H)|].
      destruct (so_dtype o) as [dt|]; cbn [need bind] in H; [|discriminate].
      destruct (negb (is_none (dec_cls_size dt))).
      * destruct (dec_cls_size dt); cbn [need bind] in H; [|discriminate]. exact (IH _ _ _ _ _ _ H).
      * destruct (chunk_nvals o ci nc fin =? 0); [exact (IH _ _ _ _ _ _ H)|discriminate].
Qed.

Lemma contig_channel_chunk_data nc fin e f objs ci path rc f' :
  contig_read_channel_data_chunk_gen nc fin e f objs ci path = Ok (rc, f') -> pf_data f' = pf_data f.
Proof.
  unfold contig_read_channel_data_chunk_gen. intros H.
  destruct (contig_read_channel_data_chunk_gen_loop4 ci path e nc fin objs (mkRcdc None None) (pf_tell f) f) as [[[cd cp] f1]|] eqn:E;
    cbn [bind] in H; [|discriminate].
  injection H as _ <-. exact (contig_channel_loop_data _ _ _ _ _ _ _ _ _ _ _ _ E).
Qed.

Lemma contig_lazy_loop_eq sg objs path data init cs : forall cis i ys ysa pos,
    0 <= init -> 0 <= cs -> 0 <= i ->
    Forall obj_ok objs ->
    all_sizes_real (toc_endian (sg_toc sg)) objs (sg_nchunks sg) (sg_final sg) path data init cs cis i ->
    chunks_values ys = Some ysa -> pos = init + i * cs ->
    mapr (fun p => (chunks_values (fst p), pf_data (snd p), pf_pos (snd p)))
         (segment_read_channel_data_chunks_lazy_gen_loop1 objs path (reader_of sg LContig) init cs cis i ys (mkPf data pos))
    = mapr (fun vss => (Some (ysa ++ vss), data, match cis with [] => pos | _ => init + (i + zlen cis) * cs end))
           (pos_chunks (toc_endian (sg_toc sg)) objs (sg_nchunks sg) (sg_final sg) path data init cs cis i).
Proof.
  induction cis as [|ci cis IH]; intros i ys ysa pos Hi Hcs Hi0 Hok Hreal Hys ->;
    cbn [segment_read_channel_data_chunks_lazy_gen_loop1 pos_chunks].
  - cbn [mapr fst snd pf_data pf_pos]. rewrite Hys, app_nil_r. reflexivity.
  - cbn [all_sizes_real] in Hreal. destruct Hreal as [Hnn [Hsr Hrest]].
    rewrite reader_chunk_contig.
    pose proof (contig_read_channel_data_chunk_sim (toc_endian (sg_toc sg)) (sg_nchunks sg) (sg_final sg) data (init + i * cs) objs ci path
                                                   ltac:(nia) Hok Hnn Hsr) as Hs.
    unfold chunk_view.
    destruct (contig_read_channel_data_chunk_gen (sg_nchunks sg) (sg_final sg) (toc_endian (sg_toc sg)) (mkPf data (init + i * cs)) objs ci path)
      as [[rc f1]|er] eqn:Eg;
      destruct (seq_channel_chunk (toc_endian (sg_toc sg)) objs ci (sg_nchunks sg) (sg_final sg) path (drop (init + i * cs) data)) as [[o cur1]|er'];
      cbn [mapr fst snd bind] in *; try discriminate.
    + assert (Hrc : rcdc_values rc = Some (match o with Some vs => vs | None => [] end)).
      { destruct o; injection Hs as Hs _; exact Hs. }
      unfold pf_seek. assert (E : (init + (i + 1) * cs <? 0) = false) by nia. rewrite E. cbn [bind].
      pose proof (contig_channel_chunk_data _ _ _ _ _ _ _ _ _ Eg) as Hd. cbn [pf_data] in Hd. rewrite Hd.
      rewrite (IH (i + 1) (ys ++ [rc]) (ysa ++ [match o with Some vs => vs | None => [] end]) (init + (i + 1) * cs))
        by (try assumption; try lia; try reflexivity; apply chunks_values_snoc; assumption).
      destruct (pos_chunks (toc_endian (sg_toc sg)) objs (sg_nchunks sg) (sg_final sg) path data init cs cis (i + 1)) as [rest|er2];
        cbn [mapr bind]; [|reflexivity].
      rewrite <- app_assoc. cbn [app]. f_equal. f_equal.
      destruct cis as [|c2 cis']; unfold zlen; cbn [length]; [lia|]. f_equal. lia.
    + injection Hs as ->. reflexivity.
Qed.

(* chunk ci of the segment is read at  data_position + chunk_size * ci : the positions of a request [co, stop) *)
Lemma pos_chunks_range e objs nc fin path data D cs co : forall (n : nat) i stop,
    Z.to_nat (stop - (co + i)) = n -> 0 <= i ->
    pos_chunks e objs nc fin path data (D + cs * co) cs (py_range (co + i) stop) i
    = mapM (fun ci => chunk_view e objs nc fin path data (D + cs * ci) ci) (py_range (co + i) stop).
Proof.
  induction n as [|n IH]; intros i stop Hn Hi.
  - rewrite py_range_nil by lia. reflexivity.
  - rewrite py_range_cons by lia. cbn [pos_chunks mapM].
    replace (D + cs * co + i * cs) with (D + cs * (co + i)) by ring.
    destruct (chunk_view e objs nc fin path data (D + cs * (co + i)) (co + i)) as [vs|er]; cbn [bind]; [|reflexivity].
    replace (co + i + 1) with (co + (i + 1)) by lia. rewrite (IH (i + 1) stop) by lia. reflexivity.
Qed.

Lemma all_sizes_real_range e objs nc fin path data D cs co (P : Z -> Prop) :
  (forall ci, P ci -> Forall (fun o => 0 <= chunk_nvals o ci nc fin) objs /\ sizes_real e objs ci nc fin path (drop (D + cs * ci) data)) ->
  forall (n : nat) i stop, Z.to_nat (stop - (co + i)) = n -> 0 <= i -> (forall ci, co + i <= ci < stop -> P ci) ->
  all_sizes_real e objs nc fin path data (D + cs * co) cs (py_range (co + i) stop) i.
Proof.
  intros HP. induction n as [|n IH]; intros i stop Hn Hi Hall.
  - rewrite py_range_nil by lia. exact I.
  - rewrite py_range_cons by lia. cbn [all_sizes_real].
    replace (D + cs * co + i * cs) with (D + cs * (co + i)) by ring.
    destruct (HP (co + i) (Hall (co + i) ltac:(lia))) as [H1 H2]. split; [exact H1|]. split; [exact H2|].
    replace (co + i + 1) with (co + (i + 1)) by lia. apply IH; [lia|lia|]. intros ci Hc. apply Hall. lia.
Qed.

(* ---- TdmsSegment._read_channel_data_chunks on a contiguous segment ---------------------------------------------------------------- *)

Theorem contig_read_channel_data_chunks_eq sg objs path data pos co stop cs :
  seg_layout sg = Ok LContig -> 0 <= pos -> 0 <= cs -> Forall obj_ok objs ->
  all_sizes_real (toc_endian (sg_toc sg)) objs (sg_nchunks sg) (sg_final sg) path data pos cs (py_range co stop) 0 ->
  mapr (fun p => (chunks_values (fst p), pf_data (snd p), pf_pos (snd p)))
       (segment_read_channel_data_chunks_gen sg (mkPf data pos) objs path co stop cs)
  = mapr (fun vss => (Some vss, data, match py_range co stop with [] => pos | _ => pos + zlen (py_range co stop) * cs end))
         (pos_chunks (toc_endian (sg_toc sg)) objs (sg_nchunks sg) (sg_final sg) path data pos cs (py_range co stop) 0).
Proof.
  intros Hlay Hp Hcs Hok Hreal. rewrite segment_read_channel_data_chunks_dispatch, Hlay. cbn [bind].
  unfold segment_read_channel_data_chunks_lazy_gen. rewrite get_data_reader_eq, Hlay. cbn [mapr bind]. unfold pf_tell. cbn [pf_pos].
  pose proof (contig_lazy_loop_eq sg objs path data pos cs (py_range co stop) 0 [] [] pos Hp Hcs ltac:(lia) Hok Hreal eq_refl ltac:(lia)) as H.
  destruct (segment_read_channel_data_chunks_lazy_gen_loop1 objs path (reader_of sg LContig) pos cs (py_range co stop) 0 [] (mkPf data pos))
    as [[ys f]|er]; cbn [bind mapr fst snd] in *; exact H.
Qed.

(* ---- ... on an interleaved segment: everything is read by the call, then the loop seeks once --------------------------------------- *)

Lemma list_loop_eq init cs : forall xs i ys f,
    0 <= init -> 0 <= cs -> 0 <= i ->
    segment_read_channel_data_chunks_list_gen_loop2 init cs xs i ys f
    = Ok (ys ++ xs, match xs with [] => f | _ => mkPf (pf_data f) (init + (i + zlen xs) * cs) end).
Proof.
  induction xs as [|x xs IH]; intros i ys f Hi Hcs Hi0; cbn [segment_read_channel_data_chunks_list_gen_loop2].
  - rewrite app_nil_r. reflexivity.
  - unfold pf_seek. assert (E : (init + (i + 1) * cs <? 0) = false) by nia. rewrite E. cbn [bind].
    rewrite IH by lia. rewrite <- app_assoc. cbn [app pf_data]. f_equal. f_equal.
    destruct xs as [|x2 xs']; unfold zlen; cbn [length]; f_equal; lia.
Qed.

Theorem interleaved_read_channel_data_chunks_segment_eq sg objs path data pos co stop cs :
  seg_layout sg = Ok LInterleaved -> 0 <= pos -> 0 <= cs ->
  Forall (fun o => sized o <> None) objs -> (forall o0, hd_error objs = Some o0 -> 0 <= so_nvals o0 * (stop - co)) ->
  mapr (fun p => (chunks_values (fst p), pf_data (snd p), pf_pos (snd p)))
       (segment_read_channel_data_chunks_gen sg (mkPf data pos) objs path co stop cs)
  = mapr (fun p => (Some (map (chunk_vals path) (fst p)), data,
                    match fst p with [] => pos + (blen (drop pos data) - blen (snd p)) | _ => pos + zlen (fst p) * cs end))
         (read_interleaved (toc_endian (sg_toc sg)) objs (stop - co) (drop pos data)).
Proof.
  intros Hlay Hp Hcs Hall Hn. rewrite segment_read_channel_data_chunks_dispatch, Hlay. cbn [bind].
  unfold segment_read_channel_data_chunks_list_gen. rewrite get_data_reader_eq, Hlay. cbn [mapr bind]. unfold pf_tell, pf_run. cbn [pf_pos pf_data]. cbv beta zeta.
  unfold reader_read_channel_data_chunks_list_gen, reader_of. cbn [layout_code Z.eqb]. rewrite dr_endian_flag.
  rewrite interleaved_read_channel_data_chunks_eq.
  pose proof (interleaved_read_data_chunks_eq (toc_endian (sg_toc sg)) (drop pos data) objs (stop - co) Hall Hn) as H.
  destruct (interleaved_read_data_chunks_gen (toc_endian (sg_toc sg)) (drop pos data) objs (stop - co)) as [[l cur']|er];
    destruct (read_interleaved (toc_endian (sg_toc sg)) objs (stop - co) (drop pos data)) as [[cs' rest]|er'];
    cbn [mapr fst snd bind] in *; try discriminate.
  - injection H as Hl ->. cbn [Pos.eqb bind]. rewrite list_loop_eq by lia. cbn [bind mapr fst snd app].
    assert (Hv : chunks_values (map (fun c => channel_of_chunk c path) l) = Some (map (chunk_vals path) cs')
                 /\ length l = length cs').
    { clear - Hl. unfold chunks_abs in Hl. unfold chunks_values. revert cs' Hl. induction l as [|c l IH]; intros cs' Hl; cbn [map opt_all] in *.
      - injection Hl as <-. split; reflexivity.
      - destruct (rawchunk_chunk c) as [x|] eqn:Ex; [|discriminate].
        destruct (opt_all (map rawchunk_chunk l)) as [xs|] eqn:Exs; [|discriminate]. injection Hl as <-.
        rewrite (channel_of_chunk_vals c x path Ex). destruct (IH xs eq_refl) as [H1 H2]. rewrite H1. cbn [map length]. split; [reflexivity|lia]. }
    destruct Hv as [Hv Hlen]. rewrite Hv.
    destruct l as [|c l]; destruct cs' as [|x cs'']; cbn [length] in Hlen; try lia; cbn [map pf_pos pf_data]; [reflexivity|].
    unfold zlen. cbn [length]. rewrite map_length. repeat f_equal. lia.
  - injection H as ->. reflexivity.
Qed.

(* ---- TdmsSegment.read_raw_data_for_channel: the position arithmetic around the delegation ------------------------------------------ *)

Definition empty_channel_chunks (toc : Z) : list rcdc := if toc_has toc TOC_RAW then [] else [mkRcdc None None].

Theorem segment_read_raw_data_for_channel_eq sg f path co nc :
  0 <= sg_data sg ->
  segment_read_raw_data_for_channel_gen sg f path co nc
  = do cs <- get_chunk_size_gen sg;
    let pos := if co >? 0 then sg_data sg + cs * co else sg_data sg in
    if pos <? 0 then Err EValue
    else
      do '(l, f') <- segment_read_channel_data_chunks_gen sg (mkPf (pf_data f) pos) (data_objs (sg_objs sg)) path co
                                                          (match nc with None => sg_nchunks sg | Some n => n + co end) cs;
      Ok (empty_channel_chunks (sg_toc sg) ++ l, f').
Proof.
  intros Hd. unfold segment_read_raw_data_for_channel_gen, empty_channel_chunks, toc_has, TOC_RAW.
  assert (Hy : forall xs ys, segment_read_raw_data_for_channel_gen_loop3 xs ys = Ok (ys ++ xs)).
  { induction xs as [|x xs IH]; intros ys; cbn [segment_read_raw_data_for_channel_gen_loop3]; [rewrite app_nil_r; reflexivity|].
    rewrite IH, <- app_assoc. reflexivity. }
  unfold pf_seek at 1. assert (E : (sg_data sg <? 0) = false) by lia.
  destruct (negb (Z.land (sg_toc sg) 8 =? 0)); cbn [negb bind]; rewrite E; cbn [bind];
    (destruct (get_chunk_size_gen sg) as [cs|er]; cbn [bind]; [|reflexivity]);
    rewrite get_data_objects_eq; cbn [bind];
    (destruct (co >? 0); cbn [bind]; unfold pf_seek, pf_tell; cbn [pf_pos pf_data];
     [destruct (sg_data sg + cs * co <? 0); cbn [bind]; [reflexivity|]|rewrite E]);
    (match goal with |- context [segment_read_channel_data_chunks_gen ?a ?b ?c ?d ?e0 ?g ?h] =>
                     destruct (segment_read_channel_data_chunks_gen a b c d e0 g h) as [[l f']|er] end;
     cbn [bind]; [rewrite Hy; reflexivity|reflexivity]).
Qed.

(* ---- a contiguous segment: chunk ci of the request is the sequential model's view of the channel at
        data_position + chunk_size * ci ; the file ends at the start of the chunk after the last one read --------------------------- *)

Theorem contig_read_raw_data_for_channel_eq sg data p0 path co nc cs :
  seg_layout sg = Ok LContig -> get_chunk_size_gen sg = Ok cs ->
  0 <= sg_data sg -> 0 <= cs -> 0 <= co ->
  Forall obj_ok (data_objs (sg_objs sg)) ->
  let e := toc_endian (sg_toc sg) in
  let objs := data_objs (sg_objs sg) in
  let stop := match nc with None => sg_nchunks sg | Some n => n + co end in
  (forall ci, co <= ci < stop ->
              Forall (fun o => 0 <= chunk_nvals o ci (sg_nchunks sg) (sg_final sg)) objs /\
              sizes_real e objs ci (sg_nchunks sg) (sg_final sg) path (drop (sg_data sg + cs * ci) data)) ->
  mapr (fun p => (chunks_values (fst p), pf_data (snd p), pf_pos (snd p)))
       (segment_read_raw_data_for_channel_gen sg (mkPf data p0) path co nc)
  = mapr (fun vss => (Some ((if toc_has (sg_toc sg) TOC_RAW then [] else [[]]) ++ vss), data,
                      if stop <=? co then sg_data sg + cs * co else sg_data sg + cs * stop))
         (mapM (fun ci => chunk_view e objs (sg_nchunks sg) (sg_final sg) path data (sg_data sg + cs * ci) ci) (py_range co stop)).
Proof.
  intros Hlay Hcs Hd Hcs0 Hco Hok e objs stop Hreal.
  rewrite segment_read_raw_data_for_channel_eq by exact Hd. rewrite Hcs. cbn [bind pf_data]. cbv zeta.
  assert (Hpos : (if co >? 0 then sg_data sg + cs * co else sg_data sg) = sg_data sg + cs * co).
  { destruct (co >? 0) eqn:E; [reflexivity|]. assert (co = 0) by lia. subst co. lia. }
  rewrite Hpos. assert (E : (sg_data sg + cs * co <? 0) = false) by nia. rewrite E.
  pose proof (all_sizes_real_range e objs (sg_nchunks sg) (sg_final sg) path data (sg_data sg) cs co
                                   (fun ci => co <= ci < stop) Hreal (Z.to_nat (stop - (co + 0))) 0 stop eq_refl ltac:(lia)
                                   ltac:(intros ci Hc; cbv beta; lia)) as Hall.
  rewrite Z.add_0_r in Hall.
  pose proof (contig_read_channel_data_chunks_eq sg objs path data (sg_data sg + cs * co) co stop cs Hlay ltac:(nia) Hcs0 Hok Hall) as H.
  pose proof (pos_chunks_range e objs (sg_nchunks sg) (sg_final sg) path data (sg_data sg) cs co (Z.to_nat (stop - (co + 0))) 0 stop
                               eq_refl ltac:(lia)) as Hr.
  rewrite Z.add_0_r in Hr. fold e in H. rewrite Hr in H. fold objs. fold stop.
  destruct (segment_read_channel_data_chunks_gen sg (mkPf data (sg_data sg + cs * co)) objs path co stop cs) as [[l f']|er];
    destruct (mapM (fun ci => chunk_view e objs (sg_nchunks sg) (sg_final sg) path data (sg_data sg + cs * ci) ci) (py_range co stop))
    as [vss|er']; cbn [mapr bind fst snd] in *; try discriminate.
  - injection H as Hl Hdt Hp. rewrite Hdt, Hp.
    assert (Hv : chunks_values (empty_channel_chunks (sg_toc sg) ++ l)
                 = Some ((if toc_has (sg_toc sg) TOC_RAW then [] else [[]]) ++ vss)).
    { unfold empty_channel_chunks. destruct (toc_has (sg_toc sg) TOC_RAW); cbn [app]; [exact Hl|].
      unfold chunks_values in *. cbn [map opt_all]. rewrite Hl. reflexivity. }
    rewrite Hv. f_equal. f_equal.
    destruct (stop <=? co) eqn:Es.
    + rewrite py_range_nil by lia. reflexivity.
    + rewrite py_range_cons by lia. unfold zlen. rewrite <- py_range_cons by lia.
      assert (Hlen : Z.of_nat (length (py_range co stop)) = stop - co).
      { unfold py_range. rewrite map_length, seq_length. lia. }
      rewrite Hlen. ring.
  - injection H as ->. reflexivity.
Qed.

(* ---- example: the file of Proofs/GenEagerEquiv.v (real bytes; the real list(segment.read_raw_data_for_channel(..)) gives the
   same chunks and f.tell()): the string channel b in chunk 1 of the contiguous segment, channel a in the interleaved one -------- *)
Section Example.
Import String.
Local Open Scope string_scope.
Definition ex_seg1 : segment := nth 0 (rs_segments ex_st) (mkSeg 0 0 0 0 false [] [] 0 None).
Definition ex_seg3 : segment := nth 2 (rs_segments ex_st) (mkSeg 0 0 0 0 false [] [] 0 None).
Ltac vmc t := let v := eval vm_compute in t in change t with v.
Ltac sr_step := cbn [sizes_real];
  match goal with |- context [read_values ?e ?o ?n ?c] => vmc (read_values e o n c) end; cbv iota beta;
  match goal with |- context [bytes_eqb ?a ?b] => vmc (bytes_eqb a b) end; cbv iota.
Lemma ex_lazy_hyps :
  seg_layout ex_seg1 = Ok LContig /\ get_chunk_size_gen ex_seg1 = Ok 14 /\ Forall obj_ok (data_objs (sg_objs ex_seg1)) /\
  (forall ci, 1 <= ci < sg_nchunks ex_seg1 ->
              Forall (fun o => 0 <= chunk_nvals o ci (sg_nchunks ex_seg1) (sg_final ex_seg1)) (data_objs (sg_objs ex_seg1)) /\
              sizes_real (toc_endian (sg_toc ex_seg1)) (data_objs (sg_objs ex_seg1)) ci (sg_nchunks ex_seg1) (sg_final ex_seg1)
                         (hex "2f2767272f276227") (drop (sg_data ex_seg1 + 14 * ci) ex_file)).
Proof.
  split; [vm_compute; reflexivity|]. split; [vm_compute; reflexivity|]. split.
  { vmc (data_objs (sg_objs ex_seg1)). repeat (apply Forall_cons; [eexists; (split; [reflexivity|vm_compute; try exact I; reflexivity])|]). apply Forall_nil. }
  intros ci Hc. assert (En : sg_nchunks ex_seg1 = 2) by (vm_compute; reflexivity). rewrite En in Hc. assert (ci = 1) by lia. subst ci. split.
  { vmc (data_objs (sg_objs ex_seg1)). repeat (apply Forall_cons; [vm_compute; discriminate|]). apply Forall_nil. }
  vmc (data_objs (sg_objs ex_seg1)). vmc (toc_endian (sg_toc ex_seg1)). vmc (sg_nchunks ex_seg1). vmc (sg_final ex_seg1).
  vmc (drop (sg_data ex_seg1 + 14 * 1) ex_file).
  sr_step. exists 8. split; [vm_compute; reflexivity|]. split; [vm_compute; split; discriminate|]. split; [vm_compute; reflexivity|].
  sr_step. intros _. apply Forall_cons; [vm_compute; reflexivity|apply Forall_nil].
Qed.

Example ex_lazy_seg_gen :
  mapr (fun p => (chunks_values (fst p), pf_pos (snd p)))
       (segment_read_raw_data_for_channel_gen ex_seg1 (mkPf ex_file 7) (hex "2f2767272f276227") 1 None)
  = Ok (Some [[hex "796f"]], 140) /\
  mapr (fun p => (chunks_values (fst p), pf_pos (snd p)))
       (segment_read_raw_data_for_channel_gen ex_seg1 (mkPf ex_file 7) (hex "2f2767272f276127") 0 None)
  = Ok (Some [[hex "01000000"; hex "feffffff"]; [hex "03000000"; hex "04000000"]], 140) /\
  seg_layout ex_seg3 = Ok LInterleaved /\
  mapr (fun p => (chunks_values (fst p), pf_pos (snd p)))
       (segment_read_raw_data_for_channel_gen ex_seg3 (mkPf ex_file 7) (hex "2f2767272f276127") 0 None)
  = Ok (Some [[hex "05000000"]], 273).
Proof. repeat split; vm_compute; reflexivity. Qed.
End Example.
