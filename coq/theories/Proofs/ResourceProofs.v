(* Proofs about the ownership model (Model/Resource.v), property C20.

   The handle part of the state is finite: per-operation facts are proved by
   exhaustive case analysis + computation, then lifted to all operation
   histories by induction over the list of operations. *)
From Coq Require Import List Bool Arith.
Import ListNotations.
From NpTdms Require Import Model.Resource.

(* ---------------------------------------------------------------------- *)
(* Tactics                                                                 *)

Ltac dh h := destruct h as [|[|] [|] [|]].
Ltac dcore c := let d := fresh "d" in let i := fresh "i" in
                let p := fresh "p" in let q := fresh "q" in
                destruct c as [d i p q]; dh d; dh i; destruct p; destruct q.
Ltac fin := cbv; try reflexivity; try discriminate; try tauto; auto.

(* ---------------------------------------------------------------------- *)
(* Observables                                                             *)

Inductive file := DataFile | IndexFile.

(* the files for which a descriptor opened by the library is still open *)
Definition owned_open (c : core) : list file :=
  (if lib_open (data c) then [DataFile] else []) ++
  (if lib_open (index c) then [IndexFile] else []).

Definition no_caller_closed (c : core) : bool :=
  negb (caller_closed (data c)) && negb (caller_closed (index c)).

Lemma owned_open_nil : forall c,
    owned_open c = [] <-> lib_open (data c) = false /\ lib_open (index c) = false.
Proof.
  intros c; unfold owned_open.
  destruct (lib_open (data c)), (lib_open (index c)); cbn; split; intros H;
    try discriminate; try (destruct H; discriminate); auto.
Qed.

(* ---------------------------------------------------------------------- *)
(* The invariant of a TdmsReader that a caller can reach                   *)

(* a slot and its `_path` attribute:
   - a handle the library opened and has not closed is still referenced and
     its path is recorded (so close() will close it);
   - a caller's stream is open and no path is recorded for it (so close()
     will not touch it);
   - no object, no path. *)
Definition slot_ok (h : handle) (p : bool) : bool :=
  match h with
  | Absent => negb p
  | Obj Lib Open r => p && r
  | Obj Lib Closed _ => p
  | Obj Caller Open _ => negb p
  | Obj Caller Closed _ => false
  end.

(* both attributes are dropped together *)
Definition together (c : core) : bool :=
  (negb (fp c) || negb (held (index c)) || held (data c)) &&
  (negb (ip c) || negb (held (data c)) || held (index c)).

Definition inv (c : core) : bool :=
  slot_ok (data c) (fp c) && slot_ok (index c) (ip c) && together c.

Definition winv (w : world) : bool :=
  inv (co w) && (tf_reader w || negb (ensure_open (co w))).

(* nothing owned is open and the reader is closed *)
Definition quiet (c : core) : bool :=
  negb (lib_open (data c)) && negb (lib_open (index c)) && negb (ensure_open c).

Lemma inv_no_caller_closed : forall c, inv c = true -> no_caller_closed c = true.
Proof. intros c; dcore c; fin. Qed.

Lemma quiet_owned_open : forall c, quiet c = true -> owned_open c = [].
Proof. intros c; dcore c; fin. Qed.

Lemma quiet_closed : forall c, quiet c = true -> ensure_open c = false.
Proof. intros c; dcore c; fin. Qed.

(* ---------------------------------------------------------------------- *)
(* TdmsReader.close                                                        *)

Lemma reader_close_inv : forall c, inv c = true -> inv (snd (reader_close c)) = true.
Proof. intros c; dcore c; fin. Qed.

Lemma reader_close_done : forall c, inv c = true -> fst (reader_close c) = Done.
Proof. intros c; dcore c; fin. Qed.

Lemma reader_close_quiet : forall c, inv c = true -> quiet (snd (reader_close c)) = true.
Proof. intros c; dcore c; fin. Qed.

(* close; close = close, on every state (reachable or not) *)
Lemma reader_close_idem : forall c,
    snd (reader_close (snd (reader_close c))) = snd (reader_close c).
Proof. intros c; dcore c; fin. Qed.

Lemma reader_close_twice_done : forall c,
    fst (reader_close c) = Done -> fst (reader_close (snd (reader_close c))) = Done.
Proof. intros c; dcore c; fin. Qed.

(* ---------------------------------------------------------------------- *)
(* Steps of a history                                                      *)

Definition is_close (o : op) : bool :=
  match o with OClose | OExit _ => true | _ => false end.

Definition is_read (o : op) : bool := negb (is_close o).

Lemma step_read_core : forall fc w o, is_close o = false ->
    co (snd (step fc w o)) = co w /\ tf_reader (snd (step fc w o)) = tf_reader w
    /\ eager (snd (step fc w o)) = eager w.
Proof.
  intros fc w o Ho. destruct o; try discriminate Ho; cbn [step];
    repeat match goal with
           | |- context [if ?b then _ else _] => destruct b eqn:?
           | |- context [match data_access ?c ?k with _ => _ end] => destruct (data_access c k)
           | |- context [let '(_, _) := ?e in _] => destruct e
           end; cbn; auto.
Qed.

Lemma tf_close_winv : forall w, winv w = true -> winv (snd (tf_close w)) = true.
Proof.
  intros [c t e ca g] H. unfold winv in *. cbn [co tf_reader] in *.
  destruct t.
  - dcore c; revert H; fin.
  - cbn. exact H.
Qed.

Lemma tf_close_quiet : forall w, winv w = true -> quiet (co (snd (tf_close w))) = true.
Proof.
  intros [c t e ca g] H. unfold winv in *. cbn [co tf_reader] in *.
  destruct t; dcore c; revert H; fin.
Qed.

Lemma tf_close_done : forall w, winv w = true -> fst (tf_close w) = Done.
Proof.
  intros [c t e ca g] H. unfold winv in *. cbn [co tf_reader] in *.
  destruct t; dcore c; revert H; fin.
Qed.

Lemma step_close : forall fc w o, is_close o = true -> step fc w o = tf_close w.
Proof. intros fc w o H; destruct o; try discriminate H; reflexivity. Qed.

Lemma step_winv : forall fc w o, winv w = true -> winv (snd (step fc w o)) = true.
Proof.
  intros fc w o H. destruct (is_close o) eqn:Ho.
  - rewrite (step_close _ _ _ Ho). apply tf_close_winv, H.
  - destruct (step_read_core fc w o Ho) as (Hc & Ht & _).
    unfold winv in *. rewrite Hc, Ht. exact H.
Qed.

Lemma run_ops_winv : forall fc ops w, winv w = true -> winv (run_ops fc w ops) = true.
Proof.
  intros fc ops; induction ops as [|o r IH]; intros w H; cbn [run_ops]; [exact H|].
  apply IH, step_winv, H.
Qed.

(* once quiet, always quiet *)
Lemma step_quiet : forall fc w o, winv w = true -> quiet (co w) = true ->
    quiet (co (snd (step fc w o))) = true.
Proof.
  intros fc w o Hi Hq. destruct (is_close o) eqn:Ho.
  - rewrite (step_close _ _ _ Ho). apply tf_close_quiet, Hi.
  - destruct (step_read_core fc w o Ho) as (Hc & _). rewrite Hc. exact Hq.
Qed.

Lemma run_ops_quiet : forall fc ops w, winv w = true -> quiet (co w) = true ->
    quiet (co (run_ops fc w ops)) = true.
Proof.
  intros fc ops; induction ops as [|o r IH]; intros w Hi Hq; cbn [run_ops]; [exact Hq|].
  apply IH; [apply step_winv, Hi | apply step_quiet; assumption].
Qed.

(* a history that contains a close ends quiet *)
Lemma run_ops_closed : forall fc ops w, winv w = true ->
    existsb is_close ops = true -> quiet (co (run_ops fc w ops)) = true.
Proof.
  intros fc ops; induction ops as [|o r IH]; intros w Hi He; [discriminate He|].
  cbn [run_ops]. cbn [existsb] in He. destruct (is_close o) eqn:Ho.
  - apply run_ops_quiet; [apply step_winv, Hi|].
    rewrite (step_close _ _ _ Ho). apply tf_close_quiet, Hi.
  - apply IH; [apply step_winv, Hi | exact He].
Qed.

(* ---------------------------------------------------------------------- *)
(* TdmsFile.__init__ : finite case analysis by computation                 *)

(* tf_init looks at four of the parse outcomes only *)
Definition fc4 (m1 m2 m3 m4 : bool) : fcond := mkfcond m1 m2 m3 m4 true true [].

Lemma tf_init_fc4 : forall fx a src ib cf fc,
    tf_init fx a src ib cf fc =
    tf_init fx a src ib cf (fc4 (fc_meta_data fc) (fc_meta_index fc) (fc_build fc) (fc_file_data fc)).
Proof. intros fx a src ib cf [m1 m2 m3 m4 m5 m6 l]. reflexivity. Qed.

(* all parameter combinations of TdmsFile.__init__ *)
Definition params := (bool * api * source * bool * cfault * bool * bool * bool * bool)%type.

Definition all_bool := [true; false].
Definition all_api := [ApiRead; ApiOpen; ApiReadMetadata].
Definition all_source := [Path; Stream; IndexPath; IndexStream; BadStream].
Definition all_cfault := [CNoFault; CDataOpenFails; CIndexOpenFails].

Definition all_params : list params :=
  list_prod (list_prod (list_prod (list_prod (list_prod (list_prod (list_prod (list_prod
    all_bool all_api) all_source) all_bool) all_cfault) all_bool) all_bool) all_bool) all_bool.

Lemma all_params_complete : forall p : params, In p all_params.
Proof.
  intros [[[[[[[[fx a] src] ib] cf] m1] m2] m3] m4]. unfold all_params.
  repeat apply in_prod;
    match goal with |- In ?x _ => destruct x; cbn; tauto end.
Qed.

Definition p_init (p : params) : outcome * world :=
  let '(fx, a, src, ib, cf, m1, m2, m3, m4) := p in tf_init fx a src ib cf (fc4 m1 m2 m3 m4).

Lemma check_params : forall P : params -> bool,
    forallb P all_params = true ->
    forall fx a src ib cf fc,
      P (fx, a, src, ib, cf, fc_meta_data fc, fc_meta_index fc, fc_build fc, fc_file_data fc) = true.
Proof.
  intros P H fx a src ib cf fc. rewrite forallb_forall in H. apply H, all_params_complete.
Qed.

Definition is_done (o : outcome) : bool := match o with Done => true | _ => false end.

Lemma is_done_iff : forall o, is_done o = true <-> o = Done.
Proof. intros [| |e]; cbn; split; intros H; try reflexivity; discriminate H. Qed.

Definition no_owned (c : core) : bool := negb (lib_open (data c)) && negb (lib_open (index c)).

Lemma no_owned_iff : forall c, no_owned c = true <-> owned_open c = [].
Proof.
  intros c. rewrite owned_open_nil. unfold no_owned.
  destruct (lib_open (data c)), (lib_open (index c)); cbn; intuition discriminate.
Qed.

Definition is_open_api (a : api) : bool := match a with ApiOpen => true | _ => false end.
Definition is_index_open_fault (cf : cfault) : bool :=
  match cf with CIndexOpenFails => true | _ => false end.

(* 1. when the constructor returns, the invariant holds *)
Definition chk_winv (p : params) : bool :=
  negb (is_done (fst (p_init p))) || winv (snd (p_init p)).
(* 2. no caller stream is closed, returning or raising *)
Definition chk_ncc (p : params) : bool := no_caller_closed (co (snd (p_init p))).
(* 3. TdmsFile.read / read_metadata, returning or raising, leave nothing owned open *)
Definition chk_closed_api (p : params) : bool :=
  let '(fx, a, src, ib, cf, m1, m2, m3, m4) := p in
  is_open_api a || (negb fx && is_index_open_fault cf) || no_owned (co (snd (p_init p))).
(* 4. ... and when they return the reader is closed *)
Definition chk_closed_api_quiet (p : params) : bool :=
  let '(fx, a, src, ib, cf, m1, m2, m3, m4) := p in
  is_open_api a || negb (is_done (fst (p_init p))) || quiet (co (snd (p_init p))).
(* 5. patched TdmsFile.open raising leaves nothing owned open *)
Definition chk_open_raise_patched (p : params) : bool :=
  let '(fx, a, src, ib, cf, m1, m2, m3, m4) := p in
  negb fx || negb (is_open_api a) || is_done (fst (p_init p)) || no_owned (co (snd (p_init p))).
(* 6. unpatched TdmsFile.open raising leaves something only for a path source *)
Definition chk_open_raise_unpatched (p : params) : bool :=
  let '(fx, a, src, ib, cf, m1, m2, m3, m4) := p in
  fx || negb (is_open_api a) || is_done (fst (p_init p)) || no_owned (co (snd (p_init p)))
  || match src with Path => true | _ => false end.

Lemma all_chk_winv : forallb chk_winv all_params = true. Proof. vm_compute. reflexivity. Qed.
Lemma all_chk_ncc : forallb chk_ncc all_params = true. Proof. vm_compute. reflexivity. Qed.
Lemma all_chk_closed_api : forallb chk_closed_api all_params = true.
Proof. vm_compute. reflexivity. Qed.
Lemma all_chk_closed_api_quiet : forallb chk_closed_api_quiet all_params = true.
Proof. vm_compute. reflexivity. Qed.
Lemma all_chk_open_raise_patched : forallb chk_open_raise_patched all_params = true.
Proof. vm_compute. reflexivity. Qed.
Lemma all_chk_open_raise_unpatched : forallb chk_open_raise_unpatched all_params = true.
Proof. vm_compute. reflexivity. Qed.

Lemma init_done_winv : forall fx a src ib cf fc,
    fst (tf_init fx a src ib cf fc) = Done -> winv (snd (tf_init fx a src ib cf fc)) = true.
Proof.
  intros fx a src ib cf fc. pose proof (check_params _ all_chk_winv fx a src ib cf fc) as H.
  unfold chk_winv, p_init in H. rewrite <- tf_init_fc4 in H. intros Hd. rewrite Hd in H.
  exact H.
Qed.

Lemma init_no_caller_closed : forall fx a src ib cf fc,
    no_caller_closed (co (snd (tf_init fx a src ib cf fc))) = true.
Proof.
  intros fx a src ib cf fc. pose proof (check_params _ all_chk_ncc fx a src ib cf fc) as H.
  unfold chk_ncc, p_init in H. rewrite <- tf_init_fc4 in H. exact H.
Qed.

(* TdmsFile.read / TdmsFile.read_metadata, returning or raising *)
Lemma init_closed_api_quiet : forall fx a src ib cf fc,
    a <> ApiOpen -> fx = true \/ cf <> CIndexOpenFails ->
    owned_open (co (snd (tf_init fx a src ib cf fc))) = [].
Proof.
  intros fx a src ib cf fc Ha Hd.
  pose proof (check_params _ all_chk_closed_api fx a src ib cf fc) as H.
  unfold chk_closed_api, p_init in H. rewrite <- tf_init_fc4 in H.
  apply no_owned_iff.
  destruct a; try (exfalso; apply Ha; reflexivity); cbn [is_open_api orb] in H.
  - destruct Hd as [Hd|Hd]; [subst fx; exact H|].
    destruct cf; try (exfalso; apply Hd; reflexivity); destruct fx; exact H.
  - destruct Hd as [Hd|Hd]; [subst fx; exact H|].
    destruct cf; try (exfalso; apply Hd; reflexivity); destruct fx; exact H.
Qed.

(* ... and when they return, the reader is closed *)
Lemma init_closed_api_closed : forall fx a src ib cf fc,
    a <> ApiOpen -> fst (tf_init fx a src ib cf fc) = Done ->
    quiet (co (snd (tf_init fx a src ib cf fc))) = true.
Proof.
  intros fx a src ib cf fc Ha Hd.
  pose proof (check_params _ all_chk_closed_api_quiet fx a src ib cf fc) as H.
  unfold chk_closed_api_quiet, p_init in H. rewrite <- tf_init_fc4 in H. rewrite Hd in H.
  destruct a; try (exfalso; apply Ha; reflexivity); exact H.
Qed.

(* TdmsFile.open raising: patched code *)
Lemma init_open_raise_patched : forall src ib cf fc,
    fst (tf_init true ApiOpen src ib cf fc) <> Done ->
    owned_open (co (snd (tf_init true ApiOpen src ib cf fc))) = [].
Proof.
  intros src ib cf fc Hd.
  pose proof (check_params _ all_chk_open_raise_patched true ApiOpen src ib cf fc) as H.
  unfold chk_open_raise_patched, p_init in H. rewrite <- tf_init_fc4 in H.
  apply no_owned_iff. cbn [negb is_open_api orb] in H.
  destruct (fst (tf_init true ApiOpen src ib cf fc)); [exfalso; apply Hd; reflexivity| |]; exact H.
Qed.

(* TdmsFile.open raising: the code as it is (defect D19) *)
Lemma init_open_raise_unpatched_leaks :
  exists src ib fc,
    fst (tf_init false ApiOpen src ib CNoFault fc) = Raise EParse /\
    owned_open (co (snd (tf_init false ApiOpen src ib CNoFault fc))) = [DataFile].
Proof.
  exists Path, false, (mkfcond false true true true true true [1]). split; reflexivity.
Qed.

(* the only way for the unpatched TdmsFile.open to leave a handle is to raise
   after the constructor opened a file by path *)
Lemma init_open_unpatched_leak_char : forall src ib cf fc,
    fst (tf_init false ApiOpen src ib cf fc) <> Done ->
    owned_open (co (snd (tf_init false ApiOpen src ib cf fc))) <> [] ->
    src = Path.
Proof.
  intros src ib cf fc Hd Ho.
  pose proof (check_params _ all_chk_open_raise_unpatched false ApiOpen src ib cf fc) as H.
  unfold chk_open_raise_unpatched, p_init in H. rewrite <- tf_init_fc4 in H.
  cbn [negb is_open_api orb] in H.
  destruct (fst (tf_init false ApiOpen src ib cf fc)); [exfalso; apply Hd; reflexivity| |];
    cbn [is_done orb] in H;
    (destruct (no_owned (co (snd (tf_init false ApiOpen src ib cf fc)))) eqn:E;
     [exfalso; apply Ho, no_owned_iff, E | destruct src; try discriminate H; reflexivity]).
Qed.

(* the constructor failing on the second open(): the code as it is (D19) *)
Lemma ctor_index_open_fails_unpatched_leaks : forall a fc,
    fst (tf_init false a Path true CIndexOpenFails fc) = Raise EOpen /\
    owned_open (co (snd (tf_init false a Path true CIndexOpenFails fc))) = [DataFile].
Proof. intros a fc; destruct a; split; reflexivity. Qed.

(* ---------------------------------------------------------------------- *)
(* Scenarios (all histories)                                               *)

Lemma sc_final_winv : forall fx sc,
    fst (sc_init fx sc) = Done -> winv (sc_final fx sc) = true.
Proof.
  intros fx sc H. unfold sc_final. pose proof (init_done_winv fx (sc_api sc) (sc_src sc)
    (sc_index_beside sc) (sc_cfault sc) (sc_fc sc)) as Hi. unfold sc_init in *.
  destruct (tf_init fx (sc_api sc) (sc_src sc) (sc_index_beside sc) (sc_cfault sc) (sc_fc sc))
    as [o w]. cbn [fst snd] in *. subst o. apply run_ops_winv, Hi. reflexivity.
Qed.

(* caller-supplied streams are never closed: every scenario, every history,
   returning or raising, both code variants *)
Lemma sc_caller_streams_never_closed : forall fx sc,
    no_caller_closed (co (sc_final fx sc)) = true.
Proof.
  intros fx sc. destruct (fst (sc_init fx sc)) eqn:Ho.
  - apply inv_no_caller_closed. pose proof (sc_final_winv fx sc Ho) as H.
    unfold winv in H. apply andb_prop in H. tauto.
  - unfold sc_final. pose proof (init_no_caller_closed fx (sc_api sc) (sc_src sc)
      (sc_index_beside sc) (sc_cfault sc) (sc_fc sc)) as Hi. unfold sc_init in *.
    destruct (tf_init _ _ _ _ _ _) as [o w]. cbn [fst snd] in *. subst o. exact Hi.
  - unfold sc_final. pose proof (init_no_caller_closed fx (sc_api sc) (sc_src sc)
      (sc_index_beside sc) (sc_cfault sc) (sc_fc sc)) as Hi. unfold sc_init in *.
    destruct (tf_init _ _ _ _ _ _) as [o w]. cbn [fst snd] in *. subst o. exact Hi.
Qed.

(* after close() / __exit__ at any point of any history following a
   successful TdmsFile.open / read / read_metadata *)
Lemma sc_close_no_owned : forall fx sc o,
    fst (sc_init fx sc) = Done -> is_close o = true ->
    fst (step (sc_fc sc) (sc_final fx sc) o) = Done /\
    owned_open (co (snd (step (sc_fc sc) (sc_final fx sc) o))) = [].
Proof.
  intros fx sc o Hd Ho. pose proof (sc_final_winv fx sc Hd) as Hi.
  rewrite (step_close _ _ _ Ho). split.
  - apply tf_close_done, Hi.
  - apply quiet_owned_open, tf_close_quiet, Hi.
Qed.

(* a history in which the file was closed at some point (or that started with
   TdmsFile.read / read_metadata) ends with nothing owned open and the reader
   closed, whatever else was done afterwards *)
Definition closed_history (sc : scenario) : bool :=
  negb (keep_open (sc_api sc)) || existsb is_close (sc_ops sc).

Lemma sc_closed_history_quiet : forall fx sc,
    fst (sc_init fx sc) = Done -> closed_history sc = true ->
    quiet (co (sc_final fx sc)) = true.
Proof.
  intros fx sc Hd Hc. unfold sc_final, closed_history in *.
  pose proof (init_done_winv fx (sc_api sc) (sc_src sc) (sc_index_beside sc)
                (sc_cfault sc) (sc_fc sc)) as Hi.
  pose proof (init_closed_api_closed fx (sc_api sc) (sc_src sc) (sc_index_beside sc)
                (sc_cfault sc) (sc_fc sc)) as Hq.
  unfold sc_init in *.
  destruct (tf_init fx (sc_api sc) (sc_src sc) (sc_index_beside sc) (sc_cfault sc) (sc_fc sc))
    as [o w]. cbn [fst snd] in *. subst o. specialize (Hi eq_refl).
  destruct (keep_open (sc_api sc)) eqn:Hk; cbn [negb orb] in Hc.
  - apply run_ops_closed; assumption.
  - apply run_ops_quiet; [exact Hi|]. apply Hq; [|reflexivity].
    intros E; rewrite E in Hk; discriminate Hk.
Qed.

(* ---------------------------------------------------------------------- *)
(* Reads after close                                                       *)

(* the read is answered without the file: from the arrays TdmsFile.read put
   in memory, from the channel's cached chunk, or by a generator that was
   started before close() and still holds the caller's own (open) stream *)
Definition from_memory (w : world) (o : op) : bool :=
  match o with
  | OReadAll | OReadData | OIter => eager w
  | OReadIndex k => eager w || cache_hit w k
  | OGenNext => match gen w, data (co w) with
                | GRun (S _) _, Obj Caller Open false => true
                | _, _ => false
                end
  | _ => false
  end.

Definition closed_error (o : outcome) : bool :=
  match o with
  | Raise EClosed | Raise ENone | Raise EIO | Stop => true
  | _ => false
  end.

Lemma enter_segments_not_held : forall c ok l,
    held (data c) = false -> l <> [] -> fst (enter_segments c ok l) = Raise ENone.
Proof.
  intros c ok l H Hl. destruct l as [|n r]; [contradiction|]. cbn [enter_segments].
  destruct c as [d i p q]; cbn [data] in *. dh d; try discriminate H; reflexivity.
Qed.

Lemma read_after_close_step : forall fc w o,
    winv w = true -> ensure_open (co w) = false -> is_close o = false ->
    from_memory w o = false -> closed_error (fst (step fc w o)) = true.
Proof.
  intros fc w o Hi Hc Ho Hm.
  assert (Hda : forall ok, data_access (co w) ok = Raise EClosed)
    by (intros ok; unfold data_access; rewrite Hc; reflexivity).
  assert (Hio : is_index_file_only (co w) = false).
  { unfold is_index_file_only, ensure_open in *.
    destruct (held (data (co w))), (held (index (co w))); try discriminate Hc; reflexivity. }
  destruct o; try discriminate Ho; cbn [step from_memory] in *.
  - rewrite Hm, Hio, Hda. reflexivity.
  - rewrite Hm, Hio, Hda. reflexivity.
  - apply orb_false_iff in Hm. destruct Hm as [He Hh]. rewrite He, Hh, Hda. reflexivity.
  - rewrite Hda. reflexivity.
  - rewrite Hm, Hda. reflexivity.
  - destruct (tf_reader w); [rewrite Hda|]; reflexivity.
  - rewrite Hc. reflexivity.
  - destruct (gen_next (co w) (fc_chan_all fc) (gen w)) as [o' g'] eqn:E. cbn [fst snd].
    unfold winv, inv in Hi. unfold ensure_open in Hc.
    destruct (gen w) as [|n later]; cbn [gen_next] in E.
    + inversion E; reflexivity.
    + destruct (co w) as [d i p q]. cbn [data index fp ip] in *.
      dh d; cbn in Hc; try discriminate Hc;
        try (inversion E; reflexivity);
        try (destruct p; cbn in Hi; discriminate Hi).
      destruct n as [|m]; [|discriminate Hm].
      destruct later as [|n' r]; cbn in E; inversion E; reflexivity.
Qed.

(* ---------------------------------------------------------------------- *)
(* TdmsFile.close is idempotent                                            *)

Lemma tf_close_idem : forall w,
    fst (tf_close w) = Done ->
    tf_close (snd (tf_close w)) = (Done, snd (tf_close w)).
Proof.
  intros [c t e ca g]. unfold tf_close. cbn [tf_reader co eager cache gen].
  destruct t; [|reflexivity].
  destruct (reader_close c) as [o c'] eqn:E. cbn [fst snd]. intros H; subst o. reflexivity.
Qed.

(* ---------------------------------------------------------------------- *)
(* TdmsWriter                                                              *)

Definition wslot_ok (h : handle) (p : bool) : bool :=
  match h with
  | Obj Lib Open r => p && r
  | Obj Caller Open _ => negb p
  | Obj Caller Closed _ => false
  | _ => true
  end.

Definition ws_inv (s : wstate) : bool :=
  wslot_ok (wdata s) (wfp s) && wslot_ok (windex s) (wip s) &&
  (negb (lib_open (windex s)) || held (wdata s)) &&
  (wfp s || negb (wip s)).

Definition w_no_owned (s : wstate) : bool :=
  negb (lib_open (wdata s)) && negb (lib_open (windex s)).

Definition w_no_caller_closed (s : wstate) : bool :=
  negb (caller_closed (wdata s)) && negb (caller_closed (windex s)).

Ltac dws s := let d := fresh "d" in let i := fresh "i" in
              let p := fresh "p" in let q := fresh "q" in
              let a := fresh "fa" in let b := fresh "fb" in
              destruct s as [d i p q a b]; dh d; dh i; destruct p; destruct q.

Lemma ws_inv_no_caller_closed : forall s, ws_inv s = true -> w_no_caller_closed s = true.
Proof. intros s; dws s; fin. Qed.

Lemma w_init_inv : forall t, ws_inv (w_init t) = true.
Proof. intros [[|]|[|]]; reflexivity. Qed.

Lemma w_close_inv : forall s, ws_inv s = true -> ws_inv (snd (w_close s)) = true.
Proof. intros s; dws s; fin. Qed.

(* close() - returning or raising - leaves nothing the library opened open *)
Lemma w_close_no_owned : forall s, ws_inv s = true -> w_no_owned (snd (w_close s)) = true.
Proof. intros s; dws s; fin. Qed.

Lemma w_close_fin : forall s, wfin_data (snd (w_close s)) = wfin_data s /\
                              wfin_index (snd (w_close s)) = wfin_index s.
Proof. intros s; dws s; cbv; auto. Qed.

Lemma w_close_idem_state : forall s, snd (w_close (snd (w_close s))) = snd (w_close s).
Proof. intros s; dws s; fin. Qed.

Lemma w_open_inv : forall fx wf s, ws_inv s = true -> ws_inv (snd (w_open fx wf s)) = true.
Proof. intros fx wf s; dws s; destruct fx, wf; fin. Qed.

Lemma w_body_inv : forall b s, ws_inv s = true -> ws_inv (snd (w_body b s)) = true.
Proof.
  induction b as [|[ok| |] r IH]; intros s H; cbn [w_body].
  - exact H.
  - destruct (w_write ok s); [apply IH, H | exact H | exact H].
  - exact H.
  - pose proof (w_close_inv s H) as Hc. destruct (w_close s) as [[| |e] s']; cbn [snd] in *;
      [apply IH, Hc | exact Hc | exact Hc].
Qed.

Lemma w_body_fin : forall b s, wfin_data (snd (w_body b s)) = wfin_data s /\
                               wfin_index (snd (w_body b s)) = wfin_index s.
Proof.
  induction b as [|[ok| |] r IH]; intros s; cbn [w_body]; auto.
  - destruct (w_write ok s); auto.
  - pose proof (w_close_fin s) as [H1 H2].
    destruct (w_close s) as [[| |e] s']; cbn [snd] in *; auto.
    destruct (IH s') as [H3 H4]. rewrite H3, H4. auto.
Qed.

Definition wfault_free (fx : bool) (wf : wfault) : Prop := fx = true \/ wf <> WIndexOpenFails.

Lemma w_open_raise_no_owned : forall fx wf s,
    wfault_free fx wf -> ws_inv s = true -> w_no_owned s = true ->
    fst (w_open fx wf s) <> Done -> w_no_owned (snd (w_open fx wf s)) = true.
Proof.
  intros fx wf s Hf. dws s; destruct fx, wf; cbv; intros H1 H2 H3; try reflexivity;
    try discriminate;
    try (exfalso; apply H3; reflexivity);
    try (destruct Hf as [Hf|Hf]; [discriminate Hf | exfalso; apply Hf; reflexivity]).
Qed.

Lemma w_open_fin_quiet : forall fx wf s, w_no_owned s = true ->
    wfin_data (snd (w_open fx wf s)) = wfin_data s /\
    wfin_index (snd (w_open fx wf s)) = wfin_index s.
Proof.
  intros fx wf s. dws s; destruct fx, wf; cbv; intros H; try discriminate H;
    rewrite ?Nat.add_0_r; auto.
Qed.

Lemma w_with_inv : forall fx wf b s, ws_inv s = true -> ws_inv (snd (w_with fx wf b s)) = true.
Proof.
  intros fx wf b s H. unfold w_with. pose proof (w_open_inv fx wf s H) as Ho.
  destruct (w_open fx wf s) as [[| |e] s1]; cbn [snd] in *; try exact Ho.
  pose proof (w_body_inv b s1 Ho) as Hb. destruct (w_body b s1) as [ob s2]. cbn [snd] in Hb.
  pose proof (w_close_inv s2 Hb) as Hc. destruct (w_close s2) as [oc s3]. exact Hc.
Qed.

(* the with-block of a writer, entered in any state that owns nothing open:
   afterwards (normal exit, exception in the body, exception in __enter__)
   nothing the library opened is open *)
Lemma w_with_no_owned : forall fx wf b s,
    wfault_free fx wf -> ws_inv s = true -> w_no_owned s = true ->
    w_no_owned (snd (w_with fx wf b s)) = true.
Proof.
  intros fx wf b s Hf Hi Hq. unfold w_with.
  pose proof (w_open_inv fx wf s Hi) as Ho.
  pose proof (w_open_raise_no_owned fx wf s Hf Hi Hq) as Hr.
  destruct (w_open fx wf s) as [[| |e] s1]; cbn [fst snd] in *;
    try (apply Hr; discriminate).
  pose proof (w_body_inv b s1 Ho) as Hb. destruct (w_body b s1) as [ob s2]. cbn [snd] in Hb.
  pose proof (w_close_no_owned s2 Hb) as Hc. destruct (w_close s2) as [oc s3]. exact Hc.
Qed.

Lemma w_with_fin : forall fx wf b s, w_no_owned s = true ->
    wfin_data (snd (w_with fx wf b s)) = wfin_data s /\
    wfin_index (snd (w_with fx wf b s)) = wfin_index s.
Proof.
  intros fx wf b s Hq. unfold w_with. pose proof (w_open_fin_quiet fx wf s Hq) as [H1 H2].
  destruct (w_open fx wf s) as [[| |e] s1]; cbn [snd] in *; auto.
  pose proof (w_body_fin b s1) as [H3 H4]. destruct (w_body b s1) as [ob s2]. cbn [snd] in *.
  pose proof (w_close_fin s2) as [H5 H6]. destruct (w_close s2) as [oc s3]. cbn [snd] in *.
  rewrite H5, H6, H3, H4. auto.
Qed.

(* an exception raised inside the with-block is not swallowed *)
Lemma w_with_propagates : forall fx wf b s,
    fst (w_open fx wf s) = Done ->
    fst (w_body b (snd (w_open fx wf s))) <> Done ->
    fst (w_with fx wf b s) <> Done.
Proof.
  intros fx wf b s Ho Hb. unfold w_with. destruct (w_open fx wf s) as [o s1].
  cbn [fst snd] in *. subst o. destruct (w_body b s1) as [ob s2]. cbn [fst] in Hb.
  destruct (w_close s2) as [oc s3]. cbn [fst]. unfold after.
  destruct oc; [exact Hb | discriminate | discriminate].
Qed.

Definition wop_fault_free (fx : bool) (o : wop) : Prop :=
  match o with WWith wf _ => wfault_free fx wf | _ => True end.

Lemma w_step_inv : forall fx s o, ws_inv s = true -> ws_inv (snd (w_step fx s o)) = true.
Proof.
  intros fx s [wf b| |ok] H; cbn [w_step snd].
  - apply w_with_inv, H.
  - apply w_close_inv, H.
  - exact H.
Qed.

Lemma w_run_inv : forall fx ops s, ws_inv s = true -> ws_inv (w_run fx s ops) = true.
Proof.
  intros fx ops; induction ops as [|o r IH]; intros s H; cbn [w_run]; [exact H|].
  apply IH, w_step_inv, H.
Qed.

Definition w_clean (s : wstate) : Prop :=
  w_no_owned s = true /\ wfin_data s = 0 /\ wfin_index s = 0.

Lemma w_step_clean : forall fx s o, wop_fault_free fx o -> ws_inv s = true ->
    w_clean s -> w_clean (snd (w_step fx s o)).
Proof.
  intros fx s [wf b| |ok] Hf Hi (Hq & H1 & H2); cbn [w_step snd wop_fault_free] in *.
  - pose proof (w_with_fin fx wf b s Hq) as [H3 H4]. repeat split.
    + apply w_with_no_owned; assumption.
    + rewrite H3; exact H1.
    + rewrite H4; exact H2.
  - pose proof (w_close_fin s) as [H3 H4]. repeat split.
    + apply w_close_no_owned, Hi.
    + rewrite H3; exact H1.
    + rewrite H4; exact H2.
  - repeat split; assumption.
Qed.

Lemma w_run_clean : forall fx ops s, Forall (wop_fault_free fx) ops -> ws_inv s = true ->
    w_clean s -> w_clean (w_run fx s ops).
Proof.
  intros fx ops; induction ops as [|o r IH]; intros s Hf Hi Hc; cbn [w_run]; [exact Hc|].
  inversion Hf as [|? ? Ho Hr]; subst.
  apply IH; [exact Hr | apply w_step_inv, Hi | apply w_step_clean; assumption].
Qed.

Lemma w_init_clean : forall t, w_clean (w_init t).
Proof. intros [[|]|[|]]; repeat split; reflexivity. Qed.

(* the unpatched writer: open() failing on the index file leaves the data
   file open (defect D19, third site) *)
Lemma w_open_index_fails_unpatched_leaks :
  fst (w_with false WIndexOpenFails [] (w_init (WPath true))) = Raise EOpen /\
  lib_open (wdata (snd (w_with false WIndexOpenFails [] (w_init (WPath true))))) = true.
Proof. split; reflexivity. Qed.

(* TdmsWriter.close() is not idempotent in outcome for a path target:
   the second call raises AttributeError (state unchanged) *)
Lemma w_second_close_raises_on_path : forall ix,
    let s := snd (w_with false WNoFault [] (w_init (WPath ix))) in
    w_close s = (Raise ENone, s).
Proof. intros [|]; reflexivity. Qed.

Lemma w_second_close_ok_on_stream : forall ix,
    let s := snd (w_with false WNoFault [] (w_init (WStream ix))) in
    w_close s = (Done, s).
Proof. intros [|]; reflexivity. Qed.

(* ---------------------------------------------------------------------- *)
(* defragment                                                              *)

Lemma defragment_no_owned : forall fx src ib cf fc t wf b,
    fx = true \/ cf <> CIndexOpenFails -> wfault_free fx wf ->
    let '(o, w, s) := defragment fx src ib cf fc t wf b in
    owned_open (co w) = [] /\ w_no_owned s = true /\
    no_caller_closed (co w) = true /\ w_no_caller_closed s = true.
Proof.
  intros fx src ib cf fc t wf b Hd Hw. unfold defragment.
  pose proof (init_closed_api_quiet fx ApiRead src ib cf fc) as Hq.
  pose proof (init_no_caller_closed fx ApiRead src ib cf fc) as Hn.
  destruct (tf_init fx ApiRead src ib cf fc) as [o w]. cbn [snd] in *.
  assert (Hq' : owned_open (co w) = []) by (apply Hq; [discriminate | exact Hd]).
  destruct o.
  - pose proof (w_with_no_owned fx wf b (w_init t) Hw (w_init_inv t)) as H1.
    pose proof (w_with_inv fx wf b (w_init t) (w_init_inv t)) as H2.
    destruct (w_with fx wf b (w_init t)) as [o' s]. cbn [snd] in *.
    repeat split; auto.
    + apply H1. destruct t as [[|]|[|]]; reflexivity.
    + apply ws_inv_no_caller_closed, H2.
  - repeat split; auto; destruct t as [[|]|[|]]; reflexivity.
  - repeat split; auto; destruct t as [[|]|[|]]; reflexivity.
Qed.

(* ---------------------------------------------------------------------- *)
(* Statements in the form used by Props/C20.v                              *)

Lemma sc_closed_history_no_owned : forall fx sc,
    fst (sc_init fx sc) = Done -> closed_history sc = true ->
    owned_open (co (sc_final fx sc)) = [] /\ ensure_open (co (sc_final fx sc)) = false.
Proof.
  intros fx sc Hd Hc. pose proof (sc_closed_history_quiet fx sc Hd Hc) as H.
  split; [apply quiet_owned_open, H | apply quiet_closed, H].
Qed.

Lemma sc_read_after_close_raises : forall fx sc o,
    fst (sc_init fx sc) = Done -> closed_history sc = true -> is_close o = false ->
    from_memory (sc_final fx sc) o = false ->
    closed_error (fst (step (sc_fc sc) (sc_final fx sc) o)) = true.
Proof.
  intros fx sc o Hd Hc Ho Hm. apply read_after_close_step; try assumption.
  - apply sc_final_winv, Hd.
  - apply (sc_closed_history_no_owned fx sc Hd Hc).
Qed.

(* a read answered after close never comes from the file *)
Lemma sc_read_after_close_data_is_from_memory : forall fx sc o,
    fst (sc_init fx sc) = Done -> closed_history sc = true -> is_close o = false ->
    fst (step (sc_fc sc) (sc_final fx sc) o) = Done ->
    from_memory (sc_final fx sc) o = true.
Proof.
  intros fx sc o Hd Hc Ho Hr. destruct (from_memory (sc_final fx sc) o) eqn:E; [reflexivity|].
  pose proof (sc_read_after_close_raises fx sc o Hd Hc Ho E) as H. rewrite Hr in H.
  discriminate H.
Qed.

Lemma sc_close_idempotent : forall fx sc o1 o2,
    fst (sc_init fx sc) = Done -> is_close o1 = true -> is_close o2 = true ->
    let w1 := snd (step (sc_fc sc) (sc_final fx sc) o1) in
    fst (step (sc_fc sc) (sc_final fx sc) o1) = Done /\
    step (sc_fc sc) w1 o2 = (Done, w1).
Proof.
  intros fx sc o1 o2 Hd H1 H2. cbv zeta. rewrite (step_close _ _ _ H1).
  rewrite (step_close _ _ _ H2).
  pose proof (tf_close_done _ (sc_final_winv fx sc Hd)) as Hc. split; [exact Hc|].
  apply tf_close_idem, Hc.
Qed.

Lemma w_history_with_block : forall fx t ops wf b,
    Forall (wop_fault_free fx) ops -> wfault_free fx wf ->
    let s' := snd (w_with fx wf b (w_run fx (w_init t) ops)) in
    w_no_owned s' = true /\ w_left_to_finaliser s' = (0, 0) /\ w_no_caller_closed s' = true.
Proof.
  intros fx t ops wf b Hf Hw. cbv zeta.
  pose proof (w_run_inv fx ops (w_init t) (w_init_inv t)) as Hi.
  pose proof (w_run_clean fx ops (w_init t) Hf (w_init_inv t) (w_init_clean t)) as Hc.
  pose proof (w_step_clean fx _ (WWith wf b) Hw Hi Hc) as (H1 & H2 & H3).
  cbn [w_step] in *. repeat split.
  - exact H1.
  - unfold w_left_to_finaliser. unfold w_no_owned in H1. rewrite H2, H3.
    destruct (lib_open (wdata _)), (lib_open (windex _)); try discriminate H1. reflexivity.
  - apply ws_inv_no_caller_closed, w_with_inv, Hi.
Qed.

Lemma w_history_no_caller_closed : forall fx t ops,
    w_no_caller_closed (w_run fx (w_init t) ops) = true.
Proof.
  intros fx t ops. apply ws_inv_no_caller_closed, w_run_inv, w_init_inv.
Qed.
