(* C10 composed with the reader model: the file TdmsWriter.defragment writes
   (Model/Defrag.v call list through Model/Writer.v) READS (Model/Reader.v
   rd_all) to the content it was given.  On top of Proofs/WriteRead.v. *)
From Coq Require Import List ZArith Bool Lia ZifyBool FinFun.
From Coq Require Import Init.Byte.
Import ListNotations.
From NpTdms Require Import Base.Bytes Base.Res Model.Tokens Model.TokensWf Model.ByteStr
  Model.StrictParse Model.Writer Model.Defrag Proofs.ByteStrProofs Proofs.WriterProofs Proofs.DefragProofs.
From NpTdms Require Import Model.SegState Model.Layout Model.Reader Model.FileSyn
  Proofs.SegStateProofs Proofs.LayoutProofs Proofs.FileSynProofs Proofs.ReadCorrect
  Proofs.WriteReadSpec Proofs.WriteReadBytes Proofs.WriteReadState Proofs.WriteReadHier
  Proofs.WriteReadData Proofs.WriteReadCalls Proofs.WriteRead.
Local Open Scope Z_scope.

(* the objects defragment writes, in order: root, then every group followed by
   its channels - each object of the source exactly once *)
Definition defrag_group_seq (g : dgroup) : list wobj :=
  WGroup (dg_name g) (dg_props g) :: map (defrag_chan (dg_name g)) (dg_chans g).

Definition defrag_seq (c : dcontent) : list wobj :=
  WRoot (d_root_props c) :: flat_map defrag_group_seq (d_groups c).

Lemma obj_seq_defrag v c :
  obj_seq [(v, defrag_calls c)] =
  WRoot (d_root_props c) ::
  flat_map (fun g => WGroup (dg_name g) (dg_props g) ::
                     flat_map (fun ch => [WGroup (dg_name g) []; defrag_chan (dg_name g) ch]) (dg_chans g))
           (d_groups c).
Proof.
  unfold obj_seq, all_calls. cbn [flat_map snd]. rewrite app_nil_r. unfold defrag_calls.
  cbn [flat_map]. change (call_seq [WRoot (d_root_props c)]) with [WRoot (d_root_props c)]. cbn [app]. f_equal.
  induction (d_groups c) as [|g gs IH]; [reflexivity|].
  cbn [flat_map]. rewrite flat_map_app, IH. f_equal.
  unfold defrag_group_calls. cbn [flat_map].
  change (call_seq [WGroup (dg_name g) (dg_props g)]) with [WGroup (dg_name g) (dg_props g)]. cbn [app]. f_equal.
  induction (dg_chans g) as [|ch chs IHc]; [reflexivity|].
  cbn [map flat_map]. rewrite IHc. reflexivity.
Qed.

Lemma defrag_flat_map {B} (h : wobj -> list B) v c :
  blank_vanish h -> flat_map h (obj_seq [(v, defrag_calls c)]) = flat_map h (defrag_seq c).
Proof.
  intros [_ Hg]. rewrite obj_seq_defrag. unfold defrag_seq. cbn [flat_map]. f_equal.
  induction (d_groups c) as [|g gs IH]; [reflexivity|].
  cbn [flat_map]. rewrite !flat_map_app, IH. f_equal. unfold defrag_group_seq. cbn [flat_map]. f_equal.
  induction (dg_chans g) as [|ch chs IHc]; [reflexivity|].
  cbn [map flat_map app]. rewrite Hg, IHc. reflexivity.
Qed.

Lemma fold_add_new_seen g : forall (l : list bytes) acc,
  (forall x, In x l -> x = g) -> In g acc -> fold_left add_new l acc = acc.
Proof.
  induction l as [|x l IH]; intros acc Hall Hin; [reflexivity|]. cbn [fold_left].
  rewrite (Hall x (or_introl eq_refl)). unfold add_new at 2.
  replace (mem g acc) with true by (symmetry; apply mem_In; exact Hin).
  apply IH; [|exact Hin]. intros y Hy. apply Hall. right. exact Hy.
Qed.

Lemma defrag_names v c : forall acc,
  fold_left add_new (names (obj_seq [(v, defrag_calls c)])) acc =
  fold_left add_new (names (defrag_seq c)) acc.
Proof.
  rewrite obj_seq_defrag. unfold defrag_seq, names. cbn [flat_map group_name_of app].
  induction (d_groups c) as [|g gs IH]; intros acc; [reflexivity|].
  cbn [flat_map]. rewrite !flat_map_app, !fold_left_app. rewrite <- IH. f_equal.
  unfold defrag_group_seq. cbn [flat_map group_name_of app fold_left].
  set (acc1 := add_new acc (dg_name g)).
  assert (Hin : In (dg_name g) acc1) by (apply add_new_in; right; reflexivity).
  rewrite (fold_add_new_seen (dg_name g)); [|intros x Hx|exact Hin].
  - rewrite (fold_add_new_seen (dg_name g)); [reflexivity| |exact Hin].
    intros x Hx. apply in_flat_map in Hx. destruct Hx as [o [Ho Hx]].
    apply in_map_iff in Ho. destruct Ho as [ch [<- _]]. destruct Hx.
  - apply in_flat_map in Hx. destruct Hx as [o [Ho Hx]].
    apply in_flat_map in Ho. destruct Ho as [ch [_ Ho]].
    destruct Ho as [<-|[<-|[]]]; cbn [group_name_of In] in Hx; [|contradiction].
    destruct Hx as [<-|[]]. reflexivity.
Qed.

Lemma defrag_content_tokens v c :
  content_tokens_of_calls [(v, defrag_calls c)] = content_tokens_of_seq v (defrag_seq c).
Proof.
  unfold content_tokens_of_calls. cbn [content_version defrag_calls].
  apply content_equiv.
  - intros B h Hb. apply defrag_flat_map. exact Hb.
  - unfold group_names, dedup. apply (defrag_names v c []).
Qed.

(* each source object is written once: no channel gets two data types *)
Lemma defrag_consistent v c :
  NoDup (map obj_path (defrag_seq c)) -> dtypes_consistent [(v, defrag_calls c)] = true.
Proof.
  intros Hnd. unfold dtypes_consistent. apply forallb_forall. intros o _.
  unfold dtypes_of. rewrite (defrag_flat_map (at_path (obj_path o) obj_dtypes) v c)
    by (apply at_path_blank; reflexivity).
  rewrite at_path_sel.
  destruct (sel_cases obj_path (obj_path o) (defrag_seq c) Hnd) as [[_ Hs]|(a & _ & _ & Hs)]; rewrite Hs.
  - reflexivity.
  - cbn [flat_map]. rewrite app_nil_r.
    destruct a as [ps|g ps|g ch dt vs ps]; cbn [obj_dtypes]; try reflexivity.
    destruct (dt =? T_VOID); reflexivity.
Qed.

(* the destination file reads to the content it was given *)
Theorem defrag_read_lemma : forall v c data index,
  Writer.wf_file [(v, defrag_calls c)] = true ->
  sizes_below_marker [(v, defrag_calls c)] = true ->
  NoDup (map obj_path (defrag_seq c)) ->
  defrag v c = Ok (data, index) ->
  rd_all data = Ok (content_tokens_of_seq v (defrag_seq c), true).
Proof.
  intros v c data index Hwf Hsz Hnd Hd. unfold defrag in Hd.
  pose proof (session_as_file _ _ _ _ Hd) as Hf.
  rewrite (write_read_lemma _ data index Hwf Hsz (defrag_consistent v c Hnd) Hf).
  rewrite defrag_content_tokens. reflexivity.
Qed.

(* ---- distinct names give distinct paths --------------------------------------------------------- *)

Definition names_distinct (c : dcontent) : Prop :=
  NoDup (map dg_name (d_groups c)) /\
  forall g, In g (d_groups c) -> NoDup (map dc_name (dg_chans g)).

Definition okind (o : wobj) : pkind :=
  match o with
  | WRoot _ => KRoot
  | WGroup g _ => KGroup g
  | WChan g c _ _ _ => KChan g c
  end.

Lemma classify_obj o : classify (obj_path o) = Some (okind o).
Proof. destruct o; cbn [obj_path okind]; [apply classify_root|apply classify_group|apply classify_chan]. Qed.

Lemma NoDup_app_intro' {A} (l1 l2 : list A) :
  NoDup l1 -> NoDup l2 -> (forall x, In x l1 -> ~ In x l2) -> NoDup (l1 ++ l2).
Proof.
  induction l1 as [|a l1 IH]; intros H1 H2 Hd; cbn [app]; [exact H2|].
  inversion H1 as [|x y Ha H1']; subst. constructor.
  - intros Hin. apply in_app_or in Hin. destruct Hin as [Hin|Hin]; [exact (Ha Hin)|].
    apply (Hd a); [left; reflexivity|exact Hin].
  - apply IH; [exact H1'|exact H2|]. intros x Hx. apply Hd. right. exact Hx.
Qed.

Lemma group_seq_kinds g :
  map okind (defrag_group_seq g) = KGroup (dg_name g) :: map (fun ch => KChan (dg_name g) (dc_name ch)) (dg_chans g).
Proof. unfold defrag_group_seq. cbn [map okind]. rewrite map_map. reflexivity. Qed.

Lemma kind_in_groups k gs :
  In k (map okind (flat_map defrag_group_seq gs)) ->
  exists g, In g gs /\ (k = KGroup (dg_name g) \/ exists ch, In ch (dg_chans g) /\ k = KChan (dg_name g) (dc_name ch)).
Proof.
  intros H. apply in_map_iff in H. destruct H as [o [<- Ho]]. apply in_flat_map in Ho.
  destruct Ho as [g [Hg Ho]]. exists g. split; [exact Hg|].
  destruct Ho as [<-|Ho]; [left; reflexivity|]. apply in_map_iff in Ho. destruct Ho as [ch [<- Hch]].
  right. exists ch. split; [exact Hch|reflexivity].
Qed.

Lemma groups_kinds_nodup : forall gs,
  NoDup (map dg_name gs) -> (forall g, In g gs -> NoDup (map dc_name (dg_chans g))) ->
  NoDup (map okind (flat_map defrag_group_seq gs)).
Proof.
  induction gs as [|g gs IH]; intros Hn Hc; [constructor|].
  cbn [map] in Hn. inversion Hn as [|x y Hg Hn']; subst.
  cbn [flat_map]. rewrite map_app. apply NoDup_app_intro'.
  - rewrite group_seq_kinds. constructor.
    + intros Hin. apply in_map_iff in Hin. destruct Hin as [ch [E _]]. discriminate E.
    + pose proof (Hc g (or_introl eq_refl)) as Hcg. clear -Hcg.
      induction (dg_chans g) as [|ch chs IHc]; [constructor|].
      cbn [map] in *. inversion Hcg as [|x y Hch Hcg']; subst. constructor; [|apply IHc; exact Hcg'].
      intros Hin. apply in_map_iff in Hin. destruct Hin as [ch' [E Hch']]. injection E as E.
      apply Hch. rewrite <- E. apply in_map. exact Hch'.
  - apply IH; [exact Hn'|]. intros g' Hg'. apply Hc. right. exact Hg'.
  - intros k Hk Hk'. rewrite group_seq_kinds in Hk.
    destruct (kind_in_groups k gs Hk') as (g' & Hg' & Hkk).
    assert (Hne : dg_name g' <> dg_name g).
    { intros E. apply Hg. rewrite <- E. apply in_map. exact Hg'. }
    destruct Hk as [<-|Hk].
    + destruct Hkk as [E|(ch & _ & E)]; [injection E as E; apply Hne; symmetry; exact E|discriminate E].
    + apply in_map_iff in Hk. destruct Hk as [ch [<- _]].
      destruct Hkk as [E|(ch' & _ & E)]; [discriminate E|]. injection E as E _. apply Hne. symmetry. exact E.
Qed.

Lemma defrag_paths_nodup c : names_distinct c -> NoDup (map obj_path (defrag_seq c)).
Proof.
  intros [Hn Hc]. apply (NoDup_map_inv classify). rewrite map_map.
  rewrite (map_ext _ (fun o => Some (okind o)) classify_obj), <- (map_map okind Some).
  apply Injective_map_NoDup; [intros a b E; injection E as E; exact E|].
  unfold defrag_seq. cbn [map okind]. constructor.
  - intros Hin. destruct (kind_in_groups _ _ Hin) as (g & _ & [E|(ch & _ & E)]); discriminate E.
  - apply groups_kinds_nodup; assumption.
Qed.

(* ---- the content hierarchy of the destination, spelled out -------------------------------------- *)

Definition dtype_opt (ch : dchan) : option Z :=
  let ty := defrag_type (dc_type ch) (dc_vals ch) in if ty =? T_VOID then None else Some ty.

Definition hchan_of (g : bytes) (ch : dchan) : channel :=
  mkChan g (dc_name ch) (chan_path g (dc_name ch)) (dtype_opt ch) None
         (Z.of_nat (length (dc_vals ch))) (merge_props (dc_props ch) []).

Definition hgroup_of (G : dgroup) : group :=
  mkGroup (dg_name G) (merge_props (dg_props G) [])
          (map (fun ch => (dc_name ch, hchan_of (dg_name G) ch)) (dg_chans G)).

Definition hier_of_content (c : dcontent) : hierarchy :=
  mkHier (merge_props (d_root_props c) []) (map (fun G => (dg_name G, hgroup_of G)) (d_groups c)).

Lemma at_unique {B} (f : wobj -> list B) S o :
  NoDup (map obj_path S) -> In o S -> flat_map (at_path (obj_path o) f) S = f o.
Proof.
  intros Hnd Hin. rewrite at_path_sel, (sel_unique obj_path S o Hnd Hin). cbn [flat_map]. apply app_nil_r.
Qed.

Lemma fold_add_new_fresh : forall l acc,
  NoDup l -> (forall x, In x l -> ~ In x acc) -> fold_left add_new l acc = acc ++ l.
Proof.
  induction l as [|x l IH]; intros acc Hnd Hfresh; cbn [fold_left]; [rewrite app_nil_r; reflexivity|].
  inversion Hnd as [|a b Hx Hnd']; subst.
  unfold add_new at 2. replace (mem x acc) with false
    by (symmetry; apply mem_false; apply Hfresh; left; reflexivity).
  rewrite IH; [rewrite <- app_assoc; reflexivity|exact Hnd'|].
  intros y Hy Hin. apply in_app_or in Hin. destruct Hin as [Hin|[<-|[]]].
  - exact (Hfresh y (or_intror Hy) Hin).
  - exact (Hx Hy).
Qed.

Lemma dedup_id l : NoDup l -> dedup l = l.
Proof. intros H. unfold dedup. rewrite (fold_add_new_fresh l [] H); [reflexivity|]. intros x _ []. Qed.

Lemma group_seq_names G : flat_map group_name_of (defrag_group_seq G) = [dg_name G].
Proof.
  unfold defrag_group_seq. cbn [flat_map group_name_of app]. f_equal.
  induction (dg_chans G) as [|ch chs IH]; [reflexivity|]. cbn [map flat_map defrag_chan group_name_of app]. exact IH.
Qed.

Lemma defrag_seq_names c : flat_map group_name_of (defrag_seq c) = map dg_name (d_groups c).
Proof.
  unfold defrag_seq. cbn [flat_map group_name_of app].
  induction (d_groups c) as [|G gs IH]; [reflexivity|].
  cbn [flat_map map]. rewrite flat_map_app, group_seq_names, IH. reflexivity.
Qed.

Lemma group_seq_chan_names g G :
  flat_map (chan_name_of g) (defrag_group_seq G) =
  if bytes_eqb g (dg_name G) then map dc_name (dg_chans G) else [].
Proof.
  unfold defrag_group_seq. cbn [flat_map chan_name_of app].
  induction (dg_chans G) as [|ch chs IH].
  - destruct (bytes_eqb g (dg_name G)); reflexivity.
  - cbn [map flat_map defrag_chan chan_name_of]. rewrite IH.
    destruct (bytes_eqb g (dg_name G)); reflexivity.
Qed.

Lemma defrag_seq_chan_names : forall gs G,
  NoDup (map dg_name gs) -> In G gs ->
  flat_map (chan_name_of (dg_name G)) (flat_map defrag_group_seq gs) = map dc_name (dg_chans G).
Proof.
  induction gs as [|G0 gs IH]; intros G Hnd Hin; [destruct Hin|].
  cbn [map] in Hnd. inversion Hnd as [|x y Hn Hnd']; subst.
  cbn [flat_map]. rewrite flat_map_app, group_seq_chan_names.
  destruct Hin as [<-|Hin].
  - rewrite bytes_eqb_refl.
    replace (flat_map (chan_name_of (dg_name G0)) (flat_map defrag_group_seq gs)) with (@nil bytes);
      [apply app_nil_r|].
    symmetry. clear -Hn. induction gs as [|G1 gs IH]; [reflexivity|].
    cbn [flat_map]. rewrite flat_map_app, group_seq_chan_names.
    destruct (bytes_eqb (dg_name G0) (dg_name G1)) eqn:E.
    + apply bytes_eqb_eq in E. exfalso. apply Hn. left. symmetry. exact E.
    + cbn [app]. apply IH. intros H. apply Hn. right. exact H.
  - destruct (bytes_eqb (dg_name G) (dg_name G0)) eqn:E.
    + apply bytes_eqb_eq in E. exfalso. apply Hn. rewrite <- E. apply in_map. exact Hin.
    + cbn [app]. apply IH; assumption.
Qed.

Lemma chan_obj_dtype g ch : hd_error (obj_dtypes (defrag_chan g ch)) = dtype_opt ch.
Proof.
  unfold defrag_chan, dtype_opt. cbn [obj_dtypes].
  destruct (defrag_type (dc_type ch) (dc_vals ch) =? T_VOID); reflexivity.
Qed.

Theorem defrag_hierarchy c :
  names_distinct c ->
  content_hierarchy (defrag_seq c) = hier_of_content c /\
  forall G ch, In G (d_groups c) -> In ch (dg_chans G) ->
               values_at (chan_path (dg_name G) (dc_name ch)) (defrag_seq c) = dc_vals ch.
Proof.
  intros Hd. pose proof (defrag_paths_nodup c Hd) as Hnd. destruct Hd as [Hgn Hcn].
  set (S := defrag_seq c) in *.
  assert (Hroot : In (WRoot (d_root_props c)) S) by (left; reflexivity).
  assert (Hgrp : forall G, In G (d_groups c) -> In (WGroup (dg_name G) (dg_props G)) S).
  { intros G HG. right. apply in_flat_map. exists G. split; [exact HG|left; reflexivity]. }
  assert (Hchn : forall G ch, In G (d_groups c) -> In ch (dg_chans G) -> In (defrag_chan (dg_name G) ch) S).
  { intros G ch HG Hch. right. apply in_flat_map. exists G. split; [exact HG|].
    right. apply in_map. exact Hch. }
  split.
  - unfold content_hierarchy, hier_of_content. f_equal.
    + unfold props_at. change ROOT_PATH with (obj_path (WRoot (d_root_props c))).
      rewrite (at_unique obj_props S _ Hnd Hroot). reflexivity.
    + unfold group_names.
      replace (flat_map group_name_of S) with (map dg_name (d_groups c)) by (symmetry; apply defrag_seq_names).
      rewrite (dedup_id _ Hgn), map_map.
      apply map_ext_in. intros G HG. f_equal. unfold content_group, hgroup_of. f_equal.
      * unfold props_at. change (group_path (dg_name G)) with (obj_path (WGroup (dg_name G) (dg_props G))).
        rewrite (at_unique obj_props S _ Hnd (Hgrp G HG)). reflexivity.
      * unfold chan_names.
        replace (flat_map (chan_name_of (dg_name G)) S) with (map dc_name (dg_chans G)).
        2:{ unfold S, defrag_seq. cbn [flat_map chan_name_of app].
            symmetry. apply (defrag_seq_chan_names _ G Hgn HG). }
        rewrite (dedup_id _ (Hcn G HG)), map_map.
        apply map_ext_in. intros ch Hch. f_equal. unfold content_channel, hchan_of.
        change (chan_path (dg_name G) (dc_name ch)) with (obj_path (defrag_chan (dg_name G) ch)).
        unfold dtype_at, values_at, props_at.
        rewrite !(at_unique _ S _ Hnd (Hchn G ch HG Hch)), chan_obj_dtype. reflexivity.
  - intros G ch HG Hch. unfold values_at.
    change (chan_path (dg_name G) (dc_name ch)) with (obj_path (defrag_chan (dg_name G) ch)).
    rewrite (at_unique obj_values S _ Hnd (Hchn G ch HG Hch)). reflexivity.
Qed.

(* ---- the destination's observation, written out on the content ----------------------------------- *)

Definition chan_data_of (ch : dchan) : option cdata :=
  match dtype_opt ch with None => None | Some _ => Some (CData (dc_vals ch)) end.

Definition defrag_tokens (v : Z) (c : dcontent) : list tok :=
  TZ v ::
  (obs_props (merge_props (d_root_props c) []) ++
   TZ (Z.of_nat (length (d_groups c))) ::
   flat_map (fun G =>
               TB (dg_name G) :: obs_props (merge_props (dg_props G) []) ++
               TZ (Z.of_nat (length (dg_chans G))) ::
               flat_map (fun ch => obs_channel_meta (hchan_of (dg_name G) ch) ++ obs_cdata (chan_data_of ch))
                        (dg_chans G))
            (d_groups c)) ++ [TZ 0; TZ 0].

Lemma defrag_tokens_eq v c :
  names_distinct c -> content_tokens_of_seq v (defrag_seq c) = defrag_tokens v c.
Proof.
  intros Hd. destruct (defrag_hierarchy c Hd) as [Hh Hv].
  unfold content_tokens_of_seq, defrag_tokens. rewrite Hh. f_equal. f_equal.
  unfold obs_hierarchy, hier_of_content. cbn [h_root h_groups]. f_equal. rewrite map_length. f_equal.
  rewrite flat_map_map. apply flat_map_ext_in'. intros G HG.
  cbn [snd hgroup_of g_name g_props g_chans]. f_equal. f_equal. rewrite map_length. f_equal.
  rewrite flat_map_map. apply flat_map_ext_in'. intros ch Hch. cbn [snd]. f_equal.
  unfold content_data, chan_data_of. cbn [hchan_of ch_dtype ch_path].
  destruct (dtype_opt ch); [|reflexivity]. rewrite (Hv G ch HG Hch). reflexivity.
Qed.

Theorem defrag_read_tokens_lemma : forall v c data index,
  Writer.wf_file [(v, defrag_calls c)] = true ->
  sizes_below_marker [(v, defrag_calls c)] = true ->
  names_distinct c ->
  defrag v c = Ok (data, index) ->
  rd_all data = Ok (defrag_tokens v c, true).
Proof.
  intros v c data index Hwf Hsz Hd Hdf.
  rewrite (defrag_read_lemma v c data index Hwf Hsz (defrag_paths_nodup c Hd) Hdf).
  rewrite (defrag_tokens_eq v c Hd). reflexivity.
Qed.

(* ---- the content defragment reads from a source -------------------------------------------------- *)

Definition dchan_of_read (chunks : list chunk) (ch : channel) : dchan :=
  mkDChan (ch_name ch) (ch_dtype ch)
          (match ch_dtype ch with None => [] | Some _ => chan_values (ch_path ch) chunks end)
          (map snd (ch_props ch)).

Definition content_of_read (h : hierarchy) (chunks : list chunk) : dcontent :=
  mkDContent (map snd (h_root h))
    (map (fun kg => mkDGroup (fst kg) (map snd (g_props (snd kg)))
                             (map (fun kc => dchan_of_read chunks (snd kc)) (g_chans (snd kg))))
         (h_groups h)).

Lemma content_of_read_distinct om h chunks :
  build_hierarchy om = Ok h -> names_distinct (content_of_read h chunks).
Proof.
  intros Hh. destruct (build_hierarchy_structure om h Hh) as [Hg Hc]. split.
  - unfold content_of_read. cbn [d_groups]. rewrite map_map. cbn [dg_name]. exact Hg.
  - intros G HG. unfold content_of_read in HG. cbn [d_groups] in HG.
    apply in_map_iff in HG. destruct HG as [kg [<- Hkg]]. cbn [dg_chans].
    rewrite Forall_forall in Hc. destruct (Hc kg Hkg) as [Hnd Hnames].
    rewrite map_map.
    rewrite (map_ext_in _ fst); [exact Hnd|].
    intros [n ch] Hin. cbn [snd fst dchan_of_read dc_name]. exact (proj1 (Hnames n ch Hin)).
Qed.

(* source read (C01) and destination read (C07 on defragment's calls), side by side *)
Theorem defrag_preserves_read_lemma : forall segs st h chunkss v data' index',
  FileSynProofs.wf_file segs ->
  sm_run segs false = Ok st ->
  build_hierarchy (rs_om st) = Ok h ->
  segs_encode (rs_segments st) segs chunkss ->
  om_paths_canonical (rs_om st) ->
  typed_objects_are_channels (rs_om st) ->
  let c := content_of_read h (concat chunkss) in
  Writer.wf_file [(v, defrag_calls c)] = true ->
  sizes_below_marker [(v, defrag_calls c)] = true ->
  defrag v c = Ok (data', index') ->
  rd_all (ser_file segs) = Ok (expected_tokens st h (concat chunkss), true) /\
  rd_all data' = Ok (defrag_tokens v c, true).
Proof.
  intros segs st h chunkss v data' index' Hwf Hrun Hh Henc Hcan Hty c Hwfc Hsz Hd. split.
  - exact (read_correct segs st h chunkss Hwf Hrun Hh Henc Hcan Hty).
  - exact (defrag_read_tokens_lemma v c data' index' Hwfc Hsz (content_of_read_distinct _ h _ Hh) Hd).
Qed.
