(* Helper lemmas for the lazy-read proofs: ranges, mapM, chunk prefix lengths,
   the inner chunk loop (emit_chunks) and the receivers. *)
From Coq Require Import ZArith List Bool Lia ZifyBool.
From NpTdms Require Import Base.Res Base.PySlice Model.LazyRead.
Import ListNotations.
Open Scope Z_scope.

(* ---- generic list facts ------------------------------------------------ *)

Section Generic.
  Context {A : Type}.

  Lemma zfirstn_nonpos : forall n (l : list A), n <= 0 -> zfirstn n l = [].
  Proof. intros n l H. unfold zfirstn. replace (Z.to_nat n) with O by lia. reflexivity. Qed.

  Lemma zskipn_nonpos : forall n (l : list A), n <= 0 -> zskipn n l = l.
  Proof. intros n l H. unfold zskipn. replace (Z.to_nat n) with O by lia. reflexivity. Qed.

  Lemma zfirstn_all : forall n (l : list A), zlen l <= n -> zfirstn n l = l.
  Proof. intros n l H. unfold zfirstn, zlen in *. apply firstn_all2. lia. Qed.

  Lemma zskipn_all : forall n (l : list A), zlen l <= n -> zskipn n l = [].
  Proof. intros n l H. unfold zskipn, zlen in *. apply skipn_all2. lia. Qed.

  Lemma zlen_zfirstn : forall n (l : list A), 0 <= n -> zlen (zfirstn n l) = Z.min n (zlen l).
  Proof. intros n l H. unfold zfirstn, zlen. rewrite firstn_length. lia. Qed.

  Lemma zlen_zskipn : forall n (l : list A), 0 <= n -> zlen (zskipn n l) = Z.max 0 (zlen l - n).
  Proof. intros n l H. unfold zskipn, zlen. rewrite skipn_length. lia. Qed.

  Lemma zfirstn_zskipn : forall n (l : list A), zfirstn n l ++ zskipn n l = l.
  Proof. intros. apply firstn_skipn. Qed.

  Lemma sl_0 : forall b (l : list A), sl 0 b l = zfirstn b l.
  Proof. intros. unfold sl. rewrite Z.sub_0_r. rewrite zskipn_nonpos by lia. reflexivity. Qed.

  Lemma zfirstn_app_sl : forall a b (l : list A), 0 <= a -> a <= b ->
    zfirstn b l = zfirstn a l ++ sl a b l.
  Proof.
    intros a b l Ha Hab. rewrite <- !sl_0. symmetry. apply sl_app_adj; lia.
  Qed.

  Lemma zfirstn_app : forall n (l1 l2 : list A),
    zfirstn n (l1 ++ l2) = zfirstn n l1 ++ zfirstn (n - zlen l1) l2.
  Proof.
    intros. unfold zfirstn, zlen. rewrite firstn_app. f_equal. f_equal. lia.
  Qed.

  Lemma zskipn_app_le : forall n (l1 l2 : list A), n <= zlen l1 ->
    zskipn n (l1 ++ l2) = zskipn n l1 ++ l2.
  Proof.
    intros n l1 l2 H. unfold zskipn, zlen in *. rewrite skipn_app.
    replace (Z.to_nat n - length l1)%nat with O by lia. reflexivity.
  Qed.

  Lemma zlen_concat_app : forall (l1 l2 : list (list A)),
    zlen (concat (l1 ++ l2)) = zlen (concat l1) + zlen (concat l2).
  Proof. intros. rewrite concat_app. apply zlen_app. Qed.

  Lemma sl_shift : forall a b (l1 l2 : list A), zlen l1 <= a ->
    sl a b (l1 ++ l2) = sl (a - zlen l1) (b - zlen l1) l2.
  Proof. intros. apply sl_app_r. assumption. Qed.

  Lemma sl_whole : forall a b (l : list A), a <= 0 -> zlen l <= b -> 0 <= zlen l -> sl a b l = l.
  Proof.
    intros a b l Ha Hb _. unfold sl. rewrite zskipn_nonpos by lia. apply zfirstn_all. lia.
  Qed.

  (* window of the middle part of a three-part list *)
  Lemma sl_middle : forall (l1 l2 l3 : list A) a b,
    zlen l1 <= a -> b <= zlen l1 + zlen l2 ->
    sl a b (l1 ++ l2 ++ l3) = sl (a - zlen l1) (b - zlen l1) l2.
  Proof.
    intros l1 l2 l3 a b Ha Hb. pose proof (zlen_nonneg l1).
    rewrite sl_app_r by lia. apply sl_app_l; lia.
  Qed.
End Generic.

(* ---- zrange ------------------------------------------------------------- *)

Lemma zrange_empty : forall a b, b <= a -> zrange a b = [].
Proof. intros a b H. unfold zrange. replace (Z.to_nat (b - a)) with O by lia. reflexivity. Qed.

Lemma zrange_cons : forall a b, a < b -> zrange a b = a :: zrange (a + 1) b.
Proof.
  intros a b H. unfold zrange.
  replace (Z.to_nat (b - a)) with (S (Z.to_nat (b - (a + 1)))) by lia.
  cbn [seq map]. f_equal; [lia|].
  rewrite <- seq_shift. rewrite map_map. apply map_ext. intros k. lia.
Qed.

Lemma zrange_In : forall a b c, In c (zrange a b) <-> a <= c < b.
Proof.
  intros a b c. unfold zrange. rewrite in_map_iff. split.
  - intros [k [Hk Hin]]. apply in_seq in Hin. lia.
  - intros H. exists (Z.to_nat (c - a)). split; [lia|]. apply in_seq. lia.
Qed.

Lemma zrange_length : forall a b, zlen (zrange a b) = Z.max 0 (b - a).
Proof. intros. unfold zrange, zlen. rewrite map_length, seq_length. lia. Qed.

(* ---- mapM --------------------------------------------------------------- *)

Lemma mapM_ok_cons : forall {A B} (f : A -> res B) x r y ys,
  f x = Ok y -> mapM f r = Ok ys -> mapM f (x :: r) = Ok (y :: ys).
Proof. intros A B f x r y ys H1 H2. cbn [mapM]. rewrite H1. cbn [bind]. rewrite H2. reflexivity. Qed.

Section Chunks.
  Variable V : Type.
  Notation segv := (segv V).

  (* fetching chunks a .. b-1 of a segment succeeds and gives that sublist *)
  Lemma mapM_chunk_at : forall (sv : segv) n a,
    0 <= a -> a + Z.of_nat n <= sv_nchunks sv -> zlen (sv_vals sv) = sv_nchunks sv ->
    mapM (chunk_at V sv) (zrange a (a + Z.of_nat n)) = Ok (sl a (a + Z.of_nat n) (sv_vals sv)).
  Proof.
    intros sv n. induction n as [|n IH]; intros a Ha Hb Hlen.
    - rewrite zrange_empty by lia. rewrite sl_nil_ge by lia. reflexivity.
    - rewrite zrange_cons by lia.
      assert (Hnth : exists ch, nth_error (sv_vals sv) (Z.to_nat a) = Some ch).
      { destruct (nth_error (sv_vals sv) (Z.to_nat a)) eqn:E; [eauto|].
        apply nth_error_None in E. unfold zlen in Hlen. lia. }
      destruct Hnth as [ch Hch].
      replace (a + Z.of_nat (S n)) with ((a + 1) + Z.of_nat n) by lia.
      assert (Hone : sl a (a + 1) (sv_vals sv) = [ch]).
      { unfold sl, zfirstn, zskipn. replace (Z.to_nat (a + 1 - a)) with 1%nat by lia.
        clear - Hch. revert Hch. generalize (Z.to_nat a) as k. generalize (sv_vals sv) as l.
        induction l as [|x r IHl]; intros k Hk; destruct k; cbn in *; try discriminate.
        * injection Hk as ->. reflexivity.
        * apply IHl. exact Hk. }
      rewrite <- (sl_app_adj a (a + 1) (a + 1 + Z.of_nat n)) by lia.
      rewrite Hone. cbn [app].
      apply mapM_ok_cons.
      + unfold chunk_at. replace ((0 <=? a) && (a <? sv_nchunks sv)) with true by lia.
        rewrite Hch. reflexivity.
      + apply IH; lia.
  Qed.

  Lemma mapM_chunk_at' : forall (sv : segv) a b,
    0 <= a -> a <= b -> b <= sv_nchunks sv -> zlen (sv_vals sv) = sv_nchunks sv ->
    mapM (chunk_at V sv) (zrange a b) = Ok (sl a b (sv_vals sv)).
  Proof.
    intros sv a b Ha Hab Hb Hlen.
    replace b with (a + Z.of_nat (Z.to_nat (b - a))) by lia.
    apply mapM_chunk_at; lia.
  Qed.

  (* ---- prefix lengths of a well-formed chunk list ---------------------- *)

  (* number of values in the first k chunks *)
  Definition plen (vals : list (list V)) (k : Z) : Z := zlen (concat (zfirstn k vals)).

  Lemma plen_0 : forall vals, plen vals 0 = 0.
  Proof. intros. unfold plen. rewrite zfirstn_nonpos by lia. reflexivity. Qed.

  Lemma plen_all : forall vals k, zlen vals <= k -> plen vals k = zlen (concat vals).
  Proof. intros. unfold plen. rewrite zfirstn_all by lia. reflexivity. Qed.

  Lemma plen_mono : forall vals a b, 0 <= a -> a <= b -> plen vals a <= plen vals b.
  Proof.
    intros vals a b Ha Hab. unfold plen.
    rewrite (zfirstn_app_sl a b) by lia. rewrite zlen_concat_app.
    pose proof (zlen_nonneg (concat (sl a b vals))). lia.
  Qed.

  Lemma concat_sl : forall (vals : list (list V)) a b, 0 <= a -> a <= b ->
    concat (sl a b vals) = sl (plen vals a) (plen vals b) (concat vals).
  Proof.
    intros vals a b Ha Hab. unfold plen.
    replace (concat vals) with (concat (zfirstn b vals) ++ concat (zskipn b vals))
      by (rewrite <- concat_app, zfirstn_zskipn; reflexivity).
    rewrite sl_app_l; [| apply zlen_nonneg | lia].
    rewrite (zfirstn_app_sl a b) by lia. rewrite concat_app.
    rewrite sl_app_r by lia. rewrite zlen_app.
    rewrite Z.sub_diag.
    replace (zlen (concat (zfirstn a vals)) + zlen (concat (sl a b vals)) - zlen (concat (zfirstn a vals)))
      with (zlen (concat (sl a b vals))) by lia.
    symmetry. apply sl_all.
  Qed.

  Lemma chunks_ok_cons2 : forall cs fl c d r,
    chunks_ok V cs fl (c :: d :: r) = (zlen c =? cs) && chunks_ok V cs fl (d :: r).
  Proof. reflexivity. Qed.

  (* all chunks before the last one hold cs values *)
  Lemma chunks_ok_plen : forall cs fl vals, chunks_ok V cs fl vals = true ->
    forall k, 0 <= k -> k < zlen vals -> plen vals k = k * cs.
  Proof.
    intros cs fl vals. induction vals as [|c r IH]; intros Hok k Hk Hlt.
    - rewrite zlen_nil in Hlt. lia.
    - destruct (Z.eq_dec k 0) as [->|Hne]; [apply plen_0|].
      destruct r as [|d r'].
      + rewrite zlen_cons, zlen_nil in Hlt. lia.
      + rewrite chunks_ok_cons2 in Hok. apply andb_true_iff in Hok. destruct Hok as [Hc Hr].
        unfold plen, zfirstn in *.
        replace (Z.to_nat k) with (S (Z.to_nat (k - 1))) by lia.
        cbn [firstn concat]. rewrite zlen_app.
        rewrite zlen_cons in Hlt.
        rewrite IH; [lia | exact Hr | lia | lia].
  Qed.

  Lemma chunks_ok_total : forall cs fl vals, chunks_ok V cs fl vals = true -> 1 <= zlen vals ->
    zlen (concat vals) = (zlen vals - 1) * cs + fl.
  Proof.
    intros cs fl vals. induction vals as [|c r IH]; intros Hok Hlen.
    - rewrite zlen_nil in Hlen. lia.
    - destruct r as [|d r'].
      + cbn [chunks_ok] in Hok. cbn [concat]. rewrite app_nil_r. unfold zlen in *. cbn [length]. lia.
      + rewrite chunks_ok_cons2 in Hok. apply andb_true_iff in Hok. destruct Hok as [Hc Hr].
        change (concat (c :: d :: r')) with (c ++ concat (d :: r')).
        rewrite zlen_app. rewrite IH; [| exact Hr | rewrite zlen_cons; pose proof (zlen_nonneg r'); lia].
        rewrite !zlen_cons. lia.
  Qed.

  (* the final chunk length the metadata declares *)
  Definition final_len (sv : segv) : Z :=
    match sv_final sv with None => sv_chunk sv | Some f => f end.

  Lemma wf_seg_facts : forall sv, wf_seg V sv = true ->
    0 <= sv_chunk sv /\ 0 <= sv_nchunks sv /\ zlen (sv_vals sv) = sv_nchunks sv /\
    0 <= final_len sv <= sv_chunk sv /\
    (sv_final sv <> None -> 1 <= sv_nchunks sv) /\
    chunks_ok V (sv_chunk sv) (final_len sv) (sv_vals sv) = true.
  Proof.
    intros sv H. unfold wf_seg in H. unfold final_len.
    destruct (sv_final sv) as [f|].
    - repeat (apply andb_true_iff in H; destruct H as [H ?]).
      repeat split; try lia; try assumption.
    - repeat (apply andb_true_iff in H; destruct H as [H ?]).
      repeat split; try lia; try assumption. intros X; congruence.
  Qed.

  (* total number of values of a well-formed segment, as the metadata computes it *)
  Lemma wf_seg_total : forall sv, wf_seg V sv = true ->
    zlen (seg_vals V sv) = number_of_segment_values V sv /\
    number_of_segment_values V sv =
      (if sv_nchunks sv =? 0 then 0 else (sv_nchunks sv - 1) * sv_chunk sv + final_len sv).
  Proof.
    intros sv H. destruct (wf_seg_facts sv H) as (Hcs & HN & Hlen & Hfl & Hfin & Hok).
    unfold seg_vals, number_of_segment_values.
    destruct (Z.eq_dec (sv_nchunks sv) 0) as [HN0|HN0].
    - replace (sv_nchunks sv =? 0) with true by lia.
      assert (sv_vals sv = []) as ->.
      { revert Hlen. destruct (sv_vals sv) as [|c0 l0]; [reflexivity|]. intros Hlen.
        rewrite zlen_cons in Hlen. pose proof (zlen_nonneg l0). lia. }
      assert (sv_final sv = None) as Hnone.
      { destruct (sv_final sv); [|reflexivity]. exfalso. assert (1 <= sv_nchunks sv) by (apply Hfin; congruence). lia. }
      rewrite Hnone. cbn [concat]. rewrite zlen_nil.
      destruct (sv_chunk sv =? 0); split; lia.
    - replace (sv_nchunks sv =? 0) with false by lia.
      rewrite (chunks_ok_total _ _ _ Hok) by lia. rewrite Hlen.
      unfold final_len in *. destruct (sv_chunk sv =? 0) eqn:E0.
      + destruct (sv_final sv); split; nia.
      + destruct (sv_final sv); split; nia.
  Qed.

  (* prefix lengths of a well-formed segment in closed form *)
  Lemma wf_seg_plen : forall sv k, wf_seg V sv = true -> 0 <= k -> k <= sv_nchunks sv ->
    plen (sv_vals sv) k = Z.min (k * sv_chunk sv) (number_of_segment_values V sv).
  Proof.
    intros sv k H Hk HkN. destruct (wf_seg_facts sv H) as (Hcs & HN & Hlen & Hfl & Hfin & Hok).
    destruct (wf_seg_total sv H) as [Htot Hnv].
    destruct (Z.eq_dec k (sv_nchunks sv)) as [->|Hne].
    - rewrite plen_all by lia. fold (seg_vals V sv). rewrite Htot. rewrite Hnv.
      destruct (sv_nchunks sv =? 0) eqn:E; nia.
    - rewrite (chunks_ok_plen _ _ _ Hok) by lia. rewrite Hnv.
      replace (sv_nchunks sv =? 0) with false by lia. nia.
  Qed.

  (* ---- the inner chunk loop -------------------------------------------- *)

  (* no chunk is trimmed past its start (otherwise Python's negative stop
     would bring values back) and the first skip fits in the first chunk *)
  Fixpoint emit_ok (objs : list (list V)) (sk vr length : Z) : Prop :=
    match objs with
    | [] => True
    | c :: r => 0 <= sk <= zlen c /\ vr - sk <= length /\ emit_ok r 0 (vr + zlen c - sk) length
    end.

  Lemma trim_channel_chunk_spec : forall (c : list V) sk trim,
    0 <= sk -> 0 <= trim <= zlen c -> trim_channel_chunk V c sk trim = sl sk (zlen c - trim) c.
  Proof.
    intros c sk trim Hsk Htrim. unfold trim_channel_chunk.
    destruct ((sk =? 0) && (trim =? 0)) eqn:E.
    - assert (sk = 0) by lia. assert (trim = 0) by lia. subst.
      rewrite Z.sub_0_r. symmetry. apply sl_all.
    - apply py_slice_nonneg; lia.
  Qed.

  Lemma emit_chunks_spec : forall objs (first : bool) skip vr length,
    let sk := if first then skip else 0 in
    emit_ok objs sk vr length ->
    exists outs,
      emit_chunks V objs first skip vr length =
        (outs, vr + zlen (concat objs) - match objs with [] => 0 | _ => sk end) /\
      concat outs = zfirstn (length - vr) (zskipn sk (concat objs)).
  Proof.
    induction objs as [|c r IH]; intros first skip vr length sk Hok.
    - exists (@nil (list V)). cbn. split; [f_equal; lia|].
      unfold zskipn. rewrite skipn_nil. unfold zfirstn. rewrite firstn_nil. reflexivity.
    - cbn [emit_ok] in Hok. destruct Hok as (Hsk & Hvr & Hrest).
      cbn [emit_chunks]. fold sk.
      set (vr1 := vr + (zlen c - sk)).
      specialize (IH false skip vr1 length). cbv beta zeta iota in IH.
      replace (vr + zlen c - sk) with vr1 in Hrest by (unfold vr1; lia).
      destruct (IH Hrest) as [outs' [Hemit Hcat]]. clear IH.
      rewrite Hemit.
      set (trim := if vr1 <? length then 0 else vr1 - length).
      exists (trim_channel_chunk V c sk trim :: outs'). split.
      + f_equal. cbn [concat]. rewrite zlen_app. unfold vr1.
        destruct r; lia.
      + cbn [concat]. rewrite Hcat. clear Hemit Hcat.
        assert (Htrim : 0 <= trim <= zlen c) by (unfold trim, vr1; destruct (vr + (zlen c - sk) <? length) eqn:E; lia).
        rewrite trim_channel_chunk_spec by lia.
        rewrite zskipn_app_le by lia.
        rewrite zfirstn_app. rewrite zlen_zskipn by lia.
        rewrite zskipn_nonpos with (n := 0) by lia.
        f_equal.
        * unfold sl. unfold trim, vr1.
          destruct (vr + (zlen c - sk) <? length) eqn:E.
          -- rewrite Z.sub_0_r. rewrite !zfirstn_all; [reflexivity | |]; rewrite zlen_zskipn by lia; lia.
          -- f_equal. lia.
        * f_equal. unfold vr1. lia.
  Qed.

  (* it is enough that the LAST object starts at or before the end of the window *)
  Lemma emit_ok_of_last : forall objs sk vr length,
    (match objs with [] => True | c :: _ => 0 <= sk <= zlen c end) ->
    vr - sk + zlen (concat (removelast objs)) <= length ->
    emit_ok objs sk vr length.
  Proof.
    induction objs as [|c r IH]; intros sk vr length Hsk Hlast; [exact I|].
    cbn [emit_ok]. pose proof (zlen_nonneg (concat (removelast (c :: r)))) as Hnn.
    split; [exact Hsk|]. split; [lia|].
    destruct r as [|d r']; [exact I|].
    apply IH.
    - pose proof (zlen_nonneg d). lia.
    - change (removelast (c :: d :: r')) with (c :: removelast (d :: r')) in Hlast.
      cbn [concat] in Hlast. rewrite zlen_app in Hlast. lia.
  Qed.

  Lemma removelast_sl : forall (l : list (list V)) a b, 0 <= a -> a < b -> b <= zlen l ->
    removelast (sl a b l) = sl a (b - 1) l.
  Proof.
    intros l a b Ha Hab Hb.
    rewrite <- (sl_app_adj a (b - 1) b) by lia.
    assert (Hone : exists x, sl (b - 1) b l = [x]).
    { assert (Hl : zlen (sl (b - 1) b l) = 1) by (rewrite zlen_sl by lia; lia).
      destruct (sl (b - 1) b l) as [|x [|y t]].
      - rewrite zlen_nil in Hl. lia.
      - eauto.
      - rewrite !zlen_cons in Hl. pose proof (zlen_nonneg t). lia. }
    destruct Hone as [x ->]. rewrite removelast_app by discriminate. cbn. apply app_nil_r.
  Qed.

  (* ---- receivers ------------------------------------------------------- *)

  Variable zero : V.

  Lemma recv_numpy_spec : forall chunks (done : list V) k,
    zlen (concat chunks) <= Z.of_nat k ->
    recv_numpy V (done ++ repeat zero k) (zlen done) chunks =
      Ok (done ++ concat chunks ++ repeat zero (k - Z.to_nat (zlen (concat chunks)))).
  Proof.
    induction chunks as [|c r IH]; intros done k Hfit.
    - cbn. rewrite Nat.sub_0_r. reflexivity.
    - cbn [recv_numpy concat] in *. rewrite zlen_app in Hfit.
      pose proof (zlen_nonneg c) as Hc. pose proof (zlen_nonneg (concat r)) as Hr.
      pose proof (zlen_nonneg done) as Hd.
      rewrite zlen_app. assert (Hrep : zlen (repeat zero k) = Z.of_nat k) by (unfold zlen; rewrite repeat_length; lia).
      rewrite Hrep.
      replace (Z.min (zlen done + zlen c) (zlen done + Z.of_nat k) - Z.min (zlen done) (zlen done + Z.of_nat k) =? zlen c)
        with true by lia.
      assert (Hsplit : repeat zero k = repeat zero (Z.to_nat (zlen c)) ++ repeat zero (k - Z.to_nat (zlen c))).
      { rewrite <- repeat_app. f_equal. lia. }
      assert (Hfirst : zfirstn (zlen done) (done ++ repeat zero k) = done).
      { rewrite zfirstn_app. rewrite Z.sub_diag. rewrite zfirstn_all by lia. rewrite zfirstn_nonpos by lia. apply app_nil_r. }
      assert (Hskip : zskipn (zlen done + zlen c) (done ++ repeat zero k) = repeat zero (k - Z.to_nat (zlen c))).
      { unfold zskipn. rewrite skipn_app. unfold zlen. rewrite skipn_all2 by lia. cbn [app].
        replace (Z.to_nat (Z.of_nat (length done) + Z.of_nat (length c)) - length done)%nat with (length c) by lia.
        rewrite Hsplit at 1. unfold zlen. rewrite Nat2Z.id.
        rewrite skipn_app. rewrite repeat_length. rewrite Nat.sub_diag.
        rewrite skipn_all2 by (rewrite repeat_length; lia). reflexivity. }
      rewrite Hfirst, Hskip.
      replace (done ++ c ++ repeat zero (k - Z.to_nat (zlen c))) with ((done ++ c) ++ repeat zero (k - Z.to_nat (zlen c)))
        by (rewrite app_assoc; reflexivity).
      replace (zlen done + zlen c) with (zlen (done ++ c)) by (rewrite zlen_app; reflexivity).
      rewrite IH by (unfold zlen in *; lia).
      replace (k - Z.to_nat (zlen c) - Z.to_nat (zlen (concat r)))%nat
        with (k - Z.to_nat (zlen (c ++ concat r)))%nat by (rewrite zlen_app; unfold zlen; lia).
      rewrite <- !app_assoc. reflexivity.
  Qed.

  Lemma recv_numpy_exact : forall chunks,
    recv_numpy V (repeat zero (Z.to_nat (zlen (concat chunks)))) 0 chunks = Ok (concat chunks).
  Proof.
    intros chunks.
    pose proof (recv_numpy_spec chunks [] (Z.to_nat (zlen (concat chunks)))) as H.
    cbn [app] in H. rewrite zlen_nil in H. rewrite H by (pose proof (zlen_nonneg (concat chunks)); lia).
    rewrite Nat.sub_diag. cbn [repeat]. rewrite app_nil_r. reflexivity.
  Qed.

End Chunks.
