From Coq Require Import List ZArith Bool Lia.
Import ListNotations.
From NpTdms Require Import Base.Bytes Base.Res Model.Tokens Model.SegState Model.Layout Model.Reader.
Local Open Scope Z_scope.

Lemma receive_concat vs1 vs2 acc :
    receive (Some (CData acc)) (CData vs1) = Ok (Some (CData (acc ++ vs1))) /\
    (do r <- receive (Some (CData acc)) (CData vs1); receive r (CData vs2))
    = Ok (Some (CData (acc ++ vs1 ++ vs2))).
Proof. split; cbn; [reflexivity|]. rewrite app_assoc. reflexivity. Qed.

(* ---- the lazy read on bytes (Model/LazyBytes.v) -------------------------------- *)
From NpTdms Require Import Base.PySlice Model.LazyRead Model.LazyBytes Proofs.LazyTopProofs.

Lemma lz_read_bytes_window data path svs dt offs len :
  channel_view data path = Ok (svs, Some dt) ->
  wf bytes svs = true -> 0 <= offs ->
  (match len with None => True | Some l => 0 <= l end) ->
  lz_read_bytes data path offs len =
  Ok (match len with
      | None => zskipn offs (full bytes svs)
      | Some l => zfirstn l (zskipn offs (full bytes svs))
      end).
Proof.
  intros Hv Hwf Ho Hl. unfold lz_read_bytes. rewrite Hv. cbn [bind].
  apply (LazyTopProofs.window_correct bytes zero_value); assumption.
Qed.

Lemma lz_read_bytes_full data path svs dt :
  channel_view data path = Ok (svs, Some dt) ->
  wf bytes svs = true ->
  lz_read_bytes data path 0 None = Ok (full bytes svs).
Proof.
  intros Hv Hwf. rewrite (lz_read_bytes_window data path svs dt 0 None Hv Hwf); [|lia|exact I].
  reflexivity.
Qed.

(* every window is the window of the full lazy read *)
Lemma lz_read_bytes_window_of_full data path svs dt offs len full_vals :
  channel_view data path = Ok (svs, Some dt) ->
  wf bytes svs = true -> 0 <= offs ->
  (match len with None => True | Some l => 0 <= l end) ->
  lz_read_bytes data path 0 None = Ok full_vals ->
  lz_read_bytes data path offs len =
  Ok (match len with
      | None => zskipn offs full_vals
      | Some l => zfirstn l (zskipn offs full_vals)
      end).
Proof.
  intros Hv Hwf Ho Hl Hfull.
  rewrite (lz_read_bytes_full data path svs dt Hv Hwf) in Hfull. injection Hfull as <-.
  apply (lz_read_bytes_window data path svs dt); assumption.
Qed.
