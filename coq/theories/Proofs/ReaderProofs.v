From Coq Require Import List ZArith Bool Lia.
Import ListNotations.
From NpTdms Require Import Base.Bytes Base.Res Model.Tokens Model.SegState Model.Layout Model.Reader.
Local Open Scope Z_scope.

Lemma receive_concat vs1 vs2 acc :
    receive (Some (CData acc)) (CData vs1) = Ok (Some (CData (acc ++ vs1))) /\
    (do r <- receive (Some (CData acc)) (CData vs1); receive r (CData vs2))
    = Ok (Some (CData (acc ++ vs1 ++ vs2))).
Proof. split; cbn; [reflexivity|]. rewrite app_assoc. reflexivity. Qed.
