(* The C02 theorems about the hand model (Proofs/SegStateInherit.v, SegStateExplicit.v), restated on the functions
   TRANSLATED from nptdms/tdms_segment.py and nptdms/reader.py (Gen/PyFuncsSegState.v) through the equalities of
   Proofs/GenSegStateEquiv.v. *)
From Coq Require Import String.
From Coq Require Import ZArith List Bool Lia.
From Coq Require Import Init.Byte.
Import ListNotations.
From NpTdms Require Import Base.Bytes Base.Res Base.PySlice Model.Tokens Model.SegState
     Gen.TypeTable Gen.PyFuncsReader Gen.PyFuncsSegState Proofs.SegStateProofs Proofs.SegStateInherit
     Proofs.SegStateExplicit Proofs.GenReaderEquiv Proofs.GenSegStateEquiv.
Local Open Scope Z_scope.

Lemma res_map_err {A B} (f : A -> B) (r : res A) e : res_map f r = Err e -> r = Err e.
Proof. destruct r; cbn; [discriminate|]. intros [= ->]. reflexivity. Qed.

Lemma res_map_ok {A B} (f : A -> B) (r : res A) b : res_map f r = Ok b -> exists a, r = Ok a /\ f a = b.
Proof. destruct r as [a|]; cbn; [|discriminate]. intros [= <-]. exists a. split; reflexivity. Qed.

(* (a) a first segment without metadata *)
Theorem forbidden_rejected_first_without_metadata_gen h pos toc np dp inc es prev gcache :
  toc_has toc TOC_META = false ->
  read_segment_objects_gen h pos toc np dp inc es prev gcache None = Err EValue.
Proof.
  intros Hm. unfold read_segment_objects_gen. change (negb (Z.land toc 2 =? 0)) with (toc_has toc TOC_META).
  rewrite Hm. reflexivity.
Qed.

(* (b) "same as before" for an object seen neither in the inherited list nor in any earlier segment *)
Theorem forbidden_rejected_unseen_match_prev_gen h pos toc np dp inc prev gcache pseg pre mid x es :
  let base := if toc_has toc TOC_NEWLIST then None else option_map gs_objs pseg in
  toc_has toc TOC_META = true ->
  Forall entry_lexed (pre ++ x :: es) ->
  (toc_has toc TOC_NEWLIST = false -> forall g, pseg = Some g -> hits_fresh (gs_objs g) [] (pre ++ x :: es)) ->
  match gcache with Some c => cache_wf h c | None => True end ->
  fold_entries base prev (match base with Some l => l | None => [] end) pre = Ok mid ->
  unseen base prev (e_path x) -> e_idx x = IMatchPrev ->
  read_segment_objects_gen h pos toc np dp inc (pre ++ x :: es) prev gcache pseg = Err EValue.
Proof.
  intros base Hm Hl Hf Hwf Hpre Hu Hi.
  pose proof (forbidden_rejected_unseen_match_prev_segment toc prev (option_map gs_objs pseg) pre mid x es Hpre Hu Hi) as Hr.
  apply (res_map_err gen_view).
  rewrite (read_segment_objects_gen_eq h pos toc np dp inc (pre ++ x :: es) prev gcache pseg Hl).
  - unfold model_segment. rewrite Hm, Hr. reflexivity.
  - intros _ Hn. exact (Hf Hn).
  - exact Hwf.
  - intros objs props. rewrite Hm, Hr. discriminate.
Qed.

(* (c) a channel changing its data type *)
Theorem forbidden_rejected_type_change_gen prev om seg o r m t :
  sg_objs seg = o :: r ->
  alookup (so_path o) om = Some m -> om_dtype m = Some t -> so_dtype o <> Some t ->
  update_object_metadata_gen prev om seg = Err EValue.
Proof.
  intros Hs Ha Hm Ho. rewrite update_object_metadata_gen_eq, Hs.
  exact (forbidden_rejected_type_change_segment o r _ _ prev om m t Ha Hm Ho).
Qed.

(* one step of the property on the translated function: any accepted encoding of a segment and its fully explicit
   re-encoding (new-object-list flag set, every object restated) give the same ordered objects, chunk count and
   final-chunk override *)
Theorem inheritance_transparent_step_gen h pos toc np dp inc es prev gcache pseg p objs i n f c :
  prev_keys_ok prev -> prev_wf prev -> base_tracked (option_map gs_objs pseg) prev ->
  Forall entry_lexed es -> Forall entry_bufs es -> prev_bufs prev ->
  match pseg with Some g => bufs_nonneg (gs_objs g) | None => True end ->
  (toc_has toc TOC_META = true -> toc_has toc TOC_NEWLIST = false ->
   forall g, pseg = Some g -> hits_fresh (gs_objs g) [] es) ->
  match gcache with Some c0 => cache_wf h c0 | None => True end ->
  read_segment_objects_gen h pos toc np dp inc es prev gcache pseg = Ok (p, (objs, i, n, f, c)) ->
  (forall o, In o objs -> so_has_data o = true -> so_dtype o <> None) ->
  Forall entry_lexed (explicit_entries objs) ->
  exists p' i' c',
    read_segment_objects_gen h pos (explicit_toc toc) np dp inc (explicit_entries objs) prev gcache pseg
    = Ok (p', (objs, i', n, f, c')) /\ pview p' = [].
Proof.
  intros Hk Hw Hb Hl Hbf Hpb Hsb Hf Hwf Hg Hd Hle.
  pose proof (read_segment_objects_gen_eq_inputs h pos toc np dp inc es prev gcache pseg Hl Hbf Hpb Hsb Hf Hwf) as He.
  rewrite Hg in He. cbn [res_map gen_view] in He. symmetry in He. unfold model_segment in He.
  destruct (read_segment_objects toc (if toc_has toc TOC_META then Some es else None) prev (option_map gs_objs pseg))
    as [[objs0 props0]|] eqn:Er; cbn [bind] in He; [|discriminate].
  assert (Hc : exists idx0 cache0, calculate_chunks toc inc objs0 (np - dp) = Ok (n, f) /\ objs0 = objs /\
                                   (idx0, cache0) = (index_view i, cview c) /\ props0 = pview p).
  { destruct (match (if toc_has toc TOC_META then Some es else None) with
              | Some _ => if match gcache with Some _ => true | None => false end
                          then get_index (cview gcache) objs0 else ([], cview gcache)
              | None => (match pseg with Some g => index_view (gs_index g) | None => [] end, cview gcache)
              end) as [idx0 cache0].
    destruct (calculate_chunks toc inc objs0 (np - dp)) as [[n0 f0]|]; cbn [bind] in He; [|discriminate].
    injection He as -> -> -> -> -> ->. exists (index_view i), (cview c). repeat split. }
  destruct Hc as (idx0 & cache0 & Hcc & -> & _ & _).
  pose proof (inheritance_transparent_step toc _ prev (option_map gs_objs pseg) objs props0 (explicit_toc toc)
                                           Hk Hw Hb Er Hd (explicit_toc_newlist toc)) as Hx.
  assert (Hbo : bufs_nonneg objs).
  { refine (read_segment_objects_bufs _ _ _ _ _ _ _ Hpb _ Er).
    - destruct (toc_has toc TOC_META); [exact Hbf|exact I].
    - destruct pseg; exact Hsb. }
  pose proof (read_segment_objects_gen_eq h pos (explicit_toc toc) np dp inc (explicit_entries objs) prev gcache pseg Hle) as He2.
  rewrite (explicit_toc_meta toc) in He2. cbn zeta in He2.
  assert (Hf2 : true = true -> toc_has (explicit_toc toc) TOC_NEWLIST = false ->
                forall g, pseg = Some g -> hits_fresh (gs_objs g) [] (explicit_entries objs)).
  { intros _ Hn. rewrite (explicit_toc_newlist toc) in Hn. discriminate. }
  assert (Hb2 : forall objs1 props1,
             read_segment_objects (explicit_toc toc) (Some (explicit_entries objs)) prev (option_map gs_objs pseg)
             = Ok (objs1, props1) -> bufs_nonneg objs1).
  { intros objs1 props1 H1. rewrite Hx in H1. injection H1 as <- _. exact Hbo. }
  assert (He4 := He2 Hf2 Hwf Hb2). clear He2.
  unfold model_segment in He4. rewrite Hx in He4. cbn [bind] in He4.
  rewrite (calculate_chunks_toc toc (explicit_toc toc) inc objs (np - dp) (explicit_toc_interleaved toc)), Hcc in He4.
  destruct (if match gcache with Some _ => true | None => false end then get_index (cview gcache) objs else ([], cview gcache))
    as [idx1 cache1].
  cbn [bind] in He4. destruct (res_map_ok _ _ _ He4) as ([p' [[[[o' i'] n'] f'] c']] & Hgen & Hview).
  cbn [gen_view] in Hview. injection Hview as Hp' -> _ -> -> _.
  exists p', i', c'. split; [exact Hgen|exact Hp'].
Qed.

(* a cache hit returns what a fresh computation of the index gives *)
Definition cache_good (h : bytes -> Z) (c : hdict) : Prop := cache_wf h c /\ cache_ok (cache_view c).

Theorem index_cache_transparent_gen h c objs iz c' :
  cache_good h c -> get_index_gen h c objs = Ok (iz, c') ->
  zidx iz = fresh_index (map so_path objs) /\ cache_good h c'.
Proof.
  intros [Hwf Hok] Hg. destruct (get_index_gen_view h c objs Hwf) as (iz0 & c0 & Hg0 & Hwf0 & Hv).
  rewrite Hg in Hg0. injection Hg0 as <- <-.
  destruct (get_index_fresh (cache_view c) objs Hok) as [H1 H2]. rewrite <- Hv in H1, H2. cbn [fst snd] in H1, H2.
  split; [exact H1|]. split; assumption.
Qed.

Lemma cache_good_nil h : cache_good h [].
Proof. split; [constructor|apply cache_ok_nil]. Qed.
