(* TdmsChannel.time_track TRANSLATED from nptdms/tdms.py (Gen/PyFuncsTimeTrack.v, regenerated from the source on
   every run) equals the binary64 model Model/TimeTrackF.v:
     time_track()                                  = time_track_fl offset increment len
     time_track(absolute_time=True, accuracy=r)    = map (time_track_abs_f start r offset increment len) [0 .. len)
         start = TdmsTimestamp.as_datetime64(r) (the translated function of Gen/PyFuncsTime.v), or the count of a
         datetime64[us] property when r = us
     KeyError when wf_increment / wf_start_offset / wf_start_time is missing, in the order the code looks them up
   and Props/C12_round.v (time_track_rounding, time_track_absolute_rounding) holds of the translated functions. *)
From Coq Require Import String.
From Coq Require Import Reals ZArith List Bool Lia.
From Coq Require Import PrimFloat.
From Flocq Require Import Core.
Import ListNotations.
From NpTdms Require Import Base.Res Model.Timestamp Model.TimeTrackF Gen.PyFuncsTime Gen.PyFuncsTimeTrack.
From NpTdms Require Import Proofs.GenTimeEquiv Proofs.HornerRound Proofs.TimeTrackRound.
Local Open Scope Z_scope.

Lemma in_zrange n i : In i (zrange n) -> 0 <= i < n.
Proof.
  unfold zrange. intros H. apply in_map_iff in H. destruct H as (k & <- & Hk). apply in_seq in Hk. lia.
Qed.

(* the stop handed to np.linspace: offset + (len - 1) * increment with the int converted to binary64 *)
Lemma linspace_stop o c n : 1 <= n ->
  (o + py_int_to_float (n - 1) * c)%float = time_track_stop o c n.
Proof.
  intros Hn. unfold py_int_to_float, time_track_stop.
  replace (0 <=? n - 1) with true by (symmetry; apply Z.leb_le; lia). reflexivity.
Qed.

Lemma linspace_track o c n :
  linspace_list o (o + py_int_to_float (n - 1) * c)%float n = time_track_fl o c n.
Proof.
  unfold linspace_list, time_track_fl, time_track_f. apply map_ext_in. intros i Hi.
  apply in_zrange in Hi. rewrite linspace_stop by lia. reflexivity.
Qed.

Section Track.
Variable p : list (string * tpval).
Variables o c : float.
Hypothesis Hinc : tp_get "wf_increment" p = Some (TVFloat c).
Hypothesis Hoff : tp_get "wf_start_offset" p = Some (TVFloat o).

Theorem time_track_rel_eq n : 0 <= n -> time_track_rel_gen p n = Ok (time_track_fl o c n).
Proof.
  intros Hn. unfold time_track_rel_gen. rewrite Hinc, Hoff. cbn [need bind tp_float tt_len_gen]. unfold np_linspace.
  replace (n <? 0) with false by (symmetry; apply Z.ltb_ge; lia). cbn [bind]. rewrite linspace_track. reflexivity.
Qed.

Lemma uc_match (r : resolution) :
  match r with
  | Rs => Ok 0x1.0000000000000p+0%float | Rms => Ok 0x1.f400000000000p+9%float
  | Rus => Ok 0x1.e848000000000p+19%float | Rns => Ok 0x1.dcd6500000000p+29%float
  end = Ok (uc_f r).
Proof. destruct r; reflexivity. Qed.

Lemma res_eqb_refl r : res_eqb r r = true.
Proof. destruct r; reflexivity. Qed.

Lemma abs_tail start r n :
  np_dt_add_arr r (DtVal r start)
    (map trunc_f (map (fun x => (x * uc_f r)%float) (time_track_fl o c n)))
  = Ok (map (time_track_abs_f start r o c n) (zrange n)).
Proof.
  unfold np_dt_add_arr. rewrite res_eqb_refl. f_equal. unfold time_track_fl. rewrite !map_map.
  apply map_ext. intros i. unfold time_track_abs_f. destruct (trunc_f _); reflexivity.
Qed.

(* start time a TdmsTimestamp (raw_timestamps=True): converted by the translated as_datetime64(accuracy) *)
Theorem time_track_abs_eq n r s f start :
  tp_get "wf_start_time" p = Some (TVTimestamp s f) -> scalar_as_datetime64_gen r s f = Ok start -> 0 <= n ->
  time_track_abs_gen p n r = Ok (map (time_track_abs_f start r o c n) (zrange n)).
Proof.
  intros Hst Hconv Hn. unfold time_track_abs_gen. rewrite Hinc, Hoff. cbn [need bind tp_float tt_len_gen].
  unfold np_linspace. replace (n <? 0) with false by (symmetry; apply Z.ltb_ge; lia). cbn [bind].
  rewrite linspace_track, Hst. cbn [need bind]. rewrite Hconv. cbn [bind]. rewrite uc_match. cbn [bind].
  rewrite abs_tail. reflexivity.
Qed.

(* ... whose value is the model's conv_scalar (Props/C12_gen.v) *)
Corollary time_track_abs_conv n r s f :
  tp_get "wf_start_time" p = Some (TVTimestamp s f) -> representable r s (frac_steps_scalar r f) -> 0 <= n ->
  time_track_abs_gen p n r = Ok (map (time_track_abs_f (conv_scalar r s f) r o c n) (zrange n)).
Proof. intros Hst Hrep Hn. apply (time_track_abs_eq n r s f); [exact Hst|apply scalar_as_datetime64_eq, Hrep|exact Hn]. Qed.

(* start time a datetime64[us] (raw_timestamps=False), accuracy 'us' *)
Theorem time_track_abs_us_eq n start :
  tp_get "wf_start_time" p = Some (TVDatetime start) -> 0 <= n ->
  time_track_abs_gen p n Rus = Ok (map (time_track_abs_f start Rus o c n) (zrange n)).
Proof.
  intros Hst Hn. unfold time_track_abs_gen. rewrite Hinc, Hoff. cbn [need bind tp_float tt_len_gen].
  unfold np_linspace. replace (n <? 0) with false by (symmetry; apply Z.ltb_ge; lia). cbn [bind].
  rewrite linspace_track, Hst. cbn [need bind tp_as_dt]. pose proof (abs_tail start Rus n) as H. cbn [uc_f] in H.
  rewrite H. reflexivity.
Qed.

Theorem time_track_abs_no_start n r :
  tp_get "wf_start_time" p = None -> 0 <= n -> time_track_abs_gen p n r = Err EKey.
Proof.
  intros Hst Hn. unfold time_track_abs_gen. rewrite Hinc, Hoff. cbn [need bind tp_float tt_len_gen].
  unfold np_linspace. replace (n <? 0) with false by (symmetry; apply Z.ltb_ge; lia). cbn [bind].
  rewrite Hst. reflexivity.
Qed.

(* Props/C12_round.v time_track_rounding on the translated function *)
Theorem time_track_rounding_gen n i l y :
  time_track_rel_gen p n = Ok l -> nth_error l (Z.to_nat i) = Some y ->
  Ffin o -> Ffin c -> (2 <= n <= 2 ^ 53)%Z -> (0 <= i < n)%Z ->
  (Rabs (FR o) + IZR (n - 1) * Rabs (FR c) <= ovf64 / 2)%R ->
  Ffin y /\
  (Rabs (FR y - (FR o + IZR i * FR c)) <= tt_eps (Rabs (FR o)) (IZR (n - 1) * Rabs (FR c)) (IZR i))%R.
Proof.
  intros Hl Hy Fo Fc Hn Hi Hov. rewrite time_track_rel_eq in Hl by lia. injection Hl as <-.
  rewrite (time_track_fl_nth_proof o c n i Hi) in Hy. injection Hy as <-.
  apply time_track_rounding_proof; assumption.
Qed.

(* Props/C12_round.v time_track_absolute_rounding on the translated function *)
Theorem time_track_absolute_rounding_gen n i r s f start l :
  tp_get "wf_start_time" p = Some (TVTimestamp s f) -> scalar_as_datetime64_gen r s f = Ok start ->
  time_track_abs_gen p n r = Ok l ->
  Ffin o -> Ffin c -> (2 <= n <= 2 ^ 53)%Z -> (0 <= i < n)%Z ->
  (IZR (Z.abs start) + (Rabs (FR o) + IZR (n - 1) * Rabs (FR c)) * unit_correction r
    <= 9223372036854775808 - 16384)%R ->
  let P := FR (time_track_f o c n i * uc_f r)%float in
  let T := ((FR o + IZR i * FR c) * unit_correction r)%R in
  let E := tt_eps_abs (Rabs (FR o)) (IZR (n - 1) * Rabs (FR c)) (IZR i) (unit_correction r) in
  nth_error l (Z.to_nat i) = Some (Some (start + Ztrunc P)%Z) /\
  (Rabs (IZR (start + Ztrunc P) - (IZR start + T)) < 1 + E)%R.
Proof.
  intros Hst Hconv Hl Fo Fc Hn Hi Hov P T E.
  rewrite (time_track_abs_eq n r s f start Hst Hconv) in Hl by lia. injection Hl as <-.
  destruct (time_track_absolute_proof start r o c n i Fo Fc Hn Hi Hov) as (_ & _ & Habs & Hb).
  split; [|exact Hb].
  rewrite (map_nth_error _ _ _ (zrange_nth n i Hi)). f_equal. exact Habs.
Qed.
End Track.

(* the KeyError paths of the property lookups, in source order *)
Theorem time_track_rel_no_increment p n : tp_get "wf_increment" p = None -> time_track_rel_gen p n = Err EKey.
Proof. intros H. unfold time_track_rel_gen. rewrite H. reflexivity. Qed.
Theorem time_track_rel_no_offset p n v :
  tp_get "wf_increment" p = Some v -> tp_get "wf_start_offset" p = None -> time_track_rel_gen p n = Err EKey.
Proof. intros H1 H2. unfold time_track_rel_gen. rewrite H1, H2. reflexivity. Qed.
Theorem time_track_abs_no_increment p n r : tp_get "wf_increment" p = None -> time_track_abs_gen p n r = Err EKey.
Proof. intros H. unfold time_track_abs_gen. rewrite H. reflexivity. Qed.
Theorem time_track_abs_no_offset p n r v :
  tp_get "wf_increment" p = Some v -> tp_get "wf_start_offset" p = None -> time_track_abs_gen p n r = Err EKey.
Proof. intros H1 H2. unfold time_track_abs_gen. rewrite H1, H2. reflexivity. Qed.

Theorem tt_len_eq n : tt_len_gen n = Ok n.
Proof. reflexivity. Qed.
