(* Refinement of the reader model to Model/Spec.v — shared vocabulary.
   The specification has its own dictionaries (beq/get/put) and sum; they are
   the model's (bytes_eqb/alookup/aset, zsum).  [mk_obj] is the segment object
   the model holds for an object the specification describes by (path, has
   data, most recent index). *)
From Coq Require Import List ZArith Bool Lia.
From Coq Require Import Init.Byte.
Import ListNotations.
From NpTdms Require Import Base.Bytes Base.Res Model.Tokens Model.SegState Model.Layout Model.Reader
     Model.FileSyn Model.Spec Proofs.SegStateProofs.
Local Open Scope Z_scope.

Lemma beq_bytes_eqb a b : beq a b = bytes_eqb a b.
Proof. reflexivity. Qed.

Lemma get_alookup {V} k (d : dict V) : get k d = alookup k d.
Proof. reflexivity. Qed.

Lemma put_aset {V} k (v : V) (d : dict V) : put k v d = aset k v d.
Proof. reflexivity. Qed.

Lemma sum_z_zsum l : sum_z l = zsum l.
Proof. reflexivity. Qed.

Lemma beq_eq a b : beq a b = true <-> a = b.
Proof. rewrite beq_bytes_eqb. apply bytes_eqb_eq. Qed.

Lemma beq_refl a : beq a a = true.
Proof. apply beq_eq. reflexivity. Qed.

Lemma beq_neq a b : beq a b = false <-> a <> b.
Proof. rewrite beq_bytes_eqb. apply bytes_eqb_neq. Qed.

(* the model's segment object for (path, has data, most recent index) *)
Definition mk_obj (p : bytes) (hd : bool) (oi : option rawidx) : sobj :=
  match oi with
  | Some i => mkSobj p hd (ri_n i) (ri_bytes i) (Some (ri_dt i)) None
  | None => mkSobj p hd 0 0 None None
  end.

(* a data object *)
Definition dobj (o : bytes * rawidx) : sobj := mk_obj (fst o) true (Some (snd o)).

(* what [index_of] on a well-formed entry satisfying [entry_ok] guarantees *)
Definition idx_ok (i : rawidx) : Prop :=
  0 < ri_n i /\ 0 < ri_bytes i /\
  match type_size (ri_dt i) with
  | Some sz => ri_bytes i = ri_n i * sz
  | None => ri_dt i = T_STRING
  end.

(* the same with zero counts allowed: what [index_of] on a well-formed entry
   guarantees (counts and sizes fit u64, so they are >= 0) *)
Definition idx_ok0 (i : rawidx) : Prop :=
  0 <= ri_n i /\ 0 <= ri_bytes i /\
  match type_size (ri_dt i) with
  | Some sz => ri_bytes i = ri_n i * sz
  | None => ri_dt i = T_STRING
  end.

Lemma idx_ok_idx_ok0 i : idx_ok i -> idx_ok0 i.
Proof. intros (Hn & Hb & Hs). unfold idx_ok0. repeat split; try lia. exact Hs. Qed.

(* per-object metadata of the model vs. an object of the specification's content *)
Definition om_rel (pm : bytes * ometa) (po : bytes * cobj) : Prop :=
  fst pm = fst po /\
  om_props (snd pm) = o_props (snd po) /\
  om_dtype (snd pm) = o_dtype (snd po) /\
  om_scalers (snd pm) = None /\
  om_len (snd pm) = Z.of_nat (length (o_vals (snd po))).

(* the channel object TdmsFile builds for content object (p, o), p = /'g'/'name' *)
Definition chan_of_cobj (g name p : bytes) (o : cobj) : channel :=
  mkChan g name p (o_dtype o) None (Z.of_nat (length (o_vals o))) (o_props o).
