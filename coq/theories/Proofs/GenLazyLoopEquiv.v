(* TdmsReader.read_raw_data_for_channel, the WHOLE generator TRANSLATED from the source on every run
   (Gen/PyFuncsLazyLoop.v; harness/gen/gen_pyfuncs_lazyloop.py), run in the world of Proofs/GenLazyIdxEquiv.v, is EQUAL to
   Model/LazyRead.v lz_gen true true (the repaired generator about which window_correct and plan_exact_chunks are
   proved): same yielded chunks, same (segment, chunk) reads in the same order, same exception.

   World: the segments are the reader's records; what the file holds for the channel in a segment is given by
   [data_of] (layout kind, values of each chunk) -- a function of the segment record (two segments of one file differ
   at least in their position, so this is no restriction); the model's view of the file is
   [views] = the translated metadata view (seg_view) of every segment with that data.  The file state is the log of
   (segment position, chunk index) reads; the tag check reads no chunk. *)
From Coq Require Import ZArith List Bool Lia ZifyBool.
Import ListNotations.
From NpTdms Require Import Base.Bytes Base.Res Base.PySlice Model.Tokens Model.SegState Model.LazyRead
     Gen.PySlice_gen Gen.TypeTable Gen.PyFuncsReader Gen.PyFuncsLazyIdx Gen.PyFuncsLazyLoop
     Proofs.GenReaderEquiv Proofs.GenReaderLazy Proofs.GenLazyIdxEquiv
     Proofs.LazyReadProofs Proofs.LazyWindowProofs Proofs.LazyTopProofs.
From NpTdms Require Proofs.SegStateProofs.
Local Open Scope Z_scope.

Definition mapr {A B} (f : A -> B) (r : res A) : res B :=
  match r with Ok a => Ok (f a) | Err e => Err e end.

Lemma sl_map' {A B} (f : A -> B) a b (l : list A) : map f (sl a b l) = sl a b (map f l).
Proof.
  unfold sl, zfirstn, zskipn. rewrite <- firstn_map, <- skipn_map. reflexivity.
Qed.

Lemma py_slice_map {A B} (f : A -> B) (l : list A) a b : py_slice (map f l) a b = map f (py_slice l a b).
Proof. unfold py_slice, zlen. rewrite map_length, sl_map'. reflexivity. Qed.

(* ---- TdmsSegment.read_raw_data_for_channel up to its delegation to _read_channel_data_chunks (position arithmetic) ---- *)

(* closed form: the chunk range handed on is [chunk_offset, num_chunks + chunk_offset) -- the range Model/LazyRead.v
   seg_fetch reads -- or [chunk_offset, segment.num_chunks) for num_chunks = None; the file stands at
   data_position + chunk_size * chunk_offset (no relative seek for chunk_offset <= 0); one empty chunk is yielded first
   exactly when the segment's ToC lacks kTocRawData *)
Theorem segment_channel_window_eq s pos0 co nc :
  segment_channel_window_gen s pos0 co nc
  = do cs <- get_chunk_size_gen s;
    Ok (co, match nc with None => sg_nchunks s | Some n => n + co end, cs,
        if co >? 0 then sg_data s + cs * co else sg_data s,
        if Z.land (sg_toc s) 8 =? 0 then 1 else 0).
Proof.
  unfold segment_channel_window_gen.
  destruct (Z.land (sg_toc s) 8 =? 0); cbn [negb bind];
    (destruct (get_chunk_size_gen s) as [cs|er]; cbn [bind]; [|reflexivity]);
    (destruct (co >? 0); cbn [bind]; destruct nc; reflexivity).
Qed.

(* the chunk indices of the delegated range are those seg_fetch fetches *)
Corollary segment_channel_window_range s pos0 co n a b cs p e :
  segment_channel_window_gen s pos0 co (Some n) = Ok (a, b, cs, p, e) ->
  zrange a b = zrange co (n + co).
Proof.
  rewrite segment_channel_window_eq. destruct (get_chunk_size_gen s); cbn [bind]; [|discriminate].
  intros H. injection H as <- <- _ _ _. reflexivity.
Qed.

Section World2.
  Variable V : Type.
  Variable path : bytes.
  Variable data_of : segment -> seg_data V.

  Definition view (s : segment) : segv V := lview V path (s, data_of s).
  Definition views (segs : list segment) : list (segv V) := map view segs.

  Lemma views_lviews segs : views segs = lviews V segs path (map data_of segs).
  Proof.
    unfold views, lviews. induction segs as [|s r IH]; [reflexivity|]. cbn [map combine]. rewrite IH. reflexivity.
  Qed.

  (* list(segment.read_raw_data_for_channel(file, path, c, n)): the model's seg_fetch; the log gets the chunks read *)
  Definition w_chunks (f : iolog) (j : Z) (s : segment) (c n : Z) : res (list (list V) * iolog) :=
    do chunks <- seg_fetch V (view s) c n;
    Ok (chunks, f ++ map (fun c' => (j, c')) (zrange c (n + c))).

  (* ---- the inner loop: skip / trim / values_read accounting = emit_chunks ---- *)
  Lemma inner_loop_eq skip length : forall chunks i vr ys, 0 <= i ->
    read_raw_data_for_channel_gen_loop2 V skip length chunks i vr ys
    = (let '(outs, vr') := emit_chunks V chunks (i =? 0) skip vr length in Ok (vr', ys ++ outs)).
  Proof.
    induction chunks as [|ch r IH]; intros i vr ys Hi.
    - cbn [read_raw_data_for_channel_gen_loop2 emit_chunks]. rewrite app_nil_r. reflexivity.
    - cbn [read_raw_data_for_channel_gen_loop2 emit_chunks]. rewrite trim_channel_chunk_eq. cbn [bind].
      rewrite IH by lia. replace (i + 1 =? 0) with false by lia. fold (zlen ch).
      destruct (emit_chunks V r false skip _ length) as [outs vr']. rewrite <- app_assoc. reflexivity.
  Qed.

  Lemma inner_loop4_eq skip length : forall chunks i vr ys, 0 <= i ->
    read_raw_data_for_channel_gen_loop4 V skip length chunks i vr ys
    = (let '(outs, vr') := emit_chunks V chunks (i =? 0) skip vr length in Ok (vr', ys ++ outs)).
  Proof.
    induction chunks as [|ch r IH]; intros i vr ys Hi.
    - cbn [read_raw_data_for_channel_gen_loop4 emit_chunks]. rewrite app_nil_r. reflexivity.
    - cbn [read_raw_data_for_channel_gen_loop4 emit_chunks]. rewrite trim_channel_chunk_eq. cbn [bind].
      rewrite IH by lia. replace (i + 1 =? 0) with false by lia. fold (zlen ch).
      destruct (emit_chunks V r false skip _ length) as [outs vr']. rewrite <- app_assoc. reflexivity.
  Qed.

  Lemma chunk_range_view first offs st en off ei si s :
    seg_chunk_range V true first offs st en off ei si (view s)
    = seg_chunk_range unit true first offs st en off ei si (seg_view s path).
  Proof. reflexivity. Qed.

  Definition proj3 (p : iolog * Z * list (list V)) : list (list V) * iolog := (snd p, fst (fst p)).

  (* ---- the loop over the segments = lz_loop (repaired variant) ---- *)
  Lemma segment_loop_eq start offs first en off ei length : forall xs k f vr ys,
    mapr proj3 (read_raw_data_for_channel_gen_loop1 iolog V w_verify w_chunks start path offs first en off ei length
                                                    xs k f vr ys)
    = mapr (fun p => (ys ++ fst p, f ++ snd p))
           (lz_loop V true true first offs start en off length ei (views xs) (start + k) (start + k) vr).
  Proof.
    induction xs as [|s r IH]; intros k f vr ys.
    - cbn [read_raw_data_for_channel_gen_loop1 views map lz_loop mapr proj3 fst snd]. rewrite !app_nil_r. reflexivity.
    - cbn [read_raw_data_for_channel_gen_loop1 views map lz_loop]. unfold w_verify at 1. cbn [bind].
      rewrite read_chunk_range_eq. fold (views r).
      change (sv_chunk (view s)) with (sv_chunk (seg_view s path)).
      destruct (sv_chunk (seg_view s path) =? 0) eqn:E0.
      + cbn [bind]. rewrite IH. replace (start + (k + 1)) with (start + k + 1) by lia. reflexivity.
      + rewrite chunk_range_view.
        destruct (seg_chunk_range unit true first offs start en off ei (start + k) (seg_view s path)) as [[[co nc] skip]|er];
          cbn [bind mapr]; [|reflexivity].
        unfold w_chunks at 1.
        destruct (seg_fetch V (view s) co nc) as [chunks|er]; cbn [bind mapr]; [|reflexivity].
        rewrite inner_loop_eq by lia. change (0 =? 0) with true.
        destruct (emit_chunks V chunks true skip vr length) as [outs vr'] eqn:Ee. cbn [bind].
        rewrite IH. replace (start + (k + 1)) with (start + k + 1) by lia.
        destruct (lz_loop V true true first offs start en off length ei (views r) (start + k + 1) (start + k + 1) vr')
          as [[outs' log']|er]; cbn [mapr bind fst snd]; [|reflexivity].
        rewrite <- !app_assoc. reflexivity.
  Qed.

  Lemma segment_loop3_eq start offs first en off ei length : forall xs k f vr ys,
    mapr proj3 (read_raw_data_for_channel_gen_loop3 iolog V w_verify w_chunks start path offs first en off ei length
                                                    xs k f vr ys)
    = mapr (fun p => (ys ++ fst p, f ++ snd p))
           (lz_loop V true true first offs start en off length ei (views xs) (start + k) (start + k) vr).
  Proof.
    induction xs as [|s r IH]; intros k f vr ys.
    - cbn [read_raw_data_for_channel_gen_loop3 views map lz_loop mapr proj3 fst snd]. rewrite !app_nil_r. reflexivity.
    - cbn [read_raw_data_for_channel_gen_loop3 views map lz_loop]. unfold w_verify at 1. cbn [bind].
      rewrite read_chunk_range_eq. fold (views r).
      change (sv_chunk (view s)) with (sv_chunk (seg_view s path)).
      destruct (sv_chunk (seg_view s path) =? 0) eqn:E0.
      + cbn [bind]. rewrite IH. replace (start + (k + 1)) with (start + k + 1) by lia. reflexivity.
      + rewrite chunk_range_view.
        destruct (seg_chunk_range unit true first offs start en off ei (start + k) (seg_view s path)) as [[[co nc] skip]|er];
          cbn [bind mapr]; [|reflexivity].
        unfold w_chunks at 1.
        destruct (seg_fetch V (view s) co nc) as [chunks|er]; cbn [bind mapr]; [|reflexivity].
        rewrite inner_loop4_eq by lia. change (0 =? 0) with true.
        destruct (emit_chunks V chunks true skip vr length) as [outs vr'] eqn:Ee. cbn [bind].
        rewrite IH. replace (start + (k + 1)) with (start + k + 1) by lia.
        destruct (lz_loop V true true first offs start en off length ei (views r) (start + k + 1) (start + k + 1) vr')
          as [[outs' log']|er]; cbn [mapr bind fst snd]; [|reflexivity].
        rewrite <- !app_assoc. reflexivity.
  Qed.

  (* ---- the whole generator ---- *)
  Variable segs : list segment.
  Hypothesis Hok : forallb (seg_ok path) segs = true.
  Hypothesis Hfit : zsum (seg_nums unit (seg_views segs path)) < 2 ^ 63.

  Let svs := views segs.

  Lemma build_index_views : build_index V svs = build_index unit (seg_views segs path).
  Proof. unfold svs. rewrite views_lviews. apply build_index_lviews. apply map_length. Qed.

  (* after the index entry has been looked up: window arithmetic, segment search, the loop *)
  Lemma generator_core (tbl : alist (Z * list Z)) om f offset length first offs :
    alookup path om = Some (total_values V svs) ->
    build_index unit (seg_views segs path) = (first, offs) ->
    forall (loop : Z -> bytes -> list Z -> Z -> Z -> Z -> Z -> Z -> list segment -> Z -> iolog -> Z -> list (list V)
                   -> res (iolog * Z * list (list V))),
      (forall start en off ei len xs k f vr ys,
          mapr proj3 (loop start path offs first en off ei len xs k f vr ys)
          = mapr (fun p => (ys ++ fst p, f ++ snd p))
                 (lz_loop V true true first offs start en off len ei (views xs) (start + k) (start + k) vr)) ->
      (do object_metadata <- need EKey (alookup path om);
       let max_length_from_offset := ((fun n : Z => n) object_metadata) - offset in
       do length <- (match length with
                     | None => let length := max_length_from_offset in Ok length
                     | Some length => let length := Z.min length max_length_from_offset in Ok length
                     end);
       let end_index := offset + length in
       let start_segment := first + np_searchsorted true offs offset in
       let end_segment := first + np_searchsorted false offs end_index in
       let values_read := 0 in
       do '(self__file, values_read, yielded__) <-
          loop start_segment path offs first end_segment offset end_index length
               (py_slice segs start_segment (end_segment + 1)) 0 f values_read [];
       Ok (yielded__, tbl, self__file))
      = mapr (fun p => (fst p, tbl, f ++ snd p)) (lz_gen V true true svs offset length).
  Proof.
    intros Hom Hidx loop Hloop. rewrite Hom. cbn [need bind].
    unfold lz_gen. rewrite build_index_views, Hidx.
    change (np_searchsorted true) with searchsorted_right. change (np_searchsorted false) with searchsorted_left.
    unfold svs, views in *.
    destruct length as [l|]; cbv beta zeta; cbn [bind];
      match goal with
      | |- context [loop ?st path offs first ?en offset ?ei ?len (py_slice segs ?st (?en + 1)) 0 f 0 []] =>
        pose proof (Hloop st en offset ei len (py_slice segs st (en + 1)) 0 f 0 []) as H;
          replace (st + 0) with st in H by lia;
          rewrite py_slice_map;
          destruct (loop st path offs first en offset ei len (py_slice segs st (en + 1)) 0 f 0 []) as [[[f' vr'] ys']|er];
          destruct (lz_loop V true true first offs st en offset len ei (map view (py_slice segs st (en + 1))) st st 0)
            as [[outs log]|er']; cbn [mapr proj3 fst snd bind] in *; try discriminate;
            [injection H as -> ->; reflexivity|injection H as ->; reflexivity]
      end.
  Qed.

  (* TdmsReader.read_raw_data_for_channel run to its end = lz_gen: the yielded chunks, the reads appended to the file
     log, the exception; the index table afterwards holds the model's index of the channel *)
  Theorem read_raw_data_for_channel_eq tbl om f offset length :
    tbl_ok segs path tbl ->
    alookup path om = Some (total_values V svs) ->
    exists tbl', tbl_ok segs path tbl' /\
      read_raw_data_for_channel_gen iolog V w_verify w_chunks (Some segs) tbl om f path offset length
      = mapr (fun p => (fst p, tbl', f ++ snd p)) (lz_gen V true true svs offset length).
  Proof.
    intros Ht Hom. unfold read_raw_data_for_channel_gen. unfold tbl_ok in Ht.
    destruct (build_index unit (seg_views segs path)) as [first offs] eqn:Hidx.
    destruct (alookup path tbl) as [hit|] eqn:Ea.
    - subst hit. exists tbl. split; [unfold tbl_ok; rewrite Ea; symmetry; exact Hidx|].
      exact (generator_core tbl om f offset length first offs Hom Hidx _
                            (fun start en off ei len => segment_loop_eq start offs first en off ei len)).
    - rewrite build_index_eq by assumption. cbn [bind]. rewrite Hidx.
      set (tbl' := aset path (first, offs) tbl).
      assert (Ea' : alookup path tbl' = Some (first, offs)).
      { unfold tbl'. rewrite SegStateProofs.alookup_aset, SegStateProofs.bytes_eqb_refl. reflexivity. }
      rewrite Ea'. cbn [need bind]. exists tbl'. split; [unfold tbl_ok; rewrite Ea'; symmetry; exact Hidx|].
      exact (generator_core tbl' om f offset length first offs Hom Hidx _
                            (fun start en off ei len => segment_loop3_eq start offs first en off ei len)).
  Qed.

  (* the reads the translated generator makes are EXACTLY the chunks meeting the window *)
  Theorem plan_exact_chunks_gen tbl om f offs len :
    tbl_ok segs path tbl -> alookup path om = Some (total_values V svs) ->
    wf V svs = true -> 0 <= offs -> (match len with None => True | Some l => 0 <= l end) ->
    exists outs log tbl',
      read_raw_data_for_channel_gen iolog V w_verify w_chunks (Some segs) tbl om f path offs len
      = Ok (outs, tbl', f ++ log) /\
      (forall j c, In (j, c) log <->
         exists sv, 0 <= j /\ nth_error svs (Z.to_nat j) = Some sv /\
                    sv_chunk sv <> 0 /\ 0 <= c < sv_nchunks sv /\
                    chunk_start V (pre V svs j) sv c < win_end (total_values V svs) offs len /\
                    offs < chunk_end V (pre V svs j) sv c).
  Proof.
    intros Ht Hom Hwf Ho Hl.
    destruct (read_raw_data_for_channel_eq tbl om f offs len Ht Hom) as (tbl' & Ht' & Hg).
    destruct (LazyTopProofs.plan_exact V svs offs len Hwf Ho Hl) as (plan & Hplan & Hchar).
    unfold lz_plan in Hplan.
    assert (E1 : (offs <? 0) = false) by lia. rewrite E1 in Hplan.
    assert (E2 : (match len with Some l => l <? 0 | None => false end) = false) by (destruct len; lia).
    rewrite E2 in Hplan.
    destruct (lz_gen V true true svs offs len) as [[outs log]|er] eqn:Eg; cbn [bind mapr fst snd] in *; [|discriminate].
    injection Hplan as <-. exists outs, log, tbl'. split; [exact Hg|exact Hchar].
  Qed.

  (* ---- Props/C04.v window_correct and Props/C19.v plan_exact_chunks transported ---- *)
  Variable zero : V.

  (* the values TdmsChannel._read_channel_data hands back after appending every yielded chunk to its receiver *)
  Definition receive (rk : recv_kind) (num_values : Z) (chunks : list (list V)) : res (list V) :=
    match rk with
    | RNumpy => recv_numpy V (repeat zero (Z.to_nat num_values)) 0 chunks
    | RList => Ok (concat chunks)
    end.

  Theorem window_correct_gen rk tbl om f offs len :
    tbl_ok segs path tbl -> alookup path om = Some (total_values V svs) ->
    wf V svs = true -> 0 <= offs -> (match len with None => True | Some l => 0 <= l end) ->
    exists outs log tbl' dt,
      tbl_ok segs path tbl' /\
      read_raw_data_for_channel_gen iolog V w_verify w_chunks (Some segs) tbl om f path offs len
      = Ok (outs, tbl', f ++ log) /\
      lz_plan V svs offs len = Ok log /\
      exists n, read_channel_data_alloc_gen (Some dt) false (total_values V svs) offs len = Ok (Some n) /\
                receive rk n outs = Ok (match len with
                                        | None => zskipn offs (full V svs)
                                        | Some l => zfirstn l (zskipn offs (full V svs))
                                        end).
  Proof.
    intros Ht Hom Hwf Ho Hl.
    destruct (read_raw_data_for_channel_eq tbl om f offs len Ht Hom) as (tbl' & Ht' & Hg).
    pose proof (LazyTopProofs.window_correct V zero rk svs offs len Hwf Ho Hl) as Hw.
    unfold lz_read in Hw. rewrite (read_channel_data_validated V zero true true rk svs offs len 0) in Hw.
    rewrite read_channel_data_alloc_eq in *.
    assert (E1 : (offs <? 0) = false) by lia. rewrite E1 in Hw.
    assert (E2 : (match len with Some l => l <? 0 | None => false end) = false) by (destruct len; lia).
    rewrite E2 in Hw.
    destruct (lz_gen V true true svs offs len) as [[outs log]|er] eqn:Eg; cbn [bind mapr fst snd] in *; [|discriminate].
    exists outs, log, tbl', 0. split; [exact Ht'|]. split; [exact Hg|]. split.
    - unfold lz_plan. rewrite E1, E2, Eg. reflexivity.
    - eexists. rewrite read_channel_data_alloc_eq, E1, E2. split; [reflexivity|]. exact Hw.
  Qed.

End World2.

(* ---- the file of Proofs/GenLazyIdxEquiv.v: channel a (3 values per chunk) in segments 0 and 2, absent from segment 1;
   segment 2 has three chunks, the last one truncated to 2 values; 14 values ---- *)
Section GenLazyLoopExample.
Definition ex_data_of (s : segment) : seg_data Z :=
  if sg_pos s =? 0 then (false, [[1; 2; 3]; [4; 5; 6]])
  else if sg_pos s =? 100 then (false, [[]])
  else (false, [[7; 8; 9]; [10; 11; 12]; [13; 14]]).

Lemma ex_loop_hyps :
  forallb (seg_ok ex_path) ex_segs = true /\
  zsum (seg_nums unit (seg_views ex_segs ex_path)) < 2 ^ 63 /\
  wf Z (views Z ex_path ex_data_of ex_segs) = true /\
  total_values Z (views Z ex_path ex_data_of ex_segs) = 14 /\
  full Z (views Z ex_path ex_data_of ex_segs) = [1; 2; 3; 4; 5; 6; 7; 8; 9; 10; 11; 12; 13; 14].
Proof. repeat split; vm_compute; congruence. Qed.

(* read_data(4, 7): values 5 .. 11 -- chunk 1 of segment 0 (skipping one value), segment 1 skipped (tag check only),
   chunks 0 and 1 of segment 2 (the last one trimmed by one value); the index table is built on the way *)
Lemma ex_loop_run :
  read_raw_data_for_channel_gen iolog Z w_verify (w_chunks Z ex_path ex_data_of) (Some ex_segs) [] [(ex_path, 14)] []
                                ex_path 4 (Some 7)
  = Ok ([[5; 6]; [7; 8; 9]; [10; 11]], [(ex_path, (0, [6; 6; 14]))], [(0, 1); (2, 0); (2, 1)]) /\
  lz_gen Z true true (views Z ex_path ex_data_of ex_segs) 4 (Some 7)
  = Ok ([[5; 6]; [7; 8; 9]; [10; 11]], [(0, 1); (2, 0); (2, 1)]) /\
  read_raw_data_for_channel_gen iolog Z w_verify (w_chunks Z ex_path ex_data_of) None [] [(ex_path, 14)] []
                                ex_path 4 (Some 7) = Err ERuntime.
Proof. vm_compute. repeat split; reflexivity. Qed.
End GenLazyLoopExample.
