(* TdmsFile.file_status TRANSLATED from nptdms/tdms.py (Gen/PyFuncsStatus.v) = the model's observation
   Model/Reader.v obs_status of the reader state the metadata pass left. *)
From Coq Require Import String.
From Coq Require Import ZArith List Bool Lia.
Import ListNotations.
From NpTdms Require Import Base.Bytes Base.Res Base.PySlice Model.Tokens Model.SegState Model.Reader Gen.PyFuncsStatus.
Local Open Scope Z_scope.

(* FileStatus(incomplete_final_segment, channel_statuses) as the harness observes it: the flag, then None or the
   dictionary path -> (expected_length, read_length) in its order *)
Definition status_toks (r : bool * option (alist (Z * Z))) : list tok :=
  TZ (if fst r then 1 else 0) ::
  match snd r with
  | None => [TZ 0]
  | Some d => TZ 1 :: TZ (Z.of_nat (length d)) ::
              flat_map (fun kv => [TB (fst kv); TZ (fst (snd kv)); TZ (snd (snd kv))]) d
  end.

Lemma py_index_last {A} (l : list A) s r : rev l = s :: r -> py_index l (-1) = Ok s.
Proof.
  intros H. assert (E : l = rev r ++ [s]) by (rewrite <- (rev_involutive l), H; reflexivity).
  subst l. unfold py_index, zlen. rewrite app_length. cbn [length].
  replace (-1 <? 0) with true by reflexivity.
  replace (-1 + Z.of_nat (length (rev r) + 1)) with (Z.of_nat (length (rev r))) by lia.
  replace (0 <=? Z.of_nat (length (rev r))) with true by (symmetry; apply Z.leb_le; lia).
  replace (Z.of_nat (length (rev r)) <? Z.of_nat (length (rev r) + 1)) with true by (symmetry; apply Z.ltb_lt; lia).
  cbn [andb]. rewrite Nat2Z.id. rewrite nth_error_app2 by lia. rewrite Nat.sub_diag. reflexivity.
Qed.

Lemma fold_left_map' {A B C} (f : C -> B -> C) (g : A -> B) l a :
  fold_left f (map g l) a = fold_left (fun acc x => f acc (g x)) l a.
Proof. revert a. induction l as [|x r IH]; intros a; [reflexivity|]. cbn. apply IH. Qed.

Theorem file_status_eq st :
  exists r, file_status_gen (rs_segments st) = Ok r /\ status_toks r = obs_status st.
Proof.
  unfold file_status_gen, obs_status. cbv zeta.
  destruct (rev (rs_segments st)) as [|s r] eqn:Er.
  - assert (E : rs_segments st = []) by (rewrite <- (rev_involutive (rs_segments st)), Er; reflexivity).
    rewrite E. cbn. eexists. split; reflexivity.
  - rewrite (py_index_last _ _ _ Er).
    destruct (rs_segments st) as [|x l] eqn:El; [discriminate Er|]. cbn [bind].
    destruct (sg_final s) as [f|]; cbn [bind].
    + eexists. split; [reflexivity|]. unfold status_toks, py_dict_of_pairs, data_objs. cbn [fst snd].
      rewrite !fold_left_map'. reflexivity.
    + destruct (sg_incomplete s); cbn [bind].
      * eexists. split; [reflexivity|]. unfold status_toks, py_dict_of_pairs, data_objs. cbn [fst snd].
        rewrite !fold_left_map'. reflexivity.
      * eexists. split; reflexivity.
Qed.

(* no segment at all: not incomplete, no statuses *)
Corollary file_status_no_segments : file_status_gen [] = Ok (false, None).
Proof. reflexivity. Qed.

(* a complete last segment whose chunks all have their full length: no statuses *)
Corollary file_status_complete segs s :
  sg_incomplete s = false -> sg_final s = None -> file_status_gen (segs ++ [s]) = Ok (false, None).
Proof.
  intros Hi Hf. unfold file_status_gen. cbv zeta.
  rewrite (py_index_last (segs ++ [s]) s (rev segs)) by (rewrite rev_app_distr; reflexivity).
  destruct (segs ++ [s]) eqn:E; [destruct segs; discriminate E|]. cbn [bind]. rewrite Hf, Hi. reflexivity.
Qed.
